(* The REGENERATED translation of /repo's node.go (Gen/NodeGen.v, written by
   go/cmd/srcfacts/translate_node.go on every run in the vocabulary of
   Model/GoNode.v) IS the hand-written model: Model/Pool.v (xclear, xadd256 xadd48
   xadd16 xadd4 xadd, xdel256 xdel48 xdel16 xdel4 xdel) and Model/PoolTree.v
   (xfind, xdel_child = xcollapse after xdel).

   The two sides were written independently.  What has to be proved:
   * the loops: the translation is a fold_left over seq 0 n of the variables the
     Go body assigns (element writes by index into the arrays of a node value),
     the model a structural recursion over the arrays; `for children[pos].pointer
     != nil { pos++ }` is go_while with fuel 48 against Node.first_free;
   * Go's copy on overlapping slices (gcopy of a skipn) against the model's
     shift_right_from / shift_left_onto;
   * uint8 / uint32 / int arithmetic with wrap against the model's nat / N;
   * node4.deleteChild's merge of the compressed paths, computed in uint32 with
     gcopy, against PoolTree.xcollapse, computed in nat with copy_into.
   The rest is unfolding.  Hypotheses: see the comment before each theorem; the
   lemmas *_hyps_from_xwf show that they follow from PoolFacts.xwf (and, for
   deleteChild, from the presence of the byte, which the Go code needs not to
   panic). *)
From GoArt Require Import Base.Bytes Model.Node4 Model.Node16 Model.Node Model.Tree Model.Pool Model.PoolTree
  Model.GoNode Gen.NodeGen Spec.NodeSpec Proofs.Node4Facts Proofs.NodeAuxList Proofs.PoolFacts.
From Coq Require Import ZifyN ZifyNat ZifyBool.
Ltac Zify.zify_post_hook ::= Z.div_mod_to_equations.
Open Scope N_scope.

(* ------------------------------------------------------------------ *)
(* lists                                                               *)
(* ------------------------------------------------------------------ *)
Lemma nth_slot : forall {C} (l : list (option C)) i, nth i l None = slot l i.
Proof.
  intros C l. unfold slot. induction l as [|x l IH]; intros [|i]; cbn [nth nth_error]; try reflexivity. apply IH.
Qed.

Lemma nth_slot_at : forall {C} (l : list (option C)) j, nth (N.to_nat j) l None = slot_at l j.
Proof. intros. rewrite nth_slot. reflexivity. Qed.

Lemma set_at_middle : forall {A} (pre : list A) x y r, set_at (length pre) y (pre ++ x :: r) = pre ++ y :: r.
Proof. intros A pre x y r. induction pre as [|a pre IH]; cbn [length app set_at]; [reflexivity|f_equal; exact IH]. Qed.

Lemma set_at_middle_eq : forall {A} n (pre : list A) x y r, n = length pre ->
  set_at n y (pre ++ x :: r) = pre ++ y :: r.
Proof. intros; subst; apply set_at_middle. Qed.

Lemma firstn_ge : forall {A} n (l : list A), (length l <= n)%nat -> firstn n l = l.
Proof. intros. apply firstn_all2. assumption. Qed.

Lemma skipn_ge : forall {A} n (l : list A), (length l <= n)%nat -> skipn n l = [].
Proof. intros. apply skipn_all2. assumption. Qed.

Lemma skipn_add : forall {A} a b (l : list A), skipn a (skipn b l) = skipn (b + a) l.
Proof.
  intros A a b. induction b as [|b IH]; intros l; [reflexivity|].
  destruct l as [|x l]; cbn [skipn Nat.add]; [destruct a; reflexivity|apply IH].
Qed.

(* copy(a[i+1:], a[i:]) *)
Lemma gcopy_shift_right : forall {A} i (l : list A), gcopy (S i) (skipn i l) l = shift_right_from i l.
Proof.
  intros A i l. unfold gcopy, shift_right_from.
  destruct (Nat.lt_ge_cases i (length l)) as [Hi|Hi].
  - rewrite firstn_app. rewrite firstn_length, Nat.min_l by lia.
    rewrite (firstn_ge (length l) (firstn (S i) l)) by (rewrite firstn_length; lia).
    rewrite (skipn_ge (S i + length (skipn i l))) by (rewrite skipn_length; lia).
    rewrite app_nil_r. reflexivity.
  - rewrite (skipn_ge i l) by lia. rewrite firstn_nil. rewrite (firstn_ge (S i) l) by lia.
    rewrite (skipn_ge _ l) by (cbn [length]; lia). rewrite !app_nil_r.
    rewrite (firstn_ge (length l) l) by lia. reflexivity.
Qed.

(* copy(a[i:], a[i+1:]) *)
Lemma gcopy_shift_left : forall {A} i (l : list A), (i < length l)%nat ->
  gcopy i (skipn (S i) l) l = shift_left_onto i l.
Proof.
  intros A i l Hi. unfold gcopy, shift_left_onto.
  rewrite (firstn_ge (length l - i)) by (rewrite skipn_length; lia).
  rewrite skipn_length. do 3 f_equal. lia.
Qed.

(* copy(dst[off:], src) as the model writes it in xcollapse *)
Lemma gcopy_copy_into : forall off (src dst : list N),
  gcopy off src dst = firstn off dst ++ copy_into (skipn off dst) src.
Proof.
  intros off src dst. unfold gcopy, copy_into. f_equal. rewrite skipn_length.
  destruct (Nat.le_gt_cases (length src) (length dst - off)) as [H|H].
  - rewrite Nat.min_r by lia. rewrite (firstn_ge (length dst - off) src) by lia.
    rewrite (firstn_ge (length src) src) by lia. rewrite skipn_add. reflexivity.
  - rewrite Nat.min_l by lia. f_equal. rewrite skipn_add.
    rewrite (skipn_ge (off + length src)) by lia. rewrite skipn_ge by lia. reflexivity.
Qed.

(* ------------------------------------------------------------------ *)
(* machine arithmetic                                                  *)
(* ------------------------------------------------------------------ *)
Lemma to_nat_of_N : forall x, Z.to_nat (Z.of_N x) = N.to_nat x.
Proof. intros; lia. Qed.
Lemma add8_u8 : forall a b, add8 a b = u8 (a + b).
Proof. reflexivity. Qed.
Lemma sub8_1 : forall x, sub8 x 1 = u8 (x + 255).
Proof. intros x. unfold sub8, u8. f_equal. lia. Qed.
Lemma sub8_pred : forall x, 1 <= x -> x < 256 -> sub8 x 1 = x - 1.
Proof. intros x H1 H2. unfold sub8. lia. Qed.
Lemma u8_of_int_nat : forall n, u8_of_int (Z.of_nat n) = u8 (N.of_nat n).
Proof. intros n. unfold u8_of_int, u8. lia. Qed.
Lemma u8_of_int_nat_succ : forall n, u8_of_int (Z.of_nat n + 1) = u8 (N.of_nat n + 1).
Proof. intros n. unfold u8_of_int, u8. lia. Qed.

Definition bytes_lt (l : list N) : Prop := Forall (fun x => x < 256) l.

Lemma bytes_lt_nth : forall l i, bytes_lt l -> nth i l 0 < 256.
Proof.
  intros l i H. destruct (Nat.lt_ge_cases i (length l)) as [Hi|Hi].
  - apply (proj1 (Forall_forall _ _) H). apply nth_In. exact Hi.
  - rewrite nth_overflow by lia. lia.
Qed.

Lemma skipn_nth : forall {A} s (l : list A) d, (s < length l)%nat -> skipn s l = nth s l d :: skipn (S s) l.
Proof.
  intros A s. induction s as [|s IH]; intros [|x l] d H; cbn [length] in H; try lia; [reflexivity|].
  cbn [skipn nth]. apply IH. lia.
Qed.

(* the int results of the search routines: -1 or a position *)
Lemma insertPosNode16_range : forall keys len b, insertPosNode16 keys len b = (-1)%Z \/ (0 <= insertPosNode16 keys len b)%Z.
Proof. intros. unfold insertPosNode16. destruct (N.eqb _ 0); [left; reflexivity|right; lia]. Qed.
Lemma searchNode16_range : forall keys len b, searchNode16 keys len b = (-1)%Z \/ (0 <= searchNode16 keys len b)%Z.
Proof. intros. unfold searchNode16. destruct (N.eqb _ 0); [left; reflexivity|right; lia]. Qed.
Lemma insertPosNode4_range : forall keys b, insertPosNode4 keys b = (-1)%Z \/ (0 <= insertPosNode4 keys b)%Z.
Proof. intros. unfold insertPosNode4. destruct (N.eqb _ 0); [left; reflexivity|right; lia]. Qed.
Lemma searchNode4_range : forall keys b, searchNode4 keys b = (-1)%Z \/ (0 <= searchNode4 keys b)%Z.
Proof. intros. unfold searchNode4. destruct (N.eqb _ 0); [left; reflexivity|lia]. Qed.

(* unfold the field vocabulary of Model/GoNode.v on nodes whose constructor is known *)
Ltac nsimp :=
  cbv beta iota zeta delta [f_childrenLen f_prefixLen f_prefix f_children f_keys4 f_keysB s_node s_childrenLen
    s_prefixLen s_prefix s_children s_keys4 s_keysB hs_childrenLen hs_prefixLen hs_prefix h_childrenLen
    h_prefixLen h_prefix xh xch xword xbytes fst snd].
Tactic Notation "nsimp" "in" hyp(H) :=
  cbv beta iota zeta delta [f_childrenLen f_prefixLen f_prefix f_children f_keys4 f_keysB s_node s_childrenLen
    s_prefixLen s_prefix s_children s_keys4 s_keysB hs_childrenLen hs_prefixLen hs_prefix h_childrenLen
    h_prefixLen h_prefix xh xch xword xbytes fst snd] in H.

Section Gen.
Context {C : Type}.
Implicit Types (ch : list (option C)) (p : @pool C).

(* every pooled node has the array sizes of its Go type *)
Definition pool_shapes p : Prop := Forall (fun n => shape_ok n = true) p.

Lemma get_shape : forall o k p, pool_shapes p ->
  xkind (fst (get o k p)) = k /\ shape_ok (fst (get o k p)) = true /\ pool_shapes (snd (get o k p)).
Proof.
  intros o k p Hp. destruct (get_spec o k p) as (Hk & Hs & Hsub). split; [exact Hk|]. split.
  - destruct Hs as [Hz|Hi]; [rewrite Hz; apply shape_xzero|].
    exact (proj1 (Forall_forall _ _) Hp _ Hi).
  - apply Forall_forall. intros x Hx. apply (proj1 (Forall_forall _ _) Hp). apply Hsub. exact Hx.
Qed.

(* ------------------------------------------------------------------ *)
(* clear                                                               *)
(* ------------------------------------------------------------------ *)
(* xclear is driven by the regenerated Gen.SrcFacts.clear_bodies (which fields the body resets);
   the translation resets what the statements of the body reset *)
Theorem gen_node4_clear_eq : forall h keys ch, g_node4_clear (X4 h keys ch) = xclear (X4 h keys ch).
Proof. intros. reflexivity. Qed.
Theorem gen_node16_clear_eq : forall h keys ch, g_node16_clear (X16 h keys ch) = xclear (X16 h keys ch).
Proof. intros. reflexivity. Qed.
Theorem gen_node48_clear_eq : forall h idx ch, g_node48_clear (X48 h idx ch) = xclear (X48 h idx ch).
Proof. intros. reflexivity. Qed.
Theorem gen_node256_clear_eq : forall h ch, g_node256_clear (X256 h ch) = xclear (X256 h ch).
Proof. intros. reflexivity. Qed.

(* ------------------------------------------------------------------ *)
(* findChild                                                           *)
(* ------------------------------------------------------------------ *)
(* the index bytes of a node48 are bytes (uint8 arithmetic on them does not wrap) *)
Definition idx_bytes (n : xnode C) : Prop :=
  match n with X48 _ idx _ => bytes_lt idx | _ => True end.

Theorem gen_findChild_eq : forall (n : xnode C) b, idx_bytes n -> g_findChild n b = xfind n b.
Proof.
  intros [h keys ch|h keys ch|h idx ch|h ch] b Hb; unfold g_findChild, xfind;
    cbn [xkind f_keys4 f_keysB f_children f_childrenLen xword xbytes xch xh].
  - rewrite nth_slot. reflexivity.
  - rewrite nth_slot. destruct (Z.eqb _ _); reflexivity.
  - cbn [idx_bytes] in Hb. pose proof (bytes_lt_nth idx (N.to_nat b) Hb) as Hlt.
    destruct (N.eqb_spec (nth (N.to_nat b) idx 0) 0) as [E|E]; cbn [negb]; [reflexivity|].
    rewrite sub8_pred by lia. rewrite nth_slot. reflexivity.
  - rewrite nth_slot. destruct (slot ch (N.to_nat b)); reflexivity.
Qed.

(* ------------------------------------------------------------------ *)
(* addChild                                                            *)
(* ------------------------------------------------------------------ *)
Theorem gen_node256_addChild_eq : forall h ch b c, g_node256_addChild (X256 h ch) b c = xadd256 h ch b c.
Proof. intros. reflexivity. Qed.

(* for n48.children[pos].pointer != nil { pos++ }  is Node.first_free *)
Lemma while_first_free : forall rest pre, (length pre + length rest <= 255)%nat ->
  go_while (length rest) (fun pos => not_nil (nth (N.to_nat pos) (pre ++ rest) (@None C))) (fun pos => add8 pos 1)
           (N.of_nat (length pre)) = N.of_nat (first_free rest (length pre)).
Proof.
  induction rest as [|x rest IH]; intros pre Hl; cbn [length go_while first_free]; [reflexivity|].
  rewrite Nat2N.id. rewrite nth_middle. destruct x as [c|]; cbn [not_nil]; [|reflexivity].
  cbn [length] in Hl.
  replace (add8 (N.of_nat (length pre)) 1) with (N.of_nat (length (pre ++ [Some c])))
    by (rewrite app_length; cbn [length]; unfold add8; lia).
  replace (pre ++ Some c :: rest) with ((pre ++ [Some c]) ++ rest) by (rewrite <- app_assoc; reflexivity).
  rewrite IH by (rewrite app_length; cbn [length]; lia).
  rewrite app_length. cbn [length]. f_equal. f_equal. lia.
Qed.

Lemma first_free_le : forall ch i, (first_free ch i <= i + length ch)%nat.
Proof.
  induction ch as [|[c|] ch IH]; intros i; cbn [first_free length]; try lia.
  specialize (IH (S i)). lia.
Qed.

(* for i := 0; i < 256; i++ { if n48.keys[i] != 0 { n256.children[i] = n48.children[n48.keys[i]-1] } }
   is Pool.grow48_loop *)
Lemma grow48_fold : forall (slots : list (option C)) h irest ipre dpre drest,
  length ipre = length dpre -> length irest = length drest -> bytes_lt irest ->
  fold_left (fun (n256 : xnode C) (i_n : nat) =>
      let i := Z.of_nat i_n in
      let n256 :=
        if negb (N.eqb (nth (Z.to_nat i) (ipre ++ irest) 0) 0) then (
          let n256 := s_children (set_at (Z.to_nat i)
                        (nth (N.to_nat (sub8 (nth (Z.to_nat i) (ipre ++ irest) 0) 1)) slots None) (f_children n256)) n256 in
          n256
        ) else (
          n256
        ) in
      n256)
    (seq (length ipre) (length irest)) (X256 h (dpre ++ drest))
  = X256 h (dpre ++ grow48_loop irest slots drest).
Proof.
  intros slots h. cbv zeta. induction irest as [|x irest IH]; intros ipre dpre drest Hp Hr Hb.
  - destruct drest; [|discriminate]. reflexivity.
  - destruct drest as [|d drest]; [discriminate|]. cbn [length seq fold_left grow48_loop].
    rewrite Nat2Z.id, nth_middle. inversion Hb as [|? ? Hx Hb']; subst.
    cbn [f_children xch s_children]. rewrite (set_at_middle_eq _ _ _ _ _ Hp).
    replace (ipre ++ x :: irest) with ((ipre ++ [x]) ++ irest) by (rewrite <- app_assoc; reflexivity).
    replace (S (length ipre)) with (length (ipre ++ [x])) by (rewrite app_length; cbn [length]; lia).
    destruct (N.eqb_spec x 0) as [E|E]; cbn [negb].
    + replace (dpre ++ d :: drest) with ((dpre ++ [d]) ++ drest) by (rewrite <- app_assoc; reflexivity).
      rewrite IH; [rewrite <- app_assoc; reflexivity|rewrite !app_length; cbn [length]; lia|
                   cbn [length] in Hr; lia|exact Hb'].
    + rewrite sub8_pred by lia. rewrite nth_slot_at.
      replace (dpre ++ slot_at slots (x - 1) :: drest) with ((dpre ++ [slot_at slots (x - 1)]) ++ drest)
        by (rewrite <- app_assoc; reflexivity).
      rewrite IH; [rewrite <- app_assoc; reflexivity|rewrite !app_length; cbn [length]; lia|
                   cbn [length] in Hr; lia|exact Hb'].
Qed.

(* Hypotheses: the array sizes (of the node and of the pooled nodes); when the node is full (it grows)
   its index bytes are bytes (n48.keys[i]-1 is computed in uint8).  b may be anything. *)
Theorem gen_node48_addChild_eq : forall h idx ch b c os p,
  shape_ok (X48 h idx ch) = true -> pool_shapes p -> xlen h < maxNode48 \/ bytes_lt idx ->
  g_node48_addChild (X48 h idx ch) b c os p = xadd48 h idx ch b c os p.
Proof.
  intros h idx ch b c os p Hs Hp Hb. unfold g_node48_addChild, xadd48.
  cbn [shape_ok] in Hs. apply andb_prop in Hs. destruct Hs as [Hli Hlc].
  apply Nat.eqb_eq in Hli, Hlc.
  change maxNode48 with 48 in *. nsimp. destruct (N.ltb_spec (xlen h) 48) as [Hlt|Hge].
  - pose proof (while_first_free ch [] ltac:(cbn [length]; lia)) as W. cbn [length app] in W.
    rewrite Hlc in W. change (N.of_nat 0) with 0 in W. rewrite W.
    rewrite Nat2N.id. reflexivity.
  - destruct Hb as [Hb|Hb]; [lia|].
    destruct (get_shape (nxt os) K256 p Hp) as (Hk & Hsa & _).
    destruct (get (nxt os) K256 p) as [a p1]. cbn [fst snd] in *.
    destruct a as [ha ka ca|ha ka ca|ha ka ca|ha ca]; try discriminate Hk.
    cbn [shape_ok] in Hsa. apply Nat.eqb_eq in Hsa.
    pose proof (grow48_fold ch ha idx [] [] ca eq_refl ltac:(lia) Hb) as F.
    cbn [length app] in F. rewrite Hli in F. nsimp in F. rewrite F.
    rewrite Nat2N.id. rewrite gen_node48_clear_eq. reflexivity.
Qed.

(* for i := uint8(0); i < n16.childrenLen; i++ { n48.keys[n16.keys[i]] = i + 1 }  is Pool.grow16_idx *)
Lemma grow16_fold : forall keys n s hx kx (cx : list (option C)), (s + n <= length keys)%nat ->
  fold_left (fun (n48 : xnode C) (i_n : nat) =>
      let i := N.of_nat i_n in
      let n48 := s_keysB (set_at (N.to_nat (nth (N.to_nat i) keys 0)) (add8 i 1) (f_keysB n48)) n48 in
      n48)
    (seq s n) (X48 hx kx cx)
  = X48 hx (fold_left (fun idx (ik : nat * N) => set_at (N.to_nat (snd ik)) (u8 (N.of_nat (fst ik) + 1)) idx)
                      (combine (seq s n) (firstn n (skipn s keys))) kx) cx.
Proof.
  intros keys n. nsimp. induction n as [|n IH]; intros s hx kx cx H; [reflexivity|].
  cbn [seq fold_left]. rewrite (skipn_nth s keys 0) by lia. cbn [firstn combine fold_left fst snd].
  rewrite Nat2N.id. rewrite IH by lia. reflexivity.
Qed.

(* Hypotheses: the array sizes; childrenLen <= 16 (so that the node48 it grows into is not full). *)
Theorem gen_node16_addChild_eq : forall h keys ch b c os p,
  shape_ok (X16 h keys ch) = true -> pool_shapes p -> xlen h <= maxNode16 ->
  g_node16_addChild (X16 h keys ch) b c os p = xadd16 h keys ch b c os p.
Proof.
  intros h keys ch b c os p Hs Hp Hlen. unfold g_node16_addChild, xadd16.
  cbn [shape_ok] in Hs. apply andb_prop in Hs. destruct Hs as [Hlk Hlc].
  apply Nat.eqb_eq in Hlk, Hlc. change maxNode16 with 16 in *.
  nsimp. destruct (N.ltb (xlen h) 16).
  - destruct (insertPosNode16_range keys (xlen h) b) as [E|E].
    + rewrite E, Z.eqb_refl. cbn [negb]. nsimp. rewrite to_nat_of_N. reflexivity.
    + destruct (Z.eqb_spec (insertPosNode16 keys (xlen h) b) (-1)) as [E1|E1]; [lia|]. cbn [negb]. nsimp.
      rewrite Z2Nat.inj_add by lia. change (Z.to_nat 1) with 1%nat. rewrite Nat.add_1_r.
      rewrite !gcopy_shift_right. reflexivity.
  - destruct (get_shape (nxt os) K48 p Hp) as (Hk & Hsa & Hp1).
    destruct (get (nxt os) K48 p) as [a p1]. cbn [fst snd] in *.
    destruct a as [ha ka ca|ha ka ca|ha ka ca|ha ca]; try discriminate Hk.
    cbn [shape_ok] in Hsa. apply andb_prop in Hsa. destruct Hsa as [Hla Hlca]. apply Nat.eqb_eq in Hla, Hlca.
    pose proof (grow16_fold keys (N.to_nat (xlen h)) 0 ha ka (gcopy 0 (firstn (N.to_nat (xlen h)) ch) ca)
                  ltac:(lia)) as F.
    cbn [skipn] in F. nsimp in F. rewrite F. rewrite Nat2N.id.
    rewrite gen_node48_addChild_eq.
    + unfold grow16_idx, w_hdr. rewrite gen_node16_clear_eq.
      destruct (xadd48 _ _ _ b c (tl os) p1) as [r p2]. reflexivity.
    + cbn [shape_ok]. rewrite length_fold_set_at, length_gcopy by lia. rewrite Hla, Hlca. reflexivity.
    + exact Hp1.
    + left. cbn [xlen w_prefix w_plen w_len]. change maxNode48 with 48. lia.
Qed.

(* Hypotheses: the array sizes; childrenLen <= 4. *)
Theorem gen_node4_addChild_eq : forall h keys ch b c os p,
  shape_ok (X4 h keys ch) = true -> pool_shapes p -> xlen h <= maxNode4 ->
  g_node4_addChild (X4 h keys ch) b c os p = xadd4 h keys ch b c os p.
Proof.
  intros h keys ch b c os p Hs Hp Hlen. unfold g_node4_addChild, xadd4.
  cbn [shape_ok] in Hs. apply Nat.eqb_eq in Hs. change maxNode4 with 4 in *.
  nsimp. destruct (N.ltb (xlen h) 4).
  - destruct (insertPosNode4_range keys b) as [E|E].
    + rewrite E, Z.eqb_refl. cbn [negb]. nsimp. rewrite to_nat_of_N, N2Z.id. reflexivity.
    + destruct (Z.eqb_spec (insertPosNode4 keys b) (-1)) as [E1|E1]; [lia|]. cbn [negb]. nsimp.
      rewrite Z2Nat.inj_add by lia. change (Z.to_nat 1) with 1%nat. rewrite Nat.add_1_r.
      rewrite gcopy_shift_right. reflexivity.
  - destruct (get_shape (nxt os) K16 p Hp) as (Hk & Hsa & Hp1).
    destruct (get (nxt os) K16 p) as [a p1]. cbn [fst snd] in *.
    destruct a as [ha ka ca|ha ka ca|ha ka ca|ha ca]; try discriminate Hk.
    cbn [shape_ok] in Hsa. apply andb_prop in Hsa. destruct Hsa as [Hla Hlca]. apply Nat.eqb_eq in Hla, Hlca.
    rewrite Nat2N.id. rewrite gen_node16_addChild_eq.
    + unfold w_hdr. rewrite gen_node4_clear_eq.
      destruct (xadd16 _ _ _ b c (tl os) p1) as [r p2]. reflexivity.
    + cbn [shape_ok]. rewrite !length_gcopy by lia. rewrite Hla, Hlca. reflexivity.
    + exact Hp1.
    + cbn [xlen w_prefix w_plen w_len]. change maxNode16 with 16. lia.
Qed.

(* the dispatcher (ptr *nodeRef).addChild *)
Definition add_hyps (n : xnode C) : Prop :=
  match n with
  | X4 h _ _ => xlen h <= maxNode4
  | X16 h _ _ => xlen h <= maxNode16
  | X48 h idx _ => xlen h < maxNode48 \/ bytes_lt idx
  | X256 _ _ => True
  end.

Theorem gen_addChild_eq : forall (n : xnode C) b c os p,
  shape_ok n = true -> pool_shapes p -> add_hyps n ->
  g_addChild n b c os p = xadd n b c os p.
Proof.
  intros [h keys ch|h keys ch|h idx ch|h ch] b c os p Hs Hp Hh; unfold g_addChild, xadd; cbn [xkind add_hyps] in *.
  - rewrite gen_node4_addChild_eq by assumption. destruct (xadd4 _ _ _ _ _ _ _); reflexivity.
  - rewrite gen_node16_addChild_eq by assumption. destruct (xadd16 _ _ _ _ _ _ _); reflexivity.
  - rewrite gen_node48_addChild_eq by assumption. destruct (xadd48 _ _ _ _ _ _ _); reflexivity.
  - reflexivity.
Qed.

(* ------------------------------------------------------------------ *)
(* deleteChild                                                         *)
(* ------------------------------------------------------------------ *)
(* pos := 0; for i := 0; i < 256; i++ { if n256.children[i].pointer != nil {
     n48.children[pos] = n256.children[i]; n48.keys[i] = uint8(pos + 1); pos++ } }   is Pool.shrink256_loop *)
Lemma shrink256_fold : forall srest spre hx kx (cx : list (option C)) pos,
  fst (fold_left (fun '(n48, pos) (i_n : nat) =>
      let i := Z.of_nat i_n in
      let '(n48, pos) :=
        if not_nil (nth (Z.to_nat i) (spre ++ srest) None) then (
          let n48 := s_children (set_at (Z.to_nat pos) (nth (Z.to_nat i) (spre ++ srest) None) (f_children n48)) n48 in
          let n48 := s_keysB (set_at (Z.to_nat i) (u8_of_int (Z.add pos 1%Z)) (f_keysB n48)) n48 in
          let pos := Z.add pos 1%Z in
          (n48, pos)
        ) else (
          (n48, pos)
        ) in
      (n48, pos))
    (seq (length spre) (length srest)) (X48 hx kx cx, Z.of_nat pos))
  = X48 hx (fst (shrink256_loop srest (N.of_nat (length spre)) pos kx cx))
           (snd (shrink256_loop srest (N.of_nat (length spre)) pos kx cx)).
Proof.
  nsimp. induction srest as [|x srest IH]; intros spre hx kx cx pos; [reflexivity|].
  cbn [length seq fold_left shrink256_loop]. nsimp. rewrite Nat2Z.id, nth_middle.
  replace (spre ++ x :: srest) with ((spre ++ [x]) ++ srest) by (rewrite <- app_assoc; reflexivity).
  replace (S (length spre)) with (length (spre ++ [x])) by (rewrite app_length; cbn [length]; lia).
  replace (N.of_nat (length spre) + 1) with (N.of_nat (length (spre ++ [x])))
    by (rewrite app_length; cbn [length]; lia).
  destruct x as [c|]; cbn [not_nil]; nsimp.
  - rewrite u8_of_int_nat_succ. replace (Z.of_nat pos + 1)%Z with (Z.of_nat (S pos)) by lia.
    rewrite Nat2Z.id, Nat2N.id. apply IH.
  - apply IH.
Qed.

(* Hypotheses: the array sizes. *)
Theorem gen_node256_deleteChild_eq : forall h ch b os p,
  shape_ok (X256 h ch) = true -> pool_shapes p ->
  g_node256_deleteChild (X256 h ch) b os p = xdel256 h ch b os p.
Proof.
  intros h ch b os p Hs Hp. unfold g_node256_deleteChild, xdel256.
  cbn [shape_ok] in Hs. apply Nat.eqb_eq in Hs. change shrink256 with 37.
  nsimp. rewrite sub8_1. cbn [xlen w_len]. destruct (N.eqb (u8 (xlen h + 255)) 37); [|reflexivity].
  destruct (get_shape (nxt os) K48 p Hp) as (Hk & _ & _).
  destruct (get (nxt os) K48 p) as [a p1]. cbn [fst snd] in *.
  destruct a as [ha ka ca|ha ka ca|ha ka ca|ha ca]; try discriminate Hk.
  pose proof (shrink256_fold (set_at (N.to_nat b) None ch) []
                (w_prefix (xprefix h) (w_plen (N.to_nat (N.of_nat (xplen h))) (w_len (u8 (xlen h + 255)) ha)))
                ka ca 0) as F.
  cbn [length app] in F. rewrite length_set_at, Hs in F. nsimp in F. change (Z.of_nat 0) with 0%Z in F.
  cbn [xplen xprefix w_len] in *.
  match goal with |- context [fold_left ?f ?l ?a] => destruct (fold_left f l a) as [n48 pos] end.
  cbn [fst] in F. subst n48. rewrite Nat2N.id. rewrite gen_node256_clear_eq. reflexivity.
Qed.

(* children := 0; for i := 0; i < 256; i++ { pos = n48.keys[i]; if pos != 0 {
     n16.keys[children] = uint8(i); n16.children[children] = n48.children[pos-1]; children++ } }
   is Pool.shrink48_loop *)
Lemma shrink48_fold : forall (slots : list (option C)) irest ipre hx kx cx k pos0, bytes_lt irest ->
  snd (fst (fold_left (fun '(pos, n16, children) (i_n : nat) =>
      let i := Z.of_nat i_n in
      let pos := nth (Z.to_nat i) (ipre ++ irest) 0 in
      let '(n16, children) :=
        if negb (N.eqb pos 0) then (
          let n16 := s_keysB (set_at (Z.to_nat children) (u8_of_int i) (f_keysB n16)) n16 in
          let n16 := s_children (set_at (Z.to_nat children) (nth (N.to_nat (sub8 pos 1)) slots None) (f_children n16)) n16 in
          let children := Z.add children 1%Z in
          (n16, children)
        ) else (
          (n16, children)
        ) in
      (pos, n16, children))
    (seq (length ipre) (length irest)) (pos0, X16 hx kx cx, Z.of_nat k)))
  = X16 hx (fst (shrink48_loop irest slots (N.of_nat (length ipre)) k kx cx))
           (snd (shrink48_loop irest slots (N.of_nat (length ipre)) k kx cx)).
Proof.
  intros slots. nsimp. induction irest as [|x irest IH]; intros ipre hx kx cx k pos0 Hb; [reflexivity|].
  inversion Hb as [|? ? Hx Hb']; subst.
  cbn [length seq fold_left shrink48_loop]. nsimp. rewrite Nat2Z.id, nth_middle.
  replace (ipre ++ x :: irest) with ((ipre ++ [x]) ++ irest) by (rewrite <- app_assoc; reflexivity).
  replace (S (length ipre)) with (length (ipre ++ [x])) by (rewrite app_length; cbn [length]; lia).
  replace (N.of_nat (length ipre) + 1) with (N.of_nat (length (ipre ++ [x])))
    by (rewrite app_length; cbn [length]; lia).
  destruct (N.eqb_spec x 0) as [E|E]; cbn [negb]; nsimp.
  - apply IH. exact Hb'.
  - rewrite u8_of_int_nat. rewrite sub8_pred by lia. rewrite nth_slot_at.
    replace (Z.of_nat k + 1)%Z with (Z.of_nat (S k)) by lia.
    rewrite Nat2Z.id. apply IH. exact Hb'.
Qed.

Lemma bytes_lt_set_at : forall l i v, bytes_lt l -> v < 256 -> bytes_lt (set_at i v l).
Proof.
  intros l i v H Hv. apply Forall_forall. intros x Hx. apply in_set_at in Hx.
  destruct Hx as [->|Hx]; [exact Hv|exact (proj1 (Forall_forall _ _) H x Hx)].
Qed.

(* Hypotheses: the array sizes; the index bytes are bytes; b is present (n48.keys[b] != 0: otherwise
   Go panics on n48.children[pos-1] with pos-1 = 255). *)
Theorem gen_node48_deleteChild_eq : forall h idx ch b os p,
  shape_ok (X48 h idx ch) = true -> pool_shapes p -> bytes_lt idx -> nth (N.to_nat b) idx 0 <> 0 ->
  g_node48_deleteChild (X48 h idx ch) b os p = xdel48 h idx ch b os p.
Proof.
  intros h idx ch b os p Hs Hp Hb Hpres. unfold g_node48_deleteChild, xdel48.
  cbn [shape_ok] in Hs. apply andb_prop in Hs. destruct Hs as [Hli Hlc]. apply Nat.eqb_eq in Hli, Hlc.
  change shrink48 with 12. pose proof (bytes_lt_nth idx (N.to_nat b) Hb) as Hlt.
  nsimp. rewrite sub8_1. rewrite sub8_pred by lia. cbn [xlen w_len].
  destruct (N.eqb (u8 (xlen h + 255)) 12); [|reflexivity].
  destruct (get_shape (nxt os) K16 p Hp) as (Hk & _ & _).
  destruct (get (nxt os) K16 p) as [a p1]. cbn [fst snd] in *.
  destruct a as [ha ka ca|ha ka ca|ha ka ca|ha ca]; try discriminate Hk.
  pose proof (shrink48_fold (set_at (N.to_nat (nth (N.to_nat b) idx 0 - 1)) None ch)
                (set_at (N.to_nat b) 0 idx) []
                (w_prefix (xprefix h) (w_plen (N.to_nat (N.of_nat (xplen h))) (w_len (u8 (xlen h + 255)) ha)))
                ka ca 0 (nth (N.to_nat b) idx 0) ltac:(apply bytes_lt_set_at; [exact Hb|lia])) as F.
  cbn [length app] in F. rewrite length_set_at, Hli in F. nsimp in F. change (Z.of_nat 0) with 0%Z in F.
  cbn [xplen xprefix w_len] in *.
  match goal with |- context [fold_left ?f ?l ?a] => destruct (fold_left f l a) as [[pos n16] children] end.
  cbn [fst snd] in F. subst n16. rewrite Nat2N.id. rewrite gen_node48_clear_eq. reflexivity.
Qed.

(* Hypotheses: the array sizes; b is found at a position below 16 (pos = -1 makes Go panic on keys[pos:]). *)
Theorem gen_node16_deleteChild_eq : forall h keys ch b os p,
  shape_ok (X16 h keys ch) = true -> pool_shapes p -> (0 <= searchNode16 keys (xlen h) b < 16)%Z ->
  g_node16_deleteChild (X16 h keys ch) b os p = xdel16 h keys ch b os p.
Proof.
  intros h keys ch b os p Hs Hp Hpos. unfold g_node16_deleteChild, xdel16.
  cbn [shape_ok] in Hs. apply andb_prop in Hs. destruct Hs as [Hlk Hlc]. apply Nat.eqb_eq in Hlk, Hlc.
  change shrink16 with 3. nsimp. rewrite sub8_1.
  rewrite Z2Nat.inj_add by lia. change (Z.to_nat 1) with 1%nat. rewrite Nat.add_1_r.
  rewrite !gcopy_shift_left by lia. cbn [xlen w_len].
  destruct (N.eqb (u8 (xlen h + 255)) 3); [|reflexivity].
  destruct (get_shape (nxt os) K4 p Hp) as (Hk & _ & _).
  destruct (get (nxt os) K4 p) as [a p1]. cbn [fst snd] in *.
  destruct a as [ha ka ca|ha ka ca|ha ka ca|ha ca]; try discriminate Hk.
  rewrite Nat2N.id. rewrite gen_node16_clear_eq. reflexivity.
Qed.

End Gen.

(* ------------------------------------------------------------------ *)
(* node4.deleteChild and the collapse onto the last child (C = xtree)  *)
(* ------------------------------------------------------------------ *)
Lemma xh_s_node : forall {C} h (n : xnode C), xh (s_node h n) = h.
Proof. intros C h [ | | | ]; reflexivity. Qed.
Lemma s_node_s_node : forall {C} h1 h2 (n : xnode C), s_node h2 (s_node h1 n) = s_node h2 n.
Proof. intros C h1 h2 [ | | | ]; reflexivity. Qed.
Lemma xset_hdr_s_node : forall {C} (n : xnode C) pl px, xset_hdr n pl px = s_node (w_prefix px (w_plen pl (xh n))) n.
Proof. intros C [ | | | ] pl px; reflexivity. Qed.
(* whatever a node4 holds, its cleared carcass is the same *)
Lemma xclear4 : forall {C} h k (c : list (option C)), xclear (X4 h k c) = X4 xhdr0 0 (repeat None 4).
Proof. intros. reflexivity. Qed.
Lemma gcopy0_copy_into : forall (src dst : list N), gcopy 0 src dst = copy_into dst src.
Proof. intros. rewrite gcopy_copy_into. reflexivity. Qed.

(* the node4 as it is when one child is left: that child is not nil, and the merged compressed-path
   length childNode.prefixLen + n4.prefixLen + 1 fits a uint32 (PoolTree.xcollapse computes it in nat) *)
Definition collapse_ok (n : xnode xtree) : Prop :=
  match n with
  | X4 h _ ch =>
      xlen h = 1 ->
      match nth 0 ch None with
      | Some (XInner cn) => N.of_nat (xplen (xh cn)) + N.of_nat (xplen h) + 1 < M32
      | Some (XLeaf _ _ _) => True
      | None => False
      end
  | _ => True
  end.

Theorem gen_node4_deleteChild_eq : forall h keys ch b os p,
  shape_ok (X4 h keys ch) = true -> (searchNode4 keys b < 4)%Z ->
  collapse_ok (fst (xdel4 h keys ch b os p)) ->
  g_node4_deleteChild xt_inner xt_is_leaf xt_hdr_of xt_with_hdr (X4 h keys ch) b os p =
  (Some (fst (xdel_child (X4 h keys ch) b os p)), snd (xdel_child (X4 h keys ch) b os p)).
Proof.
  intros h keys ch b os p Hs Hi Hc. unfold g_node4_deleteChild, xdel_child, xdel, xdel4 in *.
  cbn [shape_ok] in Hs. apply Nat.eqb_eq in Hs. nsimp.
  match goal with |- context [if negb ?c then ?a else X4 h keys ch] =>
    set (Ng := if negb c then a else X4 h keys ch) end.
  match type of Hc with context [if ?c then X4 h keys ch else ?a] =>
    set (Nm := if c then X4 h keys ch else a) in * end.
  assert (EN : Ng = Nm).
  { subst Ng Nm. destruct (searchNode4_range keys b) as [E|E].
    - rewrite E. reflexivity.
    - destruct (Z.eqb_spec (searchNode4 keys b) (-1)) as [E1|E1]; [lia|]. cbn [negb].
      rewrite sub8_1. rewrite Z2Nat.inj_add by lia. change (Z.to_nat 1) with 1%nat. rewrite Nat.add_1_r.
      rewrite gcopy_shift_left by lia. reflexivity. }
  rewrite EN. clear EN Ng.
  assert (HK : xkind Nm = K4) by (subst Nm; destruct (Z.eqb _ _); reflexivity).
  clearbody Nm. destruct Nm as [h' k' c'|h' k' c'|h' k' c'|h' c']; try discriminate HK. clear HK.
  nsimp. cbn [xh] in Hc.
  destruct (xlen h' =? 1) eqn:L1; cbn [fst snd] in *; unfold xcollapse; rewrite L1; [|reflexivity].
  apply N.eqb_eq in L1. cbn [collapse_ok] in Hc. specialize (Hc L1).
  destruct c' as [|x c']; cbn [nth] in *; [contradiction|].
  destruct x as [[gk tk v|cn]|]; [| |contradiction].
  - cbn [cell_is_leaf xt_is_leaf negb]. rewrite gen_node4_clear_eq. reflexivity.
  - cbn [cell_is_leaf xt_is_leaf negb cell_hdr cell_set_hdr xt_hdr_of xt_with_hdr].
    change maxPrefixLen with 10%nat. unfold M32 in Hc.
    set (P0 := xplen h') in *.
    assert (FIN : forall L, N.of_nat L + N.of_nat P0 + 1 < 4294967296 ->
      N.to_nat (add32 (N.of_nat L) (add32 (N.of_nat P0) 1)) = (L + P0 + 1)%nat).
    { intros L HL. unfold add32, M32. lia. }
    destruct cn as [hc kc cc|hc kc cc|hc kc cc|hc cc]; cbn [xh] in *; set (L := xplen hc) in *.
    all: cbn [xset_hdr].
    all: destruct (Nat.ltb_spec P0 10) as [A|A];
      [ replace (N.of_nat P0 <? 10) with true by (symmetry; apply N.ltb_lt; lia);
        replace (add32 (N.of_nat P0) 1) with (N.of_nat (S P0)) by (unfold add32, M32; lia);
        nsimp; rewrite Nat2N.id;
        destruct (Nat.ltb_spec (S P0) 10) as [A1|A1];
        [ replace (N.of_nat (S P0) <? 10) with true by (symmetry; apply N.ltb_lt; lia);
          replace (sub32 10 (N.of_nat (S P0))) with (N.of_nat (10 - S P0)) by (unfold sub32, M32; lia);
          replace (N.min (N.of_nat L) (N.of_nat (10 - S P0))) with (N.of_nat (Nat.min L (10 - S P0))) by lia;
          replace (add32 (N.of_nat (S P0)) (N.of_nat (Nat.min L (10 - S P0))))
            with (N.of_nat (S P0 + Nat.min L (10 - S P0))) by (unfold add32, M32; lia);
          nsimp;
          replace (N.min 10 (N.of_nat (S P0 + Nat.min L (10 - S P0))))
            with (N.of_nat (Nat.min 10 (S P0 + Nat.min L (10 - S P0)))) by lia
        | replace (N.of_nat (S P0) <? 10) with false by (symmetry; apply N.ltb_ge; lia);
          nsimp;
          replace (N.min 10 (N.of_nat (S P0))) with (N.of_nat (Nat.min 10 (S P0))) by lia ]
      | replace (N.of_nat P0 <? 10) with false by (symmetry; apply N.ltb_ge; lia);
        nsimp; replace (N.of_nat P0 <? 10) with false by (symmetry; apply N.ltb_ge; lia);
        replace (P0 <? 10)%nat with false by (symmetry; apply Nat.ltb_ge; lia);
        nsimp;
        replace (N.min 10 (N.of_nat P0)) with (N.of_nat (Nat.min 10 P0)) by lia ].
    all: rewrite !Nat2N.id; cbn [xplen xprefix xlen w_prefix w_plen];
      rewrite ?gcopy0_copy_into, ?gcopy_copy_into; rewrite gen_node4_clear_eq, !xclear4;
      subst L P0; rewrite (FIN (xplen hc) Hc); reflexivity.
Qed.

(* ------------------------------------------------------------------ *)
(* the dispatcher (ptr *nodeRef).deleteChild                           *)
(* ------------------------------------------------------------------ *)
Definition del_hyps (n : xnode xtree) (b : N) (os : list choice) (p : xpool) : Prop :=
  match n with
  | X4 h keys ch => (searchNode4 keys b < 4)%Z /\ collapse_ok (fst (xdel4 h keys ch b os p))
  | X16 h keys _ => (0 <= searchNode16 keys (xlen h) b < 16)%Z
  | X48 _ idx _ => bytes_lt idx /\ nth (N.to_nat b) idx 0 <> 0
  | X256 _ _ => True
  end.

Theorem gen_deleteChild_eq : forall n b os p,
  shape_ok n = true -> pool_shapes p -> del_hyps n b os p ->
  g_deleteChild xt_inner xt_is_leaf xt_hdr_of xt_with_hdr n b os p =
  (Some (fst (xdel_child n b os p)), snd (xdel_child n b os p)).
Proof.
  intros [h keys ch|h keys ch|h idx ch|h ch] b os p Hs Hp Hh; unfold g_deleteChild; cbn [xkind del_hyps] in *.
  - destruct Hh as [H1 H2]. rewrite gen_node4_deleteChild_eq by assumption.
    destruct (xdel_child _ _ _ _); reflexivity.
  - rewrite gen_node16_deleteChild_eq by assumption. unfold xdel_child, xdel.
    destruct (xdel16 _ _ _ _ _ _); reflexivity.
  - destruct Hh as [H1 H2]. rewrite gen_node48_deleteChild_eq by assumption. unfold xdel_child, xdel.
    destruct (xdel48 _ _ _ _ _ _); reflexivity.
  - rewrite gen_node256_deleteChild_eq by assumption. unfold xdel_child, xdel.
    destruct (xdel256 _ _ _ _ _); reflexivity.
Qed.

(* ------------------------------------------------------------------ *)
(* the hypotheses follow from PoolFacts.xwf: the theorems are not vacuous *)
(* ------------------------------------------------------------------ *)
Section Hyps.
Context {C : Type}.

Lemma shape_from_xwf : forall n : xnode C, xwf n -> shape_ok n = true.
Proof. intros n (Hs & _). exact Hs. Qed.

Lemma idx_bytes_from_xwf : forall h idx (ch : list (option C)), xwf (X48 h idx ch) -> bytes_lt idx.
Proof.
  intros h idx ch (_ & _ & Hwf). cbn [xabs] in Hwf. destruct Hwf as (_ & Hli & _ & Hr & _).
  apply Forall_forall. intros x Hx. destruct (In_nth _ _ 0 Hx) as (i & Hi & <-).
  destruct (Hr i ltac:(lia)) as [E|(E1 & E2 & _)]; lia.
Qed.

(* findChild *)
Lemma find_hyps_from_xwf : forall n : xnode C, xwf n -> idx_bytes n.
Proof. intros [h keys ch|h keys ch|h idx ch|h ch] H; cbn [idx_bytes]; [exact I|exact I| |exact I]. exact (idx_bytes_from_xwf _ _ _ H). Qed.

(* addChild *)
Lemma add_hyps_from_xwf : forall n : xnode C, xwf n -> add_hyps n.
Proof.
  intros [h keys ch|h keys ch|h idx ch|h ch] H; cbn [add_hyps]; try exact I.
  - destruct (xwf4_inv _ _ _ H) as (_ & _ & Hl & _). change maxNode4 with 4. lia.
  - destruct (xwf16_inv _ _ _ H) as (_ & _ & _ & Hl & _). change maxNode16 with 16. lia.
  - right. exact (idx_bytes_from_xwf _ _ _ H).
Qed.

(* deleteChild of a present byte: node16 *)
Lemma del16_hyps_from_xwf : forall h keys (ch : list (option C)) b, xwf (X16 h keys ch) ->
  xfind (X16 h keys ch) b <> None -> (0 <= searchNode16 keys (xlen h) b < 16)%Z.
Proof.
  intros h keys ch b H Hf. destruct (xwf16_inv _ _ _ H) as (Hlk & _ & _ & Hl & _).
  cbn [xfind] in Hf. destruct (Z.eqb_spec (searchNode16 keys (xlen h) b) (-1)) as [E|E]; [contradiction|].
  rewrite searchNode16_spec in * by lia.
  destruct (find_first_range (fun x => x =? b) (firstn (N.to_nat (xlen h)) keys) 0 ltac:(lia)) as [R|R]; [contradiction|].
  rewrite firstn_length in R. lia.
Qed.

(* deleteChild of a present byte: node48 *)
Lemma del48_hyps_from_xwf : forall h idx (ch : list (option C)) b, xwf (X48 h idx ch) ->
  xfind (X48 h idx ch) b <> None -> bytes_lt idx /\ nth (N.to_nat b) idx 0 <> 0.
Proof.
  intros h idx ch b H Hf. split; [exact (idx_bytes_from_xwf _ _ _ H)|].
  cbn [xfind] in Hf. intros E. rewrite E in Hf. apply Hf. reflexivity.
Qed.
End Hyps.

(* deleteChild of a present byte: node4.  Not a consequence of xwf: the merged compressed-path length
   of an inner last child fits a uint32 (xwf says nothing about prefixLen; the model keeps it in nat) *)
Lemma del4_hyps_from_xwf : forall h keys ch b os p, xwf (X4 h keys ch) -> b < 256 ->
  xfind (X4 h keys ch) b <> None ->
  (forall cn, In (Some (XInner cn)) ch -> N.of_nat (xplen (xh cn)) + N.of_nat (xplen h) + 1 < M32) ->
  (searchNode4 keys b < 4)%Z /\ collapse_ok (fst (xdel4 h keys ch b os p)).
Proof.
  intros h keys ch b os p H Hb Hf Hfit. destruct (xwf4_inv _ _ _ H) as (Hlc & Ho & Hl & _).
  destruct H as (_ & _ & Hwf). cbn [xabs] in Hwf. destruct Hwf as (_ & Hk & _).
  cbn [xfind] in Hf. pose proof (searchNode4_spec keys b Hk Hb) as Sp.
  destruct (find_first_range (fun x => x =? b) (lanes keys) 0 ltac:(lia)) as [R|R];
    rewrite <- Sp in R; [rewrite R in Hf; contradiction Hf; reflexivity|].
  rewrite lanes_length in R. split; [lia|].
  unfold xdel4. destruct (Z.eqb_spec (searchNode4 keys b) (-1)) as [E|E]; [lia|].
  cbn [negb andb] in Hf. destruct (Z.ltb_spec (searchNode4 keys b) (Z.of_N (xlen h))) as [Hlt|Hge];
    [|contradiction Hf; reflexivity].
  cbn [xh xlen w_len]. destruct (N.eqb_spec (u8 (xlen h + 255)) 1) as [E1|E1]; cbn [fst collapse_ok xlen w_len]; [|tauto].
  intros _. assert (Hlen2 : xlen h = 2) by (unfold u8 in E1; lia).
  rewrite Hlen2 in *. change (N.to_nat 2) with 2%nat in Ho.
  destruct ch as [|c0 [|c1 [|c2 [|c3 [|? ?]]]]]; try discriminate Hlc.
  cbn [firstn forallb andb] in Ho. apply andb_prop in Ho. destruct Ho as [O0 O1].
  apply andb_prop in O1. destruct O1 as [O1 _].
  assert (Hi : searchNode4 keys b = 0%Z \/ searchNode4 keys b = 1%Z) by lia.
  destruct Hi as [-> | ->]; cbn [Z.to_nat Pos.to_nat Pos.iter_op Nat.add shift_left_onto firstn skipn app nth].
  - destruct c1 as [[? ? ?|cn]|]; [exact I| |discriminate O1]. apply Hfit. right; left; reflexivity.
  - destruct c0 as [[? ? ?|cn]|]; [exact I| |discriminate O0]. apply Hfit. left; reflexivity.
Qed.
