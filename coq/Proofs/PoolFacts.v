(* C12 at the node layer: recycled nodes never leak state (model: Model/Pool.v).

   1. clear_covers_fields, xclear_zero: clear() resets every field -- proved on the
      regenerated Gen/SrcFacts.clear_bodies, for every content of the node.
   2. pool_zero_inv (xadd_pool_zero, xdel_pool_zero, xnew4_pool_zero, drop_pool_zero):
      whatever the node, the byte, the oracle: a zero pool stays a zero pool.
   3. get_oracle_irrelevant, xadd/xdel/xnew4_oracle_irrelevant: out of a zero pool
      the answers of the pool do not matter (the oracle of one operation is the
      list of answers to the Gets it performs, nested grows included).
   4. xadd_sim, xdel_sim (all eight grow/shrink paths and the four in-place
      paths), xnew4_sim: on zero acquisitions the raw operations are nadd / ndel /
      empty4 of Model/Node.v, and the raw invariant xwf is kept.
   6. interleave_independent: any number of arbitrary nodes interleaved over one
      shared pool, arbitrary oracle and drops: every node ends as it ends alone.
      interleave_refines: ... and, when well-formed and used legally, exactly as
      Model/Node.v prescribes.
   5. dirty_*: closed examples showing that "the pool is zero" is what carries 4.
   No hypothesis on the values of the regenerated constants beyond params_ok
   (except in the closed examples, which compute). *)
From GoArt Require Import Base.Bytes Model.Node4 Model.Node16 Model.Node Model.Pool
  Spec.NodeSpec Proofs.Node4Facts Proofs.NodeAuxAssoc Proofs.NodeAuxList Proofs.NodeAuxArr
  Proofs.NodeAux416 Proofs.NodeAux48 Proofs.NodeAux48b Proofs.NodeFacts.
From GoArt Require Gen.SrcFacts.
From Coq Require String.
Import String.StringSyntax.
From Coq Require Import ZifyN ZifyNat ZifyBool.
Ltac Zify.zify_post_hook ::= Z.div_mod_to_equations.
Open Scope N_scope.

(* ================= 1. clear() ================= *)

(* every struct field of every node type is among the fields its clear() resets *)
Theorem clear_covers_fields :
  forallb (fun e : String.string * list String.string * list String.string =>
             let '(_, fields, resets) := e in
             forallb (fun f => existsb (String.eqb f) resets) fields)
          Gen.SrcFacts.clear_bodies = true.
Proof. vm_compute. reflexivity. Qed.

(* and every node type has a clear() *)
Lemma resets_complete : forall k,
  has "node"%string (resets_of k) = true /\ has "children"%string (resets_of k) = true /\
  (k <> K256 -> has "keys"%string (resets_of k) = true).
Proof.
  intros k. destruct k; (split; [vm_compute; reflexivity|split; [vm_compute; reflexivity|]]);
    intros H; try congruence; vm_compute; reflexivity.
Qed.

Local Opaque maxNode4 maxNode16 maxNode48 shrink16 shrink48 shrink256 maxPrefixLen.

Section Lists.
Context {A : Type}.

Lemma length_gcopy : forall off (src dst : list A), (off <= length dst)%nat ->
  length (gcopy off src dst) = length dst.
Proof.
  intros off src dst H. unfold gcopy. rewrite !app_length, !firstn_length, skipn_length. lia.
Qed.

Lemma gcopy0_repeat : forall (z : A) k (src : list A), (length src <= k)%nat ->
  gcopy 0 src (repeat z k) = src ++ repeat z (k - length src).
Proof.
  intros z k src H. unfold gcopy. cbn [firstn app Nat.add]. rewrite repeat_length, Nat.sub_0_r.
  rewrite firstn_all2 by lia. f_equal.
  assert (E : k = (length src + (k - length src))%nat) by lia.
  rewrite E at 1. rewrite repeat_app, skipn_app, repeat_length.
  rewrite skipn_all2 by (rewrite repeat_length; lia).
  replace (length src - length src)%nat with 0%nat by lia. reflexivity.
Qed.

Lemma gcopy0_over : forall (src dst : list A), (length dst <= length src)%nat ->
  gcopy 0 src dst = firstn (length dst) src.
Proof.
  intros src dst H. unfold gcopy. cbn [firstn app Nat.add]. rewrite Nat.sub_0_r.
  rewrite skipn_all2 by lia. apply app_nil_r.
Qed.

Lemma length_shift_right_from : forall lo (l : list A), length (shift_right_from lo l) = length l.
Proof.
  intros lo l. unfold shift_right_from. rewrite firstn_length, app_length, firstn_length, skipn_length. lia.
Qed.

End Lists.

Section Zero.
Context {C : Type}.
Implicit Types (n : xnode C) (p : @pool C).

Lemma all0_repeat : forall l, all0 l = true -> l = repeat 0 (length l).
Proof.
  induction l as [|x l IH]; intros H; [reflexivity|].
  cbn [all0 forallb] in H. apply andb_prop in H. destruct H as [Hx Hl].
  cbn [length repeat]. f_equal; [lia|apply IH; exact Hl].
Qed.

Lemma allnil_repeat : forall l : list (option C), allnil l = true -> l = repeat None (length l).
Proof.
  induction l as [|x l IH]; intros H; [reflexivity|].
  cbn [allnil forallb] in H. apply andb_prop in H. destruct H as [Hx Hl].
  cbn [length repeat]. f_equal; [destruct x; [discriminate|reflexivity]|apply IH; exact Hl].
Qed.

Lemma all0_rep : forall k, all0 (repeat 0 k) = true.
Proof. induction k as [|k IH]; [reflexivity|]. cbn [repeat all0 forallb]. exact IH. Qed.
Lemma allnil_rep : forall k, allnil (repeat (@None C) k) = true.
Proof. induction k as [|k IH]; [reflexivity|]. cbn [repeat allnil forallb]. exact IH. Qed.

Lemma is_zero_hdr0 : is_zero_hdr xhdr0 = true.
Proof.
  unfold is_zero_hdr, xhdr0. cbn [xlen xplen xprefix]. rewrite all0_rep, repeat_length, Nat.eqb_refl.
  reflexivity.
Qed.

Lemma is_zero_hdr_eq : forall h, is_zero_hdr h = true -> h = xhdr0.
Proof.
  intros [l pl px] H. unfold is_zero_hdr in H. cbn [xlen xplen xprefix] in H.
  apply andb_prop in H. destruct H as [H H4]. apply andb_prop in H. destruct H as [H H3].
  apply andb_prop in H. destruct H as [H1 H2].
  apply all0_repeat in H3. unfold xhdr0. f_equal; [lia|lia|].
  rewrite H3. f_equal. lia.
Qed.

Lemma xzero_is_zero : forall k, is_zero (@xzero C k) = true.
Proof.
  intros k. destruct k; cbn [xzero is_zero]; rewrite is_zero_hdr0, ?all0_rep, ?allnil_rep, ?repeat_length;
    reflexivity.
Qed.

(* a zero node is THE zero node of its kind *)
Lemma is_zero_eq : forall n, is_zero n = true -> n = xzero (xkind n).
Proof.
  intros [h keys ch|h keys ch|h idx ch|h ch] H; cbn [is_zero] in H; cbn [xkind xzero];
    (destruct (is_zero_hdr h) eqn:Hh; [|discriminate H]); cbn [andb] in H;
    apply is_zero_hdr_eq in Hh; subst h;
    repeat (apply andb_prop in H; let H' := fresh "H" in destruct H as [H H']).
  - apply allnil_repeat in H1. rewrite H1.
    replace (length ch) with 4%nat by lia. f_equal. lia.
  - apply allnil_repeat in H1. apply all0_repeat in H. rewrite H1, H.
    replace (length ch) with 16%nat by lia. replace (length keys) with 16%nat by lia.
    reflexivity.
  - apply allnil_repeat in H1. apply all0_repeat in H. rewrite H1, H.
    replace (length ch) with 48%nat by lia. replace (length idx) with 256%nat by lia.
    reflexivity.
  - apply allnil_repeat in H. rewrite H.
    replace (length ch) with 256%nat by lia. reflexivity.
Qed.

Lemma xkind_xzero : forall k, xkind (@xzero C k) = k.
Proof. destruct k; reflexivity. Qed.

Lemma shape_xzero : forall k, shape_ok (@xzero C k) = true.
Proof. destruct k; cbn [xzero shape_ok]; rewrite ?repeat_length; reflexivity. Qed.

Lemma xkind_xclear : forall n, xkind (xclear n) = xkind n.
Proof. intros [h keys ch|h keys ch|h idx ch|h ch]; reflexivity. Qed.

(* clear() leaves THE zero node, whatever the node held *)
Theorem xclear_zero : forall n, is_zero (xclear n) = true.
Proof.
  intros n. unfold xclear.
  destruct (resets_complete (xkind n)) as (Hn & Hc & Hk).
  destruct n as [h keys ch|h keys ch|h idx ch|h ch]; cbn [xkind] in *; unfold clear_with;
    rewrite Hn, Hc, ?Hk by congruence; cbn [is_zero];
    rewrite is_zero_hdr0, ?all0_rep, ?allnil_rep, ?repeat_length; reflexivity.
Qed.

Corollary xclear_is_xzero : forall n, xclear n = xzero (xkind n).
Proof.
  intros n. rewrite <- (xkind_xclear n). apply is_zero_eq. apply xclear_zero.
Qed.

(* ================= 2./3. the pool ================= *)

Definition zero_pool p : Prop := Forall (fun n => is_zero n = true) p.

Lemma take_kind_spec : forall k i p a p', take_kind k i p = Some (a, p') ->
  In a p /\ xkind a = k /\ (forall x, In x p' -> In x p) /\ S (length p') = length p.
Proof.
  intros k i p. revert i. induction p as [|n p IH]; intros i a p' H; cbn [take_kind] in H; [discriminate|].
  destruct (kind_eqb (xkind n) k) eqn:E.
  - destruct i as [|i].
    + inversion H; subst a p'. split; [left; reflexivity|]. split.
      * destruct (xkind n), k; try discriminate; reflexivity.
      * split; [intros x Hx; right; exact Hx|reflexivity].
    + destruct (take_kind k i p) as [[a0 p0]|] eqn:T; [|discriminate].
      cbn [fst snd] in H. inversion H; subst a p'.
      destruct (IH _ _ _ T) as (Hi & Hk & Hs & Hl).
      split; [right; exact Hi|]. split; [exact Hk|]. split.
      * intros x [Hx|Hx]; [left; exact Hx|right; apply Hs; exact Hx].
      * cbn [length]. lia.
  - destruct (take_kind k i p) as [[a0 p0]|] eqn:T; [|discriminate].
    cbn [fst snd] in H. inversion H; subst a p'.
    destruct (IH _ _ _ T) as (Hi & Hk & Hs & Hl).
    split; [right; exact Hi|]. split; [exact Hk|]. split.
    + intros x [Hx|Hx]; [left; exact Hx|right; apply Hs; exact Hx].
    + cbn [length]. lia.
Qed.

Lemma get_spec : forall o k p,
  xkind (fst (get o k p)) = k /\
  (fst (get o k p) = xzero k \/ In (fst (get o k p)) p) /\
  (forall x, In x (snd (get o k p)) -> In x p).
Proof.
  intros o k p. destruct o as [|i]; cbn [get].
  - cbn [fst snd]. split; [apply xkind_xzero|]. split; [left; reflexivity|auto].
  - destruct (take_kind k i p) as [[a p']|] eqn:T.
    + destruct (take_kind_spec _ _ _ _ _ T) as (Hi & Hk & Hs & _). cbn [fst snd].
      split; [exact Hk|]. split; [right; exact Hi|exact Hs].
    + cbn [fst snd]. split; [apply xkind_xzero|]. split; [left; reflexivity|auto].
Qed.

Lemma zero_pool_sub : forall p q, zero_pool p -> (forall x, In x q -> In x p) -> zero_pool q.
Proof.
  intros p q H S. apply Forall_forall. intros x Hx. apply (proj1 (Forall_forall _ _) H). apply S. exact Hx.
Qed.

(* 3a. out of a zero pool, Get returns the zero node whatever the oracle says *)
Theorem get_oracle_irrelevant : forall o k p, zero_pool p -> fst (get o k p) = xzero k.
Proof.
  intros o k p Hp. destruct (get_spec o k p) as (Hk & [Hz|Hi] & _); [exact Hz|].
  apply (proj1 (Forall_forall _ _) Hp) in Hi. apply is_zero_eq in Hi. rewrite Hk in Hi. exact Hi.
Qed.

Lemma get_pool_zero : forall o k p, zero_pool p -> zero_pool (snd (get o k p)).
Proof.
  intros o k p Hp. apply (zero_pool_sub p); [exact Hp|]. apply get_spec.
Qed.

Lemma put_clear_zero : forall n p, zero_pool p -> zero_pool (put (xclear n) p).
Proof. intros n p Hp. constructor; [apply xclear_zero|exact Hp]. Qed.

Lemma drop_pool_zero : forall i p, zero_pool p -> zero_pool (drop i p).
Proof.
  intros i p Hp. apply (zero_pool_sub p); [exact Hp|]. unfold drop. intros x Hx.
  rewrite remove_at_app in Hx. apply in_app_or in Hx. destruct Hx as [Hx|Hx].
  - apply in_firstn in Hx. exact Hx.
  - apply in_skipn in Hx. exact Hx.
Qed.

Lemma get_nil : forall o k, get o k (@nil (xnode C)) = (xzero k, []).
Proof. intros [|i] k; reflexivity. Qed.

(* 2. the pool invariant, operation by operation, for EVERY node, byte, oracle *)
Lemma xadd48_pool : forall h idx ch b c os p, zero_pool p -> zero_pool (snd (xadd48 h idx ch b c os p)).
Proof.
  intros h idx ch b c os p Hp. unfold xadd48. destruct (xlen h <? maxNode48); cbn [snd]; [exact Hp|].
  apply put_clear_zero. apply get_pool_zero. exact Hp.
Qed.
Lemma xadd16_pool : forall h keys ch b c os p, zero_pool p -> zero_pool (snd (xadd16 h keys ch b c os p)).
Proof.
  intros h keys ch b c os p Hp. unfold xadd16. destruct (xlen h <? maxNode16).
  - destruct (_ =? -1)%Z; exact Hp.
  - cbn [snd]. apply put_clear_zero. apply xadd48_pool. apply get_pool_zero. exact Hp.
Qed.
Lemma xadd4_pool : forall h keys ch b c os p, zero_pool p -> zero_pool (snd (xadd4 h keys ch b c os p)).
Proof.
  intros h keys ch b c os p Hp. unfold xadd4. destruct (xlen h <? maxNode4).
  - destruct (_ =? -1)%Z; exact Hp.
  - cbn [snd]. apply put_clear_zero. apply xadd16_pool. apply get_pool_zero. exact Hp.
Qed.

Theorem xadd_pool_zero : forall n b c os p, zero_pool p -> zero_pool (snd (xadd n b c os p)).
Proof.
  intros [h keys ch|h keys ch|h idx ch|h ch] b c os p Hp; cbn [xadd].
  - apply xadd4_pool. exact Hp.
  - apply xadd16_pool. exact Hp.
  - apply xadd48_pool. exact Hp.
  - exact Hp.
Qed.

Theorem xdel_pool_zero : forall n b os p, zero_pool p -> zero_pool (snd (xdel n b os p)).
Proof.
  intros [h keys ch|h keys ch|h idx ch|h ch] b os p Hp; cbn [xdel].
  - unfold xdel4. destruct (xlen _ =? 1); cbn [snd]; [apply put_clear_zero|]; exact Hp.
  - unfold xdel16. destruct (xlen _ =? shrink16); cbn [snd]; [|exact Hp].
    apply put_clear_zero. apply get_pool_zero. exact Hp.
  - unfold xdel48. destruct (xlen _ =? shrink48); cbn [snd]; [|exact Hp].
    apply put_clear_zero. apply get_pool_zero. exact Hp.
  - unfold xdel256. destruct (xlen _ =? shrink256); cbn [snd]; [|exact Hp].
    apply put_clear_zero. apply get_pool_zero. exact Hp.
Qed.

Lemma xnew4_pool_zero : forall pl src os p, zero_pool p -> zero_pool (snd (@xnew4 C pl src os p)).
Proof. intros pl src os p Hp. unfold xnew4. cbn [snd]. apply get_pool_zero. exact Hp. Qed.

Theorem pool_zero_inv : forall p, zero_pool p ->
  (forall n b c os, zero_pool (snd (xadd n b c os p))) /\
  (forall n b os, zero_pool (snd (xdel n b os p))) /\
  (forall pl src os, zero_pool (snd (@xnew4 C pl src os p))) /\
  (forall i, zero_pool (drop i p)).
Proof.
  intros p Hp. split; [|split; [|split]]; intros.
  - apply xadd_pool_zero. exact Hp.
  - apply xdel_pool_zero. exact Hp.
  - apply xnew4_pool_zero. exact Hp.
  - apply drop_pool_zero. exact Hp.
Qed.

(* 3b. with a zero pool the results do not depend on the oracle nor on the pool *)
Lemma xadd48_irr : forall h idx ch b c os p, zero_pool p ->
  fst (xadd48 h idx ch b c os p) = fst (xadd48 h idx ch b c [] []).
Proof.
  intros h idx ch b c os p Hp. unfold xadd48. destruct (xlen h <? maxNode48); cbn [fst]; [reflexivity|].
  rewrite get_oracle_irrelevant by exact Hp. rewrite get_nil. reflexivity.
Qed.
Lemma xadd16_irr : forall h keys ch b c os p, zero_pool p ->
  fst (xadd16 h keys ch b c os p) = fst (xadd16 h keys ch b c [] []).
Proof.
  intros h keys ch b c os p Hp. unfold xadd16. destruct (xlen h <? maxNode16).
  - destruct (_ =? -1)%Z; reflexivity.
  - cbn [fst]. rewrite get_oracle_irrelevant by exact Hp. rewrite get_nil. cbn [fst snd tl].
    apply xadd48_irr. apply get_pool_zero. exact Hp.
Qed.
Lemma xadd4_irr : forall h keys ch b c os p, zero_pool p ->
  fst (xadd4 h keys ch b c os p) = fst (xadd4 h keys ch b c [] []).
Proof.
  intros h keys ch b c os p Hp. unfold xadd4. destruct (xlen h <? maxNode4).
  - destruct (_ =? -1)%Z; reflexivity.
  - cbn [fst]. rewrite get_oracle_irrelevant by exact Hp. rewrite get_nil. cbn [fst snd tl].
    apply xadd16_irr. apply get_pool_zero. exact Hp.
Qed.

Theorem xadd_oracle_irrelevant : forall n b c os p, zero_pool p ->
  fst (xadd n b c os p) = fst (xadd n b c [] []).
Proof.
  intros [h keys ch|h keys ch|h idx ch|h ch] b c os p Hp; cbn [xadd].
  - apply xadd4_irr. exact Hp.
  - apply xadd16_irr. exact Hp.
  - apply xadd48_irr. exact Hp.
  - reflexivity.
Qed.

Theorem xdel_oracle_irrelevant : forall n b os p, zero_pool p ->
  fst (xdel n b os p) = fst (xdel n b [] []).
Proof.
  intros [h keys ch|h keys ch|h idx ch|h ch] b os p Hp; cbn [xdel].
  - unfold xdel4. destruct (xlen _ =? 1); reflexivity.
  - unfold xdel16. destruct (xlen _ =? shrink16); cbn [fst]; [|reflexivity].
    rewrite get_oracle_irrelevant by exact Hp. rewrite get_nil. reflexivity.
  - unfold xdel48. destruct (xlen _ =? shrink48); cbn [fst]; [|reflexivity].
    rewrite get_oracle_irrelevant by exact Hp. rewrite get_nil. reflexivity.
  - unfold xdel256. destruct (xlen _ =? shrink256); cbn [fst]; [|reflexivity].
    rewrite get_oracle_irrelevant by exact Hp. rewrite get_nil. reflexivity.
Qed.

Theorem xnew4_oracle_irrelevant : forall pl src os p, zero_pool p ->
  fst (@xnew4 C pl src os p) = fst (@xnew4 C pl src [] []).
Proof.
  intros pl src os p Hp. unfold xnew4. cbn [fst].
  rewrite get_oracle_irrelevant by exact Hp. rewrite get_nil. reflexivity.
Qed.

End Zero.

(* ================= 4. simulation ================= *)

Section ListsB.
Context {A : Type}.

Lemma gcopy_S_cons : forall k (src : list A) d T, gcopy (S k) src (d :: T) = d :: gcopy k src T.
Proof. intros k src d T. unfold gcopy. cbn [firstn length Nat.sub skipn Nat.add app]. reflexivity. Qed.

(* one more element written: dst[k] = x, then the rest from k+1 *)
Lemma gcopy_cons : forall k x (src dst : list A), (k < length dst)%nat ->
  gcopy (S k) src (set_at k x dst) = gcopy k (x :: src) dst.
Proof.
  induction k as [|k IH]; intros x src dst Hk; destruct dst as [|d T]; cbn [length] in Hk; try lia.
  - cbn [set_at]. unfold gcopy. cbn [firstn length Nat.sub skipn Nat.add app].
    rewrite Nat.sub_0_r. reflexivity.
  - cbn [set_at]. rewrite !gcopy_S_cons. f_equal. apply IH. lia.
Qed.

Lemma gcopy_nil : forall k (dst : list A), gcopy k [] dst = dst.
Proof.
  intros k dst. unfold gcopy. rewrite firstn_nil. cbn [length app]. rewrite Nat.add_0_r.
  apply firstn_skipn.
Qed.

Lemma remove_at_map : forall {B} (f : A -> B) k l, remove_at k (map f l) = map f (remove_at k l).
Proof.
  intros B f k l. rewrite !remove_at_app, map_app, firstn_map, skipn_map. reflexivity.
Qed.

Lemma length_fold_set_at : forall {B} (f : B -> nat) (g : B -> A) (l : list B) (init : list A),
  length (fold_left (fun acc x => set_at (f x) (g x) acc) l init) = length init.
Proof.
  intros B f g l. induction l as [|x l IH]; intros init; [reflexivity|].
  cbn [fold_left]. rewrite IH. apply length_set_at.
Qed.

End ListsB.

Section Sim.
Context {C : Type}.
Implicit Types (n : xnode C) (p : @pool C) (b : N) (c : C).

Definition isome (o : option C) : bool := match o with Some _ => true | None => false end.

(* the raw invariant: array sizes, occupied cells of node4/node16 non-nil, and
   the invariant of Model/Node.v on the occupied part -- which for a node48
   includes "a slot no index byte refers to is nil" and for a node256 "the
   counter is the number of non-nil slots": the two facts a dirty acquisition
   breaks *)
Definition xwf n : Prop := shape_ok n = true /\ occupied_ok n = true /\ nwf (xabs n).

Lemma somes_app : forall l1 l2 : list (option C), somes (l1 ++ l2) = somes l1 ++ somes l2.
Proof.
  induction l1 as [|[x|] l1 IH]; intros l2; cbn [app somes]; [reflexivity|f_equal; apply IH|apply IH].
Qed.
Lemma somes_map : forall cs : list C, somes (map Some cs) = cs.
Proof. induction cs as [|x cs IH]; cbn [map somes]; [reflexivity|f_equal; exact IH]. Qed.
Lemma somes_map_snd : forall en : list (N * C), somes (map (fun bc => Some (snd bc)) en) = map snd en.
Proof. induction en as [|x en IH]; cbn [map somes]; [reflexivity|f_equal; exact IH]. Qed.
Lemma occ_map : forall l : list (option C), forallb isome l = true -> l = map Some (somes l).
Proof.
  induction l as [|[x|] l IH]; intros H; cbn [forallb isome andb] in H; cbn [somes map];
    [reflexivity|f_equal; apply IH; exact H|discriminate].
Qed.
Lemma occ_of_map : forall cs : list C, forallb isome (map Some cs) = true.
Proof. induction cs as [|x cs IH]; cbn [map forallb isome andb]; [reflexivity|exact IH]. Qed.
Lemma somes_repeat_None : forall k, somes (repeat (@None C) k) = [].
Proof. induction k as [|k IH]; cbn [repeat somes]; [reflexivity|exact IH]. Qed.

(* --- occupied prefix of a children array through the three in-place idioms --- *)
Lemma occ_ins : forall i m c (ch : list (option C)), (i <= m)%nat -> (m < length ch)%nat ->
  forallb isome (firstn m ch) = true ->
  firstn (S m) (set_at i (Some c) (shift_right_from i ch)) = map Some (insert_at i c (somes (firstn m ch))).
Proof.
  intros i m c ch Hi Hm Ho. rewrite shift_right_set by lia. rewrite arr_ins_prefix by lia.
  apply occ_map in Ho. set (cs := somes (firstn m ch)) in *.
  assert (Hl : length cs = m).
  { rewrite <- (map_length Some cs), <- Ho, firstn_length. lia. }
  rewrite Ho, firstn_map, skipn_map. rewrite insert_at_app by lia.
  rewrite map_app. reflexivity.
Qed.

Lemma occ_app : forall m c (ch : list (option C)), (m < length ch)%nat ->
  forallb isome (firstn m ch) = true ->
  firstn (S m) (set_at m (Some c) ch) = map Some (somes (firstn m ch) ++ [c]).
Proof.
  intros m c ch Hm Ho. rewrite arr_set_prefix by lia.
  apply occ_map in Ho. set (F := firstn m ch) in *.
  assert (Hl : length F = m) by (unfold F; rewrite firstn_length; lia).
  rewrite firstn_all2 by lia. rewrite skipn_all2 by lia.
  rewrite map_app. cbn [map]. rewrite <- Ho. reflexivity.
Qed.

Lemma occ_del : forall k m (ch : list (option C)), (k < m)%nat -> (m <= length ch)%nat ->
  forallb isome (firstn m ch) = true ->
  firstn (m - 1) (shift_left_onto k ch) = map Some (remove_at k (somes (firstn m ch))).
Proof.
  intros k m ch Hk Hm Ho. rewrite arr_del_prefix by lia.
  apply occ_map in Ho. rewrite Ho at 1. apply remove_at_map.
Qed.

Lemma w_hdr_src : forall src dst, w_hdr src dst = src.
Proof. intros [l pl px] [l' pl' px']. reflexivity. Qed.

(* --- the loops on a zero destination --- *)
Lemma grow48_loop_zero : forall idx (slots : list (option C)),
  grow48_loop idx slots (repeat None (length idx)) =
  map (fun i => if i =? 0 then None
                else match nth_error slots (N.to_nat (i - 1)) with Some s => s | None => None end) idx.
Proof.
  induction idx as [|i idx IH]; intros slots; [reflexivity|].
  cbn [length repeat grow48_loop map]. f_equal. apply IH.
Qed.

Lemma shrink256_loop_spec : forall (src : list (option C)) i pos idx ch,
  (pos + length (enum_slots src i) <= length ch)%nat ->
  shrink256_loop src i pos idx ch =
  (fold_left (fun idx (ib : nat * N) => set_at (N.to_nat (snd ib)) (u8 (N.of_nat (fst ib) + 1)) idx)
             (combine (seq pos (length (enum_slots src i))) (map fst (enum_slots src i))) idx,
   gcopy pos (map (fun bc => Some (snd bc)) (enum_slots src i)) ch).
Proof.
  induction src as [|[c|] src IH]; intros i pos idx ch Hlen.
  - cbn [enum_slots shrink256_loop length seq combine fold_left map]. rewrite gcopy_nil. reflexivity.
  - cbn [enum_slots app] in *. cbn [shrink256_loop length seq map combine fold_left fst snd] in *.
    rewrite IH by (rewrite length_set_at; lia).
    rewrite gcopy_cons by lia. reflexivity.
  - cbn [enum_slots app] in *. cbn [shrink256_loop]. apply IH. exact Hlen.
Qed.

Lemma shrink48_loop_spec : forall idx (slots : list (option C)) i k keys ch,
  (forall q, In q idx -> q = 0 \/ exists c, nth_error slots (N.to_nat (q - 1)) = Some (Some c)) ->
  (N.to_nat i + length idx <= 256)%nat -> length keys = length ch ->
  (k + length (enum_idx idx slots i) <= length keys)%nat ->
  shrink48_loop idx slots i k keys ch =
  (gcopy k (map fst (enum_idx idx slots i)) keys,
   gcopy k (map (fun bc => Some (snd bc)) (enum_idx idx slots i)) ch).
Proof.
  induction idx as [|q idx IH]; intros slots i k keys ch Hpt Hi Hkc Hlen.
  - cbn [enum_idx shrink48_loop map]. rewrite !gcopy_nil. reflexivity.
  - cbn [enum_idx shrink48_loop] in *. cbn [length] in Hi.
    assert (Hpt' : forall q', In q' idx -> q' = 0 \/ exists c, nth_error slots (N.to_nat (q' - 1)) = Some (Some c)).
    { intros q' Hq'. apply Hpt. right. exact Hq'. }
    destruct (q =? 0) eqn:Eq.
    + cbn [app] in *. apply IH; try assumption. lia.
    + destruct (Hpt q (or_introl eq_refl)) as [Hq|[c Hc]]; [lia|].
      unfold slot_at. rewrite Hc in *. cbn [app length map fst snd] in *.
      rewrite IH; try assumption; try (rewrite ?length_set_at; lia).
      rewrite !gcopy_cons by lia. unfold u8. replace (i mod 256) with i by lia. reflexivity.
Qed.

(* --- addChild --- *)
Lemma to_nat_u8_succ : forall l, l < 255 -> N.to_nat (u8 (l + 1)) = S (N.to_nat l).
Proof. intros l H. unfold u8. lia. Qed.
Lemma to_nat_u8_pred : forall l, 0 < l -> l < 256 -> N.to_nat (u8 (l + 255)) = (N.to_nat l - 1)%nat.
Proof. intros l H1 H2. unfold u8. lia. Qed.

Lemma shape_from_nwf : forall n, (xkind n = K48 \/ xkind n = K256) -> nwf (xabs n) ->
  shape_ok n = true /\ occupied_ok n = true.
Proof.
  intros [h keys ch|h keys ch|h idx ch|h ch] [Hk|Hk] Hwf; try discriminate Hk; cbn [xabs] in Hwf;
    cbn [shape_ok occupied_ok].
  - destruct Hwf as (_ & Hi & Hs & _). rewrite Hi, Hs. split; reflexivity.
  - destruct Hwf as (_ & Hs & _). rewrite Hs. split; reflexivity.
Qed.

Lemma xadd48_abs : forall h idx ch b c, length idx = 256%nat ->
  xabs (fst (xadd48 h idx ch b c [] [])) = add48 (xabs_hdr h) (xlen h) idx ch b c.
Proof.
  intros h idx ch b c Hi. unfold xadd48, add48. destruct (xlen h <? maxNode48); [reflexivity|].
  rewrite get_nil. cbn [fst snd xzero xch xh]. rewrite w_hdr_src.
  change 256%nat with (length idx) at 1 || idtac.
  replace (repeat (@None C) 256) with (repeat (@None C) (length idx)) by (rewrite Hi; reflexivity).
  rewrite grow48_loop_zero. reflexivity.
Qed.

Lemma xadd16_inplace : forall h keys ch b c os p,
  length keys = 16%nat -> length ch = 16%nat -> xlen h < maxNode16 ->
  forallb isome (firstn (N.to_nat (xlen h)) ch) = true ->
  xabs (fst (xadd16 h keys ch b c os p)) =
    add16 (xabs_hdr h) (xlen h) keys (somes (firstn (N.to_nat (xlen h)) ch)) b c /\
  shape_ok (fst (xadd16 h keys ch b c os p)) = true /\
  occupied_ok (fst (xadd16 h keys ch b c os p)) = true.
Proof.
  intros h keys ch b c os p Hk Hc Hlt Ho. params. unfold xadd16, add16.
  replace (xlen h <? maxNode16) with true by lia.
  rewrite insertPosNode16_spec by (try assumption; lia).
  set (m := N.to_nat (xlen h)) in *.
  pose proof (find_first_range (fun x => b <? x) (firstn m keys) 0 (Z.le_refl 0)) as E.
  rewrite firstn_length in E.
  set (ff := find_first (fun x => b <? x) (firstn m keys) 0) in *.
  destruct (ff =? -1)%Z eqn:E1.
  - cbn [fst xabs xh xlen w_len shape_ok occupied_ok].
    rewrite to_nat_u8_succ by lia. fold m. rewrite occ_app by (try assumption; lia).
    rewrite somes_map, !length_set_at, Hk, Hc. split; [reflexivity|]. split; [reflexivity|].
    apply occ_of_map.
  - set (i := Z.to_nat ff) in *.
    cbn [fst xabs xh xlen w_len shape_ok occupied_ok].
    rewrite to_nat_u8_succ by lia. fold m. rewrite occ_ins by (try assumption; lia).
    rewrite somes_map, !length_set_at, !length_shift_right_from, Hk, Hc.
    split; [reflexivity|]. split; [reflexivity|]. apply occ_of_map.
Qed.

Lemma xwf4_inv : forall h keys ch, xwf (X4 h keys ch) ->
  length ch = 4%nat /\ forallb isome (firstn (N.to_nat (xlen h)) ch) = true /\
  (N.to_nat (xlen h) <= 4)%nat /\ length (somes (firstn (N.to_nat (xlen h)) ch)) = N.to_nat (xlen h).
Proof.
  intros h keys ch (Hs & Ho & Hwf). params. cbn [shape_ok occupied_ok] in Hs, Ho.
  cbn [xabs] in Hwf. destruct Hwf as (_ & _ & Hl & Hm & _).
  assert (Hc : length ch = 4%nat) by lia. split; [exact Hc|]. split; [exact Ho|].
  split; [lia|]. pose proof (occ_map _ Ho) as E.
  apply (f_equal (@length _)) in E. rewrite map_length, firstn_length in E. lia.
Qed.

Lemma xwf16_inv : forall h keys ch, xwf (X16 h keys ch) ->
  length keys = 16%nat /\ length ch = 16%nat /\ forallb isome (firstn (N.to_nat (xlen h)) ch) = true /\
  (N.to_nat (xlen h) <= 16)%nat /\ length (somes (firstn (N.to_nat (xlen h)) ch)) = N.to_nat (xlen h).
Proof.
  intros h keys ch (Hs & Ho & Hwf). params. cbn [shape_ok occupied_ok] in Hs, Ho.
  cbn [xabs] in Hwf. destruct Hwf as (_ & _ & _ & Hl & _ & Hm & _).
  apply andb_prop in Hs. destruct Hs as [Hk Hc].
  split; [lia|]. split; [lia|]. split; [exact Ho|]. split; [lia|].
  pose proof (occ_map _ Ho) as E.
  apply (f_equal (@length _)) in E. rewrite map_length, firstn_length in E. lia.
Qed.

Lemma xadd4_inplace : forall h keys ch b c os p, xwf (X4 h keys ch) -> b < 256 ->
  assoc b (nenum (xabs (X4 h keys ch))) = None -> xlen h < maxNode4 ->
  xabs (fst (xadd4 h keys ch b c os p)) = nadd (xabs (X4 h keys ch)) b c /\
  shape_ok (fst (xadd4 h keys ch b c os p)) = true /\
  occupied_ok (fst (xadd4 h keys ch b c os p)) = true.
Proof.
  intros h keys ch b c os p Hx Hb Ha Hlt. params.
  destruct (xwf4_inv _ _ _ Hx) as (Hc & Ho & Hm4 & Hcs).
  destruct Hx as (_ & _ & Hwf). cbn [xabs] in Hwf, Ha. cbn [xabs nadd].
  destruct Hwf as (_ & Hkm & Hl & Hm & Hss & s & Hst).
  set (m := N.to_nat (xlen h)) in *. set (cs := somes (firstn m ch)) in *.
  cbn [nenum] in Ha. fold m in Ha. rewrite <- Hcs in Ha.
  destruct (ins_pos_ge_all (lanes keys) cs b s) as (k & Hff & _ & _).
  { rewrite lanes_length. lia. }
  { exact Ha. }
  { intros i Hi. rewrite lanes_length in Hi. rewrite lane_nth by lia. apply Hst. lia. }
  unfold xadd4, add4. replace (xlen h <? maxNode4) with true by lia.
  rewrite insertPosNode4_spec by assumption.
  destruct Hff as [[E Hk]|(E & Hk & Hk4)]; rewrite E.
  - rewrite Z.eqb_refl. cbn [fst xabs xh xlen w_len shape_ok occupied_ok].
    rewrite to_nat_u8_succ by lia. fold m. rewrite occ_app by (try assumption; lia).
    rewrite somes_map, !length_set_at, Hc. fold cs. split; [reflexivity|]. split; [reflexivity|].
    apply occ_of_map.
  - destruct (Z.of_nat k =? -1)%Z eqn:E1; [lia|]. rewrite Nat2Z.id.
    cbn [fst xabs xh xlen w_len shape_ok occupied_ok].
    rewrite to_nat_u8_succ by lia. fold m. rewrite occ_ins by (try assumption; lia).
    rewrite somes_map, !length_set_at, !length_shift_right_from, Hc. fold cs.
    split; [reflexivity|]. split; [reflexivity|]. apply occ_of_map.
Qed.

Lemma firstn_app_le : forall {A} m (l1 l2 : list A), (m <= length l1)%nat ->
  firstn m (l1 ++ l2) = firstn m l1.
Proof.
  intros A m l1 l2 H. rewrite firstn_app. replace (m - length l1)%nat with 0%nat by lia.
  cbn [firstn]. apply app_nil_r.
Qed.

Lemma xadd48_kind : forall h idx ch b c os p,
  xkind (fst (xadd48 h idx ch b c os p)) = K48 \/ xkind (fst (xadd48 h idx ch b c os p)) = K256.
Proof.
  intros. unfold xadd48. destruct (xlen h <? maxNode48); [left|right]; reflexivity.
Qed.

Lemma xadd4_grow : forall h keys ch b c, xwf (X4 h keys ch) -> ~ xlen h < maxNode4 ->
  xabs (fst (xadd4 h keys ch b c [] [])) = nadd (xabs (X4 h keys ch)) b c /\
  shape_ok (fst (xadd4 h keys ch b c [] [])) = true /\
  occupied_ok (fst (xadd4 h keys ch b c [] [])) = true.
Proof.
  intros h keys ch b c Hx Hge. params.
  destruct (xwf4_inv _ _ _ Hx) as (Hc & Ho & Hm4 & Hcs).
  destruct Hx as (_ & _ & Hwf). cbn [xabs] in Hwf. destruct Hwf as (_ & Hkm & Hl & Hm & _).
  set (m := N.to_nat (xlen h)) in *.
  unfold xadd4. replace (xlen h <? maxNode4) with false by lia.
  rewrite get_nil. cbn [fst snd tl xzero xbytes xch xh]. rewrite w_hdr_src.
  replace (gcopy 0 (deconstruct keys) (repeat 0 16%nat)) with (deconstruct keys ++ repeat 0 12%nat)
    by (rewrite gcopy0_repeat; [reflexivity|cbn [deconstruct length]; lia]).
  replace (gcopy 0 ch (repeat None 16)) with (ch ++ repeat None 12)
    by (rewrite gcopy0_repeat by lia; rewrite Hc; reflexivity).
  assert (Hf : firstn m (ch ++ repeat None 12) = firstn m ch) by (apply firstn_app_le; lia).
  destruct (xadd16_inplace h (deconstruct keys ++ repeat 0 12%nat) (ch ++ repeat None 12) b c [] [])
    as (E & Hs & Hoc).
  { rewrite app_length, repeat_length. reflexivity. }
  { rewrite app_length, repeat_length. lia. }
  { lia. }
  { fold m. rewrite Hf. exact Ho. }
  split; [|split; assumption].
  rewrite E. fold m. rewrite Hf. cbn [xabs nadd]. unfold add4.
  replace (xlen h <? maxNode4) with false by lia. reflexivity.
Qed.

Lemma xadd16_grow : forall h keys ch b c, xwf (X16 h keys ch) -> ~ xlen h < maxNode16 ->
  xabs (fst (xadd16 h keys ch b c [] [])) = nadd (xabs (X16 h keys ch)) b c.
Proof.
  intros h keys ch b c Hx Hge. params.
  destruct (xwf16_inv _ _ _ Hx) as (Hk & Hc & Ho & Hm16 & Hcs).
  set (m := N.to_nat (xlen h)) in *.
  unfold xadd16. replace (xlen h <? maxNode16) with false by lia.
  rewrite get_nil. cbn [fst snd tl xzero xbytes xch xh]. rewrite w_hdr_src. fold m.
  rewrite xadd48_abs.
  2:{ unfold grow16_idx.
      rewrite (length_fold_set_at (fun ik : nat * N => N.to_nat (snd ik))
                                  (fun ik : nat * N => u8 (N.of_nat (fst ik) + 1))).
      apply repeat_length. }
  cbn [xabs nadd]. unfold add16. replace (xlen h <? maxNode16) with false by lia. cbv zeta. fold m.
  f_equal. rewrite gcopy0_repeat by (rewrite firstn_length; lia).
  rewrite firstn_length, Hc. replace (Nat.min m 16) with m by lia.
  set (cs := somes (firstn m ch)) in *.
  rewrite (firstn_all2 (n := m) cs) by lia. unfold cs. rewrite <- occ_map by exact Ho. reflexivity.
Qed.

Lemma xabs_hdr_nhdr : forall n, nhdr (xabs n) = xabs_hdr (xh n).
Proof. intros [h keys ch|h keys ch|h idx ch|h ch]; reflexivity. Qed.

(* 4a. addChild on zero acquisitions is nadd, and the raw invariant is kept *)
Theorem xadd_sim : forall n b c os p, xwf n -> zero_pool p -> b < 256 ->
  assoc b (nenum (xabs n)) = None ->
  xabs (fst (xadd n b c os p)) = nadd (xabs n) b c /\ xwf (fst (xadd n b c os p)).
Proof.
  intros n b c os p Hx Hp Hb Ha. rewrite xadd_oracle_irrelevant by exact Hp.
  assert (Hspec : nwf (nadd (xabs n) b c)) by (apply nadd_spec; [apply Hx|exact Hb|exact Ha]).
  assert (E : xabs (fst (xadd n b c [] [])) = nadd (xabs n) b c /\
              shape_ok (fst (xadd n b c [] [])) = true /\ occupied_ok (fst (xadd n b c [] [])) = true).
  { destruct n as [h keys ch|h keys ch|h idx ch|h ch]; cbn [xadd].
    - destruct (N.lt_ge_cases (xlen h) maxNode4) as [Hlt|Hge].
      + apply xadd4_inplace; assumption.
      + apply xadd4_grow; [exact Hx|lia].
    - destruct (N.lt_ge_cases (xlen h) maxNode16) as [Hlt|Hge].
      + destruct (xwf16_inv _ _ _ Hx) as (Hk & Hc & Ho & _).
        apply xadd16_inplace; assumption.
      + assert (E : xabs (fst (xadd16 h keys ch b c [] [])) = nadd (xabs (X16 h keys ch)) b c)
          by (apply xadd16_grow; [exact Hx|lia]).
        split; [exact E|]. apply shape_from_nwf; [|rewrite E; exact Hspec].
        unfold xadd16. replace (xlen h <? maxNode16) with false by lia. cbn [fst]. apply xadd48_kind.
    - destruct Hx as (Hs & _ & _). cbn [shape_ok] in Hs. apply andb_prop in Hs. destruct Hs as [Hi Hs].
      assert (E : xabs (fst (xadd48 h idx ch b c [] [])) = nadd (xabs (X48 h idx ch)) b c)
        by (apply xadd48_abs; lia).
      split; [exact E|]. apply shape_from_nwf; [apply xadd48_kind|rewrite E; exact Hspec].
    - cbn [fst]. split; [reflexivity|]. apply shape_from_nwf; [right; reflexivity|exact Hspec]. }
  destruct E as (E & Hs & Ho). split; [exact E|]. split; [exact Hs|]. split; [exact Ho|].
  rewrite E. exact Hspec.
Qed.

(* --- deleteChild --- *)
Lemma firstn_app_exact : forall {A} (l1 l2 : list A), firstn (length l1) (l1 ++ l2) = l1.
Proof. intros A l1 l2. rewrite firstn_app_le by lia. apply firstn_all. Qed.

Lemma xdel4_abs : forall h keys ch b os p, xwf (X4 h keys ch) -> b < 256 ->
  assoc b (nenum (xabs (X4 h keys ch))) <> None ->
  xabs (fst (xdel4 h keys ch b os p)) = ndel (xabs (X4 h keys ch)) b /\
  shape_ok (fst (xdel4 h keys ch b os p)) = true /\
  occupied_ok (fst (xdel4 h keys ch b os p)) = true.
Proof.
  intros h keys ch b os p Hx Hb Ha. params.
  destruct (xwf4_inv _ _ _ Hx) as (Hc & Ho & Hm4 & Hcs).
  destruct Hx as (_ & _ & Hwf). cbn [xabs] in Hwf, Ha. cbn [xabs ndel].
  destruct Hwf as (_ & Hkm & Hl & Hm & _).
  set (m := N.to_nat (xlen h)) in *. set (cs := somes (firstn m ch)) in *.
  cbn [nenum] in Ha. fold m in Ha. rewrite <- Hcs in Ha.
  destruct (arr_present_all (lanes keys) cs b) as (k & E & Hk & _).
  { rewrite lanes_length. lia. }
  { exact Ha. }
  unfold xdel4. rewrite searchNode4_spec by assumption. rewrite E.
  destruct (Z.of_nat k =? -1)%Z eqn:E1; [lia|]. rewrite Nat2Z.id.
  assert (Hn : N.to_nat (u8 (xlen h + 255)) = (m - 1)%nat) by (apply to_nat_u8_pred; lia).
  match goal with |- context [if ?t then _ else _] => destruct t end;
    cbn [fst xabs xh xlen w_len shape_ok occupied_ok]; rewrite Hn, occ_del by (try assumption; lia);
    rewrite somes_map, length_shift_left_onto, Hc by lia;
    (split; [reflexivity|]); (split; [reflexivity|]); apply occ_of_map.
Qed.

Lemma xdel16_abs : forall h keys ch b, xwf (X16 h keys ch) -> b < 256 ->
  assoc b (nenum (xabs (X16 h keys ch))) <> None ->
  xabs (fst (xdel16 h keys ch b [] [])) = ndel (xabs (X16 h keys ch)) b /\
  shape_ok (fst (xdel16 h keys ch b [] [])) = true /\
  occupied_ok (fst (xdel16 h keys ch b [] [])) = true.
Proof.
  intros h keys ch b Hx Hb Ha. params.
  destruct (xwf16_inv _ _ _ Hx) as (Hk & Hc & Ho & Hm16 & Hcs).
  destruct Hx as (_ & _ & Hwf). cbn [xabs] in Hwf, Ha. cbn [xabs ndel].
  destruct Hwf as (_ & _ & _ & Hl & Hlo & Hm & _).
  set (m := N.to_nat (xlen h)) in *. set (cs := somes (firstn m ch)) in *.
  cbn [nenum] in Ha. fold m in Ha.
  destruct (comb_present (firstn m keys) cs b) as (k & E & Hkk & _).
  { rewrite firstn_length. lia. }
  { exact Ha. }
  rewrite firstn_length in Hkk.
  unfold xdel16. rewrite searchNode16_spec by (try assumption; lia). fold m. rewrite E, Nat2Z.id.
  assert (Hn : N.to_nat (u8 (xlen h + 255)) = (m - 1)%nat) by (apply to_nat_u8_pred; lia).
  cbn [xh xlen w_len].
  destruct (u8 (xlen h + 255) =? shrink16) eqn:Esh.
  - rewrite get_nil. cbn [fst snd xzero xch xh]. rewrite w_hdr_src.
    rewrite gcopy0_over by (rewrite repeat_length, length_shift_left_onto; lia).
    rewrite repeat_length. cbn [xabs xh xlen w_len shape_ok occupied_ok].
    rewrite Hn, firstn_firstn. replace (Nat.min (m - 1) 4) with (m - 1)%nat by lia.
    rewrite occ_del by (try assumption; lia). rewrite somes_map.
    rewrite firstn_length, length_shift_left_onto, Hc by lia.
    split; [reflexivity|]. split; [reflexivity|]. apply occ_of_map.
  - cbn [fst xabs xh xlen w_len shape_ok occupied_ok].
    rewrite Hn, occ_del by (try assumption; lia). rewrite somes_map.
    rewrite !length_shift_left_onto, Hk, Hc by lia.
    split; [reflexivity|]. split; [reflexivity|]. apply occ_of_map.
Qed.

Lemma xdel48_abs : forall h idx ch b, xwf (X48 h idx ch) -> b < 256 ->
  assoc b (nenum (xabs (X48 h idx ch))) <> None ->
  xabs (fst (xdel48 h idx ch b [] [])) = ndel (xabs (X48 h idx ch)) b /\
  (u8 (xlen h + 255) = shrink48 ->
   shape_ok (fst (xdel48 h idx ch b [] [])) = true /\ occupied_ok (fst (xdel48 h idx ch b [] [])) = true).
Proof.
  intros h idx ch b Hx Hb Ha. params.
  destruct Hx as (_ & _ & Hwf). cbn [xabs] in Hwf, Ha. apply nwf48_iff in Hwf.
  destruct Hwf as (_ & Hwf & Hl & Hlo & Hm). cbn [nenum] in Ha.
  destruct (del48_core idx ch b Hwf Hb Ha) as (Hwf' & Een).
  pose proof (al_length_rem b _ Ha) as HLr.
  cbn [xabs ndel]. unfold xdel48. cbn [xh xlen w_len].
  set (idx' := set_at (N.to_nat b) 0 idx) in *.
  set (ch' := set_at (N.to_nat (nth (N.to_nat b) idx 0 - 1)) None ch) in *.
  destruct (u8 (xlen h + 255) =? shrink48) eqn:Esh.
  2:{ split; [reflexivity|]. intros Hc. lia. }
  set (en := enum_idx idx' ch' 0) in *.
  assert (Hen : N.of_nat (length en) = u8 (xlen h + 255)) by (unfold u8; rewrite Een; lia).
  assert (Hen16 : (length en <= 16)%nat) by lia.
  destruct Hwf' as (Hi' & Hs' & Hpt & _).
  rewrite get_nil. cbn [fst snd xzero xch xh xbytes]. rewrite w_hdr_src.
  rewrite shrink48_loop_spec.
  2:{ intros q Hq. destruct (In_nth _ _ 0 Hq) as (x & Hx & Ex). rewrite Hi' in Hx.
      destruct (Hpt x Hx) as [H0|(H1 & _ & Hex)]; rewrite Ex in *; [left; exact H0|right; exact Hex]. }
  2:{ rewrite Hi'. lia. }
  2:{ rewrite !repeat_length. reflexivity. }
  2:{ rewrite repeat_length. fold en. lia. }
  fold en. cbn [fst snd xabs xh xlen w_len shape_ok occupied_ok].
  rewrite !gcopy0_repeat by (rewrite map_length; exact Hen16). rewrite !map_length.
  replace (N.to_nat (u8 (xlen h + 255))) with (length (map (fun bc : N * C => Some (snd bc)) en))
    by (rewrite map_length; lia).
  rewrite firstn_app_exact, somes_map_snd. split; [reflexivity|]. intros _.
  rewrite !app_length, !map_length, !repeat_length.
  replace (length en + (16 - length en))%nat with 16%nat by lia.
  split; [reflexivity|]. rewrite <- map_map. apply occ_of_map.
Qed.

Lemma xdel256_abs : forall h ch b, xwf (X256 h ch) -> b < 256 ->
  assoc b (nenum (xabs (X256 h ch))) <> None ->
  xabs (fst (xdel256 h ch b [] [])) = ndel (xabs (X256 h ch)) b.
Proof.
  intros h ch b Hx Hb Ha. params.
  destruct Hx as (_ & _ & Hwf). cbn [xabs] in Hwf, Ha. destruct Hwf as (_ & Hsl & Hl & Hlo).
  cbn [nenum] in Ha.
  assert (Een : enum_slots (set_at (N.to_nat b) None ch) 0 = rem_key b (enum_slots ch 0)).
  { apply al_sorted_ext.
    - apply enum_slots_ks. rewrite length_set_at. lia.
    - apply al_rem_sorted. apply enum_slots_ks. lia.
    - intros b'. rewrite look256. destruct (N.eq_dec b' b) as [-> |Hne].
      + rewrite al_rem_same by (apply enum_slots_ks; lia). rewrite nth_error_set_at_eq by lia. reflexivity.
      + rewrite al_rem_other by exact Hne. rewrite look256. rewrite nth_error_set_at_ne by lia. reflexivity. }
  pose proof (al_length_rem b _ Ha) as HLr.
  destruct (enum_slots_range ch 0) as (_ & _ & HL256). rewrite Hsl in HL256.
  cbn [xabs ndel]. unfold xdel256. cbn [xh xlen w_len].
  set (ch' := set_at (N.to_nat b) None ch) in *.
  destruct (u8 (xlen h + 255) =? shrink256) eqn:Esh; [|reflexivity].
  set (en := enum_slots ch' 0) in *.
  assert (Hen : N.of_nat (length en) = shrink256) by (unfold u8 in *; rewrite Een; lia).
  rewrite get_nil. cbn [fst snd xzero xch xh xbytes]. rewrite w_hdr_src.
  rewrite shrink256_loop_spec by (rewrite repeat_length; fold en; lia).
  fold en. cbn [fst snd xabs xh xlen w_len].
  rewrite gcopy0_repeat by (rewrite map_length; lia). rewrite map_length. reflexivity.
Qed.

(* 4b. deleteChild of a present byte on zero acquisitions is ndel, and the raw invariant is kept *)
Theorem xdel_sim : forall n b os p, xwf n -> zero_pool p -> b < 256 ->
  assoc b (nenum (xabs n)) <> None ->
  xabs (fst (xdel n b os p)) = ndel (xabs n) b /\ xwf (fst (xdel n b os p)).
Proof.
  intros n b os p Hx Hp Hb Ha. rewrite xdel_oracle_irrelevant by exact Hp.
  assert (Hspec : nwf (ndel (xabs n) b)) by (apply ndel_spec; [apply Hx|exact Hb|exact Ha]).
  assert (E : xabs (fst (xdel n b [] [])) = ndel (xabs n) b /\
              shape_ok (fst (xdel n b [] [])) = true /\ occupied_ok (fst (xdel n b [] [])) = true).
  { destruct n as [h keys ch|h keys ch|h idx ch|h ch]; cbn [xdel].
    - apply xdel4_abs; assumption.
    - apply xdel16_abs; assumption.
    - destruct (xdel48_abs h idx ch b Hx Hb Ha) as (E & Hsh). split; [exact E|].
      destruct (N.eq_dec (u8 (xlen h + 255)) shrink48) as [Esh|Esh]; [apply Hsh; exact Esh|].
      apply shape_from_nwf; [|rewrite E; exact Hspec].
      unfold xdel48. cbn [xh xlen w_len]. replace (u8 (xlen h + 255) =? shrink48) with false by lia.
      left; reflexivity.
    - pose proof (xdel256_abs h ch b Hx Hb Ha) as E. split; [exact E|].
      apply shape_from_nwf; [|rewrite E; exact Hspec].
      unfold xdel256. destruct (xlen _ =? shrink256); [left|right]; reflexivity. }
  destruct E as (E & Hs & Ho). split; [exact E|]. split; [exact Hs|]. split; [exact Ho|].
  rewrite E. exact Hspec.
Qed.

(* --- a newly acquired node4 (trees.go, the two split sites of Insert) --- *)
Theorem xnew4_sim : forall pl src os p, zero_pool p ->
  xabs (fst (@xnew4 C pl src os p)) = empty4 (mkHdr pl (gcopy 0 src (repeat 0 maxPrefixLen))) /\
  xwf (fst (@xnew4 C pl src os p)).
Proof.
  intros pl src os p Hp. rewrite xnew4_oracle_irrelevant by exact Hp.
  unfold xnew4. rewrite get_nil. cbn [fst snd xzero xh xword xch].
  assert (E : xabs (X4 (w_prefix (gcopy 0 src (xprefix xhdr0)) (w_plen pl xhdr0)) 0 (repeat (@None C) 4)) =
              empty4 (mkHdr pl (gcopy 0 src (repeat 0 maxPrefixLen)))) by reflexivity.
  split; [exact E|]. split; [reflexivity|]. split; [reflexivity|]. rewrite E.
  apply empty4_spec. cbn [prefix]. rewrite length_gcopy by lia. apply repeat_length.
Qed.

Lemma xwf_zero4 : xwf (@xzero C K4).
Proof.
  split; [reflexivity|]. split; [reflexivity|].
  change (xabs (@xzero C K4)) with (@empty4 C (mkHdr 0 (repeat 0 maxPrefixLen))).
  apply empty4_spec. cbn [prefix]. apply repeat_length.
Qed.

(* ================= 6. independence ================= *)

Lemma apply_op_pool : forall n o os p, zero_pool p -> zero_pool (snd (apply_op n o os p)).
Proof.
  intros n [b c|b|pl src] os p Hp; cbn [apply_op].
  - apply xadd_pool_zero. exact Hp.
  - apply xdel_pool_zero. exact Hp.
  - apply xnew4_pool_zero. exact Hp.
Qed.

Lemma apply_op_irr : forall n o os p, zero_pool p ->
  fst (apply_op n o os p) = fst (apply_op n o [] []).
Proof.
  intros n [b c|b|pl src] os p Hp; cbn [apply_op].
  - apply xadd_oracle_irrelevant. exact Hp.
  - apply xdel_oracle_irrelevant. exact Hp.
  - apply xnew4_oracle_irrelevant. exact Hp.
Qed.

(* Any number of nodes, ANY nodes (no well-formedness needed), any events in any
   order, any answers of the pool, any drops: every node ends exactly as it
   ends alone, with a private empty pool and only new nodes; and the pool is
   still zero. *)
Theorem interleave_independent : forall evs (st : nat -> xnode C) p, zero_pool p ->
  (forall id, fst (run evs st p) id = alone id evs (st id)) /\ zero_pool (snd (run evs st p)).
Proof.
  induction evs as [|[id' o os|i] evs IH]; intros st p Hp.
  - cbn [run alone fst snd]. split; [reflexivity|exact Hp].
  - cbn [run alone].
    destruct (IH (upd st id' (fst (apply_op (st id') o os p))) (snd (apply_op (st id') o os p)))
      as (Hst & Hpool); [apply apply_op_pool; exact Hp|].
    split; [|exact Hpool]. intros id. rewrite Hst. unfold upd.
    destruct (Nat.eqb id' id) eqn:E.
    + apply Nat.eqb_eq in E. subst id'. rewrite Nat.eqb_refl.
      rewrite apply_op_irr by exact Hp. reflexivity.
    + rewrite Nat.eqb_sym, E. reflexivity.
  - cbn [run alone]. apply IH. apply drop_pool_zero. exact Hp.
Qed.

(* the history of one node in the model of Model/Node.v *)
Definition nstep (r : rnode C) (o : @xop C) : rnode C :=
  match o with
  | OpAdd b c => nadd r b c
  | OpDel b => ndel r b
  | OpNew pl src => empty4 (mkHdr pl (gcopy 0 src (repeat 0 maxPrefixLen)))
  end.
Fixpoint nalone (id : nat) (evs : list (@event C)) (r : rnode C) : rnode C :=
  match evs with
  | [] => r
  | EvOp id' o _ :: evs' => if Nat.eqb id' id then nalone id evs' (nstep r o) else nalone id evs' r
  | EvDrop _ :: evs' => nalone id evs' r
  end.
(* the operations of the node are legal: bytes, additions of absent bytes, deletions of present ones *)
Definition op_ok (r : rnode C) (o : @xop C) : Prop :=
  match o with
  | OpAdd b _ => b < 256 /\ assoc b (nenum r) = None
  | OpDel b => b < 256 /\ assoc b (nenum r) <> None
  | OpNew _ _ => True
  end.
Fixpoint valid (id : nat) (evs : list (@event C)) (r : rnode C) : Prop :=
  match evs with
  | [] => True
  | EvOp id' o _ :: evs' =>
      if Nat.eqb id' id then op_ok r o /\ valid id evs' (nstep r o) else valid id evs' r
  | EvDrop _ :: evs' => valid id evs' r
  end.

Lemma apply_op_sim : forall n o os p, xwf n -> zero_pool p -> op_ok (xabs n) o ->
  xabs (fst (apply_op n o os p)) = nstep (xabs n) o /\ xwf (fst (apply_op n o os p)).
Proof.
  intros n [b c|b|pl src] os p Hx Hp Hok; cbn [apply_op nstep op_ok] in *.
  - destruct Hok as [Hb Ha]. apply xadd_sim; assumption.
  - destruct Hok as [Hb Ha]. apply xdel_sim; assumption.
  - apply xnew4_sim. exact Hp.
Qed.

Lemma alone_refines : forall id evs n, xwf n -> valid id evs (xabs n) ->
  xabs (alone id evs n) = nalone id evs (xabs n) /\ xwf (alone id evs n).
Proof.
  intros id evs. induction evs as [|[id' o os|i] evs IH]; intros n Hx Hv; cbn [alone nalone valid] in *.
  - split; [reflexivity|exact Hx].
  - destruct (Nat.eqb id' id).
    + destruct Hv as [Hok Hv].
      destruct (apply_op_sim n o [] [] Hx (Forall_nil _) Hok) as (E & Hx').
      rewrite <- E in Hv. destruct (IH _ Hx' Hv) as (E2 & Hx2). rewrite E2, E. split; [reflexivity|exact Hx2].
    + apply IH; assumption.
  - apply IH; assumption.
Qed.

(* C12 at the node layer: in ANY interleaving over a shared recycling pool, a
   well-formed node whose own operations are legal goes through exactly the
   states Model/Node.v (no pool, nodes built from scratch) prescribes. *)
Theorem interleave_refines : forall evs (st : nat -> xnode C) p id, zero_pool p ->
  xwf (st id) -> valid id evs (xabs (st id)) ->
  xabs (fst (run evs st p) id) = nalone id evs (xabs (st id)) /\ xwf (fst (run evs st p) id).
Proof.
  intros evs st p id Hp Hx Hv. destruct (interleave_independent evs st p Hp) as (E & _).
  rewrite E. apply alone_refines; assumption.
Qed.

(* sequences of additions to one node, for building examples *)
Fixpoint xadds (n : xnode C) (l : list (N * C)) : xnode C :=
  match l with [] => n | (b, c) :: l' => xadds (fst (xadd n b c [] [])) l' end.
Fixpoint nadds (r : rnode C) (l : list (N * C)) : rnode C :=
  match l with [] => r | (b, c) :: l' => nadds (nadd r b c) l' end.
Fixpoint fresh_keys (r : rnode C) (l : list (N * C)) : bool :=
  match l with
  | [] => true
  | (b, c) :: l' =>
      (b <? 256) && (match nfind r b with None => true | Some _ => false end) && fresh_keys (nadd r b c) l'
  end.
Lemma xadds_sim : forall l n, xwf n -> fresh_keys (xabs n) l = true ->
  xabs (xadds n l) = nadds (xabs n) l /\ xwf (xadds n l).
Proof.
  induction l as [|[b c] l IH]; intros n Hx Hf; cbn [xadds nadds fresh_keys] in *.
  - split; [reflexivity|exact Hx].
  - apply andb_prop in Hf. destruct Hf as [Hf Hf3]. apply andb_prop in Hf. destruct Hf as [Hf1 Hf2].
    assert (Hb : b < 256) by lia.
    assert (Ha : assoc b (nenum (xabs n)) = None).
    { rewrite <- nfind_spec by (try apply Hx; exact Hb). destruct (nfind (xabs n) b); [discriminate|reflexivity]. }
    destruct (xadd_sim n b c [] [] Hx (Forall_nil _) Hb Ha) as (E & Hx').
    rewrite <- E in Hf3. destruct (IH _ Hx' Hf3) as (E2 & Hx2). rewrite E2, E. split; [reflexivity|exact Hx2].
Qed.

End Sim.

(* ================= 5. the hypothesis "the pool is zero" is what carries the result =================
   Closed examples: a well-formed node, a legal addition, a pool holding ONE
   dirty node, an oracle that hands it out.  Every other hypothesis of xadd_sim
   holds; its conclusion fails, and observably so (a lookup differs). *)
Definition ex_keys (lo k : nat) : list (N * nat) := map (fun i => (N.of_nat i, i)) (seq lo k).
Definition ex16 : xnode nat := xadds (xzero K4) (ex_keys 0 16).     (* a full node16: bytes 0..15 *)
Definition ex48 : xnode nat := xadds (xzero K4) (ex_keys 0 48).     (* a full node48: bytes 0..47 *)

Lemma ex16_wf : xwf ex16.
Proof. apply xadds_sim; [apply xwf_zero4|vm_compute; reflexivity]. Qed.
Lemma ex48_wf : xwf ex48.
Proof. apply xadds_sim; [apply xwf_zero4|vm_compute; reflexivity]. Qed.

(* a node48 released with ONE stale index byte: keys[200] = 5 *)
Definition dirty48_idx : xnode nat := X48 xhdr0 (set_at 200 5 (repeat 0 256%nat)) (repeat None 48).
(* a node48 released with ONE stale slot: children[47] *)
Definition dirty48_slot : xnode nat := X48 xhdr0 (repeat 0 256%nat) (set_at 47 (Some 777%nat) (repeat None 48)).
(* a node256 released with ONE stale slot: children[255] *)
Definition dirty256 : xnode nat := X256 xhdr0 (set_at 255 (Some 777%nat) (repeat None 256)).
(* a node4 released with its counter, key word and slot 0 not reset *)
Definition dirty4 : xnode nat :=
  X4 (mkXhdr 1 0 (repeat 0 maxPrefixLen)) 0x41 (set_at 0 (Some 777%nat) (repeat None 4)).

(* node16 -> node48 into the node with the stale index byte: byte 200 was never
   added, yet it is found -- it resolves to the child stored in slot 4 *)
Example dirty_node48_index_observable :
  xwf ex16 /\ 100 < 256 /\ assoc 100 (nenum (xabs ex16)) = None /\
  nfind (xabs (fst (xadd ex16 100 99%nat [Reuse 0] [dirty48_idx]))) 200 = Some 4%nat /\
  nfind (nadd (xabs ex16) 100 99%nat) 200 = None.
Proof.
  split; [exact ex16_wf|]. split; [reflexivity|]. split; [vm_compute; reflexivity|].
  split; vm_compute; reflexivity.
Qed.

Example dirty_node48_shows : exists (n : xnode nat) b c p,
  xwf n /\ b < 256 /\ assoc b (nenum (xabs n)) = None /\
  xabs (fst (xadd n b c [Reuse 0] p)) <> nadd (xabs n) b c.
Proof.
  exists ex16, 100, 99%nat, [dirty48_idx].
  destruct dirty_node48_index_observable as (Hw & Hb & Ha & H1 & H2).
  split; [exact Hw|]. split; [exact Hb|]. split; [exact Ha|].
  intros E. rewrite E, H2 in H1. discriminate H1.
Qed.

(* node16 -> node48 into the node with the stale slot: the raw node differs at
   once, and the damage is a lost slot: the 48th child finds no free slot (in Go:
   index out of range), here the child just added is not found *)
Example dirty_node48_slot_shows :
  xabs (fst (xadd ex16 100 99%nat [Reuse 0] [dirty48_slot])) <> nadd (xabs ex16) 100 99%nat.
Proof.
  intros E.
  apply (f_equal (fun r => match r with N48 _ _ _ s => nth_error s 47 | _ => None end)) in E.
  vm_compute in E. discriminate E.
Qed.

Example dirty_node48_slot_observable :
  let r := fst (xadd ex16 100 99%nat [Reuse 0] [dirty48_slot]) in
  nfind (xabs (xadds r (ex_keys 101 31))) 131 = None /\
  nfind (nadds (nadd (xabs ex16) 100 99%nat) (ex_keys 101 31)) 131 = Some 131%nat /\
  fresh_keys (nadd (xabs ex16) 100 99%nat) (ex_keys 101 31) = true.
Proof. cbv zeta. split; [|split]; vm_compute; reflexivity. Qed.

(* node48 -> node256 into the node with stale slot 255: byte 255 was never added, yet it is found *)
Example dirty_node256_observable :
  xwf ex48 /\ 100 < 256 /\ assoc 100 (nenum (xabs ex48)) = None /\
  nfind (xabs (fst (xadd ex48 100 99%nat [Reuse 0] [dirty256]))) 255 = Some 777%nat /\
  nfind (nadd (xabs ex48) 100 99%nat) 255 = None.
Proof.
  split; [exact ex48_wf|]. split; [reflexivity|]. split; [vm_compute; reflexivity|].
  split; vm_compute; reflexivity.
Qed.

Example dirty_node256_shows : exists (n : xnode nat) b c p,
  xwf n /\ b < 256 /\ assoc b (nenum (xabs n)) = None /\
  xabs (fst (xadd n b c [Reuse 0] p)) <> nadd (xabs n) b c.
Proof.
  exists ex48, 100, 99%nat, [dirty256].
  destruct dirty_node256_observable as (Hw & Hb & Ha & H1 & H2).
  split; [exact Hw|]. split; [exact Hb|]. split; [exact Ha|].
  intros E. rewrite E, H2 in H1. discriminate H1.
Qed.

(* a new node4 out of a dirty node4: the "empty" node already has a child *)
Example dirty_node4_observable :
  nfind (xabs (fst (xnew4 0 [] [Reuse 0] [dirty4]))) 0x41 = Some 777%nat /\
  nfind (@empty4 nat (mkHdr 0 (gcopy 0 [] (repeat 0 maxPrefixLen)))) 0x41 = None.
Proof. split; vm_compute; reflexivity. Qed.

(* and a clear() that forgot one field would put exactly such nodes into the pool *)
Example partial_clear_is_dirty :
  is_zero (clear_with ["children"; "node"]%string ex48) = false /\
  is_zero (clear_with ["node"; "keys"]%string ex48) = false /\
  is_zero (clear_with ["children"; "keys"]%string ex48) = false /\
  is_zero (clear_with ["children"; "node"; "keys"]%string ex48) = true.
Proof. repeat split; vm_compute; reflexivity. Qed.

(* ================= the tree layer's new node4 ================= *)
From GoArt Require Model.Tree.

Lemma gcopy0_is_copy_into : forall (src dst : list N),
  gcopy 0 src dst = GoArt.Model.Tree.copy_into dst src.
Proof.
  intros src dst. unfold gcopy, GoArt.Model.Tree.copy_into. cbn [firstn app Nat.add]. rewrite Nat.sub_0_r.
  destruct (Nat.le_gt_cases (length src) (length dst)) as [H|H].
  - rewrite Nat.min_r by exact H. rewrite !firstn_all2 by lia. reflexivity.
  - rewrite Nat.min_l by lia. rewrite skipn_all2 by lia. rewrite skipn_all. reflexivity.
Qed.

(* Model/Tree.v builds the node of a leaf split / prefix split as `new4 (mkHdr pl (copy_into (prefix
   hdr0) src))`, i.e. on a zero node; with a zero pool that is what Get + the two field writes give *)
Corollary xnew4_is_new4 : forall pl src os (p : @pool GoArt.Model.Tree.tree), zero_pool p ->
  xabs (fst (xnew4 pl src os p)) =
  GoArt.Model.Tree.new4 (mkHdr pl (GoArt.Model.Tree.copy_into (prefix hdr0) src)).
Proof.
  intros pl src os p Hp. destruct (xnew4_sim pl src os p Hp) as (E & _). rewrite E.
  unfold GoArt.Model.Tree.new4. rewrite gcopy0_is_copy_into. reflexivity.
Qed.
