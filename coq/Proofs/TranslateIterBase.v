(* Proofs/TranslateIterFacts.v, part 1 of 7: slices and the reading of a result, findChild, lowestCommonParent, the children of a raw node as the counting loops push them (split so that an edit of ONE traversal breaks the obligations of the properties about that traversal only) *)
From GoArt Require Import Base.Bytes Model.Node4 Model.Node16 Model.Node Model.Tree Model.Iter Model.Api
  Spec.NodeSpec Spec.TreeSpec Spec.IterSpec Proofs.BytesFacts Proofs.Node4Facts Proofs.NodeFacts Proofs.TreeBasics Proofs.NodeAux48
  Proofs.NodeAuxAssoc Proofs.NodeAuxArr Proofs.InsertFacts Proofs.IterFacts Spec.Ideal Proofs.PropFacts Proofs.TranslateFacts.
From GoArt Require Import Model.Pool Proofs.PoolFacts Model.PoolTree Proofs.PoolTreeFacts.
From GoArt Require Import Model.GoArith Model.GoTree Gen.Node4Gen Gen.Node16Gen Gen.TreeGen Proofs.TranslateTreeFacts Gen.IterGen.
From Coq Require Import ZifyN ZifyNat ZifyBool.
Ltac Zify.zify_post_hook ::= Z.div_mod_to_equations.
Open Scope N_scope.

(* ================= 0. slices, the reading of a result ================= *)
Definition status_of (h : iend) : wstatus :=
  match h with ByReturn => WStopped | ByBreak => WBroke | ByEnd => WDone | ByFuel => WFuel end.
Definition ires_abs (r : ires) : option wres :=
  match r with
  | IDone how c acc => Some (mkWres (rev (map tabs acc)) c (status_of how))
  | IPanic | IFuel => None
  end.

Lemma idx_last : forall {A} (q : list A) x, nth_error (q ++ [x]) (length q) = Some x.
Proof. intros A q x. rewrite nth_error_app2 by lia. rewrite Nat.sub_diag. reflexivity. Qed.
Lemma len_snoc_pred : forall {A} (q : list A) x, (Z.of_nat (length (q ++ [x])) - 1)%Z = Z.of_nat (length q).
Proof. intros A q x. rewrite app_length. cbn [length]. lia. Qed.
Lemma idx_refs_last : forall (q : list gref) x, idx_refs (q ++ [x]) (Z.of_nat (length (q ++ [x])) - 1) = Some x.
Proof. intros q x. rewrite len_snoc_pred, idx_refs_nat. apply idx_last. Qed.
Lemma idx_entries_nat : forall (l : list (gref * Z)) i, idx_entries l (Z.of_nat i) = nth_error l i.
Proof.
  intros l i. unfold idx_entries. destruct (Z.ltb_spec (Z.of_nat i) 0); [lia|]. rewrite Nat2Z.id. reflexivity.
Qed.
Lemma idx_entries_last : forall (q : list (gref * Z)) x, idx_entries (q ++ [x]) (Z.of_nat (length (q ++ [x])) - 1) = Some x.
Proof. intros q x. rewrite len_snoc_pred, idx_entries_nat. apply idx_last. Qed.
Lemma slice_to_nat : forall {A} (s : list A) k, (k <= length s)%nat -> slice_to s (Z.of_nat k) = Some (firstn k s).
Proof.
  intros A s k H. unfold slice_to.
  destruct (Z.ltb_spec (Z.of_nat k) 0); [lia|]. destruct (Z.ltb_spec (Z.of_nat (length s)) (Z.of_nat k)); [lia|].
  cbn [orb]. rewrite Nat2Z.id. reflexivity.
Qed.
Lemma slice_to_last : forall {A} (q : list A) x, slice_to (q ++ [x]) (Z.of_nat (length (q ++ [x])) - 1) = Some q.
Proof.
  intros A q x. rewrite len_snoc_pred, slice_to_nat by (rewrite app_length; lia).
  rewrite firstn_app, Nat.sub_diag, firstn_all. cbn [firstn]. rewrite app_nil_r. reflexivity.
Qed.
Lemma slice_from_to_nat : forall {A} (s : list A) lo n, (lo + n <= length s)%nat ->
  slice_from_to s (Z.of_nat lo) (Z.of_nat lo + Z.of_nat n) = Some (firstn n (skipn lo s)).
Proof.
  intros A s lo n H. unfold slice_from_to.
  destruct (Z.ltb_spec (Z.of_nat lo) 0); [lia|].
  destruct (Z.ltb_spec (Z.of_nat lo + Z.of_nat n) (Z.of_nat lo)); [lia|].
  destruct (Z.ltb_spec (Z.of_nat (length s)) (Z.of_nat lo + Z.of_nat n)); [lia|]. cbn [orb].
  replace (Z.to_nat (Z.of_nat lo + Z.of_nat n - Z.of_nat lo)) with n by lia. rewrite Nat2Z.id. reflexivity.
Qed.
Lemma len_nonzero : forall {A} (q : list A) x, negb (Z.of_nat (length (q ++ [x])) =? 0)%Z = true.
Proof. intros A q x. rewrite app_length. cbn [length]. destruct (Z.eqb_spec (Z.of_nat (length q + 1)) 0); [lia|reflexivity]. Qed.
Lemma firstn_succ_nth : forall {A} (l : list A) k x, nth_error l k = Some x -> firstn (S k) l = firstn k l ++ [x].
Proof.
  intros A. induction l as [|y l IH]; intros [|k] x H; cbn [nth_error] in H; try discriminate.
  - injection H as ->. reflexivity.
  - cbn [firstn app]. f_equal. apply IH. exact H.
Qed.

(* ================= 1. findChild ================= *)
(* a cell the invariant calls occupied holds a non-nil reference *)
Lemma slot_occ_some : forall (ch : list (option xtree)) m i, forallb isome (firstn m ch) = true ->
  length (somes (firstn m ch)) = m -> (i < m)%nat -> exists c, slot ch i = Some c.
Proof.
  intros ch m i Ho Hl Hi. rewrite (slot_occ ch m i Ho Hi).
  apply nth_error_lt_some. lia.
Qed.
Lemma xwf48_cell : forall {C} h idx (ch : list (option C)), xwf (X48 h idx ch) ->
  forall b, (b < 256)%nat -> nth b idx 0 = 0 \/
    (1 <= nth b idx 0 <= 48 /\ exists c, nth_error ch (N.to_nat (nth b idx 0 - 1)) = Some (Some c)).
Proof.
  intros C h idx ch (_ & _ & Hn) b Hb. cbn [xabs] in Hn. destruct Hn as (_ & _ & _ & Hinv & _).
  specialize (Hinv b Hb). cbv zeta in Hinv. destruct Hinv as [Hz|(H1 & H2 & H3)]; [left; exact Hz|right]. split; [lia|exact H3].
Qed.

Theorem gen_findChild_eq : forall n b, xwf n -> b < 256 ->
  g_findChild (Some (XInner n)) b = GRet (option_map Some (xfind n b)).
Proof.
  intros n b Hx Hb. destruct n as [h keys ch|h keys ch|h idx ch|h ch];
    cbn [g_findChild ref_tag ref_pointer cast_node4 cast_node16 cast_node48 cast_node256 xword xbytes xch xh].
  - assert (Hk : keys < M32) by (destruct Hx as (_ & _ & Hn); cbn [xabs] in Hn; destruct Hn as (_ & Hk' & _); exact Hk').
    rewrite (gen_searchNode4_eq keys b Hk Hb). pose proof (searchNode4_ge keys b) as Hge.
    destruct (xwf4_inv _ _ _ Hx) as (Hc4 & Ho & Hm4 & Hl). cbn [xfind].
    destruct (negb (searchNode4 keys b =? -1)%Z && (searchNode4 keys b <? Z.of_N (xlen h))%Z) eqn:Ec; [|reflexivity].
    apply andb_prop in Ec. destruct Ec as [Ec1 Ec2]. apply negb_true_iff, Z.eqb_neq in Ec1. apply Z.ltb_lt in Ec2.
    rewrite idx_refs_slot by lia.
    destruct (slot_occ_some ch _ (Z.to_nat (searchNode4 keys b)) Ho Hl ltac:(lia)) as [c Ec]. rewrite Ec. reflexivity.
  - destruct (xwf16_keys _ _ _ Hx) as (Hk16 & HF16 & Hl16). destruct (xwf16_inv _ _ _ Hx) as (_ & Hc16 & Ho & Hm16 & Hl).
    rewrite (gen_searchNode16_eq keys (xlen h) b Hk16 HF16 Hb Hl16). cbn [xfind].
    destruct (search16_cases keys (xlen h) b Hk16 Hl16) as [E|(k & E & Hlt)]; rewrite E.
    + reflexivity.
    + destruct (Z.eqb_spec (Z.of_nat k) (-1)); [lia|]. cbn [negb]. rewrite idx_refs_slot by lia.
      destruct (slot_occ_some ch _ (Z.to_nat (Z.of_nat k)) Ho Hl ltac:(lia)) as [c Ec]. rewrite Ec. reflexivity.
  - destruct (xwf48_inv _ _ _ Hx) as (Hli & Hlc & _). rewrite idx_bytes_N by lia. cbn [xfind].
    destruct (xwf48_cell _ _ _ Hx (N.to_nat b) ltac:(lia)) as [Hz|(Hr & c & Hc)].
    + rewrite Hz. reflexivity.
    + destruct (N.eqb_spec (nth (N.to_nat b) idx 0) 0); [lia|]. cbn [negb].
      rewrite subw8_pred by lia. rewrite idx_refs_slot by lia.
      replace (Z.to_nat (Z.of_N (nth (N.to_nat b) idx 0 - 1))) with (N.to_nat (nth (N.to_nat b) idx 0 - 1)) by lia.
      unfold slot. rewrite Hc. reflexivity.
  - pose proof (xwf256_inv _ _ Hx) as Hlc. rewrite !idx_refs_slot by lia.
    replace (Z.to_nat (Z.of_N b)) with (N.to_nat b) by lia. cbn [xfind].
    destruct (slot ch (N.to_nat b)) as [c|]; reflexivity.
Qed.

(* ================= 2. lowestCommonParent ================= *)
Definition ikind (n : xnode xtree) : gkind :=
  match n with X4 _ _ _ => Kind4 | X16 _ _ _ => Kind16 | X48 _ _ _ => Kind48 | X256 _ _ => Kind256 end.
Lemma ref_tag_inner : forall n, ref_tag (Some (XInner n)) = Some (ikind n).
Proof. intros [h k c|h k c|h k c|h c]; reflexivity. Qed.
Lemma ikind_not_leaf : forall n, gkind_eqb (ikind n) KindLeaf = false.
Proof. intros [h k c|h k c|h k c|h c]; reflexivity. Qed.
Lemma theight_child : forall (n : rnode tree) b c, In (b, c) (nenum n) -> (theight c < theight (Inner n))%nat.
Proof. intros n b c H. apply (in_nenum_height n b c H). Qed.

Theorem gen_lowestCommonParent_loop_eq : forall fuel t p d dd, xtwf t -> WF dd (tabs t) -> isbytes p = true ->
  (theight (tabs t) < fuel)%nat ->
  exists r dep, g_lowestCommonParent_loop1 fuel p (Some t) (Z.of_nat d) = LDone (Some r, dep) /\
    lcparent fuel (tabs t) p d = Some (tabs r).
Proof.
  induction fuel as [|fuel IH]; intros t p d dd Hxt Hwf Hp Hh; [lia|].
  destruct t as [gk tk v|n].
  { exists (XLeaf gk tk v), (Z.of_nat d). split; reflexivity. }
  destruct (xtwf_inv _ Hxt) as [Hx Hch]. rewrite tabs_inner in *.
  cbn [g_lowestCommonParent_loop1 ref_is_nil ref_pointer negb ref_node lcparent].
  rewrite ref_tag_inner, ikind_not_leaf. cbn [negb].
  cbv zeta. rewrite nhdr_nabs. cbn [xabs_hdr prefixLen].
  (* the continuation after the compressed-path test, at depth d1 *)
  assert (Hk : forall d1,
    exists r dep,
      (if (Z.of_nat (length p) <=? Z.of_nat d1)%Z then LDone (Some (XInner n), Z.of_nat d1)
       else match idx_bytes p (Z.of_nat d1) with
            | None => LPanic
            | Some v_2 =>
              match g_findChild (Some (XInner n)) v_2 with
              | GRet r_2 =>
                if ptr_is_nil r_2 then LDone (Some (XInner n), Z.of_nat d1)
                else match r_2 with
                     | None => LPanic
                     | Some v_3 => g_lowestCommonParent_loop1 fuel p v_3 (Z.of_nat d1 + 1)
                     end
              | GPanic => LPanic
              | GFuel => LFuel
              end
            end) = LDone (Some r, dep) /\
      match nth_error p d1 with
      | None => Some (Inner (nabs n))
      | Some b => match nfind (nabs n) b with None => Some (Inner (nabs n)) | Some c => lcparent fuel c p (S d1) end
      end = Some (tabs r)).
  { intros d1. destruct (nth_error p d1) as [b|] eqn:Eb.
    - assert (Hd1 : (d1 < length p)%nat) by (apply nth_error_Some; rewrite Eb; discriminate).
      replace (Z.of_nat (length p) <=? Z.of_nat d1)%Z with false by (symmetry; apply Z.leb_gt; lia).
      rewrite idx_bytes_nat, Eb. pose proof (nth_byte _ _ _ Hp Eb) as Hb.
      rewrite (gen_findChild_eq n b Hx Hb), (nfind_nabs n b Hx).
      destruct (xfind n b) as [c|] eqn:Ef; cbn [option_map omap ptr_is_nil].
      + destruct (xfind_child n b c Hx Ef) as [b' Hin].
        destruct (WF_child _ _ _ _ Hwf (in_nenum_nabs _ _ _ Hin)) as [Hc _].
        pose proof (theight_child _ _ _ (in_nenum_nabs _ _ _ Hin)) as Hhc.
        replace (Z.of_nat d1 + 1)%Z with (Z.of_nat (S d1)) by lia.
        apply (IH c p (S d1) _ (Hch b' c Hin) Hc Hp). lia.
      + exists (XInner n), (Z.of_nat d1). split; [reflexivity|]. rewrite tabs_inner. reflexivity.
    - apply nth_error_None in Eb.
      replace (Z.of_nat (length p) <=? Z.of_nat d1)%Z with true by (symmetry; apply Z.leb_le; lia).
      exists (XInner n), (Z.of_nat d1). split; [reflexivity|]. rewrite tabs_inner. reflexivity. }
  destruct (Nat.eqb_spec (xplen (xh n)) 0) as [Ep|Ep].
  - replace (hdr_prefixLen (xh n) =? 0) with true by (symmetry; apply N.eqb_eq; unfold hdr_prefixLen; lia).
    cbn [negb andb]. rewrite Ep, Nat.add_0_r. apply Hk.
  - replace (hdr_prefixLen (xh n) =? 0) with false by (symmetry; apply N.eqb_neq; unfold hdr_prefixLen; lia).
    cbn [negb andb].
    rewrite (gen_prefixMismatch_eq fuel n p d dd Hxt Hwf ltac:(lia)).
    replace (Z.of_nat (prefixMismatch (nabs n) p d) <? Z.of_N (hdr_prefixLen (xh n)))%Z
      with (prefixMismatch (nabs n) p d <? xplen (xh n))%nat
      by (unfold hdr_prefixLen; destruct (Nat.ltb_spec (prefixMismatch (nabs n) p d) (xplen (xh n)));
          destruct (Z.ltb_spec (Z.of_nat (prefixMismatch (nabs n) p d)) (Z.of_N (N.of_nat (xplen (xh n))))); try reflexivity; lia).
    destruct (prefixMismatch (nabs n) p d <? xplen (xh n))%nat.
    + exists (XInner n), (Z.of_nat d). split; [reflexivity|]. rewrite tabs_inner. reflexivity.
    + replace (Z.of_nat d + Z.of_N (hdr_prefixLen (xh n)))%Z with (Z.of_nat (d + xplen (xh n))) by (unfold hdr_prefixLen; lia).
      apply Hk.
Qed.

(* lowestCommonParent(root, prefix) on a non-nil root: the node the model's descent stops at; no panic, and the
   budget is enough as soon as it exceeds the height (minimum() inside prefixMismatch is given the same budget) *)
Theorem gen_lowestCommonParent_eq : forall fuel t p dd, xtwf t -> WF dd (tabs t) -> isbytes p = true ->
  (theight (tabs t) < fuel)%nat ->
  exists r, g_lowestCommonParent fuel (Some t) p = GRet (Some r) /\ lcparent fuel (tabs t) p 0 = Some (tabs r).
Proof.
  intros fuel t p dd Hxt Hwf Hp Hh.
  destruct (gen_lowestCommonParent_loop_eq fuel t p 0 dd Hxt Hwf Hp Hh) as (r & dep & Hl & Hm).
  exists r. split; [|exact Hm]. unfold g_lowestCommonParent. cbv zeta. cbn [Z.of_nat] in Hl. rewrite Hl. reflexivity.
Qed.
(* a nil root is returned as it is *)
Theorem gen_lowestCommonParent_nil : forall fuel p, g_lowestCommonParent fuel None p = GRet None.
Proof. intros [|fuel] p; reflexivity. Qed.

(* ================= 3. the children of a raw node, as the counting loops push them ================= *)
Definition xkids (n : xnode xtree) : list xtree := map snd (nenum (xabs n)).
Lemma nchildren_nabs : forall n, nchildren (nabs n) = map tabs (xkids n).
Proof. intros n. unfold nchildren, xkids. rewrite nenum_nabs, !map_map. reflexivity. Qed.
Lemma xkids_xtwf : forall n, xtwf (XInner n) -> Forall xtwf (xkids n).
Proof.
  intros n H. destruct (xtwf_inv _ H) as [_ Hch]. apply Forall_forall. intros c Hin.
  unfold xkids in Hin. apply in_map_iff in Hin. destruct Hin as ([b c'] & <- & Hin). exact (Hch b c' Hin).
Qed.

Definition cell48 (ch : list (option xtree)) (i : N) : list xtree :=
  if i =? 0 then [] else match nth_error ch (N.to_nat (i - 1)) with Some (Some c) => [c] | _ => [] end.
Definition kids48 (ch : list (option xtree)) (l : list N) : list xtree := flat_map (cell48 ch) l.
Lemma enum_idx_kids : forall idx ch b, map snd (enum_idx idx ch b) = kids48 ch idx.
Proof.
  induction idx as [|i idx IH]; intros ch b; [reflexivity|].
  cbn [enum_idx kids48 flat_map]. rewrite map_app, IH. unfold kids48. f_equal.
  unfold cell48. destruct (i =? 0); [reflexivity|]. destruct (nth_error ch (N.to_nat (i - 1))) as [[c|]|]; reflexivity.
Qed.
Lemma enum_slots_kids : forall (ch : list (option xtree)) b, map snd (enum_slots ch b) = somes ch.
Proof.
  induction ch as [|[c|] ch IH]; intros b; cbn [enum_slots somes map app]; [reflexivity|f_equal; apply IH|apply IH].
Qed.
Lemma snd_combine : forall {A B} (ks : list A) (cs : list B), (length cs <= length ks)%nat -> map snd (combine ks cs) = cs.
Proof.
  intros A B. induction ks as [|k ks IH]; intros [|c cs] H; cbn [length] in H; cbn [combine map]; try reflexivity; [lia|].
  f_equal. apply IH. lia.
Qed.
Lemma xkids4 : forall h keys ch, xwf (X4 h keys ch) ->
  firstn (N.to_nat (xlen h)) ch = map Some (xkids (X4 h keys ch)).
Proof.
  intros h keys ch Hx. destruct (xwf4_inv _ _ _ Hx) as (Hc & Ho & Hm & Hl).
  unfold xkids. cbn [xabs nenum]. rewrite snd_combine by (rewrite firstn_length, lanes_length; lia).
  apply occ_map. exact Ho.
Qed.
Lemma xkids16 : forall h keys ch, xwf (X16 h keys ch) ->
  firstn (N.to_nat (xlen h)) ch = map Some (xkids (X16 h keys ch)).
Proof.
  intros h keys ch Hx. destruct (xwf16_inv _ _ _ Hx) as (Hk & Hc & Ho & Hm & Hl).
  unfold xkids. cbn [xabs nenum]. rewrite snd_combine by (rewrite firstn_length; lia).
  apply occ_map. exact Ho.
Qed.
Lemma xkids48 : forall h idx ch, xkids (X48 h idx ch) = kids48 ch idx.
Proof. intros. unfold xkids. cbn [xabs nenum]. apply enum_idx_kids. Qed.
Lemma xkids256 : forall h ch, xkids (X256 h ch) = somes ch.
Proof. intros. unfold xkids. cbn [xabs nenum]. apply enum_slots_kids. Qed.
Lemma kids48_app : forall ch l1 l2, kids48 ch (l1 ++ l2) = kids48 ch l1 ++ kids48 ch l2.
Proof. intros. unfold kids48. apply flat_map_app. Qed.

(* ---- the counting loops, each proved once for any Fixpoint with the same unfolding equation:
   E the type of a stack entry, mk what is pushed for the reference read ---- *)
Section DownArr.   (* for i := int(n.childrenLen) - 1; i >= 0; i-- { q = append(q, mk n.children[i]) } *)
Context {E : Type} (mk : gref -> E) (L : nat -> xnode xtree -> list E -> Z -> lres ires (list E * Z)).
Hypothesis L_eq : forall fuel n q i, L fuel n q i =
  if (0 <=? i)%Z then
    match fuel with
    | O => LFuel
    | S fuel => match idx_refs (xch n) i with None => LPanic | Some v => L fuel n (q ++ [mk v]) (i - 1)%Z end
    end
  else LDone (q, i).
Lemma down_arr : forall k n q, (k <= length (xch n))%nat ->
  L k n q (Z.of_nat k - 1) = LDone (q ++ rev (map mk (firstn k (xch n))), (-1)%Z).
Proof.
  induction k as [|k IH]; intros n q Hk.
  - rewrite L_eq. cbn [Z.of_nat Z.sub Z.add Z.opp Z.leb Z.compare firstn map rev]. rewrite app_nil_r. reflexivity.
  - rewrite L_eq. replace (0 <=? Z.of_nat (S k) - 1)%Z with true by lia.
    replace (Z.of_nat (S k) - 1)%Z with (Z.of_nat k) by lia. rewrite idx_refs_nat.
    destruct (nth_error_lt_some (xch n) k ltac:(lia)) as [x Ex]. unfold gref in *. rewrite Ex.
    rewrite IH by lia. rewrite (firstn_succ_nth _ _ _ Ex), map_app, rev_app_distr. cbn [map rev app].
    rewrite <- app_assoc. reflexivity.
Qed.
End DownArr.

Definition cells48_ok (n : xnode xtree) (lo hi : nat) : Prop :=
  forall t, (lo <= t < hi)%nat -> nth t (xbytes n) 0 = 0 \/
    (1 <= nth t (xbytes n) 0 <= 48 /\ exists c, nth_error (xch n) (N.to_nat (nth t (xbytes n) 0 - 1)) = Some (Some c)).

Lemma cell48_read : forall n t, cells48_ok n t (S t) -> (t < length (xbytes n))%nat ->
  exists x, nth_error (xbytes n) t = Some x /\
    ((x = 0 /\ cell48 (xch n) x = []) \/
     (x <> 0 /\ exists c, idx_refs (xch n) (Z.of_N (subw 8 x 1)) = Some (Some c) /\ cell48 (xch n) x = [c])).
Proof.
  intros n t Hok Hl. exists (nth t (xbytes n) 0). split; [apply nth_error_nth'; exact Hl|].
  destruct (Hok t ltac:(lia)) as [Hz|(Hr & c & Hc)].
  - left. rewrite Hz. split; reflexivity.
  - right. split; [lia|]. exists c. unfold cell48. destruct (N.eqb_spec (nth t (xbytes n) 0) 0); [lia|]. rewrite Hc.
    split; [|reflexivity]. rewrite subw8_pred by lia.
    replace (Z.of_N (nth t (xbytes n) 0 - 1)) with (Z.of_nat (N.to_nat (nth t (xbytes n) 0 - 1))) by lia.
    rewrite idx_refs_nat. exact Hc.
Qed.

Section Down48.   (* for i := 255; i >= 0; i-- { idx := n48.keys[i]; if idx == 0 { continue }; q = append(q, mk n48.children[idx-1]) } *)
Context {E : Type} (mk : gref -> E) (L : nat -> xnode xtree -> list E -> Z -> lres ires (list E * Z)).
Hypothesis L_eq : forall fuel n q i, L fuel n q i =
  if (0 <=? i)%Z then
    match fuel with
    | O => LFuel
    | S fuel =>
      match idx_bytes (xbytes n) i with None => LPanic | Some x =>
        if x =? 0 then L fuel n q (i - 1)%Z
        else match idx_refs (xch n) (Z.of_N (subw 8 x 1)) with None => LPanic | Some v => L fuel n (q ++ [mk v]) (i - 1)%Z end
      end
    end
  else LDone (q, i).
Lemma down_48 : forall k n q, (k <= length (xbytes n))%nat -> cells48_ok n 0 k ->
  L k n q (Z.of_nat k - 1) = LDone (q ++ rev (map mk (map Some (kids48 (xch n) (firstn k (xbytes n))))), (-1)%Z).
Proof.
  induction k as [|k IH]; intros n q Hk Hok.
  - rewrite L_eq. cbn [Z.of_nat Z.sub Z.add Z.opp Z.leb Z.compare firstn kids48 flat_map map rev]. rewrite app_nil_r. reflexivity.
  - rewrite L_eq. replace (0 <=? Z.of_nat (S k) - 1)%Z with true by lia.
    replace (Z.of_nat (S k) - 1)%Z with (Z.of_nat k) by lia. rewrite idx_bytes_nat.
    destruct (cell48_read n k) as (x & Ex & Hx); [intros t Ht; apply Hok; lia|lia|]. rewrite Ex.
    rewrite (firstn_succ_nth _ _ _ Ex), kids48_app. cbn [kids48 flat_map]. rewrite app_nil_r.
    assert (Hok' : cells48_ok n 0 k) by (intros t Ht; apply Hok; lia).
    destruct Hx as [[-> Hc]|(Hne & c & Hr & Hc)]; rewrite Hc.
    + rewrite N.eqb_refl, IH by (assumption || lia). rewrite app_nil_r. reflexivity.
    + destruct (N.eqb_spec x 0); [contradiction|]. unfold gref in *. rewrite Hr, IH by (assumption || lia).
      rewrite !map_app, rev_app_distr. cbn [map rev app]. rewrite <- app_assoc. reflexivity.
Qed.
End Down48.

Lemma somes_app1 : forall (l : list (option xtree)) x, somes (l ++ [x]) = somes l ++ match x with Some c => [c] | None => [] end.
Proof. intros l x. rewrite somes_app. destruct x; reflexivity. Qed.

Section Down256.  (* for i := 255; i >= 0; i-- { if n256.children[i].pointer == nil { continue }; q = append(q, mk n256.children[i]) } *)
Context {E : Type} (mk : gref -> E) (L : nat -> xnode xtree -> list E -> Z -> lres ires (list E * Z)).
Hypothesis L_eq : forall fuel n q i, L fuel n q i =
  if (0 <=? i)%Z then
    match fuel with
    | O => LFuel
    | S fuel =>
      match idx_refs (xch n) i with None => LPanic | Some v =>
        if ref_is_nil (ref_pointer v) then L fuel n q (i - 1)%Z
        else match idx_refs (xch n) i with None => LPanic | Some v' => L fuel n (q ++ [mk v']) (i - 1)%Z end
      end
    end
  else LDone (q, i).
Lemma down_256 : forall k n q, (k <= length (xch n))%nat ->
  L k n q (Z.of_nat k - 1) = LDone (q ++ rev (map mk (map Some (somes (firstn k (xch n))))), (-1)%Z).
Proof.
  induction k as [|k IH]; intros n q Hk.
  - rewrite L_eq. cbn [Z.of_nat Z.sub Z.add Z.opp Z.leb Z.compare firstn somes map rev]. rewrite app_nil_r. reflexivity.
  - rewrite L_eq. replace (0 <=? Z.of_nat (S k) - 1)%Z with true by lia.
    replace (Z.of_nat (S k) - 1)%Z with (Z.of_nat k) by lia. rewrite idx_refs_nat.
    destruct (nth_error_lt_some (xch n) k ltac:(lia)) as [x Ex]. unfold gref in *. rewrite Ex.
    rewrite (firstn_succ_nth _ _ _ Ex), somes_app1.
    destruct x as [c|]; cbn [ref_pointer ref_is_nil].
    + rewrite IH by lia. rewrite !map_app, rev_app_distr. cbn [map rev app]. rewrite <- app_assoc. reflexivity.
    + rewrite IH by lia. rewrite app_nil_r. reflexivity.
Qed.
End Down256.

Section UpArr.    (* for i := uint8(0); i < n.childrenLen; i++ { q = append(q, mk n.children[i]) } *)
Context {E : Type} (mk : gref -> E) (L : nat -> xnode xtree -> list E -> N -> lres ires (list E * N)).
Hypothesis L_eq : forall fuel n q i, L fuel n q i =
  if i <? xlen (xh n) then
    match fuel with
    | O => LFuel
    | S fuel => match idx_refs (xch n) (Z.of_N i) with None => LPanic | Some v => L fuel n (q ++ [mk v]) (addw 8 i 1) end
    end
  else LDone (q, i).
Lemma up_arr : forall m j n q, (j + m = N.to_nat (xlen (xh n)))%nat -> xlen (xh n) < 256 ->
  (N.to_nat (xlen (xh n)) <= length (xch n))%nat ->
  L m n q (N.of_nat j) = LDone (q ++ map mk (firstn m (skipn j (xch n))), xlen (xh n)).
Proof.
  induction m as [|m IH]; intros j n q Hj Hlt Hl.
  - rewrite L_eq. replace (N.of_nat j <? xlen (xh n)) with false by (symmetry; apply N.ltb_ge; lia).
    cbn [firstn map]. rewrite app_nil_r. f_equal. f_equal. lia.
  - rewrite L_eq. replace (N.of_nat j <? xlen (xh n)) with true by (symmetry; apply N.ltb_lt; lia).
    replace (Z.of_N (N.of_nat j)) with (Z.of_nat j) by lia. rewrite idx_refs_nat.
    destruct (nth_error_lt_some (xch n) j ltac:(lia)) as [x Ex]. unfold gref in *. rewrite Ex.
    replace (addw 8 (N.of_nat j) 1) with (N.of_nat (S j))
      by (unfold addw; change (2 ^ 8) with 256; rewrite N.mod_small by lia; lia).
    rewrite IH by lia. rewrite (skipn_cons_nth _ _ _ Ex). cbn [firstn map]. rewrite <- app_assoc. reflexivity.
Qed.
End UpArr.

Section Up48.     (* for i := 0; i < 256; i++ { idx := n48.keys[i]; if idx == 0 { continue }; q = append(q, mk n48.children[idx-1]) } *)
Context {E : Type} (mk : gref -> E) (L : nat -> xnode xtree -> list E -> Z -> lres ires (list E * Z)).
Hypothesis L_eq : forall fuel n q i, L fuel n q i =
  if (i <? 256)%Z then
    match fuel with
    | O => LFuel
    | S fuel =>
      match idx_bytes (xbytes n) i with None => LPanic | Some x =>
        if x =? 0 then L fuel n q (i + 1)%Z
        else match idx_refs (xch n) (Z.of_N (subw 8 x 1)) with None => LPanic | Some v => L fuel n (q ++ [mk v]) (i + 1)%Z end
      end
    end
  else LDone (q, i).
Lemma up_48 : forall m j n q, (j + m = 256)%nat -> length (xbytes n) = 256%nat -> cells48_ok n j 256 ->
  L m n q (Z.of_nat j) = LDone (q ++ map mk (map Some (kids48 (xch n) (firstn m (skipn j (xbytes n))))), 256%Z).
Proof.
  induction m as [|m IH]; intros j n q Hj Hl Hok.
  - rewrite L_eq. replace (Z.of_nat j <? 256)%Z with false by (symmetry; apply Z.ltb_ge; lia).
    cbn [firstn kids48 flat_map map]. rewrite app_nil_r. f_equal. f_equal. lia.
  - rewrite L_eq. replace (Z.of_nat j <? 256)%Z with true by (symmetry; apply Z.ltb_lt; lia).
    rewrite idx_bytes_nat.
    destruct (cell48_read n j) as (x & Ex & Hx); [intros t Ht; apply Hok; lia|lia|]. rewrite Ex.
    rewrite (skipn_cons_nth _ _ _ Ex). cbn [firstn kids48 flat_map]. fold (kids48 (xch n) (firstn m (skipn (S j) (xbytes n)))).
    replace (Z.of_nat j + 1)%Z with (Z.of_nat (S j)) by lia.
    assert (Hok' : cells48_ok n (S j) 256) by (intros t Ht; apply Hok; lia).
    destruct Hx as [[-> Hc]|(Hne & c & Hr & Hc)]; rewrite Hc.
    + rewrite N.eqb_refl, IH by (assumption || lia). reflexivity.
    + destruct (N.eqb_spec x 0); [contradiction|]. unfold gref in *. rewrite Hr, IH by (assumption || lia).
      cbn [app map]. rewrite <- app_assoc. reflexivity.
Qed.
End Up48.

Section Up256.    (* for i := 0; i < 256; i++ { if n256.children[i].pointer == nil { continue }; q = append(q, mk n256.children[i]) } *)
Context {E : Type} (mk : gref -> E) (L : nat -> xnode xtree -> list E -> Z -> lres ires (list E * Z)).
Hypothesis L_eq : forall fuel n q i, L fuel n q i =
  if (i <? 256)%Z then
    match fuel with
    | O => LFuel
    | S fuel =>
      match idx_refs (xch n) i with None => LPanic | Some v =>
        if ref_is_nil (ref_pointer v) then L fuel n q (i + 1)%Z
        else match idx_refs (xch n) i with None => LPanic | Some v' => L fuel n (q ++ [mk v']) (i + 1)%Z end
      end
    end
  else LDone (q, i).
Lemma up_256 : forall m j n q, (j + m = 256)%nat -> length (xch n) = 256%nat ->
  L m n q (Z.of_nat j) = LDone (q ++ map mk (map Some (somes (firstn m (skipn j (xch n))))), 256%Z).
Proof.
  induction m as [|m IH]; intros j n q Hj Hl.
  - rewrite L_eq. replace (Z.of_nat j <? 256)%Z with false by (symmetry; apply Z.ltb_ge; lia).
    cbn [firstn somes map]. rewrite app_nil_r. f_equal. f_equal. lia.
  - rewrite L_eq. replace (Z.of_nat j <? 256)%Z with true by (symmetry; apply Z.ltb_lt; lia).
    rewrite idx_refs_nat.
    destruct (nth_error_lt_some (xch n) j ltac:(lia)) as [x Ex]. unfold gref in *. rewrite Ex.
    rewrite (skipn_cons_nth _ _ _ Ex). cbn [firstn].
    replace (Z.of_nat j + 1)%Z with (Z.of_nat (S j)) by lia.
    destruct x as [c|]; cbn [ref_pointer ref_is_nil somes].
    + rewrite IH by lia. cbn [map]. rewrite <- app_assoc. reflexivity.
    + rewrite IH by lia. reflexivity.
Qed.
End Up256.

(* shared by the parts all / filter / backward / rangeScan *)
Definition idref (v : gref) : gref := v.
Lemma map_idref : forall l, map idref l = l.
Proof. induction l as [|x l IH]; cbn [map]; [reflexivity|rewrite IH; reflexivity]. Qed.

(* one iteration of a main loop at an inner node, children pushed last to first: the four cases of switch n.tag *)
Ltac fwd_inner Hx d4 d16 d48 d256 :=
  match goal with |- context [XInner ?n] =>
    let h := fresh "h" in let keys := fresh "keys" in let ch := fresh "ch" in let idx := fresh "idx" in
    destruct n as [h keys ch|h keys ch|h idx ch|h ch];
    cbn [ref_tag gkind_eqb ref_pointer cast_node4 cast_node16 cast_node48 cast_node256 xh]; cbv zeta;
    [ let Hc := fresh "Hc" in let Hm := fresh "Hm" in
      destruct (xwf4_inv _ _ _ Hx) as (Hc & _ & Hm & _);
      replace (Z.of_N (xlen h) - 1)%Z with (Z.of_nat (N.to_nat (xlen h)) - 1)%Z by lia;
      replace (Z.to_nat (Z.of_nat (N.to_nat (xlen h)) - 1 - 0 + 1)) with (N.to_nat (xlen h)) by lia;
      rewrite d4 by (cbn [xch]; lia); cbn [xch]; rewrite (xkids4 _ _ _ Hx)
    | let Hc := fresh "Hc" in let Hm := fresh "Hm" in
      destruct (xwf16_inv _ _ _ Hx) as (_ & Hc & _ & Hm & _);
      replace (Z.of_N (xlen h) - 1)%Z with (Z.of_nat (N.to_nat (xlen h)) - 1)%Z by lia;
      replace (Z.to_nat (Z.of_nat (N.to_nat (xlen h)) - 1 - 0 + 1)) with (N.to_nat (xlen h)) by lia;
      rewrite d16 by (cbn [xch]; lia); cbn [xch]; rewrite (xkids16 _ _ _ Hx)
    | let Hli := fresh "Hli" in
      destruct (xwf48_inv _ _ _ Hx) as (Hli & _ & _);
      change (Z.to_nat (255 - 0 + 1)) with 256%nat; change 255%Z with (Z.of_nat 256 - 1)%Z;
      rewrite d48 by (cbn [xbytes]; first [lia | (intros t Ht; apply (xwf48_cell _ _ _ Hx); lia)]);
      cbn [xbytes xch]; rewrite firstn_all2 by lia; rewrite <- xkids48 with (h := h)
    | let Hlc := fresh "Hlc" in
      pose proof (xwf256_inv _ _ Hx) as Hlc;
      change (Z.to_nat (255 - 0 + 1)) with 256%nat; change 255%Z with (Z.of_nat 256 - 1)%Z;
      rewrite d256 by (cbn [xch]; lia);
      cbn [xch]; rewrite firstn_all2 by lia; rewrite <- xkids256 with (h := h) ]
  end.

Lemma stack_push : forall d cs xs, with_depth d (map tabs (cs ++ xs)) = with_depth d (map tabs cs) ++ with_depth d (map tabs xs).
Proof. intros. unfold with_depth. rewrite !map_app. reflexivity. Qed.
Lemma q_push_fwd : forall cs xs, map Some (rev xs) ++ rev (map Some cs) = map (@Some xtree) (rev (cs ++ xs)).
Proof. intros. rewrite rev_app_distr, map_app, <- map_rev. reflexivity. Qed.
Lemma q_pop : forall (x : xtree) xs, map Some (rev (x :: xs)) = map Some (rev xs) ++ [Some x].
Proof. intros. cbn [rev]. rewrite map_app. reflexivity. Qed.
