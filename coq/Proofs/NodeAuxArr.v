(* Helper lemmas for Proofs/NodeFacts.v, part 3: a raw key array L whose first
   length ch entries are occupied (node4 lanes, node16 key bytes): lookup,
   insertion position, insertion, removal, replacement, first and last. *)
From GoArt Require Import Base.Bytes Model.Node4 Model.Node16 Model.Node Spec.NodeSpec
  Proofs.NodeAuxAssoc Proofs.NodeAuxList.
From Coq Require Import ZifyN ZifyNat ZifyBool.
Ltac Zify.zify_post_hook ::= Z.div_mod_to_equations.
Open Scope N_scope.

Lemma in_firstn : forall {A} n (l : list A) x, In x (firstn n l) -> In x l.
Proof. intros A n l x H. rewrite <- (firstn_skipn n l). apply in_or_app. auto. Qed.

Lemma in_skipn : forall {A} n (l : list A) x, In x (skipn n l) -> In x l.
Proof. intros A n l x H. rewrite <- (firstn_skipn n l). apply in_or_app. auto. Qed.

Lemma Forall_firstn : forall {A} (P : A -> Prop) n l, Forall P l -> Forall P (firstn n l).
Proof. intros A P n l H. rewrite Forall_forall in *. intros x Hx. apply H. eapply in_firstn; eauto. Qed.

Lemma nth_ins_hi : forall {A} k i (l : list A) x d, (k < i)%nat -> (k <= length l)%nat ->
  nth i (firstn k l ++ x :: skipn k l) d = nth (i - 1) l d.
Proof.
  intros A k i l x d Hk Hl. rewrite app_nth2; rewrite firstn_length; [|lia].
  replace (Nat.min k (length l)) with k by lia.
  replace (i - k)%nat with (S (i - k - 1)) by lia. cbn [nth].
  rewrite nth_skipn_add. f_equal. lia.
Qed.

Lemma hd_error_rev : forall {A} (l : list A), hd_error (rev l) = nth_error l (length l - 1).
Proof.
  intros A l. destruct l as [|a l] using rev_ind; [reflexivity|].
  rewrite rev_app_distr. cbn [rev app hd_error]. rewrite app_length. cbn [length].
  rewrite nth_error_app2 by lia. replace (length l + 1 - 1 - length l)%nat with 0%nat by lia.
  reflexivity.
Qed.

Section Arr.
Context {C : Type}.
Implicit Types (L ks : list N) (ch : list C) (b : N) (c : C) (k j n : nat).

(* ---- lookup ---- *)
Lemma comb_find : forall ks ch b, length ks = length ch ->
  (let i := find_first (fun x => x =? b) ks 0 in
   if (i =? -1)%Z then None else nth_error ch (Z.to_nat i)) = assoc b (combine ks ch).
Proof.
  intros ks ch b HL. cbv zeta.
  destruct (ff_cases (fun x => x =? b) ks) as [[E H]|(k & E & Hk & Hb & Hlt)]; rewrite E.
  - cbn. symmetry. apply comb_none; [exact HL|]. apply notin_nth. intros j Hj. specialize (H j Hj). cbn in H. lia.
  - destruct (Z.of_nat k =? -1)%Z eqn:E1; [lia|]. rewrite Nat2Z.id. symmetry.
    apply comb_some; [exact HL|exact Hk|lia|]. intros j Hj. specialize (Hlt j Hj). cbn in Hlt. lia.
Qed.

Lemma comb_present : forall ks ch b, length ks = length ch -> assoc b (combine ks ch) <> None ->
  exists k, find_first (fun x => x =? b) ks 0 = Z.of_nat k /\ (k < length ks)%nat /\
            nth k ks 0 = b /\ forall j, (j < k)%nat -> nth j ks 0 <> b.
Proof.
  intros ks ch b HL Hp.
  destruct (ff_cases (fun x => x =? b) ks) as [[E H]|(k & E & Hk & Hb & Hlt)].
  - exfalso. apply Hp. apply comb_none; [exact HL|]. apply notin_nth. intros j Hj. specialize (H j Hj). cbn in H. lia.
  - exists k. repeat split; [exact E|exact Hk|lia|]. intros j Hj. specialize (Hlt j Hj). cbn in Hlt. lia.
Qed.

Lemma arr_find_all : forall L ch b, (length ch <= length L)%nat ->
  (let i := find_first (fun x => x =? b) L 0 in
   if negb (i =? -1)%Z && (i <? Z.of_nat (length ch))%Z then nth_error ch (Z.to_nat i) else None)
  = assoc b (combine (firstn (length ch) L) ch).
Proof.
  intros L ch b HL. cbv zeta.
  assert (HK : length (firstn (length ch) L) = length ch) by (rewrite firstn_length; lia).
  destruct (ff_cases (fun x => x =? b) L) as [[E H]|(k & E & Hk & Hb & Hlt)]; rewrite E.
  - cbn. symmetry. apply comb_none; [exact HK|]. apply notin_nth. intros j Hj.
    rewrite HK in Hj. rewrite nth_firstn_lt by exact Hj. specialize (H j ltac:(lia)). cbn in H. lia.
  - destruct (Z.of_nat k =? -1)%Z eqn:E1; [lia|]. cbn [negb andb].
    destruct (Z.of_nat k <? Z.of_nat (length ch))%Z eqn:E2.
    + rewrite Nat2Z.id. symmetry. apply comb_some; [exact HK|lia| |].
      * rewrite nth_firstn_lt by lia. lia.
      * intros j Hj. rewrite nth_firstn_lt by lia. specialize (Hlt j Hj). cbn in Hlt. lia.
    + symmetry. apply comb_none; [exact HK|]. apply notin_nth. intros j Hj.
      rewrite HK in Hj. rewrite nth_firstn_lt by exact Hj. specialize (Hlt j ltac:(lia)). cbn in Hlt. lia.
Qed.

Lemma arr_present_all : forall L ch b, (length ch <= length L)%nat ->
  assoc b (combine (firstn (length ch) L) ch) <> None ->
  exists k, find_first (fun x => x =? b) L 0 = Z.of_nat k /\ (k < length ch)%nat /\
            nth k L 0 = b /\ forall j, (j < k)%nat -> nth j L 0 <> b.
Proof.
  intros L ch b HL Hp. rewrite <- arr_find_all in Hp by exact HL. cbv zeta in Hp.
  destruct (ff_cases (fun x => x =? b) L) as [[E H]|(k & E & Hk & Hb & Hlt)]; rewrite E in Hp.
  - cbn in Hp. congruence.
  - exists k. destruct (Z.of_nat k =? -1)%Z eqn:E1; [lia|]. cbn [negb andb] in Hp.
    destruct (Z.of_nat k <? Z.of_nat (length ch))%Z eqn:E2; [|congruence].
    repeat split; [exact E|lia|lia|]. intros j Hj. specialize (Hlt j Hj). cbn in Hlt. lia.
Qed.

(* ---- insertion position ---- *)
(* node16: first occupied key > b *)
Lemma ins_pos_gt : forall ks ch b, length ks = length ch -> assoc b (combine ks ch) = None ->
  exists k, (find_first (fun x => b <? x) ks 0 = (-1)%Z /\ k = length ks \/
             find_first (fun x => b <? x) ks 0 = Z.of_nat k /\ (k < length ks)%nat) /\
            (forall j, (j < k)%nat -> nth j ks 0 < b) /\ ((k < length ks)%nat -> b < nth k ks 0).
Proof.
  intros ks ch b HL Ha. apply comb_none in Ha; [|exact HL]. pose proof (proj2 (notin_nth _ _) Ha) as Ha0; clear Ha; rename Ha0 into Ha.
  destruct (ff_cases (fun x => b <? x) ks) as [[E H]|(k & E & Hk & Hb & Hlt)].
  - exists (length ks). split; [left; split; [exact E|reflexivity]|]. split; [|lia].
    intros j Hj. specialize (H j Hj). specialize (Ha j Hj). cbn in H. lia.
  - exists k. split; [right; split; [exact E|exact Hk]|]. split.
    + intros j Hj. specialize (Hlt j Hj). specialize (Ha j ltac:(lia)). cbn in Hlt. lia.
    + intros _. lia.
Qed.

(* node4: first lane >= b among ALL lanes, unoccupied lanes carrying one common byte *)
Lemma ins_pos_ge_all : forall L ch b s, (length ch <= length L)%nat ->
  assoc b (combine (firstn (length ch) L) ch) = None ->
  (forall i, (length ch <= i < length L)%nat -> nth i L 0 = s) ->
  exists k, (find_first (fun x => b <=? x) L 0 = (-1)%Z /\ k = length ch \/
             find_first (fun x => b <=? x) L 0 = Z.of_nat k /\ (k <= length ch)%nat /\ (k < length L)%nat) /\
            (forall j, (j < k)%nat -> nth j L 0 < b) /\ ((k < length ch)%nat -> b < nth k L 0).
Proof.
  intros L ch b s HL Ha Hs.
  assert (HK : length (firstn (length ch) L) = length ch) by (rewrite firstn_length; lia).
  apply comb_none in Ha; [|exact HK]. pose proof (proj2 (notin_nth _ _) Ha) as Ha0; clear Ha; rename Ha0 into Ha. rewrite HK in Ha.
  assert (Ha' : forall j, (j < length ch)%nat -> nth j L 0 <> b).
  { intros j Hj. rewrite <- (nth_firstn_lt (length ch)) by exact Hj. apply Ha. exact Hj. }
  destruct (ff_cases (fun x => b <=? x) L) as [[E H]|(k & E & Hk & Hb & Hlt)].
  - exists (length ch). split; [left; split; [exact E|reflexivity]|]. split; [|lia].
    intros j Hj. specialize (H j ltac:(lia)). cbn in H. lia.
  - exists k. cbn in Hb.
    assert (Hkn : (k <= length ch)%nat).
    { destruct (Nat.le_gt_cases k (length ch)) as [|Hgt]; [assumption|exfalso].
      specialize (Hlt (length ch) Hgt). cbn in Hlt.
      rewrite (Hs (length ch)) in Hlt by lia. rewrite (Hs k) in Hb by lia. lia. }
    split; [right; repeat split; assumption|]. split.
    + intros j Hj. specialize (Hlt j Hj). cbn in Hlt. lia.
    + intros Hk'. specialize (Ha' k Hk'). lia.
Qed.

(* ---- insertion / removal / replacement on the occupied prefix ---- *)
Lemma arr_add_core : forall ks ks' ch k b c,
  length ks = length ch -> StronglySorted N.lt ks -> assoc b (combine ks ch) = None ->
  (k <= length ks)%nat -> (forall j, (j < k)%nat -> nth j ks 0 < b) ->
  ((k < length ks)%nat -> b < nth k ks 0) ->
  ks' = firstn k ks ++ b :: skipn k ks ->
  combine ks' (insert_at k c ch) = ins_sorted b c (combine ks ch) /\
  StronglySorted N.lt ks' /\ length ks' = S (length ch) /\ length (insert_at k c ch) = S (length ch).
Proof.
  intros ks ks' ch k b c HL HS Ha Hk Hlt Hgt ->.
  assert (E : ins_sorted b c (combine ks ch) = combine (firstn k ks ++ b :: skipn k ks) (insert_at k c ch))
    by (apply comb_ins; assumption).
  assert (HL' : length (firstn k ks ++ b :: skipn k ks) = S (length ch)).
  { rewrite app_length, firstn_length. cbn [length]. rewrite skipn_length. lia. }
  assert (HL2 : length (insert_at k c ch) = S (length ch)) by (apply length_insert_at; lia).
  split; [symmetry; exact E|]. split; [|split; assumption].
  rewrite <- (map_fst_combine (firstn k ks ++ b :: skipn k ks) (insert_at k c ch)) by lia.
  rewrite <- E. apply al_ins_ssorted; [|exact Ha]. rewrite map_fst_combine by exact HL. exact HS.
Qed.

Lemma arr_del_core : forall ks ch k b,
  length ks = length ch -> StronglySorted N.lt ks -> (k < length ks)%nat ->
  nth k ks 0 = b -> (forall j, (j < k)%nat -> nth j ks 0 <> b) ->
  combine (remove_at k ks) (remove_at k ch) = rem_key b (combine ks ch) /\
  StronglySorted N.lt (remove_at k ks) /\ S (length (remove_at k ks)) = length ch /\
  S (length (remove_at k ch)) = length ch.
Proof.
  intros ks ch k b HL HS Hk Hb Hlt.
  assert (E : rem_key b (combine ks ch) = combine (remove_at k ks) (remove_at k ch))
    by (apply comb_rem; assumption).
  assert (L1 : S (length (remove_at k ks)) = length ch) by (rewrite length_remove_at; lia).
  assert (L2 : S (length (remove_at k ch)) = length ch) by (rewrite length_remove_at; lia).
  split; [symmetry; exact E|]. split; [|split; assumption].
  rewrite <- (map_fst_combine (remove_at k ks) (remove_at k ch)) by lia.
  rewrite <- E. apply al_rem_ssorted. rewrite map_fst_combine by exact HL. exact HS.
Qed.

(* ---- first and last ---- *)
Lemma comb_first : forall ks ch, length ks = length ch ->
  hd_error (map snd (combine ks ch)) = nth_error ch 0.
Proof. intros ks ch HL. rewrite map_snd_combine by exact HL. destruct ch; reflexivity. Qed.

Lemma comb_last : forall ks ch, length ks = length ch ->
  hd_error (rev (map snd (combine ks ch))) = nth_error ch (length ch - 1).
Proof. intros ks ch HL. rewrite map_snd_combine by exact HL. apply hd_error_rev. Qed.

End Arr.

Lemma params_ok_holds : params_ok.
Proof. unfold params_ok. vm_compute. repeat split; try discriminate; auto; lia. Qed.
Local Opaque maxNode4 maxNode16 maxNode48 shrink16 shrink48 shrink256 maxPrefixLen.

Ltac params :=
  let P := fresh "P" in
  pose proof params_ok_holds as P; unfold params_ok in P;
  destruct P as (Pm4 & Pm16 & Pm48 & Ps16lo & Ps16m4 & Ps16s48 & Ps48m16 & Pm4m16 & Pm16m48 &
                 Ps48s256 & Ps256m48 & Ps256 & Ppl).

Lemma lane_nth : forall keys i, (i < 4)%nat -> nth i (lanes keys) 0 = lane keys i.
Proof. intros keys i H. do 4 (destruct i as [|i]; [reflexivity|]). lia. Qed.

Lemma Forall_nth_lt : forall (l : list N) i, Forall (fun x => x < 256) l -> nth i l 0 < 256.
Proof.
  intros l i H. destruct (nth_in_or_default i l 0) as [Hin| ->]; [|lia].
  rewrite Forall_forall in H. apply H. exact Hin.
Qed.

Section Intro.
Context {C : Type}.
Implicit Types (b : N) (c : C) (ch : list C) (h : hdr).

(* ---- introduction rules for nwf ---- *)
Lemma n4_intro : forall h keys' ch' len' ks' s',
  length (prefix h) = maxPrefixLen -> keys' < M32 -> len' = N.of_nat (length ch') ->
  len' <= maxNode4 -> firstn (length ch') (lanes keys') = ks' -> StronglySorted N.lt ks' ->
  (forall i, (length ch' <= i < 4)%nat -> nth i (lanes keys') 0 = s') ->
  nwf (N4 h len' keys' ch') /\ nenum (N4 h len' keys' ch') = combine ks' ch' /\
  nhdr (N4 h len' keys' ch') = h.
Proof.
  intros h keys' ch' len' ks' s' Hp Hk Hl Hm Hks HS Hu. split; [|split].
  - split; [exact Hp|]. split; [exact Hk|]. split; [exact Hl|]. split; [exact Hm|].
    split; [rewrite Hks; exact HS|]. exists s'. intros i Hi. rewrite <- lane_nth by lia. apply Hu. exact Hi.
  - cbn [nenum]. rewrite Hl, Nat2N.id, Hks. reflexivity.
  - reflexivity.
Qed.

Lemma n16_intro : forall h keys' ch' len' ks',
  length (prefix h) = maxPrefixLen -> length keys' = 16%nat -> Forall (fun x => x < 256) keys' ->
  len' = N.of_nat (length ch') -> shrink16 < len' -> len' <= maxNode16 ->
  firstn (length ch') keys' = ks' -> StronglySorted N.lt ks' ->
  nwf (N16 h len' keys' ch') /\ nenum (N16 h len' keys' ch') = combine ks' ch' /\
  nhdr (N16 h len' keys' ch') = h.
Proof.
  intros h keys' ch' len' ks' Hp Hk HF Hl Hlo Hm Hks HS. split; [|split].
  - split; [exact Hp|]. repeat split; try assumption. rewrite Hks. exact HS.
  - cbn [nenum]. rewrite Hl, Nat2N.id, Hks. reflexivity.
  - reflexivity.
Qed.

End Intro.
