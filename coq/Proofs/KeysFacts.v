(* Facts about the key encodings of Model/Keys.v: big-endian unsigned,
   sign-flipped two's complement, IEEE-754 bit patterns, schema tuples. *)
From GoArt Require Import Base.Bytes Model.Keys Proofs.BytesFacts.
From Coq Require Import ZifyN ZifyNat ZifyBool.
Open Scope N_scope.
Local Ltac Zify.zify_post_hook ::= Z.div_mod_to_equations.

(* ------------------------------------------------------------------ *)
(* widths                                                              *)
(* ------------------------------------------------------------------ *)

Lemma wbits_S : forall w, wbits (S w) = 8 + wbits w.
Proof. intros w. unfold wbits. lia. Qed.

Lemma wmod_0 : wmod 0 = 1.
Proof. reflexivity. Qed.

Lemma wmod_S : forall w, wmod (S w) = 256 * wmod w.
Proof. intros w. unfold wmod. rewrite wbits_S, N.pow_add_r. reflexivity. Qed.

Lemma wmod_pos : forall w, 0 < wmod w.
Proof.
  intros w. unfold wmod. apply N.neq_0_lt_0. apply N.pow_nonzero. discriminate.
Qed.

Lemma signbit_pos : forall w, 0 < signbit w.
Proof.
  intros w. unfold signbit. apply N.neq_0_lt_0. apply N.pow_nonzero. discriminate.
Qed.

Lemma wmod_signbit : forall w, (0 < w)%nat -> wmod w = 2 * signbit w.
Proof.
  intros w H. unfold wmod, signbit.
  assert (E : wbits w = N.succ (wbits w - 1)) by (unfold wbits; lia).
  rewrite E at 1. apply N.pow_succ_r'.
Qed.

(* ------------------------------------------------------------------ *)
(* big-endian bytes                                                    *)
(* ------------------------------------------------------------------ *)

Lemma be_bytes_length : forall w x, length (be_bytes w x) = w.
Proof.
  induction w as [|w IH]; intros x; cbn [be_bytes].
  - reflexivity.
  - rewrite app_length, IH. cbn [length]. lia.
Qed.

Lemma be_bytes_isbytes : forall w x, isbytes (be_bytes w x) = true.
Proof.
  induction w as [|w IH]; intros x; cbn [be_bytes].
  - reflexivity.
  - rewrite isbytes_app, IH. cbn [isbytes forallb andb].
    rewrite andb_true_r. apply isbyte_spec. apply N.mod_lt. discriminate.
Qed.

Lemma be_val_snoc : forall l b, be_val (l ++ [b]) = be_val l * 256 + b.
Proof. intros l b. unfold be_val. rewrite fold_left_app. reflexivity. Qed.

Lemma be_val_be_bytes : forall w x, x < wmod w -> be_val (be_bytes w x) = x.
Proof.
  induction w as [|w IH]; intros x H.
  - rewrite wmod_0 in H. cbn [be_bytes]. unfold be_val. cbn [fold_left]. lia.
  - rewrite wmod_S in H. cbn [be_bytes].
    rewrite be_val_snoc, IH by lia. lia.
Qed.

Lemma be_bytes_inj : forall w x y, x < wmod w -> y < wmod w ->
  be_bytes w x = be_bytes w y -> x = y.
Proof.
  intros w x y Hx Hy H.
  rewrite <- (be_val_be_bytes w x Hx), <- (be_val_be_bytes w y Hy), H.
  reflexivity.
Qed.

Lemma be_bytes_lex : forall w x y, x < wmod w -> y < wmod w ->
  (lex_lt (be_bytes w x) (be_bytes w y) <-> x < y).
Proof.
  induction w as [|w IH]; intros x y Hx Hy.
  - rewrite wmod_0 in Hx, Hy. cbn [be_bytes]. split; intros H.
    + exfalso. exact (lex_lt_irrefl _ H).
    + lia.
  - rewrite wmod_S in Hx, Hy. cbn [be_bytes].
    rewrite lex_app_fixed by (rewrite !be_bytes_length; reflexivity).
    rewrite IH by lia. rewrite lex_lt_cons. split.
    + intros [H|[H1 H2]].
      * lia.
      * apply be_bytes_inj in H1; try lia.
        destruct H2 as [H2|[_ H2]]; [lia|].
        exfalso. exact (lex_lt_irrefl _ H2).
    + intros H. destruct (N.eq_dec (x / 256) (y / 256)) as [E|E].
      * right. split; [rewrite E; reflexivity|]. left. lia.
      * left. lia.
Qed.

Lemma be_bytes_eq_iff : forall w x y, x < wmod w -> y < wmod w ->
  (be_bytes w x = be_bytes w y <-> x = y).
Proof.
  intros w x y Hx Hy. split.
  - apply be_bytes_inj; assumption.
  - intros ->. reflexivity.
Qed.

Lemma be_val_lt : forall l, isbytes l = true -> be_val l < wmod (length l).
Proof.
  intros l. induction l as [|b l IH] using rev_ind; intros H.
  - cbn [length]. rewrite wmod_0. unfold be_val. cbn [fold_left]. lia.
  - rewrite isbytes_app in H. apply andb_true_iff in H. destruct H as [H1 H2].
    cbn [isbytes forallb] in H2. rewrite andb_true_r in H2. apply isbyte_spec in H2.
    rewrite be_val_snoc, app_length. cbn [length].
    replace (length l + 1)%nat with (S (length l)) by lia.
    rewrite wmod_S. specialize (IH H1). lia.
Qed.

Lemma be_bytes_be_val : forall l, isbytes l = true -> be_bytes (length l) (be_val l) = l.
Proof.
  intros l. induction l as [|b l IH] using rev_ind; intros H.
  - reflexivity.
  - rewrite isbytes_app in H. apply andb_true_iff in H. destruct H as [H1 H2].
    cbn [isbytes forallb] in H2. rewrite andb_true_r in H2. apply isbyte_spec in H2.
    rewrite be_val_snoc, app_length. cbn [length].
    replace (length l + 1)%nat with (S (length l)) by lia.
    cbn [be_bytes].
    replace ((be_val l * 256 + b) / 256) with (be_val l) by lia.
    replace ((be_val l * 256 + b) mod 256) with b by lia.
    rewrite IH by exact H1. reflexivity.
Qed.

(* ---- UnsignedBinaryKey ---- *)

Lemma enc_u_spec : forall w x y, x < wmod w -> y < wmod w ->
  length (enc_u w x) = w /\ isbytes (enc_u w x) = true /\
  (lex_lt (enc_u w x) (enc_u w y) <-> x < y) /\
  (enc_u w x = enc_u w y -> x = y) /\
  dec_u w (enc_u w x) = x.
Proof.
  intros w x y Hx Hy. unfold enc_u, dec_u.
  split; [apply be_bytes_length|].
  split; [apply be_bytes_isbytes|].
  split; [apply be_bytes_lex; assumption|].
  split; [apply be_bytes_inj; assumption|].
  apply be_val_be_bytes; assumption.
Qed.

(* ------------------------------------------------------------------ *)
(* bit tricks                                                          *)
(* ------------------------------------------------------------------ *)

Lemma land_lt_pow2 : forall u k, u < 2 ^ k -> N.land u (2 ^ k) = 0.
Proof.
  intros u k H. apply N.bits_inj. intros n.
  rewrite N.land_spec, N.bits_0, N.pow2_bits_eqb.
  destruct (N.eqb_spec k n) as [<-|E].
  - rewrite andb_true_r. rewrite <- (N.mod_small u (2 ^ k)) by exact H.
    apply N.mod_pow2_bits_high. apply N.le_refl.
  - apply andb_false_r.
Qed.

Lemma lxor_pow2_lo : forall u k, u < 2 ^ k -> N.lxor u (2 ^ k) = u + 2 ^ k.
Proof.
  intros u k H. symmetry. apply N.add_nocarry_lxor. apply land_lt_pow2. exact H.
Qed.

Lemma lxor_pow2_hi : forall u k, 2 ^ k <= u -> u < 2 * 2 ^ k ->
  N.lxor u (2 ^ k) = u - 2 ^ k.
Proof.
  intros u k H1 H2.
  assert (Hv : u - 2 ^ k < 2 ^ k) by (set (p := 2 ^ k) in *; lia).
  assert (E : u = u - 2 ^ k + 2 ^ k) by (set (p := 2 ^ k) in *; lia).
  rewrite E at 1. rewrite <- (lxor_pow2_lo _ _ Hv).
  rewrite N.lxor_assoc, N.lxor_nilpotent, N.lxor_0_r. reflexivity.
Qed.

Lemma lxor_ones : forall b k, b < 2 ^ k -> N.lxor b (2 ^ k - 1) = 2 ^ k - 1 - b.
Proof.
  intros b k H.
  assert (E : N.ones k = 2 ^ k - 1) by (rewrite N.ones_equiv, N.sub_1_r; reflexivity).
  rewrite <- E.
  destruct (N.eq_dec b 0) as [->|Hb].
  - rewrite N.lxor_0_l, N.sub_0_r. reflexivity.
  - change (N.lxor b (N.ones k)) with (N.lnot b k).
    apply N.lnot_sub_low. apply N.log2_lt_pow2; [lia|exact H].
Qed.

Lemma lxor_signbit_lo : forall w b, b < signbit w ->
  N.lxor b (signbit w) = b + signbit w.
Proof. intros w b H. unfold signbit in *. apply lxor_pow2_lo. exact H. Qed.

Lemma lxor_signbit_hi : forall w b, signbit w <= b -> b < 2 * signbit w ->
  N.lxor b (signbit w) = b - signbit w.
Proof. intros w b H1 H2. unfold signbit in *. apply lxor_pow2_hi; assumption. Qed.

Lemma lxor_wones : forall w b, b < wmod w ->
  N.lxor b (wmod w - 1) = wmod w - 1 - b.
Proof. intros w b H. unfold wmod in *. apply lxor_ones. exact H. Qed.

(* ------------------------------------------------------------------ *)
(* SignedBinaryKey                                                     *)
(* ------------------------------------------------------------------ *)

Lemma twos_nonneg : forall w x, (0 <= x < Z.of_N (wmod w))%Z -> twos w x = Z.to_N x.
Proof. intros w x H. unfold twos. rewrite Z.mod_small by exact H. reflexivity. Qed.

Lemma twos_neg : forall w x, (- Z.of_N (wmod w) <= x < 0)%Z ->
  twos w x = Z.to_N (x + Z.of_N (wmod w)).
Proof.
  intros w x H. unfold twos. pose proof (wmod_pos w) as HW.
  rewrite <- (Z.mod_add x 1 (Z.of_N (wmod w))) by lia.
  rewrite Z.mul_1_l. rewrite Z.mod_small by lia. reflexivity.
Qed.

(* the code written big-endian is simply x + 2^(bits-1) *)
Lemma enc_s_code : forall w x, (0 < w)%nat -> in_srange w x ->
  N.lxor (twos w x) (signbit w) = Z.to_N (x + Z.of_N (signbit w)).
Proof.
  intros w x Hw [H1 H2].
  pose proof (wmod_signbit w Hw) as HW. pose proof (signbit_pos w) as HS.
  destruct (Z.ltb_spec x 0) as [L|L].
  - rewrite twos_neg by lia. rewrite lxor_signbit_hi by lia. lia.
  - rewrite twos_nonneg by lia. rewrite lxor_signbit_lo by lia. lia.
Qed.

Lemma enc_s_spec : forall w x y, (0 < w)%nat -> in_srange w x -> in_srange w y ->
  length (enc_s w x) = w /\ isbytes (enc_s w x) = true /\
  (lex_lt (enc_s w x) (enc_s w y) <-> (x < y)%Z) /\
  (enc_s w x = enc_s w y -> x = y) /\
  dec_s w (enc_s w x) = x.
Proof.
  intros w x y Hw Hx Hy. unfold enc_s, dec_s.
  rewrite !enc_s_code by assumption.
  pose proof (wmod_signbit w Hw) as HW. pose proof (signbit_pos w) as HS.
  destruct Hx as [Hx1 Hx2]. destruct Hy as [Hy1 Hy2].
  split; [apply be_bytes_length|].
  split; [apply be_bytes_isbytes|].
  split; [rewrite be_bytes_lex by lia; lia|].
  split; [intros E; apply be_bytes_inj in E; lia|].
  rewrite be_val_be_bytes by lia. unfold untwos.
  destruct (N.ltb_spec (Z.to_N (x + Z.of_N (signbit w))) (signbit w)) as [L|L].
  - rewrite lxor_signbit_lo by exact L.
    destruct (N.ltb_spec (Z.to_N (x + Z.of_N (signbit w)) + signbit w) (signbit w)); lia.
  - rewrite lxor_signbit_hi by lia.
    destruct (N.ltb_spec (Z.to_N (x + Z.of_N (signbit w)) - signbit w) (signbit w)); lia.
Qed.

(* ------------------------------------------------------------------ *)
(* FloatBinaryKey                                                      *)
(* ------------------------------------------------------------------ *)

(* turn the constants of a concrete width into numerals *)
Ltac fconc w :=
  let W := eval vm_compute in (wmod w) in
  let S := eval vm_compute in (signbit w) in
  let P := eval vm_compute in (pinf_bits w) in
  let M := eval vm_compute in (2 ^ mbits w) in
  let E := eval vm_compute in (2 ^ ebits w) in
  unfold ninf_bits in *;
  change (wmod w) with W in *; change (signbit w) with S in *;
  change (pinf_bits w) with P in *; change (2 ^ mbits w) with M in *;
  change (2 ^ ebits w) with E in *.

Lemma fconst_facts : forall w, (w = 4 \/ w = 8)%nat ->
  wmod w = 2 * signbit w /\ ninf_bits w = pinf_bits w + signbit w /\
  0 < pinf_bits w /\ pinf_bits w + 4 <= signbit w.
Proof. intros w [-> | ->]; [fconc 4%nat | fconc 8%nat]; lia. Qed.

Lemma is_nan_spec : forall w b, (w = 4 \/ w = 8)%nat -> b < wmod w ->
  (is_nan w b = true <-> (pinf_bits w < b < signbit w \/ ninf_bits w < b)).
Proof.
  intros w b [-> | ->] H; unfold is_nan, fexp, fmant;
    [fconc 4%nat | fconc 8%nat];
    rewrite andb_true_iff, negb_true_iff, N.eqb_eq, N.eqb_neq; lia.
Qed.

Lemma fsign_spec : forall w b, (w = 4 \/ w = 8)%nat -> b < wmod w ->
  (fsign w b =? 1) = (signbit w <=? b).
Proof.
  intros w b [-> | ->] H; unfold fsign; [fconc 4%nat | fconc 8%nat];
    apply eq_true_iff_eq; rewrite N.eqb_eq, N.leb_le; lia.
Qed.

Lemma lor_wones_signbit : forall w, (w = 4 \/ w = 8)%nat ->
  N.lor (wmod w - 1) (signbit w) = wmod w - 1.
Proof. intros w [-> | ->]; vm_compute; reflexivity. Qed.

Lemma nan_bits_is_nan : forall w, (w = 4 \/ w = 8)%nat -> is_nan w (nan_bits w) = true.
Proof. intros w [-> | ->]; vm_compute; reflexivity. Qed.

(* the code in the five regions of the bit-pattern space *)
Lemma fl_code_cases : forall w b, (w = 4 \/ w = 8)%nat -> b < wmod w ->
  (is_nan w b = true /\ (pinf_bits w < b < signbit w \/ ninf_bits w < b) /\
     fl_code w b = 0) \/
  (is_nan w b = false /\ b = ninf_bits w /\ fl_code w b = 1) \/
  (is_nan w b = false /\ signbit w <= b < ninf_bits w /\
     fl_code w b = wmod w + 1 - b) \/
  (is_nan w b = false /\ b < pinf_bits w /\ fl_code w b = b + signbit w + 2) \/
  (is_nan w b = false /\ b = pinf_bits w /\ fl_code w b = wmod w - 2).
Proof.
  intros w b Hw Hb.
  destruct (fconst_facts w Hw) as (HW & HN & HP0 & HPS).
  pose proof (is_nan_spec w b Hw Hb) as Hn.
  pose proof (fsign_spec w b Hw Hb) as Hs.
  unfold fl_code. cbv zeta. rewrite Hs.
  destruct (is_nan w b) eqn:En.
  - left.
    assert (R : pinf_bits w < b < signbit w \/ ninf_bits w < b) by (apply Hn; reflexivity).
    split; [reflexivity|]. split; [exact R|].
    destruct (N.eqb_spec b (pinf_bits w)); [lia|].
    destruct (N.eqb_spec b (ninf_bits w)); [lia|]. reflexivity.
  - right.
    assert (R : ~ (pinf_bits w < b < signbit w \/ ninf_bits w < b))
      by (intros X; apply Hn in X; discriminate).
    destruct (N.eqb_spec b (pinf_bits w)) as [E1|E1].
    { right; right; right. auto. }
    destruct (N.eqb_spec b (ninf_bits w)) as [E2|E2].
    { left. auto. }
    destruct (N.leb_spec (signbit w) b) as [L|L].
    + right; left. split; [reflexivity|]. split; [lia|].
      rewrite lxor_wones by lia. rewrite N.mod_small by lia. lia.
    + right; right; left. split; [reflexivity|]. split; [lia|].
      rewrite lxor_signbit_lo by lia. rewrite N.mod_small by lia. lia.
Qed.

Ltac fcases w a Hw Ha N R C :=
  destruct (fl_code_cases w a Hw Ha)
    as [(N&R&C)|[(N&R&C)|[(N&R&C)|[(N&R&C)|(N&R&C)]]]].

Lemma fl_code_lt_wmod : forall w b, (w = 4 \/ w = 8)%nat -> b < wmod w ->
  fl_code w b < wmod w.
Proof.
  intros w b Hw Hb. destruct (fconst_facts w Hw) as (HW & HN & HP0 & HPS).
  fcases w b Hw Hb Nb Rb Cb; rewrite Cb; lia.
Qed.

Lemma fl_code_nan : forall w b, (w = 4 \/ w = 8)%nat -> b < wmod w ->
  is_nan w b = true -> fl_code w b = 0.
Proof.
  intros w b Hw Hb H. fcases w b Hw Hb Nb Rb Cb; congruence.
Qed.

Lemma fl_code_nan_iff : forall w b, (w = 4 \/ w = 8)%nat -> b < wmod w ->
  (is_nan w b = true <-> fl_code w b = 0).
Proof.
  intros w b Hw Hb. destruct (fconst_facts w Hw) as (HW & HN & HP0 & HPS).
  fcases w b Hw Hb Nb Rb Cb; rewrite Nb, Cb; split; intros H; try reflexivity;
    try discriminate; exfalso; lia.
Qed.

Lemma fl_code_ninf : forall w, (w = 4 \/ w = 8)%nat -> fl_code w (ninf_bits w) = 1.
Proof.
  intros w Hw. destruct (fconst_facts w Hw) as (HW & HN & HP0 & HPS).
  assert (Hb : ninf_bits w < wmod w) by lia.
  fcases w (ninf_bits w) Hw Hb Nb Rb Cb; try exact Cb; exfalso; lia.
Qed.

Lemma fl_code_pinf : forall w, (w = 4 \/ w = 8)%nat -> fl_code w (pinf_bits w) = wmod w - 2.
Proof.
  intros w Hw. destruct (fconst_facts w Hw) as (HW & HN & HP0 & HPS).
  assert (Hb : pinf_bits w < wmod w) by lia.
  fcases w (pinf_bits w) Hw Hb Nb Rb Cb; try exact Cb; exfalso; lia.
Qed.

Lemma fl_code_neg : forall w b, (w = 4 \/ w = 8)%nat ->
  signbit w <= b < ninf_bits w -> fl_code w b = wmod w + 1 - b.
Proof.
  intros w b Hw H. destruct (fconst_facts w Hw) as (HW & HN & HP0 & HPS).
  assert (Hb : b < wmod w) by lia.
  fcases w b Hw Hb Nb Rb Cb; try exact Cb; exfalso; lia.
Qed.

Lemma fl_code_pos : forall w b, (w = 4 \/ w = 8)%nat ->
  b < pinf_bits w -> fl_code w b = b + signbit w + 2.
Proof.
  intros w b Hw H. destruct (fconst_facts w Hw) as (HW & HN & HP0 & HPS).
  assert (Hb : b < wmod w) by lia.
  fcases w b Hw Hb Nb Rb Cb; try exact Cb; exfalso; lia.
Qed.

(* the declared order is the order of the codes *)
Lemma fl_lt_code : forall w a b, (w = 4 \/ w = 8)%nat -> a < wmod w -> b < wmod w ->
  (fl_lt w a b <-> fl_code w a < fl_code w b).
Proof.
  intros w a b Hw Ha Hb. destruct (fconst_facts w Hw) as (HW & HN & HP0 & HPS).
  unfold fl_lt. rewrite (fsign_spec w a Hw Ha), (fsign_spec w b Hw Hb).
  fcases w a Hw Ha Na Ra Ca; fcases w b Hw Hb Nb Rb Cb; rewrite Na, Nb, Ca, Cb;
    destruct (N.leb_spec (signbit w) a), (N.leb_spec (signbit w) b); lia.
Qed.

Lemma fl_samekey_code : forall w a b, (w = 4 \/ w = 8)%nat -> a < wmod w -> b < wmod w ->
  (fl_samekey w a b <-> fl_code w a = fl_code w b).
Proof.
  intros w a b Hw Ha Hb. destruct (fconst_facts w Hw) as (HW & HN & HP0 & HPS).
  unfold fl_samekey.
  fcases w a Hw Ha Na Ra Ca; fcases w b Hw Hb Nb Rb Cb; rewrite Na, Nb, Ca, Cb;
    (split; [intros [[X Y]|X]; try discriminate; try lia
            | intros X; try (left; split; reflexivity); try (right; lia);
              try (exfalso; lia)]).
Qed.

Lemma fl_ltb_spec : forall w a b, fl_ltb w a b = true <-> fl_lt w a b.
Proof.
  intros w a b. unfold fl_ltb, fl_lt.
  destruct (is_nan w a), (is_nan w b), (fsign w a =? 1), (fsign w b =? 1);
    try rewrite N.ltb_lt; split; intros H; auto; try discriminate; try contradiction.
Qed.

Lemma fl_lt_irrefl : forall w a, ~ fl_lt w a a.
Proof.
  intros w a. unfold fl_lt.
  destruct (is_nan w a); auto. destruct (fsign w a =? 1); lia.
Qed.

Lemma fl_lt_trans : forall w a b c, (w = 4 \/ w = 8)%nat ->
  a < wmod w -> b < wmod w -> c < wmod w ->
  fl_lt w a b -> fl_lt w b c -> fl_lt w a c.
Proof.
  intros w a b c Hw Ha Hb Hc.
  rewrite !fl_lt_code by assumption. lia.
Qed.

Lemma fl_lt_total : forall w a b, (w = 4 \/ w = 8)%nat -> a < wmod w -> b < wmod w ->
  fl_lt w a b \/ fl_samekey w a b \/ fl_lt w b a.
Proof.
  intros w a b Hw Ha Hb.
  rewrite !fl_lt_code, fl_samekey_code by assumption. lia.
Qed.

Lemma fl_lt_asym : forall w a b, (w = 4 \/ w = 8)%nat -> a < wmod w -> b < wmod w ->
  fl_lt w a b -> ~ fl_lt w b a.
Proof.
  intros w a b Hw Ha Hb. rewrite !fl_lt_code by assumption. lia.
Qed.

Lemma fl_lt_samekey_l : forall w a a' b, (w = 4 \/ w = 8)%nat ->
  a < wmod w -> a' < wmod w -> b < wmod w ->
  fl_samekey w a a' -> fl_lt w a b -> fl_lt w a' b.
Proof.
  intros w a a' b Hw Ha Ha' Hb.
  rewrite !fl_lt_code, fl_samekey_code by assumption. lia.
Qed.

Lemma fl_lt_samekey_r : forall w a b b', (w = 4 \/ w = 8)%nat ->
  a < wmod w -> b < wmod w -> b' < wmod w ->
  fl_samekey w b b' -> fl_lt w a b -> fl_lt w a b'.
Proof.
  intros w a b b' Hw Ha Hb Hb'.
  rewrite !fl_lt_code, fl_samekey_code by assumption. lia.
Qed.

(* The order facts hold in fact for every width and every pattern, in range or
   not: fl_lt is the lexicographic order on (not NaN, not negative, magnitude). *)
Lemma fl_lt_trans_any : forall w a b c, fl_lt w a b -> fl_lt w b c -> fl_lt w a c.
Proof.
  intros w a b c. unfold fl_lt.
  destruct (is_nan w a), (is_nan w b), (is_nan w c); try tauto;
    destruct (fsign w a =? 1), (fsign w b =? 1), (fsign w c =? 1); try tauto; lia.
Qed.

Lemma fl_lt_total_any : forall w a b, fl_lt w a b \/ fl_samekey w a b \/ fl_lt w b a.
Proof.
  intros w a b. unfold fl_lt, fl_samekey.
  destruct (is_nan w a), (is_nan w b); try tauto;
    destruct (fsign w a =? 1), (fsign w b =? 1); try tauto; lia.
Qed.

Lemma fl_lt_asym_any : forall w a b, fl_lt w a b -> ~ fl_lt w b a.
Proof.
  intros w a b H1 H2. apply (fl_lt_irrefl w a). eapply fl_lt_trans_any; eauto.
Qed.

Lemma fl_samekey_refl : forall w a, fl_samekey w a a.
Proof. intros w a. right. reflexivity. Qed.

Lemma fl_samekey_sym : forall w a b, fl_samekey w a b -> fl_samekey w b a.
Proof. intros w a b [[H1 H2]| ->]; [left; auto | right; reflexivity]. Qed.

Lemma fl_samekey_trans : forall w a b c,
  fl_samekey w a b -> fl_samekey w b c -> fl_samekey w a c.
Proof.
  intros w a b c [[H1 H2]| ->] [[H3 H4]| ->]; try (left; split; assumption).
  right. reflexivity.
Qed.

Lemma fl_lt_not_samekey : forall w a b, fl_lt w a b -> ~ fl_samekey w a b.
Proof.
  intros w a b H [[H1 H2]| ->].
  - unfold fl_lt in H. rewrite H1, H2 in H. exact H.
  - exact (fl_lt_irrefl w b H).
Qed.

Lemma fl_lt_chain : forall w n x y, (w = 4 \/ w = 8)%nat ->
  is_nan w n = true -> n < wmod w ->
  signbit w < x < ninf_bits w -> 0 < y < pinf_bits w ->
  fl_lt w n (ninf_bits w) /\ fl_lt w (ninf_bits w) x /\ fl_lt w x (signbit w) /\
  fl_lt w (signbit w) 0 /\ fl_lt w 0 y /\ fl_lt w y (pinf_bits w).
Proof.
  intros w n x y Hw Hn Hnw Hx Hy.
  destruct (fconst_facts w Hw) as (HW & HN & HP0 & HPS).
  rewrite !fl_lt_code by (try assumption; lia).
  rewrite (fl_code_nan w n Hw Hnw Hn), (fl_code_ninf w Hw), (fl_code_pinf w Hw).
  rewrite (fl_code_neg w x Hw) by lia.
  rewrite (fl_code_neg w (signbit w) Hw) by lia.
  rewrite (fl_code_pos w 0 Hw) by lia.
  rewrite (fl_code_pos w y Hw) by lia.
  lia.
Qed.

Lemma fl_uncode_code : forall w b, (w = 4 \/ w = 8)%nat -> b < wmod w ->
  is_nan w b = false -> fl_uncode w (fl_code w b) = b.
Proof.
  intros w b Hw Hb Hn. destruct (fconst_facts w Hw) as (HW & HN & HP0 & HPS).
  pose proof (signbit_pos w) as HS.
  fcases w b Hw Hb Nb Rb Cb; try congruence; rewrite Cb; unfold fl_uncode; cbv zeta.
  - (* -Inf *)
    destruct (N.eqb_spec 1 (wmod w - 2)); [lia|].
    rewrite N.eqb_refl. symmetry. exact Rb.
  - (* negative *)
    destruct (N.eqb_spec (wmod w + 1 - b) (wmod w - 2)); [lia|].
    destruct (N.eqb_spec (wmod w + 1 - b) 1); [lia|].
    destruct (N.eqb_spec (wmod w + 1 - b) 0); [lia|].
    destruct (N.eqb_spec (wmod w + 1 - b) 2); [lia|].
    assert (Hi : (wmod w + 1 - b + wmod w - 2) mod wmod w = wmod w - 1 - b).
    { replace (wmod w + 1 - b + wmod w - 2) with (wmod w - 1 - b + 1 * wmod w) by lia.
      rewrite N.mod_add by lia. apply N.mod_small. lia. }
    rewrite Hi. clear Hi. rewrite (N.div_small (wmod w - 1 - b) (signbit w)) by lia.
    rewrite N.add_0_l. rewrite (N.mod_small (wmod w - 1) (wmod w)) by lia.
    rewrite (lor_wones_signbit w Hw). rewrite lxor_wones by lia. lia.
  - (* positive *)
    destruct (N.eqb_spec (b + signbit w + 2) (wmod w - 2)); [lia|].
    destruct (N.eqb_spec (b + signbit w + 2) 1); [lia|].
    destruct (N.eqb_spec (b + signbit w + 2) 0); [lia|].
    destruct (N.eqb_spec (b + signbit w + 2) 2); [lia|].
    assert (Hi : (b + signbit w + 2 + wmod w - 2) mod wmod w = b + signbit w).
    { replace (b + signbit w + 2 + wmod w - 2) with (b + signbit w + 1 * wmod w) by lia.
      rewrite N.mod_add by lia. apply N.mod_small. lia. }
    rewrite Hi. clear Hi.
    assert (Hd : (b + signbit w) / signbit w = 1).
    { symmetry. apply (N.div_unique _ _ 1 b); lia. }
    rewrite Hd. replace (1 + wmod w - 1) with (wmod w) by lia.
    rewrite N.mod_same by lia. rewrite N.lor_0_l.
    rewrite lxor_signbit_hi by lia. lia.
  - (* +Inf *)
    rewrite N.eqb_refl. symmetry. exact Rb.
Qed.

Lemma fl_uncode_nan : forall w b, (w = 4 \/ w = 8)%nat -> b < wmod w ->
  is_nan w b = true -> is_nan w (fl_uncode w (fl_code w b)) = true.
Proof.
  intros w b Hw Hb Hn. rewrite (fl_code_nan w b Hw Hb Hn).
  destruct Hw as [-> | ->]; vm_compute; reflexivity.
Qed.

Lemma enc_f_spec : forall w a b, (w = 4 \/ w = 8)%nat -> a < wmod w -> b < wmod w ->
  length (enc_f w a) = w /\ isbytes (enc_f w a) = true /\
  (lex_lt (enc_f w a) (enc_f w b) <-> fl_lt w a b) /\
  (enc_f w a = enc_f w b <-> fl_samekey w a b) /\
  (is_nan w a = false -> dec_f w (enc_f w a) = a) /\
  (is_nan w a = true -> is_nan w (dec_f w (enc_f w a)) = true).
Proof.
  intros w a b Hw Ha Hb. unfold enc_f, dec_f.
  pose proof (fl_code_lt_wmod w a Hw Ha) as Ca.
  pose proof (fl_code_lt_wmod w b Hw Hb) as Cb.
  split; [apply be_bytes_length|].
  split; [apply be_bytes_isbytes|].
  split; [rewrite be_bytes_lex by assumption; symmetry; apply fl_lt_code; assumption|].
  split; [rewrite be_bytes_eq_iff by assumption; symmetry;
          apply fl_samekey_code; assumption|].
  rewrite be_val_be_bytes by assumption.
  split; [apply fl_uncode_code; assumption | apply fl_uncode_nan; assumption].
Qed.

(* ------------------------------------------------------------------ *)
(* schema tuples                                                       *)
(* ------------------------------------------------------------------ *)

Lemma width_ok_pos : forall w, width_ok w = true -> (0 < w)%nat.
Proof. intros w H. destruct w; [discriminate H | lia]. Qed.

Lemma fwidth_ok_spec : forall w, fwidth_ok w = true -> (w = 4 \/ w = 8)%nat.
Proof.
  intros w H.
  destruct w as [|[|[|[|[|[|[|[|[|w]]]]]]]]]; simpl in H; try discriminate H; auto.
Qed.

Definition dec_field (t : ftype) (l : list N) : fval :=
  match t with
  | TU w => VU (dec_u w l)
  | TS w => VS (dec_s w l)
  | TF w => VF (dec_f w l)
  | TStr => VStr (removelast l)
  end.

Lemma dec_tuple_fixed : forall t s l, ftype_fixed t = true ->
  dec_tuple (t :: s) l =
  dec_field t (firstn (ftype_width t) l) :: dec_tuple s (skipn (ftype_width t) l).
Proof. intros t s l H. destruct t; try discriminate H; reflexivity. Qed.

Lemma field_contract : forall t x y,
  ftype_fixed t = true -> fval_ok t x = true -> fval_ok t y = true ->
  length (enc_field x t) = ftype_width t /\
  isbytes (enc_field x t) = true /\
  (lex_lt (enc_field x t) (enc_field y t) <-> fval_lt t x y) /\
  (enc_field x t = enc_field y t <-> fval_same t x y) /\
  fval_same t (dec_field t (enc_field x t)) x.
Proof.
  intros t x y Ht Hx Hy. destruct t as [w|w|w|]; cbn [ftype_fixed] in Ht;
    try discriminate Ht.
  - (* unsigned *)
    destruct x as [x| | |]; cbn [fval_ok] in Hx; try discriminate Hx.
    destruct y as [y| | |]; cbn [fval_ok] in Hy; try discriminate Hy.
    apply N.ltb_lt in Hx. apply N.ltb_lt in Hy.
    cbn [enc_field ftype_width fval_lt fval_same dec_field].
    destruct (enc_u_spec w x y Hx Hy) as (A & B & C & D & E).
    split; [exact A|]. split; [exact B|]. split; [exact C|].
    split.
    + split; intros H; [f_equal; auto | injection H as ->; reflexivity].
    + rewrite E. reflexivity.
  - (* signed *)
    destruct x as [|x| |]; cbn [fval_ok] in Hx; try discriminate Hx.
    destruct y as [|y| |]; cbn [fval_ok] in Hy; try discriminate Hy.
    apply andb_true_iff in Hx. destruct Hx as [Hx1 Hx2].
    apply andb_true_iff in Hy. destruct Hy as [Hy1 Hy2].
    apply Z.leb_le in Hx1, Hy1. apply Z.ltb_lt in Hx2, Hy2.
    assert (Rx : in_srange w x) by (split; assumption).
    assert (Ry : in_srange w y) by (split; assumption).
    cbn [enc_field ftype_width fval_lt fval_same dec_field].
    destruct (enc_s_spec w x y (width_ok_pos w Ht) Rx Ry) as (A & B & C & D & E).
    split; [exact A|]. split; [exact B|]. split; [exact C|].
    split.
    + split; intros H; [f_equal; auto | injection H as ->; reflexivity].
    + rewrite E. reflexivity.
  - (* float *)
    destruct x as [| |x|]; cbn [fval_ok] in Hx; try discriminate Hx.
    destruct y as [| |y|]; cbn [fval_ok] in Hy; try discriminate Hy.
    apply N.ltb_lt in Hx. apply N.ltb_lt in Hy.
    cbn [enc_field ftype_width fval_lt fval_same dec_field].
    destruct (enc_f_spec w x y (fwidth_ok_spec w Ht) Hx Hy) as (A & B & C & D & E & F).
    split; [exact A|]. split; [exact B|]. split; [exact C|]. split; [exact D|].
    unfold fl_samekey. destruct (is_nan w x) eqn:En.
    + left. split; [apply F|]; reflexivity.
    + right. apply E. reflexivity.
Qed.

Lemma nul_free_cons : forall x s,
  nul_free (x :: s) = true <-> x <> 0 /\ nul_free s = true.
Proof.
  intros x s. unfold nul_free. cbn [forallb].
  rewrite andb_true_iff, negb_true_iff, N.eqb_neq. reflexivity.
Qed.

Lemma str_lex : forall sa sb, nul_free sa = true -> nul_free sb = true ->
  (lex_lt (sa ++ [0]) (sb ++ [0]) <-> lex_lt sa sb).
Proof.
  induction sa as [|x sa IH]; intros sb Ha Hb; destruct sb as [|y sb]; cbn [app].
  - split; intros H; exfalso; exact (lex_lt_irrefl _ H).
  - apply nul_free_cons in Hb. destruct Hb as [Hy Hb]. split; intros _.
    + reflexivity.
    + apply lex_lt_cons. left. lia.
  - apply nul_free_cons in Ha. destruct Ha as [Hx Ha]. split; intros H.
    + apply lex_lt_cons in H. destruct H as [H|[H _]]; lia.
    + exfalso. exact (lex_lt_nil_r _ H).
  - apply nul_free_cons in Ha. destruct Ha as [Hx Ha].
    apply nul_free_cons in Hb. destruct Hb as [Hy Hb].
    rewrite !lex_lt_cons. rewrite (IH sb Ha Hb). reflexivity.
Qed.

Lemma str_prefix : forall sa sb, nul_free sb = true ->
  is_prefix (sa ++ [0]) (sb ++ [0]) -> sa = sb.
Proof.
  induction sa as [|x sa IH]; intros sb Hb H; destruct sb as [|y sb]; cbn [app] in H.
  - reflexivity.
  - apply nul_free_cons in Hb. destruct Hb as [Hy Hb].
    apply is_prefix_cons in H. destruct H as [H _]. congruence.
  - apply is_prefix_cons in H. destruct H as [_ H].
    apply is_prefix_nil_r in H. apply app_eq_nil in H. destruct H as [_ H].
    discriminate H.
  - apply nul_free_cons in Hb. destruct Hb as [Hy Hb].
    apply is_prefix_cons in H. destruct H as [-> H].
    f_equal. apply IH; assumption.
Qed.

Lemma schema_ok_inv : forall t s, schema_ok (t :: s) = true ->
  (t = TStr /\ s = []) \/ (ftype_fixed t = true /\ (s = [] \/ schema_ok s = true)).
Proof.
  intros t s H. destruct s as [|t2 s].
  - destruct t; [right; split; [exact H | left; reflexivity] ..| left; auto].
  - right. destruct t; simpl in H; try discriminate H;
      apply andb_true_iff in H; destruct H as [H1 H2]; (split; [exact H1 | right; exact H2]).
Qed.

Lemma tuple_ok_nil : forall a, tuple_ok [] a = true -> a = [].
Proof. intros a H. destruct a; [reflexivity | discriminate H]. Qed.

Lemma contract_gen : forall s a b,
  (s = [] \/ schema_ok s = true) -> tuple_ok s a = true -> tuple_ok s b = true ->
  isbytes (enc_tuple s a) = true /\
  (lex_lt (enc_tuple s a) (enc_tuple s b) <-> tuple_lt s a b) /\
  (enc_tuple s a = enc_tuple s b <-> tuple_same s a b) /\
  (is_prefix (enc_tuple s a) (enc_tuple s b) -> enc_tuple s a = enc_tuple s b) /\
  tuple_same s (dec_tuple s (enc_tuple s a)) a.
Proof.
  induction s as [|t s IH]; intros a b Hs Ha Hb.
  - apply tuple_ok_nil in Ha. apply tuple_ok_nil in Hb. subst a b.
    cbn [enc_tuple tuple_lt tuple_same dec_tuple].
    split; [reflexivity|].
    split; [split; [intros H; exact (lex_lt_irrefl _ H) | intros []]|].
    split; [split; auto|]. split; auto.
  - destruct Hs as [Hs|Hs]; [discriminate Hs|].
    destruct a as [|x a]; [discriminate Ha|].
    destruct b as [|y b]; [discriminate Hb|].
    cbn [tuple_ok] in Ha, Hb.
    apply andb_true_iff in Ha. destruct Ha as [Hx Ha].
    apply andb_true_iff in Hb. destruct Hb as [Hy Hb].
    destruct (schema_ok_inv t s Hs) as [[-> ->]|[Ht Hs']].
    + (* a single string field *)
      apply tuple_ok_nil in Ha. apply tuple_ok_nil in Hb. subst a b.
      destruct x as [| | |sa]; cbn [fval_ok] in Hx; try discriminate Hx.
      destruct y as [| | |sb]; cbn [fval_ok] in Hy; try discriminate Hy.
      apply andb_true_iff in Hx. destruct Hx as [Ba Na].
      apply andb_true_iff in Hy. destruct Hy as [Bb Nb].
      cbn [enc_tuple enc_field tuple_lt tuple_same dec_tuple fval_lt fval_same].
      rewrite !app_nil_r.
      split; [rewrite isbytes_app, Ba; reflexivity|].
      split; [rewrite (str_lex sa sb Na Nb); tauto|].
      split.
      { split.
        - intros H. apply app_inv_tail in H. subst sb. split; auto.
        - intros [H _]. injection H as ->. reflexivity. }
      split.
      { intros H. apply str_prefix in H; [|exact Nb]. subst sb. reflexivity. }
      rewrite removelast_last. split; auto.
    + (* a fixed-width field followed by the rest *)
      destruct (field_contract t x y Ht Hx Hy) as (FL & FB & FO & FE & FD).
      destruct (field_contract t y x Ht Hy Hx) as (FL' & _).
      destruct (IH a b Hs' Ha Hb) as (IB & IO & IE & IP & ID).
      assert (L : length (enc_field x t) = length (enc_field y t)) by congruence.
      cbn [enc_tuple tuple_lt tuple_same].
      split; [rewrite isbytes_app, FB, IB; reflexivity|].
      split; [rewrite (lex_app_fixed _ _ _ _ L), FO, FE, IO; reflexivity|].
      split.
      { split.
        - intros H. apply app_inj_length in H; [|exact L]. destruct H as [H1 H2].
          split; [apply FE; exact H1 | apply IE; exact H2].
        - intros [H1 H2]. apply FE in H1. apply IE in H2. congruence. }
      split.
      { intros H. apply is_prefix_app_fixed in H; [|exact L]. destruct H as [H1 H2].
        rewrite H1. f_equal. apply IP. exact H2. }
      rewrite (dec_tuple_fixed t s _ Ht). rewrite <- FL.
      rewrite firstn_app, skipn_app, Nat.sub_diag, firstn_all, skipn_all.
      cbn [firstn skipn app]. rewrite app_nil_r.
      cbn [tuple_same]. split; [exact FD | exact ID].
Qed.

Lemma schema_contract : forall s a b,
  schema_ok s = true -> tuple_ok s a = true -> tuple_ok s b = true ->
  isbytes (enc_tuple s a) = true /\
  (lex_lt (enc_tuple s a) (enc_tuple s b) <-> tuple_lt s a b) /\
  (enc_tuple s a = enc_tuple s b <-> tuple_same s a b) /\
  (is_prefix (enc_tuple s a) (enc_tuple s b) -> enc_tuple s a = enc_tuple s b) /\
  tuple_same s (dec_tuple s (enc_tuple s a)) a.
Proof. intros s a b Hs. apply contract_gen. right. exact Hs. Qed.
