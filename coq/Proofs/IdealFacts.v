(* Laws of the reference map of Spec/Ideal.v: it is a finite map keyed by the
   getKey form (lookup-after-update laws, no hypothesis), every Search / Delete
   of any history answers as the history dictates (hist_lookup), the stored keys
   are the bound ones, the content is sorted and duplicate-free, one step changes
   the cardinality as expected, and the two list combinators of the sequence
   methods (takeN, consume) are the plain list functions. *)
From GoArt Require Import Base.Bytes Model.Node4 Model.Node16 Model.Node Model.Tree Model.Iter Model.Api
  Spec.NodeSpec Spec.TreeSpec Spec.IterSpec Spec.Ideal Spec.Semantics
  Proofs.BytesFacts Proofs.NodeFacts Proofs.TreeBasics Proofs.ApiFacts.
From Coq Require Import ZifyN ZifyNat ZifyBool Sorted.
Ltac Zify.zify_post_hook ::= Z.div_mod_to_equations.
Open Scope N_scope.

(* ================================================================== *)
(* lookups after updates                                               *)
(* ================================================================== *)
Lemma mem_find : forall gk cs, mem_gk gk cs = match find_gk gk cs with Some _ => true | None => false end.
Proof.
  intros gk cs. unfold mem_gk, find_gk. induction cs as [|c cs IH]; cbn [existsb find]; [reflexivity|].
  destruct (beq (lgk c) gk); cbn [orb]; [reflexivity|exact IH].
Qed.

Lemma find_ins_tk_same : forall x cs, mem_gk (lgk x) cs = false ->
  find_gk (lgk x) (ins_tk x cs) = Some x.
Proof.
  intros x cs. unfold mem_gk, find_gk. induction cs as [|c cs IH]; cbn [existsb ins_tk]; intros H.
  - cbn [find]. rewrite beq_refl. reflexivity.
  - apply orb_false_iff in H. destruct H as [H1 H2].
    destruct (lex_ltb (ltk x) (ltk c)); cbn [find].
    + rewrite beq_refl. reflexivity.
    + rewrite H1. apply IH. exact H2.
Qed.

Lemma find_ins_tk_other : forall x gk' cs, gk' <> lgk x ->
  find_gk gk' (ins_tk x cs) = find_gk gk' cs.
Proof.
  intros x gk' cs Hne. unfold find_gk.
  assert (Ex : beq (lgk x) gk' = false) by (apply beq_neq; congruence).
  induction cs as [|c cs IH]; cbn [ins_tk].
  - cbn [find]. rewrite Ex. reflexivity.
  - destruct (lex_ltb (ltk x) (ltk c)).
    + cbn [find]. rewrite Ex. reflexivity.
    + cbn [find]. destruct (beq (lgk c) gk'); [reflexivity|exact IH].
Qed.

Lemma find_set_v_same : forall gk v cs, mem_gk gk cs = true ->
  exists l, find_gk gk (set_v gk v cs) = Some l /\ lgk l = gk /\ lv l = v.
Proof.
  intros gk v cs. unfold mem_gk, find_gk, set_v.
  induction cs as [|c cs IH]; cbn [existsb map find]; intros H; [discriminate|].
  destruct (beq (lgk c) gk) eqn:E.
  - unfold lgk at 1. cbn [fst]. rewrite E. exists (lgk c, ltk c, v). split; [reflexivity|].
    unfold lgk at 1, lv. cbn [fst snd]. split; [apply beq_eq; exact E|reflexivity].
  - rewrite E. cbn [orb] in H. apply IH. exact H.
Qed.

Lemma find_set_v_other : forall gk gk' v cs, gk' <> gk ->
  option_map lv (find_gk gk' (set_v gk v cs)) = option_map lv (find_gk gk' cs).
Proof.
  intros gk gk' v cs Hne. unfold find_gk, set_v.
  induction cs as [|c cs IH]; cbn [map find]; [reflexivity|].
  destruct (beq (lgk c) gk) eqn:E.
  - unfold lgk at 1. cbn [fst].
    assert (E' : beq (lgk c) gk' = false).
    { apply beq_neq. apply beq_eq in E. congruence. }
    rewrite E'. exact IH.
  - destruct (beq (lgk c) gk'); [reflexivity|exact IH].
Qed.

Lemma find_upsert_same : forall gk tk v cs, exists l, find_gk gk (upsert gk tk v cs) = Some l /\ lgk l = gk /\ lv l = v.
Proof.
  intros gk tk v cs. unfold upsert. destruct (mem_gk gk cs) eqn:E.
  - apply find_set_v_same. exact E.
  - exists (gk, tk, v). split; [|split; reflexivity].
    apply (find_ins_tk_same (gk, tk, v) cs). exact E.
Qed.

Lemma find_upsert_other : forall gk gk' tk v cs, gk' <> gk ->
  option_map lv (find_gk gk' (upsert gk tk v cs)) = option_map lv (find_gk gk' cs).
Proof.
  intros gk gk' tk v cs Hne. unfold upsert. destruct (mem_gk gk cs).
  - apply find_set_v_other. exact Hne.
  - rewrite (find_ins_tk_other (gk, tk, v) gk' cs); [reflexivity|exact Hne].
Qed.

Lemma find_remove_same : forall gk cs, find_gk gk (remove_gk gk cs) = None.
Proof.
  intros gk cs. unfold find_gk, remove_gk. induction cs as [|c cs IH]; cbn [filter]; [reflexivity|].
  destruct (beq (lgk c) gk) eqn:E; cbn [negb]; [exact IH|].
  cbn [find]. rewrite E. exact IH.
Qed.

Lemma find_remove_other : forall gk gk' cs, gk' <> gk -> find_gk gk' (remove_gk gk cs) = find_gk gk' cs.
Proof.
  intros gk gk' cs Hne. unfold find_gk, remove_gk. induction cs as [|c cs IH]; cbn [filter]; [reflexivity|].
  destruct (beq (lgk c) gk) eqn:E; cbn [negb find].
  - assert (E' : beq (lgk c) gk' = false).
    { apply beq_neq. apply beq_eq in E. congruence. }
    rewrite E'. exact IH.
  - destruct (beq (lgk c) gk'); [reflexivity|exact IH].
Qed.

(* ================================================================== *)
(* the history-level reading                                           *)
(* ================================================================== *)
Lemma hist_lookup_app : forall k gk a b cur,
  hist_lookup k gk (a ++ b) cur = hist_lookup k gk b (hist_lookup k gk a cur).
Proof.
  intros k gk a. induction a as [|o a IH]; intros b cur; [reflexivity|].
  cbn [app]. destruct o; cbn [hist_lookup]; apply IH.
Qed.

Lemma hist_lookup_snoc : forall k gk before o cur,
  hist_lookup k gk (before ++ [o]) cur = hist_lookup k gk [o] (hist_lookup k gk before cur).
Proof. intros. apply hist_lookup_app. Qed.

(* the reference content reads as the history: invariant of one step *)
Definition reads (k : kind) (cs : list lrec) (before : list op) : Prop :=
  forall gk, option_map lv (find_gk gk cs) = hist_lookup k gk before None.

Lemma reads_step : forall k cs before o, reads k cs before ->
  reads k (fst (ideal_step k cs o)) (before ++ [o]).
Proof.
  intros k cs before o H gk. rewrite hist_lookup_snoc. rewrite <- (H gk).
  destruct o as [a v|a|a| | | |stop|stop|n stop|n stop|a b stop|p stop];
    cbn [ideal_step hist_lookup]; try (destruct (transform k a) as [g t]); cbn [fst snd]; try reflexivity.
  - (* Insert *)
    destruct (beq g gk) eqn:E.
    + apply beq_eq in E. subst gk. destruct (find_upsert_same g t v cs) as (l & Hf & _ & Hv).
      rewrite Hf. cbn [option_map]. rewrite Hv. reflexivity.
    + apply find_upsert_other. apply beq_neq in E. congruence.
  - (* Delete *)
    destruct (beq g gk) eqn:E.
    + apply beq_eq in E. subst gk. rewrite find_remove_same. reflexivity.
    + rewrite find_remove_other; [reflexivity|]. apply beq_neq in E. congruence.
Qed.

Lemma ideal_step_answer : forall k cs before o, reads k cs before ->
  match map_answer k before o with Some y => snd (ideal_step k cs o) = y | None => True end.
Proof.
  intros k cs before o H.
  destruct o as [a v|a|a| | | |stop|stop|n stop|n stop|a b stop|p stop];
    cbn [ideal_step map_answer]; try exact I.
  - destruct (transform k a) as [g t]. reflexivity.
  - rewrite <- (H (fst (transform k a))). destruct (transform k a) as [g t]. cbn [fst snd].
    destruct (find_gk g cs); reflexivity.
  - rewrite <- (H (fst (transform k a))). destruct (transform k a) as [g t]. cbn [fst snd].
    rewrite mem_find. destruct (find_gk g cs); reflexivity.
Qed.

Lemma ideal_run_gen : forall k ops before cs, reads k cs before ->
  map_outputs_ok k before ops (snd (ideal_run k cs ops)) /\
  reads k (fst (ideal_run k cs ops)) (before ++ ops).
Proof.
  intros k ops. induction ops as [|o ops IH]; intros before cs H.
  - cbn [ideal_run map_outputs_ok fst snd]. rewrite app_nil_r. split; [exact I|exact H].
  - pose proof (ideal_step_answer k cs before o H) as Ha.
    pose proof (reads_step k cs before o H) as Hs.
    cbn [ideal_run]. destruct (ideal_step k cs o) as [cs' x]. cbn [fst snd] in Ha, Hs.
    specialize (IH (before ++ [o]) cs' Hs).
    destruct (ideal_run k cs' ops) as [cs'' xs]. cbn [fst snd] in *.
    destruct IH as [IH1 IH2]. cbn [map_outputs_ok]. split.
    + split; [exact Ha|exact IH1].
    + rewrite <- app_assoc in IH2. exact IH2.
Qed.

Lemma reads_nil : forall k, reads k [] [].
Proof. intros k gk. reflexivity. Qed.

Theorem ideal_map_outputs : forall k ops, map_outputs_ok k [] ops (snd (ideal_run k [] ops)).
Proof. intros k ops. apply (ideal_run_gen k ops [] [] (reads_nil k)). Qed.

Theorem ideal_reads : forall k ops gk,
  option_map lv (find_gk gk (fst (ideal_run k [] ops))) = hist_lookup k gk ops None.
Proof. intros k ops. apply (ideal_run_gen k ops [] [] (reads_nil k)). Qed.

Theorem ideal_bound : forall k ops gk,
  mem_gk gk (fst (ideal_run k [] ops)) = match hist_lookup k gk ops None with Some _ => true | None => false end.
Proof.
  intros k ops gk. rewrite mem_find, <- ideal_reads.
  destruct (find_gk gk (fst (ideal_run k [] ops))); reflexivity.
Qed.

(* ================================================================== *)
(* invariants of the content                                           *)
(* ================================================================== *)
Theorem ideal_sorted : forall k ops, history_ok k ops = true ->
  StronglySorted lex_lt (map ltk (fst (ideal_run k [] ops))).
Proof.
  intros k ops H. destruct (run_refines k ops H) as [_ Hrep].
  destruct (rep_cases _ _ Hrep) as [[[_ Ec]|(t & _ & Hwf & Hl)] _].
  - rewrite Ec. constructor.
  - rewrite <- Hl. apply (content_sorted 0 t Hwf).
Qed.

(* duplicate-freeness of the getKey forms: at the list level, no hypothesis *)
Lemma lgk_set_v : forall gk v cs, map lgk (set_v gk v cs) = map lgk cs.
Proof.
  intros gk v cs. unfold set_v. rewrite map_map. apply map_ext. intros l.
  destruct (beq (lgk l) gk); reflexivity.
Qed.

Lemma in_lgk_ins_tk : forall y x cs, In y (map lgk (ins_tk x cs)) -> y = lgk x \/ In y (map lgk cs).
Proof.
  intros y x cs H. apply in_map_iff in H. destruct H as (l & E & Hl).
  apply api_in_ins_tk in Hl. destruct Hl as [Hl|Hl].
  - left. congruence.
  - right. rewrite <- E. apply in_map. exact Hl.
Qed.

Lemma nodup_ins_tk : forall x cs, NoDup (map lgk cs) -> ~ In (lgk x) (map lgk cs) ->
  NoDup (map lgk (ins_tk x cs)).
Proof.
  intros x cs. induction cs as [|c cs IH]; cbn [ins_tk]; intros Hn Hx.
  - cbn [map]. constructor; [intros []|constructor].
  - destruct (lex_ltb (ltk x) (ltk c)).
    + cbn [map]. constructor; [exact Hx|exact Hn].
    + cbn [map] in *. inversion Hn as [|c0 cs0 Hc Hn']; subst c0 cs0. constructor.
      * intros Hin. apply in_lgk_ins_tk in Hin. destruct Hin as [Hin|Hin].
        -- apply Hx. left. exact Hin.
        -- apply Hc. exact Hin.
      * apply IH; [exact Hn'|]. intros Hin. apply Hx. right. exact Hin.
Qed.

Lemma mem_gk_in : forall gk cs, mem_gk gk cs = false -> ~ In gk (map lgk cs).
Proof.
  intros gk cs H Hin. apply in_map_iff in Hin. destruct Hin as (l & E & Hl).
  exact (api_mem_gk_false gk cs H l Hl E).
Qed.

Lemma nodup_upsert : forall gk tk v cs, NoDup (map lgk cs) -> NoDup (map lgk (upsert gk tk v cs)).
Proof.
  intros gk tk v cs H. unfold upsert. destruct (mem_gk gk cs) eqn:E.
  - rewrite lgk_set_v. exact H.
  - apply nodup_ins_tk; [exact H|]. apply (mem_gk_in gk cs E).
Qed.

Lemma nodup_remove : forall gk cs, NoDup (map lgk cs) -> NoDup (map lgk (remove_gk gk cs)).
Proof.
  intros gk cs. unfold remove_gk. induction cs as [|c cs IH]; cbn [filter map]; intros H; [exact H|].
  inversion H as [|c0 cs0 Hc Hn]; subst c0 cs0.
  destruct (negb (beq (lgk c) gk)).
  - cbn [map]. constructor; [|apply IH; exact Hn].
    intros Hin. apply Hc. apply in_map_iff in Hin. destruct Hin as (l & E & Hl).
    apply filter_In in Hl. rewrite <- E. apply in_map. tauto.
  - apply IH. exact Hn.
Qed.

Lemma nodup_step : forall k cs o, NoDup (map lgk cs) -> NoDup (map lgk (fst (ideal_step k cs o))).
Proof.
  intros k cs o H.
  destruct o as [a v|a|a| | | |stop|stop|n stop|n stop|a b stop|p stop];
    cbn [ideal_step]; try (destruct (transform k a) as [g t]); cbn [fst]; try exact H.
  - apply nodup_upsert. exact H.
  - apply nodup_remove. exact H.
Qed.

Lemma nodup_run : forall k ops cs, NoDup (map lgk cs) -> NoDup (map lgk (fst (ideal_run k cs ops))).
Proof.
  intros k ops. induction ops as [|o ops IH]; intros cs H; [exact H|].
  pose proof (nodup_step k cs o H) as Hs. cbn [ideal_run].
  destruct (ideal_step k cs o) as [cs' x]. cbn [fst] in Hs. specialize (IH cs' Hs).
  destruct (ideal_run k cs' ops) as [cs'' xs]. exact IH.
Qed.

(* holds for every history; the hypothesis of the brief's statement is not used *)
Theorem ideal_nodup_gk_any : forall k ops, NoDup (map lgk (fst (ideal_run k [] ops))).
Proof. intros k ops. apply nodup_run. constructor. Qed.

Theorem ideal_nodup_gk : forall k ops, history_ok k ops = true -> NoDup (map lgk (fst (ideal_run k [] ops))).
Proof. intros k ops _. apply ideal_nodup_gk_any. Qed.

(* ================================================================== *)
(* cardinality                                                         *)
(* ================================================================== *)
Lemma length_remove_nodup : forall gk cs, NoDup (map lgk cs) ->
  length cs = if mem_gk gk cs then S (length (remove_gk gk cs)) else length (remove_gk gk cs).
Proof.
  intros gk cs. induction cs as [|c cs IH]; intros H; [reflexivity|].
  cbn [map] in H. inversion H as [|c0 cs0 Hc Hn]; subst c0 cs0.
  unfold mem_gk, remove_gk in *. cbn [existsb filter].
  destruct (beq (lgk c) gk) eqn:E; cbn [negb orb length].
  - apply beq_eq in E.
    assert (Hm : mem_gk gk cs = false).
    { destruct (mem_gk gk cs) eqn:Em; [|reflexivity]. exfalso. apply Hc.
      unfold mem_gk in Em. apply existsb_exists in Em. destruct Em as (l & Hl & El).
      apply beq_eq in El. rewrite E, <- El. apply in_map. exact Hl. }
    pose proof (api_remove_absent gk cs Hm) as Hr. unfold remove_gk in Hr. rewrite Hr. reflexivity.
  - specialize (IH Hn). destruct (existsb (fun l => beq (lgk l) gk) cs); rewrite IH; reflexivity.
Qed.

Theorem ideal_size_step : forall k cs o, NoDup (map lgk cs) ->
  let cs' := fst (ideal_step k cs o) in
  match o with
  | Insert a _ => length cs' = if mem_gk (fst (transform k a)) cs then length cs else S (length cs)
  | Delete a => length cs = if mem_gk (fst (transform k a)) cs then S (length cs') else length cs'
  | _ => cs' = cs
  end.
Proof.
  intros k cs o H cs'. subst cs'.
  destruct o as [a v|a|a| | | |stop|stop|n stop|n stop|a b stop|p stop];
    cbn [ideal_step]; try (destruct (transform k a) as [g t]); cbn [fst]; try reflexivity.
  - apply api_length_upsert.
  - apply length_remove_nodup. exact H.
Qed.

(* ================================================================== *)
(* the list combinators of the sequence methods                        *)
(* ================================================================== *)
Lemma takeN_firstn : forall {A} (n : N) (l : list A),
  takeN n l = firstn (N.to_nat (N.min n (N.of_nat (length l)))) l.
Proof.
  intros A n l. revert n. induction l as [|x l IH]; intros n; cbn [takeN].
  - rewrite firstn_nil. reflexivity.
  - destruct (n =? 0) eqn:E.
    + apply N.eqb_eq in E. subst n. reflexivity.
    + apply N.eqb_neq in E. cbn [length].
      replace (N.to_nat (N.min n (N.of_nat (S (length l)))))
        with (S (N.to_nat (N.min (n - 1) (N.of_nat (length l))))) by lia.
      cbn [firstn]. rewrite IH. reflexivity.
Qed.

Lemma consume_all : forall {A} (l : list A) i, consume (fun _ => true) i l = (l, (i + length l)%nat, false).
Proof.
  intros A l. induction l as [|x l IH]; intros i; cbn [consume length].
  - rewrite Nat.add_0_r. reflexivity.
  - rewrite IH. rewrite Nat.add_succ_r. reflexivity.
Qed.
