(* The REGENERATED thin public methods of the six trees (Gen/ApiGen.v, written by go/cmd/srcfacts/translate_api.go
   from the ASTs of /repo's trees.go and collation.go on every run) ARE the model of the public interface,
   Model/Api.v, on the raw states of Model/PoolTree.v read through sabs / tabs:

     g_X_restoreKey                   = Api.restore (+ the value)            on a leaf (alpha: with a non-empty key)
     g_X_Size                         = the Size case of Api.step
     g_X_Minimum, g_X_Maximum         = the Minimum / Maximum cases of Api.step (opt_min / opt_max + restore)
     g_X_All, g_X_Backward            = seq_out (run_all / run_backward)
     g_X_TopK, g_X_BottomK            = seq_out (run_bounded (run_backward / run_all))          (k a Go uint)
     g_X_Prefix                       = Api.do_prefix (alpha, collation); panic("") = OPanic for the other kinds
     g_X_Range                        = Api.do_range: empty tree, open end, swap, and for the numeric kinds the
                                        equal-bounds lookup through the regenerated Search

   for X = alpha, unsigned, signed, float, compound, collation, when the codec parameters tr / rs are the model's
   transform / restore of that kind (see "the codecs" below), on the domain of the invariants (sinv st: xtwf of
   the root; root_wf (sabs st): WF 0 of its abstraction; both hold after every admissible history:
   TranslateTreeFacts.hyps_reachable) and with the budgets Model/Api.v gives the scans.

   A translated sequence returns kres K (Gen/ApiGen.v): what the consumer was called with.  kres_out reads it as
   the out of Model/Api.v exactly as Api.seq_out reads a wres: the pairs in the order of the calls, the number of
   calls; ByFuel is OFuel; KPanic is OPanic; KFuel (an inner budget of the translator) is OFuel.  The five
   template instances are proved through ONE generic statement per template branch (Sections NumRange,
   PlainRange, ...): each regenerated definition is first shown to BE the generic text instantiated with its own
   regenerated restoreKey / Search (by reflexivity: an edit of one template branch breaks that one step). *)
From GoArt Require Import Base.Bytes Model.Node4 Model.Node16 Model.Node Model.Tree Model.Iter Model.Api
  Spec.NodeSpec Spec.TreeSpec Spec.IterSpec Proofs.BytesFacts Proofs.Node4Facts Proofs.NodeFacts Proofs.TreeBasics Proofs.NodeAux48
  Proofs.NodeAuxAssoc Proofs.NodeAuxArr Proofs.InsertFacts Proofs.IterFacts Spec.Ideal Proofs.PropFacts Proofs.TranslateFacts.
From GoArt Require Import Proofs.RangeFacts Proofs.ApiFacts Model.Pool Proofs.PoolFacts Model.PoolTree Proofs.PoolTreeFacts.
From GoArt Require Import Model.GoArith Model.GoTree Gen.Node4Gen Gen.Node16Gen Gen.TreeGen Proofs.TranslateTreeFacts
  Gen.IterGen Proofs.TranslateIterFacts Gen.ApiGen.
From Coq Require Import ZifyN ZifyNat ZifyBool.
Ltac Zify.zify_post_hook ::= Z.div_mod_to_equations.
Open Scope N_scope.

(* ================= 0. the reading of a result ================= *)
Definition kres_out {K} (inj : K -> akey) (r : kres K) : out :=
  match r with
  | KDone ByFuel _ _ => OFuel
  | KDone _ c l => OSeq (map (fun kv => (inj (fst kv), snd kv)) (rev l)) c
  | KPanic => OPanic
  | KFuel => OFuel
  end.
Definition gopt_out {K} (inj : K -> akey) (r : gres (option (K * Z))) : out :=
  match r with
  | GRet (Some kv) => OKV (inj (fst kv)) (snd kv)
  | GRet None => ONone
  | GPanic => OPanic
  | GFuel => OFuel
  end.
(* the Go side of the collation tree returns the ORIGINAL string only; the model's key AC o c also carries the
   sort key the collator computed.  out_keymap f forgets it on the model's side. *)
Definition out_keymap (f : akey -> akey) (o : out) : out :=
  match o with
  | OKV k v => OKV (f k) v
  | OSeq l c => OSeq (map (fun kv => (f (fst kv), snd kv)) l) c
  | x => x
  end.
Lemma out_keymap_id : forall o, out_keymap (fun a => a) o = o.
Proof.
  intros [| | | | | | |l c| |]; try reflexivity. cbn [out_keymap]. f_equal.
  induction l as [|[a v] l IH]; [reflexivity|]. cbn [map fst snd]. rewrite IH. reflexivity.
Qed.

(* ================= 1. what a walk delivers ================= *)
(* the leaves delivered are leaves of the trees on the stack *)
Definition leaf_in (P : lrec -> Prop) (l : tree) : Prop :=
  match l with Leaf gk tk v => P (gk, tk, v) | Inner _ => False end.

Section Delivered.
Variable leaf_act : tree -> lact.
Variable expand : rnode tree -> nat -> option (list (tree * nat)).
Variable P : lrec -> Prop.
Hypothesis expand_children : forall n d es, expand n d = Some es -> forall e, In e es -> In (fst e) (nchildren n).

Lemma walk_delivered : forall fuel stk ans i acc,
  Forall (fun e => Forall P (leaves (fst e))) stk -> Forall (leaf_in P) acc ->
  Forall (leaf_in P) (delivered (walk leaf_act expand fuel stk ans i acc)).
Proof.
  induction fuel as [|f IH]; intros stk ans i acc Hs Ha.
  - cbn [walk delivered]. apply Forall_rev. exact Ha.
  - destruct stk as [|[t d] st]; cbn [walk].
    + cbn [delivered]. apply Forall_rev. exact Ha.
    + apply Forall_cons_iff in Hs. destruct Hs as [Ht Hs]. cbn [fst] in Ht.
      destruct t as [gk tk v|n].
      * assert (Hl : leaf_in P (Leaf gk tk v)).
        { rewrite leaves_leaf in Ht. apply Forall_cons_iff in Ht. exact (proj1 Ht). }
        destruct (leaf_act (Leaf gk tk v)).
        -- destruct (ans i).
           ++ apply IH; [exact Hs|constructor; assumption].
           ++ cbn [delivered]. apply Forall_rev. constructor; assumption.
        -- apply IH; assumption.
        -- cbn [delivered]. apply Forall_rev. exact Ha.
      * destruct (expand n d) as [es|] eqn:Ee.
        -- apply IH; [|exact Ha]. apply Forall_app. split; [|exact Hs].
           apply Forall_forall. intros e He. pose proof (expand_children n d es Ee e He) as Hc.
           apply in_nchildren in Hc. destruct Hc as [b Hc].
           rewrite Forall_forall in Ht |- *. intros l Hl. apply Ht. apply in_leaves_inner. exists b, (fst e). split; assumption.
        -- apply IH; assumption.
Qed.
End Delivered.

Lemma in_with_depth : forall d cs e, In e (with_depth d cs) -> In (fst e) cs.
Proof. intros d cs e H. unfold with_depth in H. apply in_map_iff in H. destruct H as (c & <- & Hc). exact Hc. Qed.
Lemma expand_fwd_children : forall n d es, expand_fwd n d = Some es -> forall e, In e es -> In (fst e) (nchildren n).
Proof. intros n d es H e He. unfold expand_fwd in H. injection H as <-. eapply in_with_depth. exact He. Qed.
Lemma expand_bwd_children : forall n d es, expand_bwd n d = Some es -> forall e, In e es -> In (fst e) (nchildren n).
Proof. intros n d es H e He. unfold expand_bwd in H. injection H as <-. apply in_with_depth in He. apply in_rev. exact He. Qed.
Lemma expand_range_children : forall s n d es, expand_range s n d = Some es -> forall e, In e es -> In (fst e) (nchildren n).
Proof.
  intros s n d es H e He. unfold expand_range in H. cbv zeta in H.
  destruct (if _ : bool then _ else false); [discriminate|]. injection H as <-. eapply in_with_depth. exact He.
Qed.

Lemma Forall_takeN : forall {A} (Q : A -> Prop) k l, Forall Q l -> Forall Q (takeN k l).
Proof.
  intros A Q k l. revert k. induction l as [|x l IH]; intros k H; cbn [takeN]; [constructor|].
  apply Forall_cons_iff in H. destruct H as [Hx Hl]. destruct (k =? 0); [constructor|]. constructor; [exact Hx|apply IH; exact Hl].
Qed.

(* ================= 2. seq_kv: the leaves a scan passes on, restored ================= *)
(* R is the regenerated restoreKey; on the leaves the model's scan w delivers it returns what the model's
   restore_kv returns (read through inj on the Go side and g on the model's side) *)
Lemma seq_kv_out : forall {K} (inj : K -> akey) (g : akey -> akey) (k : Api.kind) (R : gref -> gres (K * Z))
    (P : lrec -> Prop) r w,
  ires_abs r = Some w -> Forall (leaf_in P) (delivered w) ->
  (forall gk tk v, P (gk, tk, v) -> exists kv, R (Some (XLeaf gk tk v)) = GRet kv /\
     inj (fst kv) = g (restore k (Leaf gk tk v)) /\ snd kv = v) ->
  kres_out inj (seq_kv R r) = out_keymap g (seq_out k w).
Proof.
  intros K inj g k R P r w Hr Hd HR. destruct r as [how c acc| |]; cbn [ires_abs] in Hr; try discriminate.
  injection Hr as <-. cbn [delivered] in Hd. unfold seq_out. cbn [status delivered calls seq_kv].
  assert (Hl : exists l, restore_list R acc = Some l /\
            map (fun kv => (inj (fst kv), snd kv)) l = map (fun kv => (g (fst kv), snd kv)) (map (restore_kv k) (map tabs acc))).
  { apply Forall_rev in Hd. rewrite rev_involutive in Hd. clear how c.
    induction acc as [|x acc IH]; [exists []; split; reflexivity|].
    cbn [map] in Hd. apply Forall_cons_iff in Hd. destruct Hd as [Hx Hd]. destruct (IH Hd) as (l & El & Em).
    destruct (tabs x) as [gk tk v|n] eqn:Ex; [|contradiction Hx]. cbn [leaf_in] in Hx.
    apply tabs_leaf_inv in Ex. subst x. destruct (HR gk tk v Hx) as (kv & Ek & Ei & Ev).
    exists (kv :: l). split.
    - cbn [restore_list]. rewrite Ek, El. reflexivity.
    - cbn [map tabs]. rewrite Em. unfold restore_kv at 1. cbn [fst snd leaf_v]. rewrite Ei, Ev. reflexivity. }
  destruct Hl as (l & El & Em). rewrite El. cbn [kres_out].
  destruct how; cbn [status_of out_keymap]; try reflexivity; rewrite !map_rev, Em; reflexivity.
Qed.

(* the bounded wrappers: what TranslateIterFacts.gen_topK_eq / gen_bottomK_eq state about the closure is what
   seq_out reads *)
Lemma bounded_out : forall {K} (inj : K -> akey) (g : akey -> akey) (k : Api.kind) (R : gref -> gres (K * Z))
    (P : lrec -> Prop) (r : ires) (w : wres),
  (exists how c acc, r = IDone how c acc /\ rev (map tabs acc) = delivered w /\ c = calls w /\ bounded_status how (status w)) ->
  Forall (leaf_in P) (delivered w) ->
  (forall gk tk v, P (gk, tk, v) -> exists kv, R (Some (XLeaf gk tk v)) = GRet kv /\
     inj (fst kv) = g (restore k (Leaf gk tk v)) /\ snd kv = v) ->
  kres_out inj (seq_kv R r) = out_keymap g (seq_out k w).
Proof.
  intros K inj g k R P r w (how & c & acc & -> & Hd & Hc & Hs) HF HR.
  rewrite (seq_kv_out inj g k R P (IDone how c acc) (mkWres (rev (map tabs acc)) c (status_of how))); [|reflexivity| |exact HR].
  - unfold seq_out. cbn [status delivered calls]. rewrite Hd, Hc. f_equal.
    destruct how; cbn [status_of bounded_status] in *; try (rewrite Hs; reflexivity).
    destruct Hs as [Hs|Hs]; rewrite Hs; reflexivity.
  - cbn [delivered]. rewrite Hd. exact HF.
Qed.

(* ================= 3. the codecs; restoreKey ================= *)
(* The codec fields are not translated: tr / rs are parameters.  They are instantiated with the model's view of
   each codec:
     numeric and compound trees   K := akey, tr := Api.transform k, rs b := Api.restore k (a leaf with getKey b)
     alpha                        K = list N; the Go codec AlphabeticalOrderKey is the identity on bytes (rs b := b; tr is
                                  never called by these methods); the terminator the model's transform adds and
                                  its restore drops is added and dropped by the TREE (regenerated: ++ [0], slice_to)
     collation                    K = list N; tr o := (o, col o) for the collator col; rs is never called *)
Definition mtr (k : Api.kind) : akey -> list N * list N := transform k.
Definition mrs (k : Api.kind) : list N -> akey := fun b => restore k (Leaf b b 0%Z).
Definition alpha_rs : list N -> list N := fun b => b.
Definition col_tr (col : list N -> list N) : list N -> list N * list N := fun o => (o, col o).
Definition forget_col (a : akey) : akey := AB (akey_bytes a).

Definition plain_kind (k : Api.kind) : bool := match k with KAlpha | KCollation => false | _ => true end.
Lemma mrs_restore : forall k gk tk v, plain_kind k = true -> mrs k gk = restore k (Leaf gk tk v).
Proof. intros [|w|w|w| |s|enc dec] gk tk v H; try discriminate; reflexivity. Qed.
Lemma mtr_same : forall k a, plain_kind k = true -> fst (mtr k a) = snd (mtr k a).
Proof. intros k a H. apply transform_same. intros ->. discriminate. Qed.

(* what the regenerated restoreKey R returns on the leaves satisfying P, against Api.restore *)
Definition restore_ok {K} (inj : K -> akey) (g : akey -> akey) (k : Api.kind) (R : gref -> gres (K * Z)) (P : lrec -> Prop) : Prop :=
  forall gk tk v, P (gk, tk, v) -> exists kv, R (Some (XLeaf gk tk v)) = GRet kv /\
    inj (fst kv) = g (restore k (Leaf gk tk v)) /\ snd kv = v.
Definition any_key : lrec -> Prop := fun _ => True.
Definition nonempty_key : lrec -> Prop := fun l => lgk l <> [].
Definition idk : akey -> akey := fun a => a.

(* the template text of restoreKey without AddNullByte *)
Definition ref_restoreKey {K} (rs : list N -> K) (ptr : gref) : gres (K * Z) :=
  match cast_leaf ptr with None => GPanic | Some l => GRet (rs (xleaf_gk l), xleaf_v l) end.
Lemma ref_restoreKey_ok : forall k, plain_kind k = true -> restore_ok idk idk k (ref_restoreKey (mrs k)) any_key.
Proof.
  intros k Hk gk tk v _. eexists. split; [reflexivity|]. cbn [fst snd]. split; [|reflexivity].
  unfold idk. apply mrs_restore. exact Hk.
Qed.

Theorem gen_unsigned_restoreKey_eq : forall K tr rs, g_unsigned_restoreKey K tr rs = ref_restoreKey rs.
Proof. reflexivity. Qed.
Theorem gen_signed_restoreKey_eq : forall K tr rs, g_signed_restoreKey K tr rs = ref_restoreKey rs.
Proof. reflexivity. Qed.
Theorem gen_float_restoreKey_eq : forall K tr rs, g_float_restoreKey K tr rs = ref_restoreKey rs.
Proof. reflexivity. Qed.
Theorem gen_compound_restoreKey_eq : forall K tr rs, g_compound_restoreKey K tr rs = ref_restoreKey rs.
Proof. reflexivity. Qed.

(* alpha: keyS[:len(keyS)-1] panics on an empty key (Api.restore uses removelast, which is total): the equality
   holds for the non-empty keys, i.e. for everything an alpha tree stores (alpha_keys_reachable below) *)
Lemma slice_to_removelast : forall (l : list N), l <> [] ->
  slice_to l (Z.of_nat (length l) - 1) = Some (removelast l).
Proof.
  intros l Hl. destruct l as [|x l]; [congruence|]. rewrite removelast_firstn_len.
  replace (Z.of_nat (length (x :: l)) - 1)%Z with (Z.of_nat (Init.Nat.pred (length (x :: l)))) by (cbn [length]; lia).
  apply slice_to_nat. cbn [length]. lia.
Qed.
Theorem gen_alpha_restoreKey_eq : forall tr rs gk tk v, gk <> [] ->
  g_alpha_restoreKey tr rs (Some (XLeaf gk tk v)) = GRet (rs (removelast gk), v).
Proof.
  intros tr rs gk tk v H. unfold g_alpha_restoreKey. cbn [cast_leaf xleaf_gk xleaf_v]. cbv zeta.
  rewrite (slice_to_removelast gk H). reflexivity.
Qed.
Theorem gen_alpha_restoreKey_empty : forall tr rs tk v, g_alpha_restoreKey tr rs (Some (XLeaf [] tk v)) = GPanic.
Proof. reflexivity. Qed.
Lemma alpha_restoreKey_ok : forall tr, restore_ok AB idk KAlpha (g_alpha_restoreKey tr alpha_rs) nonempty_key.
Proof.
  intros tr gk tk v H. unfold nonempty_key, lgk in H. cbn [fst] in H. eexists. split; [apply gen_alpha_restoreKey_eq; exact H|].
  split; reflexivity.
Qed.
Theorem gen_collation_restoreKey_eq : forall tr rs gk tk v,
  g_collation_restoreKey tr rs (Some (XLeaf gk tk v)) = GRet (gk, v).
Proof. reflexivity. Qed.
Lemma collation_restoreKey_ok : forall tr rs, restore_ok AB forget_col KCollation (g_collation_restoreKey tr rs) any_key.
Proof. intros tr rs gk tk v _. eexists. split; [reflexivity|]. split; reflexivity. Qed.
(* on nil, and on a pointer to an inner node, every restoreKey panics (a nil dereference / a stuck conversion) *)
Theorem gen_restoreKey_nil : forall K (tr : K -> list N * list N) rs tr' rs',
  g_unsigned_restoreKey K tr rs None = GPanic /\ g_alpha_restoreKey tr' rs' None = GPanic /\
  g_collation_restoreKey tr' rs' None = GPanic.
Proof. intros. repeat split. Qed.

(* ================= 4. the wrappers around one scan: All, Backward, TopK, BottomK, Minimum, Maximum, Size ================= *)
Definition keys_ok (P : lrec -> Prop) (st : xstate) : Prop :=
  match xroot st with Some t => Forall P (leaves (tabs t)) | None => True end.
Lemma keys_ok_any : forall st, keys_ok any_key st.
Proof. intros st. unfold keys_ok. destruct (xroot st); [|exact I]. apply Forall_forall. intros; exact I. Qed.

Section Wrappers.
Context {K : Type} (inj : K -> akey) (g : akey -> akey) (k : Api.kind) (R : gref -> gres (K * Z)) (P : lrec -> Prop).
Hypothesis HR : restore_ok inj g k R P.

Lemma stack1 : forall t, Forall P (leaves (tabs t)) -> Forall (fun e : tree * nat => Forall P (leaves (fst e))) [(tabs t, 0%nat)].
Proof. intros t H. constructor; [exact H|constructor]. Qed.

Lemma all_out : forall st fa ans, sinv st -> keys_ok P st -> (forall t, xroot st = Some t -> fa = walk_fuel (tabs t)) ->
  kres_out inj (seq_kv R (g_all fa (xroot st) ans)) = out_keymap g (seq_out k (run_all (root (sabs st)) ans)).
Proof.
  intros st fa ans Hs Hk Hf. unfold sinv, keys_ok in *. rewrite sabs_root. destruct (xroot st) as [t|]; [|reflexivity].
  rewrite (Hf t eq_refl). apply (seq_kv_out inj g k R P); [apply gen_all_eq; exact Hs| |exact HR].
  apply walk_delivered; [exact expand_fwd_children|apply stack1; exact Hk|constructor].
Qed.
Lemma backward_out : forall st fb ans, sinv st -> keys_ok P st -> (forall t, xroot st = Some t -> fb = walk_fuel (tabs t)) ->
  kres_out inj (seq_kv R (g_backward fb (xroot st) ans)) = out_keymap g (seq_out k (run_backward (root (sabs st)) ans)).
Proof.
  intros st fb ans Hs Hk Hf. unfold sinv, keys_ok in *. rewrite sabs_root. destruct (xroot st) as [t|]; [|reflexivity].
  rewrite (Hf t eq_refl). apply (seq_kv_out inj g k R P); [apply gen_backward_eq; exact Hs| |exact HR].
  apply walk_delivered; [exact expand_bwd_children|apply stack1; exact Hk|constructor].
Qed.

(* TopK(n) = topK over the tree's own Backward(); n is a Go uint *)
Lemma topk_out : forall st fa fb n ans, sinv st -> keys_ok P st -> n < 2 ^ 64 ->
  (forall t, xroot st = Some t -> fb = walk_fuel (tabs t)) ->
  kres_out inj (seq_kv R (g_topK (g_all fa (xroot st)) (g_backward fb (xroot st)) n ans)) =
  out_keymap g (seq_out k (run_bounded (run_backward (root (sabs st))) n ans)).
Proof.
  intros st fa fb n ans Hs Hk Hn Hf. unfold sinv, keys_ok in *. rewrite sabs_root.
  destruct (N.eqb_spec n 0) as [->|Hn0].
  { destruct (xroot st); reflexivity. }
  destruct (xroot st) as [t|].
  - rewrite (Hf t eq_refl). apply (bounded_out inj g k R P); [apply gen_topK_tree; [lia|exact Hn|exact Hs]| |exact HR].
    unfold run_bounded. destruct (n =? 0); [constructor|]. cbn [delivered]. apply Forall_takeN.
    apply walk_delivered; [exact expand_bwd_children|apply stack1; exact Hk|constructor].
  - unfold g_topK, run_bounded, run_backward. cbv zeta. destruct (N.eqb_spec n 0) as [E|_]; [contradiction|].
    cbv [range_over g_backward ref_is_nil ref_pointer]. cbn [rev range_fold delivered calls status takeN seq_kv restore_list kres_out map seq_out out_keymap N.of_nat].
    destruct (N.leb_spec 0 n); [reflexivity|lia].
Qed.
Lemma bottomk_out : forall st fa fb n ans, sinv st -> keys_ok P st -> n < 2 ^ 64 ->
  (forall t, xroot st = Some t -> fa = walk_fuel (tabs t)) ->
  kres_out inj (seq_kv R (g_bottomK (g_all fa (xroot st)) (g_backward fb (xroot st)) n ans)) =
  out_keymap g (seq_out k (run_bounded (run_all (root (sabs st))) n ans)).
Proof.
  intros st fa fb n ans Hs Hk Hn Hf. unfold sinv, keys_ok in *. rewrite sabs_root.
  destruct (N.eqb_spec n 0) as [->|Hn0].
  { destruct (xroot st); reflexivity. }
  destruct (xroot st) as [t|].
  - rewrite (Hf t eq_refl). apply (bounded_out inj g k R P); [apply gen_bottomK_tree; [lia|exact Hn|exact Hs]| |exact HR].
    unfold run_bounded. destruct (n =? 0); [constructor|]. cbn [delivered]. apply Forall_takeN.
    apply walk_delivered; [exact expand_fwd_children|apply stack1; exact Hk|constructor].
  - unfold g_bottomK, run_bounded, run_all. cbv zeta. destruct (N.eqb_spec n 0) as [E|_]; [contradiction|].
    cbv [range_over g_all ref_is_nil ref_pointer]. cbn [rev range_fold delivered calls status takeN seq_kv restore_list kres_out map seq_out out_keymap N.of_nat].
    destruct (N.leb_spec 0 n); [reflexivity|lia].
Qed.

(* the template text of Minimum / Maximum over the regenerated minimum / maximum *)
Definition ref_extreme (ext : nat -> gref -> gres gref) (fm : nat) (root : gref) : gres (option (K * Z)) :=
  match ext fm root with
  | GRet l =>
    if negb (ref_is_nil l) then
      match R l with
      | GRet r => GRet (Some (fst r, snd r))
      | GPanic => GPanic
      | GFuel => GFuel
      end
    else GRet None
  | GPanic => GPanic
  | GFuel => GFuel
  end.

Lemma extreme_leaf : forall t (ext : nat -> gref -> gres gref) (lf : nat -> tree -> option tree) (pick : list lrec -> option lrec) fm,
  (gres_map (option_map tabs) (ext fm (Some t)) = match lf fm (tabs t) with Some l => GRet (Some l) | None => GFuel end) ->
  lf fm (tabs t) = option_map to_leaf (pick (leaves (tabs t))) ->
  (forall l, pick (leaves (tabs t)) = Some l -> In l (leaves (tabs t))) -> pick (leaves (tabs t)) <> None ->
  Forall P (leaves (tabs t)) ->
  gopt_out inj (ref_extreme ext fm (Some t)) =
  out_keymap g (match lf fm (tabs t) with Some l => OKV (restore k l) (leaf_v l) | None => ONone end).
Proof.
  intros t ext lf pick fm He Hl Hin Hne HP. unfold ref_extreme. rewrite Hl in *.
  destruct (pick (leaves (tabs t))) as [lr|] eqn:Ep; [|congruence]. cbn [option_map] in *.
  destruct (ext fm (Some t)) as [[m|]| |]; cbn [gres_map option_map] in He; try discriminate.
  injection He as Em. unfold to_leaf in Em. apply tabs_leaf_inv in Em. subst m. cbn [ref_is_nil negb].
  rewrite Forall_forall in HP. pose proof (HP lr (Hin lr eq_refl)) as Hp. destruct lr as [[gk tk] v]. cbn [lgk ltk lv fst snd].
  destruct (HR gk tk v Hp) as (kv & Ek & Ei & Ev). rewrite Ek. cbn [gopt_out fst snd out_keymap leaf_v].
  unfold to_leaf. cbn [lgk ltk lv fst snd leaf_v]. rewrite Ei, Ev. reflexivity.
Qed.

Lemma hd_error_in : forall {A} (l : list A) x, hd_error l = Some x -> In x l.
Proof. intros A [|y l] x H; [discriminate|]. injection H as ->. left. reflexivity. Qed.

Lemma minimum_out : forall st fm, sinv st -> root_wf (sabs st) -> keys_ok P st ->
  (forall t, xroot st = Some t -> fm = theight (tabs t)) ->
  gopt_out inj (ref_extreme g_minimum fm (xroot st)) = out_keymap g (snd (step k (sabs st) Minimum)).
Proof.
  intros st fm Hs Hw Hk Hf. unfold sinv, root_wf, keys_ok in *. cbn [step snd]. unfold opt_min. rewrite sabs_root in *.
  destruct (xroot st) as [t|].
  - rewrite (Hf t eq_refl). unfold minimum.
    apply (extreme_leaf t g_minimum minleaf (@hd_error lrec)).
    + apply (gen_minimum_eq _ t 0%nat Hs Hw).
    + apply (minleaf_spec _ 0%nat); [lia|exact Hw].
    + intros l. apply hd_error_in.
    + pose proof (WF_nonempty _ _ Hw) as Hne. destruct (leaves (tabs t)); [congruence|discriminate].
    + exact Hk.
  - unfold ref_extreme. destruct fm; reflexivity.
Qed.
Lemma maximum_out : forall st fm, sinv st -> root_wf (sabs st) -> keys_ok P st ->
  (forall t, xroot st = Some t -> fm = theight (tabs t)) ->
  gopt_out inj (ref_extreme g_maximum fm (xroot st)) = out_keymap g (snd (step k (sabs st) Maximum)).
Proof.
  intros st fm Hs Hw Hk Hf. unfold sinv, root_wf, keys_ok in *. cbn [step snd]. unfold opt_max. rewrite sabs_root in *.
  destruct (xroot st) as [t|].
  - rewrite (Hf t eq_refl). unfold maximum.
    apply (extreme_leaf t g_maximum maxleaf (fun l => hd_error (rev l))).
    + apply (gen_maximum_eq _ t 0%nat Hs Hw).
    + apply (maxleaf_spec _ 0%nat); [lia|exact Hw].
    + intros l H. apply in_rev. apply hd_error_in. exact H.
    + pose proof (WF_nonempty _ _ Hw) as Hne. destruct (rev (leaves (tabs t))) eqn:E; [|discriminate].
      apply (f_equal (@rev _)) in E. rewrite rev_involutive in E. cbn [rev] in E. congruence.
    + exact Hk.
  - unfold ref_extreme. destruct fm; reflexivity.
Qed.
End Wrappers.

(* ================= 5. the scans behind Range and Prefix ================= *)
Section Scans.
Context {K : Type} (inj : K -> akey) (g : akey -> akey) (k : Api.kind) (R : gref -> gres (K * Z)) (P : lrec -> Prop).
Hypothesis HR : restore_ok inj g k R P.

Lemma range_out : forall st fr gs ge ts te ans, sinv st -> keys_ok P st ->
  (forall t, xroot st = Some t -> fr = walk_fuel (tabs t)) ->
  kres_out inj (seq_kv R (g_rangeScan fr (xroot st) gs ge ts te ans)) =
  out_keymap g (seq_out k (run_range (root (sabs st)) gs ge ts te ans)).
Proof.
  intros st fr gs ge ts te ans Hs Hk Hf. unfold sinv, keys_ok in *. rewrite sabs_root. destruct (xroot st) as [t|].
  - rewrite (Hf t eq_refl). apply (seq_kv_out inj g k R P); [apply gen_rangeScan_eq; exact Hs| |exact HR].
    apply walk_delivered; [apply expand_range_children|apply (stack1 P); exact Hk|constructor].
  - rewrite gen_rangeScan_nil. reflexivity.
Qed.
Lemma filter_out : forall t ff pr pred ans, xtwf t -> Forall P (leaves (tabs t)) -> (forall l, pr l = pred (tabs l)) ->
  kres_out inj (seq_kv R (g_filter ff (Some t) pr ans)) =
  out_keymap g (seq_out k (walk (fun l => if pred l then Deliver else Skip) expand_fwd ff [(tabs t, 0%nat)] ans 0 [])).
Proof.
  intros t ff pr pred ans Hx Hk Hp. apply (seq_kv_out inj g k R P); [apply gen_filter_eq; assumption| |exact HR].
  apply walk_delivered; [exact expand_fwd_children|apply (stack1 P); exact Hk|constructor].
Qed.
End Scans.

Lemma len0 : forall n, (Z.of_nat n =? 0)%Z = (n =? 0)%nat.
Proof. intros n. destruct (Z.eqb_spec (Z.of_nat n) 0); destruct (Nat.eqb_spec n 0); try reflexivity; lia. Qed.

(* maximum(t.root) on a non-empty well-formed tree: the leaf the model's maximum finds, one of its leaves *)
Lemma max_leaf : forall t, xtwf t -> WF 0 (tabs t) ->
  exists gk tk v, g_maximum (theight (tabs t)) (Some t) = GRet (Some (XLeaf gk tk v)) /\
    maximum (tabs t) = Some (Leaf gk tk v) /\ In (gk, tk, v) (leaves (tabs t)).
Proof.
  intros t Hx Hw. pose proof (gen_maximum_eq (theight (tabs t)) t 0%nat Hx Hw) as He.
  pose proof (maxleaf_spec _ 0%nat (tabs t) (le_n _) Hw) as Em0. unfold maximum. rewrite Em0 in He.
  pose proof (WF_nonempty _ _ Hw) as Hne.
  destruct (rev (leaves (tabs t))) as [|[[gk tk] v] rest] eqn:E.
  { apply (f_equal (@rev _)) in E. rewrite rev_involutive in E. cbn [rev] in E. congruence. }
  cbn [hd_error option_map] in *. exists gk, tk, v.
  destruct (g_maximum (theight (tabs t)) (Some t)) as [[m|]| |]; cbn [gres_map option_map] in He; try discriminate.
  injection He as Em. unfold to_leaf in Em. cbn [lgk ltk lv fst snd] in Em. apply tabs_leaf_inv in Em. subst m.
  split; [reflexivity|]. split; [exact Em0|]. apply in_rev.
  assert (Hin : In (gk, tk, v) (rev (leaves (tabs t)))) by (rewrite E; left; reflexivity). exact Hin.
Qed.

(* ---------------- Range, the ComparableKeys branch of the template (unsigned, signed, float) ---------------- *)
Lemma do_range_num : forall k st a b ans, is_num k = true ->
  do_range k st a b ans =
  match lex_cmp (fst (transform k a)) (fst (transform k b)) with
  | Eq => match do_search st (fst (transform k a)) (snd (transform k a)) with
          | OFound v => OSeq [(a, v)] 1
          | OAbsent => OSeq [] 0
          | o => o
          end
  | Gt => seq_out k (run_range (root st) (fst (transform k b)) (fst (transform k a)) (fst (transform k b)) (fst (transform k a)) ans)
  | Lt => seq_out k (run_range (root st) (fst (transform k a)) (fst (transform k b)) (fst (transform k a)) (fst (transform k b)) ans)
  end.
Proof. intros [|w|w|w| |s|enc dec] st a b ans H; try discriminate; reflexivity. Qed.

Section NumRange.
Variable k : Api.kind.
Hypothesis Hk : is_num k = true.
Variable gsearch : nat -> gref -> list N -> gres sres.
Variable search_key : list N -> list N.
Hypothesis search_eq : forall fuel t keyS, xtwf t -> isbytes keyS = true ->
  gsearch fuel (Some t) keyS = gres_of_sres (xsearch fuel t keyS keyS 0).
Hypothesis search_nil : forall fuel keyS, gsearch fuel None keyS = GRet SAbsent.
Hypothesis key_eq : forall x, search_key x = x.
Variable R : gref -> gres (akey * Z).
Hypothesis HR : restore_ok idk idk k R any_key.

(* the text of the template branch, over its own Search, search key and restoreKey *)
Definition ref_range_num (tr : akey -> list N * list N) (fuel_Search fuel_rangeScan : nat) (root : gref) (start end_ : akey)
    (ans : nat -> bool) : kres akey :=
  let startKey := fst (tr start) in
  let endKey := fst (tr end_) in
  let c := bytes_compare startKey endKey in
  let k1 := fun (startKey : list N) (endKey : list N) =>
    seq_kv R (g_rangeScan fuel_rangeScan root startKey endKey startKey endKey ans) in
  if Z.eqb c 0%Z then (
    let yi := O in
    let yout := (@nil (akey * Z)) in
    match gsearch fuel_Search root (search_key (snd (tr start))) with
    | GRet r_2 =>
    let k2 := fun (val : Z) (ok : bool) =>
      if negb ok then (
        KDone ByReturn yi yout
      ) else (
        let yr := ans yi in
        let yout := (start, val) :: yout in
        let yi := S yi in
        if negb yr then (
          KDone ByReturn yi yout
        ) else (
          KDone ByEnd yi yout
        )
      ) in
    match r_2 with
    | SFound v => k2 v true
    | SAbsent => k2 0%Z false
    | SFuel => KFuel
    end
    | GPanic => KPanic
    | GFuel => KFuel
    end
  ) else (
    if Z.ltb 0%Z c then (
      let '(startKey, endKey) := (endKey, startKey) in
      k1 startKey endKey
    ) else (
      k1 startKey endKey
    )
  ).

Theorem range_num_out : forall st a b ans fr, sinv st -> isbytes (snd (transform k a)) = true ->
  (forall t, xroot st = Some t -> fr = walk_fuel (tabs t)) ->
  kres_out idk (ref_range_num (mtr k) (key_fuel (snd (transform k a))) fr (xroot st) a b ans) = do_range k (sabs st) a b ans.
Proof.
  intros st a b ans fr Hs Hb Hf. rewrite (do_range_num k _ a b ans Hk). unfold ref_range_num, mtr. cbv zeta.
  assert (Hpk : plain_kind k = true) by (destruct k; try discriminate; reflexivity).
  pose proof (mtr_same k a Hpk) as Esame. unfold mtr in Esame.
  unfold bytes_compare. destruct (lex_cmp (fst (transform k a)) (fst (transform k b))) eqn:Ec.
  - change (0 =? 0)%Z with true. cbv iota. rewrite key_eq. unfold do_search. rewrite sabs_root. unfold sinv in Hs.
    destruct (xroot st) as [t|].
    + rewrite (search_eq _ t _ Hs Hb), (xsearch_sim _ t _ _ _ Hs), Esame.
      destruct (search (key_fuel (snd (transform k a))) (tabs t) (snd (transform k a)) (snd (transform k a)) 0) as [v| |];
        cbn [gres_of_sres negb]; [destruct (ans 0%nat)| |]; reflexivity.
    + rewrite search_nil. reflexivity.
  - change (-1 =? 0)%Z with false. change (0 <? -1)%Z with false. cbv iota.
    rewrite (range_out idk idk k R any_key HR st fr _ _ _ _ ans Hs (keys_ok_any st) Hf). apply out_keymap_id.
  - change (1 =? 0)%Z with false. change (0 <? 1)%Z with true. cbv iota.
    rewrite (range_out idk idk k R any_key HR st fr _ _ _ _ ans Hs (keys_ok_any st) Hf). apply out_keymap_id.
Qed.
End NumRange.

Lemma search_nil_unsigned : forall fuel keyS, g_unsigned_search fuel None keyS = GRet SAbsent.
Proof. intros [|f] keyS; reflexivity. Qed.
Lemma search_nil_signed : forall fuel keyS, g_signed_search fuel None keyS = GRet SAbsent.
Proof. intros [|f] keyS; reflexivity. Qed.
Lemma search_nil_float : forall fuel keyS, g_float_search fuel None keyS = GRet SAbsent.
Proof. intros [|f] keyS; reflexivity. Qed.

(* each of the three instances IS the template text over its own Search / restoreKey *)
Lemma unsigned_range_text : forall tr rs, g_unsigned_Range akey tr rs =
  ref_range_num g_unsigned_search g_unsigned_search_key (g_unsigned_restoreKey akey tr rs) tr.
Proof. reflexivity. Qed.
Lemma signed_range_text : forall tr rs, g_signed_Range akey tr rs =
  ref_range_num g_signed_search g_signed_search_key (g_signed_restoreKey akey tr rs) tr.
Proof. reflexivity. Qed.
Lemma float_range_text : forall tr rs, g_float_Range akey tr rs =
  ref_range_num g_float_search g_float_search_key (g_float_restoreKey akey tr rs) tr.
Proof. reflexivity. Qed.

Theorem gen_unsigned_range_eq : forall w st a b ans fr, sinv st -> isbytes (snd (transform (KUnsigned w) a)) = true ->
  (forall t, xroot st = Some t -> fr = walk_fuel (tabs t)) ->
  kres_out idk (g_unsigned_Range akey (mtr (KUnsigned w)) (mrs (KUnsigned w)) (key_fuel (snd (transform (KUnsigned w) a))) fr (xroot st) a b ans) =
  do_range (KUnsigned w) (sabs st) a b ans.
Proof.
  intros w st a b ans fr Hs Hb Hf. rewrite unsigned_range_text.
  apply (range_num_out (KUnsigned w) eq_refl g_unsigned_search g_unsigned_search_key gen_unsigned_search_eq search_nil_unsigned
           (fun x => eq_refl)); try assumption.
  rewrite gen_unsigned_restoreKey_eq. apply ref_restoreKey_ok. reflexivity.
Qed.
Theorem gen_signed_range_eq : forall w st a b ans fr, sinv st -> isbytes (snd (transform (KSigned w) a)) = true ->
  (forall t, xroot st = Some t -> fr = walk_fuel (tabs t)) ->
  kres_out idk (g_signed_Range akey (mtr (KSigned w)) (mrs (KSigned w)) (key_fuel (snd (transform (KSigned w) a))) fr (xroot st) a b ans) =
  do_range (KSigned w) (sabs st) a b ans.
Proof.
  intros w st a b ans fr Hs Hb Hf. rewrite signed_range_text.
  apply (range_num_out (KSigned w) eq_refl g_signed_search g_signed_search_key gen_signed_search_eq search_nil_signed
           (fun x => eq_refl)); try assumption.
  rewrite gen_signed_restoreKey_eq. apply ref_restoreKey_ok. reflexivity.
Qed.
Theorem gen_float_range_eq : forall w st a b ans fr, sinv st -> isbytes (snd (transform (KFloat w) a)) = true ->
  (forall t, xroot st = Some t -> fr = walk_fuel (tabs t)) ->
  kres_out idk (g_float_Range akey (mtr (KFloat w)) (mrs (KFloat w)) (key_fuel (snd (transform (KFloat w) a))) fr (xroot st) a b ans) =
  do_range (KFloat w) (sabs st) a b ans.
Proof.
  intros w st a b ans fr Hs Hb Hf. rewrite float_range_text.
  apply (range_num_out (KFloat w) eq_refl g_float_search g_float_search_key gen_float_search_eq search_nil_float
           (fun x => eq_refl)); try assumption.
  rewrite gen_float_restoreKey_eq. apply ref_restoreKey_ok. reflexivity.
Qed.

(* ---------------- Range, the CompoundKey branch of the template ---------------- *)
Definition is_cmp (k : Api.kind) : bool := match k with KCompound _ | KCodec _ _ => true | _ => false end.
Lemma do_range_cmp : forall k st a b ans, is_cmp k = true ->
  do_range k st a b ans =
  match root st with
  | None => OSeq [] 0
  | Some t =>
    let sk := fst (transform k a) in
    let ek := fst (transform k b) in
    let ek := if (length ek =? 0)%nat
              then match maximum t with Some l => fst (transform k (restore k l)) | None => [] end
              else ek in
    let '(sk, ek) := match lex_cmp sk ek with Gt => (ek, sk) | _ => (sk, ek) end in
    seq_out k (run_range (root st) sk ek sk ek ans)
  end.
Proof. intros [|w|w|w| |s|enc dec] st a b ans H; try discriminate; reflexivity. Qed.

Section CmpRange.
Variable k : Api.kind.
Hypothesis Hk : is_cmp k = true.
Variable R : gref -> gres (akey * Z).
Hypothesis HR : restore_ok idk idk k R any_key.

Definition ref_range_cmp (tr : akey -> list N * list N) (fuel_maximum fuel_rangeScan : nat) (root : gref) (start end_ : akey)
    (ans : nat -> bool) : kres akey :=
  let startKey := fst (tr start) in
  let endKey := fst (tr end_) in
  if ref_is_nil (ref_pointer root) then (
    let yi := O in
    let yout := (@nil (akey * Z)) in
    KDone ByEnd yi yout
  ) else (
    let k2 := fun (end_ : akey) (endKey : list N) =>
      let k1 := fun (startKey : list N) (endKey : list N) =>
        seq_kv R (g_rangeScan fuel_rangeScan root startKey endKey startKey endKey ans) in
      if Z.ltb 0%Z (bytes_compare startKey endKey) then (
        let '(startKey, endKey) := (endKey, startKey) in
        k1 startKey endKey
      ) else (
        k1 startKey endKey
      ) in
    if Z.eqb (Z.of_nat (List.length endKey)) 0%Z then (
      match g_maximum fuel_maximum root with
      | GRet r_2 =>
      match R r_2 with
      | GRet r_3 =>
      let end_ := fst r_3 in
      let endKey := fst (tr end_) in
      k2 end_ endKey
      | GPanic => KPanic
      | GFuel => KFuel
      end
      | GPanic => KPanic
      | GFuel => KFuel
      end
    ) else (
      k2 end_ endKey
    )
  ).

Theorem range_cmp_out : forall st a b ans fm fr, sinv st -> root_wf (sabs st) ->
  (forall t, xroot st = Some t -> fm = theight (tabs t) /\ fr = walk_fuel (tabs t)) ->
  kres_out idk (ref_range_cmp (mtr k) fm fr (xroot st) a b ans) = do_range k (sabs st) a b ans.
Proof.
  intros st a b ans fm fr Hs Hw Hf. rewrite (do_range_cmp k _ a b ans Hk).
  assert (Htail : forall sk ek, kres_out idk (seq_kv R (g_rangeScan fr (xroot st) sk ek sk ek ans)) =
                                seq_out k (run_range (root (sabs st)) sk ek sk ek ans)).
  { intros sk ek. rewrite (range_out idk idk k R any_key HR st fr _ _ _ _ ans Hs (keys_ok_any st)); [apply out_keymap_id|].
    intros t Ht. apply (Hf t Ht). }
  unfold ref_range_cmp, mtr. unfold sinv, root_wf in *. rewrite sabs_root in *.
  destruct (xroot st) as [t|]; [|reflexivity].
  destruct (Hf t eq_refl) as [-> _]. cbn [ref_is_nil ref_pointer]. cbv beta iota zeta. rewrite len0.
  destruct (length (fst (transform k b)) =? 0)%nat.
  - destruct (max_leaf t Hs Hw) as (gk & tk & v & Hg & Hm & _). rewrite Hg, Hm.
    destruct (HR gk tk v I) as (kv & Ek & Ei & _). rewrite Ek. unfold idk in Ei. rewrite Ei, cmp_gt.
    destruct (lex_cmp (fst (transform k a)) (fst (transform k (restore k (Leaf gk tk v))))); apply Htail.
  - rewrite cmp_gt. destruct (lex_cmp (fst (transform k a)) (fst (transform k b))); apply Htail.
Qed.
End CmpRange.

Lemma compound_range_text : forall tr rs, g_compound_Range akey tr rs = ref_range_cmp (g_compound_restoreKey akey tr rs) tr.
Proof. reflexivity. Qed.
(* for a schema-described compound key and for an arbitrary user codec *)
Theorem gen_compound_range_eq : forall k st a b ans fm fr, is_cmp k = true -> sinv st -> root_wf (sabs st) ->
  (forall t, xroot st = Some t -> fm = theight (tabs t) /\ fr = walk_fuel (tabs t)) ->
  kres_out idk (g_compound_Range akey (mtr k) (mrs k) fm fr (xroot st) a b ans) = do_range k (sabs st) a b ans.
Proof.
  intros k st a b ans fm fr Hk Hs Hw Hf. rewrite compound_range_text. apply range_cmp_out; try assumption.
  rewrite gen_compound_restoreKey_eq. apply ref_restoreKey_ok. destruct k; try discriminate; reflexivity.
Qed.

(* ---------------- Range of the alpha tree (the else branch of the template, with AddNullByte) ---------------- *)
Lemma nonempty_of : forall st t gk tk v, keys_ok nonempty_key st -> xroot st = Some t -> In (gk, tk, v) (leaves (tabs t)) -> gk <> [].
Proof.
  intros st t gk tk v Hk Ht Hin. unfold keys_ok in Hk. rewrite Ht in Hk. rewrite Forall_forall in Hk.
  exact (Hk _ Hin).
Qed.

Theorem gen_alpha_range_eq : forall tr st a b ans fm fr, sinv st -> root_wf (sabs st) -> keys_ok nonempty_key st ->
  (forall t, xroot st = Some t -> fm = theight (tabs t) /\ fr = walk_fuel (tabs t)) ->
  kres_out AB (g_alpha_Range tr alpha_rs fm fr (xroot st) a b ans) = do_range KAlpha (sabs st) (AB a) (AB b) ans.
Proof.
  intros tr st a b ans fm fr Hs Hw Hk Hf.
  assert (Htail : forall s e, kres_out AB (seq_kv (g_alpha_restoreKey tr alpha_rs) (g_rangeScan fr (xroot st) (s ++ [0]) (e ++ [0]) (s ++ [0]) (e ++ [0]) ans)) =
                              seq_out KAlpha (run_range (root (sabs st)) (s ++ [0]) (e ++ [0]) (s ++ [0]) (e ++ [0]) ans)).
  { intros s e. rewrite (range_out AB idk KAlpha _ nonempty_key (alpha_restoreKey_ok tr) st fr _ _ _ _ ans Hs Hk); [apply out_keymap_id|].
    intros t Ht. apply (Hf t Ht). }
  pose proof (nonempty_of st) as Hne.
  unfold g_alpha_Range, do_range. unfold sinv, root_wf in *. rewrite sabs_root in *.
  destruct (xroot st) as [t|]; [|reflexivity].
  destruct (Hf t eq_refl) as [-> _]. cbn [ref_is_nil ref_pointer akey_bytes]. cbv beta iota zeta. rewrite len0.
  destruct (length b =? 0)%nat.
  - destruct (max_leaf t Hs Hw) as (gk & tk & v & Hg & Hm & Hin). rewrite Hg, Hm.
    rewrite (gen_alpha_restoreKey_eq tr alpha_rs gk tk v (Hne t gk tk v Hk eq_refl Hin)).
    cbn [fst snd restore leaf_gk akey_bytes]. unfold alpha_rs. rewrite cmp_gt.
    destruct (lex_cmp a (removelast gk)); apply Htail.
  - rewrite cmp_gt. destruct (lex_cmp a b); apply Htail.
Qed.

(* ---------------- Range of the collation tree ---------------- *)
(* the model takes the sort keys as part of its inputs (AC o c); the Go code computes them with the collator:
   tr o = (o, col o).  The open end re-collates the ORIGINAL string of the maximum leaf: the model assumes
   that gives the stored sort key again, here the hypothesis on the maximum. *)
Theorem gen_collation_range_eq : forall col rs st a b ans fm fr, sinv st -> root_wf (sabs st) ->
  (forall t m, xroot st = Some t -> maximum (tabs t) = Some m -> col (leaf_gk m) = leaf_tk m) ->
  (forall t, xroot st = Some t -> fm = theight (tabs t) /\ fr = walk_fuel (tabs t)) ->
  kres_out AB (g_collation_Range (col_tr col) rs fm fr (xroot st) a b ans) =
  out_keymap forget_col (do_range KCollation (sabs st) (AC a (col a)) (AC b (col b)) ans).
Proof.
  intros col rs st a b ans fm fr Hs Hw Hcol Hf.
  assert (Htail : forall gs ge ts te, kres_out AB (seq_kv (g_collation_restoreKey (col_tr col) rs) (g_rangeScan fr (xroot st) gs ge ts te ans)) =
                              out_keymap forget_col (seq_out KCollation (run_range (root (sabs st)) gs ge ts te ans))).
  { intros gs ge ts te. apply (range_out AB forget_col KCollation _ any_key (collation_restoreKey_ok _ rs) st fr _ _ _ _ ans Hs (keys_ok_any st)).
    intros t Ht. apply (Hf t Ht). }
  unfold g_collation_Range, do_range, col_tr. unfold sinv, root_wf in *. rewrite sabs_root in *.
  destruct (xroot st) as [t|]; [|reflexivity].
  destruct (Hf t eq_refl) as [-> _]. cbn [ref_is_nil ref_pointer akey_bytes]. cbv beta iota zeta. rewrite len0.
  destruct (length b =? 0)%nat.
  - destruct (max_leaf t Hs Hw) as (gk & tk & v & Hg & Hm & Hin). rewrite Hg, Hm.
    rewrite gen_collation_restoreKey_eq. cbv beta iota zeta. cbn [fst snd restore leaf_gk leaf_tk akey_bytes]. rewrite cmp_gt.
    pose proof (Hcol t _ eq_refl Hm) as Ec. cbn [leaf_gk leaf_tk] in Ec.
    destruct (lex_cmp a gk); cbv beta iota zeta; cbn [transform akey_bytes fst snd]; rewrite ?Ec; apply Htail.
  - cbv beta iota zeta. cbn [akey_bytes]. rewrite cmp_gt. destruct (lex_cmp a b); cbv beta iota zeta; cbn [transform akey_bytes fst snd]; apply Htail.
Qed.

(* ================= 6. Prefix ================= *)
(* TranslateIterFacts.gen_lowestCommonParent_eq, with one more conclusion: the node returned is a well-formed raw
   tree again (it is a subtree), so that the filter scan can be started on it.  Same proof. *)
Lemma lcp_loop_xtwf : forall fuel t p d dd, xtwf t -> WF dd (tabs t) -> isbytes p = true ->
  (theight (tabs t) < fuel)%nat ->
  exists r dep, g_lowestCommonParent_loop1 fuel p (Some t) (Z.of_nat d) = LDone (Some r, dep) /\
    lcparent fuel (tabs t) p d = Some (tabs r) /\ xtwf r.
Proof.
  induction fuel as [|fuel IH]; intros t p d dd Hxt Hwf Hp Hh; [lia|].
  destruct t as [gk tk v|n].
  { exists (XLeaf gk tk v), (Z.of_nat d). split; [reflexivity|]. split; [reflexivity|exact Hxt]. }
  destruct (xtwf_inv _ Hxt) as [Hx Hch]. rewrite tabs_inner in *.
  cbn [g_lowestCommonParent_loop1 ref_is_nil ref_pointer negb ref_node lcparent].
  rewrite ref_tag_inner, ikind_not_leaf. cbn [negb].
  cbv zeta. rewrite nhdr_nabs. cbn [xabs_hdr prefixLen].
  (* the continuation after the compressed-path test, at depth d1 *)
  assert (Hk : forall d1,
    exists r dep,
      (if (Z.of_nat (length p) <=? Z.of_nat d1)%Z then LDone (Some (XInner n), Z.of_nat d1)
       else match idx_bytes p (Z.of_nat d1) with
            | None => LPanic
            | Some v_2 =>
              match g_findChild (Some (XInner n)) v_2 with
              | GRet r_2 =>
                if ptr_is_nil r_2 then LDone (Some (XInner n), Z.of_nat d1)
                else match r_2 with
                     | None => LPanic
                     | Some v_3 => g_lowestCommonParent_loop1 fuel p v_3 (Z.of_nat d1 + 1)
                     end
              | GPanic => LPanic
              | GFuel => LFuel
              end
            end) = LDone (Some r, dep) /\
      match nth_error p d1 with
      | None => Some (Inner (nabs n))
      | Some b => match nfind (nabs n) b with None => Some (Inner (nabs n)) | Some c => lcparent fuel c p (S d1) end
      end = Some (tabs r) /\ xtwf r).
  { intros d1. destruct (nth_error p d1) as [b|] eqn:Eb.
    - assert (Hd1 : (d1 < length p)%nat) by (apply nth_error_Some; rewrite Eb; discriminate).
      replace (Z.of_nat (length p) <=? Z.of_nat d1)%Z with false by (symmetry; apply Z.leb_gt; lia).
      rewrite idx_bytes_nat, Eb. pose proof (nth_byte _ _ _ Hp Eb) as Hb.
      rewrite (gen_findChild_eq n b Hx Hb), (nfind_nabs n b Hx).
      destruct (xfind n b) as [c|] eqn:Ef; cbn [option_map omap ptr_is_nil].
      + destruct (xfind_child n b c Hx Ef) as [b' Hin].
        destruct (WF_child _ _ _ _ Hwf (in_nenum_nabs _ _ _ Hin)) as [Hc _].
        pose proof (theight_child _ _ _ (in_nenum_nabs _ _ _ Hin)) as Hhc.
        replace (Z.of_nat d1 + 1)%Z with (Z.of_nat (S d1)) by lia.
        apply (IH c p (S d1) _ (Hch b' c Hin) Hc Hp). lia.
      + exists (XInner n), (Z.of_nat d1). split; [reflexivity|]. split; [rewrite tabs_inner; reflexivity|exact Hxt].
    - apply nth_error_None in Eb.
      replace (Z.of_nat (length p) <=? Z.of_nat d1)%Z with true by (symmetry; apply Z.leb_le; lia).
      exists (XInner n), (Z.of_nat d1). split; [reflexivity|]. split; [rewrite tabs_inner; reflexivity|exact Hxt]. }
  destruct (Nat.eqb_spec (xplen (xh n)) 0) as [Ep|Ep].
  - replace (hdr_prefixLen (xh n) =? 0) with true by (symmetry; apply N.eqb_eq; unfold hdr_prefixLen; lia).
    cbn [negb andb]. rewrite Ep, Nat.add_0_r. apply Hk.
  - replace (hdr_prefixLen (xh n) =? 0) with false by (symmetry; apply N.eqb_neq; unfold hdr_prefixLen; lia).
    cbn [negb andb].
    rewrite (gen_prefixMismatch_eq fuel n p d dd Hxt Hwf ltac:(lia)).
    replace (Z.of_nat (prefixMismatch (nabs n) p d) <? Z.of_N (hdr_prefixLen (xh n)))%Z
      with (prefixMismatch (nabs n) p d <? xplen (xh n))%nat
      by (unfold hdr_prefixLen; destruct (Nat.ltb_spec (prefixMismatch (nabs n) p d) (xplen (xh n)));
          destruct (Z.ltb_spec (Z.of_nat (prefixMismatch (nabs n) p d)) (Z.of_N (N.of_nat (xplen (xh n))))); try reflexivity; lia).
    destruct (prefixMismatch (nabs n) p d <? xplen (xh n))%nat.
    + exists (XInner n), (Z.of_nat d). split; [reflexivity|]. split; [rewrite tabs_inner; reflexivity|exact Hxt].
    + replace (Z.of_nat d + Z.of_N (hdr_prefixLen (xh n)))%Z with (Z.of_nat (d + xplen (xh n))) by (unfold hdr_prefixLen; lia).
      apply Hk.
Qed.

(* lowestCommonParent(root, prefix) on a non-nil root: the node the model's descent stops at; no panic, and the
   budget is enough as soon as it exceeds the height (minimum() inside prefixMismatch is given the same budget) *)
Lemma lcp_xtwf : forall fuel t p dd, xtwf t -> WF dd (tabs t) -> isbytes p = true ->
  (theight (tabs t) < fuel)%nat ->
  exists r, g_lowestCommonParent fuel (Some t) p = GRet (Some r) /\ lcparent fuel (tabs t) p 0 = Some (tabs r) /\ xtwf r.
Proof.
  intros fuel t p dd Hxt Hwf Hp Hh.
  destruct (lcp_loop_xtwf fuel t p 0 dd Hxt Hwf Hp Hh) as (r & dep & Hl & Hm & Hxr).
  exists r. split; [|split; [exact Hm|exact Hxr]]. unfold g_lowestCommonParent. cbv zeta. cbn [Z.of_nat] in Hl. rewrite Hl. reflexivity.
Qed.

Lemma lcparent_mono : forall p f t d s, lcparent f t p d = Some s -> lcparent (S f) t p d = Some s.
Proof.
  intros p. induction f as [|f IH]; intros t d s H; [discriminate|].
  destruct t as [gk tk v|n]; [exact H|]. cbn [lcparent] in H. cbn [lcparent].
  destruct (negb (prefixLen (nhdr n) =? 0)%nat && (prefixMismatch n p d <? prefixLen (nhdr n))%nat); [exact H|].
  destruct (nth_error p (d + prefixLen (nhdr n))) as [b|]; [|exact H].
  destruct (nfind n b) as [c|]; [|exact H]. apply IH. exact H.
Qed.
Lemma lcparent_mono_le : forall p f f' t d s, (f <= f')%nat -> lcparent f t p d = Some s -> lcparent f' t p d = Some s.
Proof. intros p f f' t d s Hle. induction Hle as [|f' Hle IH]; intros H; [exact H|]. apply lcparent_mono. apply IH. exact H. Qed.

Lemma in_list_sum : forall x l, In x l -> (x <= list_sum l)%nat.
Proof.
  intros x l. induction l as [|y l IH]; intros H; [contradiction|]. cbn [list_sum fold_right]. destruct H as [->|H]; [lia|].
  specialize (IH H). unfold list_sum in IH. lia.
Qed.
Lemma lcparent_tsize : forall p f t d dd s, WF dd t -> lcparent f t p d = Some s -> (tsize s <= tsize t)%nat.
Proof.
  intros p. induction f as [|f IH]; intros t d dd s Hw H; [discriminate|].
  destruct t as [gk tk v|n]; [injection H as <-; lia|]. cbn [lcparent] in H.
  destruct (negb (prefixLen (nhdr n) =? 0)%nat && (prefixMismatch n p d <? prefixLen (nhdr n))%nat); [injection H as <-; lia|].
  destruct (nth_error p (d + prefixLen (nhdr n))) as [b|]; [|injection H as <-; lia].
  destruct (nfind n b) as [c|] eqn:Ef; [|injection H as <-; lia].
  pose proof (WF_inner_inv _ _ Hw) as (Hn & _).
  destruct (RangeFacts.nfind_child n b c Hn Ef) as (b' & Hin).
  destruct (WF_child _ _ _ _ Hw Hin) as [Hwc _].
  pose proof (IH c _ _ s Hwc H) as Hle.
  pose proof (size_children n Hn) as Hsz.
  assert (Hc : (tsize c <= list_sum (map tsize (nchildren n)))%nat).
  { apply in_list_sum. apply in_map. unfold nchildren. change c with (snd (b', c)). apply in_map. exact Hin. }
  lia.
Qed.

(* the filter scan does not depend on its budget once that exceeds the size of the tree *)
Lemma filter_walk_fuel : forall (pred : tree -> bool) d t ans f1 f2, WF d t -> (tsize t < f1)%nat -> (tsize t < f2)%nat ->
  walk (fun l => if pred l then Deliver else Skip) expand_fwd f1 [(t, 0%nat)] ans 0 [] =
  walk (fun l => if pred l then Deliver else Skip) expand_fwd f2 [(t, 0%nat)] ans 0 [].
Proof.
  intros pred d t ans f1 f2 Hw H1 H2.
  rewrite !(walk_gen pred expand_fwd leaves leaves_leaf exp_fwd_ok); try reflexivity;
    try (constructor; [exists d; exact Hw|constructor]);
    unfold stack_size; cbn [map fst list_sum fold_right]; lia.
Qed.

(* the predicate of the alpha tree on the restored pair, against the model's predicate on the leaf; both are false
   on an empty key and on an inner node (the prefix is not empty) *)
Lemma alpha_pred_eq : forall tr p, p <> [] -> forall l,
  pred_restore (g_alpha_restoreKey tr alpha_rs) (fun (k : list N) (_ : Z) => bytes_has_prefix k p) l =
  has_prefix (akey_bytes (restore KAlpha (tabs l))) p.
Proof.
  intros tr p Hp l. unfold pred_restore, bytes_has_prefix. destruct l as [gk tk v|n].
  - cbn [tabs restore leaf_gk akey_bytes]. destruct gk as [|x gk].
    + rewrite gen_alpha_restoreKey_empty. cbn [removelast]. destruct p; [congruence|reflexivity].
    + rewrite gen_alpha_restoreKey_eq by discriminate. reflexivity.
  - rewrite tabs_inner. cbn [restore leaf_gk akey_bytes removelast g_alpha_restoreKey cast_leaf]. destruct p; [congruence|reflexivity].
Qed.

Theorem gen_alpha_prefix_eq : forall tr st p ans fa ff fl, sinv st -> root_wf (sabs st) -> keys_ok nonempty_key st ->
  isbytes p = true ->
  (forall t, xroot st = Some t -> fa = walk_fuel (tabs t) /\ (tsize (tabs t) < ff)%nat /\
                                   (theight (tabs t) < fl)%nat /\ (length p + 2 <= fl)%nat) ->
  kres_out AB (g_alpha_Prefix tr alpha_rs fa ff fl (xroot st) p ans) = do_prefix KAlpha (sabs st) (AB p) ans.
Proof.
  intros tr st p ans fa ff fl Hs Hw Hk Hp Hf. unfold g_alpha_Prefix, do_prefix. cbn [akey_bytes]. rewrite len0.
  destruct (length p =? 0)%nat eqn:El.
  - unfold g_alpha_All. rewrite (all_out AB idk KAlpha _ nonempty_key (alpha_restoreKey_ok tr) st fa ans Hs Hk); [apply out_keymap_id|].
    intros t Ht. apply (Hf t Ht).
  - assert (Hpne : p <> []) by (destruct p; [discriminate|discriminate]).
    unfold sinv, root_wf, keys_ok in *. rewrite sabs_root in *. destruct (xroot st) as [t|].
    + destruct (Hf t eq_refl) as (_ & Hff & Hfl & Hfp). cbn [ref_is_nil ref_pointer negb]. cbv beta iota zeta.
      destruct (lcp_xtwf fl t p 0%nat Hs Hw Hp Hfl) as (r & Hg & Hl & Hxr). rewrite Hg.
      destruct (lcparent_spec (tabs t) p (S (S (length p))) Hw ltac:(lia)) as (sub & d' & Esub & Hwsub & _).
      pose proof (lcparent_mono_le p (S (S (length p))) fl (tabs t) 0%nat sub ltac:(lia) Esub) as Esub'. rewrite Hl in Esub'. injection Esub' as <-.
      rewrite Esub.
      assert (HkR : Forall nonempty_key (leaves (tabs r))).
      { apply Forall_forall. intros l Hin. rewrite Forall_forall in Hk. apply Hk. eapply lcparent_sub; eassumption. }
      rewrite (filter_out AB idk KAlpha _ nonempty_key (alpha_restoreKey_ok tr) r ff _
                 (fun l => has_prefix (akey_bytes (restore KAlpha l)) p) ans Hxr HkR (alpha_pred_eq tr p Hpne)).
      rewrite out_keymap_id. unfold run_filter, walk_fuel. f_equal.
      pose proof (lcparent_tsize p _ _ _ _ _ Hw Esub) as Hsz.
      apply (filter_walk_fuel _ d'); [exact Hwsub|lia|lia].
    + reflexivity.
Qed.

(* collation: no subtree is selected; the filter runs over the whole tree on the original bytes *)
Lemma collation_pred_eq : forall tr rs p, p <> [] -> forall l,
  pred_restore (g_collation_restoreKey tr rs) (fun (k : list N) (_ : Z) => let leafKeyS := k in bytes_has_prefix leafKeyS p) l =
  has_prefix (leaf_gk (tabs l)) p.
Proof.
  intros tr rs p Hp l. unfold pred_restore, bytes_has_prefix. destruct l as [gk tk v|n].
  - reflexivity.
  - rewrite tabs_inner. cbn [leaf_gk g_collation_restoreKey cast_leaf]. destruct p; [congruence|reflexivity].
Qed.
Theorem gen_collation_prefix_eq : forall col rs st p ans fa ff, sinv st ->
  (forall t, xroot st = Some t -> fa = walk_fuel (tabs t) /\ ff = walk_fuel (tabs t)) ->
  kres_out AB (g_collation_Prefix (col_tr col) rs fa ff (xroot st) p ans) =
  out_keymap forget_col (do_prefix KCollation (sabs st) (AC p (col p)) ans).
Proof.
  intros col rs st p ans fa ff Hs Hf. unfold g_collation_Prefix, do_prefix. cbn [akey_bytes]. rewrite len0.
  destruct (length p =? 0)%nat eqn:El.
  - unfold g_collation_All. apply (all_out AB forget_col KCollation _ any_key (collation_restoreKey_ok _ rs) st fa ans Hs (keys_ok_any st)).
    intros t Ht. apply (Hf t Ht).
  - assert (Hpne : p <> []) by (destruct p; [discriminate|discriminate]).
    unfold sinv in *. rewrite sabs_root. cbv beta iota zeta. unfold col_tr at 1. cbn [fst].
    destruct (xroot st) as [t|]; [|reflexivity].
    destruct (Hf t eq_refl) as (_ & ->).
    apply (filter_out AB forget_col KCollation _ any_key (collation_restoreKey_ok _ rs) t _ _
             (fun l => has_prefix (leaf_gk l) p) ans Hs).
    + apply Forall_forall. intros; exact I.
    + apply collation_pred_eq. exact Hpne.
Qed.

(* the other four instances: panic("") *)
Theorem gen_plain_prefix_eq : forall k K (tr : K -> list N * list N) rs (inj : K -> akey) st p p' ans, plain_kind k = true ->
  kres_out inj (g_unsigned_Prefix K tr rs p ans) = do_prefix k st p' ans /\
  kres_out inj (g_signed_Prefix K tr rs p ans) = do_prefix k st p' ans /\
  kres_out inj (g_float_Prefix K tr rs p ans) = do_prefix k st p' ans /\
  kres_out inj (g_compound_Prefix K tr rs p ans) = do_prefix k st p' ans.
Proof. intros [|w|w|w| |s|enc dec] K tr rs inj st p p' ans H; try discriminate; repeat split. Qed.

(* ================= 7. All, Backward, TopK, BottomK, Minimum, Maximum, Size: the six instances ================= *)
Definition gint_out (r : gres Z) : out := match r with GRet z => OSize z | GPanic => OPanic | GFuel => OFuel end.

Section PlainWrap.   (* unsigned, signed, float, compound: restoreKey is the template text without AddNullByte *)
Variable k : Api.kind.
Hypothesis Hk : plain_kind k = true.
Let R := ref_restoreKey (mrs k).
Let HR : restore_ok idk idk k R any_key := ref_restoreKey_ok k Hk.

Lemma plain_all : forall st fa ans, sinv st -> (forall t, xroot st = Some t -> fa = walk_fuel (tabs t)) ->
  kres_out idk (seq_kv R (g_all fa (xroot st) ans)) = seq_out k (run_all (root (sabs st)) ans).
Proof. intros st fa ans Hs Hf. rewrite (all_out idk idk k R any_key HR st fa ans Hs (keys_ok_any st) Hf). apply out_keymap_id. Qed.
Lemma plain_backward : forall st fb ans, sinv st -> (forall t, xroot st = Some t -> fb = walk_fuel (tabs t)) ->
  kres_out idk (seq_kv R (g_backward fb (xroot st) ans)) = seq_out k (run_backward (root (sabs st)) ans).
Proof. intros st fb ans Hs Hf. rewrite (backward_out idk idk k R any_key HR st fb ans Hs (keys_ok_any st) Hf). apply out_keymap_id. Qed.
Lemma plain_topk : forall st fa fb n ans, sinv st -> n < 2 ^ 64 -> (forall t, xroot st = Some t -> fb = walk_fuel (tabs t)) ->
  kres_out idk (seq_kv R (g_topK (g_all fa (xroot st)) (g_backward fb (xroot st)) n ans)) =
  seq_out k (run_bounded (run_backward (root (sabs st))) n ans).
Proof. intros st fa fb n ans Hs Hn Hf. rewrite (topk_out idk idk k R any_key HR st fa fb n ans Hs (keys_ok_any st) Hn Hf). apply out_keymap_id. Qed.
Lemma plain_bottomk : forall st fa fb n ans, sinv st -> n < 2 ^ 64 -> (forall t, xroot st = Some t -> fa = walk_fuel (tabs t)) ->
  kres_out idk (seq_kv R (g_bottomK (g_all fa (xroot st)) (g_backward fb (xroot st)) n ans)) =
  seq_out k (run_bounded (run_all (root (sabs st))) n ans).
Proof. intros st fa fb n ans Hs Hn Hf. rewrite (bottomk_out idk idk k R any_key HR st fa fb n ans Hs (keys_ok_any st) Hn Hf). apply out_keymap_id. Qed.
Lemma plain_minimum : forall st fm, sinv st -> root_wf (sabs st) -> (forall t, xroot st = Some t -> fm = theight (tabs t)) ->
  gopt_out idk (ref_extreme R g_minimum fm (xroot st)) = snd (step k (sabs st) Minimum).
Proof. intros st fm Hs Hw Hf. rewrite (minimum_out idk idk k R any_key HR st fm Hs Hw (keys_ok_any st) Hf). apply out_keymap_id. Qed.
Lemma plain_maximum : forall st fm, sinv st -> root_wf (sabs st) -> (forall t, xroot st = Some t -> fm = theight (tabs t)) ->
  gopt_out idk (ref_extreme R g_maximum fm (xroot st)) = snd (step k (sabs st) Maximum).
Proof. intros st fm Hs Hw Hf. rewrite (maximum_out idk idk k R any_key HR st fm Hs Hw (keys_ok_any st) Hf). apply out_keymap_id. Qed.
End PlainWrap.

(* ---- unsignedSortedTree ---- *)
Theorem gen_unsigned_all_eq : forall w st fa ans, sinv st -> (forall t, xroot st = Some t -> fa = walk_fuel (tabs t)) ->
  kres_out idk (g_unsigned_All akey (mtr (KUnsigned w)) (mrs (KUnsigned w)) fa (xroot st) ans) = seq_out (KUnsigned w) (run_all (root (sabs st)) ans).
Proof. intros w st fa ans Hs Hf. unfold g_unsigned_All. rewrite gen_unsigned_restoreKey_eq. apply (plain_all (KUnsigned w) eq_refl); assumption. Qed.
Theorem gen_unsigned_backward_eq : forall w st fb ans, sinv st -> (forall t, xroot st = Some t -> fb = walk_fuel (tabs t)) ->
  kres_out idk (g_unsigned_Backward akey (mtr (KUnsigned w)) (mrs (KUnsigned w)) fb (xroot st) ans) = seq_out (KUnsigned w) (run_backward (root (sabs st)) ans).
Proof. intros w st fb ans Hs Hf. unfold g_unsigned_Backward. rewrite gen_unsigned_restoreKey_eq. apply (plain_backward (KUnsigned w) eq_refl); assumption. Qed.
Theorem gen_unsigned_topk_eq : forall w st fa fb n ans, sinv st -> n < 2 ^ 64 -> (forall t, xroot st = Some t -> fb = walk_fuel (tabs t)) ->
  kres_out idk (g_unsigned_TopK akey (mtr (KUnsigned w)) (mrs (KUnsigned w)) fa fb (xroot st) n ans) = seq_out (KUnsigned w) (run_bounded (run_backward (root (sabs st))) n ans).
Proof. intros w st fa fb n ans Hs Hn Hf. unfold g_unsigned_TopK. rewrite gen_unsigned_restoreKey_eq. apply (plain_topk (KUnsigned w) eq_refl); assumption. Qed.
Theorem gen_unsigned_bottomk_eq : forall w st fa fb n ans, sinv st -> n < 2 ^ 64 -> (forall t, xroot st = Some t -> fa = walk_fuel (tabs t)) ->
  kres_out idk (g_unsigned_BottomK akey (mtr (KUnsigned w)) (mrs (KUnsigned w)) fa fb (xroot st) n ans) = seq_out (KUnsigned w) (run_bounded (run_all (root (sabs st))) n ans).
Proof. intros w st fa fb n ans Hs Hn Hf. unfold g_unsigned_BottomK. rewrite gen_unsigned_restoreKey_eq. apply (plain_bottomk (KUnsigned w) eq_refl); assumption. Qed.
Lemma unsigned_minimum_text : forall K tr rs, g_unsigned_Minimum K tr rs = ref_extreme (g_unsigned_restoreKey K tr rs) g_minimum.
Proof. reflexivity. Qed.
Lemma unsigned_maximum_text : forall K tr rs, g_unsigned_Maximum K tr rs = ref_extreme (g_unsigned_restoreKey K tr rs) g_maximum.
Proof. reflexivity. Qed.
Theorem gen_unsigned_minimum_eq : forall w st fm, sinv st -> root_wf (sabs st) -> (forall t, xroot st = Some t -> fm = theight (tabs t)) ->
  gopt_out idk (g_unsigned_Minimum akey (mtr (KUnsigned w)) (mrs (KUnsigned w)) fm (xroot st)) = snd (step (KUnsigned w) (sabs st) Minimum).
Proof. intros w st fm Hs Hw Hf. rewrite unsigned_minimum_text, gen_unsigned_restoreKey_eq. apply (plain_minimum (KUnsigned w) eq_refl); assumption. Qed.
Theorem gen_unsigned_maximum_eq : forall w st fm, sinv st -> root_wf (sabs st) -> (forall t, xroot st = Some t -> fm = theight (tabs t)) ->
  gopt_out idk (g_unsigned_Maximum akey (mtr (KUnsigned w)) (mrs (KUnsigned w)) fm (xroot st)) = snd (step (KUnsigned w) (sabs st) Maximum).
Proof. intros w st fm Hs Hw Hf. rewrite unsigned_maximum_text, gen_unsigned_restoreKey_eq. apply (plain_maximum (KUnsigned w) eq_refl); assumption. Qed.
Theorem gen_unsigned_size_eq : forall w K (tr : K -> list N * list N) rs st, gint_out (g_unsigned_Size K tr rs (xsize st)) = snd (step (KUnsigned w) (sabs st) Size).
Proof. reflexivity. Qed.

(* ---- signedSortedTree ---- *)
Theorem gen_signed_all_eq : forall w st fa ans, sinv st -> (forall t, xroot st = Some t -> fa = walk_fuel (tabs t)) ->
  kres_out idk (g_signed_All akey (mtr (KSigned w)) (mrs (KSigned w)) fa (xroot st) ans) = seq_out (KSigned w) (run_all (root (sabs st)) ans).
Proof. intros w st fa ans Hs Hf. unfold g_signed_All. rewrite gen_signed_restoreKey_eq. apply (plain_all (KSigned w) eq_refl); assumption. Qed.
Theorem gen_signed_backward_eq : forall w st fb ans, sinv st -> (forall t, xroot st = Some t -> fb = walk_fuel (tabs t)) ->
  kres_out idk (g_signed_Backward akey (mtr (KSigned w)) (mrs (KSigned w)) fb (xroot st) ans) = seq_out (KSigned w) (run_backward (root (sabs st)) ans).
Proof. intros w st fb ans Hs Hf. unfold g_signed_Backward. rewrite gen_signed_restoreKey_eq. apply (plain_backward (KSigned w) eq_refl); assumption. Qed.
Theorem gen_signed_topk_eq : forall w st fa fb n ans, sinv st -> n < 2 ^ 64 -> (forall t, xroot st = Some t -> fb = walk_fuel (tabs t)) ->
  kres_out idk (g_signed_TopK akey (mtr (KSigned w)) (mrs (KSigned w)) fa fb (xroot st) n ans) = seq_out (KSigned w) (run_bounded (run_backward (root (sabs st))) n ans).
Proof. intros w st fa fb n ans Hs Hn Hf. unfold g_signed_TopK. rewrite gen_signed_restoreKey_eq. apply (plain_topk (KSigned w) eq_refl); assumption. Qed.
Theorem gen_signed_bottomk_eq : forall w st fa fb n ans, sinv st -> n < 2 ^ 64 -> (forall t, xroot st = Some t -> fa = walk_fuel (tabs t)) ->
  kres_out idk (g_signed_BottomK akey (mtr (KSigned w)) (mrs (KSigned w)) fa fb (xroot st) n ans) = seq_out (KSigned w) (run_bounded (run_all (root (sabs st))) n ans).
Proof. intros w st fa fb n ans Hs Hn Hf. unfold g_signed_BottomK. rewrite gen_signed_restoreKey_eq. apply (plain_bottomk (KSigned w) eq_refl); assumption. Qed.
Lemma signed_minimum_text : forall K tr rs, g_signed_Minimum K tr rs = ref_extreme (g_signed_restoreKey K tr rs) g_minimum.
Proof. reflexivity. Qed.
Lemma signed_maximum_text : forall K tr rs, g_signed_Maximum K tr rs = ref_extreme (g_signed_restoreKey K tr rs) g_maximum.
Proof. reflexivity. Qed.
Theorem gen_signed_minimum_eq : forall w st fm, sinv st -> root_wf (sabs st) -> (forall t, xroot st = Some t -> fm = theight (tabs t)) ->
  gopt_out idk (g_signed_Minimum akey (mtr (KSigned w)) (mrs (KSigned w)) fm (xroot st)) = snd (step (KSigned w) (sabs st) Minimum).
Proof. intros w st fm Hs Hw Hf. rewrite signed_minimum_text, gen_signed_restoreKey_eq. apply (plain_minimum (KSigned w) eq_refl); assumption. Qed.
Theorem gen_signed_maximum_eq : forall w st fm, sinv st -> root_wf (sabs st) -> (forall t, xroot st = Some t -> fm = theight (tabs t)) ->
  gopt_out idk (g_signed_Maximum akey (mtr (KSigned w)) (mrs (KSigned w)) fm (xroot st)) = snd (step (KSigned w) (sabs st) Maximum).
Proof. intros w st fm Hs Hw Hf. rewrite signed_maximum_text, gen_signed_restoreKey_eq. apply (plain_maximum (KSigned w) eq_refl); assumption. Qed.
Theorem gen_signed_size_eq : forall w K (tr : K -> list N * list N) rs st, gint_out (g_signed_Size K tr rs (xsize st)) = snd (step (KSigned w) (sabs st) Size).
Proof. reflexivity. Qed.

(* ---- floatSortedTree ---- *)
Theorem gen_float_all_eq : forall w st fa ans, sinv st -> (forall t, xroot st = Some t -> fa = walk_fuel (tabs t)) ->
  kres_out idk (g_float_All akey (mtr (KFloat w)) (mrs (KFloat w)) fa (xroot st) ans) = seq_out (KFloat w) (run_all (root (sabs st)) ans).
Proof. intros w st fa ans Hs Hf. unfold g_float_All. rewrite gen_float_restoreKey_eq. apply (plain_all (KFloat w) eq_refl); assumption. Qed.
Theorem gen_float_backward_eq : forall w st fb ans, sinv st -> (forall t, xroot st = Some t -> fb = walk_fuel (tabs t)) ->
  kres_out idk (g_float_Backward akey (mtr (KFloat w)) (mrs (KFloat w)) fb (xroot st) ans) = seq_out (KFloat w) (run_backward (root (sabs st)) ans).
Proof. intros w st fb ans Hs Hf. unfold g_float_Backward. rewrite gen_float_restoreKey_eq. apply (plain_backward (KFloat w) eq_refl); assumption. Qed.
Theorem gen_float_topk_eq : forall w st fa fb n ans, sinv st -> n < 2 ^ 64 -> (forall t, xroot st = Some t -> fb = walk_fuel (tabs t)) ->
  kres_out idk (g_float_TopK akey (mtr (KFloat w)) (mrs (KFloat w)) fa fb (xroot st) n ans) = seq_out (KFloat w) (run_bounded (run_backward (root (sabs st))) n ans).
Proof. intros w st fa fb n ans Hs Hn Hf. unfold g_float_TopK. rewrite gen_float_restoreKey_eq. apply (plain_topk (KFloat w) eq_refl); assumption. Qed.
Theorem gen_float_bottomk_eq : forall w st fa fb n ans, sinv st -> n < 2 ^ 64 -> (forall t, xroot st = Some t -> fa = walk_fuel (tabs t)) ->
  kres_out idk (g_float_BottomK akey (mtr (KFloat w)) (mrs (KFloat w)) fa fb (xroot st) n ans) = seq_out (KFloat w) (run_bounded (run_all (root (sabs st))) n ans).
Proof. intros w st fa fb n ans Hs Hn Hf. unfold g_float_BottomK. rewrite gen_float_restoreKey_eq. apply (plain_bottomk (KFloat w) eq_refl); assumption. Qed.
Lemma float_minimum_text : forall K tr rs, g_float_Minimum K tr rs = ref_extreme (g_float_restoreKey K tr rs) g_minimum.
Proof. reflexivity. Qed.
Lemma float_maximum_text : forall K tr rs, g_float_Maximum K tr rs = ref_extreme (g_float_restoreKey K tr rs) g_maximum.
Proof. reflexivity. Qed.
Theorem gen_float_minimum_eq : forall w st fm, sinv st -> root_wf (sabs st) -> (forall t, xroot st = Some t -> fm = theight (tabs t)) ->
  gopt_out idk (g_float_Minimum akey (mtr (KFloat w)) (mrs (KFloat w)) fm (xroot st)) = snd (step (KFloat w) (sabs st) Minimum).
Proof. intros w st fm Hs Hw Hf. rewrite float_minimum_text, gen_float_restoreKey_eq. apply (plain_minimum (KFloat w) eq_refl); assumption. Qed.
Theorem gen_float_maximum_eq : forall w st fm, sinv st -> root_wf (sabs st) -> (forall t, xroot st = Some t -> fm = theight (tabs t)) ->
  gopt_out idk (g_float_Maximum akey (mtr (KFloat w)) (mrs (KFloat w)) fm (xroot st)) = snd (step (KFloat w) (sabs st) Maximum).
Proof. intros w st fm Hs Hw Hf. rewrite float_maximum_text, gen_float_restoreKey_eq. apply (plain_maximum (KFloat w) eq_refl); assumption. Qed.
Theorem gen_float_size_eq : forall w K (tr : K -> list N * list N) rs st, gint_out (g_float_Size K tr rs (xsize st)) = snd (step (KFloat w) (sabs st) Size).
Proof. reflexivity. Qed.

(* ---- compoundSortedTree ---- *)
Theorem gen_compound_all_eq : forall k st fa ans, is_cmp k = true -> sinv st -> (forall t, xroot st = Some t -> fa = walk_fuel (tabs t)) ->
  kres_out idk (g_compound_All akey (mtr k) (mrs k) fa (xroot st) ans) = seq_out k (run_all (root (sabs st)) ans).
Proof. intros k st fa ans Hc Hs Hf. assert (Hpk : plain_kind k = true) by (destruct k; try discriminate; reflexivity). unfold g_compound_All. rewrite gen_compound_restoreKey_eq. apply (plain_all k Hpk); assumption. Qed.
Theorem gen_compound_backward_eq : forall k st fb ans, is_cmp k = true -> sinv st -> (forall t, xroot st = Some t -> fb = walk_fuel (tabs t)) ->
  kres_out idk (g_compound_Backward akey (mtr k) (mrs k) fb (xroot st) ans) = seq_out k (run_backward (root (sabs st)) ans).
Proof. intros k st fb ans Hc Hs Hf. assert (Hpk : plain_kind k = true) by (destruct k; try discriminate; reflexivity). unfold g_compound_Backward. rewrite gen_compound_restoreKey_eq. apply (plain_backward k Hpk); assumption. Qed.
Theorem gen_compound_topk_eq : forall k st fa fb n ans, is_cmp k = true -> sinv st -> n < 2 ^ 64 -> (forall t, xroot st = Some t -> fb = walk_fuel (tabs t)) ->
  kres_out idk (g_compound_TopK akey (mtr k) (mrs k) fa fb (xroot st) n ans) = seq_out k (run_bounded (run_backward (root (sabs st))) n ans).
Proof. intros k st fa fb n ans Hc Hs Hn Hf. assert (Hpk : plain_kind k = true) by (destruct k; try discriminate; reflexivity). unfold g_compound_TopK. rewrite gen_compound_restoreKey_eq. apply (plain_topk k Hpk); assumption. Qed.
Theorem gen_compound_bottomk_eq : forall k st fa fb n ans, is_cmp k = true -> sinv st -> n < 2 ^ 64 -> (forall t, xroot st = Some t -> fa = walk_fuel (tabs t)) ->
  kres_out idk (g_compound_BottomK akey (mtr k) (mrs k) fa fb (xroot st) n ans) = seq_out k (run_bounded (run_all (root (sabs st))) n ans).
Proof. intros k st fa fb n ans Hc Hs Hn Hf. assert (Hpk : plain_kind k = true) by (destruct k; try discriminate; reflexivity). unfold g_compound_BottomK. rewrite gen_compound_restoreKey_eq. apply (plain_bottomk k Hpk); assumption. Qed.
Lemma compound_minimum_text : forall K tr rs, g_compound_Minimum K tr rs = ref_extreme (g_compound_restoreKey K tr rs) g_minimum.
Proof. reflexivity. Qed.
Lemma compound_maximum_text : forall K tr rs, g_compound_Maximum K tr rs = ref_extreme (g_compound_restoreKey K tr rs) g_maximum.
Proof. reflexivity. Qed.
Theorem gen_compound_minimum_eq : forall k st fm, is_cmp k = true -> sinv st -> root_wf (sabs st) -> (forall t, xroot st = Some t -> fm = theight (tabs t)) ->
  gopt_out idk (g_compound_Minimum akey (mtr k) (mrs k) fm (xroot st)) = snd (step k (sabs st) Minimum).
Proof. intros k st fm Hc Hs Hw Hf. assert (Hpk : plain_kind k = true) by (destruct k; try discriminate; reflexivity). rewrite compound_minimum_text, gen_compound_restoreKey_eq. apply (plain_minimum k Hpk); assumption. Qed.
Theorem gen_compound_maximum_eq : forall k st fm, is_cmp k = true -> sinv st -> root_wf (sabs st) -> (forall t, xroot st = Some t -> fm = theight (tabs t)) ->
  gopt_out idk (g_compound_Maximum akey (mtr k) (mrs k) fm (xroot st)) = snd (step k (sabs st) Maximum).
Proof. intros k st fm Hc Hs Hw Hf. assert (Hpk : plain_kind k = true) by (destruct k; try discriminate; reflexivity). rewrite compound_maximum_text, gen_compound_restoreKey_eq. apply (plain_maximum k Hpk); assumption. Qed.
Theorem gen_compound_size_eq : forall k K (tr : K -> list N * list N) rs st, gint_out (g_compound_Size K tr rs (xsize st)) = snd (step k (sabs st) Size).
Proof. reflexivity. Qed.

(* ---- alphaSortedTree ---- *)
Theorem gen_alpha_all_eq : forall tr st fa ans, sinv st -> keys_ok nonempty_key st -> (forall t, xroot st = Some t -> fa = walk_fuel (tabs t)) ->
  kres_out AB (g_alpha_All tr alpha_rs fa (xroot st) ans) = seq_out KAlpha (run_all (root (sabs st)) ans).
Proof. intros tr st fa ans Hs Hk Hf. unfold g_alpha_All. rewrite (all_out AB idk KAlpha _ nonempty_key (alpha_restoreKey_ok tr) st fa ans Hs Hk Hf). apply out_keymap_id. Qed.
Theorem gen_alpha_backward_eq : forall tr st fb ans, sinv st -> keys_ok nonempty_key st -> (forall t, xroot st = Some t -> fb = walk_fuel (tabs t)) ->
  kres_out AB (g_alpha_Backward tr alpha_rs fb (xroot st) ans) = seq_out KAlpha (run_backward (root (sabs st)) ans).
Proof. intros tr st fb ans Hs Hk Hf. unfold g_alpha_Backward. rewrite (backward_out AB idk KAlpha _ nonempty_key (alpha_restoreKey_ok tr) st fb ans Hs Hk Hf). apply out_keymap_id. Qed.
Theorem gen_alpha_topk_eq : forall tr st fa fb n ans, sinv st -> keys_ok nonempty_key st -> n < 2 ^ 64 -> (forall t, xroot st = Some t -> fb = walk_fuel (tabs t)) ->
  kres_out AB (g_alpha_TopK tr alpha_rs fa fb (xroot st) n ans) = seq_out KAlpha (run_bounded (run_backward (root (sabs st))) n ans).
Proof. intros tr st fa fb n ans Hs Hk Hn Hf. unfold g_alpha_TopK. rewrite (topk_out AB idk KAlpha _ nonempty_key (alpha_restoreKey_ok tr) st fa fb n ans Hs Hk Hn Hf). apply out_keymap_id. Qed.
Theorem gen_alpha_bottomk_eq : forall tr st fa fb n ans, sinv st -> keys_ok nonempty_key st -> n < 2 ^ 64 -> (forall t, xroot st = Some t -> fa = walk_fuel (tabs t)) ->
  kres_out AB (g_alpha_BottomK tr alpha_rs fa fb (xroot st) n ans) = seq_out KAlpha (run_bounded (run_all (root (sabs st))) n ans).
Proof. intros tr st fa fb n ans Hs Hk Hn Hf. unfold g_alpha_BottomK. rewrite (bottomk_out AB idk KAlpha _ nonempty_key (alpha_restoreKey_ok tr) st fa fb n ans Hs Hk Hn Hf). apply out_keymap_id. Qed.
Lemma alpha_minimum_text : forall tr rs, g_alpha_Minimum tr rs = ref_extreme (g_alpha_restoreKey tr rs) g_minimum.
Proof. reflexivity. Qed.
Lemma alpha_maximum_text : forall tr rs, g_alpha_Maximum tr rs = ref_extreme (g_alpha_restoreKey tr rs) g_maximum.
Proof. reflexivity. Qed.
Theorem gen_alpha_minimum_eq : forall tr st fm, sinv st -> root_wf (sabs st) -> keys_ok nonempty_key st -> (forall t, xroot st = Some t -> fm = theight (tabs t)) ->
  gopt_out AB (g_alpha_Minimum tr alpha_rs fm (xroot st)) = snd (step KAlpha (sabs st) Minimum).
Proof. intros tr st fm Hs Hw Hk Hf. rewrite alpha_minimum_text. rewrite (minimum_out AB idk KAlpha _ nonempty_key (alpha_restoreKey_ok tr) st fm Hs Hw Hk Hf). apply out_keymap_id. Qed.
Theorem gen_alpha_maximum_eq : forall tr st fm, sinv st -> root_wf (sabs st) -> keys_ok nonempty_key st -> (forall t, xroot st = Some t -> fm = theight (tabs t)) ->
  gopt_out AB (g_alpha_Maximum tr alpha_rs fm (xroot st)) = snd (step KAlpha (sabs st) Maximum).
Proof. intros tr st fm Hs Hw Hk Hf. rewrite alpha_maximum_text. rewrite (maximum_out AB idk KAlpha _ nonempty_key (alpha_restoreKey_ok tr) st fm Hs Hw Hk Hf). apply out_keymap_id. Qed.
Theorem gen_alpha_size_eq : forall tr rs st, gint_out (g_alpha_Size tr rs (xsize st)) = snd (step KAlpha (sabs st) Size).
Proof. reflexivity. Qed.

(* ---- collationSortedTree ---- *)
Theorem gen_collation_all_eq : forall tr rs st fa ans, sinv st -> (forall t, xroot st = Some t -> fa = walk_fuel (tabs t)) ->
  kres_out AB (g_collation_All tr rs fa (xroot st) ans) = out_keymap forget_col (seq_out KCollation (run_all (root (sabs st)) ans)).
Proof. intros tr rs st fa ans Hs Hf. unfold g_collation_All. apply (all_out AB forget_col KCollation _ any_key (collation_restoreKey_ok tr rs) st fa ans Hs (keys_ok_any st) Hf). Qed.
Theorem gen_collation_backward_eq : forall tr rs st fb ans, sinv st -> (forall t, xroot st = Some t -> fb = walk_fuel (tabs t)) ->
  kres_out AB (g_collation_Backward tr rs fb (xroot st) ans) = out_keymap forget_col (seq_out KCollation (run_backward (root (sabs st)) ans)).
Proof. intros tr rs st fb ans Hs Hf. unfold g_collation_Backward. apply (backward_out AB forget_col KCollation _ any_key (collation_restoreKey_ok tr rs) st fb ans Hs (keys_ok_any st) Hf). Qed.
Theorem gen_collation_topk_eq : forall tr rs st fa fb n ans, sinv st -> n < 2 ^ 64 -> (forall t, xroot st = Some t -> fb = walk_fuel (tabs t)) ->
  kres_out AB (g_collation_TopK tr rs fa fb (xroot st) n ans) = out_keymap forget_col (seq_out KCollation (run_bounded (run_backward (root (sabs st))) n ans)).
Proof. intros tr rs st fa fb n ans Hs Hn Hf. unfold g_collation_TopK. apply (topk_out AB forget_col KCollation _ any_key (collation_restoreKey_ok tr rs) st fa fb n ans Hs (keys_ok_any st) Hn Hf). Qed.
Theorem gen_collation_bottomk_eq : forall tr rs st fa fb n ans, sinv st -> n < 2 ^ 64 -> (forall t, xroot st = Some t -> fa = walk_fuel (tabs t)) ->
  kres_out AB (g_collation_BottomK tr rs fa fb (xroot st) n ans) = out_keymap forget_col (seq_out KCollation (run_bounded (run_all (root (sabs st))) n ans)).
Proof. intros tr rs st fa fb n ans Hs Hn Hf. unfold g_collation_BottomK. apply (bottomk_out AB forget_col KCollation _ any_key (collation_restoreKey_ok tr rs) st fa fb n ans Hs (keys_ok_any st) Hn Hf). Qed.
Lemma collation_minimum_text : forall tr rs, g_collation_Minimum tr rs = ref_extreme (g_collation_restoreKey tr rs) g_minimum.
Proof. reflexivity. Qed.
Lemma collation_maximum_text : forall tr rs, g_collation_Maximum tr rs = ref_extreme (g_collation_restoreKey tr rs) g_maximum.
Proof. reflexivity. Qed.
Theorem gen_collation_minimum_eq : forall tr rs st fm, sinv st -> root_wf (sabs st) -> (forall t, xroot st = Some t -> fm = theight (tabs t)) ->
  gopt_out AB (g_collation_Minimum tr rs fm (xroot st)) = out_keymap forget_col (snd (step KCollation (sabs st) Minimum)).
Proof. intros tr rs st fm Hs Hw Hf. rewrite collation_minimum_text. apply (minimum_out AB forget_col KCollation _ any_key (collation_restoreKey_ok tr rs) st fm Hs Hw (keys_ok_any st) Hf). Qed.
Theorem gen_collation_maximum_eq : forall tr rs st fm, sinv st -> root_wf (sabs st) -> (forall t, xroot st = Some t -> fm = theight (tabs t)) ->
  gopt_out AB (g_collation_Maximum tr rs fm (xroot st)) = out_keymap forget_col (snd (step KCollation (sabs st) Maximum)).
Proof. intros tr rs st fm Hs Hw Hf. rewrite collation_maximum_text. apply (maximum_out AB forget_col KCollation _ any_key (collation_restoreKey_ok tr rs) st fm Hs Hw (keys_ok_any st) Hf). Qed.
Theorem gen_collation_size_eq : forall tr rs st, gint_out (g_collation_Size tr rs (xsize st)) = snd (step KCollation (sabs st) Size).
Proof. reflexivity. Qed.


(* the four instances without HasPrefix, one by one *)
Theorem gen_unsigned_prefix_eq : forall w K (tr : K -> list N * list N) rs inj st p p' ans,
  kres_out inj (g_unsigned_Prefix K tr rs p ans) = do_prefix (KUnsigned w) st p' ans.
Proof. reflexivity. Qed.
Theorem gen_signed_prefix_eq : forall w K (tr : K -> list N * list N) rs inj st p p' ans,
  kres_out inj (g_signed_Prefix K tr rs p ans) = do_prefix (KSigned w) st p' ans.
Proof. reflexivity. Qed.
Theorem gen_float_prefix_eq : forall w K (tr : K -> list N * list N) rs inj st p p' ans,
  kres_out inj (g_float_Prefix K tr rs p ans) = do_prefix (KFloat w) st p' ans.
Proof. reflexivity. Qed.
Theorem gen_compound_prefix_eq : forall k K (tr : K -> list N * list N) rs inj st p p' ans, is_cmp k = true ->
  kres_out inj (g_compound_Prefix K tr rs p ans) = do_prefix k st p' ans.
Proof. intros [|w|w|w| |s|enc dec] K tr rs inj st p p' ans H; try discriminate; reflexivity. Qed.

(* ================= 8. restoreKey against Api.restore, all six ================= *)
Theorem gen_restoreKey_model : forall gk tk v,
  (forall w, g_unsigned_restoreKey akey (mtr (KUnsigned w)) (mrs (KUnsigned w)) (Some (XLeaf gk tk v)) = GRet (restore_kv (KUnsigned w) (Leaf gk tk v))) /\
  (forall w, g_signed_restoreKey akey (mtr (KSigned w)) (mrs (KSigned w)) (Some (XLeaf gk tk v)) = GRet (restore_kv (KSigned w) (Leaf gk tk v))) /\
  (forall w, g_float_restoreKey akey (mtr (KFloat w)) (mrs (KFloat w)) (Some (XLeaf gk tk v)) = GRet (restore_kv (KFloat w) (Leaf gk tk v))) /\
  (forall k, is_cmp k = true -> g_compound_restoreKey akey (mtr k) (mrs k) (Some (XLeaf gk tk v)) = GRet (restore_kv k (Leaf gk tk v))) /\
  (forall tr, gk <> [] -> gres_map (fun kv => (AB (fst kv), snd kv)) (g_alpha_restoreKey tr alpha_rs (Some (XLeaf gk tk v))) =
                          GRet (restore_kv KAlpha (Leaf gk tk v))) /\
  (forall tr rs, gres_map (fun kv => (AB (fst kv), snd kv)) (g_collation_restoreKey tr rs (Some (XLeaf gk tk v))) =
                 GRet (forget_col (restore KCollation (Leaf gk tk v)), v)).
Proof.
  intros gk tk v. repeat split; try reflexivity.
  - intros [|w|w|w| |s|enc dec] H; try discriminate; reflexivity.
  - intros tr H. rewrite gen_alpha_restoreKey_eq by exact H. reflexivity.
Qed.

(* ================= 9. the hypotheses are satisfiable: every reachable state ================= *)
(* sinv and root_wf: TranslateTreeFacts.hyps_reachable.  The alpha tree stores keys that end with the terminator,
   in particular non-empty ones, when what was inserted were byte strings: *)
Theorem alpha_keys_reachable : forall ops, history_ok KAlpha ops = true ->
  (forall a v, In (Insert a v) ops -> exists l, a = AB l) ->
  keys_ok nonempty_key (fst (xalone KAlpha xinit ops)).
Proof.
  intros ops Hok Hab. unfold keys_ok. destruct (xroot (fst (xalone KAlpha xinit ops))) as [t|] eqn:Hr; [|exact I].
  destruct (xalone_sim ops KAlpha xinit I (wf_hist_history_ok KAlpha ops Hok)) as (_ & Hs & _).
  pose proof (rep_after KAlpha ops Hok) as [Hrep _]. unfold st_of in Hrep.
  change (sabs xinit) with Api.init in Hs. rewrite <- Hs, sabs_root, Hr in Hrep. destruct Hrep as [_ Hl].
  apply Forall_forall. intros l Hin. rewrite Hl in Hin.
  destruct (stored_from_history KAlpha ops l Hin) as (a & v & Ha & Et).
  destruct (Hab a v Ha) as (x & ->). cbn [transform] in Et. injection Et as Eg _.
  unfold nonempty_key. rewrite Eg. destruct x; discriminate.
Qed.
Theorem state_hyps_reachable : forall k ops, history_ok k ops = true ->
  sinv (fst (xalone k xinit ops)) /\ root_wf (sabs (fst (xalone k xinit ops))).
Proof.
  intros k ops Hok. unfold sinv, root_wf. rewrite sabs_root.
  destruct (xroot (fst (xalone k xinit ops))) as [t|] eqn:Hr; [|split; exact I].
  exact (hyps_reachable k ops t Hok Hr).
Qed.

(* on a reachable state of an alpha tree: Range, with the budgets of Model/Api.v *)
Corollary gen_alpha_range_reachable : forall ops tr a b ans fm fr, history_ok KAlpha ops = true ->
  (forall x v, In (Insert x v) ops -> exists l, x = AB l) ->
  let st := fst (xalone KAlpha xinit ops) in
  (forall t, xroot st = Some t -> fm = theight (tabs t) /\ fr = walk_fuel (tabs t)) ->
  kres_out AB (g_alpha_Range tr alpha_rs fm fr (xroot st) a b ans) = do_range KAlpha (sabs st) (AB a) (AB b) ans.
Proof.
  intros ops tr a b ans fm fr Hok Hab st Hf. destruct (state_hyps_reachable KAlpha ops Hok) as [Hs Hw].
  apply gen_alpha_range_eq; try assumption. apply alpha_keys_reachable; assumption.
Qed.

(* ================= 10. the translations run ================= *)
(* ex_tree (TranslateTreeFacts): an alpha tree, a node48 root with 17 children, one of them an inner node4 *)
Definition ex_st : xstate := fst (xalone KAlpha xinit ex_ops).
Definition id_tr : list N -> list N * list N := fun l => (l, l).
Definition kv (k : list N) (v : Z) : list N * Z := (k, v).
Example ex_alpha_runs :
  g_alpha_Range id_tr alpha_rs 10 100 (xroot ex_st) [5; 7] [] (fun _ => true) =
    KDone ByEnd 14 [kv [17] 17; kv [16] 16; kv [15] 15; kv [14] 14; kv [13] 13; kv [12] 12; kv [11] 11; kv [10] 10; kv [9] 9;
                    kv [8] 8; kv [7] 7; kv [6] 6; kv [5; 7; 2] 101; kv [5; 7; 1] 100] /\
  g_alpha_Range id_tr alpha_rs 10 100 (xroot ex_st) [7] [5; 7; 1; 1] (fun i => (i <? 1)%nat) =
    KDone ByReturn 2 [kv [6] 6; kv [5; 7; 2] 101] /\
  g_alpha_Range id_tr alpha_rs 10 100 None [7] [5] (fun _ => true) = KDone ByEnd 0 [] /\
  g_alpha_Prefix id_tr alpha_rs 100 100 10 (xroot ex_st) [5] (fun _ => true) =
    KDone ByEnd 3 [kv [5; 7; 2] 101; kv [5; 7; 1] 100; kv [5] 5] /\
  g_alpha_Prefix id_tr alpha_rs 100 100 10 (xroot ex_st) [] (fun i => (i <? 1)%nat) = KDone ByReturn 2 [kv [2] 2; kv [1] 1] /\
  g_alpha_Minimum id_tr alpha_rs 10 (xroot ex_st) = GRet (Some (kv [1] 1)) /\
  g_alpha_Maximum id_tr alpha_rs 10 (xroot ex_st) = GRet (Some (kv [17] 17)) /\
  g_alpha_Maximum id_tr alpha_rs 10 None = GRet None /\
  g_alpha_TopK id_tr alpha_rs 100 100 (xroot ex_st) 2 (fun _ => true) = KDone ByReturn 2 [kv [16] 16; kv [17] 17] /\
  g_alpha_BottomK id_tr alpha_rs 100 100 (xroot ex_st) 2 (fun _ => true) = KDone ByReturn 2 [kv [2] 2; kv [1] 1] /\
  g_alpha_Size id_tr alpha_rs (xsize ex_st) = GRet 19%Z /\
  g_alpha_restoreKey id_tr alpha_rs (Some (XLeaf [] [] 0)) = GPanic.
Proof. vm_compute. repeat split. Qed.
Example ex_alpha_hyps : sinv ex_st /\ root_wf (sabs ex_st) /\ keys_ok nonempty_key ex_st.
Proof.
  assert (Hok : history_ok KAlpha ex_ops = true) by (vm_compute; reflexivity).
  destruct (state_hyps_reachable KAlpha ex_ops Hok) as [Hs Hw]. split; [exact Hs|]. split; [exact Hw|].
  apply alpha_keys_reachable; [exact Hok|]. intros a v Hin. unfold ex_ops in Hin. apply in_app_or in Hin. destruct Hin as [Hin|Hin].
  - apply in_map_iff in Hin. destruct Hin as (i & E & _). injection E as <- _. eexists. reflexivity.
  - destruct Hin as [E|[E|[]]]; injection E as <- _; eexists; reflexivity.
Qed.

(* a tree of 16-bit unsigned keys: equal bounds go through the regenerated Search, the others through rangeScan *)
Definition ex_uops : list op := map (fun i => Insert (AU (N.of_nat (37 * i))) (Z.of_nat i)) (seq 1 20).
Definition ex_ust : xstate := fst (xalone (KUnsigned 2) xinit ex_uops).
Definition ukv (x : N) (v : Z) : akey * Z := (AU x, v).
Example ex_unsigned_runs :
  history_ok (KUnsigned 2) ex_uops = true /\
  g_unsigned_Range akey (mtr (KUnsigned 2)) (mrs (KUnsigned 2)) 4 100 (xroot ex_ust) (AU 74) (AU 74) (fun _ => true) =
    KDone ByEnd 1 [ukv 74 2] /\
  g_unsigned_Range akey (mtr (KUnsigned 2)) (mrs (KUnsigned 2)) 4 100 (xroot ex_ust) (AU 75) (AU 75) (fun _ => true) =
    KDone ByReturn 0 [] /\
  g_unsigned_Range akey (mtr (KUnsigned 2)) (mrs (KUnsigned 2)) 4 100 (xroot ex_ust) (AU 300) (AU 100) (fun _ => true) =
    KDone ByBreak 6 [ukv 296 8; ukv 259 7; ukv 222 6; ukv 185 5; ukv 148 4; ukv 111 3] /\
  g_unsigned_Maximum akey (mtr (KUnsigned 2)) (mrs (KUnsigned 2)) 4 (xroot ex_ust) = GRet (Some (ukv 740 20)) /\
  g_unsigned_Prefix akey (mtr (KUnsigned 2)) (mrs (KUnsigned 2)) (AU 1) (fun _ => true) = KPanic.
Proof. vm_compute. repeat split. Qed.

Print Assumptions gen_alpha_range_eq.
Print Assumptions gen_float_range_eq.
Print Assumptions gen_compound_range_eq.
Print Assumptions gen_collation_range_eq.
Print Assumptions gen_alpha_prefix_eq.
Print Assumptions gen_collation_prefix_eq.
Print Assumptions gen_unsigned_maximum_eq.
Print Assumptions gen_alpha_topk_eq.
