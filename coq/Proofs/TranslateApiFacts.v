(* The REGENERATED thin public methods of the six trees (Gen/ApiGen.v, written by go/cmd/srcfacts/translate_api.go
   from the ASTs of /repo's trees.go and collation.go on every run) ARE the model of the public interface,
   Model/Api.v, on the raw states of Model/PoolTree.v read through sabs / tabs:

     g_X_restoreKey                   = Api.restore (+ the value)            on a leaf (alpha: with a non-empty key)
     g_X_Size                         = the Size case of Api.step
     g_X_Minimum, g_X_Maximum         = the Minimum / Maximum cases of Api.step (opt_min / opt_max + restore)
     g_X_All, g_X_Backward            = seq_out (run_all / run_backward)
     g_X_TopK, g_X_BottomK            = seq_out (run_bounded (run_backward / run_all))          (k a Go uint)
     g_X_Prefix                       = Api.do_prefix (alpha, collation); panic("") = OPanic for the other kinds
     g_X_Range                        = Api.do_range: empty tree, open end, swap, and for the numeric kinds the
                                        equal-bounds lookup through the regenerated Search

   for X = alpha, unsigned, signed, float, compound, collation, when the codec parameters tr / rs are the model's
   transform / restore of that kind (see "the codecs" below), on the domain of the invariants (sinv st: xtwf of
   the root; root_wf (sabs st): WF 0 of its abstraction; both hold after every admissible history:
   TranslateTreeFacts.hyps_reachable) and with the budgets Model/Api.v gives the scans.

   A translated sequence returns kres K (Gen/ApiGen.v): what the consumer was called with.  kres_out reads it as
   the out of Model/Api.v exactly as Api.seq_out reads a wres: the pairs in the order of the calls, the number of
   calls; ByFuel is OFuel; KPanic is OPanic; KFuel (an inner budget of the translator) is OFuel.  The five
   template instances are proved through ONE generic statement per template branch (Sections NumRange,
   PlainRange, ...): each regenerated definition is first shown to BE the generic text instantiated with its own
   regenerated restoreKey / Search (by reflexivity: an edit of one template branch breaks that one step). *)
From GoArt Require Import Base.Bytes Model.Node4 Model.Node16 Model.Node Model.Tree Model.Iter Model.Api
  Spec.NodeSpec Spec.TreeSpec Spec.IterSpec Proofs.BytesFacts Proofs.Node4Facts Proofs.NodeFacts Proofs.TreeBasics Proofs.NodeAux48
  Proofs.NodeAuxAssoc Proofs.NodeAuxArr Proofs.InsertFacts Proofs.IterFacts Spec.Ideal Proofs.PropFacts Proofs.TranslateFacts.
From GoArt Require Import Proofs.RangeFacts Proofs.ApiFacts Model.Pool Proofs.PoolFacts Model.PoolTree Proofs.PoolTreeFacts.
From GoArt Require Import Model.GoArith Model.GoTree Gen.Node4Gen Gen.Node16Gen Gen.TreeGen Proofs.TranslateTreeFacts
  Gen.IterGen Proofs.TranslateIterFacts Gen.ApiGen.
From GoArt Require Export Proofs.TranslateApiBase Proofs.TranslateApiRange Proofs.TranslateApiPrefix Proofs.TranslateApiWrap.
From Coq Require Import ZifyN ZifyNat ZifyBool.
Ltac Zify.zify_post_hook ::= Z.div_mod_to_equations.
Open Scope N_scope.

(* ================= 8. restoreKey against Api.restore, all six ================= *)
Theorem gen_restoreKey_model : forall gk tk v,
  (forall w, g_unsigned_restoreKey akey (mtr (KUnsigned w)) (mrs (KUnsigned w)) (Some (XLeaf gk tk v)) = GRet (restore_kv (KUnsigned w) (Leaf gk tk v))) /\
  (forall w, g_signed_restoreKey akey (mtr (KSigned w)) (mrs (KSigned w)) (Some (XLeaf gk tk v)) = GRet (restore_kv (KSigned w) (Leaf gk tk v))) /\
  (forall w, g_float_restoreKey akey (mtr (KFloat w)) (mrs (KFloat w)) (Some (XLeaf gk tk v)) = GRet (restore_kv (KFloat w) (Leaf gk tk v))) /\
  (forall k, is_cmp k = true -> g_compound_restoreKey akey (mtr k) (mrs k) (Some (XLeaf gk tk v)) = GRet (restore_kv k (Leaf gk tk v))) /\
  (forall tr, gk <> [] -> gres_map (fun kv => (AB (fst kv), snd kv)) (g_alpha_restoreKey tr alpha_rs (Some (XLeaf gk tk v))) =
                          GRet (restore_kv KAlpha (Leaf gk tk v))) /\
  (forall tr rs, gres_map (fun kv => (AB (fst kv), snd kv)) (g_collation_restoreKey tr rs (Some (XLeaf gk tk v))) =
                 GRet (forget_col (restore KCollation (Leaf gk tk v)), v)).
Proof.
  intros gk tk v. repeat split; try reflexivity.
  - intros [|w|w|w| |s|enc dec] H; try discriminate; reflexivity.
  - intros tr H. rewrite gen_alpha_restoreKey_eq by exact H. reflexivity.
Qed.

(* ================= 9. the hypotheses are satisfiable: every reachable state ================= *)
(* sinv and root_wf: TranslateTreeFacts.hyps_reachable.  The alpha tree stores keys that end with the terminator,
   in particular non-empty ones, when what was inserted were byte strings: *)
Theorem alpha_keys_reachable : forall ops, history_ok KAlpha ops = true ->
  (forall a v, In (Insert a v) ops -> exists l, a = AB l) ->
  keys_ok nonempty_key (fst (xalone KAlpha xinit ops)).
Proof.
  intros ops Hok Hab. unfold keys_ok. destruct (xroot (fst (xalone KAlpha xinit ops))) as [t|] eqn:Hr; [|exact I].
  destruct (xalone_sim ops KAlpha xinit I (wf_hist_history_ok KAlpha ops Hok)) as (_ & Hs & _).
  pose proof (rep_after KAlpha ops Hok) as [Hrep _]. unfold st_of in Hrep.
  change (sabs xinit) with Api.init in Hs. rewrite <- Hs, sabs_root, Hr in Hrep. destruct Hrep as [_ Hl].
  apply Forall_forall. intros l Hin. rewrite Hl in Hin.
  destruct (stored_from_history KAlpha ops l Hin) as (a & v & Ha & Et).
  destruct (Hab a v Ha) as (x & ->). cbn [transform] in Et. injection Et as Eg _.
  unfold nonempty_key. rewrite Eg. destruct x; discriminate.
Qed.
Theorem state_hyps_reachable : forall k ops, history_ok k ops = true ->
  sinv (fst (xalone k xinit ops)) /\ root_wf (sabs (fst (xalone k xinit ops))).
Proof.
  intros k ops Hok. unfold sinv, root_wf. rewrite sabs_root.
  destruct (xroot (fst (xalone k xinit ops))) as [t|] eqn:Hr; [|split; exact I].
  exact (hyps_reachable k ops t Hok Hr).
Qed.

(* on a reachable state of an alpha tree: Range, with the budgets of Model/Api.v *)
Corollary gen_alpha_range_reachable : forall ops tr a b ans fm fr, history_ok KAlpha ops = true ->
  (forall x v, In (Insert x v) ops -> exists l, x = AB l) ->
  let st := fst (xalone KAlpha xinit ops) in
  (forall t, xroot st = Some t -> fm = theight (tabs t) /\ fr = walk_fuel (tabs t)) ->
  kres_out AB (g_alpha_Range tr alpha_rs fm fr (xroot st) a b ans) = do_range KAlpha (sabs st) (AB a) (AB b) ans.
Proof.
  intros ops tr a b ans fm fr Hok Hab st Hf. destruct (state_hyps_reachable KAlpha ops Hok) as [Hs Hw].
  apply gen_alpha_range_eq; try assumption. apply alpha_keys_reachable; assumption.
Qed.

(* ================= 10. the translations run ================= *)
(* ex_tree (TranslateTreeFacts): an alpha tree, a node48 root with 17 children, one of them an inner node4 *)
Definition ex_st : xstate := fst (xalone KAlpha xinit ex_ops).
Definition id_tr : list N -> list N * list N := fun l => (l, l).
Definition kv (k : list N) (v : Z) : list N * Z := (k, v).
Example ex_alpha_runs :
  g_alpha_Range id_tr alpha_rs 10 100 (xroot ex_st) [5; 7] [] (fun _ => true) =
    KDone ByEnd 14 [kv [17] 17; kv [16] 16; kv [15] 15; kv [14] 14; kv [13] 13; kv [12] 12; kv [11] 11; kv [10] 10; kv [9] 9;
                    kv [8] 8; kv [7] 7; kv [6] 6; kv [5; 7; 2] 101; kv [5; 7; 1] 100] /\
  g_alpha_Range id_tr alpha_rs 10 100 (xroot ex_st) [7] [5; 7; 1; 1] (fun i => (i <? 1)%nat) =
    KDone ByReturn 2 [kv [6] 6; kv [5; 7; 2] 101] /\
  g_alpha_Range id_tr alpha_rs 10 100 None [7] [5] (fun _ => true) = KDone ByEnd 0 [] /\
  g_alpha_Prefix id_tr alpha_rs 100 100 10 (xroot ex_st) [5] (fun _ => true) =
    KDone ByEnd 3 [kv [5; 7; 2] 101; kv [5; 7; 1] 100; kv [5] 5] /\
  g_alpha_Prefix id_tr alpha_rs 100 100 10 (xroot ex_st) [] (fun i => (i <? 1)%nat) = KDone ByReturn 2 [kv [2] 2; kv [1] 1] /\
  g_alpha_Minimum id_tr alpha_rs 10 (xroot ex_st) = GRet (Some (kv [1] 1)) /\
  g_alpha_Maximum id_tr alpha_rs 10 (xroot ex_st) = GRet (Some (kv [17] 17)) /\
  g_alpha_Maximum id_tr alpha_rs 10 None = GRet None /\
  g_alpha_TopK id_tr alpha_rs 100 100 (xroot ex_st) 2 (fun _ => true) = KDone ByReturn 2 [kv [16] 16; kv [17] 17] /\
  g_alpha_BottomK id_tr alpha_rs 100 100 (xroot ex_st) 2 (fun _ => true) = KDone ByReturn 2 [kv [2] 2; kv [1] 1] /\
  g_alpha_Size id_tr alpha_rs (xsize ex_st) = GRet 19%Z /\
  g_alpha_restoreKey id_tr alpha_rs (Some (XLeaf [] [] 0)) = GPanic.
Proof. vm_compute. repeat split. Qed.
Example ex_alpha_hyps : sinv ex_st /\ root_wf (sabs ex_st) /\ keys_ok nonempty_key ex_st.
Proof.
  assert (Hok : history_ok KAlpha ex_ops = true) by (vm_compute; reflexivity).
  destruct (state_hyps_reachable KAlpha ex_ops Hok) as [Hs Hw]. split; [exact Hs|]. split; [exact Hw|].
  apply alpha_keys_reachable; [exact Hok|]. intros a v Hin. unfold ex_ops in Hin. apply in_app_or in Hin. destruct Hin as [Hin|Hin].
  - apply in_map_iff in Hin. destruct Hin as (i & E & _). injection E as <- _. eexists. reflexivity.
  - destruct Hin as [E|[E|[]]]; injection E as <- _; eexists; reflexivity.
Qed.

(* a tree of 16-bit unsigned keys: equal bounds go through the regenerated Search, the others through rangeScan *)
Definition ex_uops : list op := map (fun i => Insert (AU (N.of_nat (37 * i))) (Z.of_nat i)) (seq 1 20).
Definition ex_ust : xstate := fst (xalone (KUnsigned 2) xinit ex_uops).
Definition ukv (x : N) (v : Z) : akey * Z := (AU x, v).
Example ex_unsigned_runs :
  history_ok (KUnsigned 2) ex_uops = true /\
  g_unsigned_Range akey (mtr (KUnsigned 2)) (mrs (KUnsigned 2)) 4 100 (xroot ex_ust) (AU 74) (AU 74) (fun _ => true) =
    KDone ByEnd 1 [ukv 74 2] /\
  g_unsigned_Range akey (mtr (KUnsigned 2)) (mrs (KUnsigned 2)) 4 100 (xroot ex_ust) (AU 75) (AU 75) (fun _ => true) =
    KDone ByReturn 0 [] /\
  g_unsigned_Range akey (mtr (KUnsigned 2)) (mrs (KUnsigned 2)) 4 100 (xroot ex_ust) (AU 300) (AU 100) (fun _ => true) =
    KDone ByBreak 6 [ukv 296 8; ukv 259 7; ukv 222 6; ukv 185 5; ukv 148 4; ukv 111 3] /\
  g_unsigned_Maximum akey (mtr (KUnsigned 2)) (mrs (KUnsigned 2)) 4 (xroot ex_ust) = GRet (Some (ukv 740 20)) /\
  g_unsigned_Prefix akey (mtr (KUnsigned 2)) (mrs (KUnsigned 2)) (AU 1) (fun _ => true) = KPanic.
Proof. vm_compute. repeat split. Qed.

Print Assumptions gen_alpha_range_eq.
Print Assumptions gen_float_range_eq.
Print Assumptions gen_compound_range_eq.
Print Assumptions gen_collation_range_eq.
Print Assumptions gen_alpha_prefix_eq.
Print Assumptions gen_collation_prefix_eq.
Print Assumptions gen_unsigned_maximum_eq.
Print Assumptions gen_alpha_topk_eq.

