(* The REGENERATED translations of /repo's node4.go and node16_other.go
   (Gen/Node4Gen.v, Gen/Node16Gen.v, written by go/cmd/srcfacts/translate.go on
   every run) ARE the hand-written models Model/Node4.v and Model/Node16.v.

   The proofs are deliberately syntactic: unfold both sides, remove the few
   places where the shapes differ (an int position / shift count is a Z in the
   translation and an N in the model; searchNode4's final `- 1` is a uint32
   subtraction in Go and a Z subtraction in the model; node16_other.go computes
   its bit field in int with a loop, the model in N by recursion) with the small
   lemmas below, and close with reflexivity. An edit of the Go text that changes
   an operator, an operand or a constant therefore breaks the theorem of the
   edited routine; renaming a local variable does not.

   int is unbounded in the translation (Model/GoArith.v). The hypotheses
   pos < 4 and len <= 16 are the node4 / node16 invariants; under them every int
   value is below 2^17, so the statements hold for the 64-bit and the 32-bit int. *)
From GoArt Require Import Base.Bytes Model.Node4 Model.Node16 Model.GoArith
  Gen.Node4Gen Gen.Node16Gen Proofs.WordFacts.
From Coq Require Import ZifyN ZifyNat ZifyBool.
Ltac Zify.zify_post_hook ::= Z.div_mod_to_equations.
Open Scope N_scope.

(* ------------------------------------------------------------------ *)
(* N operations seen through Z.of_N                                     *)
(* ------------------------------------------------------------------ *)
Lemma of_N_shiftl : forall a n, Z.of_N (N.shiftl a n) = Z.shiftl (Z.of_N a) (Z.of_N n).
Proof.
  intros a n. rewrite N.shiftl_mul_pow2, Z.shiftl_mul_pow2 by apply N2Z.is_nonneg.
  rewrite N2Z.inj_mul, N2Z.inj_pow. reflexivity.
Qed.

Lemma of_N_shiftr : forall a n, Z.of_N (N.shiftr a n) = Z.shiftr (Z.of_N a) (Z.of_N n).
Proof.
  intros a n. rewrite N.shiftr_div_pow2, Z.shiftr_div_pow2 by apply N2Z.is_nonneg.
  rewrite N2Z.inj_div, N2Z.inj_pow. reflexivity.
Qed.

Lemma of_N_land : forall a b, Z.of_N (N.land a b) = Z.land (Z.of_N a) (Z.of_N b).
Proof. intros [|p] [|q]; reflexivity. Qed.

Lemma of_N_lor : forall a b, Z.of_N (N.lor a b) = Z.lor (Z.of_N a) (Z.of_N b).
Proof. intros [|p] [|q]; reflexivity. Qed.

Lemma of_N_eqb0 : forall x, Z.eqb (Z.of_N x) 0 = (x =? 0).
Proof. intros [|p]; reflexivity. Qed.

(* the shift count `pos << 3` of an int position *)
Lemma count_of_pos : forall pos, Z.to_N (Z.shiftl (Z.of_N pos) 3) = N.shiftl pos 3.
Proof. intros pos. change 3%Z with (Z.of_N 3). rewrite <- of_N_shiftl. apply N2Z.id. Qed.

Lemma land_lt_r : forall a b n, b < 2 ^ n -> N.land a b < 2 ^ n.
Proof.
  intros a b n H. rewrite <- (N.mod_small b (2 ^ n)) by exact H.
  rewrite <- N.land_ones, N.land_assoc, N.land_ones.
  apply N.mod_lt. apply N.pow_nonzero. discriminate.
Qed.

Lemma land_mod32 : forall x m, m < M32 -> N.land x m = N.land (x mod M32) m.
Proof.
  intros x m H. change M32 with (2 ^ 32) in *. rewrite <- N.land_ones, <- N.land_assoc.
  f_equal. rewrite N.land_comm, N.land_ones. symmetry. apply N.mod_small. exact H.
Qed.

(* ------------------------------------------------------------------ *)
(* the package constants                                                *)
(* ------------------------------------------------------------------ *)
Theorem gen_lo7BitsMask_eq : g_lo7BitsMask = lo7BitsMask.
Proof. reflexivity. Qed.

Theorem gen_hiBitMask_eq : g_hiBitMask = hiBitMask.
Proof. reflexivity. Qed.

(* ------------------------------------------------------------------ *)
(* node4.go                                                             *)
(* ------------------------------------------------------------------ *)

(* searchNode4 returns int(w - 1) with w - 1 computed in uint32; the model
   subtracts in Z. They agree because a non-zero match word (flags only at the
   lane tops) always gives w >= 1: sixteen cases. *)
Lemma flag_lane : forall a, a < 256 -> N.land a 128 = 0 \/ N.land a 128 = 128.
Proof.
  intros a Ha.
  assert (H : (N.land a 128 =? 0) || (N.land a 128 =? 128) = true).
  { apply (all1_spec (fun a => (N.land a 128 =? 0) || (N.land a 128 =? 128)));
      [vm_compute; reflexivity | assumption]. }
  apply orb_true_iff in H. destruct H as [H | H]; apply N.eqb_eq in H; auto.
Qed.

Lemma srch_tail_wrap : forall x,
  (N.land x 0x80808080 =? 0) = false ->
  Z.of_N (sub32 (shr32 (mul32 (N.land (sub32 (N.land x 0x80808080) 1) 0x1010101) 0x1010101) 24) 1) =
  (Z.of_N (shr32 (mul32 (N.land (sub32 (N.land x 0x80808080) 1) 0x1010101) 0x1010101) 24) - 1)%Z.
Proof.
  intros x. rewrite (land_mod32 x) by (vm_compute; reflexivity).
  destruct (unpack (x mod M32)) as (a & b & c & d & Ha & Hb & Hc & Hd & E).
  { apply N.mod_lt. discriminate. }
  rewrite E. change 0x80808080 with (pack 128 128 128 128).
  rewrite land_pack by bytes.
  destruct (flag_lane a Ha) as [-> | ->]; destruct (flag_lane b Hb) as [-> | ->];
  destruct (flag_lane c Hc) as [-> | ->]; destruct (flag_lane d Hd) as [-> | ->];
  vm_compute; solve [ reflexivity | discriminate ].
Qed.

Theorem gen_searchNode4_eq : forall keys b, keys < M32 -> b < 256 ->
  g_searchNode4 keys b = searchNode4 keys b.
Proof.
  intros keys b _ _. unfold g_searchNode4, searchNode4. cbv zeta.
  change ones01 with 0x1010101. change hiBitMask with 0x80808080.
  set (x := N.land (sub32 (N.lxor keys (mul32 0x1010101 b)) 0x1010101) (not32 (N.lxor keys (mul32 0x1010101 b)))).
  destruct (N.land x 0x80808080 =? 0) eqn:E; [reflexivity|].
  apply srch_tail_wrap. exact E.
Qed.

Theorem gen_insertPosNode4_eq : forall keys b, keys < M32 -> b < 256 ->
  g_insertPosNode4 keys b = insertPosNode4 keys b.
Proof.
  intros keys b _ _. unfold g_insertPosNode4, insertPosNode4. cbv zeta.
  change 3%Z with (Z.of_N 3). rewrite <- of_N_shiftr. reflexivity.
Qed.

(* the int position is a Z in the translation: it is instantiated with Z.of_N pos *)
Theorem gen_getAtPos_eq : forall keys pos, keys < M32 -> pos < 4 ->
  g_getAtPos keys (Z.of_N pos) = getAtPos keys pos.
Proof.
  intros keys pos _ _. unfold g_getAtPos, getAtPos. rewrite count_of_pos. reflexivity.
Qed.

Theorem gen_setAtPos_eq : forall keys pos b, keys < M32 -> pos < 4 -> b < 256 ->
  g_setAtPos keys (Z.of_N pos) b = setAtPos keys pos b.
Proof.
  intros keys pos b _ _ _. unfold g_setAtPos, setAtPos. cbv zeta. rewrite count_of_pos. reflexivity.
Qed.

Theorem gen_shiftLeftClear_eq : forall keys pos, keys < M32 -> pos < 4 ->
  g_shiftLeftClear keys (Z.of_N pos) = shiftLeftClear keys pos.
Proof.
  intros keys pos _ _. unfold g_shiftLeftClear, shiftLeftClear. cbv zeta. rewrite count_of_pos. reflexivity.
Qed.

Theorem gen_shiftRightClear_eq : forall keys pos, keys < M32 -> pos < 4 ->
  g_shiftRightClear keys (Z.of_N pos) = shiftRightClear keys pos.
Proof.
  intros keys pos _ _. unfold g_shiftRightClear, shiftRightClear. cbv zeta. rewrite count_of_pos. reflexivity.
Qed.

(* the same four statements with the position as the Go int it is *)
Corollary gen_pos_routines_int : forall keys (pos : Z) b, keys < M32 -> (0 <= pos < 4)%Z -> b < 256 ->
  g_getAtPos keys pos = getAtPos keys (Z.to_N pos) /\
  g_setAtPos keys pos b = setAtPos keys (Z.to_N pos) b /\
  g_shiftLeftClear keys pos = shiftLeftClear keys (Z.to_N pos) /\
  g_shiftRightClear keys pos = shiftRightClear keys (Z.to_N pos).
Proof.
  intros keys pos b Hk Hp Hb.
  assert (Hn : Z.to_N pos < 4) by lia.
  rewrite <- (Z2N.id pos) at 1 3 5 7 by lia.
  repeat split.
  - apply gen_getAtPos_eq; assumption.
  - apply gen_setAtPos_eq; assumption.
  - apply gen_shiftLeftClear_eq; assumption.
  - apply gen_shiftRightClear_eq; assumption.
Qed.

Theorem gen_construct_eq : forall a b c d, a < 256 -> b < 256 -> c < 256 -> d < 256 ->
  g_construct a b c d = construct a b c d.
Proof. reflexivity. Qed.

Theorem gen_deconstruct_eq : forall keys, keys < M32 -> g_deconstruct keys = deconstruct keys.
Proof. reflexivity. Qed.

(* ------------------------------------------------------------------ *)
(* node16_other.go                                                      *)
(* ------------------------------------------------------------------ *)

(* the loop `for i := range n { if f(keys[i]) { bitfield |= 1 << i } }` in int
   is the model's recursive bitfield in N *)
Lemma fold_bitfield : forall (f : N -> bool) (keys ks : list N) (s : nat) (acc : Z),
  (forall j, (j < length ks)%nat -> nth (s + j) keys 0 = nth j ks 0) ->
  fold_left (fun (a : Z) (i : nat) =>
               if f (nth (Z.to_nat (Z.of_nat i)) keys 0) then Z.lor a (Z.shiftl 1 (Z.of_nat i)) else a)
            (seq s (length ks)) acc
  = Z.lor acc (Z.of_N (bitfield f ks (N.of_nat s))).
Proof.
  intros f keys ks. induction ks as [|k ks IH]; intros s acc H; cbn [length seq fold_left bitfield].
  - rewrite Z.lor_0_r. reflexivity.
  - rewrite Nat2Z.id.
    pose proof (H 0%nat ltac:(cbn [length]; lia)) as H0. rewrite Nat.add_0_r in H0. cbn [nth] in H0.
    rewrite H0. rewrite IH.
    2:{ intros j Hj. pose proof (H (S j) ltac:(cbn [length]; lia)) as HS. cbn [nth] in HS.
        rewrite <- HS. f_equal. lia. }
    rewrite Nat2N.inj_succ, <- N.add_1_r, of_N_lor.
    destruct (f k).
    + rewrite of_N_shiftl, nat_N_Z. change (Z.of_N 1) with 1%Z. rewrite Z.lor_assoc. reflexivity.
    + change (Z.of_N 0) with 0%Z. rewrite Z.lor_0_l. reflexivity.
Qed.

Lemma mask_of_len : forall len, (Z.shiftl 1 (Z.of_N len) - 1)%Z = Z.of_N (lanemask len).
Proof.
  intros len. unfold lanemask. rewrite N2Z.inj_sub, of_N_shiftl; [reflexivity|].
  rewrite N.shiftl_1_l. pose proof (N.pow_nonzero 2 len ltac:(discriminate)). lia.
Qed.

Lemma lanemask_lt : forall len, len <= 16 -> lanemask len < 2 ^ 64.
Proof.
  intros len H. unfold lanemask. rewrite N.shiftl_1_l.
  pose proof (N.pow_le_mono_r 2 len 16 ltac:(discriminate) H) as P.
  change (2 ^ 16) with 65536 in P. change (2 ^ 64) with 18446744073709551616. lia.
Qed.

(* what both node16 routines do after the loop, for any bit field bf computed in N *)
Lemma node16_tail : forall bf len, len <= 16 ->
  (let bitfield := Z.land (Z.lor 0 (Z.of_N bf)) (Z.shiftl 1 (Z.of_N len) - 1) in
   if Z.eqb bitfield 0 then (-1)%Z else Z.of_N (tz_uint (uint_of_int bitfield))) =
  (let r := N.land bf (lanemask len) in if r =? 0 then (-1)%Z else Z.of_N (tz r)).
Proof.
  intros bf len Hl. cbv zeta. rewrite Z.lor_0_l, mask_of_len, <- of_N_land, of_N_eqb0.
  pose proof (land_lt_r bf (lanemask len) 64 (lanemask_lt len Hl)) as B.
  set (r := N.land bf (lanemask len)) in *.
  destruct (r =? 0) eqn:E; [reflexivity|].
  unfold uint_of_int. rewrite Z.mod_small, N2Z.id.
  - destruct r; [discriminate E | reflexivity].
  - change (2 ^ 64) with 18446744073709551616 in B. lia.
Qed.

Theorem gen_searchNode16_eq : forall keys len b,
  length keys = 16%nat -> Forall (fun x => x < 256) keys -> b < 256 -> len <= 16 ->
  g_searchNode16 keys len b = searchNode16 keys len b.
Proof.
  intros keys len b Hlen _ _ Hl. unfold g_searchNode16, searchNode16. cbv zeta.
  rewrite <- Hlen, firstn_all.
  pose proof (fold_bitfield (fun k => k =? b) keys keys 0 0%Z (fun j _ => eq_refl)) as E.
  cbv beta in E. rewrite E. apply node16_tail. exact Hl.
Qed.

Theorem gen_insertPosNode16_eq : forall keys len b,
  length keys = 16%nat -> Forall (fun x => x < 256) keys -> b < 256 -> len <= 16 ->
  g_insertPosNode16 keys len b = insertPosNode16 keys len b.
Proof.
  intros keys len b Hlen _ _ Hl. unfold g_insertPosNode16, insertPosNode16. cbv zeta.
  rewrite <- Hlen, firstn_all.
  pose proof (fold_bitfield (fun k => b <? k) keys keys 0 0%Z (fun j _ => eq_refl)) as E.
  cbv beta in E. rewrite E. apply node16_tail. exact Hl.
Qed.
