(* Helper lemmas for Proofs/NodeFacts.v, part 6: node48 / node256 at the node
   level: add (with growth 16 -> 48 and 48 -> 256), delete (with the shrinks
   48 -> 16 and 256 -> 48), replace. *)
From GoArt Require Import Base.Bytes Model.Node4 Model.Node16 Model.Node Spec.NodeSpec
  Proofs.NodeAuxAssoc Proofs.NodeAuxList Proofs.NodeAuxArr Proofs.NodeAux48.
From Coq Require Import ZifyN ZifyNat ZifyBool.
Ltac Zify.zify_post_hook ::= Z.div_mod_to_equations.
Open Scope N_scope.
Local Opaque maxNode4 maxNode16 maxNode48 shrink16 shrink48 shrink256 maxPrefixLen.

Lemma fold_idx : forall (ks : list N) s init,
  length init = 256%nat -> NoDup ks -> Forall (fun x => x < 256) ks -> (s + length ks <= 255)%nat ->
  let idx := fold_left (fun idx (ik : nat * N) => set_at (N.to_nat (snd ik)) (u8 (N.of_nat (fst ik) + 1)) idx)
                       (combine (seq s (length ks)) ks) init in
  length idx = 256%nat /\
  (forall i, (i < length ks)%nat -> nth (N.to_nat (nth i ks 0)) idx 0 = N.of_nat (s + i) + 1) /\
  (forall x : nat, ~ In (N.of_nat x) ks -> nth x idx 0 = nth x init 0).
Proof.
  induction ks as [|k ks IH]; intros s init Hi HND HF Hs; cbv zeta.
  - cbn [length seq combine fold_left]. split; [exact Hi|]. split; [intros; lia|]. reflexivity.
  - cbn [length seq combine fold_left fst snd].
    inversion HND as [|? ? Hnotin HND']; subst.
    pose proof (Forall_inv HF) as Hk. pose proof (Forall_inv_tail HF) as HF'.
    cbn beta in Hk. cbn [length] in Hs.
    destruct (IH (S s) (set_at (N.to_nat k) (u8 (N.of_nat s + 1)) init)) as (L1 & L2 & L3);
      [rewrite length_set_at; exact Hi|exact HND'|exact HF'|lia|].
    cbv zeta in L1, L2, L3.
    split; [exact L1|]. split.
    + intros i Hi'. destruct i.
      * cbn [nth]. rewrite L3. 2:{ rewrite N2Nat.id. exact Hnotin. }
        rewrite nth_set_at_eq by lia. unfold u8. lia.
      * cbn [nth]. rewrite L2 by lia. lia.
    + intros x Hx. rewrite L3. 2:{ intros Hin. apply Hx. right. exact Hin. }
      apply nth_set_at_ne. intros E. apply Hx. left. lia.
Qed.

Section N48b.
Context {C : Type}.
Implicit Types (b k : N) (c : C) (idx : list N) (slots : list (option C)) (h : hdr).

Lemma build48 : forall (ks : list N) (cs : list C),
  length ks = length cs -> (length ks <= 48)%nat -> StronglySorted N.lt ks ->
  Forall (fun x => x < 256) ks ->
  let idx := fold_left (fun idx (ik : nat * N) => set_at (N.to_nat (snd ik)) (u8 (N.of_nat (fst ik) + 1)) idx)
                       (combine (seq 0 (length ks)) ks) (repeat 0 256%nat) in
  let slots := map Some cs ++ repeat None (48 - length cs) in
  wf48 idx slots /\ enum_idx idx slots 0 = combine ks cs.
Proof.
  intros ks cs HL H48 HS HF. cbv zeta.
  destruct (fold_idx ks 0 (repeat 0 256%nat)) as (L1 & L2 & L3);
    [apply repeat_length|apply ssorted_nodup; exact HS|exact HF|lia|].
  cbv zeta in L1, L2, L3.
  set (idx := fold_left _ _ _) in *. set (slots := _ ++ _).
  assert (L3' : forall x : nat, ~ In (N.of_nat x) ks -> nth x idx 0 = 0).
  { intros x Hx. rewrite L3 by exact Hx. apply nth_repeat. }
  assert (L2' : forall i, (i < length ks)%nat -> nth (N.to_nat (nth i ks 0)) idx 0 = N.of_nat i + 1).
  { intros i Hi. rewrite L2 by exact Hi. lia. }
  assert (Hslot : forall i, (i < length cs)%nat ->
            exists c, nth_error cs i = Some c /\ nth_error slots i = Some (Some c)).
  { intros i Hi. destruct (nth_error cs i) as [c|] eqn:E; [|apply nth_error_None in E; lia].
    exists c. split; [reflexivity|]. unfold slots. rewrite nth_error_app1 by (rewrite map_length; lia).
    rewrite nth_error_map, E. reflexivity. }
  assert (Hslot2 : forall i c, nth_error slots i = Some (Some c) -> (i < length cs)%nat).
  { intros i c Hs. destruct (Nat.lt_ge_cases i (length cs)) as [|Hge]; [assumption|exfalso].
    unfold slots in Hs. rewrite nth_error_app2 in Hs by (rewrite map_length; lia).
    apply nth_error_In in Hs. apply repeat_spec in Hs. discriminate. }
  assert (Hin : forall x : nat, In (N.of_nat x) ks ->
            exists i, (i < length ks)%nat /\ nth i ks 0 = N.of_nat x /\ nth x idx 0 = N.of_nat i + 1).
  { intros x Hx. apply (In_nth _ _ 0) in Hx. destruct Hx as (i & Hi & E). exists i.
    split; [exact Hi|]. split; [exact E|]. rewrite <- L2' by exact Hi. rewrite E, Nat2N.id. reflexivity. }
  split.
  - unfold wf48. split; [exact L1|].
    split; [unfold slots; rewrite app_length, map_length, repeat_length; lia|]. split; [|split].
    + intros x Hx. destruct (in_dec N.eq_dec (N.of_nat x) ks) as [Hi|Hni].
      * destruct (Hin x Hi) as (i & Hi' & E & Ei). right. rewrite Ei. split; [lia|]. split; [lia|].
        destruct (Hslot i ltac:(lia)) as (c & _ & Hc). exists c.
        replace (N.to_nat (N.of_nat i + 1 - 1)) with i by lia. exact Hc.
      * left. apply L3'. exact Hni.
    + intros x1 x2 Hx1 Hx2 Hnz Heq.
      destruct (in_dec N.eq_dec (N.of_nat x1) ks) as [Hi1|Hni];
        [|rewrite L3' in Hnz by exact Hni; congruence].
      destruct (in_dec N.eq_dec (N.of_nat x2) ks) as [Hi2|Hni];
        [|rewrite (L3' x2) in Heq by exact Hni; congruence].
      destruct (Hin x1 Hi1) as (i1 & Hi1' & E1 & Ei1). destruct (Hin x2 Hi2) as (i2 & Hi2' & E2 & Ei2).
      assert (i1 = i2) by lia. subst i2. rewrite E1 in E2. lia.
    + intros i c Hs. pose proof (Hslot2 i c Hs) as Hi. exists (N.to_nat (nth i ks 0)). split.
      * pose proof (Forall_nth_lt ks i HF). lia.
      * apply L2'. lia.
  - apply al_sorted_ext.
    + apply enum_idx_ks. lia.
    + unfold keys_sorted. rewrite map_fst_combine by exact HL. split; assumption.
    + intros b'. rewrite look48.
      destruct (in_dec N.eq_dec b' ks) as [Hi|Hni].
      * rewrite <- (N2Nat.id b') in Hi. destruct (Hin _ Hi) as (i & Hi' & E & Ei).
        rewrite N2Nat.id in E. rewrite Ei.
        destruct (Hslot i ltac:(lia)) as (c & Hc1 & Hc2).
        rewrite (entry_at _ _ c); [|lia|replace (N.to_nat (N.of_nat i + 1 - 1)) with i by lia; exact Hc2].
        symmetry. rewrite (comb_some i ks cs b' HL Hi' E); [exact Hc1|].
        intros j Hj E'. pose proof (ssorted_nth ks j i HS Hj Hi'). lia.
      * rewrite L3' by (rewrite N2Nat.id; exact Hni). symmetry.
        change (entry 0 slots) with (@None C). apply comb_none; assumption.
Qed.

(* ---- find ---- *)
Lemma n48_find : forall h len idx slots b,
  nfind (N48 h len idx slots) b = assoc b (nenum (N48 h len idx slots)).
Proof. intros. cbn [nenum]. rewrite look48. apply n48_find_entry. Qed.

Lemma n256_find : forall h len slots b,
  nfind (N256 h len slots) b = assoc b (nenum (N256 h len slots)).
Proof.
  intros. cbn [nenum nfind]. rewrite look256.
  destruct (nth_error slots _) as [[x|]|]; reflexivity.
Qed.

(* ---- add ---- *)
Lemma add256_core : forall h len slots b c,
  length (prefix h) = maxPrefixLen -> length slots = 256%nat -> b < 256 ->
  assoc b (enum_slots slots 0) = None ->
  len = u8 (N.of_nat (length (enum_slots slots 0))) ->
  shrink256 <= N.of_nat (length (enum_slots slots 0)) ->
  nwf (add256 h len slots b c) /\
  nenum (add256 h len slots b c) = ins_sorted b c (enum_slots slots 0) /\
  nhdr (add256 h len slots b c) = h.
Proof.
  intros h len slots b c Hp Hsl Hb Ha Hl Hlo. unfold add256.
  assert (Een : enum_slots (set_at (N.to_nat b) (Some c) slots) 0 = ins_sorted b c (enum_slots slots 0)).
  { apply al_sorted_ext.
    - apply enum_slots_ks. rewrite length_set_at. lia.
    - apply al_ins_sorted; [apply enum_slots_ks; lia|exact Hb|exact Ha].
    - intros b'. rewrite look256. destruct (N.eq_dec b' b) as [-> |Hne].
      + rewrite al_ins_same by exact Ha. rewrite nth_error_set_at_eq by lia. reflexivity.
      + rewrite al_ins_other by exact Hne. rewrite look256. rewrite nth_error_set_at_ne by lia. reflexivity. }
  split; [|split; [exact Een|reflexivity]].
  split; [exact Hp|]. split; [rewrite length_set_at; exact Hsl|].
  rewrite Een, al_length_ins. unfold u8 in *. split; lia.
Qed.

Lemma n256_add : forall h len slots b c, nwf (N256 h len slots) -> b < 256 ->
  assoc b (nenum (N256 h len slots)) = None ->
  nwf (add256 h len slots b c) /\
  nenum (add256 h len slots b c) = ins_sorted b c (nenum (N256 h len slots)) /\
  nhdr (add256 h len slots b c) = h.
Proof.
  intros h len slots b c (Hp & Hsl & Hl & Hlo) Hb Ha. cbn [nenum] in *. cbn [nhdr] in Hp.
  apply add256_core; try assumption. lia.
Qed.

Lemma n48_add : forall h len idx slots b c, nwf (N48 h len idx slots) -> b < 256 ->
  assoc b (nenum (N48 h len idx slots)) = None ->
  nwf (add48 h len idx slots b c) /\
  nenum (add48 h len idx slots b c) = ins_sorted b c (nenum (N48 h len idx slots)) /\
  nhdr (add48 h len idx slots b c) = h.
Proof.
  intros h len idx slots b c Hwf Hb Ha. apply nwf48_iff in Hwf.
  destruct Hwf as (Hp & Hwf & Hl & Hlo & Hm). params. cbn [nenum] in *.
  destruct (len <? maxNode48) eqn:E.
  - apply add48_core; try assumption; lia.
  - unfold add48. rewrite E.
    pose proof Hwf as (Hi & _).
    rewrite <- (enum_slots_of_idx idx slots 0) in *.
    apply add256_core; try assumption.
    + rewrite map_length. exact Hi.
    + unfold u8. lia.
    + lia.
Qed.

Lemma n16_add_grow : forall h len keys ch b c, nwf (N16 h len keys ch) -> b < 256 ->
  assoc b (nenum (N16 h len keys ch)) = None -> ~ len < maxNode16 ->
  nwf (add16 h len keys ch b c) /\
  nenum (add16 h len keys ch b c) = ins_sorted b c (nenum (N16 h len keys ch)) /\
  nhdr (add16 h len keys ch b c) = h.
Proof.
  intros h len keys ch b c (Hp & Hk & HF & Hl & Hlo & Hm & Hs) Hb Ha Hge. params.
  cbn [nenum] in *. cbn [nhdr] in Hp. unfold add16.
  destruct (len <? maxNode16) eqn:E; [lia|]. clear E.
  rewrite Hl, Nat2N.id in *. rewrite firstn_all.
  set (ks := firstn (length ch) keys) in *.
  assert (HK : length ks = length ch) by (unfold ks; rewrite firstn_length; lia).
  destruct (build48 ks ch HK ltac:(lia) Hs) as (Hwf & Een).
  { unfold ks. apply Forall_firstn. exact HF. }
  cbv zeta in Hwf, Een. rewrite HK in Hwf, Een. rewrite <- Een in *.
  apply add48_core; try assumption; try lia.
  rewrite Een, combine_length. lia.
Qed.

(* ---- delete ---- *)
Lemma n48_del : forall h len idx slots b, nwf (N48 h len idx slots) -> b < 256 ->
  assoc b (nenum (N48 h len idx slots)) <> None ->
  nwf (ndel (N48 h len idx slots) b) /\
  nenum (ndel (N48 h len idx slots) b) = rem_key b (nenum (N48 h len idx slots)) /\
  nhdr (ndel (N48 h len idx slots) b) = h.
Proof.
  intros h len idx slots b Hwf Hb Ha. apply nwf48_iff in Hwf.
  destruct Hwf as (Hp & Hwf & Hl & Hlo & Hm). params. cbn [nenum] in *. cbn [ndel].
  destruct (del48_core idx slots b Hwf Hb Ha) as (Hwf' & Een).
  pose proof (al_length_rem b _ Ha) as HLr.
  assert (HKS : keys_sorted (rem_key b (enum_idx idx slots 0))).
  { apply al_rem_sorted. apply enum_idx_ks. destruct Hwf as (Hi & _). lia. }
  destruct (u8 (len + 255) =? shrink48) eqn:Esh.
  - rewrite Een. set (en := rem_key b (enum_idx idx slots 0)) in *.
    destruct HKS as [HS HF].
    destruct (n16_intro h (map fst en ++ repeat 0 (16 - length en)) (map snd en) (u8 (len + 255)) (map fst en))
      as (W & E & H'); try assumption.
    + rewrite app_length, map_length, repeat_length. unfold u8 in Esh. lia.
    + apply Forall_app. split; [exact HF|]. apply Forall_forall. intros y Hy. apply repeat_spec in Hy. lia.
    + rewrite map_length. unfold u8. lia.
    + unfold u8 in *. lia.
    + unfold u8 in *. lia.
    + rewrite firstn_app, !map_length, Nat.sub_diag. cbn [firstn]. rewrite app_nil_r.
      apply firstn_all2. rewrite map_length. lia.
    + split; [exact W|]. split; [rewrite E; apply combine_fst_snd|exact H'].
  - split; [|split; [exact Een|reflexivity]].
    apply nwf48_iff. split; [exact Hp|]. split; [exact Hwf'|]. rewrite Een. unfold u8 in *. lia.
Qed.

Lemma n256_del : forall h len slots b, nwf (N256 h len slots) -> b < 256 ->
  assoc b (nenum (N256 h len slots)) <> None ->
  nwf (ndel (N256 h len slots) b) /\
  nenum (ndel (N256 h len slots) b) = rem_key b (nenum (N256 h len slots)) /\
  nhdr (ndel (N256 h len slots) b) = h.
Proof.
  intros h len slots b (Hp & Hsl & Hl & Hlo) Hb Ha. params. cbn [nenum] in *. cbn [nhdr] in Hp. cbn [ndel].
  assert (Een : enum_slots (set_at (N.to_nat b) None slots) 0 = rem_key b (enum_slots slots 0)).
  { apply al_sorted_ext.
    - apply enum_slots_ks. rewrite length_set_at. lia.
    - apply al_rem_sorted. apply enum_slots_ks. lia.
    - intros b'. rewrite look256. destruct (N.eq_dec b' b) as [-> |Hne].
      + rewrite al_rem_same by (apply enum_slots_ks; lia). rewrite nth_error_set_at_eq by lia. reflexivity.
      + rewrite al_rem_other by exact Hne. rewrite look256. rewrite nth_error_set_at_ne by lia. reflexivity. }
  pose proof (al_length_rem b _ Ha) as HLr.
  destruct (enum_slots_range slots 0) as (_ & _ & HL256). rewrite Hsl in HL256.
  assert (HKS : keys_sorted (rem_key b (enum_slots slots 0))).
  { apply al_rem_sorted. apply enum_slots_ks. lia. }
  rewrite Een. set (en := rem_key b (enum_slots slots 0)) in *.
  destruct (u8 (len + 255) =? shrink256) eqn:Esh.
  - destruct HKS as [HS HF].
    assert (HLen : N.of_nat (length en) = shrink256) by (unfold u8 in *; lia).
    destruct (build48 (map fst en) (map snd en)) as (Hwf & Eb);
      [rewrite !map_length; reflexivity|rewrite map_length; lia|exact HS|exact HF|].
    cbv zeta in Hwf, Eb. rewrite !map_length, map_map in Hwf, Eb. rewrite combine_fst_snd in Eb.
    split; [|split; [exact Eb|reflexivity]].
    apply nwf48_iff. split; [exact Hp|]. split; [exact Hwf|]. rewrite Eb. unfold u8 in *. lia.
  - split; [|split; [exact Een|reflexivity]].
    split; [exact Hp|]. split; [rewrite length_set_at; exact Hsl|].
    rewrite Een. unfold u8 in *. split; lia.
Qed.

(* ---- replace ---- *)
Lemma length_repl_key : forall b c (l : list (N * C)), length (repl_key b c l) = length l.
Proof. intros. rewrite <- (map_length fst), al_repl_fst, map_length. reflexivity. Qed.

Lemma n48_replace : forall h len idx slots b c, nwf (N48 h len idx slots) -> b < 256 ->
  assoc b (nenum (N48 h len idx slots)) <> None ->
  nwf (nreplace (N48 h len idx slots) b c) /\
  nenum (nreplace (N48 h len idx slots) b c) = repl_key b c (nenum (N48 h len idx slots)) /\
  nhdr (nreplace (N48 h len idx slots) b c) = h /\
  nlen (nreplace (N48 h len idx slots) b c) = len /\ nkind (nreplace (N48 h len idx slots) b c) = 48.
Proof.
  intros h len idx slots b c Hwf Hb Ha. apply nwf48_iff in Hwf.
  destruct Hwf as (Hp & Hwf & Hl & Hlo & Hm). cbn [nenum] in *. cbn [nreplace].
  destruct (repl48_core idx slots b c Hwf Hb Ha) as (Hnz & Hwf' & Een).
  destruct (nth (N.to_nat b) idx 0 =? 0) eqn:E; [lia|].
  cbn [nenum nhdr nlen nkind]. split; [|split; [exact Een|repeat split]].
  apply nwf48_iff. split; [exact Hp|]. split; [exact Hwf'|]. rewrite Een, length_repl_key. auto.
Qed.

Lemma n256_replace : forall h len slots b c, nwf (N256 h len slots) -> b < 256 ->
  assoc b (nenum (N256 h len slots)) <> None ->
  nwf (nreplace (N256 h len slots) b c) /\
  nenum (nreplace (N256 h len slots) b c) = repl_key b c (nenum (N256 h len slots)) /\
  nhdr (nreplace (N256 h len slots) b c) = h /\
  nlen (nreplace (N256 h len slots) b c) = len /\ nkind (nreplace (N256 h len slots) b c) = 256.
Proof.
  intros h len slots b c (Hp & Hsl & Hl & Hlo) Hb Ha. cbn [nenum] in *. cbn [nhdr] in Hp. cbn [nreplace].
  assert (HKS : keys_sorted (enum_slots slots 0)) by (apply enum_slots_ks; lia).
  assert (Een : enum_slots (set_at (N.to_nat b) (Some c) slots) 0 = repl_key b c (enum_slots slots 0)).
  { apply al_sorted_ext.
    - apply enum_slots_ks. rewrite length_set_at. lia.
    - unfold keys_sorted in *. rewrite al_repl_fst. exact HKS.
    - intros b'. rewrite look256. destruct (N.eq_dec b' b) as [-> |Hne].
      + rewrite al_repl_same by exact Ha. rewrite nth_error_set_at_eq by lia. reflexivity.
      + rewrite al_repl_other by exact Hne. rewrite look256. rewrite nth_error_set_at_ne by lia. reflexivity. }
  cbn [nenum nhdr nlen nkind]. split; [|split; [exact Een|repeat split]].
  split; [exact Hp|]. split; [rewrite length_set_at; exact Hsl|].
  rewrite Een, length_repl_key. split; assumption.
Qed.

End N48b.
