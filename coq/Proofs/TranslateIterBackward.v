(* Proofs/TranslateIterFacts.v, part 4 of 7: backward *)
From GoArt Require Import Base.Bytes Model.Node4 Model.Node16 Model.Node Model.Tree Model.Iter Model.Api
  Spec.NodeSpec Spec.TreeSpec Spec.IterSpec Proofs.BytesFacts Proofs.Node4Facts Proofs.NodeFacts Proofs.TreeBasics Proofs.NodeAux48
  Proofs.NodeAuxAssoc Proofs.NodeAuxArr Proofs.InsertFacts Proofs.IterFacts Spec.Ideal Proofs.PropFacts Proofs.TranslateFacts.
From GoArt Require Import Model.Pool Proofs.PoolFacts Model.PoolTree Proofs.PoolTreeFacts.
From GoArt Require Import Model.GoArith Model.GoTree Gen.Node4Gen Gen.Node16Gen Gen.TreeGen Proofs.TranslateTreeFacts Gen.IterGen.
From GoArt Require Import Proofs.TranslateIterBase.
From Coq Require Import ZifyN ZifyNat ZifyBool.
Ltac Zify.zify_post_hook ::= Z.div_mod_to_equations.
Open Scope N_scope.

(* ================= 6. backward ================= *)
Lemma backward_up4 : forall m j n q, (j + m = N.to_nat (xlen (xh n)))%nat -> xlen (xh n) < 256 ->
  (N.to_nat (xlen (xh n)) <= length (xch n))%nat ->
  g_backward_loop2 m n q (N.of_nat j) = LDone (q ++ map idref (firstn m (skipn j (xch n))), xlen (xh n)).
Proof. apply up_arr. intros [|fuel] n q i; reflexivity. Qed.
Lemma backward_up16 : forall m j n q, (j + m = N.to_nat (xlen (xh n)))%nat -> xlen (xh n) < 256 ->
  (N.to_nat (xlen (xh n)) <= length (xch n))%nat ->
  g_backward_loop3 m n q (N.of_nat j) = LDone (q ++ map idref (firstn m (skipn j (xch n))), xlen (xh n)).
Proof. apply up_arr. intros [|fuel] n q i; reflexivity. Qed.
Lemma backward_up48 : forall m j n q, (j + m = 256)%nat -> length (xbytes n) = 256%nat -> cells48_ok n j 256 ->
  g_backward_loop4 m n q (Z.of_nat j) = LDone (q ++ map idref (map Some (kids48 (xch n) (firstn m (skipn j (xbytes n))))), 256%Z).
Proof. apply up_48. intros [|fuel] n q i; reflexivity. Qed.
Lemma backward_up256 : forall m j n q, (j + m = 256)%nat -> length (xch n) = 256%nat ->
  g_backward_loop5 m n q (Z.of_nat j) = LDone (q ++ map idref (map Some (somes (firstn m (skipn j (xch n))))), 256%Z).
Proof. apply up_256. intros [|fuel] n q i; reflexivity. Qed.

Lemma backward_inner : forall fuel ans n q i acc, xwf n ->
  g_backward_loop1 (S fuel) ans (q ++ [Some (XInner n)]) i acc = g_backward_loop1 fuel ans (q ++ map Some (xkids n)) i acc.
Proof.
  intros fuel ans n q i acc Hx. cbn [g_backward_loop1]. rewrite len_nonzero, idx_refs_last, slice_to_last.
  destruct n as [h keys ch|h keys ch|h idx ch|h ch];
    cbn [ref_tag gkind_eqb ref_pointer cast_node4 cast_node16 cast_node48 cast_node256 xh]; cbv zeta.
  - destruct (xwf4_inv _ _ _ Hx) as (Hc & _ & Hm & _).
    replace (N.to_nat (xlen h - 0)) with (N.to_nat (xlen h)) by lia.
    pose proof (backward_up4 (N.to_nat (xlen h)) 0 (X4 h keys ch) q) as E. cbn [N.of_nat xh xch skipn] in E.
    rewrite E by lia. rewrite map_idref, (xkids4 _ _ _ Hx). reflexivity.
  - destruct (xwf16_inv _ _ _ Hx) as (_ & Hc & _ & Hm & _).
    replace (N.to_nat (xlen h - 0)) with (N.to_nat (xlen h)) by lia.
    pose proof (backward_up16 (N.to_nat (xlen h)) 0 (X16 h keys ch) q) as E. cbn [N.of_nat xh xch skipn] in E.
    rewrite E by lia. rewrite map_idref, (xkids16 _ _ _ Hx). reflexivity.
  - destruct (xwf48_inv _ _ _ Hx) as (Hli & _ & _). change (Z.to_nat (256 - 0)) with 256%nat.
    pose proof (backward_up48 256 0 (X48 h idx ch) q) as E. cbn [Z.of_nat xbytes xch skipn] in E.
    rewrite E by (first [lia | (intros t Ht; apply (xwf48_cell _ _ _ Hx); lia)]).
    rewrite map_idref, firstn_all2 by lia. rewrite <- xkids48 with (h := h). reflexivity.
  - pose proof (xwf256_inv _ _ Hx) as Hlc. change (Z.to_nat (256 - 0)) with 256%nat.
    pose proof (backward_up256 256 0 (X256 h ch) q) as E. cbn [Z.of_nat xch skipn] in E.
    rewrite E by lia. rewrite map_idref, firstn_all2 by lia. rewrite <- xkids256 with (h := h). reflexivity.
Qed.

Lemma q_push_bwd : forall cs xs, map Some (rev xs) ++ map Some cs = map (@Some xtree) (rev (rev cs ++ xs)).
Proof. intros. rewrite rev_app_distr, rev_involutive, map_app. reflexivity. Qed.

Theorem gen_backward_loop_eq : forall fuel xs ans i acc, Forall xtwf xs ->
  ires_abs (g_backward_loop1 fuel ans (map Some (rev xs)) i acc) =
  Some (walk (fun _ => Deliver) expand_bwd fuel (with_depth 0 (map tabs xs)) ans i (map tabs acc)).
Proof.
  induction fuel as [|fuel IH]; intros xs ans i acc HF; [reflexivity|].
  destruct xs as [|x xs]; [reflexivity|].
  apply Forall_cons_iff in HF. destruct HF as [Hx HF]. rewrite q_pop.
  destruct x as [gk tk v|n].
  - cbn [g_backward_loop1]. rewrite len_nonzero, idx_refs_last, slice_to_last.
    cbn [ref_tag gkind_eqb ref_pointer cast_leaf]. cbv zeta. cbn [with_depth map tabs walk].
    destruct (ans i); cbn [negb]; [|reflexivity].
    exact (IH xs ans (S i) (XLeaf gk tk v :: acc) HF).
  - destruct (xtwf_inv _ Hx) as [Hxw _]. rewrite (backward_inner fuel ans n _ i acc Hxw), q_push_bwd.
    rewrite IH by (apply Forall_app; split; [apply Forall_rev, xkids_xtwf; exact Hx|exact HF]).
    cbn [with_depth map tabs walk]. fold (nabs n). unfold expand_bwd. rewrite nchildren_nabs, stack_push, map_rev. reflexivity.
Qed.
Theorem gen_backward_eq : forall fuel t ans, xtwf t ->
  ires_abs (g_backward fuel (Some t) ans) = Some (walk (fun _ => Deliver) expand_bwd fuel [(tabs t, 0%nat)] ans 0 []).
Proof.
  intros fuel t ans Hx. unfold g_backward. cbv zeta. cbn [ref_pointer ref_is_nil app].
  exact (gen_backward_loop_eq fuel [t] ans 0%nat [] (Forall_cons _ Hx (Forall_nil _))).
Qed.
Theorem gen_backward_nil : forall fuel ans, g_backward fuel None ans = IDone ByReturn 0 [].
Proof. reflexivity. Qed.
