(* Assembly of the property theorems C01-C06, C08, C09, C11, C15: everything here
   is a consequence of the refinement theorem (Proofs/ApiFacts.v), the laws of
   the reference map (Proofs/IdealFacts.v), the key semantics
   (Proofs/KeySemantics.v) and the node / shape facts.  The files Properties/Cnn.v
   restate the theorems of this file and print their assumptions. *)
From GoArt Require Import Base.Bytes Model.Keys Model.Node4 Model.Node16 Model.Node Model.Tree Model.Iter Model.Api
  Spec.NodeSpec Spec.TreeSpec Spec.IterSpec Spec.Ideal Spec.Semantics
  Proofs.BytesFacts Proofs.KeysFacts Proofs.NodeFacts Proofs.TreeBasics Proofs.SearchFacts
  Proofs.InsertFacts Proofs.IterFacts Proofs.ApiFacts
  Proofs.KeySemantics Proofs.IdealFacts Proofs.NodeSeqFacts Proofs.ShapeFacts.
From Coq Require Import ZifyN ZifyNat ZifyBool Sorted.
Ltac Zify.zify_post_hook ::= Z.div_mod_to_equations.
Open Scope N_scope.

(* the state, the reference content and the outputs after a history *)
Definition st_of (k : kind) (ops : list op) : state := fst (run k init ops).
Definition cs_of (k : kind) (ops : list op) : list lrec := fst (ideal_run k [] ops).
Definition outs (k : kind) (ops : list op) : list out := snd (run k init ops).

(* ================================================================== *)
(* general lemmas                                                      *)
(* ================================================================== *)
Lemma run_app : forall k ops1 st ops2,
  run k st (ops1 ++ ops2) =
  (fst (run k (fst (run k st ops1)) ops2),
   snd (run k st ops1) ++ snd (run k (fst (run k st ops1)) ops2)).
Proof.
  intros k ops1. induction ops1 as [|o ops1 IH]; intros st ops2.
  - cbn [app run fst snd]. destruct (run k st ops2) as [s x]. reflexivity.
  - cbn [app run]. destruct (step k st o) as [st' x]. rewrite IH.
    destruct (run k st' ops1) as [st'' xs]. cbn [fst snd]. reflexivity.
Qed.

Lemma ideal_run_app : forall k ops1 cs ops2,
  ideal_run k cs (ops1 ++ ops2) =
  (fst (ideal_run k (fst (ideal_run k cs ops1)) ops2),
   snd (ideal_run k cs ops1) ++ snd (ideal_run k (fst (ideal_run k cs ops1)) ops2)).
Proof.
  intros k ops1. induction ops1 as [|o ops1 IH]; intros cs ops2.
  - cbn [app ideal_run fst snd]. destruct (ideal_run k cs ops2) as [s x]. reflexivity.
  - cbn [app ideal_run]. destruct (ideal_step k cs o) as [cs' x]. rewrite IH.
    destruct (ideal_run k cs' ops1) as [cs'' xs]. cbn [fst snd]. reflexivity.
Qed.

Lemma run_one : forall k st q, run k st [q] = (fst (step k st q), [snd (step k st q)]).
Proof. intros k st q. cbn [run]. destruct (step k st q) as [s x]. reflexivity. Qed.

Lemma ideal_run_one : forall k cs q,
  ideal_run k cs [q] = (fst (ideal_step k cs q), [snd (ideal_step k cs q)]).
Proof. intros k cs q. cbn [ideal_run]. destruct (ideal_step k cs q) as [s x]. reflexivity. Qed.

Lemma ins_pairs_app : forall k a b, ins_pairs k (a ++ b) = ins_pairs k a ++ ins_pairs k b.
Proof. intros k a b. unfold ins_pairs. rewrite flat_map_app, map_app. reflexivity. Qed.

Lemma probe_pairs_app : forall k a b, probe_pairs k (a ++ b) = probe_pairs k a ++ probe_pairs k b.
Proof. intros k a b. unfold probe_pairs. rewrite flat_map_app, map_app. reflexivity. Qed.

Lemma forallb_weaken : forall {A} (f g : A -> bool) l,
  (forall x, f x = true -> g x = true) -> forallb f l = true -> forallb g l = true.
Proof.
  intros A f g l H Hf. rewrite forallb_forall in *. intros x Hx. apply H. apply Hf. exact Hx.
Qed.

Lemma ins_ok_app_l : forall P1 P2, ins_ok (P1 ++ P2) = true -> ins_ok P1 = true.
Proof.
  intros P1 P2 H. unfold ins_ok in *. rewrite forallb_app in H. apply andb_true_iff in H.
  destruct H as [H _]. revert H. apply forallb_weaken. intros p Hp.
  apply andb_true_iff in Hp. destruct Hp as [Hb Hq]. rewrite Hb. cbn [andb].
  rewrite forallb_app in Hq. apply andb_true_iff in Hq. tauto.
Qed.

Lemma probe_ok_app_l : forall P1 P2 p, probe_ok (P1 ++ P2) p = true -> probe_ok P1 p = true.
Proof.
  intros P1 P2 p H. unfold probe_ok in *. apply andb_true_iff in H. destruct H as [Hb Hq].
  rewrite Hb. cbn [andb]. rewrite forallb_app in Hq. apply andb_true_iff in Hq. tauto.
Qed.

(* a prefix of a valid history is a valid history *)
Lemma history_ok_prefix : forall k ops1 ops2,
  history_ok k (ops1 ++ ops2) = true -> history_ok k ops1 = true.
Proof.
  intros k ops1 ops2 H. unfold history_ok in *.
  apply andb_true_iff in H. destruct H as [H Hop]. apply andb_true_iff in H. destruct H as [Hi Hp].
  rewrite ins_pairs_app in Hi, Hp. rewrite probe_pairs_app, forallb_app in Hp.
  apply andb_true_iff in Hp. destruct Hp as [Hp _].
  rewrite forallb_app in Hop. apply andb_true_iff in Hop. destruct Hop as [Hop _].
  rewrite (ins_ok_app_l _ _ Hi), Hop.
  rewrite (forallb_weaken _ _ _ (probe_ok_app_l _ _) Hp). reflexivity.
Qed.

(* operations that add no key to the history and are allowed for every kind *)
Definition pure_query (q : op) : bool :=
  match q with
  | Minimum | Maximum | Size | All _ | Backward _ | TopK _ _ | BottomK _ _ => true
  | _ => false
  end.

Lemma history_ok_query : forall k ops q, pure_query q = true ->
  history_ok k ops = true -> history_ok k (ops ++ [q]) = true.
Proof.
  intros k ops q Hq H. unfold history_ok in *.
  assert (Ei : ins_pairs k (ops ++ [q]) = ins_pairs k ops).
  { rewrite ins_pairs_app. destruct q; try discriminate Hq; apply app_nil_r. }
  assert (Ep : probe_pairs k (ops ++ [q]) = probe_pairs k ops).
  { rewrite probe_pairs_app. destruct q; try discriminate Hq; apply app_nil_r. }
  rewrite Ei, Ep, forallb_app.
  apply andb_true_iff in H. destruct H as [H Hop]. rewrite H, Hop. cbn [forallb andb].
  destruct k; destruct q; try discriminate Hq; reflexivity.
Qed.

(* a query asked after any valid history answers as the reference does on the
   reference content *)
Lemma query_after : forall k ops q, history_ok k (ops ++ [q]) = true ->
  snd (step k (st_of k ops) q) = snd (ideal_step k (cs_of k ops) q) /\
  rep (st_of k ops) (cs_of k ops).
Proof.
  intros k ops q H.
  destruct (run_refines k ops (history_ok_prefix k ops [q] H)) as [Ho Hr].
  destruct (run_refines k (ops ++ [q]) H) as [Hq _].
  rewrite run_app, ideal_run_app, run_one, ideal_run_one in Hq. cbn [fst snd] in Hq.
  rewrite Ho in Hq. apply app_inv_head in Hq. unfold st_of, cs_of.
  split; [congruence|exact Hr].
Qed.

Lemma query_after_pure : forall k ops q, pure_query q = true -> history_ok k ops = true ->
  snd (step k (st_of k ops) q) = snd (ideal_step k (cs_of k ops) q).
Proof.
  intros k ops q Hq H. apply query_after. apply history_ok_query; assumption.
Qed.

Lemma rep_after : forall k ops, history_ok k ops = true -> rep (st_of k ops) (cs_of k ops).
Proof. intros k ops H. apply (run_refines k ops H). Qed.

(* every stored record stems from an Insert of the history *)
Definition from_ins (k : kind) (S : list op) (l : lrec) : Prop :=
  exists a v, In (Insert a v) S /\ (lgk l, ltk l) = transform k a.

Lemma in_set_v : forall gk v cs l, In l (set_v gk v cs) ->
  exists l0, In l0 cs /\ lgk l = lgk l0 /\ ltk l = ltk l0.
Proof.
  intros gk v cs l H. unfold set_v in H. apply in_map_iff in H. destruct H as (l0 & E & Hl0).
  exists l0. split; [exact Hl0|]. destruct (beq (lgk l0) gk); subst l; split; reflexivity.
Qed.

Lemma stored_gen : forall k ops S cs,
  (forall l, In l cs -> from_ins k S l) ->
  forall l, In l (fst (ideal_run k cs ops)) -> from_ins k (S ++ ops) l.
Proof.
  intros k ops. induction ops as [|o ops IH]; intros S cs Hcs l Hl.
  - cbn [ideal_run fst] in Hl. rewrite app_nil_r. apply Hcs. exact Hl.
  - cbn [ideal_run] in Hl.
    assert (Hs : forall l, In l (fst (ideal_step k cs o)) -> from_ins k (S ++ [o]) l).
    { clear l Hl IH. intros l Hl.
      assert (Hw : forall l, In l cs -> from_ins k (S ++ [o]) l).
      { intros l0 H0. destruct (Hcs l0 H0) as (a & v & Ha & Et). exists a, v.
        split; [apply in_or_app; left; exact Ha|exact Et]. }
      destruct o as [a v|a|a| | | |stop|stop|n stop|n stop|a b stop|p stop];
        cbn [ideal_step] in Hl; try (destruct (transform k a) as [g t] eqn:Et);
        cbn [fst] in Hl; try (apply Hw; exact Hl).
      - unfold upsert in Hl. destruct (mem_gk g cs).
        + apply in_set_v in Hl. destruct Hl as (l0 & H0 & E1 & E2).
          destruct (Hw l0 H0) as (a' & v' & Ha' & Et'). exists a', v'. split; [exact Ha'|].
          rewrite E1, E2. exact Et'.
        + apply api_in_ins_tk in Hl. destruct Hl as [Hl|Hl]; [|apply Hw; exact Hl].
          subst l. exists a, v. split; [apply in_or_app; right; left; reflexivity|].
          rewrite Et. reflexivity.
      - apply Hw. unfold remove_gk in Hl. apply filter_In in Hl. tauto. }
    destruct (ideal_step k cs o) as [cs' x]. cbn [fst] in Hs.
    specialize (IH (S ++ [o]) cs' Hs l).
    destruct (ideal_run k cs' ops) as [cs'' xs]. cbn [fst] in *.
    rewrite <- app_assoc in IH. apply IH. exact Hl.
Qed.

Lemma stored_from_history : forall k ops l, In l (cs_of k ops) ->
  exists a v, In (Insert a v) ops /\ (lgk l, ltk l) = transform k a.
Proof.
  intros k ops l Hl. apply (stored_gen k ops [] []); [intros l0 []|exact Hl].
Qed.

(* for every x of l there is a y related to it: a list of such y *)
Lemma Forall2_choice : forall {A B} (R : A -> B -> Prop) l,
  (forall x, In x l -> exists y, R x y) -> exists l', Forall2 R l l'.
Proof.
  intros A B R l. induction l as [|x l IH]; intros H.
  - exists []. constructor.
  - destruct (H x (or_introl eq_refl)) as [y Hy].
    destruct (IH (fun z Hz => H z (or_intror Hz))) as [l' Hl'].
    exists (y :: l'). constructor; assumption.
Qed.

(* ================================================================== *)
(* C01                                                                 *)
(* ================================================================== *)
Theorem refines_reference : forall k ops, history_ok k ops = true ->
  outs k ops = snd (ideal_run k [] ops).
Proof. intros k ops H. apply (run_refines k ops H). Qed.

Theorem exact_map : forall k ops, history_ok k ops = true ->
  map_outputs_ok k [] ops (outs k ops).
Proof. intros k ops H. rewrite (refines_reference k ops H). apply ideal_map_outputs. Qed.

Lemma ideal_normal : forall k ops cs,
  Forall2 (fun o x => match o with
                      | Insert _ _ | Search _ | Delete _ => x <> OPanic /\ x <> OFuel
                      | _ => True end) ops (snd (ideal_run k cs ops)).
Proof.
  intros k ops. induction ops as [|o ops IH]; intros cs.
  - cbn [ideal_run snd]. constructor.
  - cbn [ideal_run].
    assert (Hx : match o with
                 | Insert _ _ | Search _ | Delete _ =>
                     snd (ideal_step k cs o) <> OPanic /\ snd (ideal_step k cs o) <> OFuel
                 | _ => True end).
    { destruct o as [a v|a|a| | | |stop|stop|n stop|n stop|a b stop|p stop]; try exact I;
        cbn [ideal_step]; destruct (transform k a) as [g t]; cbn [snd].
      - split; discriminate.
      - destruct (find_gk g cs); split; discriminate.
      - split; discriminate. }
    specialize (IH (fst (ideal_step k cs o))).
    destruct (ideal_step k cs o) as [cs' x]. cbn [fst snd] in *.
    destruct (ideal_run k cs' ops) as [cs'' xs]. cbn [snd] in *.
    constructor; [|exact IH]. destruct o; exact Hx.
Qed.

Theorem returns_normally : forall k ops, history_ok k ops = true ->
  Forall2 (fun o x => match o with
                      | Insert _ _ | Search _ | Delete _ => x <> OPanic /\ x <> OFuel
                      | _ => True end) ops (outs k ops).
Proof. intros k ops H. rewrite (refines_reference k ops H). apply ideal_normal. Qed.

Theorem key_identity_collation : forall o c o' c',
  fst (transform KCollation (AC o c)) = fst (transform KCollation (AC o' c')) <-> o = o'.
Proof. intros. cbn [transform fst]. tauto. Qed.

(* the known finding D2: with a 0x00 inside a byte-string key the model fails *)
Definition nul_ops : list op := [Insert (AB [97]) 1; Insert (AB [97; 0]) 2; Search (AB [97])].

Theorem alpha_nul_refuted : exists ops, ~ map_outputs_ok KAlpha [] ops (outs KAlpha ops).
Proof.
  exists nul_ops. vm_compute. intros (_ & _ & H & _). discriminate H.
Qed.

(* non-vacuity: a valid history of 36 operations whose final root has 22
   children under one shared stem (a node48) *)
Definition nv_ops : list op :=
  map (fun i => Insert (AB [115; 116; 101; 109; N.of_nat i]) (Z.of_nat i)) (seq 1 25) ++
  [Search (AB [115; 116; 101; 109; 7]); Search (AB [115; 116]); Search (AB [115; 0]);
   Delete (AB [115; 116; 101; 109; 3]); Delete (AB [115; 116; 101; 109; 4]);
   Delete (AB [115; 116; 101; 109; 5]); Delete (AB [120]);
   Insert (AB [115; 116; 101; 109; 9]) 99; Search (AB [115; 116; 101; 109; 9]);
   Minimum; Size].

Example nonvacuous : exists ops,
  history_ok KAlpha ops = true /\ (length ops > 20)%nat /\
  match root (st_of KAlpha ops) with Some (Inner n) => 16 <= nkind n | _ => False end /\
  outs KAlpha ops = snd (ideal_run KAlpha [] ops).
Proof.
  exists nv_ops. split; [vm_compute; reflexivity|]. split; [vm_compute; lia|].
  split; [vm_compute; discriminate|]. vm_compute. reflexivity.
Qed.

(* ================================================================== *)
(* C02                                                                 *)
(* ================================================================== *)
Lemma ideal_seq_all : forall k ls,
  ideal_seq k ls (stop_ans None) = OSeq (map (fun l => (key_of k l, lv l)) ls) (length ls).
Proof.
  intros k ls. unfold ideal_seq, stop_ans.
  rewrite (consume_all ls 0). cbn [fst snd]. reflexivity.
Qed.

Theorem all_backward : forall k ops, history_ok k ops = true ->
  let cs := cs_of k ops in
  snd (step k (st_of k ops) (All None)) = OSeq (map (fun l => (key_of k l, lv l)) cs) (length cs) /\
  snd (step k (st_of k ops) (Backward None)) =
    OSeq (rev (map (fun l => (key_of k l, lv l)) cs)) (length cs).
Proof.
  intros k ops H cs. subst cs. split.
  - rewrite (query_after_pure k ops (All None) eq_refl H). cbn [ideal_step snd].
    apply ideal_seq_all.
  - rewrite (query_after_pure k ops (Backward None) eq_refl H). cbn [ideal_step snd].
    rewrite ideal_seq_all, map_rev, rev_length. reflexivity.
Qed.

Theorem content : forall k ops, history_ok k ops = true ->
  let cs := cs_of k ops in
  StronglySorted lex_lt (map ltk cs) /\ NoDup (map lgk cs) /\
  (forall gk, option_map lv (find_gk gk cs) = hist_lookup k gk ops None).
Proof.
  intros k ops H cs. subst cs. unfold cs_of. split; [apply ideal_sorted; exact H|].
  split; [apply ideal_nodup_gk; exact H|]. intros gk. apply ideal_reads.
Qed.

Lemma sorted_transfer : forall k cs keys,
  Forall2 (fun l a => akey_ok k a = true /\ (lgk l, ltk l) = transform k a /\
                      akey_same k (key_of k l) a) cs keys ->
  StronglySorted lex_lt (map ltk cs) -> StronglySorted (akey_lt k) keys.
Proof.
  intros k cs keys HF. induction HF as [|l a cs keys (Ha & Et & _) HF IH]; intros HS.
  - constructor.
  - cbn [map] in HS. inversion HS as [|x xs HS' Hall]; subst x xs.
    constructor; [apply IH; exact HS'|].
    clear IH HS HS'. induction HF as [|l' a' cs keys (Ha' & Et' & _) HF IH]; [constructor|].
    cbn [map] in Hall. inversion Hall as [|x xs Hlt Hall']; subst x xs.
    constructor; [|apply IH; exact Hall'].
    apply (transform_order k a a' Ha Ha'). rewrite <- Et, <- Et'. cbn [snd]. exact Hlt.
Qed.

Theorem declared_order : forall k ops, history_ok k ops = true ->
  (forall a v, In (Insert a v) ops -> akey_ok k a = true) ->
  exists keys,
    Forall2 (fun l a => akey_ok k a = true /\ (lgk l, ltk l) = transform k a /\
                        akey_same k (key_of k l) a) (cs_of k ops) keys /\
    StronglySorted (akey_lt k) keys.
Proof.
  intros k ops H Hok.
  destruct (Forall2_choice
    (fun l a => akey_ok k a = true /\ (lgk l, ltk l) = transform k a /\ akey_same k (key_of k l) a)
    (cs_of k ops)) as [keys HF].
  - intros l Hl. destruct (stored_from_history k ops l Hl) as (a & v & Ha & Et).
    exists a. pose proof (Hok a v Ha) as Hk. split; [exact Hk|]. split; [exact Et|].
    pose proof (restore_transform k a (lv l) Hk) as Hr. rewrite <- Et in Hr. exact Hr.
  - exists keys. split; [exact HF|]. apply (sorted_transfer k (cs_of k ops) keys HF).
    apply ideal_sorted. exact H.
Qed.

(* ================================================================== *)
(* C03                                                                 *)
(* ================================================================== *)
Theorem range_reference : forall k ops a b stop, history_ok k (ops ++ [Range a b stop]) = true ->
  snd (step k (st_of k ops) (Range a b stop)) = ideal_range k (cs_of k ops) a b (stop_ans stop).
Proof. intros k ops a b stop H. apply (query_after k ops (Range a b stop) H). Qed.

Theorem range_empty_tree : forall k a b stop, k <> KCollation ->
  exists l c, snd (step k init (Range a b stop)) = OSeq l c /\ l = [].
Proof.
  intros k a b stop HK. exists [], 0%nat. split; [|reflexivity].
  destruct k as [|w|w|w| |s|enc dec]; try (exfalso; apply HK; reflexivity); cbn [step snd do_range init root];
    try reflexivity;
    destruct (lex_cmp _ _); reflexivity.
Qed.

Theorem in_range_meaning : forall k a b x v, k <> KCollation ->
  akey_ok k a = true -> akey_ok k b = true -> akey_ok k x = true ->
  (in_range (fst (transform k a)) (fst (transform k b))
            (fst (transform k x), snd (transform k x), v) = true <-> between k a b x).
Proof.
  intros k a b x v HK Ha Hb Hx. unfold in_range, between, akey_le, lgk. cbn [fst].
  rewrite andb_true_iff, !lex_leb_spec, !lex_le_lt_eq.
  rewrite <- (transform_order k a x Ha Hx), <- (transform_order k x b Hx Hb).
  rewrite <- (transform_identity k a x HK Ha Hx), <- (transform_identity k x b HK Hx Hb).
  rewrite <- !(transform_same_forms k _ HK). tauto.
Qed.

Theorem numeric_bounds : forall k cs a b ans, is_num k = true ->
  akey_ok k a = true -> akey_ok k b = true ->
  (akey_lt k a b -> ideal_range k cs a b ans =
     ideal_seq k (filter (in_range (fst (transform k a)) (fst (transform k b))) cs) ans) /\
  (akey_lt k b a -> ideal_range k cs a b ans =
     ideal_seq k (filter (in_range (fst (transform k b)) (fst (transform k a))) cs) ans) /\
  (akey_same k a b -> ideal_range k cs a b ans =
     match find_gk (fst (transform k a)) cs with
     | Some l => OSeq [(a, lv l)] 1
     | None => OSeq [] 0
     end).
Proof.
  intros k cs a b ans Hn Ha Hb.
  assert (HK : k <> KCollation) by (intros ->; discriminate Hn).
  assert (E : ideal_range k cs a b ans =
    match lex_cmp (fst (transform k a)) (fst (transform k b)) with
    | Eq => match find_gk (fst (transform k a)) cs with
            | Some l => OSeq [(a, lv l)] 1
            | None => OSeq [] 0
            end
    | Gt => ideal_seq k (filter (in_range (fst (transform k b)) (fst (transform k a))) cs) ans
    | Lt => ideal_seq k (filter (in_range (fst (transform k a)) (fst (transform k b))) cs) ans
    end).
  { destruct k; try discriminate Hn; reflexivity. }
  rewrite E. split; [|split].
  - intros Hlt. apply (transform_order k a b Ha Hb) in Hlt.
    rewrite <- !(transform_same_forms k _ HK) in Hlt. unfold lex_lt in Hlt. rewrite Hlt. reflexivity.
  - intros Hlt. apply (transform_order k b a Hb Ha) in Hlt.
    rewrite <- !(transform_same_forms k _ HK) in Hlt. apply lex_cmp_Gt_Lt in Hlt.
    rewrite Hlt. reflexivity.
  - intros Hs. apply (transform_identity k a b HK Ha Hb) in Hs. apply lex_cmp_eq in Hs.
    rewrite Hs. reflexivity.
Qed.

Theorem alpha_bounds : forall cs s e ans, cs <> [] ->
  ideal_range KAlpha cs (AB s) (AB e) ans =
  let e' := if (length e =? 0)%nat
            then match hd_error (rev cs) with Some l => removelast (lgk l) | None => [] end
            else e in
  let lo := match lex_cmp s e' with Gt => e' | _ => s end in
  let hi := match lex_cmp s e' with Gt => s | _ => e' end in
  ideal_seq KAlpha (filter (in_range (lo ++ [0]) (hi ++ [0])) cs) ans.
Proof.
  intros cs s e ans Hne. destruct cs as [|c cs]; [exfalso; apply Hne; reflexivity|].
  cbv zeta. unfold ideal_range. cbn [akey_bytes].
  destruct (lex_cmp s _); reflexivity.
Qed.

(* ================================================================== *)
(* C04                                                                 *)
(* ================================================================== *)
Theorem prefix_reference : forall k ops p stop, history_ok k (ops ++ [Prefix p stop]) = true ->
  snd (step k (st_of k ops) (Prefix p stop)) = ideal_prefix k (cs_of k ops) p (stop_ans stop).
Proof. intros k ops p stop H. apply (query_after k ops (Prefix p stop) H). Qed.

Lemma filter_all : forall {A} (f : A -> bool) l, (forall x, f x = true) -> filter f l = l.
Proof.
  intros A f l H. induction l as [|x l IH]; [reflexivity|]. cbn [filter]. rewrite H, IH. reflexivity.
Qed.

Lemma has_prefix_nil : forall s, has_prefix s [] = true.
Proof. intros [|x s]; reflexivity. Qed.

Theorem prefix_alpha : forall cs pb ans, ideal_prefix KAlpha cs (AB pb) ans =
  ideal_seq KAlpha (filter (fun l => has_prefix (akey_bytes (key_of KAlpha l)) pb) cs) ans.
Proof.
  intros cs pb ans. unfold ideal_prefix. cbn [akey_bytes].
  destruct pb as [|x pb]; cbn [length Nat.eqb].
  - rewrite filter_all; [reflexivity|]. intros l. apply has_prefix_nil.
  - reflexivity.
Qed.

Theorem prefix_collation : forall cs o c ans, ideal_prefix KCollation cs (AC o c) ans =
  ideal_seq KCollation (filter (fun l => has_prefix (lgk l) o) cs) ans.
Proof.
  intros cs o c ans. unfold ideal_prefix. cbn [akey_bytes].
  destruct o as [|x o]; cbn [length Nat.eqb].
  - rewrite filter_all; [reflexivity|]. intros l. apply has_prefix_nil.
  - reflexivity.
Qed.

Theorem stored_original : forall k ops l, k = KAlpha -> history_ok k ops = true ->
  (forall a v, In (Insert a v) ops -> akey_ok k a = true) ->
  In l (cs_of k ops) -> exists x v, In (Insert (AB x) v) ops /\ key_of KAlpha l = AB x.
Proof.
  intros k ops l -> _ Hok Hl.
  destruct (stored_from_history KAlpha ops l Hl) as (a & v & Ha & Et).
  pose proof (Hok a v Ha) as Hk.
  destruct a as [x| | | | |]; cbn [akey_ok] in Hk; try discriminate Hk.
  exists x, v. split; [exact Ha|]. cbn [transform] in Et. injection Et as E1 E2.
  unfold key_of, to_leaf. cbn [restore leaf_gk]. rewrite E1, removelast_last. reflexivity.
Qed.

(* ================================================================== *)
(* C05                                                                 *)
(* ================================================================== *)
Theorem extremes : forall k ops q, (q = Minimum \/ q = Maximum) -> history_ok k ops = true ->
  snd (step k (st_of k ops) q) =
  match q with
  | Minimum => ideal_kv k (hd_error (cs_of k ops))
  | _ => ideal_kv k (hd_error (rev (cs_of k ops)))
  end.
Proof.
  intros k ops q [-> | ->] H.
  - apply (query_after_pure k ops Minimum eq_refl H).
  - apply (query_after_pure k ops Maximum eq_refl H).
Qed.

Lemma ideal_kv_none : forall k o, ideal_kv k o = ONone <-> o = None.
Proof. intros k [l|]; cbn [ideal_kv]; split; intros H; try discriminate H; reflexivity. Qed.

Theorem none_iff_empty : forall k ops, history_ok k ops = true ->
  (snd (step k (st_of k ops) Minimum) = ONone <-> cs_of k ops = []) /\
  (snd (step k (st_of k ops) Maximum) = ONone <-> cs_of k ops = []).
Proof.
  intros k ops H. split.
  - rewrite (query_after_pure k ops Minimum eq_refl H). cbn [ideal_step snd].
    rewrite ideal_kv_none. destruct (cs_of k ops); cbn [hd_error]; split; intros E; try discriminate E; reflexivity.
  - rewrite (query_after_pure k ops Maximum eq_refl H). cbn [ideal_step snd].
    rewrite ideal_kv_none. destruct (cs_of k ops) as [|c cs]; [split; reflexivity|].
    split; [|intros E; discriminate E]. intros E. exfalso.
    assert (El : length (rev (c :: cs)) = 0%nat).
    { destruct (rev (c :: cs)); [reflexivity|discriminate E]. }
    rewrite rev_length in El. discriminate El.
Qed.

Theorem bounded : forall k ops n stop, history_ok k ops = true ->
  snd (step k (st_of k ops) (BottomK n stop)) =
    ideal_seq k (firstn (N.to_nat (N.min n (N.of_nat (length (cs_of k ops))))) (cs_of k ops))
              (stop_ans stop) /\
  snd (step k (st_of k ops) (TopK n stop)) =
    ideal_seq k (firstn (N.to_nat (N.min n (N.of_nat (length (cs_of k ops))))) (rev (cs_of k ops)))
              (stop_ans stop).
Proof.
  intros k ops n stop H. split.
  - rewrite (query_after_pure k ops (BottomK n stop) eq_refl H). cbn [ideal_step snd].
    rewrite takeN_firstn. reflexivity.
  - rewrite (query_after_pure k ops (TopK n stop) eq_refl H). cbn [ideal_step snd].
    rewrite takeN_firstn, rev_length. reflexivity.
Qed.

(* ================================================================== *)
(* C06                                                                 *)
(* ================================================================== *)
Theorem size_is_cardinality : forall k ops, history_ok k ops = true ->
  snd (step k (st_of k ops) Size) = OSize (Z.of_nat (length (cs_of k ops))) /\
  size (st_of k ops) = Z.of_nat (length (cs_of k ops)).
Proof.
  intros k ops H. destruct (rep_after k ops H) as [_ Hs]. cbn [step snd]. rewrite Hs. auto.
Qed.

Theorem counts_all : forall k ops, history_ok k ops = true ->
  exists l, snd (step k (st_of k ops) (All None)) = OSeq l (length (cs_of k ops)) /\
            length l = length (cs_of k ops).
Proof.
  intros k ops H. destruct (all_backward k ops H) as [Ha _]. cbv zeta in Ha.
  eexists. split; [exact Ha|]. apply map_length.
Qed.

(* ================================================================== *)
(* C08: collation trees                                                *)
(* ================================================================== *)
Theorem collation_map : forall ops,
  (forall p, In p (ins_pairs KCollation ops) -> isbytes (snd p) = true) ->
  (forall p q, In p (ins_pairs KCollation ops) -> In q (ins_pairs KCollation ops) ->
     (fst p = fst q <-> snd p = snd q)) ->
  (forall p q, In p (ins_pairs KCollation ops) -> In q (ins_pairs KCollation ops) ->
     is_prefix (snd p) (snd q) -> snd p = snd q) ->
  (forall p, In p (probe_pairs KCollation ops) -> isbytes (snd p) = true) ->
  (forall p q, In p (probe_pairs KCollation ops) -> In q (ins_pairs KCollation ops) ->
     fst q = fst p -> snd q = snd p) ->
  (forall a b s, ~ In (Range a b s) ops) ->
  outs KCollation ops = snd (ideal_run KCollation [] ops) /\
  map_outputs_ok KCollation [] ops (outs KCollation ops) /\
  (let cs := cs_of KCollation ops in
   StronglySorted lex_lt (map ltk cs) /\ NoDup (map lgk cs) /\
   (forall gk, option_map lv (find_gk gk cs) = hist_lookup KCollation gk ops None)).
Proof.
  intros ops H1 H2 H3 H4 H5 H6.
  pose proof (history_ok_collation_split ops H1 H2 H3 H4 H5 H6) as H.
  split; [apply refines_reference; exact H|]. split; [apply exact_map; exact H|].
  apply content. exact H.
Qed.

Theorem collation_keys_as_inserted : forall l, key_of KCollation l = AC (lgk l) (ltk l).
Proof. intros l. reflexivity. Qed.

Theorem collation_order : forall o c o' c',
  akey_lt KCollation (AC o c) (AC o' c') <-> lex_lt c c'.
Proof. intros. reflexivity. Qed.

(* ================================================================== *)
(* C09: compound trees                                                 *)
(* ================================================================== *)
Lemma compound_history_ok : forall s ops, schema_ok s = true ->
  (forall a, In a (flat_map ins_keys ops) -> exists vs, a = AT vs /\ tuple_ok s vs = true) ->
  (forall a, In a (flat_map (probe_keys (KCompound s)) ops) ->
     exists vs, a = AT vs /\ tuple_ok s vs = true) ->
  history_ok (KCompound s) ops = true.
Proof.
  intros s ops Hs Hi Hp. apply history_ok_valid; [discriminate| |].
  - intros a Ha. destruct (Hi a Ha) as (vs & -> & Hv). cbn [akey_ok]. rewrite Hs, Hv. reflexivity.
  - intros a Ha. destruct (Hp a Ha) as (vs & -> & Hv). cbn [aprobe_ok akey_ok]. rewrite Hs, Hv. reflexivity.
Qed.

Theorem compound_map : forall s ops, schema_ok s = true ->
  (forall a, In a (flat_map ins_keys ops) -> exists vs, a = AT vs /\ tuple_ok s vs = true) ->
  (forall a, In a (flat_map (probe_keys (KCompound s)) ops) ->
     exists vs, a = AT vs /\ tuple_ok s vs = true) ->
  outs (KCompound s) ops = snd (ideal_run (KCompound s) [] ops) /\
  map_outputs_ok (KCompound s) [] ops (outs (KCompound s) ops) /\
  (let cs := cs_of (KCompound s) ops in
   StronglySorted lex_lt (map ltk cs) /\ NoDup (map lgk cs) /\
   (forall gk, option_map lv (find_gk gk cs) = hist_lookup (KCompound s) gk ops None)).
Proof.
  intros s ops Hs Hi Hp. pose proof (compound_history_ok s ops Hs Hi Hp) as H.
  split; [apply refines_reference; exact H|]. split; [apply exact_map; exact H|].
  apply content. exact H.
Qed.

Lemma compound_akey_ok : forall s vs, schema_ok s = true -> tuple_ok s vs = true ->
  akey_ok (KCompound s) (AT vs) = true.
Proof. intros s vs Hs Hv. cbn [akey_ok]. rewrite Hs, Hv. reflexivity. Qed.

(* the stored tuples come back field-wise the same, in tuple order *)
Theorem compound_sorted : forall s ops, schema_ok s = true ->
  (forall a, In a (flat_map ins_keys ops) -> exists vs, a = AT vs /\ tuple_ok s vs = true) ->
  (forall a, In a (flat_map (probe_keys (KCompound s)) ops) ->
     exists vs, a = AT vs /\ tuple_ok s vs = true) ->
  exists keys,
    Forall2 (fun l a => akey_ok (KCompound s) a = true /\
                        (lgk l, ltk l) = transform (KCompound s) a /\
                        akey_same (KCompound s) (key_of (KCompound s) l) a)
            (cs_of (KCompound s) ops) keys /\
    StronglySorted (akey_lt (KCompound s)) keys.
Proof.
  intros s ops Hs Hi Hp. apply declared_order.
  - apply compound_history_ok; assumption.
  - intros a v Ha. destruct (Hi a) as (vs & -> & Hv).
    + apply in_flat_map. exists (Insert a v). split; [exact Ha|left; reflexivity].
    + apply compound_akey_ok; assumption.
Qed.

Theorem compound_order_identity : forall s a b,
  (akey_lt (KCompound s) (AT a) (AT b) <-> tuple_lt s a b) /\
  (akey_same (KCompound s) (AT a) (AT b) <-> tuple_same s a b) /\
  (akey_ok (KCompound s) (AT a) = true <-> schema_ok s = true /\ tuple_ok s a = true).
Proof.
  intros s a b. split; [reflexivity|]. split; [reflexivity|]. cbn [akey_ok]. apply andb_true_iff.
Qed.

Theorem compound_encoding : forall s a b v,
  schema_ok s = true -> tuple_ok s a = true -> tuple_ok s b = true ->
  transform (KCompound s) (AT a) = (enc_tuple s a, enc_tuple s a) /\
  (lex_lt (enc_tuple s a) (enc_tuple s b) <-> tuple_lt s a b) /\
  (enc_tuple s a = enc_tuple s b <-> tuple_same s a b) /\
  (exists a', restore (KCompound s) (Leaf (enc_tuple s a) (enc_tuple s a) v) = AT a' /\
              tuple_same s a' a).
Proof.
  intros s a b v Hs Ha Hb.
  pose proof (compound_akey_ok s a Hs Ha) as Ka. pose proof (compound_akey_ok s b Hs Hb) as Kb.
  split; [reflexivity|].
  split; [exact (transform_order (KCompound s) (AT a) (AT b) Ka Kb)|].
  split.
  - apply (transform_identity (KCompound s) (AT a) (AT b)); [discriminate|exact Ka|exact Kb].
  - exists (dec_tuple s (enc_tuple s a)). split; [reflexivity|].
    exact (restore_transform (KCompound s) (AT a) v Ka).
Qed.

(* ================================================================== *)
(* C11                                                                 *)
(* ================================================================== *)
Theorem wellformed : forall k ops, history_ok k ops = true ->
  match root (st_of k ops) with
  | None => cs_of k ops = [] /\ size (st_of k ops) = 0%Z
  | Some t => WF 0 t /\ leaves t = cs_of k ops /\ size (st_of k ops) = Z.of_nat (length (leaves t))
  end.
Proof.
  intros k ops H. destruct (rep_after k ops H) as [Hr Hs].
  destruct (root (st_of k ops)) as [t|].
  - destruct Hr as [Hw Hl]. rewrite Hl. auto.
  - rewrite Hs, Hr. auto.
Qed.

Theorem shape_depends_on_keys_only : forall k1 k2 ops1 ops2 t1 t2,
  history_ok k1 ops1 = true -> history_ok k2 ops2 = true ->
  root (st_of k1 ops1) = Some t1 -> root (st_of k2 ops2) = Some t2 ->
  map ltk (cs_of k1 ops1) = map ltk (cs_of k2 ops2) -> shape_of t1 = shape_of t2.
Proof.
  intros k1 k2 ops1 ops2 t1 t2 H1 H2 E1 E2 Em.
  pose proof (wellformed k1 ops1 H1) as W1. rewrite E1 in W1. destruct W1 as (W1 & L1 & _).
  pose proof (wellformed k2 ops2 H2) as W2. rewrite E2 in W2. destruct W2 as (W2 & L2 & _).
  apply shape_root; [exact W1|exact W2|]. rewrite L1, L2. exact Em.
Qed.

(* known finding D10: the 8-bit counter of a node holding all 256 children reads 0 *)
Definition full_ops : list (nop nat) := map (fun i => NAdd (N.of_nat i) i) (seq 0 256).
Definition full_node : rnode nat := fold_left node_step full_ops (empty4 hdr0).

Fixpoint ops_okb (l : list (N * nat)) (ops : list (nop nat)) : bool :=
  match ops with
  | [] => true
  | o :: ops' =>
    match o with
    | NAdd b _ => (b <? 256) && match assoc b l with None => true | Some _ => false end
    | NDel b => (b <? 256) && match assoc b l with None => false | Some _ => true end
    end && ops_okb (tab_step l o) ops'
  end.

Lemma ops_okb_spec : forall ops l, ops_okb l ops = true -> ops_ok l ops.
Proof.
  induction ops as [|o ops IH]; intros l H; cbn [ops_okb ops_ok] in *; [exact I|].
  apply andb_true_iff in H. destruct H as [H1 H2]. split; [|apply IH; exact H2].
  destruct o as [b c|b]; cbn [nop_ok]; apply andb_true_iff in H1; destruct H1 as [Hb Ha];
    apply N.ltb_lt in Hb; (split; [exact Hb|]); destruct (assoc b l); congruence.
Qed.

Theorem fanout_256_refuted : exists (n : rnode nat), nwf n /\ nlen n <> N.of_nat (length (nenum n)).
Proof.
  exists full_node. split.
  - assert (Hp : length (prefix hdr0) = maxPrefixLen) by apply repeat_length.
    assert (Hok : ops_ok (C:=nat) [] full_ops) by (apply ops_okb_spec; vm_compute; reflexivity).
    exact (proj1 (node_table hdr0 full_ops Hp Hok)).
  - vm_compute. discriminate.
Qed.

(* ================================================================== *)
(* C15                                                                 *)
(* ================================================================== *)
Theorem failed_delete_identity : forall k st a,
  snd (step k st (Delete a)) = OBool false -> fst (step k st (Delete a)) = st.
Proof.
  intros k st a. cbn [step]. destruct (transform k a) as [gk tk]. unfold do_delete.
  destruct (root st) as [[g t v|n]|]; [| |reflexivity].
  - destruct (beq g gk); cbn [fst snd]; [intros H; discriminate H|reflexivity].
  - destruct (delete_in _ _ _ _ _); cbn [fst snd]; intros H; try reflexivity; discriminate H.
Qed.

Theorem queries_identity : forall k st q,
  match q with Insert _ _ | Delete _ => True | _ => fst (step k st q) = st end.
Proof.
  intros k st q. destruct q; try exact I; cbn [step]; try reflexivity.
  destruct (transform k k0). reflexivity.
Qed.

(* the raw storage with every value set to 0 *)
Definition nmap {C D} (f : C -> D) (n : rnode C) : rnode D :=
  match n with
  | N4 h l ks ch => N4 h l ks (map f ch)
  | N16 h l ks ch => N16 h l ks (map f ch)
  | N48 h l idx slots => N48 h l idx (map (option_map f) slots)
  | N256 h l slots => N256 h l (map (option_map f) slots)
  end.

Fixpoint erase (t : tree) : tree :=
  match t with
  | Leaf gk tk _ => Leaf gk tk 0
  | Inner n => Inner (nmap erase n)
  end.

Lemma map_set_at : forall {A B} (f : A -> B) l i c c',
  nth_error l i = Some c -> f c' = f c -> map f (set_at i c' l) = map f l.
Proof.
  intros A B f l. induction l as [|x l IH]; intros i c c' Hn Hf; destruct i as [|i];
    cbn [nth_error] in Hn; try discriminate Hn; cbn [set_at map].
  - injection Hn as ->. rewrite Hf. reflexivity.
  - rewrite (IH i c c' Hn Hf). reflexivity.
Qed.

Lemma nmap_nreplace : forall {C D} (f : C -> D) (n : rnode C) b c c',
  nfind n b = Some c -> f c' = f c -> nmap f (nreplace n b c') = nmap f n.
Proof.
  intros C D f n b c c' Hf Hc. destruct n as [h l ks ch|h l ks ch|h l idx slots|h l slots];
    cbn [nfind nreplace] in *.
  - destruct (negb (searchNode4 ks b =? -1)%Z && (searchNode4 ks b <? Z.of_N l)%Z); [|discriminate Hf].
    cbn [nmap]. rewrite (map_set_at f ch _ c c' Hf Hc). reflexivity.
  - destruct (searchNode16 ks l b =? -1)%Z; [discriminate Hf|].
    cbn [nmap]. rewrite (map_set_at f ch _ c c' Hf Hc). reflexivity.
  - destruct (nth (N.to_nat b) idx 0 =? 0); [discriminate Hf|].
    destruct (nth_error slots (N.to_nat (nth (N.to_nat b) idx 0 - 1))) as [o|] eqn:En; [|discriminate Hf].
    subst o. cbn [nmap]. rewrite (map_set_at (option_map f) slots _ (Some c) (Some c') En); [reflexivity|].
    cbn [option_map]. rewrite Hc. reflexivity.
  - destruct (nth_error slots (N.to_nat b)) as [o|] eqn:En; [|discriminate Hf].
    subst o. cbn [nmap]. rewrite (map_set_at (option_map f) slots _ (Some c) (Some c') En); [reflexivity|].
    cbn [option_map]. rewrite Hc. reflexivity.
Qed.

(* the three ways an insert below an inner node reports "no key added" *)
Lemma insert_inner_cases : forall f n gk tk v d t',
  insert (S f) (Inner n) gk tk v d = IDone t' false ->
  (exists pdiff, (pdiff < prefixLen (nhdr n))%nat /\ nth_error tk (d + pdiff) = None) \/
  t' = Inner n \/
  (exists b c c', nth_error tk (d + prefixLen (nhdr n)) = Some b /\ nfind n b = Some c /\
     insert f c gk tk v (S (d + prefixLen (nhdr n))) = IDone c' false /\
     t' = Inner (nreplace n b c')).
Proof.
  intros f n gk tk v d t' H. cbn [insert] in H.
  set (pdiff := if (prefixLen (nhdr n) =? 0)%nat then 0%nat else prefixMismatch n tk d) in H.
  destruct (negb (prefixLen (nhdr n) =? 0)%nat && (pdiff <? prefixLen (nhdr n))%nat) eqn:Ec.
  - left. exists pdiff. apply andb_true_iff in Ec. destruct Ec as [_ Ec]. apply Nat.ltb_lt in Ec.
    split; [exact Ec|].
    match type of H with match ?r with _ => _ end = _ => destruct r as [nn|] end; [|discriminate H].
    destruct (nth_error tk (d + pdiff)); [discriminate H|reflexivity].
  - right. destruct (nth_error tk (d + prefixLen (nhdr n))) as [b|] eqn:Eb.
    + destruct (nfind n b) as [c|] eqn:Ef; [|discriminate H].
      destruct (insert f c gk tk v (S (d + prefixLen (nhdr n)))) as [c' added| |] eqn:Ei;
        try discriminate H.
      injection H as <- ->. right. exists b, c, c'. auto.
    + left. injection H as <-. reflexivity.
Qed.

(* an Insert of a present key changes nothing but that key's value *)
Theorem overwrite_value_only : forall fuel t gk tk v d t' l,
  WF d t -> In l (leaves t) -> ltk l = tk ->
  insert fuel t gk tk v d = IDone t' false -> erase t' = erase t.
Proof.
  induction fuel as [|f IH]; intros t gk tk v d t' l Hwf Hl Etk H; [discriminate H|].
  destruct t as [g0 t0 v0|n].
  - cbn [insert] in H. destruct (beq gk g0).
    + injection H as <-. reflexivity.
    + cbv zeta in H. discriminate H.
  - destruct (insert_inner_cases f n gk tk v d t' H) as [(pdiff & Hp & Hn)|[->|(b & c & c' & Hb & Hf & Hi & ->)]].
    + exfalso. destruct (leaf_path_facts d n l Hwf Hl) as (Hlen & _).
      apply nth_error_None in Hn. rewrite Etk in Hlen. lia.
    + reflexivity.
    + destruct (sf_descend d n l Hwf Hl) as (_ & b1 & c1 & Hb1 & Hin & Hlc).
      rewrite Etk, Hb in Hb1. injection Hb1 as <-.
      destruct (WF_inner_inv d n Hwf) as (Hnwf & _).
      assert (Hb256 : b < 256).
      { destruct (nenum_sorted n Hnwf) as [_ Hall]. rewrite Forall_forall in Hall.
        apply Hall. apply in_map_iff. exists (b, c1). split; [reflexivity|exact Hin]. }
      rewrite (sf_nfind_in n b c1 Hnwf Hb256 Hin) in Hf. injection Hf as <-.
      destruct (WF_child d n b c1 Hwf Hin) as [Hwc _].
      replace (d + prefixLen (nhdr n) + 1)%nat with (S (d + prefixLen (nhdr n))) in Hwc by lia.
      pose proof (IH c1 gk tk v _ c' l Hwc Hlc Etk Hi) as He.
      cbn [erase]. f_equal. apply (nmap_nreplace erase n b c1 c'); [|exact He].
      apply (sf_nfind_in n b c1 Hnwf Hb256 Hin).
Qed.

(* the presence hypothesis is needed: on a well-formed tree, a key that ends inside
   a compressed path makes insert split the path, store nothing and report
   "no key added" *)
Definition ow_ops : list op := [Insert (AB [97; 98; 49]) 1; Insert (AB [97; 98; 50]) 2].
Definition ow_tree : tree :=
  match root (st_of KAlpha ow_ops) with Some t => t | None => Leaf [] [] 0 end.
Definition ow_res : tree :=
  match insert 5 ow_tree [97] [97] 7 0 with IDone t' _ => t' | _ => ow_tree end.

Theorem overwrite_needs_presence : exists fuel t gk tk v t',
  WF 0 t /\ insert fuel t gk tk v 0 = IDone t' false /\ erase t' <> erase t.
Proof.
  exists 5%nat, ow_tree, [97], [97], 7%Z, ow_res. split; [|split].
  - assert (H : history_ok KAlpha ow_ops = true) by (vm_compute; reflexivity).
    pose proof (wellformed KAlpha ow_ops H) as W.
    assert (E : root (st_of KAlpha ow_ops) = Some ow_tree) by (vm_compute; reflexivity).
    rewrite E in W. apply W.
  - vm_compute. reflexivity.
  - vm_compute. intros E. discriminate E.
Qed.

(* the same at the level of the API: an Insert of a key the tree holds changes nothing
   in the whole state but that key's value *)
Definition erase_state (st : state) : state := mkState (option_map erase (root st)) (size st).

Lemma in_ins_pairs : forall k ops a v, In (Insert a v) ops -> In (transform k a) (ins_pairs k ops).
Proof.
  intros k ops a v H. unfold ins_pairs. apply in_map. apply in_flat_map.
  exists (Insert a v). split; [exact H|left; reflexivity].
Qed.

Theorem overwrite_state : forall k ops a v, history_ok k (ops ++ [Insert a v]) = true ->
  mem_gk (fst (transform k a)) (cs_of k ops) = true ->
  erase_state (fst (step k (st_of k ops) (Insert a v))) = erase_state (st_of k ops).
Proof.
  intros k ops a v H Hm.
  pose proof (rep_after k ops (history_ok_prefix _ _ _ H)) as Hrep.
  set (P := ins_pairs k (ops ++ [Insert a v])).
  assert (Hok : ins_ok P = true).
  { unfold history_ok in H. apply andb_true_iff in H. destruct H as [H _].
    apply andb_true_iff in H. destruct H as [H _]. exact H. }
  assert (HP : inP P (cs_of k ops)).
  { apply Forall_forall. intros l Hl.
    destruct (stored_from_history k ops l Hl) as (a' & v' & Ha' & Et). rewrite Et.
    apply (in_ins_pairs k _ a' v'). apply in_or_app. left. exact Ha'. }
  assert (Hin : In (transform k a) P).
  { apply (in_ins_pairs k _ a v). apply in_or_app. right. left. reflexivity. }
  cbn [step]. destruct (transform k a) as [gk tk]. cbn [fst] in Hm.
  unfold mem_gk in Hm. apply existsb_exists in Hm. destruct Hm as (l & Hl & El). apply beq_eq in El.
  pose proof (ins_compat P _ gk tk Hok HP Hin) as Hc.
  pose proof (ins_pfree P _ gk tk Hok HP Hin) as Hpf.
  pose proof (ins_isbytes P gk tk Hok Hin) as Hb.
  assert (Etk : ltk l = tk) by (apply (Hc l Hl); exact El).
  destruct (rep_cases _ _ Hrep) as [[[_ Ec]|(t & Er & Hwf & Hlv)] _].
  - rewrite Ec in Hl. destruct Hl.
  - rewrite <- Hlv in Hc, Hpf, Hl.
    destruct (insert_spec t gk tk v Hwf Hb Hc Hpf) as (t' & Hi & _ & _).
    assert (Em : mem_gk gk (leaves t) = true).
    { unfold mem_gk. apply existsb_exists. exists l. split; [exact Hl|]. apply beq_eq. exact El. }
    rewrite Em in Hi. cbn [negb] in Hi.
    unfold do_insert, key_fuel. rewrite Er, Hi. unfold erase_state. cbn [fst root size].
    rewrite Er. cbn [option_map].
    rewrite (overwrite_value_only _ t gk tk v 0 t' l Hwf Hl Etk Hi). reflexivity.
Qed.
