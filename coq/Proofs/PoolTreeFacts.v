(* C12 at the tree layer: interleaved trees over one shared recycling pool are independent
   (model: Model/PoolTree.v; node layer: Proofs/PoolFacts.v).

   1. nadd_rmap, ndel_rmap, nreplace_rmap, nfind_rmap, nenum_rmap, nwf_rmap, xabs_xmap: the node
      operations of Model/Node.v commute with mapping the children, so the abstraction tabs can be
      pushed through them.
   2. xfind_abs, xreplace_abs, xset_hdr_abs: the raw lookup, the in-place slot write and the header
      field writes are nfind / nreplace / nset_hdr on the occupied part (under xwf).
   3. xtwf: xwf at every inner node reachable through occupied cells.
      xsearch_sim (under xtwf), xinsert_sim (under xtwf, WF, byte key, shares), xdelete_sim (under
      xtwf, byte key): the pool-passing operations are search / insert / delete_in of Model/Tree.v
      on the abstraction, for every answer of the pool; they keep the pool zero and xtwf.
      Why WF is needed for Insert and only there: in the compressed-path split of a path longer than
      the inline bytes the branch byte of the old node is read from the minimum leaf; that it
      differs from the key's byte (the second addChild adds an ABSENT byte, the contract of
      xadd_sim) is a fact about the compressed path, i.e. WF (Proofs/InsertFacts.pm_spec).
   4. xinsert_irr2, xdelete_irr2, xstep_irr: out of a zero pool the result of a method call does not
      depend on the pool or on its answers -- NO well-formedness, any tree, any key.
   5. xstep_sim, mstep_sim: one method call over the pool is Api.step on the abstracted state.
   6. xalone_sim, wf_hist_history_ok: a tree alone over a private pool is Api.run, on histories
      meeting wf_hist (implied by history_ok).
   7. trees_alone: ANY trees in ANY states, any interleaving, any answers, any drops: every tree
      gives the outputs and ends in the state it has alone over a private empty pool (unconditional).
      trees_independent(_gen): ... which are those of Api.run on its own operations, when ITS OWN
      history is history_ok (wf_hist); the other trees are arbitrary.
   8. trees_recycle_example, trees_dirty_observable: nodes do travel between trees; one stale cell
      in a pooled node is observable at the API.
   No hypothesis on the values of the regenerated constants beyond params_ok (except in the closed
   examples, which compute). *)
From GoArt Require Import Base.Bytes Model.Node4 Model.Node16 Model.Node Model.Tree Model.Iter Model.Api
  Spec.NodeSpec Spec.TreeSpec Spec.Ideal
  Proofs.BytesFacts Proofs.Node4Facts Proofs.NodeAuxAssoc Proofs.NodeAuxList Proofs.NodeAuxArr
  Proofs.NodeFacts Proofs.TreeBasics Proofs.InsertFacts Proofs.DeleteFacts Proofs.SearchFacts Proofs.ApiFacts.
From GoArt Require Import Model.Pool Proofs.PoolFacts Model.PoolTree.
From Coq Require Import ZifyN ZifyNat ZifyBool.
Ltac Zify.zify_post_hook ::= Z.div_mod_to_equations.
Open Scope N_scope.

Local Opaque maxNode4 maxNode16 maxNode48 shrink16 shrink48 shrink256 maxPrefixLen.

(* ================= 1. mapping the children: the node operations are natural ================= *)
Section Natural.
Context {C D : Type} (f : C -> D).
Local Notation om := (omap f).
Local Notation pm := (fun bc : N * C => (fst bc, f (snd bc))).

Lemma somes_omap : forall l : list (option C), somes (map om l) = map f (somes l).
Proof.
  induction l as [|[c|] l IH]; cbn [map omap somes]; [reflexivity|f_equal; exact IH|exact IH].
Qed.

Lemma xabs_xmap : forall n : xnode C, xabs (xmap f n) = rmap f (xabs n).
Proof.
  intros [h keys ch|h keys ch|h idx ch|h ch]; cbn [xmap xabs rmap]; try reflexivity;
    rewrite firstn_map, somes_omap; reflexivity.
Qed.

Lemma xh_xmap : forall n : xnode C, xh (xmap f n) = xh n.
Proof. intros [h keys ch|h keys ch|h idx ch|h ch]; reflexivity. Qed.

Lemma nhdr_rmap : forall n : rnode C, nhdr (rmap f n) = nhdr n.
Proof. intros [h len keys ch|h len keys ch|h len idx slots|h len slots]; reflexivity. Qed.

Lemma nset_hdr_rmap : forall (n : rnode C) h, rmap f (nset_hdr n h) = nset_hdr (rmap f n) h.
Proof. intros [h0 len keys ch|h0 len keys ch|h0 len idx slots|h0 len slots] h; reflexivity. Qed.

Lemma nth_error_omap : forall (l : list (option C)) i,
  match nth_error (map om l) i with Some s => s | None => None end =
  om (match nth_error l i with Some s => s | None => None end).
Proof. intros l i. rewrite nth_error_map. destruct (nth_error l i) as [[c|]|]; reflexivity. Qed.

Lemma nth_error_map_om : forall (l : list C) i, nth_error (map f l) i = om (nth_error l i).
Proof. intros l i. rewrite nth_error_map. destruct (nth_error l i); reflexivity. Qed.

Lemma nfind_rmap : forall (n : rnode C) b, nfind (rmap f n) b = om (nfind n b).
Proof.
  intros [h len keys ch|h len keys ch|h len idx slots|h len slots] b; cbn [rmap nfind].
  - destruct (_ && _); [apply nth_error_map_om|reflexivity].
  - destruct (_ =? _)%Z; [reflexivity|apply nth_error_map_om].
  - destruct (_ =? 0); [reflexivity|apply nth_error_omap].
  - apply nth_error_omap.
Qed.

Lemma combine_map_r : forall (ks : list N) (ch : list C),
  combine ks (map f ch) = map pm (combine ks ch).
Proof.
  induction ks as [|k ks IH]; intros [|c ch]; cbn [map combine]; try reflexivity. f_equal. apply IH.
Qed.

Lemma enum_idx_omap : forall idx (slots : list (option C)) k,
  enum_idx idx (map om slots) k = map pm (enum_idx idx slots k).
Proof.
  induction idx as [|i idx IH]; intros slots k; cbn [enum_idx]; [reflexivity|].
  rewrite map_app, IH. f_equal. destruct (i =? 0); [reflexivity|].
  rewrite nth_error_map. destruct (nth_error slots (N.to_nat (i - 1))) as [[c|]|]; reflexivity.
Qed.

Lemma enum_slots_omap : forall (slots : list (option C)) k,
  enum_slots (map om slots) k = map pm (enum_slots slots k).
Proof.
  induction slots as [|[c|] slots IH]; intros k; cbn [map omap enum_slots app]; [reflexivity| |apply IH].
  f_equal. apply IH.
Qed.

Lemma nenum_rmap : forall n : rnode C, nenum (rmap f n) = map pm (nenum n).
Proof.
  intros [h len keys ch|h len keys ch|h len idx slots|h len slots]; cbn [rmap nenum].
  - apply combine_map_r.
  - apply combine_map_r.
  - apply enum_idx_omap.
  - apply enum_slots_omap.
Qed.

Lemma map_fst_pm : forall l : list (N * C), map fst (map pm l) = map fst l.
Proof. intros l. rewrite map_map. reflexivity. Qed.
Lemma map_snd_pm : forall l : list (N * C), map snd (map pm l) = map f (map snd l).
Proof. intros l. rewrite !map_map. reflexivity. Qed.

Lemma assoc_pm : forall b (l : list (N * C)), assoc b (map pm l) = om (assoc b l).
Proof.
  intros b l. induction l as [|[k c] l IH]; cbn [map assoc fst snd]; [reflexivity|].
  destruct (k =? b); [reflexivity|exact IH].
Qed.

Lemma map_insert_at : forall i (x : C) l, map f (insert_at i x l) = insert_at i (f x) (map f l).
Proof.
  induction i as [|i IH]; intros x [|y l]; cbn [insert_at map]; try reflexivity. f_equal. apply IH.
Qed.
Lemma map_set_at : forall {A B} (g : A -> B) i (x : A) l, map g (set_at i x l) = set_at i (g x) (map g l).
Proof.
  intros A B g. induction i as [|i IH]; intros x [|y l]; cbn [set_at map]; try reflexivity. f_equal. apply IH.
Qed.
Lemma map_remove_at : forall {A B} (g : A -> B) i (l : list A), map g (remove_at i l) = remove_at i (map g l).
Proof.
  intros A B g. induction i as [|i IH]; intros [|y l]; cbn [remove_at map]; try reflexivity. f_equal. apply IH.
Qed.
Lemma first_free_omap : forall (slots : list (option C)) i, first_free (map om slots) i = first_free slots i.
Proof.
  induction slots as [|[c|] slots IH]; intros i; cbn [map omap first_free]; try reflexivity. apply IH.
Qed.
Lemma map_repeat_None : forall k, map om (repeat None k) = repeat None k.
Proof. induction k as [|k IH]; cbn [repeat map omap]; [reflexivity|f_equal; exact IH]. Qed.

Lemma add256_rmap : forall h len (slots : list (option C)) b c,
  rmap f (add256 h len slots b c) = add256 h len (map om slots) b (f c).
Proof. intros. unfold add256. cbn [rmap]. rewrite (map_set_at om). reflexivity. Qed.

Lemma add48_rmap : forall h len idx (slots : list (option C)) b c,
  rmap f (add48 h len idx slots b c) = add48 h len idx (map om slots) b (f c).
Proof.
  intros. unfold add48. destruct (len <? maxNode48).
  - cbn [rmap]. rewrite first_free_omap, (map_set_at om). reflexivity.
  - rewrite add256_rmap. f_equal. rewrite map_map. apply map_ext. intros i.
    destruct (i =? 0); [reflexivity|]. symmetry. apply nth_error_omap.
Qed.

Lemma add16_rmap : forall h len keys (ch : list C) b c,
  rmap f (add16 h len keys ch b c) = add16 h len keys (map f ch) b (f c).
Proof.
  intros. unfold add16. destruct (len <? maxNode16).
  - destruct (_ =? _)%Z; cbn [rmap].
    + rewrite map_app. reflexivity.
    + rewrite map_insert_at. reflexivity.
  - rewrite add48_rmap. f_equal. rewrite map_app, map_repeat_None, firstn_map, !map_map. reflexivity.
Qed.

Lemma add4_rmap : forall h len keys (ch : list C) b c,
  rmap f (add4 h len keys ch b c) = add4 h len keys (map f ch) b (f c).
Proof.
  intros. unfold add4. destruct (len <? maxNode4).
  - destruct (_ =? _)%Z; cbn [rmap].
    + rewrite map_app. reflexivity.
    + rewrite map_insert_at. reflexivity.
  - apply add16_rmap.
Qed.

Theorem nadd_rmap : forall (n : rnode C) b c, rmap f (nadd n b c) = nadd (rmap f n) b (f c).
Proof.
  intros [h len keys ch|h len keys ch|h len idx slots|h len slots] b c; cbn [nadd rmap].
  - apply add4_rmap.
  - apply add16_rmap.
  - apply add48_rmap.
  - apply add256_rmap.
Qed.

Theorem ndel_rmap : forall (n : rnode C) b, rmap f (ndel n b) = ndel (rmap f n) b.
Proof.
  intros [h len keys ch|h len keys ch|h len idx slots|h len slots] b; cbn [ndel rmap].
  - destruct (_ =? _)%Z; cbn [rmap]; [reflexivity|]. rewrite map_remove_at. reflexivity.
  - destruct (_ =? shrink16); cbn [rmap]; rewrite map_remove_at; reflexivity.
  - rewrite <- (map_set_at om _ None). rewrite enum_idx_omap.
    destruct (_ =? shrink48); cbn [rmap]; [|reflexivity].
    rewrite map_fst_pm, map_snd_pm, map_length. reflexivity.
  - rewrite <- (map_set_at om _ None). rewrite enum_slots_omap.
    destruct (_ =? shrink256); cbn [rmap]; [|reflexivity].
    rewrite map_fst_pm, map_length, map_app, map_repeat_None, !map_map. reflexivity.
Qed.

Theorem nreplace_rmap : forall (n : rnode C) b c, rmap f (nreplace n b c) = nreplace (rmap f n) b (f c).
Proof.
  intros [h len keys ch|h len keys ch|h len idx slots|h len slots] b c; cbn [nreplace rmap].
  - destruct (_ && _); cbn [rmap]; [rewrite (map_set_at f)|]; reflexivity.
  - destruct (_ =? _)%Z; cbn [rmap]; [|rewrite (map_set_at f)]; reflexivity.
  - destruct (_ =? 0); cbn [rmap]; [|rewrite (map_set_at om)]; reflexivity.
  - rewrite (map_set_at om). reflexivity.
Qed.

Lemma nwf_rmap : forall n : rnode C, nwf n -> nwf (rmap f n).
Proof.
  intros [h len keys ch|h len keys ch|h len idx slots|h len slots] [Hp H]; split; try exact Hp;
    cbn [rmap nwf] in *.
  - rewrite map_length. exact H.
  - rewrite map_length. exact H.
  - destruct H as (Hi & Hs & Hpt & Hinj & Hback & Hl & Hlo & Hm).
    rewrite map_length, enum_idx_omap, map_length.
    split; [exact Hi|]. split; [exact Hs|]. split.
    { intros b Hb. destruct (Hpt b Hb) as [H0|(H1 & H2 & c & Hc)]; [left; exact H0|right].
      split; [exact H1|]. split; [exact H2|]. exists (f c). rewrite nth_error_map, Hc. reflexivity. }
    split; [exact Hinj|]. split.
    { intros i d Hd. rewrite nth_error_map in Hd.
      destruct (nth_error slots i) as [[c|]|] eqn:E; cbn [option_map omap] in Hd; try discriminate.
      apply (Hback i c E). }
    split; [exact Hl|]. split; assumption.
  - rewrite map_length, enum_slots_omap, map_length. exact H.
Qed.

End Natural.

(* ================= 2. raw lookups and in-place writes against Model/Node.v ================= *)
Section RawFacts.
Context {C : Type}.
Implicit Types (n : xnode C) (b : N) (c : C).

Lemma slot_occ : forall (ch : list (option C)) m i, forallb isome (firstn m ch) = true -> (i < m)%nat ->
  slot ch i = nth_error (somes (firstn m ch)) i.
Proof.
  intros ch m i Ho Hi. unfold slot. rewrite <- (InsertFacts.nth_error_firstn_lt ch m i Hi).
  apply occ_map in Ho. rewrite Ho at 1. rewrite nth_error_map.
  destruct (nth_error (somes (firstn m ch)) i); reflexivity.
Qed.

Lemma firstn_set_at : forall {A} i m (x : A) l, (i < m)%nat -> firstn m (set_at i x l) = set_at i x (firstn m l).
Proof.
  intros A. induction i as [|i IH]; intros [|m] x [|y l] H; cbn [set_at firstn]; try reflexivity; try lia.
  f_equal. apply IH. lia.
Qed.

Lemma occ_set : forall (ch : list (option C)) m i c, forallb isome (firstn m ch) = true -> (i < m)%nat ->
  firstn m (set_at i (Some c) ch) = map Some (set_at i c (somes (firstn m ch))).
Proof.
  intros ch m i c Ho Hi. rewrite firstn_set_at by exact Hi. apply occ_map in Ho. rewrite Ho at 1.
  rewrite <- (map_set_at (@Some C)). reflexivity.
Qed.

Lemma searchNode4_ge : forall keys b, (-1 <= searchNode4 keys b)%Z.
Proof. intros keys b. unfold searchNode4. destruct (_ =? 0); lia. Qed.

Lemma search16_cases : forall keys len b, length keys = 16%nat -> len <= 16 ->
  searchNode16 keys len b = (-1)%Z \/
  exists k, searchNode16 keys len b = Z.of_nat k /\ (k < N.to_nat len)%nat.
Proof.
  intros keys len b Hk Hl. rewrite searchNode16_spec by assumption.
  destruct (ff_cases (fun x => x =? b) (firstn (N.to_nat len) keys)) as [[E _]|(k & E & Hlt & _)].
  - left. exact E.
  - right. exists k. split; [exact E|]. rewrite firstn_length in Hlt. lia.
Qed.

(* findChild on the raw storage is nfind on the occupied part *)
Theorem xfind_abs : forall n b, xwf n -> xfind n b = nfind (xabs n) b.
Proof.
  intros [h keys ch|h keys ch|h idx ch|h ch] b Hx; cbn [xfind xabs nfind]; try reflexivity.
  - destruct (xwf4_inv _ _ _ Hx) as (Hc & Ho & Hm4 & Hcs).
    pose proof (searchNode4_ge keys b) as Hge.
    destruct (negb (searchNode4 keys b =? -1)%Z && (searchNode4 keys b <? Z.of_N (xlen h))%Z) eqn:E; [|reflexivity].
    apply slot_occ; [exact Ho|lia].
  - destruct (xwf16_inv _ _ _ Hx) as (Hk & Hc & Ho & Hm16 & Hcs).
    destruct (search16_cases keys (xlen h) b Hk ltac:(lia)) as [E|(k & E & Hlt)]; rewrite E.
    + reflexivity.
    + destruct (Z.of_nat k =? -1)%Z eqn:E1; [lia|]. rewrite Nat2Z.id. apply slot_occ; assumption.
Qed.

(* the in-place write of the slot findChild returned is nreplace *)
Theorem xreplace_abs : forall n b c, xwf n ->
  xabs (xreplace n b c) = nreplace (xabs n) b c /\
  shape_ok (xreplace n b c) = true /\ occupied_ok (xreplace n b c) = true.
Proof.
  intros [h keys ch|h keys ch|h idx ch|h ch] b c Hx; cbn [xreplace xabs nreplace].
  - destruct (xwf4_inv _ _ _ Hx) as (Hc & Ho & Hm4 & Hcs). destruct Hx as (Hs & Hoc & _).
    pose proof (searchNode4_ge keys b) as Hge.
    destruct (negb (searchNode4 keys b =? -1)%Z && (searchNode4 keys b <? Z.of_N (xlen h))%Z) eqn:E;
      [|split; [reflexivity|split; assumption]].
    cbn [xabs shape_ok occupied_ok]. rewrite occ_set by (try assumption; lia).
    rewrite somes_map, length_set_at. split; [reflexivity|]. split; [exact Hs|apply occ_of_map].
  - destruct (xwf16_inv _ _ _ Hx) as (Hk & Hc & Ho & Hm16 & Hcs). destruct Hx as (Hs & Hoc & _).
    destruct (search16_cases keys (xlen h) b Hk ltac:(lia)) as [E|(k & E & Hlt)]; rewrite E.
    + cbn [Z.eqb]. split; [reflexivity|split; assumption].
    + destruct (Z.of_nat k =? -1)%Z eqn:E1; [lia|]. rewrite Nat2Z.id.
      cbn [xabs shape_ok occupied_ok]. rewrite occ_set by assumption.
      rewrite somes_map, length_set_at. split; [reflexivity|]. split; [exact Hs|apply occ_of_map].
  - destruct Hx as (Hs & _ & _).
    destruct (nth (N.to_nat b) idx 0 =? 0); cbn [xabs shape_ok occupied_ok];
      rewrite ?length_set_at; split; try reflexivity; split; try reflexivity; exact Hs.
  - destruct Hx as (Hs & _ & _). cbn [xabs shape_ok occupied_ok]. rewrite length_set_at.
    split; [reflexivity|]. split; [exact Hs|reflexivity].
Qed.

Corollary xreplace_xwf : forall n b c, xwf n -> b < 256 -> assoc b (nenum (xabs n)) <> None ->
  xwf (xreplace n b c) /\ nenum (xabs (xreplace n b c)) = repl_key b c (nenum (xabs n)) /\
  xh (xreplace n b c) = xh n.
Proof.
  intros n b c Hx Hb Ha. destruct (xreplace_abs n b c Hx) as (E & Hs & Ho).
  destruct (nreplace_spec (xabs n) b c ltac:(apply Hx) Hb Ha) as (Hn & En & _).
  split; [|split].
  - split; [exact Hs|]. split; [exact Ho|]. rewrite E. exact Hn.
  - rewrite E. exact En.
  - destruct n as [h keys ch|h keys ch|h idx ch|h ch]; cbn [xreplace];
      repeat match goal with |- context [if ?t then _ else _] => destruct t end; reflexivity.
Qed.

Lemma xset_hdr_abs : forall n pl px, xabs (xset_hdr n pl px) = nset_hdr (xabs n) (mkHdr pl px).
Proof. intros [h keys ch|h keys ch|h idx ch|h ch] pl px; reflexivity. Qed.

Lemma xset_hdr_xwf : forall n pl px, xwf n -> length px = maxPrefixLen ->
  xwf (xset_hdr n pl px) /\ nenum (xabs (xset_hdr n pl px)) = nenum (xabs n).
Proof.
  intros n pl px (Hs & Ho & Hn) Hl. rewrite xset_hdr_abs.
  destruct (nset_hdr_spec (xabs n) (mkHdr pl px) Hn Hl) as (Hn' & En & _).
  split; [|exact En]. split; [|split; [|rewrite xset_hdr_abs; exact Hn']].
  - destruct n as [h keys ch|h keys ch|h idx ch|h ch]; exact Hs.
  - destruct n as [h keys ch|h keys ch|h idx ch|h ch]; exact Ho.
Qed.

Lemma xabs_hdr_eq : forall n, nhdr (xabs n) = xabs_hdr (xh n).
Proof. intros [h keys ch|h keys ch|h idx ch|h ch]; reflexivity. Qed.

(* find returns a registered child, whatever the probed value (Proofs/SearchFacts.sf_nfind_child, any child type) *)
Lemma nfind_child : forall (r : rnode C) b c, nwf r -> nfind r b = Some c -> exists b', In (b', c) (nenum r).
Proof.
  intros r b c Hwf H. params. destruct (b <? 256) eqn:Eb.
  - rewrite nfind_spec in H by (assumption || lia). exists b. apply assoc_in. exact H.
  - destruct r as [h len keys ch|h len keys ch|h len idx slots|h len slots]; cbn [nfind] in H.
    + destruct Hwf as (_ & Hk & Hl & Hm & _).
      destruct (_ && _); [|discriminate]. cbn [nenum]. eapply sf_in_combine_nth; [exact H|].
      rewrite firstn_length, lanes_length. lia.
    + destruct Hwf as (_ & Hk & _ & Hl & _ & Hm & _).
      destruct (_ =? -1)%Z; [discriminate|]. cbn [nenum]. eapply sf_in_combine_nth; [exact H|].
      rewrite firstn_length. lia.
    + destruct Hwf as (_ & Hi & _). rewrite nth_overflow in H by lia.
      rewrite N.eqb_refl in H. discriminate.
    + destruct Hwf as (_ & Hs & _).
      assert (E : nth_error slots (N.to_nat b) = None) by (apply nth_error_None; lia).
      rewrite E in H. discriminate.
Qed.

End RawFacts.

(* ================= 3. the raw invariant of a whole tree ================= *)
(* xwf (Proofs/PoolFacts.v: array sizes, occupied cells non-nil, nwf of the occupied part) at every
   inner node reachable through occupied cells; stale cells are unconstrained *)
Inductive xtwf : xtree -> Prop :=
| xtwf_leaf : forall gk tk v, xtwf (XLeaf gk tk v)
| xtwf_inner : forall n, xwf n -> (forall b c, In (b, c) (nenum (xabs n)) -> xtwf c) -> xtwf (XInner n).

Implicit Types (n : xnode xtree) (t : xtree) (p : xpool).

Lemma xtwf_inv : forall n, xtwf (XInner n) -> xwf n /\ (forall b c, In (b, c) (nenum (xabs n)) -> xtwf c).
Proof. intros n H. inversion H; subst. split; assumption. Qed.

Lemma tabs_inner : forall n, tabs (XInner n) = Inner (nabs n).
Proof. reflexivity. Qed.
Lemma nabs_rmap : forall n, nabs n = rmap tabs (xabs n).
Proof. intros n. unfold nabs. apply xabs_xmap. Qed.
Lemma nhdr_nabs : forall n, nhdr (nabs n) = xabs_hdr (xh n).
Proof. intros n. rewrite nabs_rmap, nhdr_rmap. apply xabs_hdr_eq. Qed.
Lemma nwf_nabs : forall n, xwf n -> nwf (nabs n).
Proof. intros n Hx. rewrite nabs_rmap. apply nwf_rmap. apply Hx. Qed.
Lemma nfind_nabs : forall n b, xwf n -> nfind (nabs n) b = omap tabs (xfind n b).
Proof. intros n b Hx. rewrite nabs_rmap, nfind_rmap, xfind_abs by exact Hx. reflexivity. Qed.
Lemma nenum_nabs : forall n, nenum (nabs n) = map (fun bc => (fst bc, tabs (snd bc))) (nenum (xabs n)).
Proof. intros n. rewrite nabs_rmap. apply nenum_rmap. Qed.
Lemma in_nenum_nabs : forall n b c, In (b, c) (nenum (xabs n)) -> In (b, tabs c) (nenum (nabs n)).
Proof.
  intros n b c H. rewrite nenum_nabs. apply (in_map (fun bc : N * xtree => (fst bc, tabs (snd bc))) _ _ H).
Qed.
Lemma nabs_set_hdr : forall n pl px, nabs (xset_hdr n pl px) = nset_hdr (nabs n) (mkHdr pl px).
Proof. intros n pl px. rewrite !nabs_rmap, xset_hdr_abs. apply nset_hdr_rmap. Qed.
Lemma nabs_replace : forall n b c, xwf n -> nabs (xreplace n b c) = nreplace (nabs n) b (tabs c).
Proof.
  intros n b c Hx. rewrite !nabs_rmap. destruct (xreplace_abs n b c Hx) as (E & _). rewrite E.
  apply nreplace_rmap.
Qed.
Lemma xfind_child : forall n b c, xwf n -> xfind n b = Some c -> exists b', In (b', c) (nenum (xabs n)).
Proof. intros n b c Hx H. rewrite xfind_abs in H by exact Hx. eapply nfind_child; [apply Hx|exact H]. Qed.
Lemma xfind_in : forall n b c, xwf n -> b < 256 -> xfind n b = Some c -> In (b, c) (nenum (xabs n)).
Proof.
  intros n b c Hx Hb H. rewrite xfind_abs in H by exact Hx.
  rewrite nfind_spec in H by (try apply Hx; exact Hb). apply assoc_in. exact H.
Qed.

Lemma in_ins_sorted : forall {C} b (c : C) l x, In x (ins_sorted b c l) -> x = (b, c) \/ In x l.
Proof.
  intros C b c. induction l as [|[k y] l IH]; intros x H; cbn [ins_sorted] in H.
  - destruct H as [<-|[]]. left. reflexivity.
  - destruct (b <? k).
    + destruct H as [<-|H]; [left; reflexivity|right; exact H].
    + destruct H as [<-|H]; [right; left; reflexivity|].
      destruct (IH x H) as [E|E]; [left; exact E|right; right; exact E].
Qed.
Lemma in_repl_key : forall {C} b (c : C) l x, In x (repl_key b c l) -> x = (b, c) \/ In x l.
Proof.
  intros C b c. induction l as [|[k y] l IH]; intros x H; cbn [repl_key] in H; [contradiction|].
  destruct (N.eqb_spec k b) as [->|Hne].
  - destruct H as [<-|H]; [left; reflexivity|right; right; exact H].
  - destruct H as [<-|H]; [right; left; reflexivity|].
    destruct (IH x H) as [E|E]; [left; exact E|right; right; exact E].
Qed.
Lemma in_rem_key : forall {C} b l (x : N * C), In x (rem_key b l) -> In x l.
Proof.
  intros C b. induction l as [|[k y] l IH]; intros x H; cbn [rem_key] in H; [contradiction|].
  destruct (k =? b); [right; exact H|]. destruct H as [<-|H]; [left; reflexivity|right; apply IH; exact H].
Qed.

(* ---- Search ---- *)
Theorem xsearch_sim : forall fuel t gk tk d, xtwf t ->
  xsearch fuel t gk tk d = search fuel (tabs t) gk tk d.
Proof.
  induction fuel as [|f IH]; intros t gk tk d Hxt; [reflexivity|].
  destruct t as [lgk ltk lv|n]; [reflexivity|].
  destruct (xtwf_inv _ Hxt) as [Hx Hch].
  rewrite tabs_inner. cbn [xsearch search]. rewrite nhdr_nabs.
  destruct (_ && _); [reflexivity|].
  destruct (nth_error tk _) as [b|]; [|reflexivity].
  rewrite nfind_nabs by exact Hx.
  destruct (xfind n b) as [c|] eqn:E; cbn [omap]; [|reflexivity].
  apply IH. destruct (xfind_child n b c Hx E) as [b' Hin]. apply (Hch b' c Hin).
Qed.

(* ---- the two node-level steps of Insert at tree level ---- *)
Lemma copy_into_full : forall dst src : list N, length dst = length src -> copy_into dst src = src.
Proof.
  intros dst src H. unfold copy_into. rewrite H, Nat.min_id, firstn_all.
  rewrite <- H, skipn_all. apply app_nil_r.
Qed.

Lemma xnew4_tree : forall pl src os (p : xpool), zero_pool p ->
  xwf (fst (xnew4 pl src os p)) /\ nenum (xabs (fst (xnew4 pl src os p))) = [] /\
  zero_pool (snd (xnew4 pl src os p)) /\
  nabs (fst (xnew4 pl src os p)) = new4 (mkHdr pl (copy_into (prefix hdr0) src)).
Proof.
  intros pl src os p Hp. destruct (xnew4_sim pl src os p Hp) as (E & Hx).
  split; [exact Hx|]. split; [rewrite E; reflexivity|]. split; [apply xnew4_pool_zero; exact Hp|].
  rewrite nabs_rmap, E, gcopy0_is_copy_into. reflexivity.
Qed.

Lemma xadd_tree : forall n b c os (p : xpool), xwf n -> zero_pool p -> b < 256 ->
  assoc b (nenum (xabs n)) = None ->
  (forall b' c', In (b', c') (nenum (xabs n)) -> xtwf c') -> xtwf c ->
  nabs (fst (xadd n b c os p)) = nadd (nabs n) b (tabs c) /\
  xwf (fst (xadd n b c os p)) /\
  (forall b' c', In (b', c') (nenum (xabs (fst (xadd n b c os p)))) -> xtwf c') /\
  zero_pool (snd (xadd n b c os p)) /\
  nenum (xabs (fst (xadd n b c os p))) = ins_sorted b c (nenum (xabs n)).
Proof.
  intros n b c os p Hx Hp Hb Ha Hch Hc.
  destruct (xadd_sim n b c os p Hx Hp Hb Ha) as (E & Hx').
  destruct (nadd_spec (xabs n) b c ltac:(apply Hx) Hb Ha) as (_ & En & _).
  rewrite E. split; [rewrite !nabs_rmap, E; apply nadd_rmap|]. split; [exact Hx'|].
  split; [|split; [apply xadd_pool_zero; exact Hp|exact En]].
  intros b' c' Hin. rewrite En in Hin. apply in_ins_sorted in Hin.
  destruct Hin as [Ei|Hin]; [inversion Ei; subst; exact Hc|apply (Hch b' c' Hin)].
Qed.

(* the two bytes of a leaf split differ *)
Lemma lcp_split_ne : forall ltk tk d b1 b2,
  nth_error ltk (d + longestCommonPrefix ltk tk d) = Some b1 ->
  nth_error tk (d + longestCommonPrefix ltk tk d) = Some b2 -> b1 <> b2.
Proof.
  intros ltk tk d b1 b2. unfold longestCommonPrefix.
  set (m := (Nat.min (length ltk) (length tk) - d)%nat).
  set (lp := lcpn m (skipn d ltk) (skipn d tk)). intros H1 H2.
  pose proof (lcpn_le m (skipn d ltk) (skipn d tk)) as Hle. fold lp in Hle.
  assert (L1 : (d + lp < length ltk)%nat) by (apply nth_error_Some; congruence).
  assert (L2 : (d + lp < length tk)%nat) by (apply nth_error_Some; congruence).
  assert (Hlt : (lp < m)%nat) by lia.
  destruct (lcpn_stop m (skipn d ltk) (skipn d tk) Hlt) as (x & y & Hx & Hy & Hxy).
  { rewrite skipn_length. lia. } { rewrite skipn_length. lia. }
  fold lp in Hx, Hy. rewrite nth_error_skipn_add in Hx, Hy. congruence.
Qed.

Lemma nth_byte : forall l i b, isbytes l = true -> nth_error l i = Some b -> b < 256.
Proof. intros l i b H E. apply (proj1 (isbytes_forall l) H). eapply nth_error_In. exact E. Qed.

(* what WF says at a compressed path the key may leave (the facts Proofs/InsertFacts.insert_gen uses) *)
Lemma split_facts : forall (n : rnode tree) tk d,
  WF d (Inner n) -> shares d tk (leaves (Inner n)) -> (d <= length tk)%nat ->
  exists lm, minimum (Inner n) = Some (to_leaf lm) /\
    ((prefixMismatch n tk d < prefixLen (nhdr n))%nat ->
     exists x, x < 256 /\ nth_error (ltk lm) (d + prefixMismatch n tk d) = Some x /\
       ((prefixLen (nhdr n) <= maxPrefixLen)%nat -> nth_error (prefix (nhdr n)) (prefixMismatch n tk d) = Some x) /\
       (forall b2, nth_error tk (d + prefixMismatch n tk d) = Some b2 -> x <> b2)) /\
    (prefixLen (nhdr n) = 0%nat \/ (prefixLen (nhdr n) <= prefixMismatch n tk d)%nat ->
     forall l, In l (leaves (Inner n)) ->
       firstn (d + prefixLen (nhdr n)) (ltk l) = firstn (d + prefixLen (nhdr n)) tk).
Proof.
  intros n tk d H Hsh Hd.
  destruct (minimum_in _ _ H) as (lm & Hmin & Hlm). exists lm. split; [exact Hmin|].
  pose proof (WF_inner_inv _ _ H) as (Hn & _ & _ & _). pose proof (proj1 Hn) as Hpl.
  destruct (leaf_path_facts d n lm H Hlm) as (Hlong & Hall & Hi).
  assert (Hshm : firstn d (ltk lm) = firstn d tk).
  { unfold shares in Hsh. rewrite Forall_forall in Hsh. apply Hsh. exact Hlm. }
  destruct (pm_spec n tk d lm Hmin Hpl Hi Hlong Hshm Hd) as [HPa HPb].
  set (p := prefixLen (nhdr n)) in *. set (P := prefixMismatch n tk d) in *.
  split.
  - intros HP.
    destruct (nth_error (ltk lm) (d + P)) as [x|] eqn:Ex; [|apply nth_error_None in Ex; lia].
    exists x. split; [|split; [reflexivity|split]].
    + pose proof (WF_isbytes _ _ H) as HF. rewrite Forall_forall in HF. apply (nth_byte _ _ _ (HF lm Hlm) Ex).
    + intros Hsmall. rewrite Nat.min_l in Hi by exact Hsmall.
      rewrite <- Ex, <- nth_error_skipn_add. apply (firstn_eq_nth_error _ _ p); [exact HP|exact Hi].
    + intros b2 E2. destruct (HPb HP) as [Hshort|(x0 & y0 & Hx0 & Hy0 & Hne)].
      * assert ((d + P < length tk)%nat) by (apply nth_error_Some; congruence). lia.
      * congruence.
  - intros Hcase l Hl. rewrite (Hall l Hl). symmetry.
    destruct Hcase as [E0|Hge].
    + rewrite E0, Nat.add_0_r. symmetry. exact Hshm.
    + apply (InsertFacts.firstn_le_eq _ _ (d + p)%nat (d + P)%nat); [lia|exact HPa].
Qed.

(* ---- Insert ---- *)
Definition ires_abs (r : xires) : ires :=
  match r with XIDone t a => IDone (tabs t) a | XIPanic => IPanic | XIFuel => IFuel end.
Definition ires_wf (r : xires) : Prop := match r with XIDone t _ => xtwf t | _ => True end.

Lemma xinsert_leaf : forall f lgk ltk lv gk tk v d os p,
  zero_pool p -> isbytes ltk = true -> isbytes tk = true ->
  ires_abs (fst (fst (xinsert (S f) (XLeaf lgk ltk lv) gk tk v d os p))) =
    insert (S f) (Leaf lgk ltk lv) gk tk v d /\
  zero_pool (snd (xinsert (S f) (XLeaf lgk ltk lv) gk tk v d os p)) /\
  ires_wf (fst (fst (xinsert (S f) (XLeaf lgk ltk lv) gk tk v d os p))).
Proof.
  intros f lgk ltk lv gk tk v d os p Hp Hbl Hbt. cbn [xinsert insert].
  destruct (beq gk lgk).
  { cbn [fst snd ires_abs ires_wf tabs]. split; [reflexivity|]. split; [exact Hp|constructor]. }
  set (lp := longestCommonPrefix ltk tk d).
  destruct (xnew4_tree lp (skipn d tk) os p Hp) as (Hgx & Hgen & Hgp & Hgn).
  set (g := xnew4 lp (skipn d tk) os p) in *.
  assert (Hg0 : forall b' c', In (b', c') (nenum (xabs (fst g))) -> xtwf c') by (rewrite Hgen; intros b' c' []).
  destruct (nth_error ltk (d + lp)) as [b1|] eqn:E1.
  - assert (Hb1 : b1 < 256) by (apply (nth_byte _ _ _ Hbl E1)).
    destruct (xadd_tree (fst g) b1 (XLeaf lgk ltk lv) (tl os) (snd g) Hgx Hgp Hb1) as (A1 & X1 & C1 & P1 & N1);
      [rewrite Hgen; reflexivity|exact Hg0|constructor|].
    set (a1 := xadd (fst g) b1 (XLeaf lgk ltk lv) (tl os) (snd g)) in *. cbn [fst snd].
    destruct (nth_error tk (d + lp)) as [b2|] eqn:E2.
    + assert (Hb2 : b2 < 256) by (apply (nth_byte _ _ _ Hbt E2)).
      assert (Hne : b1 <> b2) by (apply (lcp_split_ne ltk tk d b1 b2 E1 E2)).
      destruct (xadd_tree (fst a1) b2 (XLeaf gk tk v) (skipn (xadd_gets (fst g)) (tl os)) (snd a1) X1 P1 Hb2)
        as (A2 & X2 & C2 & P2 & N2); [|exact C1|constructor|].
      { rewrite N1, Hgen. cbn [ins_sorted assoc]. destruct (N.eqb_spec b1 b2); [contradiction|reflexivity]. }
      cbn [fst snd ires_abs ires_wf]. rewrite tabs_inner, A2, A1, Hgn.
      split; [reflexivity|]. split; [exact P2|]. constructor; assumption.
    + cbn [fst snd ires_abs ires_wf]. rewrite tabs_inner, A1, Hgn.
      split; [reflexivity|]. split; [exact P1|]. constructor; assumption.
  - cbn [fst snd].
    destruct (nth_error tk (d + lp)) as [b2|] eqn:E2.
    + assert (Hb2 : b2 < 256) by (apply (nth_byte _ _ _ Hbt E2)).
      destruct (xadd_tree (fst g) b2 (XLeaf gk tk v) (tl os) (snd g) Hgx Hgp Hb2) as (A2 & X2 & C2 & P2 & N2);
        [rewrite Hgen; reflexivity|exact Hg0|constructor|].
      cbn [fst snd ires_abs ires_wf]. rewrite tabs_inner, A2, Hgn.
      split; [reflexivity|]. split; [exact P2|]. constructor; assumption.
    + cbn [fst snd ires_abs ires_wf]. rewrite tabs_inner, Hgn.
      split; [reflexivity|]. split; [exact Hgp|]. constructor; assumption.
Qed.

Theorem xinsert_sim : forall fuel t gk tk v d os p,
  zero_pool p -> xtwf t -> WF d (tabs t) -> isbytes tk = true ->
  shares d tk (leaves (tabs t)) -> (d <= length tk)%nat ->
  ires_abs (fst (fst (xinsert fuel t gk tk v d os p))) = insert fuel (tabs t) gk tk v d /\
  zero_pool (snd (xinsert fuel t gk tk v d os p)) /\
  ires_wf (fst (fst (xinsert fuel t gk tk v d os p))).
Proof.
  induction fuel as [|f IH]; intros t gk tk v d os p Hp Hxt Hwf Hbt Hsh Hd.
  { cbn [xinsert insert fst snd ires_abs ires_wf]. split; [reflexivity|]. split; [exact Hp|exact I]. }
  destruct t as [lgk ltk lv|n].
  { apply xinsert_leaf; try assumption. cbn [tabs] in Hwf. inversion Hwf; assumption. }
  destruct (xtwf_inv _ Hxt) as [Hx Hch].
  rewrite tabs_inner in Hwf, Hsh.
  destruct (split_facts (nabs n) tk d Hwf Hsh Hd) as (lm & Hmin & Hsplit & Hdesc).
  pose proof (nwf_nabs n Hx) as Hnn.
  assert (Hpl : length (xprefix (xh n)) = maxPrefixLen).
  { pose proof (proj1 Hnn) as E. rewrite nhdr_nabs in E. exact E. }
  rewrite nhdr_nabs in Hsplit, Hdesc. cbn [xabs_hdr prefixLen prefix] in Hsplit, Hdesc.
  rewrite tabs_inner. cbn [xinsert insert]. rewrite tabs_inner, !nhdr_nabs. cbn [xabs_hdr prefixLen prefix].
  set (p0 := xplen (xh n)) in *. set (pfx := xprefix (xh n)) in *.
  set (P := prefixMismatch (nabs n) tk d) in *.
  destruct (Nat.eqb_spec p0 0) as [Ep|Ep]; cbn [negb andb].
  2: destruct (Nat.ltb_spec P p0) as [HP|HP].
  2:{ (* compressed-path split *)
    destruct (Hsplit HP) as (x & Hx256 & Elk & Epfx & Hne2).
    destruct (xnew4_tree P pfx os p Hp) as (Hgx & Hgen & Hgp & Hgn).
    rewrite (copy_into_full (prefix hdr0) pfx) in Hgn
      by (unfold hdr0; cbn [prefix]; rewrite repeat_length; symmetry; exact Hpl).
    set (g := xnew4 P pfx os p) in *.
    assert (Hg0 : forall b' c', In (b', c') (nenum (xabs (fst g))) -> xtwf c') by (rewrite Hgen; intros b' c' []).
    rewrite Hmin. replace (leaf_tk (to_leaf lm)) with (ltk lm) by reflexivity.
    (* both sides pick the byte x and rewrite the header of the old node *)
    assert (Hr : exists pl' px', length px' = maxPrefixLen /\
      (if (p0 <=? maxPrefixLen)%nat
       then match nth_error pfx P with
            | Some b => Some (b, xset_hdr n (p0 - S P) (copy_into pfx (skipn (S P) pfx)))
            | None => None
            end
       else match nth_error (ltk lm) (d + P) with
            | Some b => Some (b, xset_hdr n (p0 - (P + 1)) (copy_into pfx (skipn (d + P + 1) (ltk lm))))
            | None => None
            end) = Some (x, xset_hdr n pl' px') /\
      (if (p0 <=? maxPrefixLen)%nat
       then match nth_error pfx P with
            | Some b => Some (nadd (new4 (mkHdr P pfx)) b
                         (Inner (nset_hdr (nabs n) (mkHdr (p0 - S P) (copy_into pfx (skipn (S P) pfx))))))
            | None => None
            end
       else match nth_error (ltk lm) (d + P) with
            | Some b => Some (nadd (new4 (mkHdr P pfx)) b
                         (Inner (nset_hdr (nabs n) (mkHdr (p0 - (P + 1)) (copy_into pfx (skipn (d + P + 1) (ltk lm)))))))
            | None => None
            end) = Some (nadd (new4 (mkHdr P pfx)) x (Inner (nset_hdr (nabs n) (mkHdr pl' px'))))).
    { destruct (Nat.leb_spec p0 maxPrefixLen) as [Hs|Hb].
      - rewrite (Epfx Hs). eexists _, _. split; [|split; reflexivity]. rewrite copy_into_length. exact Hpl.
      - rewrite Elk. eexists _, _. split; [|split; reflexivity]. rewrite copy_into_length. exact Hpl. }
    destruct Hr as (pl' & px' & Hpx' & Er & Ea). rewrite Er, Ea. clear Er Ea.
    destruct (xset_hdr_xwf n pl' px' Hx Hpx') as (Hx' & En').
    assert (Hc' : xtwf (XInner (xset_hdr n pl' px'))).
    { constructor; [exact Hx'|]. rewrite En'. exact Hch. }
    destruct (xadd_tree (fst g) x (XInner (xset_hdr n pl' px')) (tl os) (snd g) Hgx Hgp Hx256)
      as (A1 & X1 & C1 & P1 & N1); [rewrite Hgen; reflexivity|exact Hg0|exact Hc'|].
    rewrite tabs_inner, nabs_set_hdr in A1.
    set (a1 := xadd (fst g) x (XInner (xset_hdr n pl' px')) (tl os) (snd g)) in *.
    destruct (nth_error tk (d + P)) as [b2|] eqn:E2.
    - assert (Hb2 : b2 < 256) by (apply (nth_byte _ _ _ Hbt E2)).
      pose proof (Hne2 b2 eq_refl) as Hne.
      destruct (xadd_tree (fst a1) b2 (XLeaf gk tk v) (skipn (xadd_gets (fst g)) (tl os)) (snd a1) X1 P1 Hb2)
        as (A2 & X2 & C2 & P2 & N2); [|exact C1|constructor|].
      { rewrite N1, Hgen. cbn [ins_sorted assoc]. destruct (N.eqb_spec x b2); [contradiction|reflexivity]. }
      cbn [fst snd ires_abs ires_wf]. rewrite tabs_inner, A2, A1, Hgn.
      split; [reflexivity|]. split; [exact P2|]. constructor; assumption.
    - cbn [fst snd ires_abs ires_wf]. rewrite tabs_inner, A1, Hgn.
      split; [reflexivity|]. split; [exact P1|]. constructor; assumption. }
  (* the two descending cases *)
  all: assert (Hall : forall l, In l (leaves (Inner (nabs n))) ->
                      firstn (d + p0) (ltk l) = firstn (d + p0) tk) by (apply Hdesc; lia).
  all: clear Hsplit Hdesc.
  all: destruct (nth_error tk (d + p0)) as [b|] eqn:Eb;
    [|cbn [fst snd ires_abs ires_wf]; rewrite tabs_inner; split; [reflexivity|split; [exact Hp|exact Hxt]]].
  all: assert (Hb : b < 256) by (apply (nth_byte _ _ _ Hbt Eb)).
  all: rewrite nfind_nabs by exact Hx.
  all: destruct (xfind n b) as [c|] eqn:Ef; cbn [omap].
  all: try (
    (* absent: add a leaf *)
    assert (Ha : assoc b (nenum (xabs n)) = None)
      by (rewrite <- nfind_spec by (try apply Hx; exact Hb); rewrite <- xfind_abs by exact Hx; exact Ef);
    destruct (xadd_tree n b (XLeaf gk tk v) os p Hx Hp Hb Ha Hch (xtwf_leaf gk tk v)) as (A & X & Cc & Pp & _);
    cbn [fst snd ires_abs ires_wf]; rewrite tabs_inner, A;
    split; [reflexivity|]; split; [exact Pp|]; constructor; assumption).
  all: pose proof (xfind_in n b c Hx Hb Ef) as Hin.
  all: pose proof (in_nenum_nabs n b c Hin) as Hin'.
  all: destruct (WF_child d (nabs n) b (tabs c) Hwf Hin') as [Hwc HFc].
  all: rewrite nhdr_nabs in Hwc, HFc; cbn [xabs_hdr prefixLen] in Hwc, HFc; fold p0 in Hwc, HFc.
  all: replace (d + p0 + 1)%nat with (S (d + p0)) in Hwc by lia.
  all: assert (Hshc : shares (S (d + p0)) tk (leaves (tabs c))).
  all: try (unfold shares; apply Forall_forall; intros l Hl; rewrite Forall_forall in HFc;
    rewrite (firstn_S_snoc _ _ _ (HFc l Hl)), (firstn_S_snoc _ _ _ Eb);
    rewrite (Hall l) by (apply in_leaves_inner; exists b, (tabs c); split; assumption); reflexivity).
  all: assert (Hlen : (S (d + p0) <= length tk)%nat) by (apply nth_error_Some; congruence).
  all: destruct (IH c gk tk v (S (d + p0)) os p Hp (Hch b c Hin) Hwc Hbt Hshc Hlen) as (I1 & I2 & I3).
  all: destruct (fst (fst (xinsert f c gk tk v (S (d + p0)) os p))) as [c' added| |] eqn:Er;
    cbn [ires_abs ires_wf] in I1, I3; rewrite <- I1.
  all: try (rewrite Er; cbn [ires_abs ires_wf]; split; [reflexivity|split; [exact I2|exact I]]).
  all: cbn [fst snd ires_abs ires_wf]; rewrite tabs_inner, nabs_replace by exact Hx.
  all: split; [reflexivity|]; split; [exact I2|].
  all: assert (Ha : assoc b (nenum (xabs n)) <> None)
    by (rewrite (in_assoc b c _ (nenum_sorted _ (proj2 (proj2 Hx))) Hin); discriminate).
  all: destruct (xreplace_xwf n b c' Hx Hb Ha) as (Xr & Nr & _).
  all: constructor; [exact Xr|]; intros b' c'' Hi; rewrite Nr in Hi; apply in_repl_key in Hi.
  all: destruct Hi as [Ei|Hi]; [inversion Ei; subst; exact I3|apply (Hch b' c'' Hi)].
Qed.

(* ---- Delete ---- *)
Definition dres_abs (r : xdres) : dres :=
  match r with XDDone t => DDone (tabs t) | XDAbsent => DAbsent | XDFuel => DFuel end.
Definition dres_wf (r : xdres) : Prop := match r with XDDone t => xtwf t | _ => True end.

(* the node4 collapse: the child's header is rewritten in place, exactly as Model/Tree.collapse builds it *)
Lemma xcollapse_sim : forall n, xwf n -> (forall b c, In (b, c) (nenum (xabs n)) -> xtwf c) ->
  tabs (xcollapse n) = collapse (nabs n) /\ xtwf (xcollapse n).
Proof.
  intros n Hx Hch.
  assert (Hdef : tabs (XInner n) = Inner (nabs n) /\ xtwf (XInner n)).
  { split; [reflexivity|constructor; assumption]. }
  destruct n as [h keys ch|h keys ch|h idx ch|h ch]; try exact Hdef.
  destruct h as [l pl px]. cbn [xcollapse nabs xmap xabs collapse xlen xplen xprefix xabs_hdr] in *.
  destruct (N.eqb_spec l 1) as [->|Hne]; [|exact Hdef].
  change (N.to_nat 1) with 1%nat in *.
  destruct ch as [|[[g t v|cn]|] rest]; try exact Hdef.
  - cbn [map omap firstn somes tabs]. split; [reflexivity|constructor].
  - cbn [map omap firstn somes]. rewrite tabs_inner. fold (nabs cn). rewrite nhdr_nabs.
    cbn [xabs_hdr prefixLen prefix xplen xprefix xlen firstn somes lanes combine nenum] in *.
    assert (Hc : xtwf (XInner cn)) by (apply (Hch (lane keys 0)); left; reflexivity).
    destruct (xtwf_inv _ Hc) as [Hxc Hcc].
    assert (Hplc : length (xprefix (xh cn)) = maxPrefixLen).
    { pose proof (proj1 (nwf_nabs cn Hxc)) as E. rewrite nhdr_nabs in E. exact E. }
    destruct (if (pl <? maxPrefixLen)%nat then (set_at pl (getAtPos keys 0) px, S pl) else (px, pl)) as [pfx1 p1].
    destruct (if (p1 <? maxPrefixLen)%nat
              then (firstn p1 pfx1 ++ copy_into (skipn p1 pfx1) (xprefix (xh cn)),
                    (p1 + Nat.min (xplen (xh cn)) (maxPrefixLen - p1))%nat)
              else (pfx1, p1)) as [pfx2 p2].
    rewrite tabs_inner, nabs_set_hdr. split; [reflexivity|].
    destruct (xset_hdr_xwf cn (xplen (xh cn) + pl + 1)
                (copy_into (xprefix (xh cn)) (firstn (Nat.min maxPrefixLen p2) pfx2)) Hxc) as (Hx' & En').
    { rewrite copy_into_length. exact Hplc. }
    constructor; [exact Hx'|]. rewrite En'. exact Hcc.
Qed.

Lemma xdel_child_sim : forall n b os p, xwf n -> (forall b' c, In (b', c) (nenum (xabs n)) -> xtwf c) ->
  zero_pool p -> b < 256 -> assoc b (nenum (xabs n)) <> None ->
  tabs (fst (xdel_child n b os p)) = del_child (nabs n) b /\ xtwf (fst (xdel_child n b os p)) /\
  zero_pool (snd (xdel_child n b os p)).
Proof.
  intros n b os p Hx Hch Hp Hb Ha.
  destruct (xdel_sim n b os p Hx Hp Hb Ha) as (E & Hx').
  destruct (ndel_spec (xabs n) b (proj2 (proj2 Hx)) Hb Ha) as (_ & En & _).
  pose proof (xdel_pool_zero n b os p Hp) as Hp'.
  assert (Hch' : forall b' c, In (b', c) (nenum (xabs (fst (xdel n b os p)))) -> xtwf c).
  { intros b' c Hin. rewrite E, En in Hin. apply in_rem_key in Hin. apply (Hch b' c Hin). }
  assert (En' : nabs (fst (xdel n b os p)) = ndel (nabs n) b).
  { rewrite !nabs_rmap, E. apply ndel_rmap. }
  unfold xdel_child, del_child.
  destruct n as [h keys ch|h keys ch|h idx ch|h ch]; cbn [fst snd].
  - destruct (xcollapse_sim _ Hx' Hch') as (Ec & Hc). rewrite Ec, En'.
    split; [reflexivity|]. split; [exact Hc|exact Hp'].
  - rewrite tabs_inner, En'. split; [reflexivity|]. split; [constructor; assumption|exact Hp'].
  - rewrite tabs_inner, En'. split; [reflexivity|]. split; [constructor; assumption|exact Hp'].
  - rewrite tabs_inner, En'. split; [reflexivity|]. split; [constructor; assumption|exact Hp'].
Qed.

Theorem xdelete_sim : forall fuel t gk tk d os p,
  zero_pool p -> xtwf t -> isbytes tk = true ->
  dres_abs (fst (fst (xdelete_in fuel t gk tk d os p))) = delete_in fuel (tabs t) gk tk d /\
  zero_pool (snd (xdelete_in fuel t gk tk d os p)) /\
  dres_wf (fst (fst (xdelete_in fuel t gk tk d os p))).
Proof.
  induction fuel as [|f IH]; intros t gk tk d os p Hp Hxt Hbt.
  { cbn [xdelete_in delete_in fst snd dres_abs dres_wf]. split; [reflexivity|]. split; [exact Hp|exact I]. }
  destruct t as [lgk ltk lv|n].
  { cbn [xdelete_in delete_in tabs fst snd dres_abs dres_wf]. split; [reflexivity|]. split; [exact Hp|exact I]. }
  destruct (xtwf_inv _ Hxt) as [Hx Hch].
  rewrite tabs_inner. cbn [xdelete_in delete_in]. rewrite nhdr_nabs.
  assert (Habs : dres_abs (fst (fst (XDAbsent, os, p))) = DAbsent /\ zero_pool (snd (XDAbsent, os, p)) /\
                 dres_wf (fst (fst (XDAbsent, os, p)))).
  { cbn [fst snd dres_abs dres_wf]. split; [reflexivity|]. split; [exact Hp|exact I]. }
  destruct (_ && _); [exact Habs|].
  set (dp := (d + prefixLen (xabs_hdr (xh n)))%nat) in *.
  destruct (nth_error tk dp) as [b|] eqn:Eb; [|exact Habs].
  assert (Hb : b < 256) by (apply (nth_byte _ _ _ Hbt Eb)).
  rewrite nfind_nabs by exact Hx.
  destruct (xfind n b) as [c|] eqn:Ef; cbn [omap]; [|exact Habs].
  pose proof (xfind_in n b c Hx Hb Ef) as Hin.
  assert (Ha : assoc b (nenum (xabs n)) <> None)
    by (rewrite (in_assoc b c _ (nenum_sorted _ (proj2 (proj2 Hx))) Hin); discriminate).
  destruct c as [lgk0 ltk0 lv0|cn].
  - cbn [tabs]. destruct (beq lgk0 gk); [|exact Habs].
    destruct (xdel_child_sim n b os p Hx Hch Hp Hb Ha) as (E & Hw & Hp').
    cbn [fst snd dres_abs dres_wf]. rewrite E. split; [reflexivity|]. split; [exact Hp'|exact Hw].
  - rewrite tabs_inner. cbv beta iota. rewrite <- tabs_inner.
    destruct (IH (XInner cn) gk tk (S dp) os p Hp (Hch b _ Hin) Hbt) as (I1 & I2 & I3).
    destruct (fst (fst (xdelete_in f (XInner cn) gk tk (S dp) os p))) as [c'| |] eqn:Er;
      cbn [dres_abs dres_wf] in I1, I3; rewrite <- I1.
    + cbn [fst snd dres_abs dres_wf]. rewrite tabs_inner, nabs_replace by exact Hx.
      split; [reflexivity|]. split; [exact I2|].
      destruct (xreplace_xwf n b c' Hx Hb Ha) as (Xr & Nr & _).
      constructor; [exact Xr|]. intros b' c'' Hi. rewrite Nr in Hi. apply in_repl_key in Hi.
      destruct Hi as [Ei|Hi]; [inversion Ei; subst; exact I3|apply (Hch b' c'' Hi)].
    + rewrite Er. cbn [dres_abs dres_wf]. split; [reflexivity|split; [exact I2|exact I]].
    + rewrite Er. cbn [dres_abs dres_wf]. split; [reflexivity|split; [exact I2|exact I]].
Qed.

(* ================= 4. out of a zero pool the answers of the pool do not matter (no well-formedness) ================= *)
Lemma zero_nil : zero_pool (@nil (xnode xtree)).
Proof. constructor. Qed.

Ltac zp := repeat first [assumption | apply zero_nil | apply xadd_pool_zero | apply xnew4_pool_zero
                         | apply xdel_pool_zero].
(* bring every node produced by the pool operations to its form over the private empty pool *)
Ltac pnorm :=
  repeat match goal with
  | |- context [fst (xadd ?n ?b ?c ?os ?p)] =>
      lazymatch p with nil => fail | _ => rewrite (xadd_oracle_irrelevant n b c os p) by zp end
  | |- context [fst (xdel ?n ?b ?os ?p)] =>
      lazymatch p with nil => fail | _ => rewrite (xdel_oracle_irrelevant n b os p) by zp end
  | |- context [fst (@xnew4 ?C ?pl ?src ?os ?p)] =>
      lazymatch p with nil => fail | _ => rewrite (@xnew4_oracle_irrelevant C pl src os p) by zp end
  end.

Theorem xinsert_irr2 : forall fuel t gk tk v d os p os' p', zero_pool p -> zero_pool p' ->
  fst (fst (xinsert fuel t gk tk v d os p)) = fst (fst (xinsert fuel t gk tk v d os' p')) /\
  zero_pool (snd (xinsert fuel t gk tk v d os p)).
Proof.
  induction fuel as [|f IH]; intros t gk tk v d os p os' p' Hp Hp'.
  { cbn [xinsert fst snd]. split; [reflexivity|exact Hp]. }
  destruct t as [lgk ltk lv|n]; cbn [xinsert].
  - destruct (beq gk lgk); [cbn [fst snd]; split; [reflexivity|exact Hp]|].
    destruct (nth_error ltk _) as [b1|]; destruct (nth_error tk _) as [b2|]; cbn [fst snd];
      (split; [pnorm; reflexivity|zp]).
  - destruct (_ && _).
    + match goal with |- context [match ?r with Some _ => _ | None => _ end] => destruct r as [[b n']|] end;
        [|cbn [fst snd]; split; [reflexivity|zp]].
      destruct (nth_error tk _) as [b2|]; cbn [fst snd]; (split; [pnorm; reflexivity|zp]).
    + destruct (nth_error tk _) as [b|]; [|cbn [fst snd]; split; [reflexivity|exact Hp]].
      destruct (xfind n b) as [c|]; [|cbn [fst snd]; split; [pnorm; reflexivity|zp]].
      destruct (IH c gk tk v (S (d + xplen (xh n))) os p os' p' Hp Hp') as [E Z].
      set (r := xinsert f c gk tk v (S (d + xplen (xh n))) os p) in *.
      set (r' := xinsert f c gk tk v (S (d + xplen (xh n))) os' p') in *.
      destruct (fst (fst r')) as [c' added| |] eqn:E'; rewrite E; cbv beta iota; cbn [fst snd];
        (split; [try reflexivity|exact Z]); congruence.
Qed.

Theorem xdelete_irr2 : forall fuel t gk tk d os p os' p', zero_pool p -> zero_pool p' ->
  fst (fst (xdelete_in fuel t gk tk d os p)) = fst (fst (xdelete_in fuel t gk tk d os' p')) /\
  zero_pool (snd (xdelete_in fuel t gk tk d os p)).
Proof.
  induction fuel as [|f IH]; intros t gk tk d os p os' p' Hp Hp'.
  { cbn [xdelete_in fst snd]. split; [reflexivity|exact Hp]. }
  destruct t as [lgk ltk lv|n]; cbn [xdelete_in]; [cbn [fst snd]; split; [reflexivity|exact Hp]|].
  destruct (_ && _); [cbn [fst snd]; split; [reflexivity|exact Hp]|].
  destruct (nth_error tk _) as [b|]; [|cbn [fst snd]; split; [reflexivity|exact Hp]].
  destruct (xfind n b) as [[lgk0 ltk0 lv0|cn]|]; [| |cbn [fst snd]; split; [reflexivity|exact Hp]].
  - destruct (beq lgk0 gk); [|cbn [fst snd]; split; [reflexivity|exact Hp]].
    cbn [fst snd]. unfold xdel_child. split.
    + destruct n; cbn [fst]; pnorm; reflexivity.
    + destruct n; cbn [snd]; zp.
  - match goal with |- context [xdelete_in f ?c gk tk ?d' os p] =>
      destruct (IH c gk tk d' os p os' p' Hp Hp') as [E Z];
      set (r := xdelete_in f c gk tk d' os p) in *; set (r' := xdelete_in f c gk tk d' os' p') in * end.
    destruct (fst (fst r')) as [c'| |] eqn:E'; rewrite E; cbv beta iota; cbn [fst snd];
      (split; [try reflexivity|exact Z]); congruence.
Qed.

(* one method call: the new state of the tree and the output do not depend on the pool or its answers *)
Theorem xstep_irr : forall k st o os p, zero_pool p ->
  fst (xstep k st o os p) = fst (xstep k st o [] []) /\ zero_pool (snd (xstep k st o os p)).
Proof.
  intros k st o os p Hp.
  destruct o as [a v|a|a| | | |stop|stop|m stop|m stop|a b stop|a stop]; cbn [xstep fst snd];
    try (split; [reflexivity|exact Hp]).
  - unfold xdo_insert. destruct (xroot st) as [t|]; [|cbn [fst snd]; split; [reflexivity|exact Hp]].
    destruct (xinsert_irr2 (key_fuel (snd (transform k a))) t (fst (transform k a)) (snd (transform k a)) v 0
                os p [] [] Hp zero_nil) as [E Z].
    rewrite E. destruct (fst (fst (xinsert _ t _ _ v 0 [] []))); cbn [fst snd]; split; try reflexivity; exact Z.
  - unfold xdo_delete. destruct (xroot st) as [[lgk ltk lv|n]|]; [| |cbn [fst snd]; split; [reflexivity|exact Hp]].
    + destruct (beq lgk _); cbn [fst snd]; split; try reflexivity; exact Hp.
    + destruct (xdelete_irr2 (key_fuel (snd (transform k a))) (XInner n) (fst (transform k a)) (snd (transform k a)) 0
                  os p [] [] Hp zero_nil) as [E Z].
      rewrite E. destruct (fst (fst (xdelete_in _ (XInner n) _ _ 0 [] []))); cbn [fst snd]; split; try reflexivity; exact Z.
Qed.

(* ================= 5. one method call over the pool = the step of Model/Api.v ================= *)
Definition sinv (st : xstate) : Prop := match xroot st with Some t => xtwf t | None => True end.
Definition root_wf (s : Api.state) : Prop := match root s with Some t => WF 0 t | None => True end.
(* what a method call has to meet for the pool-passing step to be the step of Model/Api.v: the transformed
   key of an update is a byte string, and Insert works on a well-formed tree (WF of Spec/TreeSpec.v);
   Search and the other queries need nothing *)
Definition upd_ok (k : Api.kind) (s : Api.state) (o : op) : Prop :=
  match o with
  | Insert a _ => isbytes (snd (transform k a)) = true /\ root_wf s
  | Delete a => isbytes (snd (transform k a)) = true
  | _ => True
  end.

Lemma sabs_root : forall st, root (sabs st) = match xroot st with Some t => Some (tabs t) | None => None end.
Proof. reflexivity. Qed.

Lemma xdo_insert_sim : forall st gk tk v os p, zero_pool p -> sinv st -> isbytes tk = true -> root_wf (sabs st) ->
  sabs (fst (fst (xdo_insert st gk tk v os p))) = fst (do_insert (sabs st) gk tk v) /\
  snd (fst (xdo_insert st gk tk v os p)) = snd (do_insert (sabs st) gk tk v) /\
  zero_pool (snd (xdo_insert st gk tk v os p)) /\ sinv (fst (fst (xdo_insert st gk tk v os p))).
Proof.
  intros [r sz] gk tk v os p Hp Hs Hb Hw. unfold xdo_insert, do_insert, sinv, root_wf, sabs in *.
  cbn [xroot xsize root size] in *. destruct r as [t|].
  - destruct (xinsert_sim (key_fuel tk) t gk tk v 0 os p Hp Hs Hw Hb) as (I1 & I2 & I3).
    { unfold shares. apply Forall_forall. intros l _. reflexivity. } { lia. }
    rewrite <- I1.
    destruct (fst (fst (xinsert (key_fuel tk) t gk tk v 0 os p))) as [t' added| |];
      cbn [ires_abs ires_wf fst snd xroot xsize] in *; repeat split; assumption.
  - cbn [fst snd xroot xsize tabs]. repeat split; [exact Hp|constructor].
Qed.

Lemma xdo_delete_sim : forall st gk tk os p, zero_pool p -> sinv st -> isbytes tk = true ->
  sabs (fst (fst (xdo_delete st gk tk os p))) = fst (do_delete (sabs st) gk tk) /\
  snd (fst (xdo_delete st gk tk os p)) = snd (do_delete (sabs st) gk tk) /\
  zero_pool (snd (xdo_delete st gk tk os p)) /\ sinv (fst (fst (xdo_delete st gk tk os p))).
Proof.
  intros [r sz] gk tk os p Hp Hs Hb. unfold xdo_delete, do_delete, sinv, sabs in *.
  cbn [xroot xsize root size] in *. destruct r as [[lgk ltk lv|n]|].
  - cbn [tabs]. destruct (beq lgk gk); cbn [fst snd xroot xsize tabs]; repeat split; try assumption.
  - destruct (xdelete_sim (key_fuel tk) (XInner n) gk tk 0 os p Hp Hs Hb) as (I1 & I2 & I3).
    rewrite tabs_inner in *. rewrite <- I1.
    destruct (fst (fst (xdelete_in (key_fuel tk) (XInner n) gk tk 0 os p))) as [t'| |];
      cbn [dres_abs dres_wf fst snd xroot xsize] in *; rewrite ?tabs_inner; repeat split; assumption.
  - cbn [fst snd xroot xsize]. repeat split; assumption.
Qed.

Lemma xdo_search_sim : forall st gk tk, sinv st -> xdo_search st gk tk = do_search (sabs st) gk tk.
Proof.
  intros [r sz] gk tk Hs. unfold xdo_search, do_search, sinv, sabs in *. cbn [xroot xsize root] in *.
  destruct r as [t|]; [|reflexivity]. rewrite xsearch_sim by exact Hs. reflexivity.
Qed.

Theorem xstep_sim : forall k st o os p, zero_pool p -> sinv st -> upd_ok k (sabs st) o ->
  sabs (fst (fst (xstep k st o os p))) = fst (Api.step k (sabs st) o) /\
  snd (fst (xstep k st o os p)) = snd (Api.step k (sabs st) o) /\
  zero_pool (snd (xstep k st o os p)) /\ sinv (fst (fst (xstep k st o os p))).
Proof.
  intros k st o os p Hp Hs Hok.
  destruct o as [a v|a|a| | | |stop|stop|m stop|m stop|a b stop|a stop]; cbn [xstep Api.step upd_ok] in *;
    try (cbn [fst snd]; repeat split; assumption).
  - destruct Hok as [Hb Hw]. destruct (transform k a) as [gk tk]. cbn [fst snd] in *.
    apply xdo_insert_sim; assumption.
  - destruct (transform k a) as [gk tk]. cbn [fst snd]. rewrite xdo_search_sim by exact Hs.
    repeat split; assumption.
  - destruct (transform k a) as [gk tk]. cbn [fst snd] in *.
    apply xdo_delete_sim; assumption.
Qed.

(* ================= 6. one tree alone over its private pool = Model/Api.run ================= *)
Lemma api_run_cons : forall k s o ops,
  Api.run k s (o :: ops) =
  (fst (Api.run k (fst (Api.step k s o)) ops), snd (Api.step k s o) :: snd (Api.run k (fst (Api.step k s o)) ops)).
Proof.
  intros k s o ops. cbn [Api.run]. destruct (Api.step k s o) as [s' x]. cbn [fst snd].
  destruct (Api.run k s' ops) as [s'' xs]. reflexivity.
Qed.

(* the condition upd_ok along the run of Model/Api.v *)
Fixpoint wf_hist (k : Api.kind) (s : Api.state) (ops : list op) : Prop :=
  match ops with
  | [] => True
  | o :: ops' => upd_ok k s o /\ wf_hist k (fst (Api.step k s o)) ops'
  end.

Theorem xalone_sim : forall ops k st, sinv st -> wf_hist k (sabs st) ops ->
  snd (xalone k st ops) = snd (Api.run k (sabs st) ops) /\
  sabs (fst (xalone k st ops)) = fst (Api.run k (sabs st) ops) /\ sinv (fst (xalone k st ops)).
Proof.
  induction ops as [|o ops IH]; intros k st Hs Hh.
  - cbn [xalone Api.run fst snd]. repeat split. exact Hs.
  - cbn [wf_hist] in Hh. destruct Hh as [Hok Hh].
    destruct (xstep_sim k st o [] [] zero_nil Hs Hok) as (E1 & E2 & _ & Hs').
    rewrite api_run_cons. cbn [xalone fst snd]. rewrite <- E1 in Hh |- *.
    destruct (IH k _ Hs' Hh) as (I1 & I2 & I3). rewrite I1, E2. repeat split; assumption.
Qed.

(* history_ok (Spec/Ideal.v) implies the condition *)
Lemma wf_hist_of_ok : forall k P, ins_ok P = true -> (forall q, In q P -> exists a, q = transform k a) ->
  forall ops s cs, rep s cs -> inP P cs ->
  Forall (fun a => In (transform k a) P) (flat_map ins_keys ops) ->
  forallb (probe_ok P) (map (transform k) (flat_map (probe_keys k) ops)) = true ->
  forallb (Ideal.op_ok k) ops = true -> wf_hist k s ops.
Proof.
  intros k P Hok HT. induction ops as [|o ops IH]; intros s cs Hrep HP Hins Hprobe Hop; [exact I|].
  cbn [flat_map] in Hins, Hprobe. apply Forall_app in Hins. destruct Hins as [Hi1 Hi2].
  rewrite map_app, forallb_app in Hprobe. apply andb_true_iff in Hprobe. destruct Hprobe as [Hp1 Hp2].
  cbn [forallb] in Hop. apply andb_true_iff in Hop. destruct Hop as [Ho1 Ho2].
  pose proof (step_refines_proj k P Hok HT s cs o Hrep HP Hi1 Hp1 Ho1) as (_ & H2 & H3).
  cbn [wf_hist]. split; [|apply (IH _ _ H2 H3 Hi2 Hp2 Ho2)].
  assert (Hw : root_wf s).
  { unfold root_wf. destruct Hrep as [Hr _]. destruct (root s); [apply Hr|exact I]. }
  destruct o; cbn [upd_ok]; try exact I.
  - cbn [ins_keys] in Hi1. inversion Hi1 as [|x xs Hin _]; subst. split; [|exact Hw].
    destruct (transform k k0) as [gk tk] eqn:E. cbn [snd]. apply (ins_isbytes P gk tk Hok Hin).
  - cbn [probe_keys map forallb] in Hp1. apply andb_true_iff in Hp1. destruct Hp1 as [Hpr _].
    apply (probe_ok_spec _ _ Hpr).
Qed.

Theorem wf_hist_history_ok : forall k ops, history_ok k ops = true -> wf_hist k Api.init ops.
Proof.
  intros k ops H. unfold history_ok in H.
  apply andb_true_iff in H. destruct H as [H Hop]. apply andb_true_iff in H. destruct H as [Hok Hpr].
  apply (wf_hist_of_ok k (ins_pairs k ops) Hok) with (cs := []).
  - intros q Hq. unfold ins_pairs in Hq. apply in_map_iff in Hq. destruct Hq as (a & E & _). exists a. auto.
  - unfold rep, Api.init. cbn [root size length]. auto.
  - constructor.
  - apply Forall_forall. intros a Ha. unfold ins_pairs. apply in_map. exact Ha.
  - exact Hpr.
  - exact Hop.
Qed.

(* ================= 7. many trees over one pool ================= *)
Lemma outputs_of_app : forall tid l1 l2, outputs_of tid (l1 ++ l2) = outputs_of tid l1 ++ outputs_of tid l2.
Proof. intros tid l1 l2. unfold outputs_of. rewrite filter_app, map_app. reflexivity. Qed.

(* ANY trees in ANY states (no well-formedness, no condition on the histories), any kinds, any
   interleaving, any answers of the pool, any drops: every tree produces the outputs and ends in the
   state it produces alone over a private, always empty pool; the pool stays zero *)
Theorem trees_alone : forall evs m, zero_pool (mpool m) ->
  (forall tid, outputs_of tid (snd (mrun evs m)) =
               snd (xalone (kind_of m tid) (snd (trees m tid)) (ops_of tid evs))) /\
  (forall tid, snd (trees (fst (mrun evs m)) tid) =
               fst (xalone (kind_of m tid) (snd (trees m tid)) (ops_of tid evs))) /\
  (forall tid, kind_of (fst (mrun evs m)) tid = kind_of m tid) /\
  zero_pool (mpool (fst (mrun evs m))).
Proof.
  induction evs as [|[tid' o os|i] evs IH]; intros m Hp.
  - cbn [mrun ops_of xalone fst snd outputs_of filter map]. repeat split. exact Hp.
  - destruct (xstep_irr (fst (trees m tid')) (snd (trees m tid')) o os (mpool m) Hp) as [E Z].
    cbn [mrun mstep fst snd].
    set (k := fst (trees m tid')) in *. set (st := snd (trees m tid')) in *.
    set (m1 := mkMstate (tupd (trees m) tid' (k, fst (fst (xstep k st o os (mpool m)))))
                        (snd (xstep k st o os (mpool m)))).
    destruct (IH m1 Z) as (I1 & I2 & I3 & I4).
    assert (Hk : forall tid, kind_of m1 tid = kind_of m tid).
    { intros tid. unfold kind_of, m1, tupd. cbn [trees]. destruct (Nat.eqb_spec tid tid') as [->|Hne]; reflexivity. }
    split; [|split; [|split; [|exact I4]]].
    + intros tid. rewrite outputs_of_app, I1, Hk. cbn [ops_of].
      unfold outputs_of at 1. cbn [filter fst]. unfold m1 at 1, tupd. cbn [trees].
      rewrite (Nat.eqb_sym tid tid').
      destruct (Nat.eqb_spec tid' tid) as [->|Hne]; cbn [map snd app].
      * cbn [xalone fst snd]. unfold kind_of. fold k st. rewrite <- E. reflexivity.
      * reflexivity.
    + intros tid. rewrite I2, Hk. cbn [ops_of]. unfold m1 at 1, tupd. cbn [trees].
      rewrite (Nat.eqb_sym tid tid').
      destruct (Nat.eqb_spec tid' tid) as [->|Hne]; cbn [snd].
      * cbn [xalone fst snd]. unfold kind_of. fold k st. rewrite <- E. reflexivity.
      * reflexivity.
    + intros tid. rewrite I3. apply Hk.
  - cbn [mrun mstep fst snd ops_of app].
    apply (IH (mkMstate (trees m) (drop i (mpool m)))). cbn [mpool]. apply drop_pool_zero. exact Hp.
Qed.

(* one event of the shared-pool run against Model/Api.step *)
Theorem mstep_sim : forall m tid o os, zero_pool (mpool m) -> sinv (snd (trees m tid)) ->
  upd_ok (kind_of m tid) (sabs (snd (trees m tid))) o ->
  let m' := fst (mstep m (MOp tid o os)) in
  snd (mstep m (MOp tid o os)) = [(tid, snd (Api.step (kind_of m tid) (sabs (snd (trees m tid))) o))] /\
  sabs (snd (trees m' tid)) = fst (Api.step (kind_of m tid) (sabs (snd (trees m tid))) o) /\
  kind_of m' tid = kind_of m tid /\
  (forall j, j <> tid -> trees m' j = trees m j) /\
  zero_pool (mpool m') /\ sinv (snd (trees m' tid)).
Proof.
  intros m tid o os Hp Hs Hok. cbn [mstep fst snd mpool trees]. unfold kind_of in *.
  destruct (xstep_sim _ _ o os (mpool m) Hp Hs Hok) as (E1 & E2 & Z & Hs').
  unfold tupd. cbn [trees]. rewrite Nat.eqb_refl. cbn [fst snd].
  split; [rewrite E2; reflexivity|]. split; [exact E1|]. split; [reflexivity|].
  split; [|split; assumption].
  intros j Hj. destruct (Nat.eqb_spec j tid); [contradiction|reflexivity].
Qed.

(* MAIN.  Any number of trees of any kinds interleaved over one shared recycling pool, any answers of
   the pool, any drops, the OTHER trees in any state and with any histories: a tree that starts empty
   and whose own history meets wf_hist (in particular: history_ok) produces exactly the outputs of
   Model/Api.run on its own operations alone. *)
Theorem trees_independent_gen : forall evs m tid, zero_pool (mpool m) -> snd (trees m tid) = xinit ->
  wf_hist (kind_of m tid) Api.init (ops_of tid evs) ->
  outputs_of tid (snd (mrun evs m)) = snd (Api.run (kind_of m tid) Api.init (ops_of tid evs)) /\
  sabs (snd (trees (fst (mrun evs m)) tid)) = fst (Api.run (kind_of m tid) Api.init (ops_of tid evs)).
Proof.
  intros evs m tid Hp H0 Hh. destruct (trees_alone evs m Hp) as (E1 & E2 & _ & _).
  rewrite E1, E2, H0.
  destruct (xalone_sim (ops_of tid evs) (kind_of m tid) xinit I Hh) as (A1 & A2 & _).
  split; [exact A1|exact A2].
Qed.

Theorem trees_independent : forall evs m, zero_pool (mpool m) ->
  forall tid, snd (trees m tid) = xinit -> history_ok (kind_of m tid) (ops_of tid evs) = true ->
  outputs_of tid (snd (mrun evs m)) = snd (Api.run (kind_of m tid) Api.init (ops_of tid evs)).
Proof.
  intros evs m Hp tid H0 Hok.
  apply (trees_independent_gen evs m tid Hp H0 (wf_hist_history_ok _ _ Hok)).
Qed.

(* ================= 8. not vacuous =================
   (a) nodes really travel between trees: tree 0 grows a node4 and collapses it again (the node4
       goes, cleared, into the pool: one pooled node); tree 1 then splits a leaf and the pool hands
       it that very node (Reuse 0: the pool is empty afterwards).  Both histories are history_ok, so
       trees_independent applies to this run.
   (b) "the pool is zero" is what carries everything: the same run of tree 1 started over a pool that
       holds ONE node4 with one stale cell answers a Search for a key that was never inserted. *)
Definition ex_m0 : mstate := mkMstate (fun _ => (KAlpha, xinit)) [].
Definition ex_evs0 : list mevent :=
  [MOp 0 (Insert (AB [97]) 1) []; MOp 0 (Insert (AB [98]) 2) []; MOp 0 (Delete (AB [98])) []].
Definition ex_evs1 : list mevent :=
  [MOp 1 (Insert (AB [120]) 3) []; MOp 1 (Insert (AB [121]) 4) [Reuse 0]; MOp 1 (Search (AB [65])) []].

Theorem trees_recycle_example :
  length (mpool (fst (mrun ex_evs0 ex_m0))) = 1%nat /\
  length (mpool (fst (mrun (ex_evs0 ++ ex_evs1) ex_m0))) = 0%nat /\
  length (mpool (fst (mrun (ex_evs0 ++ [MOp 1 (Insert (AB [120]) 3) []; MOp 1 (Insert (AB [121]) 4) [Fresh]]) ex_m0))) = 1%nat /\
  history_ok KAlpha (ops_of 0 (ex_evs0 ++ ex_evs1)) = true /\
  history_ok KAlpha (ops_of 1 (ex_evs0 ++ ex_evs1)) = true /\
  outputs_of 1 (snd (mrun (ex_evs0 ++ ex_evs1) ex_m0)) = [OUnit; OUnit; OAbsent].
Proof. repeat split; vm_compute; reflexivity. Qed.

Definition ex_dirty4 : xnode xtree :=
  X4 (mkXhdr 1 0 (repeat 0 maxPrefixLen)) 0x41 [Some (XLeaf [65; 0] [65; 0] 777%Z); None; None; None].

Theorem trees_dirty_observable :
  is_zero ex_dirty4 = false /\
  outputs_of 1 (snd (mrun ex_evs1 (mkMstate (fun _ => (KAlpha, xinit)) [ex_dirty4]))) = [OUnit; OUnit; OFound 777] /\
  snd (Api.run KAlpha Api.init (ops_of 1 ex_evs1)) = [OUnit; OUnit; OAbsent].
Proof. repeat split; vm_compute; reflexivity. Qed.
