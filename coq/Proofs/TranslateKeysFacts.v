(* The REGENERATED translation of /repo's keys.go (Gen/KeysGen.v, written by
   go/cmd/srcfacts/translate_keys.go on every run: one definition per numeric
   codec, direction and concrete key type) IS the hand-written model
   Model/Keys.v (enc_u dec_u enc_s dec_s enc_f dec_f), on the domain of each type.

   What has to be proved, the two sides having been written independently:
   * encoding/binary's PutUintNN / UintNN (shifts, byte truncations and ors,
     Model/GoArith.v) are the model's be_bytes / be_val (division chain, Horner sum);
   * the float sign mask, computed in Go as  -int32(i >> 31)  reinterpreted as
     uint32 and or-ed with 0x80000000, is the model's
     "if fsign = 1 then all ones else signbit";
   * math.IsNaN on the bit pattern (shift / and) is the model's is_nan (div / mod).
   The rest is syntactic: unfold both sides and close with reflexivity (closed
   constants such as 2 ^ Z.of_N 16 and Z.of_N (wmod 2) are convertible). An edit
   of keys.go that changes an operator, an operand, a constant, a branch order
   or the byte order therefore breaks the theorem of the edited case; renaming a
   local variable does not. *)
From GoArt Require Import Base.Bytes Model.Keys Model.GoArith Gen.KeysGen Proofs.WordFacts.
From Coq Require Import ZifyN ZifyNat ZifyBool.
Ltac Zify.zify_post_hook ::= Z.div_mod_to_equations.
Open Scope N_scope.

(* ------------------------------------------------------------------ *)
(* binary.BigEndian.PutUintNN on make([]byte, NN/8) is be_bytes        *)
(* ------------------------------------------------------------------ *)
Lemma be_put_uint16_eq : forall v, be_put_uint16 (repeat 0 2) v = be_bytes 2 v.
Proof.
  intros v. unfold be_put_uint16. cbn [repeat skipn be_bytes app].
  rewrite !N.shiftr_div_pow2. reflexivity.
Qed.

Lemma be_put_uint32_eq : forall v, be_put_uint32 (repeat 0 4) v = be_bytes 4 v.
Proof.
  intros v. unfold be_put_uint32. cbn [repeat skipn be_bytes app].
  rewrite !N.shiftr_div_pow2, !N.div_div by discriminate. reflexivity.
Qed.

Lemma be_put_uint64_eq : forall v, be_put_uint64 (repeat 0 8) v = be_bytes 8 v.
Proof.
  intros v. unfold be_put_uint64. cbn [repeat skipn be_bytes app].
  rewrite !N.shiftr_div_pow2, !N.div_div by discriminate. reflexivity.
Qed.

(* ------------------------------------------------------------------ *)
(* binary.BigEndian.UintNN on NN/8 bytes is be_val                     *)
(* ------------------------------------------------------------------ *)
Lemma land_low_shiftl : forall x y k, x < 2 ^ k -> N.land x (N.shiftl y k) = 0.
Proof.
  intros x y k H. apply N.bits_inj_0. intros n. rewrite N.land_spec.
  destruct (N.ltb_spec n k) as [L | L].
  - rewrite N.shiftl_spec_low by exact L. apply andb_false_r.
  - rewrite <- (N.mod_small x (2 ^ k)) by exact H.
    rewrite N.mod_pow2_bits_high by exact L. reflexivity.
Qed.

Lemma lor_shiftl_add : forall k x y, x < 2 ^ k -> N.lor x (N.shiftl y k) = x + 2 ^ k * y.
Proof.
  intros k x y H. pose proof (land_low_shiftl x y k H) as L.
  rewrite <- N.lxor_lor by exact L. rewrite <- N.add_nocarry_lxor by exact L.
  rewrite N.shiftl_mul_pow2. lia.
Qed.

Ltac pow_consts :=
  change (2 ^ 8) with 256 in *; change (2 ^ 16) with 65536 in *; change (2 ^ 24) with 16777216 in *;
  change (2 ^ 32) with 4294967296 in *; change (2 ^ 40) with 1099511627776 in *;
  change (2 ^ 48) with 281474976710656 in *; change (2 ^ 56) with 72057594037927936 in *.

Lemma be_uint16_eq : forall b, length b = 2%nat -> isbytes b = true -> be_uint16 b = be_val b.
Proof.
  intros b Hl Hb. destruct b as [|a0 [|a1 [|? ?]]]; try discriminate Hl.
  unfold isbytes, isbyte in Hb. cbn [forallb] in Hb.
  unfold be_uint16, be_val. cbn [nth fold_left].
  rewrite (lor_shiftl_add 8) by (pow_consts; lia). pow_consts. lia.
Qed.

Lemma be_uint32_eq : forall b, length b = 4%nat -> isbytes b = true -> be_uint32 b = be_val b.
Proof.
  intros b Hl Hb. destruct b as [|a0 [|a1 [|a2 [|a3 [|? ?]]]]]; try discriminate Hl.
  unfold isbytes, isbyte in Hb. cbn [forallb] in Hb.
  unfold be_uint32, be_val. cbn [nth fold_left].
  rewrite (lor_shiftl_add 8) by (pow_consts; lia).
  rewrite (lor_shiftl_add 16) by (pow_consts; lia).
  rewrite (lor_shiftl_add 24) by (pow_consts; lia).
  pow_consts. lia.
Qed.

Lemma be_uint64_eq : forall b, length b = 8%nat -> isbytes b = true -> be_uint64 b = be_val b.
Proof.
  intros b Hl Hb.
  destruct b as [|a0 [|a1 [|a2 [|a3 [|a4 [|a5 [|a6 [|a7 [|? ?]]]]]]]]]; try discriminate Hl.
  unfold isbytes, isbyte in Hb. cbn [forallb] in Hb.
  unfold be_uint64, be_val. cbn [nth fold_left].
  rewrite (lor_shiftl_add 8) by (pow_consts; lia).
  rewrite (lor_shiftl_add 16) by (pow_consts; lia).
  rewrite (lor_shiftl_add 24) by (pow_consts; lia).
  rewrite (lor_shiftl_add 32) by (pow_consts; lia).
  rewrite (lor_shiftl_add 40) by (pow_consts; lia).
  rewrite (lor_shiftl_add 48) by (pow_consts; lia).
  rewrite (lor_shiftl_add 56) by (pow_consts; lia).
  pow_consts. lia.
Qed.

(* ------------------------------------------------------------------ *)
(* UnsignedBinaryKey                                                    *)
(* ------------------------------------------------------------------ *)
Theorem gen_unsigned_transform_uint8_eq : forall k, k < 2 ^ 8 -> g_unsigned_transform_uint8 k = enc_u 1 k.
Proof.
  intros k Hk. unfold g_unsigned_transform_uint8, enc_u. cbn [be_bytes app].
  rewrite N.mod_small by exact Hk. reflexivity.
Qed.

Theorem gen_unsigned_transform_uint16_eq : forall k, k < 2 ^ 16 -> g_unsigned_transform_uint16 k = enc_u 2 k.
Proof. intros k _. exact (be_put_uint16_eq k). Qed.

Theorem gen_unsigned_transform_uint32_eq : forall k, k < 2 ^ 32 -> g_unsigned_transform_uint32 k = enc_u 4 k.
Proof. intros k _. exact (be_put_uint32_eq k). Qed.

Theorem gen_unsigned_transform_uint64_eq : forall k, k < 2 ^ 64 -> g_unsigned_transform_uint64 k = enc_u 8 k.
Proof. intros k _. exact (be_put_uint64_eq k). Qed.

(* uint where bits.UintSize = 32, resp. 64 *)
Theorem gen_unsigned_transform_uint_32_eq : forall k, k < 2 ^ 32 -> g_unsigned_transform_uint_32 k = enc_u 4 k.
Proof. intros k _. exact (be_put_uint32_eq k). Qed.

Theorem gen_unsigned_transform_uint_64_eq : forall k, k < 2 ^ 64 -> g_unsigned_transform_uint_64 k = enc_u 8 k.
Proof. intros k _. exact (be_put_uint64_eq k). Qed.

Theorem gen_unsigned_restore_uint8_eq : forall b, length b = 1%nat -> isbytes b = true ->
  g_unsigned_restore_uint8 b = dec_u 1 b.
Proof. intros b Hl _. destruct b as [|a0 [|? ?]]; try discriminate Hl. reflexivity. Qed.

Theorem gen_unsigned_restore_uint16_eq : forall b, length b = 2%nat -> isbytes b = true ->
  g_unsigned_restore_uint16 b = dec_u 2 b.
Proof. exact be_uint16_eq. Qed.

Theorem gen_unsigned_restore_uint32_eq : forall b, length b = 4%nat -> isbytes b = true ->
  g_unsigned_restore_uint32 b = dec_u 4 b.
Proof. exact be_uint32_eq. Qed.

Theorem gen_unsigned_restore_uint64_eq : forall b, length b = 8%nat -> isbytes b = true ->
  g_unsigned_restore_uint64 b = dec_u 8 b.
Proof. exact be_uint64_eq. Qed.

Theorem gen_unsigned_restore_uint_32_eq : forall b, length b = 4%nat -> isbytes b = true ->
  g_unsigned_restore_uint_32 b = dec_u 4 b.
Proof. exact be_uint32_eq. Qed.

Theorem gen_unsigned_restore_uint_64_eq : forall b, length b = 8%nat -> isbytes b = true ->
  g_unsigned_restore_uint_64 b = dec_u 8 b.
Proof. exact be_uint64_eq. Qed.

(* ------------------------------------------------------------------ *)
(* SignedBinaryKey                                                      *)
(* ------------------------------------------------------------------ *)
Lemma bits_of_int8_byte : forall k, bits_of_int 8 k < 256.
Proof. intros k. unfold bits_of_int. change (2 ^ Z.of_N 8)%Z with 256%Z. lia. Qed.

Theorem gen_signed_transform_int8_eq : forall k, (- 2 ^ 7 <= k < 2 ^ 7)%Z -> g_signed_transform_int8 k = enc_s 1 k.
Proof.
  intros k _. unfold g_signed_transform_int8, enc_s. cbn [be_bytes app]. cbv zeta.
  change (twos 1 k) with (bits_of_int 8 k). change (signbit 1) with 0x80.
  rewrite N.mod_small; [reflexivity|].
  apply lxor_byte; [apply bits_of_int8_byte | reflexivity].
Qed.

Theorem gen_signed_transform_int16_eq : forall k, (- 2 ^ 15 <= k < 2 ^ 15)%Z -> g_signed_transform_int16 k = enc_s 2 k.
Proof. intros k _. unfold g_signed_transform_int16. cbv zeta. rewrite be_put_uint16_eq. reflexivity. Qed.

Theorem gen_signed_transform_int32_eq : forall k, (- 2 ^ 31 <= k < 2 ^ 31)%Z -> g_signed_transform_int32 k = enc_s 4 k.
Proof. intros k _. unfold g_signed_transform_int32. cbv zeta. rewrite be_put_uint32_eq. reflexivity. Qed.

Theorem gen_signed_transform_int64_eq : forall k, (- 2 ^ 63 <= k < 2 ^ 63)%Z -> g_signed_transform_int64 k = enc_s 8 k.
Proof. intros k _. unfold g_signed_transform_int64. cbv zeta. rewrite be_put_uint64_eq. reflexivity. Qed.

Theorem gen_signed_transform_int_32_eq : forall k, (- 2 ^ 31 <= k < 2 ^ 31)%Z -> g_signed_transform_int_32 k = enc_s 4 k.
Proof. intros k _. unfold g_signed_transform_int_32. cbv zeta. rewrite be_put_uint32_eq. reflexivity. Qed.

Theorem gen_signed_transform_int_64_eq : forall k, (- 2 ^ 63 <= k < 2 ^ 63)%Z -> g_signed_transform_int_64 k = enc_s 8 k.
Proof. intros k _. unfold g_signed_transform_int_64. cbv zeta. rewrite be_put_uint64_eq. reflexivity. Qed.

(* the signed reading of W bits is the model's untwos (W/8); stated per width so that
   the closed constants are converted explicitly (a bare reflexivity lets the unifier
   unfold N.ltb on open terms at 32 and 64 bits) *)
Lemma int_of_bits_8 : forall u, int_of_bits 8 u = untwos 1 u.
Proof.
  intros u. unfold int_of_bits, untwos.
  change (signbit 1) with (2 ^ (8 - 1)). change (Z.of_N (wmod 1)) with (2 ^ Z.of_N 8)%Z. reflexivity.
Qed.
Lemma int_of_bits_16 : forall u, int_of_bits 16 u = untwos 2 u.
Proof.
  intros u. unfold int_of_bits, untwos.
  change (signbit 2) with (2 ^ (16 - 1)). change (Z.of_N (wmod 2)) with (2 ^ Z.of_N 16)%Z. reflexivity.
Qed.
Lemma int_of_bits_32 : forall u, int_of_bits 32 u = untwos 4 u.
Proof.
  intros u. unfold int_of_bits, untwos.
  change (signbit 4) with (2 ^ (32 - 1)). change (Z.of_N (wmod 4)) with (2 ^ Z.of_N 32)%Z. reflexivity.
Qed.
Lemma int_of_bits_64 : forall u, int_of_bits 64 u = untwos 8 u.
Proof.
  intros u. unfold int_of_bits, untwos.
  change (signbit 8) with (2 ^ (64 - 1)). change (Z.of_N (wmod 8)) with (2 ^ Z.of_N 64)%Z. reflexivity.
Qed.

Theorem gen_signed_restore_int8_eq : forall b, length b = 1%nat -> isbytes b = true ->
  g_signed_restore_int8 b = dec_s 1 b.
Proof.
  intros b Hl _. destruct b as [|a0 [|? ?]]; try discriminate Hl.
  unfold g_signed_restore_int8, dec_s. cbv zeta. rewrite int_of_bits_8. reflexivity.
Qed.

Theorem gen_signed_restore_int16_eq : forall b, length b = 2%nat -> isbytes b = true ->
  g_signed_restore_int16 b = dec_s 2 b.
Proof.
  intros b Hl Hb. unfold g_signed_restore_int16, dec_s. cbv zeta.
  rewrite (be_uint16_eq b Hl Hb), int_of_bits_16. change (signbit 2) with 0x8000. reflexivity.
Qed.

Theorem gen_signed_restore_int32_eq : forall b, length b = 4%nat -> isbytes b = true ->
  g_signed_restore_int32 b = dec_s 4 b.
Proof.
  intros b Hl Hb. unfold g_signed_restore_int32, dec_s. cbv zeta.
  rewrite (be_uint32_eq b Hl Hb), int_of_bits_32. change (signbit 4) with 0x80000000. reflexivity.
Qed.

Theorem gen_signed_restore_int64_eq : forall b, length b = 8%nat -> isbytes b = true ->
  g_signed_restore_int64 b = dec_s 8 b.
Proof.
  intros b Hl Hb. unfold g_signed_restore_int64, dec_s. cbv zeta.
  rewrite (be_uint64_eq b Hl Hb), int_of_bits_64. change (signbit 8) with 0x8000000000000000. reflexivity.
Qed.

Theorem gen_signed_restore_int_32_eq : forall b, length b = 4%nat -> isbytes b = true ->
  g_signed_restore_int_32 b = dec_s 4 b.
Proof.
  intros b Hl Hb. unfold g_signed_restore_int_32, dec_s. cbv zeta.
  rewrite (be_uint32_eq b Hl Hb), int_of_bits_32. change (signbit 4) with 0x80000000. reflexivity.
Qed.

Theorem gen_signed_restore_int_64_eq : forall b, length b = 8%nat -> isbytes b = true ->
  g_signed_restore_int_64 b = dec_s 8 b.
Proof.
  intros b Hl Hb. unfold g_signed_restore_int_64, dec_s. cbv zeta.
  rewrite (be_uint64_eq b Hl Hb), int_of_bits_64. change (signbit 8) with 0x8000000000000000. reflexivity.
Qed.

(* ------------------------------------------------------------------ *)
(* FloatBinaryKey                                                       *)
(* ------------------------------------------------------------------ *)

(* math.IsNaN on the bit pattern (shift / and) is the model's is_nan (div / mod) *)
Lemma f_is_nan_32 : forall b, f_is_nan 32 b = is_nan 4 b.
Proof.
  intros b. unfold f_is_nan, is_nan, fexp, fmant.
  change (f_mant 32) with 23. change (f_expo 32) with 8. change (mbits 4) with 23. change (ebits 4) with 8.
  rewrite N.shiftr_div_pow2, !N.land_ones. reflexivity.
Qed.

Lemma f_is_nan_64 : forall b, f_is_nan 64 b = is_nan 8 b.
Proof.
  intros b. unfold f_is_nan, is_nan, fexp, fmant.
  change (f_mant 64) with 52. change (f_expo 64) with 11. change (mbits 8) with 52. change (ebits 8) with 11.
  rewrite N.shiftr_div_pow2, !N.land_ones. reflexivity.
Qed.

(* the sign mask:  t := i >> 31; mask := -int32(t) (through unsafe); mask2 := uint32(mask) (through unsafe) | 0x80000000.
   -(1) read as uint32 is all ones, -(0) is 0. *)
Lemma sign_mask_32 : forall k, k < 2 ^ 32 ->
  N.lor (bits_of_int 32 (negw 32 (int_of_bits 32 (shrw 32 k 31)))) 0x80000000 =
  (if fsign 4 k =? 1 then wmod 4 - 1 else signbit 4).
Proof.
  intros k Hk. unfold shrw, fsign. rewrite N.shiftr_div_pow2. change (signbit 4) with (2 ^ 31).
  assert (Hq : k / 2 ^ 31 = 0 \/ k / 2 ^ 31 = 1).
  { change (2 ^ 32) with 4294967296 in Hk. change (2 ^ 31) with 2147483648. lia. }
  destruct Hq as [-> | ->]; vm_compute; reflexivity.
Qed.

Lemma sign_mask_64 : forall k, k < 2 ^ 64 ->
  N.lor (bits_of_int 64 (negw 64 (int_of_bits 64 (shrw 64 k 63)))) 0x8000000000000000 =
  (if fsign 8 k =? 1 then wmod 8 - 1 else signbit 8).
Proof.
  intros k Hk. unfold shrw, fsign. rewrite N.shiftr_div_pow2. change (signbit 8) with (2 ^ 63).
  assert (Hq : k / 2 ^ 63 = 0 \/ k / 2 ^ 63 = 1).
  { change (2 ^ 64) with 18446744073709551616 in Hk. change (2 ^ 63) with 9223372036854775808. lia. }
  destruct Hq as [-> | ->]; vm_compute; reflexivity.
Qed.

(* a float IS its bit pattern: the argument is the pattern of k *)
Theorem gen_float_transform_float32_eq : forall bits, bits < 2 ^ 32 -> g_float_transform_float32 bits = enc_f 4 bits.
Proof.
  intros k Hk. unfold g_float_transform_float32, enc_f, fl_code. cbv zeta.
  rewrite be_put_uint32_eq, f_is_nan_32, (sign_mask_32 k Hk). reflexivity.
Qed.

Theorem gen_float_transform_float64_eq : forall bits, bits < 2 ^ 64 -> g_float_transform_float64 bits = enc_f 8 bits.
Proof.
  intros k Hk. unfold g_float_transform_float64, enc_f, fl_code. cbv zeta.
  rewrite be_put_uint64_eq, f_is_nan_64, (sign_mask_64 k Hk). reflexivity.
Qed.

(* Restore:  i -= 2; mask := ((i >> 31) - 1) | 0x80000000; i ^= mask  is the model's fl_uncode
   once i >> 31 is read as a division *)
Theorem gen_float_restore_float32_eq : forall b, length b = 4%nat -> isbytes b = true ->
  g_float_restore_float32 b = dec_f 4 b.
Proof.
  intros b Hl Hb. unfold g_float_restore_float32, dec_f, fl_uncode. cbv zeta.
  rewrite (be_uint32_eq b Hl Hb). unfold shrw. rewrite N.shiftr_div_pow2. reflexivity.
Qed.

Theorem gen_float_restore_float64_eq : forall b, length b = 8%nat -> isbytes b = true ->
  g_float_restore_float64 b = dec_f 8 b.
Proof.
  intros b Hl Hb. unfold g_float_restore_float64, dec_f, fl_uncode. cbv zeta.
  rewrite (be_uint64_eq b Hl Hb). unfold shrw. rewrite N.shiftr_div_pow2. reflexivity.
Qed.
