(* Proofs/TranslateIterFacts.v, part 6 of 7: topK / bottomK *)
From GoArt Require Import Base.Bytes Model.Node4 Model.Node16 Model.Node Model.Tree Model.Iter Model.Api
  Spec.NodeSpec Spec.TreeSpec Spec.IterSpec Proofs.BytesFacts Proofs.Node4Facts Proofs.NodeFacts Proofs.TreeBasics Proofs.NodeAux48
  Proofs.NodeAuxAssoc Proofs.NodeAuxArr Proofs.InsertFacts Proofs.IterFacts Spec.Ideal Proofs.PropFacts Proofs.TranslateFacts.
From GoArt Require Import Model.Pool Proofs.PoolFacts Model.PoolTree Proofs.PoolTreeFacts.
From GoArt Require Import Model.GoArith Model.GoTree Gen.Node4Gen Gen.Node16Gen Gen.TreeGen Proofs.TranslateTreeFacts Gen.IterGen.
From GoArt Require Import Proofs.TranslateIterBase Proofs.TranslateIterAll Proofs.TranslateIterBackward.
From Coq Require Import ZifyN ZifyNat ZifyBool.
Ltac Zify.zify_post_hook ::= Z.div_mod_to_equations.
Open Scope N_scope.

(* ================= 8. topK / bottomK ================= *)
(* the loop body as Model/Iter.v describes it:  if remaining == 0 {return}; if !yield(key, val) {break}; remaining-- *)
Definition bounded_step (ans : nat -> bool) (remaining : N) (y : nat) : bstep N :=
  if remaining =? 0 then BReturn remaining y
  else if ans y then BNext (remaining - 1) (S y) else BBreak remaining (S y).

Lemma subw64_pred : forall r, r <> 0 -> r < 2 ^ 64 -> subw 64 r 1 = r - 1.
Proof.
  intros r H0 H. unfold subw. replace (r + 2 ^ 64 - 1) with (r - 1 + 1 * 2 ^ 64) by lia.
  rewrite N.mod_add by lia. apply N.mod_small. lia.
Qed.
Theorem gen_topK_body_eq : forall ans r y, r < 2 ^ 64 -> g_topK_body ans r y = bounded_step ans r y.
Proof.
  intros ans r y Hr. unfold g_topK_body, bounded_step. cbv zeta.
  destruct (N.eqb_spec r 0) as [E|E]; [reflexivity|]. destruct (ans y); cbn [negb]; [|reflexivity].
  rewrite subw64_pred by assumption. reflexivity.
Qed.
Theorem gen_bottomK_body_eq : forall ans r y, r < 2 ^ 64 -> g_bottomK_body ans r y = bounded_step ans r y.
Proof.
  intros ans r y Hr. unfold g_bottomK_body, bounded_step. cbv zeta.
  destruct (N.eqb_spec r 0) as [E|E]; [reflexivity|]. destruct (ans y); cbn [negb]; [|reflexivity].
  rewrite subw64_pred by assumption. reflexivity.
Qed.

(* what run_bounded assumes of the iterator it wraps (Model/Iter.v states it for the scans of this file, which
   have these properties: walk_seq_ok below) *)
Record seq_ok (f : (nat -> bool) -> wres) : Prop := mkSeqOk {
  (* only the answers up to the first false matter *)
  so_ext : forall a b, (forall i, (forall j, (j < i)%nat -> a j = true) -> a i = b i) -> f a = f b;
  (* every call delivers one element *)
  so_len : forall a, length (delivered (f a)) = calls (f a);
  (* no call after an answer false *)
  so_true : forall a j, (S j < calls (f a))%nat -> a j = true;
  (* stopped = the last answer was false *)
  so_stop : forall a, status (f a) = WStopped <-> exists j, calls (f a) = S j /\ a j = false }.

Section WalkSeq.
Variable leaf_act : tree -> lact.
Variable expand : rnode tree -> nat -> option (list (tree * nat)).
Let W := walk leaf_act expand.

Lemma walk_ext : forall fuel stk a b i acc,
  (forall i', (i <= i')%nat -> (forall j, (i <= j < i')%nat -> a j = true) -> a i' = b i') ->
  W fuel stk a i acc = W fuel stk b i acc.
Proof.
  unfold W. induction fuel as [|fuel IH]; intros stk a b i acc H; [reflexivity|].
  destruct stk as [|[t d] st]; [reflexivity|]. cbn [walk].
  destruct t as [gk tk v|n].
  - destruct (leaf_act (Leaf gk tk v)); [|apply IH; exact H|reflexivity].
    rewrite <- (H i (Nat.le_refl i)) by (intros j Hj; lia).
    destruct (a i) eqn:Ea; [|reflexivity]. apply IH. intros i' Hi' Hj. apply H; [lia|].
    intros j Hjj. destruct (Nat.eq_dec j i) as [->|Hne]; [exact Ea|apply Hj; lia].
  - destruct (expand n d); apply IH; exact H.
Qed.
Lemma walk_len : forall fuel stk a i acc,
  (length (delivered (W fuel stk a i acc)) + i = calls (W fuel stk a i acc) + length acc)%nat /\
  (i <= calls (W fuel stk a i acc))%nat.
Proof.
  unfold W. induction fuel as [|fuel IH]; intros stk a i acc; [cbn [walk delivered calls]; rewrite rev_length; lia|].
  destruct stk as [|[t d] st]; [cbn [walk delivered calls]; rewrite rev_length; lia|]. cbn [walk].
  destruct t as [gk tk v|n].
  - destruct (leaf_act (Leaf gk tk v)); [|apply IH|cbn [delivered calls]; rewrite rev_length; lia].
    destruct (a i).
    + specialize (IH st a (S i) (Leaf gk tk v :: acc)). cbn [length] in IH. lia.
    + cbn [delivered calls]. rewrite rev_length. cbn [length]. lia.
  - destruct (expand n d); apply IH.
Qed.
Lemma walk_true : forall fuel stk a i acc j, (i <= j)%nat -> (S j < calls (W fuel stk a i acc))%nat -> a j = true.
Proof.
  unfold W. induction fuel as [|fuel IH]; intros stk a i acc j Hij Hc; [cbn [walk calls] in Hc; lia|].
  destruct stk as [|[t d] st]; [cbn [walk calls] in Hc; lia|]. cbn [walk] in Hc.
  destruct t as [gk tk v|n].
  - destruct (leaf_act (Leaf gk tk v)); [|exact (IH _ _ _ _ _ Hij Hc)|cbn [calls] in Hc; lia].
    destruct (a i) eqn:Ea; [|cbn [calls] in Hc; lia].
    destruct (Nat.eq_dec j i) as [->|Hne]; [exact Ea|]. apply (IH st a (S i) (Leaf gk tk v :: acc) j); [lia|exact Hc].
  - destruct (expand n d); exact (IH _ _ _ _ _ Hij Hc).
Qed.
Lemma walk_stop : forall fuel stk a i acc,
  status (W fuel stk a i acc) = WStopped <-> exists j, (i <= j)%nat /\ calls (W fuel stk a i acc) = S j /\ a j = false.
Proof.
  unfold W. induction fuel as [|fuel IH]; intros stk a i acc.
  { cbn [walk status calls]. split; [discriminate|]. intros (j & H1 & H2 & _). lia. }
  destruct stk as [|[t d] st].
  { cbn [walk status calls]. split; [discriminate|]. intros (j & H1 & H2 & _). lia. }
  cbn [walk]. destruct t as [gk tk v|n].
  - destruct (leaf_act (Leaf gk tk v)); [|apply IH|].
    + destruct (a i) eqn:Ea.
      * rewrite IH. split; intros (j & H1 & H2 & H3); exists j; (split; [|split; assumption]); [lia|].
        destruct (Nat.eq_dec j i) as [->|Hne]; [congruence|lia].
      * cbn [status calls]. split; [intros _; exists i; repeat split; [lia|exact Ea]|reflexivity].
    + cbn [status calls]. split; [discriminate|]. intros (j & H1 & H2 & _). lia.
  - destruct (expand n d); apply IH.
Qed.

Theorem walk_seq_ok : forall fuel stk, seq_ok (fun a => W fuel stk a 0%nat []).
Proof.
  intros fuel stk. constructor.
  - intros a b H. apply walk_ext. intros i' _ Hj. apply H. intros j Hjj. apply Hj. lia.
  - intros a. pose proof (walk_len fuel stk a 0%nat []) as [H _]. cbn [length] in H. lia.
  - intros a j Hc. exact (walk_true fuel stk a 0%nat [] j (Nat.le_0_l j) Hc).
  - intros a. rewrite walk_stop. split; intros (j & H); exists j; [tauto|]. split; [lia|exact H].
Qed.
End WalkSeq.

(* how the wrapper closure ended, against the status run_bounded reports (the status of the wrapped scan):
   return at remaining == 0 and break after a refused element both show up as "stopped" *)
Definition bounded_status (how : iend) (st : wstatus) : Prop :=
  match how with
  | ByReturn | ByBreak => st = WStopped
  | ByEnd => st = WDone \/ st = WBroke
  | ByFuel => st = WFuel
  end.

Section Bounded.
Variable k : N.
Variable ans : nat -> bool.
Variable step : N -> nat -> bstep N.
Hypothesis Hstep : forall r y, r <= k -> step r y = bounded_step ans r y.
Let cm : nat -> bool := fun i => (N.of_nat i <? k) && ans i.

Lemma pre_state : forall i, (forall j, (j < i)%nat -> cm j = true) ->
  range_pre step k 0%nat i = Some (k - N.of_nat i, i).
Proof.
  induction i as [|i IH]; intros H; [cbn [range_pre]; f_equal; f_equal; lia|].
  cbn [range_pre]. rewrite IH by (intros j Hj; apply H; lia).
  rewrite Hstep by lia. unfold bounded_step.
  pose proof (H i ltac:(lia)) as Hi. unfold cm in Hi. apply andb_prop in Hi. destruct Hi as [H1 H2]. apply N.ltb_lt in H1.
  destruct (N.eqb_spec (k - N.of_nat i) 0); [lia|]. rewrite H2. f_equal. f_equal. lia.
Qed.
Lemma consumer_agrees : forall i, (forall j, (j < i)%nat -> cm j = true) -> cm i = range_ans step k 0%nat i.
Proof.
  intros i H. unfold range_ans. rewrite (pre_state i H), Hstep by lia. unfold bounded_step, cm.
  assert (Hi : N.of_nat i <= k).
  { destruct i as [|i]; [lia|]. pose proof (H i ltac:(lia)) as Hi. unfold cm in Hi. apply andb_prop in Hi.
    destruct Hi as [H1 _]. apply N.ltb_lt in H1. lia. }
  destruct (N.eqb_spec (k - N.of_nat i) 0) as [E|E].
  - replace (N.of_nat i <? k) with false by (symmetry; apply N.ltb_ge; lia). reflexivity.
  - replace (N.of_nat i <? k) with true by (symmetry; apply N.ltb_lt; lia). cbn [andb]. destruct (ans i); reflexivity.
Qed.

Lemma fold_bounded : forall els y out how,
  N.of_nat y <= k ->
  (forall j, (y <= j)%nat -> (S j < y + length els)%nat -> cm j = true) ->
  exists how',
    range_fold step how (k - N.of_nat y) y out els =
      IDone how' (y + (if (N.of_nat (length els) <=? k - N.of_nat y)%N then length els else N.to_nat (k - N.of_nat y)%N))%nat
            (rev (takeN (k - N.of_nat y) els) ++ out) /\
    match how' with
    | ByReturn | ByBreak => exists j, (y + length els = S j)%nat /\ cm j = false
    | ByEnd => how <> ByFuel /\ (forall j, (y + length els = S j)%nat -> (y <= j)%nat -> cm j = true)
    | ByFuel => how = ByFuel /\ (forall j, (y + length els = S j)%nat -> (y <= j)%nat -> cm j = true)
    end.
Proof.
  induction els as [|x els IH]; intros y out how Hy HP.
  - cbn [range_fold length takeN rev app]. replace (N.of_nat 0 <=? k - N.of_nat y) with true by (symmetry; apply N.leb_le; lia).
    rewrite Nat.add_0_r. destruct how; eexists; (split; [reflexivity|]); cbn beta iota;
      (split; [congruence|intros j Hj Hyj; lia]).
  - cbn [range_fold]. rewrite Hstep by lia. unfold bounded_step. cbn [length] in *.
    destruct (N.eqb_spec (k - N.of_nat y) 0) as [E|E].
    + (* remaining == 0: return *)
      assert (Hl : els = []).
      { destruct els as [|x' els]; [reflexivity|]. cbn [length] in HP. pose proof (HP y ltac:(lia) ltac:(lia)) as Hc.
        unfold cm in Hc. apply andb_prop in Hc. destruct Hc as [H1 _]. apply N.ltb_lt in H1. lia. }
      subst els. cbn [length]. rewrite Nat.eqb_refl.
      exists ByReturn. split.
      * rewrite E. cbn [takeN]. replace (N.of_nat 1 <=? 0) with false by reflexivity.
        rewrite N.eqb_refl. cbn [rev app N.to_nat]. rewrite Nat.add_0_r. reflexivity.
      * exists y. split; [lia|]. unfold cm. replace (N.of_nat y <? k) with false by (symmetry; apply N.ltb_ge; lia). reflexivity.
    + destruct (ans y) eqn:Ea.
      * (* forwarded, accepted *)
        replace (S y =? y)%nat with false by (symmetry; apply Nat.eqb_neq; lia).
        replace (k - N.of_nat y - 1) with (k - N.of_nat (S y)) by lia.
        destruct (IH (S y) (x :: out) how ltac:(lia)) as (how' & Hr & Hh).
        { intros j Hj1 Hj2. apply HP; lia. }
        exists how'. split.
        -- rewrite Hr. cbn [takeN]. destruct (N.eqb_spec (k - N.of_nat y) 0); [contradiction|].
           replace (k - N.of_nat y - 1) with (k - N.of_nat (S y)) by lia. cbn [rev]. rewrite <- app_assoc. cbn [app].
           f_equal.
           destruct (N.leb_spec (N.of_nat (length els)) (k - N.of_nat (S y)));
             destruct (N.leb_spec (N.of_nat (S (length els))) (k - N.of_nat y)); lia.
        -- assert (Hcy : cm y = true) by (unfold cm; rewrite Ea; replace (N.of_nat y <? k) with true by (symmetry; apply N.ltb_lt; lia); reflexivity).
           destruct how'.
           ++ destruct Hh as (j & Hj & Hc). exists j. split; [lia|exact Hc].
           ++ destruct Hh as (j & Hj & Hc). exists j. split; [lia|exact Hc].
           ++ destruct Hh as [Hn Hall]. split; [exact Hn|]. intros j Hj Hyj.
              destruct (Nat.eq_dec j y) as [->|Hne]; [exact Hcy|]. apply Hall; lia.
           ++ destruct Hh as [Hn Hall]. split; [exact Hn|]. intros j Hj Hyj.
              destruct (Nat.eq_dec j y) as [->|Hne]; [exact Hcy|]. apply Hall; lia.
      * (* forwarded, refused: break *)
        assert (Hl : els = []).
        { destruct els as [|x' els]; [reflexivity|]. cbn [length] in HP. pose proof (HP y ltac:(lia) ltac:(lia)) as Hc.
          unfold cm in Hc. rewrite Ea, andb_false_r in Hc. discriminate. }
        subst els. cbn [length].
        replace (S y =? y)%nat with false by (symmetry; apply Nat.eqb_neq; lia).
        exists ByBreak. split.
        -- cbn [takeN]. destruct (N.eqb_spec (k - N.of_nat y) 0); [contradiction|]. cbn [rev app].
           replace (N.of_nat 1 <=? k - N.of_nat y) with true by (symmetry; apply N.leb_le; lia). f_equal. lia.
        -- exists y. split; [lia|]. unfold cm. rewrite Ea. apply andb_false_r.
Qed.

(* the wrapper closure around a well-behaved iterator: what the outer consumer sees is what run_bounded says *)
Theorem bounded_eq : forall (seq : (nat -> bool) -> ires) (seq' : (nat -> bool) -> wres),
  seq_ok seq' -> (forall a, ires_abs (seq a) = Some (seq' a)) ->
  exists how c acc, range_over step seq k 0%nat [] = IDone how c acc /\
    rev (map tabs acc) = takeN k (delivered (seq' cm)) /\
    c = (if N.of_nat (calls (seq' cm)) <=? k then calls (seq' cm) else N.to_nat k) /\
    bounded_status how (status (seq' cm)).
Proof.
  intros seq seq' Hok Habs. unfold range_over.
  pose proof (Habs (range_ans step k 0%nat)) as Ha.
  rewrite <- (so_ext _ Hok cm (range_ans step k 0%nat) consumer_agrees) in Ha.
  set (r := seq' cm) in *.
  destruct (seq (range_ans step k 0%nat)) as [how n acc| |]; cbn [ires_abs] in Ha; try discriminate.
  injection Ha as Ha. pose proof (so_len _ Hok cm) as Hlen. pose proof (so_true _ Hok cm) as Htrue.
  pose proof (so_stop _ Hok cm) as Hstop. fold r in Hlen, Htrue, Hstop.
  rewrite <- Ha in Hlen, Htrue, Hstop |- *. cbn [delivered calls status] in *.
  assert (Hn : length (rev acc) = n) by (rewrite rev_length in *; rewrite map_length in Hlen; exact Hlen).
  destruct (fold_bounded (rev acc) 0%nat [] how ltac:(lia)) as (how' & Hr & Hh).
  { intros j _ Hj. apply Htrue. lia. }
  cbn [N.of_nat] in Hr. rewrite N.sub_0_r in Hr. rewrite Hr, Hn. cbn [Nat.add].
  exists how'. eexists. eexists. split; [reflexivity|]. split; [|split; [reflexivity|]].
  - rewrite app_nil_r, map_rev, rev_involutive, <- takeN_map, map_rev. reflexivity.
  - rewrite Hn in Hh. cbn [Nat.add] in Hh. unfold bounded_status.
    destruct how'.
    + apply Hstop. destruct Hh as (j & Hj & Hc). exists j. split; assumption.
    + apply Hstop. destruct Hh as (j & Hj & Hc). exists j. split; assumption.
    + destruct Hh as [Hnf Hall].
      assert (Hns : status_of how <> WStopped).
      { intros Hs. apply Hstop in Hs. destruct Hs as (j & Hj & Hc). rewrite (Hall j Hj ltac:(lia)) in Hc. discriminate. }
      destruct how; cbn [status_of] in *; try congruence; [right|left]; reflexivity.
    + destruct Hh as [-> _]. reflexivity.
Qed.
End Bounded.

(* the wrapper closure: what the outer consumer is called with, how often, and how the closure ends, against
   run_bounded; k is a Go uint *)
Theorem gen_topK_eq : forall (all bwd : (nat -> bool) -> ires) (bwd' : (nat -> bool) -> wres) k ans,
  0 < k -> k < 2 ^ 64 -> seq_ok bwd' -> (forall a, ires_abs (bwd a) = Some (bwd' a)) ->
  exists how c acc, g_topK all bwd k ans = IDone how c acc /\
    rev (map tabs acc) = delivered (run_bounded bwd' k ans) /\ c = calls (run_bounded bwd' k ans) /\
    bounded_status how (status (run_bounded bwd' k ans)).
Proof.
  intros all bwd bwd' k ans H0 Hk Hok Habs. unfold g_topK, run_bounded. cbv zeta.
  destruct (N.eqb_spec k 0) as [E|_]; [lia|]. cbn [delivered calls status].
  apply (bounded_eq k ans (g_topK_body ans)); [|exact Hok|exact Habs].
  intros r y Hr. apply gen_topK_body_eq. lia.
Qed.
Theorem gen_bottomK_eq : forall (all bwd : (nat -> bool) -> ires) (all' : (nat -> bool) -> wres) k ans,
  0 < k -> k < 2 ^ 64 -> seq_ok all' -> (forall a, ires_abs (all a) = Some (all' a)) ->
  exists how c acc, g_bottomK all bwd k ans = IDone how c acc /\
    rev (map tabs acc) = delivered (run_bounded all' k ans) /\ c = calls (run_bounded all' k ans) /\
    bounded_status how (status (run_bounded all' k ans)).
Proof.
  intros all bwd all' k ans H0 Hk Hok Habs. unfold g_bottomK, run_bounded. cbv zeta.
  destruct (N.eqb_spec k 0) as [E|_]; [lia|]. cbn [delivered calls status].
  apply (bounded_eq k ans (g_bottomK_body ans)); [|exact Hok|exact Habs].
  intros r y Hr. apply gen_bottomK_body_eq. lia.
Qed.
(* k == 0: the closure returns before it touches the tree (the model reports WDone here) *)
Theorem gen_topK_zero : forall all bwd bwd' ans,
  g_topK all bwd 0 ans = IDone ByReturn 0 [] /\ run_bounded bwd' 0 ans = mkWres [] 0 WDone.
Proof. intros. split; reflexivity. Qed.
Theorem gen_bottomK_zero : forall all bwd all' ans,
  g_bottomK all bwd 0 ans = IDone ByReturn 0 [] /\ run_bounded all' 0 ans = mkWres [] 0 WDone.
Proof. intros. split; reflexivity. Qed.

(* on a tree: TopK(k) of the API is topK over Backward(), BottomK(k) is bottomK over All(); the wrapped scans are the
   regenerated ones, with the budget Model/Iter.v gives them *)
Corollary gen_topK_tree : forall all t k ans, 0 < k -> k < 2 ^ 64 -> xtwf t ->
  exists how c acc, g_topK all (g_backward (walk_fuel (tabs t)) (Some t)) k ans = IDone how c acc /\
    rev (map tabs acc) = delivered (run_bounded (run_backward (Some (tabs t))) k ans) /\
    c = calls (run_bounded (run_backward (Some (tabs t))) k ans) /\
    bounded_status how (status (run_bounded (run_backward (Some (tabs t))) k ans)).
Proof.
  intros all t k ans H0 Hk Hx. apply gen_topK_eq; try assumption.
  - apply walk_seq_ok.
  - intros a. apply gen_backward_eq. exact Hx.
Qed.
Corollary gen_bottomK_tree : forall bwd t k ans, 0 < k -> k < 2 ^ 64 -> xtwf t ->
  exists how c acc, g_bottomK (g_all (walk_fuel (tabs t)) (Some t)) bwd k ans = IDone how c acc /\
    rev (map tabs acc) = delivered (run_bounded (run_all (Some (tabs t))) k ans) /\
    c = calls (run_bounded (run_all (Some (tabs t))) k ans) /\
    bounded_status how (status (run_bounded (run_all (Some (tabs t))) k ans)).
Proof.
  intros bwd t k ans H0 Hk Hx. apply gen_bottomK_eq; try assumption.
  - apply walk_seq_ok.
  - intros a. apply gen_all_eq. exact Hx.
Qed.
