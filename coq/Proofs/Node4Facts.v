(* Lane-level meaning of the word-level SWAR routines of Model/Node4.v and of the
   bitfield routines of Model/Node16.v, for ARBITRARY contents of all lanes.
   The word/lane machinery (lane-wise bit operations, borrow chain of the 32-bit
   subtraction, exhaustive byte sweeps, trailing zeros) is in Proofs/WordFacts.v. *)
From GoArt Require Import Base.Bytes Model.Node4 Model.Node16 Model.Node.
From GoArt Require Import Proofs.WordFacts.
From Coq Require Import ZifyN ZifyNat ZifyBool.
Ltac Zify.zify_post_hook ::= Z.div_mod_to_equations.
Open Scope N_scope.

(* ---- find_first ---- *)
Lemma find_first_none : forall f l i, (0 <= i)%Z ->
  (find_first f l i = (-1)%Z <-> forall x, In x l -> f x = false).
Proof. exact ff_none. Qed.

Lemma find_first_some : forall f l i k, (0 <= i)%Z -> find_first f l i = (i + Z.of_nat k)%Z ->
  (k < length l)%nat /\ f (nth k l 0) = true /\ forall j, (j < k)%nat -> f (nth j l 0) = false.
Proof. exact ff_some. Qed.

Lemma find_first_range : forall f l i, (0 <= i)%Z ->
  find_first f l i = (-1)%Z \/ (i <= find_first f l i < i + Z.of_nat (length l))%Z.
Proof. exact ff_range. Qed.

(* characterisation in the other direction *)
Lemma find_first_intro : forall f l k, (k < length l)%nat -> f (nth k l 0) = true ->
  (forall j, (j < k)%nat -> f (nth j l 0) = false) -> find_first f l 0 = Z.of_nat k.
Proof. exact ff_intro. Qed.

(* ---- lanes ---- *)
Lemma lane_lt : forall keys i, lane keys i < 256.
Proof. intros. unfold lane. apply N.mod_lt. lia. Qed.

Lemma lanes_length : forall keys, length (lanes keys) = 4%nat.
Proof. reflexivity. Qed.

Lemma lanes_bytes : forall keys x, In x (lanes keys) -> x < 256.
Proof.
  intros keys x H. unfold lanes in H. simpl in H.
  destruct H as [<- | [<- | [<- | [<- | []]]]]; apply lane_lt.
Qed.

Lemma pack4_lanes : forall keys, keys < M32 -> pack4 (lanes keys) = keys.
Proof.
  intros keys H. destruct (unpack keys H) as (a & b & c & d & Ha & Hb & Hc & Hd & ->).
  rewrite lanes_pack by assumption. reflexivity.
Qed.

Lemma lanes_pack4 : forall a b c d, a < 256 -> b < 256 -> c < 256 -> d < 256 ->
  pack4 [a; b; c; d] < M32 /\ lanes (pack4 [a; b; c; d]) = [a; b; c; d].
Proof.
  intros. change (pack4 [a; b; c; d]) with (pack a b c d).
  split; [apply pack_lt | apply lanes_pack]; assumption.
Qed.

Lemma lanes_inj : forall k1 k2, k1 < M32 -> k2 < M32 -> lanes k1 = lanes k2 -> k1 = k2.
Proof.
  intros k1 k2 H1 H2 E. rewrite <- (pack4_lanes k1 H1), <- (pack4_lanes k2 H2), E. reflexivity.
Qed.

(* ---- the SWAR routines ---- *)
Theorem searchNode4_spec : forall keys b, keys < M32 -> b < 256 ->
  searchNode4 keys b = find_first (fun x => x =? b) (lanes keys) 0.
Proof.
  intros keys b Hk Hb.
  destruct (unpack keys Hk) as (k0 & k1 & k2 & k3 & H0 & H1 & H2 & H3 & ->).
  rewrite (lanes_pack k0 k1 k2 k3) by assumption.
  change (searchNode4 (pack k0 k1 k2 k3) b) with
    (srch_tail (N.land (N.land (sub32 (N.lxor (pack k0 k1 k2 k3) (mul32 ones01 b)) ones01)
                               (not32 (N.lxor (pack k0 k1 k2 k3) (mul32 ones01 b)))) hiBitMask)).
  rewrite (mul32_ones b Hb).
  change hiBitMask with (pack 128 128 128 128). change ones01 with (pack 1 1 1 1).
  pack_ops.
  fold (srch_lane (N.lxor k0 b) 0).
  fold (srch_lane (N.lxor k1 b) (sub_bor (N.lxor k0 b) 1 0)).
  fold (srch_lane (N.lxor k2 b) (sub_bor (N.lxor k1 b) 1 (sub_bor (N.lxor k0 b) 1 0))).
  fold (srch_lane (N.lxor k3 b)
          (sub_bor (N.lxor k2 b) 1 (sub_bor (N.lxor k1 b) 1 (sub_bor (N.lxor k0 b) 1 0)))).
  rewrite srch_chain by bytes.
  cbv [find_first]. rewrite !lxor_eqb0. reflexivity.
Qed.

(* NB: first lane >= b, not > b *)
Theorem insertPosNode4_spec : forall keys b, keys < M32 -> b < 256 ->
  insertPosNode4 keys b = find_first (fun x => b <=? x) (lanes keys) 0.
Proof.
  intros keys b Hk Hb.
  destruct (unpack keys Hk) as (k0 & k1 & k2 & k3 & H0 & H1 & H2 & H3 & ->).
  rewrite (lanes_pack k0 k1 k2 k3) by assumption.
  unfold insertPosNode4. cbv zeta.
  rewrite (mul32_ones b Hb).
  close_word hiBitMask. close_word (not32 (pack 128 128 128 128)).
  pack_ops.
  rewrite !ins_nobor by assumption.
  fold (ins_lane k0 b). fold (ins_lane k1 b). fold (ins_lane k2 b). fold (ins_lane k3 b).
  rewrite !ins_lane_spec by assumption.
  cbv [find_first]. rewrite !(N.leb_antisym _ b).
  destruct (k0 <? b); destruct (k1 <? b); destruct (k2 <? b); destruct (k3 <? b);
    vm_compute; reflexivity.
Qed.

Lemma getAtPos_spec : forall keys i, keys < M32 -> (i < 4)%nat ->
  getAtPos keys (N.of_nat i) = lane keys i.
Proof.
  intros keys i Hk Hi.
  destruct (unpack keys Hk) as (k0 & k1 & k2 & k3 & H0 & H1 & H2 & H3 & ->).
  destruct (lane_pack k0 k1 k2 k3 H0 H1 H2 H3) as (L0 & L1 & L2 & L3).
  destruct (shr32_pack k0 k1 k2 k3 H0 H1 H2 H3) as (S0 & S1 & S2 & S3).
  unfold getAtPos.
  destruct i as [|[|[|[|i]]]]; [ close_shift 0%nat | close_shift 1%nat | close_shift 2%nat | close_shift 3%nat | lia].
  - rewrite S0, L0, pack_mod256, land_255 by assumption. reflexivity.
  - rewrite S1, L1, pack_mod256, land_255 by assumption. reflexivity.
  - rewrite S2, L2, pack_mod256, land_255 by assumption. reflexivity.
  - rewrite S3, L3, pack_mod256, land_255 by assumption. reflexivity.
Qed.

Lemma setAtPos_spec : forall keys i b, keys < M32 -> b < 256 -> (i < 4)%nat ->
  setAtPos keys (N.of_nat i) b < M32 /\
  lanes (setAtPos keys (N.of_nat i) b) = set_at i b (lanes keys).
Proof.
  intros keys i b Hk Hb Hi.
  destruct (unpack keys Hk) as (k0 & k1 & k2 & k3 & H0 & H1 & H2 & H3 & ->).
  rewrite (lanes_pack k0 k1 k2 k3) by assumption.
  destruct (shl32_byte b Hb) as (S0 & S1 & S2 & S3).
  unfold setAtPos.
  destruct i as [|[|[|[|i]]]]; [ close_shift 0%nat | close_shift 1%nat | close_shift 2%nat | close_shift 3%nat | lia].
  - close_word (not32 (shl32 255 0)). rewrite S0, land_pack, lor_pack by bytes. finish_lanes.
  - close_word (not32 (shl32 255 8)). rewrite S1, land_pack, lor_pack by bytes. finish_lanes.
  - close_word (not32 (shl32 255 16)). rewrite S2, land_pack, lor_pack by bytes. finish_lanes.
  - close_word (not32 (shl32 255 24)). rewrite S3, land_pack, lor_pack by bytes. finish_lanes.
Qed.

(* lanes i.. move up by one, lane i becomes 0, the old lane 3 falls off *)
Lemma shiftLeftClear_spec : forall keys i, keys < M32 -> (i < 4)%nat ->
  shiftLeftClear keys (N.of_nat i) < M32 /\
  lanes (shiftLeftClear keys (N.of_nat i)) =
    firstn 4 (firstn i (lanes keys) ++ 0 :: skipn i (lanes keys)).
Proof.
  intros keys i Hk Hi.
  destruct (unpack keys Hk) as (k0 & k1 & k2 & k3 & H0 & H1 & H2 & H3 & ->).
  rewrite (lanes_pack k0 k1 k2 k3) by assumption.
  unfold shiftLeftClear.
  destruct i as [|[|[|[|i]]]]; [ close_shift 0%nat | close_shift 1%nat | close_shift 2%nat | close_shift 3%nat | lia].
  - close_word (not32 (shl32 4294967295 0)). close_word (shl32 4294967295 0).
    rewrite !land_pack by bytes. rewrite shl32_pack_8 by bytes. rewrite lor_pack by bytes. finish_lanes.
  - close_word (not32 (shl32 4294967295 8)). close_word (shl32 4294967295 8).
    rewrite !land_pack by bytes. rewrite shl32_pack_8 by bytes. rewrite lor_pack by bytes. finish_lanes.
  - close_word (not32 (shl32 4294967295 16)). close_word (shl32 4294967295 16).
    rewrite !land_pack by bytes. rewrite shl32_pack_8 by bytes. rewrite lor_pack by bytes. finish_lanes.
  - close_word (not32 (shl32 4294967295 24)). close_word (shl32 4294967295 24).
    rewrite !land_pack by bytes. rewrite shl32_pack_8 by bytes. rewrite lor_pack by bytes. finish_lanes.
Qed.

(* called with pos = i+1: lanes i+1.. move down by one; lane 3 is NOT cleared *)
Lemma shiftRightClear_spec : forall keys i, keys < M32 -> (i < 4)%nat ->
  shiftRightClear keys (N.of_nat (S i)) < M32 /\
  lanes (shiftRightClear keys (N.of_nat (S i))) = shift_left_onto i (lanes keys).
Proof.
  intros keys i Hk Hi.
  destruct (unpack keys Hk) as (k0 & k1 & k2 & k3 & H0 & H1 & H2 & H3 & ->).
  rewrite (lanes_pack k0 k1 k2 k3) by assumption.
  unfold shiftRightClear.
  destruct i as [|[|[|[|i]]]]; [ close_shift 1%nat | close_shift 2%nat | close_shift 3%nat | close_shift 4%nat | lia].
  - close_word (not32 (shr32 (shl32 4294967295 8) 8)). close_word (shl32 4294967295 8).
    rewrite !land_pack by bytes.
    rewrite shr32_pack_8 by bytes.
    rewrite lor_pack by bytes. finish_lanes.
  - close_word (not32 (shr32 (shl32 4294967295 16) 8)). close_word (shl32 4294967295 16).
    rewrite !land_pack by bytes.
    rewrite shr32_pack_8 by bytes.
    rewrite lor_pack by bytes. finish_lanes.
  - close_word (not32 (shr32 (shl32 4294967295 24) 8)). close_word (shl32 4294967295 24).
    rewrite !land_pack by bytes.
    rewrite shr32_pack_8 by bytes.
    rewrite lor_pack by bytes. finish_lanes.
  - close_word (not32 (shr32 (shl32 4294967295 32) 8)). close_word (shl32 4294967295 32).
    rewrite !land_pack by bytes.
    rewrite shr32_pack_8 by bytes.
    rewrite lor_pack by bytes. finish_lanes.
Qed.

Lemma construct_spec : forall a b c d, a < 256 -> b < 256 -> c < 256 -> d < 256 ->
  construct a b c d < M32 /\ lanes (construct a b c d) = [a; b; c; d].
Proof.
  intros a b c d Ha Hb Hc Hd. unfold construct.
  rewrite (proj2 (proj2 (proj2 (shl32_byte d Hd)))).
  rewrite (proj1 (proj2 (proj2 (shl32_byte c Hc)))).
  rewrite (proj1 (proj2 (shl32_byte b Hb))).
  rewrite !lor_pack by bytes. simp_lanes.
  replace (N.lor (pack 0 b c d) a) with (pack a b c d).
  - split; [apply pack_lt; bytes | rewrite lanes_pack by bytes; reflexivity].
  - transitivity (N.lor (pack 0 b c d) (pack a 0 0 0)); [|f_equal; unfold pack; lia].
    rewrite lor_pack by bytes. simp_lanes. reflexivity.
Qed.

Lemma deconstruct_spec : forall keys, keys < M32 -> deconstruct keys = lanes keys.
Proof.
  intros keys Hk.
  destruct (unpack keys Hk) as (k0 & k1 & k2 & k3 & H0 & H1 & H2 & H3 & ->).
  rewrite (lanes_pack k0 k1 k2 k3) by assumption.
  destruct (shr32_pack k0 k1 k2 k3 H0 H1 H2 H3) as (S0 & S1 & S2 & S3).
  unfold deconstruct. rewrite S1, S2, S3.
  change 255 with (pack 255 0 0 0). rewrite !land_pack by bytes.
  rewrite !pack_mod256 by bytes. change (pack 255 0 0 0) with 255.
  rewrite !land_255 by bytes. reflexivity.
Qed.

(* ---- node16: bitfield, mask, trailing zeros = scalar scan of the first len lanes,
   whatever the remaining lanes hold ---- *)
Theorem searchNode16_spec : forall keys len b, length keys = 16%nat -> len <= 16 ->
  searchNode16 keys len b = find_first (fun x => x =? b) (firstn (N.to_nat len) keys) 0.
Proof.
  intros keys len b Hl Hle. unfold searchNode16.
  apply (bitfield_scan (fun k => k =? b)); [rewrite Hl; reflexivity | exact Hle].
Qed.

Theorem insertPosNode16_spec : forall keys len b, length keys = 16%nat -> len <= 16 ->
  insertPosNode16 keys len b = find_first (fun x => b <? x) (firstn (N.to_nat len) keys) 0.
Proof.
  intros keys len b Hl Hle. unfold insertPosNode16.
  apply (bitfield_scan (fun k => b <? k)); [rewrite Hl; reflexivity | exact Hle].
Qed.
