(* Helper lemmas for Proofs/NodeFacts.v, part 5: the node48 and node256 layouts:
   their enumerations as association lists, first-free-slot allocation, and the
   index/slot tables built by the grow 16 -> 48 and shrink 256 -> 48 steps. *)
From GoArt Require Import Base.Bytes Model.Node4 Model.Node16 Model.Node Spec.NodeSpec
  Proofs.NodeAuxAssoc Proofs.NodeAuxList Proofs.NodeAuxArr.
From Coq Require Import ZifyN ZifyNat ZifyBool.
Ltac Zify.zify_post_hook ::= Z.div_mod_to_equations.
Open Scope N_scope.
Local Opaque maxNode4 maxNode16 maxNode48 shrink16 shrink48 shrink256 maxPrefixLen.

Lemma ssorted_nodup : forall (l : list N), StronglySorted N.lt l -> NoDup l.
Proof.
  induction l as [|x l IH]; intros HS; [constructor|].
  apply StronglySorted_inv in HS. destruct HS as [HS Hx]. constructor; [|auto].
  intros Hin. rewrite Forall_forall in Hx. apply Hx in Hin. lia.
Qed.

Section Enum.
Context {C : Type}.
Implicit Types (b k : N) (c : C) (idx : list N) (slots : list (option C)).

(* what a node48 holds under index value i *)
Definition entry (i : N) slots : option C :=
  if i =? 0 then None
  else match nth_error slots (N.to_nat (i - 1)) with Some (Some c) => Some c | _ => None end.

Lemma assoc_enum_idx : forall idx slots k b,
  assoc b (enum_idx idx slots k) =
  if k <=? b then entry (nth (N.to_nat (b - k)) idx 0) slots else None.
Proof.
  induction idx as [|i idx IH]; intros slots k b.
  - cbn [enum_idx assoc]. destruct (N.to_nat (b - k)); destruct (k <=? b); reflexivity.
  - cbn [enum_idx].
    assert (Hrest : assoc b (enum_idx idx slots (k + 1)) =
                    if k <=? b then (if k =? b then None else entry (nth (N.to_nat (b - k)) (i :: idx) 0) slots) else None).
    { rewrite IH. destruct (k + 1 <=? b) eqn:E1; destruct (k <=? b) eqn:E2; try lia; try reflexivity.
      - destruct (k =? b) eqn:E3; [lia|].
        replace (N.to_nat (b - k)) with (S (N.to_nat (b - (k + 1)))) by lia. reflexivity.
      - destruct (k =? b) eqn:E3; [reflexivity|lia]. }
    assert (Hhd : k <=? b = true -> k =? b = true -> nth (N.to_nat (b - k)) (i :: idx) 0 = i).
    { intros H1 H2. replace (N.to_nat (b - k)) with 0%nat by lia. reflexivity. }
    unfold entry at 1 in Hrest. unfold entry.
    destruct (i =? 0) eqn:Ei.
    + cbn [app]. rewrite Hrest. destruct (k <=? b) eqn:E2; [|reflexivity].
      destruct (k =? b) eqn:E3; [|reflexivity]. rewrite (Hhd eq_refl eq_refl), Ei. reflexivity.
    + destruct (nth_error slots (N.to_nat (i - 1))) as [[c|]|] eqn:Es; cbn [app assoc].
      * destruct (k =? b) eqn:E3.
        -- destruct (k <=? b) eqn:E2; [|lia]. rewrite (Hhd eq_refl eq_refl), Ei, Es. reflexivity.
        -- rewrite Hrest. reflexivity.
      * rewrite Hrest. destruct (k <=? b) eqn:E2; [|reflexivity].
        destruct (k =? b) eqn:E3; [|reflexivity]. rewrite (Hhd eq_refl eq_refl), Ei, Es. reflexivity.
      * rewrite Hrest. destruct (k <=? b) eqn:E2; [|reflexivity].
        destruct (k =? b) eqn:E3; [|reflexivity]. rewrite (Hhd eq_refl eq_refl), Ei, Es. reflexivity.
Qed.

Lemma enum_idx_range : forall idx slots k,
  StronglySorted N.lt (map fst (enum_idx idx slots k)) /\
  Forall (fun x => k <= x < k + N.of_nat (length idx)) (map fst (enum_idx idx slots k)).
Proof.
  induction idx as [|i idx IH]; intros slots k; cbn [enum_idx].
  - split; constructor.
  - destruct (IH slots (k + 1)) as [HS HF].
    assert (HF' : Forall (fun x => k <= x < k + N.of_nat (length (i :: idx))) (map fst (enum_idx idx slots (k + 1)))).
    { eapply Forall_impl; [|exact HF]. cbn [length]. intros x Hx. cbn beta in *. lia. }
    assert (Hcons : forall c, StronglySorted N.lt (map fst ([(k, c)] ++ enum_idx idx slots (k + 1))) /\
              Forall (fun x => k <= x < k + N.of_nat (length (i :: idx))) (map fst ([(k, c)] ++ enum_idx idx slots (k + 1)))).
    { intros c. cbn [app map fst]. split.
      - constructor; [exact HS|]. eapply Forall_impl; [|exact HF]. intros x Hx. cbn beta in *. lia.
      - constructor; [cbn [length]; lia|exact HF']. }
    destruct (i =? 0); [cbn [app]; split; assumption|].
    destruct (nth_error slots (N.to_nat (i - 1))) as [[c|]|]; [apply Hcons|cbn [app]; split; assumption..].
Qed.

Lemma enum_idx_ks : forall idx slots, (length idx <= 256)%nat -> keys_sorted (enum_idx idx slots 0).
Proof.
  intros idx slots H. destruct (enum_idx_range idx slots 0) as [HS HF]. split; [exact HS|].
  eapply Forall_impl; [|exact HF]. intros x Hx. cbn beta in *. lia.
Qed.

Lemma assoc_enum_slots : forall slots k b,
  assoc b (enum_slots slots k) =
  if k <=? b then match nth_error slots (N.to_nat (b - k)) with Some (Some c) => Some c | _ => None end
  else None.
Proof.
  induction slots as [|s slots IH]; intros k b.
  - cbn [enum_slots assoc]. destruct (N.to_nat (b - k)); destruct (k <=? b); reflexivity.
  - cbn [enum_slots].
    assert (Hrest : assoc b (enum_slots slots (k + 1)) =
                    if k <=? b then (if k =? b then None else
                       match nth_error (s :: slots) (N.to_nat (b - k)) with Some (Some c) => Some c | _ => None end)
                    else None).
    { rewrite IH. destruct (k + 1 <=? b) eqn:E1; destruct (k <=? b) eqn:E2; try lia; try reflexivity.
      - destruct (k =? b) eqn:E3; [lia|].
        replace (N.to_nat (b - k)) with (S (N.to_nat (b - (k + 1)))) by lia. reflexivity.
      - destruct (k =? b) eqn:E3; [reflexivity|lia]. }
    assert (Hhd : k <=? b = true -> k =? b = true -> nth_error (s :: slots) (N.to_nat (b - k)) = Some s).
    { intros H1 H2. replace (N.to_nat (b - k)) with 0%nat by lia. reflexivity. }
    destruct s as [c|]; cbn [app assoc].
    + destruct (k =? b) eqn:E3.
      * destruct (k <=? b) eqn:E2; [|lia]. rewrite (Hhd eq_refl eq_refl). reflexivity.
      * rewrite Hrest. reflexivity.
    + rewrite Hrest. destruct (k <=? b) eqn:E2; [|reflexivity].
      destruct (k =? b) eqn:E3; [|reflexivity]. rewrite (Hhd eq_refl eq_refl). reflexivity.
Qed.

Lemma enum_slots_range : forall slots k,
  StronglySorted N.lt (map fst (enum_slots slots k)) /\
  Forall (fun x => k <= x < k + N.of_nat (length slots)) (map fst (enum_slots slots k)) /\
  (length (enum_slots slots k) <= length slots)%nat.
Proof.
  induction slots as [|s slots IH]; intros k; cbn [enum_slots].
  - split; [constructor|]. split; [constructor|]. cbn. lia.
  - destruct (IH (k + 1)) as (HS & HF & HL).
    assert (HF' : Forall (fun x => k <= x < k + N.of_nat (length (s :: slots))) (map fst (enum_slots slots (k + 1)))).
    { eapply Forall_impl; [|exact HF]. cbn [length]. intros x Hx. cbn beta in *. lia. }
    destruct s as [c|]; cbn [app map fst length].
    + split; [|split; [|lia]].
      * constructor; [exact HS|]. eapply Forall_impl; [|exact HF]. intros x Hx. cbn beta in *. lia.
      * constructor; [lia|exact HF'].
    + split; [exact HS|]. split; [exact HF'|lia].
Qed.

Lemma enum_slots_ks : forall slots, (length slots <= 256)%nat -> keys_sorted (enum_slots slots 0).
Proof.
  intros slots H. destruct (enum_slots_range slots 0) as (HS & HF & _). split; [exact HS|].
  eapply Forall_impl; [|exact HF]. intros x Hx. cbn beta in *. lia.
Qed.

(* the node256 slot table a node48 grows into enumerates the same children *)
Lemma enum_slots_of_idx : forall idx slots k,
  enum_slots (map (fun i => if i =? 0 then None
                            else match nth_error slots (N.to_nat (i - 1)) with Some s => s | None => None end) idx) k
  = enum_idx idx slots k.
Proof.
  induction idx as [|i idx IH]; intros slots k; cbn [map enum_slots enum_idx]; [reflexivity|].
  rewrite IH. destruct (i =? 0); [reflexivity|].
  destruct (nth_error slots (N.to_nat (i - 1))) as [[c|]|]; reflexivity.
Qed.

End Enum.

Section N48.
Context {C : Type}.
Implicit Types (b k : N) (c : C) (idx : list N) (slots : list (option C)) (h : hdr).

(* the index/slot part of nwf for a node48 *)
Definition wf48 idx slots : Prop :=
  length idx = 256%nat /\ length slots = 48%nat /\
  (forall x : nat, (x < 256)%nat ->
     nth x idx 0 = 0 \/ (1 <= nth x idx 0 /\ nth x idx 0 <= 48 /\
        exists c, nth_error slots (N.to_nat (nth x idx 0 - 1)) = Some (Some c))) /\
  (forall x1 x2 : nat, (x1 < 256)%nat -> (x2 < 256)%nat ->
     nth x1 idx 0 <> 0 -> nth x1 idx 0 = nth x2 idx 0 -> x1 = x2) /\
  (forall i c, nth_error slots i = Some (Some c) ->
     exists x : nat, (x < 256)%nat /\ nth x idx 0 = N.of_nat i + 1).

Lemma nwf48_iff : forall h len idx slots,
  nwf (N48 h len idx slots) <->
  length (prefix h) = maxPrefixLen /\ wf48 idx slots /\
  len = N.of_nat (length (enum_idx idx slots 0)) /\ shrink48 < len /\ len <= maxNode48.
Proof. intros. unfold nwf, wf48. cbn [nhdr]. cbv zeta. tauto. Qed.

Lemma look48 : forall idx slots b,
  assoc b (enum_idx idx slots 0) = entry (nth (N.to_nat b) idx 0) slots.
Proof.
  intros. rewrite assoc_enum_idx. destruct (0 <=? b) eqn:E; [|lia]. rewrite N.sub_0_r. reflexivity.
Qed.

Lemma look256 : forall slots b,
  assoc b (enum_slots slots 0) =
  match nth_error slots (N.to_nat b) with Some (Some c) => Some c | _ => None end.
Proof.
  intros. rewrite assoc_enum_slots. destruct (0 <=? b) eqn:E; [|lia]. rewrite N.sub_0_r. reflexivity.
Qed.

Lemma n48_find_entry : forall h len idx slots b,
  nfind (N48 h len idx slots) b = entry (nth (N.to_nat b) idx 0) slots.
Proof.
  intros. cbn [nfind]. unfold entry. destruct (_ =? 0); [reflexivity|].
  destruct (nth_error slots _) as [[x|]|]; reflexivity.
Qed.

Lemma entry_some : forall i slots, entry i slots <> None ->
  i <> 0 /\ exists c, nth_error slots (N.to_nat (i - 1)) = Some (Some c).
Proof.
  intros i slots H. unfold entry in H. destruct (i =? 0) eqn:E; [congruence|]. split; [lia|].
  destruct (nth_error slots _) as [[x|]|]; try congruence. exists x. reflexivity.
Qed.

Lemma entry_at : forall i slots c, i <> 0 -> nth_error slots (N.to_nat (i - 1)) = Some (Some c) ->
  entry i slots = Some c.
Proof. intros i slots c H1 H2. unfold entry. destruct (i =? 0) eqn:E; [lia|]. rewrite H2. reflexivity. Qed.

Lemma entry_set_other : forall i p v slots, (i = 0 \/ N.to_nat (i - 1) <> p) ->
  entry i (set_at p v slots) = entry i slots.
Proof.
  intros i p v slots H. unfold entry. destruct (i =? 0) eqn:E; [reflexivity|].
  rewrite nth_error_set_at_ne by lia. reflexivity.
Qed.

(* ---- first free slot ---- *)
Lemma first_free_spec : forall slots a,
  exists p, first_free slots a = (a + p)%nat /\ (p <= length slots)%nat /\
    (forall j, (j < p)%nat -> exists c, nth_error slots j = Some (Some c)) /\
    ((p < length slots)%nat -> nth_error slots p = Some None).
Proof.
  induction slots as [|[c|] slots IH]; intros a.
  - exists 0%nat. cbn [first_free length]. split; [lia|]. split; [lia|]. split; intros; lia.
  - destruct (IH (S a)) as (p & E & Hp & Hs & Hn). exists (S p). cbn [first_free length].
    split; [lia|]. split; [lia|]. split.
    + intros j Hj. destruct j; [exists c; reflexivity|]. cbn [nth_error]. apply Hs. lia.
    + intros H. cbn [nth_error]. apply Hn. lia.
  - exists 0%nat. cbn [first_free length]. split; [lia|]. split; [lia|]. split; [intros; lia|].
    intros _. reflexivity.
Qed.

(* if every slot is taken there are at least 48 children *)
Lemma count48 : forall idx slots m,
  (forall i c, nth_error slots i = Some (Some c) ->
     exists x : nat, (x < 256)%nat /\ nth x idx 0 = N.of_nat i + 1) ->
  (forall j, (j < m)%nat -> exists c, nth_error slots j = Some (Some c)) ->
  (m <= length (enum_idx idx slots 0))%nat.
Proof.
  intros idx slots m H5 Hall.
  assert (HX : forall n, (n <= m)%nat -> exists l : list N, length l = n /\ NoDup l /\
            forall x, In x l -> In x (map fst (enum_idx idx slots 0)) /\
                                 exists i, (i < n)%nat /\ nth (N.to_nat x) idx 0 = N.of_nat i + 1).
  { induction n as [|n IH]; intros Hn.
    - exists []. split; [reflexivity|]. split; [constructor|]. intros x [].
    - destruct (IH ltac:(lia)) as (l & HL & HND & Hl).
      destruct (Hall n ltac:(lia)) as (c & Hc). destruct (H5 n c Hc) as (b & Hb & Hbi).
      exists (N.of_nat b :: l). split; [cbn [length]; lia|]. split.
      + constructor; [|exact HND]. intros Hin. destruct (Hl _ Hin) as (_ & i & Hi & Ei).
        rewrite Nat2N.id in Ei. lia.
      + intros x [<-|Hin].
        * split.
          -- assert (A : assoc (N.of_nat b) (enum_idx idx slots 0) = Some c).
             { rewrite look48, Nat2N.id, Hbi. apply entry_at; [lia|].
               replace (N.to_nat (N.of_nat n + 1 - 1)) with n by lia. exact Hc. }
             apply al_assoc_in in A. change (N.of_nat b) with (fst (N.of_nat b, c)). apply in_map. exact A.
          -- exists n. split; [lia|]. rewrite Nat2N.id. exact Hbi.
        * destruct (Hl x Hin) as (H1 & i & Hi & Ei). split; [exact H1|]. exists i. split; [lia|exact Ei]. }
  destruct (HX m (le_n m)) as (l & HL & HND & Hl).
  rewrite <- HL. rewrite <- (map_length fst (enum_idx idx slots 0)).
  apply NoDup_incl_length; [exact HND|]. intros x Hx. apply Hl. exact Hx.
Qed.

(* ---- add without growth ---- *)
Lemma add48_core : forall h len idx slots b c,
  length (prefix h) = maxPrefixLen -> wf48 idx slots ->
  len = N.of_nat (length (enum_idx idx slots 0)) -> shrink48 <= len -> len < maxNode48 ->
  b < 256 -> assoc b (enum_idx idx slots 0) = None ->
  nwf (add48 h len idx slots b c) /\
  nenum (add48 h len idx slots b c) = ins_sorted b c (enum_idx idx slots 0) /\
  nhdr (add48 h len idx slots b c) = h.
Proof.
  intros h len idx slots b c Hp Hwf Hl Hlo Hlt Hb Ha. params.
  pose proof Hwf as (Hi & Hsl & H3 & H4 & H5).
  unfold add48. destruct (len <? maxNode48) eqn:E; [|lia]. clear E.
  destruct (first_free_spec slots 0) as (p & Ep & Hp1 & Hp2 & Hp3). rewrite Ep, Nat.add_0_l.
  assert (Hp48 : (p < 48)%nat).
  { destruct (Nat.lt_ge_cases p 48) as [|Hge]; [assumption|exfalso].
    assert (48 <= length (enum_idx idx slots 0))%nat.
    { apply count48; [exact H5|]. intros j Hj. apply Hp2. lia. }
    lia. }
  assert (Hpn : nth_error slots p = Some None) by (apply Hp3; lia).
  pose proof Ha as Ha'. rewrite look48 in Ha'.
  set (tb := N.to_nat b) in *.
  assert (Htb : (tb < 256)%nat) by (unfold tb; lia).
  assert (Hib : nth tb idx 0 = 0).
  { destruct (H3 tb Htb) as [H0|(H1 & H2 & c0 & Hc0)]; [exact H0|exfalso].
    rewrite (entry_at _ _ c0) in Ha'; [discriminate|lia|exact Hc0]. }
  replace (u8 (N.of_nat p + 1)) with (N.of_nat p + 1) by (unfold u8; lia).
  set (idx' := set_at tb (N.of_nat p + 1) idx).
  set (slots' := set_at p (Some c) slots).
  assert (Hpp : N.to_nat (N.of_nat p + 1 - 1) = p) by lia.
  assert (Hwf' : wf48 idx' slots').
  { unfold wf48, idx', slots'. rewrite !length_set_at. split; [exact Hi|]. split; [exact Hsl|]. split; [|split].
    - intros b0 Hb0. destruct (Nat.eq_dec b0 tb) as [-> |Hne].
      + rewrite nth_set_at_eq by lia. right. split; [lia|]. split; [lia|]. exists c.
        rewrite Hpp. apply nth_error_set_at_eq. lia.
      + rewrite nth_set_at_ne by lia. destruct (H3 b0 Hb0) as [H0|(H1 & H2 & c0 & Hc0)]; [left; exact H0|].
        right. split; [exact H1|]. split; [exact H2|]. exists c0.
        rewrite nth_error_set_at_ne; [exact Hc0|]. intros ->. congruence.
    - intros b1 b2 Hb1 Hb2 Hnz Heq.
      destruct (Nat.eq_dec b1 tb) as [-> |Hne1]; destruct (Nat.eq_dec b2 tb) as [-> |Hne2]; try reflexivity.
      + exfalso. rewrite nth_set_at_eq in Heq by lia. rewrite nth_set_at_ne in Heq by lia.
        destruct (H3 b2 Hb2) as [H0|(H1 & H2 & c0 & Hc0)]; [lia|].
        rewrite <- Heq, Hpp in Hc0. congruence.
      + exfalso. rewrite nth_set_at_eq in Heq by lia. rewrite nth_set_at_ne in Heq by lia.
        destruct (H3 b1 Hb1) as [H0|(H1 & H2 & c0 & Hc0)]; [lia|].
        rewrite Heq, Hpp in Hc0. congruence.
      + rewrite !nth_set_at_ne in * by lia. apply H4; assumption.
    - intros i c' Hs. destruct (Nat.eq_dec i p) as [-> |Hne].
      + exists tb. split; [exact Htb|]. apply nth_set_at_eq. lia.
      + rewrite nth_error_set_at_ne in Hs by lia. destruct (H5 i c' Hs) as (b0 & Hb0 & E0).
        exists b0. split; [exact Hb0|]. rewrite nth_set_at_ne; [exact E0|]. intros ->. lia. }
  assert (Een : enum_idx idx' slots' 0 = ins_sorted b c (enum_idx idx slots 0)).
  { apply al_sorted_ext.
    - apply enum_idx_ks. unfold idx'. rewrite length_set_at. lia.
    - apply al_ins_sorted; [apply enum_idx_ks; lia|exact Hb|exact Ha].
    - intros b'. rewrite look48. destruct (N.eq_dec b' b) as [-> |Hne].
      + rewrite al_ins_same by exact Ha. fold tb. unfold idx'. rewrite nth_set_at_eq by lia.
        apply entry_at; [lia|]. rewrite Hpp. apply nth_error_set_at_eq. lia.
      + rewrite al_ins_other by exact Hne. rewrite look48. unfold idx'.
        rewrite nth_set_at_ne by (unfold tb; lia). apply entry_set_other.
        destruct (Nat.lt_ge_cases (N.to_nat b') 256) as [Hlt'|Hge].
        * destruct (H3 _ Hlt') as [H0|(H1 & H2 & c0 & Hc0)]; [left; exact H0|].
          right. intros Hq. rewrite Hq in Hc0. congruence.
        * left. apply nth_overflow. lia. }
  split; [|split; [exact Een|reflexivity]].
  apply nwf48_iff. split; [exact Hp|]. split; [exact Hwf'|].
  fold idx' slots'. rewrite Een, al_length_ins. unfold u8. lia.
Qed.

(* ---- delete, replace ---- *)
Lemma del48_core : forall idx slots b, wf48 idx slots -> b < 256 ->
  assoc b (enum_idx idx slots 0) <> None ->
  wf48 (set_at (N.to_nat b) 0 idx) (set_at (N.to_nat (nth (N.to_nat b) idx 0 - 1)) None slots) /\
  enum_idx (set_at (N.to_nat b) 0 idx) (set_at (N.to_nat (nth (N.to_nat b) idx 0 - 1)) None slots) 0 =
    rem_key b (enum_idx idx slots 0).
Proof.
  intros idx slots b Hwf Hb Ha.
  pose proof Hwf as (Hi & Hsl & H3 & H4 & H5).
  pose proof Ha as Ha'. rewrite look48 in Ha'.
  set (tb := N.to_nat b) in *.
  assert (Htb : (tb < 256)%nat) by (unfold tb; lia).
  set (pos := nth tb idx 0) in *.
  destruct (entry_some _ _ Ha') as (Hpos & c0 & Hc0).
  set (q := N.to_nat (pos - 1)) in *.
  assert (Hq : (q < length slots)%nat) by (apply nth_error_Some; congruence).
  set (idx' := set_at tb 0 idx). set (slots' := set_at q None slots).
  assert (Hoth : forall x0 : nat, (x0 < 256)%nat -> x0 <> tb -> nth x0 idx 0 <> 0 -> N.to_nat (nth x0 idx 0 - 1) <> q).
  { intros b0 Hb0 Hne Hnz Hq'. apply Hne. apply H4; try assumption. unfold q in Hq'. fold pos. lia. }
  assert (Hwf' : wf48 idx' slots').
  { unfold wf48, idx', slots'. rewrite !length_set_at. split; [exact Hi|]. split; [exact Hsl|]. split; [|split].
    - intros b0 Hb0. destruct (Nat.eq_dec b0 tb) as [-> |Hne].
      + left. apply nth_set_at_eq. lia.
      + rewrite nth_set_at_ne by lia. destruct (H3 b0 Hb0) as [H0|(H1 & H2 & c1 & Hc1)]; [left; exact H0|].
        right. split; [exact H1|]. split; [exact H2|]. exists c1.
        rewrite nth_error_set_at_ne; [exact Hc1|]. intros Hq'. symmetry in Hq'. revert Hq'. apply Hoth; [exact Hb0|exact Hne|lia].
    - intros b1 b2 Hb1 Hb2 Hnz Heq.
      destruct (Nat.eq_dec b1 tb) as [-> |Hne1]; [rewrite nth_set_at_eq in Hnz by lia; congruence|].
      rewrite nth_set_at_ne in Hnz, Heq by lia.
      destruct (Nat.eq_dec b2 tb) as [-> |Hne2]; [rewrite nth_set_at_eq in Heq by lia; congruence|].
      rewrite nth_set_at_ne in Heq by lia. apply H4; assumption.
    - intros i c' Hs. destruct (Nat.eq_dec i q) as [-> |Hne].
      + rewrite nth_error_set_at_eq in Hs by exact Hq. discriminate.
      + rewrite nth_error_set_at_ne in Hs by lia. destruct (H5 i c' Hs) as (b0 & Hb0 & E0).
        exists b0. split; [exact Hb0|]. rewrite nth_set_at_ne; [exact E0|]. intros ->.
        apply Hne. unfold q. fold pos in E0. lia. }
  split; [exact Hwf'|].
  apply al_sorted_ext.
  - apply enum_idx_ks. unfold idx'. rewrite length_set_at. lia.
  - apply al_rem_sorted. apply enum_idx_ks. lia.
  - intros b'. rewrite look48. destruct (N.eq_dec b' b) as [-> |Hne].
    + rewrite al_rem_same by (apply enum_idx_ks; lia). fold tb. unfold idx'.
      rewrite nth_set_at_eq by lia. reflexivity.
    + rewrite al_rem_other by exact Hne. rewrite look48. unfold idx'.
      rewrite nth_set_at_ne by (unfold tb; lia). apply entry_set_other.
      destruct (Nat.lt_ge_cases (N.to_nat b') 256) as [Hlt'|Hge].
      * destruct (N.eq_dec (nth (N.to_nat b') idx 0) 0) as [H0|Hnz]; [left; exact H0|].
        right. apply Hoth; [exact Hlt'|unfold tb; lia|exact Hnz].
      * left. apply nth_overflow. lia.
Qed.

Lemma repl48_core : forall idx slots b c, wf48 idx slots -> b < 256 ->
  assoc b (enum_idx idx slots 0) <> None ->
  nth (N.to_nat b) idx 0 <> 0 /\
  wf48 idx (set_at (N.to_nat (nth (N.to_nat b) idx 0 - 1)) (Some c) slots) /\
  enum_idx idx (set_at (N.to_nat (nth (N.to_nat b) idx 0 - 1)) (Some c) slots) 0 =
    repl_key b c (enum_idx idx slots 0).
Proof.
  intros idx slots b c Hwf Hb Ha.
  pose proof Hwf as (Hi & Hsl & H3 & H4 & H5).
  pose proof Ha as Ha'. rewrite look48 in Ha'.
  set (tb := N.to_nat b) in *.
  assert (Htb : (tb < 256)%nat) by (unfold tb; lia).
  set (pos := nth tb idx 0) in *.
  destruct (entry_some _ _ Ha') as (Hpos & c0 & Hc0).
  set (q := N.to_nat (pos - 1)) in *.
  assert (Hq : (q < length slots)%nat) by (apply nth_error_Some; congruence).
  set (slots' := set_at q (Some c) slots).
  assert (Hoth : forall x0 : nat, (x0 < 256)%nat -> x0 <> tb -> nth x0 idx 0 <> 0 -> N.to_nat (nth x0 idx 0 - 1) <> q).
  { intros b0 Hb0 Hne Hnz Hq'. apply Hne. apply H4; try assumption. unfold q in Hq'. fold pos. lia. }
  split; [exact Hpos|].
  assert (Hwf' : wf48 idx slots').
  { unfold wf48, slots'. rewrite !length_set_at. split; [exact Hi|]. split; [exact Hsl|]. split; [|split].
    - intros b0 Hb0. destruct (H3 b0 Hb0) as [H0|(H1 & H2 & c1 & Hc1)]; [left; exact H0|].
      right. split; [exact H1|]. split; [exact H2|].
      destruct (Nat.eq_dec (N.to_nat (nth b0 idx 0 - 1)) q) as [-> |Hne].
      + exists c. apply nth_error_set_at_eq. exact Hq.
      + exists c1. rewrite nth_error_set_at_ne by lia. exact Hc1.
    - exact H4.
    - intros i c' Hs. destruct (Nat.eq_dec i q) as [-> |Hne].
      + exists tb. split; [exact Htb|]. fold pos. unfold q. lia.
      + rewrite nth_error_set_at_ne in Hs by lia. exact (H5 i c' Hs). }
  split; [exact Hwf'|].
  assert (HKS : keys_sorted (enum_idx idx slots 0)) by (apply enum_idx_ks; lia).
  apply al_sorted_ext.
  - apply enum_idx_ks. lia.
  - unfold keys_sorted in *. rewrite al_repl_fst. exact HKS.
  - intros b'. rewrite look48. destruct (N.eq_dec b' b) as [-> |Hne].
    + rewrite al_repl_same by exact Ha. fold tb. fold pos. apply entry_at; [exact Hpos|].
      fold q. apply nth_error_set_at_eq. exact Hq.
    + rewrite al_repl_other by exact Hne. rewrite look48. apply entry_set_other.
      destruct (Nat.lt_ge_cases (N.to_nat b') 256) as [Hlt'|Hge].
      * destruct (N.eq_dec (nth (N.to_nat b') idx 0) 0) as [H0|Hnz]; [left; exact H0|].
        right. apply Hoth; [exact Hlt'|unfold tb; lia|exact Hnz].
      * left. apply nth_overflow. lia.
Qed.

End N48.
