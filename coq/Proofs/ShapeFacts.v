(* C11: the shape of a well-formed tree (compressed-path lengths, branch bytes,
   stored keys; size classes, inline bytes, raw key storage and values erased)
   is a function of the set of stored transformed keys. *)
From GoArt Require Import Base.Bytes Model.Node4 Model.Node16 Model.Node Model.Tree
  Spec.NodeSpec Spec.TreeSpec Proofs.BytesFacts Proofs.NodeFacts Proofs.TreeBasics.
From Coq Require Import ZifyN ZifyNat ZifyBool.
Ltac Zify.zify_post_hook ::= Z.div_mod_to_equations.
Open Scope N_scope.

Inductive shape := SLeaf (tk : list N) | SNode (plen : nat) (kids : list (N * shape)).

(* shape of a tree, on fuel (height) like `leaves` *)
Fixpoint shape_f (fuel : nat) (t : tree) : shape :=
  match fuel with
  | O => SLeaf []
  | S f => match t with
           | Leaf _ tk _ => SLeaf tk
           | Inner n => SNode (prefixLen (nhdr n)) (map (fun bc => (fst bc, shape_f f (snd bc))) (nenum n))
           end
  end.
Definition shape_of (t : tree) : shape := shape_f (theight t) t.

(* ---- enough fuel is as good as the height ---- *)
Lemma shape_f_enough : forall f t f', (theight t <= f)%nat -> (theight t <= f')%nat ->
  shape_f f t = shape_f f' t.
Proof.
  induction f as [|f IH]; intros t f' H1 H2.
  - pose proof (theight_pos t). lia.
  - destruct f' as [|f']; [pose proof (theight_pos t); lia|].
    destruct t as [gk tk v|n]; cbn [shape_f]; [reflexivity|].
    f_equal. apply map_ext_in. intros [b c] Hc. cbn [fst snd]. f_equal.
    apply in_nenum_height in Hc. apply IH; lia.
Qed.

Lemma shape_leaf : forall gk tk v, shape_of (Leaf gk tk v) = SLeaf tk.
Proof. reflexivity. Qed.

Lemma shape_inner : forall n, shape_of (Inner n) =
  SNode (prefixLen (nhdr n)) (map (fun bc => (fst bc, shape_of (snd bc))) (nenum n)).
Proof.
  intros n. unfold shape_of at 1. destruct (theight (Inner n)) as [|f] eqn:E.
  - pose proof (theight_pos (Inner n)). lia.
  - cbn [shape_f]. f_equal. apply map_ext_in. intros [b c] H. cbn [fst snd]. f_equal. unfold shape_of.
    apply in_nenum_height in H. apply shape_f_enough; lia.
Qed.

(* ---- list lemmas ---- *)
Lemma nth_error_firstn_lt : forall {A} (l : list A) i j, (i < j)%nat ->
  nth_error (firstn j l) i = nth_error l i.
Proof.
  intros A l. induction l as [|x l IH]; intros i j H.
  - rewrite firstn_nil. reflexivity.
  - destruct j as [|j]; [lia|]. destruct i as [|i]; cbn [firstn nth_error]; [reflexivity|].
    apply IH. lia.
Qed.

(* a list splits in at most one way into a block satisfying P followed by a rest
   that nowhere satisfies P *)
Lemma block_split : forall {A} (P : A -> Prop) (K1 R1 K2 R2 : list A),
  Forall P K1 -> Forall P K2 -> Forall (fun x => ~ P x) R1 -> Forall (fun x => ~ P x) R2 ->
  K1 ++ R1 = K2 ++ R2 -> K1 = K2 /\ R1 = R2.
Proof.
  intros A P K1. induction K1 as [|x K1 IH]; intros R1 K2 R2 H1 H2 H3 H4 E.
  - destruct K2 as [|y K2]; [split; [reflexivity|exact E]|].
    cbn [app] in E. subst R1. exfalso.
    apply Forall_inv in H3. apply Forall_inv in H2. contradiction.
  - destruct K2 as [|y K2].
    + cbn [app] in E. subst R2. exfalso.
      apply Forall_inv in H4. apply Forall_inv in H1. contradiction.
    + cbn [app] in E. injection E as Exy E. subst y.
      destruct (IH R1 K2 R2) as [EK ER]; try assumption.
      * eapply Forall_inv_tail. exact H1.
      * eapply Forall_inv_tail. exact H2.
      * split; [f_equal; exact EK|exact ER].
Qed.

Lemma Forall2_map_eq : forall {A B C} (R : A -> B -> Prop) (f : A -> C) (g : B -> C) l1 l2,
  Forall2 R l1 l2 -> (forall x y, In x l1 -> In y l2 -> R x y -> f x = g y) ->
  map f l1 = map g l2.
Proof.
  intros A B C R f g l1 l2 HF. induction HF as [|x y l1 l2 Hxy HF IH]; intros H; [reflexivity|].
  cbn [map]. f_equal.
  - apply H; [left; reflexivity|left; reflexivity|exact Hxy].
  - apply IH. intros a b Ha Hb. apply H; right; assumption.
Qed.

(* ---- the children of a node are determined by the keys below it ---- *)

(* what WF says about the association list of a node whose branch byte sits at
   position m: bytes strictly increasing, each child non-empty and all its leaves
   carry the child's branch byte at m *)
Definition kids_ok (m : nat) (kids : list (N * tree)) : Prop :=
  StronglySorted N.lt (map fst kids) /\
  forall b c, In (b, c) kids ->
    leaves c <> [] /\ forall l, In l (leaves c) -> nth_error (ltk l) m = Some b.

Lemma kids_ok_tail : forall m bc kids, kids_ok m (bc :: kids) -> kids_ok m kids.
Proof.
  intros m bc kids [HS H]. split.
  - cbn [map] in HS. apply StronglySorted_inv in HS. exact (proj1 HS).
  - intros b c Hin. apply H. right. exact Hin.
Qed.

Lemma kids_ok_rest_other : forall m b c kids, kids_ok m ((b, c) :: kids) ->
  Forall (fun k => ~ nth_error k m = Some b) (map ltk (kid_leaves kids)).
Proof.
  intros m b c kids [HS H]. apply Forall_forall. intros k Hk Hb.
  apply in_map_iff in Hk. destruct Hk as (l & <- & Hl).
  unfold kid_leaves in Hl. apply in_flat_map in Hl. destruct Hl as ([b' c'] & Hin & Hl). cbn [snd] in Hl.
  destruct (H b' c' (or_intror Hin)) as [_ Hb']. specialize (Hb' l Hl).
  cbn [map fst] in HS. apply StronglySorted_inv in HS. destruct HS as [_ Hlt].
  rewrite Forall_forall in Hlt. specialize (Hlt b' (in_map fst _ _ Hin)).
  rewrite Hb in Hb'. injection Hb' as Hb'. lia.
Qed.

Lemma kid_leaves_cons : forall b c kids, kid_leaves ((b, c) :: kids) = leaves c ++ kid_leaves kids.
Proof. reflexivity. Qed.

Theorem kids_canonical : forall m kids1 kids2, kids_ok m kids1 -> kids_ok m kids2 ->
  map ltk (kid_leaves kids1) = map ltk (kid_leaves kids2) ->
  Forall2 (fun bc1 bc2 => fst bc1 = fst bc2 /\
                          map ltk (leaves (snd bc1)) = map ltk (leaves (snd bc2))) kids1 kids2.
Proof.
  intros m kids1. induction kids1 as [|[b1 c1] kids1 IH]; intros kids2 H1 H2 E.
  - destruct kids2 as [|[b2 c2] kids2]; [constructor|]. exfalso.
    destruct H2 as [_ H2]. destruct (H2 b2 c2 (or_introl eq_refl)) as [Hne _].
    rewrite kid_leaves_cons in E. destruct (leaves c2); [congruence|discriminate].
  - destruct kids2 as [|[b2 c2] kids2].
    + exfalso. destruct H1 as [_ H1]. destruct (H1 b1 c1 (or_introl eq_refl)) as [Hne _].
      rewrite kid_leaves_cons in E. destruct (leaves c1); [congruence|discriminate].
    + pose proof (kids_ok_rest_other _ _ _ _ H1) as Hr1.
      pose proof (kids_ok_rest_other _ _ _ _ H2) as Hr2.
      pose proof (kids_ok_tail _ _ _ H1) as Ht1. pose proof (kids_ok_tail _ _ _ H2) as Ht2.
      destruct H1 as [_ H1]. destruct H2 as [_ H2].
      destruct (H1 b1 c1 (or_introl eq_refl)) as [Hne1 Hb1].
      destruct (H2 b2 c2 (or_introl eq_refl)) as [Hne2 Hb2].
      rewrite !kid_leaves_cons, !map_app in E.
      assert (Eb : b1 = b2).
      { destruct (leaves c1) as [|l1 r1]; [congruence|]. destruct (leaves c2) as [|l2 r2]; [congruence|].
        cbn [map app] in E. injection E as E0 _.
        pose proof (Hb1 l1 (or_introl eq_refl)) as A1. pose proof (Hb2 l2 (or_introl eq_refl)) as A2.
        rewrite E0 in A1. congruence. }
      subst b2.
      assert (F1 : Forall (fun k => nth_error k m = Some b1) (map ltk (leaves c1))).
      { apply Forall_forall. intros k Hk. apply in_map_iff in Hk. destruct Hk as (l & <- & Hl).
        apply Hb1. exact Hl. }
      assert (F2 : Forall (fun k => nth_error k m = Some b1) (map ltk (leaves c2))).
      { apply Forall_forall. intros k Hk. apply in_map_iff in Hk. destruct Hk as (l & <- & Hl).
        apply Hb2. exact Hl. }
      destruct (block_split (fun k => nth_error k m = Some b1) _ _ _ _ F1 F2 Hr1 Hr2 E) as [EK ER].
      constructor; [split; [reflexivity|exact EK]|]. apply IH; assumption.
Qed.

(* ---- what WF says about the keys below an inner node ---- *)
Lemma WF_inner_agree : forall d n, WF d (Inner n) ->
  forall l l', In l (leaves (Inner n)) -> In l' (leaves (Inner n)) ->
  firstn (d + prefixLen (nhdr n)) (ltk l) = firstn (d + prefixLen (nhdr n)) (ltk l').
Proof.
  intros d n H l l' Hl Hl'. destruct (WF_path _ _ H) as (q & _ & Hall & _).
  rewrite (Hall l Hl), (Hall l' Hl'). reflexivity.
Qed.

Lemma WF_inner_two : forall d n, WF d (Inner n) ->
  exists l l' b b', In l (leaves (Inner n)) /\ In l' (leaves (Inner n)) /\
    nth_error (ltk l) (d + prefixLen (nhdr n)) = Some b /\
    nth_error (ltk l') (d + prefixLen (nhdr n)) = Some b' /\ b <> b'.
Proof.
  intros d n H. pose proof (WF_inner_inv _ _ H) as (Hn & H2 & _ & _).
  pose proof (nenum_sorted n Hn) as [HS _].
  destruct (nenum n) as [|[b c] [|[b' c'] rest]] eqn:E; cbn [length] in H2; try lia.
  assert (Hin : In (b, c) (nenum n)) by (rewrite E; left; reflexivity).
  assert (Hin' : In (b', c') (nenum n)) by (rewrite E; right; left; reflexivity).
  destruct (WF_child _ _ _ _ H Hin) as [Hc _]. destruct (WF_child _ _ _ _ H Hin') as [Hc' _].
  apply WF_nonempty in Hc. apply WF_nonempty in Hc'.
  destruct (leaves c) as [|l r] eqn:El; [congruence|].
  destruct (leaves c') as [|l' r'] eqn:El'; [congruence|].
  assert (Hl : In l (leaves c)) by (rewrite El; left; reflexivity).
  assert (Hl' : In l' (leaves c')) by (rewrite El'; left; reflexivity).
  exists l, l', b, b'.
  split; [apply in_leaves_inner; exists b, c; split; assumption|].
  split; [apply in_leaves_inner; exists b', c'; split; assumption|].
  split; [apply (WF_leaf_long d n b c l H Hin Hl)|].
  split; [apply (WF_leaf_long d n b' c' l' H Hin' Hl')|].
  cbn [map fst] in HS. apply StronglySorted_inv in HS. destruct HS as [_ Hlt].
  apply Forall_inv in Hlt. lia.
Qed.

Lemma WF_kids_ok : forall d n, WF d (Inner n) -> kids_ok (d + prefixLen (nhdr n)) (nenum n).
Proof.
  intros d n H. pose proof (WF_inner_inv _ _ H) as (Hn & _ & _ & _). split.
  - apply nenum_sorted. exact Hn.
  - intros b c Hin. destruct (WF_child _ _ _ _ H Hin) as [Hc _]. split.
    + eapply WF_nonempty. exact Hc.
    + intros l Hl. apply (WF_leaf_long d n b c l H Hin Hl).
Qed.

(* an inner node stores at least two different keys *)
Lemma inner_not_single : forall d n k, WF d (Inner n) -> map ltk (leaves (Inner n)) <> [k].
Proof.
  intros d n k H E. destruct (WF_inner_two _ _ H) as (l & l' & b & b' & Hl & Hl' & Hb & Hb' & Hne).
  apply (in_map ltk) in Hl. apply (in_map ltk) in Hl'. rewrite E in Hl, Hl'.
  destruct Hl as [Hl|[]]. destruct Hl' as [Hl'|[]]. congruence.
Qed.

(* the compressed-path length is determined by the keys: it cannot be shorter in
   one tree than in the other *)
Lemma plen_not_lt : forall d n1 n2, WF d (Inner n1) -> WF d (Inner n2) ->
  map ltk (leaves (Inner n1)) = map ltk (leaves (Inner n2)) ->
  ~ (prefixLen (nhdr n1) < prefixLen (nhdr n2))%nat.
Proof.
  intros d n1 n2 H1 H2 E Hlt.
  destruct (WF_inner_two _ _ H1) as (l & l' & b & b' & Hl & Hl' & Hb & Hb' & Hne).
  apply (in_map ltk) in Hl. apply (in_map ltk) in Hl'. rewrite E in Hl, Hl'.
  apply in_map_iff in Hl. destruct Hl as (l2 & E2 & Hl2).
  apply in_map_iff in Hl'. destruct Hl' as (l2' & E2' & Hl2').
  pose proof (WF_inner_agree _ _ H2 l2 l2' Hl2 Hl2') as Ha. rewrite E2, E2' in Ha.
  rewrite <- (nth_error_firstn_lt (ltk l) (d + prefixLen (nhdr n1)) (d + prefixLen (nhdr n2))) in Hb by lia.
  rewrite <- (nth_error_firstn_lt (ltk l') (d + prefixLen (nhdr n1)) (d + prefixLen (nhdr n2))) in Hb' by lia.
  rewrite Ha in Hb. congruence.
Qed.

Lemma plen_canonical : forall d n1 n2, WF d (Inner n1) -> WF d (Inner n2) ->
  map ltk (leaves (Inner n1)) = map ltk (leaves (Inner n2)) ->
  prefixLen (nhdr n1) = prefixLen (nhdr n2).
Proof.
  intros d n1 n2 H1 H2 E.
  pose proof (plen_not_lt d n1 n2 H1 H2 E). pose proof (plen_not_lt d n2 n1 H2 H1 (eq_sym E)). lia.
Qed.

(* ---- MAIN THEOREM ---- *)
Lemma shape_canonical_f : forall f d t1 t2, (theight t1 <= f)%nat -> WF d t1 -> WF d t2 ->
  map ltk (leaves t1) = map ltk (leaves t2) -> shape_of t1 = shape_of t2.
Proof.
  induction f as [|f IH]; intros d t1 t2 Hf H1 H2 E.
  - pose proof (theight_pos t1). lia.
  - destruct t1 as [gk1 tk1 v1|n1]; destruct t2 as [gk2 tk2 v2|n2].
    + rewrite !leaves_leaf in E. cbn [map ltk fst snd] in E. injection E as E.
      rewrite !shape_leaf. f_equal. exact E.
    + exfalso. rewrite leaves_leaf in E. cbn [map] in E. symmetry in E.
      revert E. eapply inner_not_single. exact H2.
    + exfalso. rewrite leaves_leaf in E. cbn [map] in E.
      revert E. eapply inner_not_single. exact H1.
    + pose proof (plen_canonical d n1 n2 H1 H2 E) as Hpl.
      pose proof (WF_kids_ok _ _ H1) as K1. pose proof (WF_kids_ok _ _ H2) as K2.
      rewrite <- Hpl in K2.
      rewrite !leaves_inner in E.
      pose proof (kids_canonical _ _ _ K1 K2 E) as HF.
      rewrite !shape_inner, <- Hpl. f_equal.
      apply (Forall2_map_eq _ _ _ _ _ HF).
      intros [b1 c1] [b2 c2] Hin1 Hin2 [Eb Ec]. cbn [fst snd] in *. subst b2. f_equal.
      destruct (WF_child _ _ _ _ H1 Hin1) as [Hc1 _]. destruct (WF_child _ _ _ _ H2 Hin2) as [Hc2 _].
      rewrite <- Hpl in Hc2. pose proof (in_nenum_height _ _ _ Hin1) as Hh.
      apply (IH (d + prefixLen (nhdr n1) + 1)%nat); try assumption. lia.
Qed.

(* two well-formed trees (at the same depth) with the same stored transformed keys
   have the same shape *)
Theorem shape_canonical : forall d t1 t2, WF d t1 -> WF d t2 ->
  map ltk (leaves t1) = map ltk (leaves t2) -> shape_of t1 = shape_of t2.
Proof. intros d t1 t2. apply (shape_canonical_f (theight t1)). lia. Qed.

Corollary shape_root : forall t1 t2, WF 0 t1 -> WF 0 t2 ->
  map ltk (leaves t1) = map ltk (leaves t2) -> shape_of t1 = shape_of t2.
Proof. intros t1 t2. apply shape_canonical. Qed.

(* ================================================================== *)
(* An executable canonical form: the radix-tree shape of a strictly sorted,
   prefix-free key list, computed from the keys alone.                  *)

(* length of the longest prefix k shares with every element of ks *)
Fixpoint lcp_all (k : list N) (ks : list (list N)) : nat :=
  match ks with
  | [] => length k
  | k' :: r => Nat.min (lcp k k') (lcp_all k r)
  end.

(* maximal runs of keys with the same byte at position m *)
Fixpoint group (m : nat) (ks : list (list N)) : list (N * list (list N)) :=
  match ks with
  | [] => []
  | k :: r =>
    let b := nth m k 0 in
    match group m r with
    | (b', g) :: gs => if b =? b' then (b, k :: g) :: gs else (b, [k]) :: (b', g) :: gs
    | [] => [(b, [k])]
    end
  end.

Fixpoint canon (fuel d : nat) (ks : list (list N)) : shape :=
  match fuel with
  | O => SLeaf []
  | S f =>
    match ks with
    | [] => SLeaf []
    | [k] => SLeaf k
    | k :: r =>
      let m := lcp_all k r in
      SNode (m - d) (map (fun g => (fst g, canon f (m + 1) (snd g))) (group m ks))
    end
  end.

Lemma lcp_all_le : forall k r k', In k' r -> (lcp_all k r <= lcp k k')%nat.
Proof.
  intros k r. induction r as [|x r IH]; intros k' H; [contradiction|].
  cbn [lcp_all]. destruct H as [->|H]; [lia|]. specialize (IH k' H). lia.
Qed.

Lemma lcp_all_ge : forall k r x, (x <= length k)%nat -> (forall k', In k' r -> (x <= lcp k k')%nat) ->
  (x <= lcp_all k r)%nat.
Proof.
  intros k r. induction r as [|y r IH]; intros x Hx H; cbn [lcp_all]; [exact Hx|].
  pose proof (H y (or_introl eq_refl)).
  assert (x <= lcp_all k r)%nat by (apply IH; [exact Hx|]; intros k' Hk'; apply H; right; exact Hk').
  lia.
Qed.

Lemma lcp_nth : forall a b m, (m < lcp a b)%nat -> nth_error a m = nth_error b m.
Proof.
  intros a b m H.
  rewrite <- (nth_error_firstn_lt a m (lcp a b) H), <- (nth_error_firstn_lt b m (lcp a b) H), lcp_spec.
  reflexivity.
Qed.

(* the characterisation: every other key agrees with k on m bytes, one differs at m *)
Lemma lcp_all_char : forall m k r, (m < length k)%nat ->
  (forall x, In x r -> firstn m x = firstn m k) ->
  (exists x, In x r /\ nth_error x m <> nth_error k m) ->
  lcp_all k r = m.
Proof.
  intros m k r Hm Hall (x & Hx & Hne).
  assert (L : (m <= lcp_all k r)%nat).
  { apply lcp_all_ge; [lia|]. intros k' Hk'.
    assert (Hl : length (firstn m k) = m) by (apply firstn_length_le; lia).
    rewrite <- Hl at 1. apply lcp_greatest; [apply firstn_is_prefix|].
    rewrite <- (Hall k' Hk'). apply firstn_is_prefix. }
  assert (U : (lcp_all k r <= m)%nat).
  { pose proof (lcp_all_le k r x Hx) as Hle.
    destruct (Nat.lt_ge_cases m (lcp k x)) as [Hlt|Hge]; [|lia].
    exfalso. apply Hne. symmetry. apply lcp_nth. exact Hlt. }
  lia.
Qed.

Lemma group_cons : forall m k r, group m (k :: r) =
  match group m r with
  | (b', g) :: gs => if nth m k 0 =? b' then (nth m k 0, k :: g) :: gs else (nth m k 0, [k]) :: (b', g) :: gs
  | [] => [(nth m k 0, [k])]
  end.
Proof. reflexivity. Qed.

Lemma group_block : forall m b K R, K <> [] -> Forall (fun k => nth_error k m = Some b) K ->
  match group m R with [] => True | (b', _) :: _ => b' <> b end ->
  group m (K ++ R) = (b, K) :: group m R.
Proof.
  intros m b K R. induction K as [|k K IH]; intros Hne HF Hhd; [congruence|].
  pose proof (Forall_inv HF) as Hk. cbn beta in Hk. pose proof (Forall_inv_tail HF) as HF'.
  assert (Hkb : nth m k 0 = b) by (apply nth_error_nth; exact Hk).
  destruct K as [|k2 K].
  - cbn [app]. rewrite group_cons, Hkb. destruct (group m R) as [|[b' g] gs]; [reflexivity|].
    destruct (b =? b') eqn:Eb; [apply N.eqb_eq in Eb; congruence|reflexivity].
  - change ((k :: k2 :: K) ++ R) with (k :: ((k2 :: K) ++ R)).
    rewrite group_cons, IH; [|discriminate|exact HF'|exact Hhd].
    rewrite Hkb, N.eqb_refl. reflexivity.
Qed.

(* grouping the keys below a node by the branch byte recovers the children *)
Lemma group_kids : forall m kids, kids_ok m kids ->
  group m (map ltk (kid_leaves kids)) = map (fun bc => (fst bc, map ltk (leaves (snd bc)))) kids.
Proof.
  intros m kids. induction kids as [|[b c] kids IH]; intros H; [reflexivity|].
  rewrite kid_leaves_cons, map_app. pose proof (kids_ok_tail _ _ _ H) as Ht.
  destruct H as [HS H]. destruct (H b c (or_introl eq_refl)) as [Hne Hb].
  rewrite (group_block m b).
  - cbn [map fst snd]. f_equal. apply IH. exact Ht.
  - destruct (leaves c); [congruence|discriminate].
  - apply Forall_forall. intros k Hk. apply in_map_iff in Hk. destruct Hk as (l & <- & Hl).
    apply Hb. exact Hl.
  - rewrite IH by exact Ht. destruct kids as [|[b' c'] kids']; cbn [map fst]; [exact I|].
    cbn [map fst] in HS. apply StronglySorted_inv in HS. destruct HS as [_ Hlt].
    apply Forall_inv in Hlt. lia.
Qed.

(* the path length of a node, from the keys below it *)
Lemma lcp_all_inner : forall d n k r, WF d (Inner n) -> map ltk (leaves (Inner n)) = k :: r ->
  lcp_all k r = (d + prefixLen (nhdr n))%nat.
Proof.
  intros d n k r H E.
  assert (Hin : forall x, In x (k :: r) -> exists l, ltk l = x /\ In l (leaves (Inner n))).
  { intros x Hx. rewrite <- E in Hx. apply in_map_iff in Hx. exact Hx. }
  destruct (Hin k (or_introl eq_refl)) as (l0 & E0 & Hl0).
  pose proof Hl0 as Hl0'. apply in_leaves_inner in Hl0'. destruct Hl0' as (b0 & c0 & Hin0 & Hl0').
  destruct (WF_leaf_long d n b0 c0 l0 H Hin0 Hl0') as [Hb0 Hlen0]. rewrite E0 in Hb0, Hlen0.
  apply lcp_all_char; [exact Hlen0| |].
  - intros x Hx. destruct (Hin x (or_intror Hx)) as (l & El & Hl).
    rewrite <- El, <- E0. apply (WF_inner_agree d n H); assumption.
  - destruct (WF_inner_two _ _ H) as (l & l' & b & b' & Hl & Hl' & Hb & Hb' & Hne).
    assert (Hx : exists x bx, In x (k :: r) /\ nth_error x (d + prefixLen (nhdr n)) = Some bx /\ bx <> b0).
    { destruct (N.eq_dec b b0) as [->|Hd].
      - exists (ltk l'), b'. split; [rewrite <- E; apply in_map; exact Hl'|]. split; [exact Hb'|congruence].
      - exists (ltk l), b. split; [rewrite <- E; apply in_map; exact Hl|]. split; [exact Hb|exact Hd]. }
    destruct Hx as (x & bx & Hx & Hbx & Hd). exists x. split.
    + destruct Hx as [<-|Hx]; [congruence|exact Hx].
    + congruence.
Qed.

Theorem canon_correct_f : forall fuel d t, (theight t <= fuel)%nat -> WF d t ->
  shape_of t = canon fuel d (map ltk (leaves t)).
Proof.
  induction fuel as [|f IH]; intros d t Hf H.
  - pose proof (theight_pos t). lia.
  - destruct t as [gk tk v|n]; [reflexivity|].
    destruct (map ltk (leaves (Inner n))) as [|k [|k' r]] eqn:E.
    + exfalso. apply map_eq_nil in E. revert E. eapply WF_nonempty. exact H.
    + exfalso. revert E. eapply inner_not_single. exact H.
    + cbn [canon]. rewrite (lcp_all_inner d n k (k' :: r) H E).
      rewrite <- E, leaves_inner.
      change (flat_map (fun bc => leaves (snd bc)) (nenum n)) with (kid_leaves (nenum n)).
      rewrite (group_kids _ _ (WF_kids_ok _ _ H)), map_map, shape_inner. cbn [fst snd].
      f_equal; [lia|]. apply map_ext_in. intros [b c] Hin. cbn [fst snd]. f_equal.
      destruct (WF_child _ _ _ _ H Hin) as [Hc _]. pose proof (in_nenum_height _ _ _ Hin) as Hh.
      apply IH; [lia|exact Hc].
Qed.

(* any fuel of at least the height will do *)
Theorem canon_correct : forall d t, WF d t ->
  shape_of t = canon (theight t) d (map ltk (leaves t)).
Proof. intros d t. apply canon_correct_f. lia. Qed.

(* the main theorem again, as a consequence: the shape is a function of the keys *)
Corollary shape_canonical_fuel : forall fuel d t1 t2, (theight t1 <= fuel)%nat -> (theight t2 <= fuel)%nat ->
  WF d t1 -> WF d t2 -> map ltk (leaves t1) = map ltk (leaves t2) ->
  shape_of t1 = canon fuel d (map ltk (leaves t1)) /\ shape_of t2 = canon fuel d (map ltk (leaves t1)).
Proof.
  intros fuel d t1 t2 Hf1 Hf2 H1 H2 E. split; [apply canon_correct_f; assumption|].
  rewrite E. apply canon_correct_f; assumption.
Qed.
