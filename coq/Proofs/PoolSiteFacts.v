(* Pool discipline on the regenerated source facts (C12): every node handed back to the
   pool is cleared by the statement right before the Put, there are exactly as many
   release sites as the model of Model/Pool.v has (one per grow/shrink/collapse path),
   and nodes are only ever taken from the pool at the modelled sites. *)
From Coq Require Import List String NArith Bool.
From GoArt Require Import Gen.PoolSites.
Import ListNotations.
Open Scope string_scope.

Definition put_cleared (e : string * string * string * N * bool) : bool := snd e.
Definition put_fn (e : string * string * string * N * bool) : string := snd (fst (fst (fst e))).

Theorem every_put_is_cleared : forallb put_cleared pool_puts = true.
Proof. vm_compute. reflexivity. Qed.

(* the release sites are the seven the raw model transliterates:
   node4 grow, node4 collapse, node16 grow, node16 shrink, node48 grow, node48 shrink, node256 shrink *)
Theorem put_sites_are_the_modelled_ones :
  map put_fn pool_puts =
  ["*node4.addChild"; "*node4.deleteChild"; "*node16.addChild"; "*node16.deleteChild";
   "*node48.addChild"; "*node48.deleteChild"; "*node256.deleteChild"].
Proof. vm_compute. reflexivity. Qed.

Definition get_file (e : string * string * N) : string := fst (fst e).
(* acquisitions: the six in node.go (three grows, three shrinks) and two per tree kind (leaf split, path split) *)
Theorem get_sites_are_the_modelled_ones :
  List.length (filter (fun e => String.eqb (get_file e) "node.go") pool_gets) = 6%nat /\
  List.length (filter (fun e => negb (String.eqb (get_file e) "node.go")) pool_gets) = 12%nat.
Proof. vm_compute. split; reflexivity. Qed.

(* pool.go: what a Get hands out when the pool has nothing to recycle.  The model's `get Fresh k` is the zero
   node of kind k (Model/Pool.xzero): the k-th element of the literal initialising nodePools must be exactly
   {New: func() any { return new(nodeK) }} with nodeK the struct of the k-th node kind (the order of the
   nodeKind constants, which Model/Pool.kind_name spells), and pool.go declares no other package-level
   variable (a free list, a chunk to carve nodes from, a counter would be shared unsynchronised state). *)
From GoArt Require Model.Pool.
Theorem pool_new_is_the_zero_node :
  pool_news = map (fun k => (Pool.kind_name k, true)) [Pool.K4; Pool.K16; Pool.K48; Pool.K256] /\
  pool_go_package_vars = 1%N.
Proof. vm_compute. split; reflexivity. Qed.
