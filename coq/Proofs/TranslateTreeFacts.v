(* The REGENERATED read-only descent code (Gen/TreeGen.v, written by go/cmd/srcfacts/translate_tree.go
   from the ASTs of /repo's tree.go, trees.go and collation.go on every run) IS the hand-written model:

     g_longestCommonPrefix   = Model.Tree.longestCommonPrefix          (every depth >= 0)
     g_checkPrefix           = Model.Tree.checkPrefix on xabs_hdr      (prefix array of maxPrefixLen bytes)
     g_minimum, g_maximum    = Model.Tree.minleaf / maxleaf on tabs    (xtwf t, WF d (tabs t))
     g_prefixMismatch        = Model.Tree.prefixMismatch on nabs       (xtwf, WF, fuel >= height)
     g_<tree>_search         = Model.PoolTree.xsearch                  (xtwf t, byte strings)
     g_alpha_search_key      = fst (Api.transform KAlpha (AB l))

   The translated functions return gres (GRet r | GPanic | GFuel, Model/GoTree.v): every theorem
   says in particular that on its domain the Go code neither panics (no index out of range, no nil
   dereference, no read of the tag of a nil reference) nor needs more iterations than the budget
   the translator gave its inner loops.  Go int is Z in the translation; the models count in nat:
   the statements convert with Z.of_nat. *)
From GoArt Require Import Base.Bytes Model.Node4 Model.Node16 Model.Node Model.Tree Model.Iter Model.Api
  Spec.NodeSpec Spec.TreeSpec Proofs.BytesFacts Proofs.NodeFacts Proofs.TreeBasics Proofs.NodeAux48
  Proofs.NodeAuxAssoc Proofs.NodeAuxArr Proofs.InsertFacts Proofs.IterFacts Spec.Ideal Proofs.PropFacts Proofs.TranslateFacts.
From GoArt Require Import Model.Pool Proofs.PoolFacts Model.PoolTree Proofs.PoolTreeFacts.
From GoArt Require Import Model.GoArith Model.GoTree Gen.Node4Gen Gen.Node16Gen Gen.TreeGen.
From Coq Require Import ZifyN ZifyNat ZifyBool.
Ltac Zify.zify_post_hook ::= Z.div_mod_to_equations.
Open Scope N_scope.

(* ================= 0. the checked reads on in-range indices ================= *)
Lemma idx_bytes_nat : forall l i, idx_bytes l (Z.of_nat i) = nth_error l i.
Proof.
  intros l i. unfold idx_bytes. destruct (Z.ltb_spec (Z.of_nat i) 0); [lia|]. rewrite Nat2Z.id. reflexivity.
Qed.
Lemma idx_refs_nat : forall (l : list (option xtree)) i, idx_refs l (Z.of_nat i) = nth_error l i.
Proof.
  intros l i. unfold idx_refs. destruct (Z.ltb_spec (Z.of_nat i) 0); [lia|]. rewrite Nat2Z.id. reflexivity.
Qed.
Lemma idx_bytes_neg : forall l i, (i < 0)%Z -> idx_bytes l i = None.
Proof. intros l i H. unfold idx_bytes. destruct (Z.ltb_spec i 0); [reflexivity|lia]. Qed.
Lemma idx_refs_neg : forall l i, (i < 0)%Z -> idx_refs l i = None.
Proof. intros l i H. unfold idx_refs. destruct (Z.ltb_spec i 0); [reflexivity|lia]. Qed.

Lemma skipn_cons_nth : forall {A} (l : list A) i x, nth_error l i = Some x -> skipn i l = x :: skipn (S i) l.
Proof.
  intros A. induction l as [|y l IH]; intros [|i] x H; cbn [nth_error] in H; try discriminate.
  - injection H as ->. reflexivity.
  - cbn [skipn]. rewrite (IH i x H). reflexivity.
Qed.
Lemma nth_error_lt_some : forall {A} (l : list A) i, (i < length l)%nat -> exists x, nth_error l i = Some x.
Proof.
  intros A l i H. destruct (nth_error l i) as [x|] eqn:E; [exists x; reflexivity|].
  apply nth_error_None in E. lia.
Qed.
Lemma lcpn_le : forall n a b, (lcpn n a b <= n)%nat.
Proof.
  induction n as [|n IH]; intros [|x a] [|y b]; cbn [lcpn]; try lia.
  destruct (x =? y); [specialize (IH a b)|]; lia.
Qed.

Lemma g_maxPrefixLen_val : g_maxPrefixLen = N.of_nat maxPrefixLen.
Proof. reflexivity. Qed.

(* ================= 1. longestCommonPrefix ================= *)
Lemma lcp_loop1_spec : forall m key other i,
  (i + m <= length key)%nat -> (i + m <= length other)%nat ->
  g_longestCommonPrefix_loop1 m key other (Z.of_nat (i + m)) (Z.of_nat i) =
  LDone (Z.of_nat (i + lcpn m (skipn i key) (skipn i other))).
Proof.
  induction m as [|m IH]; intros key other i Hk Ho.
  - cbn [g_longestCommonPrefix_loop1 lcpn]. rewrite Nat.add_0_r, Z.ltb_irrefl. reflexivity.
  - cbn [g_longestCommonPrefix_loop1].
    replace (Z.of_nat i <? Z.of_nat (i + S m))%Z with true by (symmetry; apply Z.ltb_lt; lia).
    rewrite !idx_bytes_nat.
    destruct (nth_error_lt_some key i ltac:(lia)) as [x Ex].
    destruct (nth_error_lt_some other i ltac:(lia)) as [y Ey].
    rewrite Ex, Ey, (skipn_cons_nth _ _ _ Ex), (skipn_cons_nth _ _ _ Ey). cbn [lcpn].
    destruct (x =? y); cbn [negb].
    + replace (Z.of_nat i + 1)%Z with (Z.of_nat (S i)) by lia.
      replace (i + S m)%nat with (S i + m)%nat by lia.
      rewrite IH by lia. f_equal. lia.
    + rewrite Nat.add_0_r. reflexivity.
Qed.

(* the loop does not run when its bound is not above its index (fuel 0 is enough) *)
Lemma lcp_loop1_stop : forall fuel key other maxCmp idx, (maxCmp <= idx)%Z ->
  g_longestCommonPrefix_loop1 fuel key other maxCmp idx = LDone idx.
Proof.
  intros fuel key other maxCmp idx H.
  destruct fuel; cbn [g_longestCommonPrefix_loop1];
    (replace (idx <? maxCmp)%Z with false by (symmetry; apply Z.ltb_ge; lia)); reflexivity.
Qed.

(* every depth >= 0: beyond the shorter key the loop does not run and idx - depth = 0 (never negative) *)
Theorem gen_longestCommonPrefix_eq : forall key other depth,
  g_longestCommonPrefix key other (Z.of_nat depth) = GRet (Z.of_nat (longestCommonPrefix key other depth)).
Proof.
  intros key other depth. unfold g_longestCommonPrefix, longestCommonPrefix. cbv zeta.
  destruct (Nat.le_gt_cases depth (Nat.min (length key) (length other))) as [Hle|Hgt].
  - set (m := (Nat.min (length key) (length other) - depth)%nat).
    replace (Z.min (Z.of_nat (length key)) (Z.of_nat (length other))) with (Z.of_nat (depth + m)) by lia.
    replace (Z.to_nat (Z.of_nat (depth + m) - Z.of_nat depth)) with m by lia.
    rewrite lcp_loop1_spec by lia. f_equal. lia.
  - rewrite lcp_loop1_stop by lia.
    replace (Nat.min (length key) (length other) - depth)%nat with 0%nat by lia.
    cbn [lcpn]. f_equal. lia.
Qed.

(* outside the domain: with a negative depth the loop always runs (the bound is >= 0) and its first read
   key[depth] is an index out of range *)
Theorem gen_longestCommonPrefix_negative : forall key other depth, (depth < 0)%Z ->
  g_longestCommonPrefix key other depth = GPanic.
Proof.
  intros key other depth Hd. unfold g_longestCommonPrefix. cbv zeta.
  set (m := Z.min (Z.of_nat (length key)) (Z.of_nat (length other))).
  assert (Hm : (0 <= m)%Z) by (subst m; lia).
  destruct (Z.to_nat (m - depth)) as [|f] eqn:E; [lia|].
  cbn [g_longestCommonPrefix_loop1].
  replace (depth <? m)%Z with true by (symmetry; apply Z.ltb_lt; lia).
  rewrite idx_bytes_neg by exact Hd. reflexivity.
Qed.

(* ================= 2. checkPrefix ================= *)
(* the comparison loop shared (textually) by checkPrefix and prefixMismatch: result as a function of
   the number c of agreeing positions among the m compared *)
Definition cmp_out (i m c : nat) : lres Z Z :=
  if (c =? m)%nat then LDone (Z.of_nat (i + c)) else LRet (Z.of_nat (i + c)).

Lemma checkPrefix_loop1_spec : forall m n key d i,
  (i + m <= length (xprefix n))%nat -> (d + i + m <= length key)%nat ->
  g_checkPrefix_loop1 m n key (Z.of_nat d) (Z.of_nat (i + m)) (Z.of_nat i) =
  cmp_out i m (lcpn m (skipn i (xprefix n)) (skipn (d + i) key)).
Proof.
  induction m as [|m IH]; intros n key d i Hp Hk.
  - cbn [g_checkPrefix_loop1 lcpn]. rewrite Nat.add_0_r, Z.ltb_irrefl. unfold cmp_out. cbn [Nat.eqb].
    rewrite Nat.add_0_r. reflexivity.
  - cbn [g_checkPrefix_loop1].
    replace (Z.of_nat i <? Z.of_nat (i + S m))%Z with true by (symmetry; apply Z.ltb_lt; lia).
    replace (Z.of_nat d + Z.of_nat i)%Z with (Z.of_nat (d + i)) by lia.
    rewrite !idx_bytes_nat.
    destruct (nth_error_lt_some (xprefix n) i ltac:(lia)) as [x Ex].
    destruct (nth_error_lt_some key (d + i) ltac:(lia)) as [y Ey].
    rewrite Ex, Ey, (skipn_cons_nth _ _ _ Ex), (skipn_cons_nth _ _ _ Ey). cbn [lcpn].
    destruct (x =? y); cbn [negb].
    + replace (Z.of_nat i + 1)%Z with (Z.of_nat (S i)) by lia.
      replace (i + S m)%nat with (S i + m)%nat by lia.
      replace (S (d + i)) with (d + S i)%nat by lia.
      rewrite IH by lia. unfold cmp_out. cbn [Nat.eqb].
      replace (S i + lcpn m (skipn (S i) (xprefix n)) (skipn (d + S i) key))%nat
        with (i + S (lcpn m (skipn (S i) (xprefix n)) (skipn (d + S i) key)))%nat by lia.
      reflexivity.
    + unfold cmp_out. cbn [Nat.eqb]. rewrite Nat.add_0_r. reflexivity.
Qed.

Lemma checkPrefix_loop1_stop : forall fuel n key d maxCmp idx, (maxCmp <= idx)%Z ->
  g_checkPrefix_loop1 fuel n key d maxCmp idx = LDone idx.
Proof.
  intros fuel n key d maxCmp idx H.
  destruct fuel; cbn [g_checkPrefix_loop1];
    (replace (idx <? maxCmp)%Z with false by (symmetry; apply Z.ltb_ge; lia)); reflexivity.
Qed.

(* n.prefix[idx] is within the array by min(n.prefixLen, maxPrefixLen), key[depth+idx] within the
   key by len(key)-depth: both reads are checked reads in the translation and never fail here *)
Theorem gen_checkPrefix_eq : forall h key depth, length (xprefix h) = maxPrefixLen ->
  g_checkPrefix h key (Z.of_nat depth) = GRet (Z.of_nat (checkPrefix (xabs_hdr h) key depth)).
Proof.
  intros h key depth Hl. unfold g_checkPrefix, checkPrefix, pl_cap, hdr_prefixLen. cbv zeta.
  cbn [xabs_hdr prefix prefixLen]. rewrite g_maxPrefixLen_val.
  set (m := Nat.min (Nat.min maxPrefixLen (xplen h)) (length key - depth)).
  destruct (Nat.le_gt_cases depth (length key)) as [Hle|Hgt].
  - replace (Z.min (Z.of_N (N.min (N.of_nat (xplen h)) (N.of_nat maxPrefixLen)))
               (Z.of_nat (length key) - Z.of_nat depth)) with (Z.of_nat (0 + m)) by lia.
    replace (Z.to_nat (Z.of_nat (0 + m) - 0)) with m by lia.
    change 0%Z with (Z.of_nat 0).
    rewrite checkPrefix_loop1_spec by lia.
    cbn [skipn]. rewrite Nat.add_0_r. unfold cmp_out. destruct (_ =? m)%nat; reflexivity.
  - rewrite checkPrefix_loop1_stop by lia.
    replace m with 0%nat by lia. reflexivity.
Qed.

(* a consequence of the invariant the model is used under *)
Lemma xwf_prefix_len : forall {C} (n : xnode C), xwf n -> length (xprefix (xh n)) = maxPrefixLen.
Proof.
  intros C n (_ & _ & Hn). destruct Hn as [Hp _]. rewrite xabs_hdr_eq in Hp. exact Hp.
Qed.

(* ================= 3. minimum / maximum ================= *)
Definition lres_map {R S R' S'} (f : R -> R') (g : S -> S') (r : lres R S) : lres R' S' :=
  match r with LRet x => LRet (f x) | LDone s => LDone (g s) | LPanic => LPanic | LFuel => LFuel end.
Definition gres_map {R R'} (f : R -> R') (r : gres R) : gres R' :=
  match r with GRet x => GRet (f x) | GPanic => GPanic | GFuel => GFuel end.
(* the reading the brief asks for: nil, a panic and an exhausted budget are all "no leaf" *)
Definition gres_opt {A} (r : gres (option A)) : option A := match r with GRet o => o | _ => None end.

(* ---- the four scans: for n48.keys[idx] == 0 { idx++ / idx-- },  for n256.children[idx].pointer == nil { .. } ---- *)
Lemma min_loop2_scan : forall k fuel n48 i x,
  (forall t, (i <= t < i + k)%nat -> nth_error (xbytes n48) t = Some 0) ->
  nth_error (xbytes n48) (i + k) = Some x -> x <> 0 -> (k <= fuel)%nat ->
  g_minimum_loop2 fuel n48 (Z.of_nat i) = LDone (Z.of_nat (i + k)).
Proof.
  induction k as [|k IH]; intros fuel n48 i x Hz Hx Hne Hf.
  - rewrite Nat.add_0_r in *. destruct fuel; cbn [g_minimum_loop2]; rewrite idx_bytes_nat, Hx;
      (destruct (N.eqb_spec x 0); [contradiction|reflexivity]).
  - destruct fuel as [|fuel]; [lia|]. cbn [g_minimum_loop2]. rewrite idx_bytes_nat, (Hz i) by lia.
    rewrite N.eqb_refl. replace (Z.of_nat i + 1)%Z with (Z.of_nat (S i)) by lia.
    replace (i + S k)%nat with (S i + k)%nat in * by lia.
    apply (IH fuel n48 (S i) x); try assumption; try lia. intros t Ht. apply Hz. lia.
Qed.
Lemma max_loop2_scan : forall k fuel n48 i x, (k <= i)%nat ->
  (forall t, (i - k < t <= i)%nat -> nth_error (xbytes n48) t = Some 0) ->
  nth_error (xbytes n48) (i - k) = Some x -> x <> 0 -> (k <= fuel)%nat ->
  g_maximum_loop2 fuel n48 (Z.of_nat i) = LDone (Z.of_nat (i - k)).
Proof.
  induction k as [|k IH]; intros fuel n48 i x Hk Hz Hx Hne Hf.
  - rewrite Nat.sub_0_r in *. destruct fuel; cbn [g_maximum_loop2]; rewrite idx_bytes_nat, Hx;
      (destruct (N.eqb_spec x 0); [contradiction|reflexivity]).
  - destruct fuel as [|fuel]; [lia|]. cbn [g_maximum_loop2]. rewrite idx_bytes_nat, (Hz i) by lia.
    rewrite N.eqb_refl. replace (Z.of_nat i - 1)%Z with (Z.of_nat (i - 1)) by lia.
    replace (i - S k)%nat with (i - 1 - k)%nat in * by lia.
    apply (IH fuel n48 (i - 1)%nat x); try assumption; try lia. intros t Ht. apply Hz. lia.
Qed.
Lemma min_loop3_scan : forall k fuel n256 i c,
  (forall t, (i <= t < i + k)%nat -> nth_error (xch n256) t = Some None) ->
  nth_error (xch n256) (i + k) = Some (Some c) -> (k <= fuel)%nat ->
  g_minimum_loop3 fuel n256 (Z.of_nat i) = LDone (Z.of_nat (i + k)).
Proof.
  induction k as [|k IH]; intros fuel n256 i c Hz Hx Hf.
  - rewrite Nat.add_0_r in *. destruct fuel; cbn [g_minimum_loop3]; rewrite idx_refs_nat, Hx; reflexivity.
  - destruct fuel as [|fuel]; [lia|]. cbn [g_minimum_loop3]. rewrite idx_refs_nat, (Hz i) by lia.
    cbn [ref_pointer ref_is_nil]. replace (Z.of_nat i + 1)%Z with (Z.of_nat (S i)) by lia.
    replace (i + S k)%nat with (S i + k)%nat in * by lia.
    apply (IH fuel n256 (S i) c); try assumption; try lia. intros t Ht. apply Hz. lia.
Qed.
Lemma max_loop3_scan : forall k fuel n256 i c, (k <= i)%nat ->
  (forall t, (i - k < t <= i)%nat -> nth_error (xch n256) t = Some None) ->
  nth_error (xch n256) (i - k) = Some (Some c) -> (k <= fuel)%nat ->
  g_maximum_loop3 fuel n256 (Z.of_nat i) = LDone (Z.of_nat (i - k)).
Proof.
  induction k as [|k IH]; intros fuel n256 i c Hk Hz Hx Hf.
  - rewrite Nat.sub_0_r in *. destruct fuel; cbn [g_maximum_loop3]; rewrite idx_refs_nat, Hx; reflexivity.
  - destruct fuel as [|fuel]; [lia|]. cbn [g_maximum_loop3]. rewrite idx_refs_nat, (Hz i) by lia.
    cbn [ref_pointer ref_is_nil]. replace (Z.of_nat i - 1)%Z with (Z.of_nat (i - 1)) by lia.
    replace (i - S k)%nat with (i - 1 - k)%nat in * by lia.
    apply (IH fuel n256 (i - 1)%nat c); try assumption; try lia. intros t Ht. apply Hz. lia.
Qed.

(* ---- where the first / last registered child of a raw node sits ---- *)
Section Extremes.
Context {C : Type}.
Implicit Types (l tl : list (N * C)) (ch : list (option C)).

Lemma sorted_hd_none : forall l b0 c0 tl t, keys_sorted l -> l = (b0, c0) :: tl -> t < b0 -> assoc t l = None.
Proof.
  intros l b0 c0 tl t [Hs _] -> Ht. apply al_none_notin. cbn [map fst] in *.
  apply StronglySorted_inv in Hs. destruct Hs as [_ Hf]. rewrite Forall_forall in Hf.
  intros [E|Hin]; [lia|]. specialize (Hf _ Hin). lia.
Qed.
Lemma sorted_last_none : forall l b0 c0 tl t, keys_sorted l -> l = tl ++ [(b0, c0)] -> b0 < t -> assoc t l = None.
Proof.
  intros l b0 c0 tl t [Hs _] -> Ht. apply al_none_notin. rewrite map_app in *. cbn [map fst] in *.
  apply ssorted_app_inv in Hs. destruct Hs as (_ & _ & Hlt).
  intros Hin. apply in_app_or in Hin. destruct Hin as [Hin|[E|[]]]; [|lia].
  specialize (Hlt _ b0 Hin ltac:(left; reflexivity)). lia.
Qed.
Lemma sorted_in_lt256 : forall l b c, keys_sorted l -> In (b, c) l -> b < 256.
Proof.
  intros l b c [_ Hf] Hin. rewrite Forall_forall in Hf. apply Hf. apply (in_map fst _ _ Hin).
Qed.

(* an occupied cell of a node4 / node16, read raw *)
Lemma occ_read : forall ch m i c, forallb isome (firstn m ch) = true ->
  length (somes (firstn m ch)) = m ->
  nth_error (somes (firstn m ch)) i = Some c -> nth_error ch i = Some (Some c).
Proof.
  intros ch m i c Ho Hl H.
  assert (Hi : (i < m)%nat). { rewrite <- Hl. apply nth_error_Some. rewrite H. discriminate. }
  pose proof (slot_occ ch m i Ho Hi) as Hs. rewrite H in Hs. unfold slot in Hs.
  destruct (nth_error ch i) as [s|]; [subst s; reflexivity|discriminate].
Qed.

Lemma assoc_enum_idx0 : forall idx ch b, assoc b (enum_idx idx ch 0) = entry (nth (N.to_nat b) idx 0) ch.
Proof.
  intros idx ch b. rewrite assoc_enum_idx. replace (0 <=? b) with true by (symmetry; apply N.leb_le; lia).
  rewrite N.sub_0_r. reflexivity.
Qed.
Lemma assoc_enum_slots0 : forall ch b, assoc b (enum_slots ch 0) =
  match nth_error ch (N.to_nat b) with Some (Some c) => Some c | _ => None end.
Proof.
  intros ch b. rewrite assoc_enum_slots. replace (0 <=? b) with true by (symmetry; apply N.leb_le; lia).
  rewrite N.sub_0_r. reflexivity.
Qed.

Lemma x48_first : forall h idx ch b0 c0 tl, xwf (X48 h idx ch) -> enum_idx idx ch 0 = (b0, c0) :: tl ->
  (N.to_nat b0 < 256)%nat /\ (forall t, (t < N.to_nat b0)%nat -> nth_error idx t = Some 0) /\
  exists i, nth_error idx (N.to_nat b0) = Some i /\ i <> 0 /\ nth_error ch (N.to_nat (i - 1)) = Some (Some c0).
Proof.
  intros h idx ch b0 c0 tl (_ & _ & Hn) E. pose proof (nenum_sorted _ Hn) as Hks. cbn [xabs nenum] in Hks.
  cbn [xabs] in Hn. destruct Hn as (_ & Hli & Hlc & Hinv & _).
  assert (Hb : b0 < 256) by (apply (sorted_in_lt256 _ b0 c0 Hks); rewrite E; left; reflexivity).
  split; [lia|]. split.
  - intros t Ht. pose proof (sorted_hd_none _ _ _ _ (N.of_nat t) Hks E ltac:(lia)) as Ha.
    rewrite assoc_enum_idx0, Nat2N.id in Ha.
    specialize (Hinv t ltac:(lia)). cbv zeta in Hinv.
    rewrite (nth_error_nth' idx 0) by lia. f_equal.
    destruct Hinv as [Hz|(H1 & _ & c & Hc)]; [exact Hz|].
    unfold entry in Ha. rewrite Hc in Ha. destruct (N.eqb_spec (nth t idx 0) 0) as [Ez|Ez]; [lia|discriminate].
  - assert (Ha : assoc b0 (enum_idx idx ch 0) = Some c0) by (rewrite E; cbn [assoc]; rewrite N.eqb_refl; reflexivity).
    rewrite assoc_enum_idx0 in Ha.
    exists (nth (N.to_nat b0) idx 0). split; [apply nth_error_nth'; lia|].
    unfold entry in Ha. destruct (N.eqb_spec (nth (N.to_nat b0) idx 0) 0) as [Ez|Hne]; [discriminate|].
    split; [exact Hne|]. destruct (nth_error ch _) as [[c|]|]; try discriminate. injection Ha as ->. reflexivity.
Qed.

Lemma x48_last : forall h idx ch b0 c0 tl, xwf (X48 h idx ch) -> enum_idx idx ch 0 = tl ++ [(b0, c0)] ->
  (N.to_nat b0 < 256)%nat /\ (forall t, (N.to_nat b0 < t < 256)%nat -> nth_error idx t = Some 0) /\
  exists i, nth_error idx (N.to_nat b0) = Some i /\ i <> 0 /\ nth_error ch (N.to_nat (i - 1)) = Some (Some c0).
Proof.
  intros h idx ch b0 c0 tl (_ & _ & Hn) E. pose proof (nenum_sorted _ Hn) as Hks. cbn [xabs nenum] in Hks.
  cbn [xabs] in Hn. destruct Hn as (_ & Hli & Hlc & Hinv & _).
  assert (Hin : In (b0, c0) (enum_idx idx ch 0)) by (rewrite E; apply in_or_app; right; left; reflexivity).
  assert (Hb : b0 < 256) by (apply (sorted_in_lt256 _ b0 c0 Hks Hin)).
  split; [lia|]. split.
  - intros t Ht. pose proof (sorted_last_none _ _ _ _ (N.of_nat t) Hks E ltac:(lia)) as Ha.
    rewrite assoc_enum_idx0, Nat2N.id in Ha.
    specialize (Hinv t ltac:(lia)). cbv zeta in Hinv.
    rewrite (nth_error_nth' idx 0) by lia. f_equal.
    destruct Hinv as [Hz|(H1 & _ & c & Hc)]; [exact Hz|].
    unfold entry in Ha. rewrite Hc in Ha. destruct (N.eqb_spec (nth t idx 0) 0) as [Ez|Ez]; [lia|discriminate].
  - pose proof (in_assoc _ _ _ Hks Hin) as Ha.
    rewrite assoc_enum_idx0 in Ha.
    exists (nth (N.to_nat b0) idx 0). split; [apply nth_error_nth'; lia|].
    unfold entry in Ha. destruct (N.eqb_spec (nth (N.to_nat b0) idx 0) 0) as [Ez|Hne]; [discriminate|].
    split; [exact Hne|]. destruct (nth_error ch _) as [[c|]|]; try discriminate. injection Ha as ->. reflexivity.
Qed.

Lemma x256_first : forall h ch b0 c0 tl, xwf (X256 h ch) -> enum_slots ch 0 = (b0, c0) :: tl ->
  (N.to_nat b0 < 256)%nat /\ (forall t, (t < N.to_nat b0)%nat -> nth_error ch t = Some None) /\
  nth_error ch (N.to_nat b0) = Some (Some c0).
Proof.
  intros h ch b0 c0 tl (_ & _ & Hn) E. pose proof (nenum_sorted _ Hn) as Hks. cbn [xabs nenum] in Hks.
  cbn [xabs] in Hn. destruct Hn as (_ & Hlc & _).
  assert (Hb : b0 < 256) by (apply (sorted_in_lt256 _ b0 c0 Hks); rewrite E; left; reflexivity).
  split; [lia|]. split.
  - intros t Ht. pose proof (sorted_hd_none _ _ _ _ (N.of_nat t) Hks E ltac:(lia)) as Ha.
    rewrite assoc_enum_slots0, Nat2N.id in Ha.
    destruct (nth_error_lt_some ch t ltac:(lia)) as [[c|] Ex]; rewrite Ex in *; [discriminate|reflexivity].
  - assert (Ha : assoc b0 (enum_slots ch 0) = Some c0) by (rewrite E; cbn [assoc]; rewrite N.eqb_refl; reflexivity).
    rewrite assoc_enum_slots0 in Ha.
    destruct (nth_error ch _) as [[c|]|]; try discriminate. injection Ha as ->. reflexivity.
Qed.
Lemma x256_last : forall h ch b0 c0 tl, xwf (X256 h ch) -> enum_slots ch 0 = tl ++ [(b0, c0)] ->
  (N.to_nat b0 < 256)%nat /\ (forall t, (N.to_nat b0 < t < 256)%nat -> nth_error ch t = Some None) /\
  nth_error ch (N.to_nat b0) = Some (Some c0).
Proof.
  intros h ch b0 c0 tl (_ & _ & Hn) E. pose proof (nenum_sorted _ Hn) as Hks. cbn [xabs nenum] in Hks.
  cbn [xabs] in Hn. destruct Hn as (_ & Hlc & _).
  assert (Hin : In (b0, c0) (enum_slots ch 0)) by (rewrite E; apply in_or_app; right; left; reflexivity).
  assert (Hb : b0 < 256) by (apply (sorted_in_lt256 _ b0 c0 Hks Hin)).
  split; [lia|]. split.
  - intros t Ht. pose proof (sorted_last_none _ _ _ _ (N.of_nat t) Hks E ltac:(lia)) as Ha.
    rewrite assoc_enum_slots0, Nat2N.id in Ha.
    destruct (nth_error_lt_some ch t ltac:(lia)) as [[c|] Ex]; rewrite Ex in *; [discriminate|reflexivity].
  - pose proof (in_assoc _ _ _ Hks Hin) as Ha.
    rewrite assoc_enum_slots0 in Ha.
    destruct (nth_error ch _) as [[c|]|]; try discriminate. injection Ha as ->. reflexivity.
Qed.

(* first / last child commute with mapping the children *)
Lemma nfirst_rmap : forall {D} (f : C -> D) (n : rnode C), nfirst (rmap f n) = omap f (nfirst n).
Proof.
  intros D f [h len keys ch|h len keys ch|h len idx slots|h len slots]; cbn [rmap nfirst];
    try apply nth_error_map_om.
  - change (N48 h len idx (map (omap f) slots)) with (rmap f (N48 h len idx slots)). rewrite nenum_rmap.
    destruct (nenum _) as [|[k c] l]; reflexivity.
  - change (N256 h len (map (omap f) slots)) with (rmap f (N256 h len slots)). rewrite nenum_rmap.
    destruct (nenum _) as [|[k c] l]; reflexivity.
Qed.
Lemma nlast_rmap : forall {D} (f : C -> D) (n : rnode C), nlast (rmap f n) = omap f (nlast n).
Proof.
  intros D f [h len keys ch|h len keys ch|h len idx slots|h len slots]; cbn [rmap nlast];
    try apply nth_error_map_om.
  - change (N48 h len idx (map (omap f) slots)) with (rmap f (N48 h len idx slots)). rewrite nenum_rmap, <- map_rev.
    destruct (rev (nenum _)) as [|[k c] l]; reflexivity.
  - change (N256 h len (map (omap f) slots)) with (rmap f (N256 h len slots)). rewrite nenum_rmap, <- map_rev.
    destruct (rev (nenum _)) as [|[k c] l]; reflexivity.
Qed.
End Extremes.

Lemma subw8_dec : forall a, subw 8 a 1 = u8 (a + 255).
Proof. intros a. unfold subw, u8. change (2 ^ 8) with 256. f_equal. lia. Qed.

Lemma rev_hd_last : forall {A} (l : list A) x r, rev l = x :: r -> l = rev r ++ [x].
Proof. intros A l x r H. rewrite <- (rev_involutive l), H. reflexivity. Qed.

(* one iteration of minimum() at an inner node with at least one registered child: the next reference is
   the first registered child, whatever the unoccupied cells hold *)
Lemma min_step : forall n fuel, xwf n -> nenum (xabs n) <> [] ->
  exists b c, In (b, c) (nenum (xabs n)) /\ nfirst (xabs n) = Some c /\
    g_minimum_loop1 (S fuel) (Some (XInner n)) = g_minimum_loop1 fuel (Some c).
Proof.
  intros n fuel Hx Hne. destruct (nenum (xabs n)) as [|[b0 c0] tl] eqn:E; [congruence|]. clear Hne.
  exists b0, c0. split; [left; reflexivity|].
  assert (Hf : nfirst (xabs n) = Some c0) by (rewrite nfirst_spec by apply Hx; rewrite E; reflexivity).
  split; [exact Hf|].
  destruct n as [h keys ch|h keys ch|h idx ch|h ch].
  - destruct (xwf4_inv _ _ _ Hx) as (Hc & Ho & _ & Hl). cbn [xabs nfirst] in Hf.
    pose proof (occ_read _ _ _ _ Ho Hl Hf) as Hr.
    cbn [g_minimum_loop1 ref_is_nil ref_pointer negb ref_tag gkind_eqb cast_node4 xch].
    change 0%Z with (Z.of_nat 0). rewrite idx_refs_nat, Hr. reflexivity.
  - destruct (xwf16_inv _ _ _ Hx) as (_ & Hc & Ho & _ & Hl). cbn [xabs nfirst] in Hf.
    pose proof (occ_read _ _ _ _ Ho Hl Hf) as Hr.
    cbn [g_minimum_loop1 ref_is_nil ref_pointer negb ref_tag gkind_eqb cast_node16 xch].
    change 0%Z with (Z.of_nat 0). rewrite idx_refs_nat, Hr. reflexivity.
  - cbn [xabs nenum] in E. destruct (x48_first _ _ _ _ _ _ Hx E) as (Hb & Hz & i & Hi & Hn0 & Hc).
    cbn [g_minimum_loop1 ref_is_nil ref_pointer negb ref_tag gkind_eqb cast_node48 xch xbytes].
    change 0%Z with (Z.of_nat 0).
    rewrite (min_loop2_scan (N.to_nat b0) 256 (X48 h idx ch) 0 i) by (cbn [xbytes]; first [assumption | lia | (intros t Ht; apply Hz; lia)]).
    cbn [Nat.add]. rewrite idx_bytes_nat, Hi.
    replace (Z.of_N i - 1)%Z with (Z.of_nat (N.to_nat (i - 1))) by lia.
    rewrite idx_refs_nat, Hc. reflexivity.
  - cbn [xabs nenum] in E. destruct (x256_first _ _ _ _ _ Hx E) as (Hb & Hz & Hc).
    cbn [g_minimum_loop1 ref_is_nil ref_pointer negb ref_tag gkind_eqb cast_node256 xch].
    change 0%Z with (Z.of_nat 0).
    rewrite (min_loop3_scan (N.to_nat b0) 256 (X256 h ch) 0 c0) by (cbn [xch]; first [assumption | lia | (intros t Ht; apply Hz; lia)]).
    cbn [Nat.add]. rewrite idx_refs_nat, Hc. reflexivity.
Qed.

Lemma max_step : forall n fuel, xwf n -> nenum (xabs n) <> [] ->
  exists b c, In (b, c) (nenum (xabs n)) /\ nlast (xabs n) = Some c /\
    g_maximum_loop1 (S fuel) (Some (XInner n)) = g_maximum_loop1 fuel (Some c).
Proof.
  intros n fuel Hx Hne. destruct (rev (nenum (xabs n))) as [|[b0 c0] tl] eqn:E0.
  { apply (f_equal (@length _)) in E0. rewrite rev_length in E0. destruct (nenum (xabs n)); [congruence|discriminate]. }
  clear Hne. apply rev_hd_last in E0. set (hd := rev tl) in *. clearbody hd. clear tl.
  exists b0, c0. split; [rewrite E0; apply in_or_app; right; left; reflexivity|].
  assert (Hf : nlast (xabs n) = Some c0).
  { rewrite nlast_spec by apply Hx. rewrite E0, map_app, rev_app_distr. reflexivity. }
  split; [exact Hf|].
  destruct n as [h keys ch|h keys ch|h idx ch|h ch].
  - destruct (xwf4_inv _ _ _ Hx) as (Hc & Ho & _ & Hl). cbn [xabs nlast] in Hf.
    pose proof (occ_read _ _ _ _ Ho Hl Hf) as Hr.
    cbn [g_maximum_loop1 ref_is_nil ref_pointer negb ref_tag gkind_eqb cast_node4 xch xh].
    rewrite subw8_dec. replace (Z.of_N (u8 (xlen h + 255))) with (Z.of_nat (N.to_nat (u8 (xlen h + 255)))) by lia.
    rewrite idx_refs_nat, Hr. reflexivity.
  - destruct (xwf16_inv _ _ _ Hx) as (_ & Hc & Ho & _ & Hl). cbn [xabs nlast] in Hf.
    pose proof (occ_read _ _ _ _ Ho Hl Hf) as Hr.
    cbn [g_maximum_loop1 ref_is_nil ref_pointer negb ref_tag gkind_eqb cast_node16 xch xh].
    rewrite subw8_dec. replace (Z.of_N (u8 (xlen h + 255))) with (Z.of_nat (N.to_nat (u8 (xlen h + 255)))) by lia.
    rewrite idx_refs_nat, Hr. reflexivity.
  - cbn [xabs nenum] in E0. destruct (x48_last _ _ _ _ _ _ Hx E0) as (Hb & Hz & i & Hi & Hn0 & Hc).
    cbn [g_maximum_loop1 ref_is_nil ref_pointer negb ref_tag gkind_eqb cast_node48 xch xbytes].
    change 255%Z with (Z.of_nat 255).
    rewrite (max_loop2_scan (255 - N.to_nat b0) 256 (X48 h idx ch) 255 i)
      by (cbn [xbytes]; first [lia | assumption | (intros t Ht; apply Hz; lia) | (replace (255 - (255 - N.to_nat b0))%nat with (N.to_nat b0) by lia; exact Hi)]).
    replace (255 - (255 - N.to_nat b0))%nat with (N.to_nat b0) by lia.
    rewrite idx_bytes_nat, Hi.
    replace (Z.of_N i - 1)%Z with (Z.of_nat (N.to_nat (i - 1))) by lia.
    rewrite idx_refs_nat, Hc. reflexivity.
  - cbn [xabs nenum] in E0. destruct (x256_last _ _ _ _ _ Hx E0) as (Hb & Hz & Hc).
    cbn [g_maximum_loop1 ref_is_nil ref_pointer negb ref_tag gkind_eqb cast_node256 xch].
    change 255%Z with (Z.of_nat 255).
    rewrite (max_loop3_scan (255 - N.to_nat b0) 256 (X256 h ch) 255 c0)
      by (cbn [xch]; first [lia | (intros t Ht; apply Hz; lia) | (replace (255 - (255 - N.to_nat b0))%nat with (N.to_nat b0) by lia; exact Hc)]).
    replace (255 - (255 - N.to_nat b0))%nat with (N.to_nat b0) by lia.
    rewrite idx_refs_nat, Hc. reflexivity.
Qed.

(* WF gives every inner node at least two registered children *)
Lemma WF_nenum_ne : forall d n, WF d (Inner (nabs n)) -> nenum (xabs n) <> [].
Proof.
  intros d n H E. destruct (WF_inner_inv _ _ H) as (_ & H2 & _). rewrite nenum_nabs, E in H2. cbn [map length] in H2. lia.
Qed.

Theorem gen_minimum_loop_eq : forall fuel t d, xtwf t -> WF d (tabs t) ->
  lres_map (option_map tabs) (option_map tabs) (g_minimum_loop1 fuel (Some t)) =
  match minleaf fuel (tabs t) with Some l => LRet (Some l) | None => LFuel end.
Proof.
  induction fuel as [|fuel IH]; intros t d Hxt Hwf; [reflexivity|].
  destruct t as [gk tk v|n]; [reflexivity|].
  destruct (xtwf_inv _ Hxt) as [Hx Hch]. rewrite tabs_inner in *.
  destruct (min_step n fuel Hx (WF_nenum_ne _ _ Hwf)) as (b & c & Hin & Hf & Hstep). rewrite Hstep.
  cbn [minleaf]. rewrite nabs_rmap, nfirst_rmap, Hf. cbn [omap].
  destruct (WF_child _ _ _ _ Hwf (in_nenum_nabs _ _ _ Hin)) as [Hc _].
  exact (IH c _ (Hch b c Hin) Hc).
Qed.
Theorem gen_maximum_loop_eq : forall fuel t d, xtwf t -> WF d (tabs t) ->
  lres_map (option_map tabs) (option_map tabs) (g_maximum_loop1 fuel (Some t)) =
  match maxleaf fuel (tabs t) with Some l => LRet (Some l) | None => LFuel end.
Proof.
  induction fuel as [|fuel IH]; intros t d Hxt Hwf; [reflexivity|].
  destruct t as [gk tk v|n]; [reflexivity|].
  destruct (xtwf_inv _ Hxt) as [Hx Hch]. rewrite tabs_inner in *.
  destruct (max_step n fuel Hx (WF_nenum_ne _ _ Hwf)) as (b & c & Hin & Hf & Hstep). rewrite Hstep.
  cbn [maxleaf]. rewrite nabs_rmap, nlast_rmap, Hf. cbn [omap].
  destruct (WF_child _ _ _ _ Hwf (in_nenum_nabs _ _ _ Hin)) as [Hc _].
  exact (IH c _ (Hch b c Hin) Hc).
Qed.

(* minimum(ref) on a non-nil reference to a well-formed tree: the leaf the model finds; never nil, never a
   panic (no scan runs off its array, no nil child is followed); GFuel exactly when the model's fuel runs out *)
Theorem gen_minimum_eq : forall fuel t d, xtwf t -> WF d (tabs t) ->
  gres_map (option_map tabs) (g_minimum fuel (Some t)) =
  match minleaf fuel (tabs t) with Some l => GRet (Some l) | None => GFuel end.
Proof.
  intros fuel t d Hxt Hwf. pose proof (gen_minimum_loop_eq fuel t d Hxt Hwf) as H. unfold g_minimum.
  destruct (g_minimum_loop1 fuel (Some t)) as [r|s| |]; destruct (minleaf fuel (tabs t)); cbn [lres_map gres_map] in *;
    try discriminate; try reflexivity. injection H as H. rewrite H. reflexivity.
Qed.
Theorem gen_maximum_eq : forall fuel t d, xtwf t -> WF d (tabs t) ->
  gres_map (option_map tabs) (g_maximum fuel (Some t)) =
  match maxleaf fuel (tabs t) with Some l => GRet (Some l) | None => GFuel end.
Proof.
  intros fuel t d Hxt Hwf. pose proof (gen_maximum_loop_eq fuel t d Hxt Hwf) as H. unfold g_maximum.
  destruct (g_maximum_loop1 fuel (Some t)) as [r|s| |]; destruct (maxleaf fuel (tabs t)); cbn [lres_map gres_map] in *;
    try discriminate; try reflexivity. injection H as H. rewrite H. reflexivity.
Qed.
(* the form of the brief *)
Corollary gen_minimum_opt : forall fuel t d, xtwf t -> WF d (tabs t) ->
  option_map tabs (gres_opt (g_minimum fuel (Some t))) = minleaf fuel (tabs t).
Proof.
  intros fuel t d Hxt Hwf. pose proof (gen_minimum_eq fuel t d Hxt Hwf) as H.
  destruct (g_minimum fuel (Some t)); destruct (minleaf fuel (tabs t)); cbn [gres_map gres_opt] in *;
    try discriminate; try reflexivity. injection H as H. exact H.
Qed.
Corollary gen_maximum_opt : forall fuel t d, xtwf t -> WF d (tabs t) ->
  option_map tabs (gres_opt (g_maximum fuel (Some t))) = maxleaf fuel (tabs t).
Proof.
  intros fuel t d Hxt Hwf. pose proof (gen_maximum_eq fuel t d Hxt Hwf) as H.
  destruct (g_maximum fuel (Some t)); destruct (maxleaf fuel (tabs t)); cbn [gres_map gres_opt] in *;
    try discriminate; try reflexivity. injection H as H. exact H.
Qed.

(* ================= 4. prefixMismatch ================= *)
Lemma pm_loop1_spec : forall m key d node i,
  (i + m <= length (xprefix node))%nat -> (d + i + m <= length key)%nat ->
  g_prefixMismatch_loop1 m key (Z.of_nat d) node (Z.of_nat (i + m)) (Z.of_nat i) =
  cmp_out i m (lcpn m (skipn i (xprefix node)) (skipn (d + i) key)).
Proof.
  induction m as [|m IH]; intros key d node i Hp Hk.
  - cbn [g_prefixMismatch_loop1 lcpn]. rewrite Nat.add_0_r, Z.ltb_irrefl. unfold cmp_out. cbn [Nat.eqb].
    rewrite Nat.add_0_r. reflexivity.
  - cbn [g_prefixMismatch_loop1].
    replace (Z.of_nat i <? Z.of_nat (i + S m))%Z with true by (symmetry; apply Z.ltb_lt; lia).
    replace (Z.of_nat d + Z.of_nat i)%Z with (Z.of_nat (d + i)) by lia.
    rewrite !idx_bytes_nat.
    destruct (nth_error_lt_some (xprefix node) i ltac:(lia)) as [x Ex].
    destruct (nth_error_lt_some key (d + i) ltac:(lia)) as [y Ey].
    rewrite Ex, Ey, (skipn_cons_nth _ _ _ Ex), (skipn_cons_nth _ _ _ Ey). cbn [lcpn].
    destruct (x =? y); cbn [negb].
    + replace (Z.of_nat i + 1)%Z with (Z.of_nat (S i)) by lia.
      replace (i + S m)%nat with (S i + m)%nat by lia.
      replace (S (d + i)) with (d + S i)%nat by lia.
      rewrite IH by lia. unfold cmp_out. cbn [Nat.eqb].
      replace (S i + lcpn m (skipn (S i) (xprefix node)) (skipn (d + S i) key))%nat
        with (i + S (lcpn m (skipn (S i) (xprefix node)) (skipn (d + S i) key)))%nat by lia.
      reflexivity.
    + unfold cmp_out. cbn [Nat.eqb]. rewrite Nat.add_0_r. reflexivity.
Qed.
Lemma pm_loop1_stop : forall fuel key d node maxCmp idx, (maxCmp <= idx)%Z ->
  g_prefixMismatch_loop1 fuel key d node maxCmp idx = LDone idx.
Proof.
  intros fuel key d node maxCmp idx H.
  destruct fuel; cbn [g_prefixMismatch_loop1];
    (replace (idx <? maxCmp)%Z with false by (symmetry; apply Z.ltb_ge; lia)); reflexivity.
Qed.
Lemma pm_loop2_spec : forall m key d leafKey i,
  (d + i + m <= length leafKey)%nat -> (d + i + m <= length key)%nat ->
  g_prefixMismatch_loop2 m key (Z.of_nat d) (Z.of_nat (i + m)) leafKey (Z.of_nat i) =
  cmp_out i m (lcpn m (skipn (d + i) leafKey) (skipn (d + i) key)).
Proof.
  induction m as [|m IH]; intros key d leafKey i Hp Hk.
  - cbn [g_prefixMismatch_loop2 lcpn]. rewrite Nat.add_0_r, Z.ltb_irrefl. unfold cmp_out. cbn [Nat.eqb].
    rewrite Nat.add_0_r. reflexivity.
  - cbn [g_prefixMismatch_loop2].
    replace (Z.of_nat i <? Z.of_nat (i + S m))%Z with true by (symmetry; apply Z.ltb_lt; lia).
    replace (Z.of_nat d + Z.of_nat i)%Z with (Z.of_nat (d + i)) by lia.
    rewrite !idx_bytes_nat.
    destruct (nth_error_lt_some leafKey (d + i) ltac:(lia)) as [x Ex].
    destruct (nth_error_lt_some key (d + i) ltac:(lia)) as [y Ey].
    rewrite Ex, Ey, (skipn_cons_nth _ _ _ Ex), (skipn_cons_nth _ _ _ Ey). cbn [lcpn].
    destruct (x =? y); cbn [negb].
    + replace (Z.of_nat i + 1)%Z with (Z.of_nat (S i)) by lia.
      replace (i + S m)%nat with (S i + m)%nat by lia.
      replace (S (d + i)) with (d + S i)%nat by lia.
      rewrite IH by lia. unfold cmp_out. cbn [Nat.eqb].
      replace (S i + lcpn m (skipn (d + S i) leafKey) (skipn (d + S i) key))%nat
        with (i + S (lcpn m (skipn (d + S i) leafKey) (skipn (d + S i) key)))%nat by lia.
      reflexivity.
    + unfold cmp_out. cbn [Nat.eqb]. rewrite Nat.add_0_r. reflexivity.
Qed.
Lemma pm_loop2_stop : forall fuel key d leafKey maxCmp idx, (maxCmp <= idx)%Z ->
  g_prefixMismatch_loop2 fuel key d maxCmp leafKey idx = LDone idx.
Proof.
  intros fuel key d leafKey maxCmp idx H.
  destruct fuel; cbn [g_prefixMismatch_loop2];
    (replace (idx <? maxCmp)%Z with false by (symmetry; apply Z.ltb_ge; lia)); reflexivity.
Qed.

(* the two loops with the bounds and budgets the function gives them, depth beyond the key included *)
Lemma pm_loop1_full : forall key depth node, length (xprefix node) = maxPrefixLen ->
  let m1 := Nat.min (Nat.min maxPrefixLen (xplen node)) (length key - depth) in
  let maxCmp := Z.min (Z.of_N (N.min g_maxPrefixLen (hdr_prefixLen node))) (Z.of_nat (length key) - Z.of_nat depth) in
  g_prefixMismatch_loop1 (Z.to_nat (maxCmp - 0)) key (Z.of_nat depth) node maxCmp 0%Z =
  cmp_out 0 m1 (lcpn m1 (xprefix node) (skipn depth key)).
Proof.
  intros key depth node Hl m1 maxCmp. subst maxCmp. unfold hdr_prefixLen. rewrite g_maxPrefixLen_val.
  destruct (Nat.le_gt_cases depth (length key)) as [Hle|Hgt].
  - replace (Z.min (Z.of_N (N.min (N.of_nat maxPrefixLen) (N.of_nat (xplen node))))
               (Z.of_nat (length key) - Z.of_nat depth)) with (Z.of_nat (0 + m1)) by lia.
    replace (Z.to_nat (Z.of_nat (0 + m1) - 0)) with m1 by lia. change 0%Z with (Z.of_nat 0).
    rewrite pm_loop1_spec by lia. cbn [skipn]. rewrite Nat.add_0_r. reflexivity.
  - rewrite pm_loop1_stop by lia. replace m1 with 0%nat by lia. reflexivity.
Qed.
Lemma pm_loop2_full : forall key depth leafKey i,
  let m2 := (Nat.min (length leafKey) (length key) - depth - i)%nat in
  let maxCmp := (Z.min (Z.of_nat (length leafKey)) (Z.of_nat (length key)) - Z.of_nat depth)%Z in
  g_prefixMismatch_loop2 (Z.to_nat (maxCmp - Z.of_nat i)) key (Z.of_nat depth) maxCmp leafKey (Z.of_nat i) =
  cmp_out i m2 (lcpn m2 (skipn (depth + i) leafKey) (skipn (depth + i) key)).
Proof.
  intros key depth leafKey i m2 maxCmp. subst maxCmp.
  destruct (Nat.le_gt_cases (depth + i) (Nat.min (length leafKey) (length key))) as [Hle|Hgt].
  - replace (Z.min (Z.of_nat (length leafKey)) (Z.of_nat (length key)) - Z.of_nat depth)%Z with (Z.of_nat (i + m2)) by lia.
    replace (Z.to_nat (Z.of_nat (i + m2) - Z.of_nat i)) with m2 by lia.
    rewrite pm_loop2_spec by lia. reflexivity.
  - rewrite pm_loop2_stop by lia. replace m2 with 0%nat by lia. unfold cmp_out. cbn [lcpn Nat.eqb].
    rewrite Nat.add_0_r. reflexivity.
Qed.

Lemma tabs_leaf_inv : forall x gk tk v, tabs x = Leaf gk tk v -> x = XLeaf gk tk v.
Proof. intros [gk' tk' v'|n] gk tk v H; cbn [tabs] in H; [injection H as -> -> ->; reflexivity|discriminate]. Qed.

(* minimum(n) is called with the budget of the caller; the height of the tree is enough (Model.Tree.minimum uses
   exactly the height).  The leaf's transform key is long enough wherever it is indexed. *)
Theorem gen_prefixMismatch_eq : forall fuel n key depth d,
  xtwf (XInner n) -> WF d (Inner (nabs n)) -> (theight (Inner (nabs n)) <= fuel)%nat ->
  g_prefixMismatch fuel (Some (XInner n)) key (Z.of_nat depth) = GRet (Z.of_nat (prefixMismatch (nabs n) key depth)).
Proof.
  intros fuel n key depth d Hxt Hwf Hfuel. destruct (xtwf_inv _ Hxt) as [Hx _].
  pose proof (xwf_prefix_len n Hx) as Hpl.
  unfold g_prefixMismatch, prefixMismatch, pl_cap. cbn [ref_node]. cbv zeta.
  rewrite nhdr_nabs. cbn [xabs_hdr prefix prefixLen].
  rewrite (pm_loop1_full key depth (xh n) Hpl). cbv zeta.
  set (m1 := Nat.min (Nat.min maxPrefixLen (xplen (xh n))) (length key - depth)).
  set (c := lcpn m1 (xprefix (xh n)) (skipn depth key)).
  pose proof (lcpn_le m1 (xprefix (xh n)) (skipn depth key)) as Hc. fold c in Hc.
  unfold cmp_out. destruct (Nat.eqb_spec c m1) as [Ec|Ec].
  2:{ replace (c <? m1)%nat with true by (symmetry; apply Nat.ltb_lt; lia). reflexivity. }
  replace (c <? m1)%nat with false by (symmetry; apply Nat.ltb_ge; lia).
  replace (g_maxPrefixLen <? hdr_prefixLen (xh n)) with (maxPrefixLen <? xplen (xh n))%nat.
  2:{ unfold hdr_prefixLen. rewrite g_maxPrefixLen_val.
      destruct (Nat.ltb_spec maxPrefixLen (xplen (xh n))); destruct (N.ltb_spec (N.of_nat maxPrefixLen) (N.of_nat (xplen (xh n)))); try reflexivity; lia. }
  destruct (maxPrefixLen <? xplen (xh n))%nat; [|reflexivity].
  (* the optimistic re-read of the minimum leaf *)
  pose proof (gen_minimum_eq fuel (XInner n) d Hxt Hwf) as Hmin. rewrite tabs_inner in Hmin.
  unfold minimum. rewrite (minleaf_spec _ d _ (Nat.le_refl _) Hwf).
  rewrite (minleaf_spec _ d _ Hfuel Hwf) in Hmin.
  destruct (hd_error (leaves (Inner (nabs n)))) as [[[gk tk] v]|] eqn:El.
  2:{ exfalso. apply (WF_nonempty _ _ Hwf). destruct (leaves (Inner (nabs n))); [reflexivity|discriminate]. }
  cbn [option_map to_leaf] in *.
  destruct (g_minimum fuel (Some (XInner n))) as [[x|]| |]; cbn [gres_map option_map] in Hmin; try discriminate.
  injection Hmin as Hmin. apply tabs_leaf_inv in Hmin. subst x.
  cbn [cast_leaf xleaf_tk leaf_tk]. rewrite Nat.add_0_l.
  change (ltk (gk, tk, v)) with tk. change (leaf_tk (to_leaf (gk, tk, v))) with tk.
  rewrite (pm_loop2_full key depth tk c). cbv zeta. rewrite Ec.
  unfold cmp_out.
  destruct (_ =? _)%nat; reflexivity.
Qed.

(* ================= 5. the six Search methods ================= *)
(* after the loop every Search method returns (zero value, false) *)
Definition lfin {S} (r : lres sres S) : gres sres :=
  match r with LRet x => GRet x | LDone _ => GRet SAbsent | LPanic => GPanic | LFuel => GFuel end.
(* the model's out-of-fuel result is the translation's GFuel *)
Definition gres_of_sres (r : sres) : gres sres := match r with SFuel => GFuel | x => GRet x end.

Lemma idx_refs_slot : forall (ch : list (option xtree)) i, (0 <= i)%Z -> (Z.to_nat i < length ch)%nat ->
  idx_refs ch i = Some (slot ch (Z.to_nat i)).
Proof.
  intros ch i H0 Hl. unfold idx_refs, slot, gref. destruct (Z.ltb_spec i 0); [lia|].
  destruct (nth_error_lt_some ch (Z.to_nat i) Hl) as [s Es]. rewrite Es. reflexivity.
Qed.
Lemma idx_bytes_N : forall l b, (N.to_nat b < length l)%nat -> idx_bytes l (Z.of_N b) = Some (nth (N.to_nat b) l 0).
Proof.
  intros l b H. unfold idx_bytes. destruct (Z.ltb_spec (Z.of_N b) 0); [lia|]. replace (Z.to_nat (Z.of_N b)) with (N.to_nat b) by lia.
  apply nth_error_nth'. exact H.
Qed.
Lemma subw8_pred : forall i, i <> 0 -> i < 256 -> subw 8 i 1 = i - 1.
Proof. intros i H0 H. rewrite subw8_dec. unfold u8. replace (i + 255) with (i - 1 + 1 * 256) by lia. rewrite N.mod_add by lia. apply N.mod_small. lia. Qed.

(* the raw facts one iteration of Search reads at a node48 *)
Lemma xwf48_inv : forall {C} h idx (ch : list (option C)), xwf (X48 h idx ch) ->
  length idx = 256%nat /\ length ch = 48%nat /\
  forall b, (b < 256)%nat -> nth b idx 0 = 0 \/ (1 <= nth b idx 0 <= 48).
Proof.
  intros C h idx ch (_ & _ & Hn). cbn [xabs] in Hn. destruct Hn as (_ & Hli & Hlc & Hinv & _).
  split; [exact Hli|]. split; [exact Hlc|]. intros b Hb. specialize (Hinv b Hb). cbv zeta in Hinv.
  destruct Hinv as [Hz|(H1 & H2 & _)]; [left; exact Hz|right; lia].
Qed.
Lemma xwf256_inv : forall {C} h (ch : list (option C)), xwf (X256 h ch) -> length ch = 256%nat.
Proof. intros C h ch (_ & _ & Hn). cbn [xabs] in Hn. destruct Hn as (_ & Hlc & _). exact Hlc. Qed.
Lemma xwf16_keys : forall {C} h keys (ch : list (option C)), xwf (X16 h keys ch) ->
  length keys = 16%nat /\ Forall (fun x => x < 256) keys /\ xlen h <= 16.
Proof.
  intros C h keys ch Hx. destruct (xwf16_inv _ _ _ Hx) as (Hk & _ & _ & Hm & _).
  destruct Hx as (_ & _ & Hn). cbn [xabs] in Hn. destruct Hn as (_ & _ & HF & _).
  split; [exact Hk|]. split; [exact HF|]. lia.
Qed.

(* ---- one iteration of a Search loop against one step of xsearch, as tactics: the six loops are six
   different regenerated Fixpoints, each gets its own theorem, proved by the same script ---- *)
(* the compressed-path test of one iteration: both sides either answer "absent" or go on at depth + prefixLen *)
Ltac prefix_split h keyS d Hpl :=
  let Ep := fresh "Ep" in
  destruct (Nat.eqb_spec (xplen h) 0) as [Ep|Ep];
  [ replace (hdr_prefixLen h =? 0) with true by (symmetry; apply N.eqb_eq; unfold hdr_prefixLen; lia)
  | replace (hdr_prefixLen h =? 0) with false by (symmetry; apply N.eqb_neq; unfold hdr_prefixLen; lia);
    rewrite (gen_checkPrefix_eq h keyS d Hpl);
    replace (Z.of_nat (checkPrefix (xabs_hdr h) keyS d) =? Z.of_N (N.min g_maxPrefixLen (hdr_prefixLen h)))%Z
      with (checkPrefix (xabs_hdr h) keyS d =? pl_cap (xabs_hdr h))%nat
      by (unfold pl_cap, hdr_prefixLen; cbn [xabs_hdr prefixLen]; rewrite g_maxPrefixLen_val;
          match goal with |- (?a =? ?b)%nat = (?x =? ?y)%Z =>
            destruct (Nat.eqb_spec a b); destruct (Z.eqb_spec x y); try reflexivity; lia end);
    destruct (checkPrefix (xabs_hdr h) keyS d =? pl_cap (xabs_hdr h))%nat; cbn [negb andb]; [|reflexivity] ];
  cbn [negb andb].

(* depth >= len(key) / b := key[depth] *)
Ltac key_byte keyS Hkb :=
  match goal with |- context [idx_bytes keyS ?D] =>
    match goal with |- context [nth_error keyS ?d'] =>
      replace D with (Z.of_nat d') by (unfold hdr_prefixLen in *; lia);
      let b := fresh "b" in let Eb := fresh "Eb" in
      destruct (nth_error keyS d') as [b|] eqn:Eb;
      [ assert (Hd' : (d' < length keyS)%nat) by (apply nth_error_Some; rewrite Eb; discriminate);
        replace (Z.of_nat (length keyS) <=? Z.of_nat d')%Z with false by (symmetry; apply Z.leb_gt; lia);
        rewrite idx_bytes_nat, Eb; pose proof (nth_byte _ _ _ Hkb Eb) as Hb
      | apply nth_error_None in Eb;
        replace (Z.of_nat (length keyS) <=? Z.of_nat d')%Z with true by (symmetry; apply Z.leb_le; lia);
        reflexivity ] end end.


(* the four cases of the inlined switch n.tag against xfind; Hrec is the induction hypothesis at the child *)
Ltac kind4 Hx Hrec :=
  match goal with |- context [xfind (X4 ?h ?keys ?ch) ?b] =>
    let Hk := fresh "Hk" in
    assert (Hk : keys < M32) by (destruct Hx as (_ & _ & Hn); cbn [xabs] in Hn; destruct Hn as (_ & Hk' & _); exact Hk');
    rewrite (gen_searchNode4_eq keys b Hk ltac:(assumption));
    pose proof (searchNode4_ge keys b) as Hge;
    destruct (xwf4_inv _ _ _ Hx) as (Hc4 & _ & Hm4 & _);
    let Ec := fresh "Ec" in
    destruct (negb (searchNode4 keys b =? -1)%Z && (searchNode4 keys b <? Z.of_N (xlen h))%Z) eqn:Ec;
    [ assert (Hf : xfind (X4 h keys ch) b = slot ch (Z.to_nat (searchNode4 keys b))) by (cbn [xfind]; rewrite Ec; reflexivity);
      apply andb_prop in Ec; destruct Ec as [Ec1 Ec2]; apply negb_true_iff, Z.eqb_neq in Ec1; apply Z.ltb_lt in Ec2;
      rewrite idx_refs_slot by lia; rewrite <- Hf; apply Hrec
    | assert (Hf : xfind (X4 h keys ch) b = None) by (cbn [xfind]; rewrite Ec; reflexivity);
      rewrite Hf; reflexivity ] end.

Ltac kind16 Hx Hrec :=
  match goal with |- context [xfind (X16 ?h ?keys ?ch) ?b] =>
    destruct (xwf16_keys _ _ _ Hx) as (Hk16 & HF16 & Hl16);
    destruct (xwf16_inv _ _ _ Hx) as (_ & Hc16 & _ & Hm16 & _);
    rewrite (gen_searchNode16_eq keys (xlen h) b Hk16 HF16 ltac:(assumption) Hl16);
    let E := fresh "E" in let k := fresh "k" in let Hlt := fresh "Hlt" in
    destruct (search16_cases keys (xlen h) b Hk16 Hl16) as [E|(k & E & Hlt)];
    [ assert (Hf : xfind (X16 h keys ch) b = None) by (cbn [xfind]; rewrite E; reflexivity);
      rewrite E, Hf; reflexivity
    | assert (Hf : xfind (X16 h keys ch) b = slot ch (Z.to_nat (Z.of_nat k)))
        by (cbn [xfind]; rewrite E; destruct (Z.eqb_spec (Z.of_nat k) (-1)); [lia|reflexivity]);
      rewrite E; destruct (Z.eqb_spec (Z.of_nat k) (-1)); [lia|]; cbn [negb];
      rewrite idx_refs_slot by lia; rewrite <- Hf; apply Hrec ] end.

Ltac kind48 Hx Hrec :=
  match goal with |- context [xfind (X48 ?h ?idx ?ch) ?b] =>
    destruct (xwf48_inv _ _ _ Hx) as (Hli & Hlc & Hinv);
    rewrite idx_bytes_N by lia;
    let Hz := fresh "Hz" in let Hr := fresh "Hr" in
    destruct (Hinv (N.to_nat b) ltac:(lia)) as [Hz|Hr];
    [ assert (Hf : xfind (X48 h idx ch) b = None) by (cbn [xfind]; rewrite Hz; reflexivity);
      rewrite Hz, Hf; reflexivity
    | assert (Hf : xfind (X48 h idx ch) b = slot ch (N.to_nat (nth (N.to_nat b) idx 0 - 1)))
        by (cbn [xfind]; destruct (N.eqb_spec (nth (N.to_nat b) idx 0) 0); [lia|reflexivity]);
      destruct (N.eqb_spec (nth (N.to_nat b) idx 0) 0); [lia|]; cbn [negb];
      rewrite subw8_pred by lia; rewrite idx_refs_slot by lia;
      replace (Z.to_nat (Z.of_N (nth (N.to_nat b) idx 0 - 1))) with (N.to_nat (nth (N.to_nat b) idx 0 - 1)) by lia;
      rewrite <- Hf; apply Hrec ] end.

Ltac kind256 Hx Hrec :=
  match goal with |- context [xfind (X256 ?h ?ch) ?b] =>
    pose proof (xwf256_inv _ _ Hx) as Hlc;
    rewrite !idx_refs_slot by lia;
    replace (Z.to_nat (Z.of_N b)) with (N.to_nat b) by lia;
    assert (Hf : xfind (X256 h ch) b = slot ch (N.to_nat b)) by reflexivity;
    let c := fresh "c" in let Es := fresh "Es" in
    destruct (slot ch (N.to_nat b)) as [c|] eqn:Es;
    [ cbn [ref_pointer ref_is_nil negb]; rewrite <- Hf; apply Hrec
    | rewrite Hf; reflexivity ] end.


(* an iteration at an inner node n: Lf is the loop with its invariant arguments applied at the smaller fuel,
   gk / tk the key compared at the leaf / followed by the descent *)
Ltac search_inner loop Lf gk tk nil_lemma IH Hxt Hkb n d fuel :=
  let Hx := fresh "Hx" in let Hch := fresh "Hch" in let Hpl := fresh "Hpl" in let Hrec := fresh "Hrec" in
  destruct (xtwf_inv _ Hxt) as [Hx Hch]; pose proof (xwf_prefix_len n Hx) as Hpl;
  assert (Hrec : forall b d',
    lfin (Lf (xfind n b) (Z.of_nat d' + 1)%Z) =
    gres_of_sres (match xfind n b with None => SAbsent | Some c => xsearch fuel c gk tk (S d') end))
  by (let b := fresh "b" in let d' := fresh "d'" in let c := fresh "c" in let Hs := fresh "Hs" in
      intros b d'; destruct (xfind n b) as [c|] eqn:Hs;
      [ replace (Z.of_nat d' + 1)%Z with (Z.of_nat (S d')) by lia; apply IH; [|exact Hkb];
        let b' := fresh "b'" in let Hin := fresh "Hin" in
        destruct (xfind_child n b c Hx Hs) as [b' Hin]; exact (Hch b' c Hin)
      | rewrite nil_lemma; reflexivity ]);
  let h := fresh "h" in let keys := fresh "keys" in let ch := fresh "ch" in let idx := fresh "idx" in
  destruct n as [h keys ch|h keys ch|h idx ch|h ch];
  cbn [loop ref_is_nil ref_pointer negb ref_tag gkind_eqb ref_node xh
       cast_node4 cast_node16 cast_node48 cast_node256 xword xbytes xch xsearch xabs_hdr prefixLen prefix] in *;
  [ prefix_split h tk d Hpl; key_byte tk Hkb; kind4 Hx Hrec
  | prefix_split h tk d Hpl; key_byte tk Hkb; kind16 Hx Hrec
  | prefix_split h tk d Hpl; key_byte tk Hkb; kind48 Hx Hrec
  | prefix_split h tk d Hpl; key_byte tk Hkb; kind256 Hx Hrec ].

Ltac search_leaf loop gk :=
  cbn [loop ref_is_nil ref_pointer negb ref_tag gkind_eqb cast_leaf xleaf_gk xleaf_v xsearch];
  match goal with |- context [beq ?lgk gk] => destruct (beq lgk gk); reflexivity end.

(* the Definition after the loop: n := t.root; depth := 0; loop; return notFound, false *)
Ltac search_top loop_eq loop :=
  match goal with |- _ = gres_of_sres ?X => idtac end;
  cbv zeta;
  match goal with |- match ?L with _ => _ end = _ =>
    let E := fresh "E" in pose proof loop_eq as E; cbn [Z.of_nat] in E;
    destruct L as [?r|[?n0 ?d0]| |]; exact E end.

(* ---- alphaSortedTree ---- *)
Lemma alpha_loop_nil : forall fuel keyS d, g_alpha_search_loop1 fuel keyS None d = LDone (None, d).
Proof. intros [|fuel] keyS d; reflexivity. Qed.
Theorem gen_alpha_search_loop_eq : forall fuel t keyS d, xtwf t -> isbytes keyS = true ->
  lfin (g_alpha_search_loop1 fuel keyS (Some t) (Z.of_nat d)) = gres_of_sres (xsearch fuel t keyS keyS d).
Proof.
  induction fuel as [|fuel IH]; intros t keyS d Hxt Hkb; [reflexivity|].
  destruct t as [lgk ltk lv|n]; [search_leaf g_alpha_search_loop1 keyS|].
  search_inner g_alpha_search_loop1 (g_alpha_search_loop1 fuel keyS) keyS keyS alpha_loop_nil IH Hxt Hkb n d fuel.
Qed.
Theorem gen_alpha_search_eq : forall fuel t keyS, xtwf t -> isbytes keyS = true ->
  g_alpha_search fuel (Some t) keyS = gres_of_sres (xsearch fuel t keyS keyS 0).
Proof.
  intros fuel t keyS Hxt Hkb. unfold g_alpha_search.
  search_top (gen_alpha_search_loop_eq fuel t keyS 0 Hxt Hkb) g_alpha_search_loop1.
Qed.

(* ---- unsignedSortedTree ---- *)
Lemma unsigned_loop_nil : forall fuel keyS d, g_unsigned_search_loop1 fuel keyS None d = LDone (None, d).
Proof. intros [|fuel] keyS d; reflexivity. Qed.
Theorem gen_unsigned_search_loop_eq : forall fuel t keyS d, xtwf t -> isbytes keyS = true ->
  lfin (g_unsigned_search_loop1 fuel keyS (Some t) (Z.of_nat d)) = gres_of_sres (xsearch fuel t keyS keyS d).
Proof.
  induction fuel as [|fuel IH]; intros t keyS d Hxt Hkb; [reflexivity|].
  destruct t as [lgk ltk lv|n]; [search_leaf g_unsigned_search_loop1 keyS|].
  search_inner g_unsigned_search_loop1 (g_unsigned_search_loop1 fuel keyS) keyS keyS unsigned_loop_nil IH Hxt Hkb n d fuel.
Qed.
Theorem gen_unsigned_search_eq : forall fuel t keyS, xtwf t -> isbytes keyS = true ->
  g_unsigned_search fuel (Some t) keyS = gres_of_sres (xsearch fuel t keyS keyS 0).
Proof.
  intros fuel t keyS Hxt Hkb. unfold g_unsigned_search.
  search_top (gen_unsigned_search_loop_eq fuel t keyS 0 Hxt Hkb) g_unsigned_search_loop1.
Qed.

(* ---- signedSortedTree ---- *)
Lemma signed_loop_nil : forall fuel keyS d, g_signed_search_loop1 fuel keyS None d = LDone (None, d).
Proof. intros [|fuel] keyS d; reflexivity. Qed.
Theorem gen_signed_search_loop_eq : forall fuel t keyS d, xtwf t -> isbytes keyS = true ->
  lfin (g_signed_search_loop1 fuel keyS (Some t) (Z.of_nat d)) = gres_of_sres (xsearch fuel t keyS keyS d).
Proof.
  induction fuel as [|fuel IH]; intros t keyS d Hxt Hkb; [reflexivity|].
  destruct t as [lgk ltk lv|n]; [search_leaf g_signed_search_loop1 keyS|].
  search_inner g_signed_search_loop1 (g_signed_search_loop1 fuel keyS) keyS keyS signed_loop_nil IH Hxt Hkb n d fuel.
Qed.
Theorem gen_signed_search_eq : forall fuel t keyS, xtwf t -> isbytes keyS = true ->
  g_signed_search fuel (Some t) keyS = gres_of_sres (xsearch fuel t keyS keyS 0).
Proof.
  intros fuel t keyS Hxt Hkb. unfold g_signed_search.
  search_top (gen_signed_search_loop_eq fuel t keyS 0 Hxt Hkb) g_signed_search_loop1.
Qed.

(* ---- floatSortedTree ---- *)
Lemma float_loop_nil : forall fuel keyS d, g_float_search_loop1 fuel keyS None d = LDone (None, d).
Proof. intros [|fuel] keyS d; reflexivity. Qed.
Theorem gen_float_search_loop_eq : forall fuel t keyS d, xtwf t -> isbytes keyS = true ->
  lfin (g_float_search_loop1 fuel keyS (Some t) (Z.of_nat d)) = gres_of_sres (xsearch fuel t keyS keyS d).
Proof.
  induction fuel as [|fuel IH]; intros t keyS d Hxt Hkb; [reflexivity|].
  destruct t as [lgk ltk lv|n]; [search_leaf g_float_search_loop1 keyS|].
  search_inner g_float_search_loop1 (g_float_search_loop1 fuel keyS) keyS keyS float_loop_nil IH Hxt Hkb n d fuel.
Qed.
Theorem gen_float_search_eq : forall fuel t keyS, xtwf t -> isbytes keyS = true ->
  g_float_search fuel (Some t) keyS = gres_of_sres (xsearch fuel t keyS keyS 0).
Proof.
  intros fuel t keyS Hxt Hkb. unfold g_float_search.
  search_top (gen_float_search_loop_eq fuel t keyS 0 Hxt Hkb) g_float_search_loop1.
Qed.

(* ---- compoundSortedTree ---- *)
Lemma compound_loop_nil : forall fuel keyS d, g_compound_search_loop1 fuel keyS None d = LDone (None, d).
Proof. intros [|fuel] keyS d; reflexivity. Qed.
Theorem gen_compound_search_loop_eq : forall fuel t keyS d, xtwf t -> isbytes keyS = true ->
  lfin (g_compound_search_loop1 fuel keyS (Some t) (Z.of_nat d)) = gres_of_sres (xsearch fuel t keyS keyS d).
Proof.
  induction fuel as [|fuel IH]; intros t keyS d Hxt Hkb; [reflexivity|].
  destruct t as [lgk ltk lv|n]; [search_leaf g_compound_search_loop1 keyS|].
  search_inner g_compound_search_loop1 (g_compound_search_loop1 fuel keyS) keyS keyS compound_loop_nil IH Hxt Hkb n d fuel.
Qed.
Theorem gen_compound_search_eq : forall fuel t keyS, xtwf t -> isbytes keyS = true ->
  g_compound_search fuel (Some t) keyS = gres_of_sres (xsearch fuel t keyS keyS 0).
Proof.
  intros fuel t keyS Hxt Hkb. unfold g_compound_search.
  search_top (gen_compound_search_loop_eq fuel t keyS 0 Hxt Hkb) g_compound_search_loop1.
Qed.

(* ---- collationSortedTree: the leaf is compared with the original key, the descent follows the collation key ---- *)
Lemma collation_loop_nil : forall fuel keyS colKey d, g_collation_search_loop1 fuel keyS colKey None d = LDone (None, d).
Proof. intros [|fuel] keyS colKey d; reflexivity. Qed.
Theorem gen_collation_search_loop_eq : forall fuel t keyS colKey d, xtwf t -> isbytes colKey = true ->
  lfin (g_collation_search_loop1 fuel keyS colKey (Some t) (Z.of_nat d)) = gres_of_sres (xsearch fuel t keyS colKey d).
Proof.
  induction fuel as [|fuel IH]; intros t keyS colKey d Hxt Hkb; [reflexivity|].
  destruct t as [lgk ltk lv|n]; [search_leaf g_collation_search_loop1 keyS|].
  search_inner g_collation_search_loop1 (g_collation_search_loop1 fuel keyS colKey) keyS colKey collation_loop_nil IH Hxt Hkb n d fuel.
Qed.
Theorem gen_collation_search_eq : forall fuel t keyS colKey, xtwf t -> isbytes colKey = true ->
  g_collation_search fuel (Some t) keyS colKey = gres_of_sres (xsearch fuel t keyS colKey 0).
Proof.
  intros fuel t keyS colKey Hxt Hkb. unfold g_collation_search.
  search_top (gen_collation_search_loop_eq fuel t keyS colKey 0 Hxt Hkb) g_collation_search_loop1.
Qed.

(* ---- the key preparation ---- *)
Theorem gen_alpha_search_key_eq : forall l,
  g_alpha_search_key l = fst (Api.transform KAlpha (AB l)) /\ g_alpha_search_key l = snd (Api.transform KAlpha (AB l)).
Proof. intros l. split; reflexivity. Qed.
Theorem gen_plain_search_key_eq : forall k,
  g_unsigned_search_key k = k /\ g_signed_search_key k = k /\ g_float_search_key k = k /\ g_compound_search_key k = k.
Proof. intros k. repeat split. Qed.
Theorem gen_collation_search_key_eq : forall o c, g_collation_search_key o c = Api.transform KCollation (AC o c).
Proof. reflexivity. Qed.

(* ================= 6. against Model/Tree.v directly ================= *)
(* with PoolTreeFacts.xsearch_sim: the regenerated Search IS Model.Tree.search on the abstraction *)
Corollary gen_alpha_search_model : forall fuel t keyS, xtwf t -> isbytes keyS = true ->
  g_alpha_search fuel (Some t) keyS = gres_of_sres (search fuel (tabs t) keyS keyS 0).
Proof. intros fuel t keyS Hxt Hkb. rewrite <- xsearch_sim by exact Hxt. apply gen_alpha_search_eq; assumption. Qed.
Corollary gen_collation_search_model : forall fuel t keyS colKey, xtwf t -> isbytes colKey = true ->
  g_collation_search fuel (Some t) keyS colKey = gres_of_sres (search fuel (tabs t) keyS colKey 0).
Proof. intros fuel t keyS colKey Hxt Hkb. rewrite <- xsearch_sim by exact Hxt. apply gen_collation_search_eq; assumption. Qed.

(* ================= 7. the hypotheses are satisfiable, and necessary ================= *)
(* every state a history of method calls reaches satisfies both hypotheses (they are the invariants
   PoolTreeFacts.xstep_sim runs under: sinv and root_wf) *)
Theorem hyps_reachable : forall k ops t, history_ok k ops = true ->
  xroot (fst (xalone k xinit ops)) = Some t -> xtwf t /\ WF 0 (tabs t).
Proof.
  intros k ops t Hok Hr.
  destruct (xalone_sim ops k xinit I (wf_hist_history_ok k ops Hok)) as (_ & Hs & Hinv).
  split.
  - unfold sinv in Hinv. rewrite Hr in Hinv. exact Hinv.
  - pose proof (rep_after k ops Hok) as [Hrep _]. unfold st_of in Hrep.
    change (sabs xinit) with Api.init in Hs. rewrite <- Hs, sabs_root, Hr in Hrep. apply Hrep.
Qed.

(* a raw tree whose root is a node48 with 17 children, one of them an inner node4 chain *)
Definition ex_ops : list op :=
  map (fun i => Insert (AB [N.of_nat i]) (Z.of_nat i)) (seq 1 17) ++
  [Insert (AB [5; 7; 1]) 100%Z; Insert (AB [5; 7; 2]) 101%Z].
Definition ex_tree : xtree :=
  match xroot (fst (xalone KAlpha xinit ex_ops)) with Some t => t | None => XLeaf [] [] 0 end.
Example ex_tree_node48 : match ex_tree with XInner (X48 h _ _) => xlen h = 17 | _ => False end.
Proof. vm_compute. reflexivity. Qed.
Example ex_tree_hyps : xtwf ex_tree /\ WF 0 (tabs ex_tree).
Proof. apply (hyps_reachable KAlpha ex_ops); vm_compute; reflexivity. Qed.
Example ex_tree_runs :
  g_alpha_search 10 (Some ex_tree) [5; 7; 2; 0] = GRet (SFound 101) /\
  g_alpha_search 10 (Some ex_tree) [5; 7; 3; 0] = GRet SAbsent /\
  g_collation_search 10 (Some ex_tree) [17; 0] [17; 0] = GRet (SFound 17) /\
  g_minimum 10 (Some ex_tree) = GRet (Some (XLeaf [1; 0] [1; 0] 1)) /\
  g_maximum 10 (Some ex_tree) = GRet (Some (XLeaf [17; 0] [17; 0] 17)) /\
  g_maximum 1 (Some ex_tree) = GFuel.
Proof. vm_compute. repeat split. Qed.

(* a compressed path longer than the inline limit: prefixMismatch has to re-read the minimum leaf *)
Definition ex_long_ops : list op :=
  [Insert (AB [1;1;1;1;1;1;1;1;1;1;1;1;1;2]) 1%Z; Insert (AB [1;1;1;1;1;1;1;1;1;1;1;1;1;3]) 2%Z].
Definition ex_long : xtree :=
  match xroot (fst (xalone KAlpha xinit ex_long_ops)) with Some t => t | None => XLeaf [] [] 0 end.
Example ex_long_hyps : xtwf ex_long /\ WF 0 (tabs ex_long) /\
  match ex_long with XInner n => xplen (xh n) = 13%nat | _ => False end.
Proof.
  split; [|split]; [apply (hyps_reachable KAlpha ex_long_ops); vm_compute; reflexivity ..|vm_compute; reflexivity].
Qed.
Example ex_long_runs :
  g_prefixMismatch 5 (Some ex_long) [1;1;1;1;1;1;1;1;1;1;1;9;0] 0 = GRet 11%Z /\
  g_prefixMismatch 5 (Some ex_long) [1;1;1;1;1;1;1;1;1;1;1;1;1;4;0] 0 = GRet 13%Z /\
  g_prefixMismatch 5 (Some ex_long) [1;1;1;9] 0 = GRet 3%Z /\
  g_checkPrefix (match ex_long with XInner n => xh n | _ => xhdr0 end) [1;1;1;1;1;1;1;1;1;1;1;9;0] 0 = GRet 10%Z.
Proof. vm_compute. repeat split. Qed.

(* WF is needed for minimum / maximum: xtwf alone allows an EMPTY node4 (the state between Get and the first
   addChild); the Go code then follows whatever children[0] holds, the model (occupied cells only) finds
   nothing.  No reachable tree contains such a node (WF: at least two children). *)
Definition ex_stale : xtree := XInner (X4 xhdr0 0 [Some (XLeaf [9] [9] 9); None; None; None]).
Example ex_stale_xtwf : xtwf ex_stale.
Proof.
  apply xtwf_inner.
  - split; [reflexivity|]. split; [reflexivity|]. cbn [xabs xlen xhdr0 N.to_nat firstn somes].
    split; [cbn [nhdr xabs_hdr prefix xprefix]; apply repeat_length|].
    split; [reflexivity|]. split; [reflexivity|]. split; [pose proof params_ok_holds as P; unfold params_ok in P; lia|].
    split; [constructor|]. exists 0. intros i Hi. cbn [length] in Hi.
    do 4 (destruct i as [|i]; [reflexivity|]). lia.
  - intros b c H. cbn in H. contradiction.
Qed.
Example ex_stale_differs :
  g_minimum 2 (Some ex_stale) = GRet (Some (XLeaf [9] [9] 9)) /\ minleaf 2 (tabs ex_stale) = None.
Proof. vm_compute. split; reflexivity. Qed.
