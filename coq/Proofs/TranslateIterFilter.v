(* Proofs/TranslateIterFacts.v, part 3 of 7: filter *)
From GoArt Require Import Base.Bytes Model.Node4 Model.Node16 Model.Node Model.Tree Model.Iter Model.Api
  Spec.NodeSpec Spec.TreeSpec Spec.IterSpec Proofs.BytesFacts Proofs.Node4Facts Proofs.NodeFacts Proofs.TreeBasics Proofs.NodeAux48
  Proofs.NodeAuxAssoc Proofs.NodeAuxArr Proofs.InsertFacts Proofs.IterFacts Spec.Ideal Proofs.PropFacts Proofs.TranslateFacts.
From GoArt Require Import Model.Pool Proofs.PoolFacts Model.PoolTree Proofs.PoolTreeFacts.
From GoArt Require Import Model.GoArith Model.GoTree Gen.Node4Gen Gen.Node16Gen Gen.TreeGen Proofs.TranslateTreeFacts Gen.IterGen.
From GoArt Require Import Proofs.TranslateIterBase.
From Coq Require Import ZifyN ZifyNat ZifyBool.
Ltac Zify.zify_post_hook ::= Z.div_mod_to_equations.
Open Scope N_scope.

(* ================= 5. filter ================= *)
Lemma filter_down4 : forall k n q, (k <= length (xch n))%nat ->
  g_filter_loop2 k n q (Z.of_nat k - 1) = LDone (q ++ rev (map idref (firstn k (xch n))), (-1)%Z).
Proof. apply down_arr. intros [|fuel] n q i; reflexivity. Qed.
Lemma filter_down16 : forall k n q, (k <= length (xch n))%nat ->
  g_filter_loop3 k n q (Z.of_nat k - 1) = LDone (q ++ rev (map idref (firstn k (xch n))), (-1)%Z).
Proof. apply down_arr. intros [|fuel] n q i; reflexivity. Qed.
Lemma filter_down48 : forall k n q, (k <= length (xbytes n))%nat -> cells48_ok n 0 k ->
  g_filter_loop4 k n q (Z.of_nat k - 1) = LDone (q ++ rev (map idref (map Some (kids48 (xch n) (firstn k (xbytes n))))), (-1)%Z).
Proof. apply down_48. intros [|fuel] n q i; reflexivity. Qed.
Lemma filter_down256 : forall k n q, (k <= length (xch n))%nat ->
  g_filter_loop5 k n q (Z.of_nat k - 1) = LDone (q ++ rev (map idref (map Some (somes (firstn k (xch n))))), (-1)%Z).
Proof. apply down_256. intros [|fuel] n q i; reflexivity. Qed.

Lemma filter_inner : forall fuel pr ans n q i acc, xwf n ->
  g_filter_loop1 (S fuel) pr ans (q ++ [Some (XInner n)]) i acc = g_filter_loop1 fuel pr ans (q ++ rev (map Some (xkids n))) i acc.
Proof.
  intros fuel pr ans n q i acc Hx. cbn [g_filter_loop1]. rewrite len_nonzero, idx_refs_last, slice_to_last.
  fwd_inner Hx filter_down4 filter_down16 filter_down48 filter_down256; rewrite map_idref; reflexivity.
Qed.

(* filter(): predicate is an arbitrary function of the leaf; pr is its reading on raw leaves *)
Theorem gen_filter_loop_eq : forall fuel pr pred xs ans i acc, (forall l, pr l = pred (tabs l)) -> Forall xtwf xs ->
  ires_abs (g_filter_loop1 fuel pr ans (map Some (rev xs)) i acc) =
  Some (walk (fun l => if pred l then Deliver else Skip) expand_fwd fuel (with_depth 0 (map tabs xs)) ans i (map tabs acc)).
Proof.
  induction fuel as [|fuel IH]; intros pr pred xs ans i acc Hpr HF; [reflexivity|].
  destruct xs as [|x xs]; [reflexivity|].
  apply Forall_cons_iff in HF. destruct HF as [Hx HF]. rewrite q_pop.
  destruct x as [gk tk v|n].
  - cbn [g_filter_loop1]. rewrite len_nonzero, idx_refs_last, slice_to_last.
    cbn [ref_tag gkind_eqb ref_pointer cast_leaf]. cbv zeta. cbn [with_depth map tabs walk].
    rewrite (Hpr (XLeaf gk tk v)). cbn [tabs]. destruct (pred (Leaf gk tk v)).
    + destruct (ans i); cbn [negb]; [|reflexivity].
      exact (IH pr pred xs ans (S i) (XLeaf gk tk v :: acc) Hpr HF).
    + exact (IH pr pred xs ans i acc Hpr HF).
  - destruct (xtwf_inv _ Hx) as [Hxw _]. rewrite (filter_inner fuel pr ans n _ i acc Hxw), q_push_fwd.
    rewrite (IH pr pred) by (first [exact Hpr | apply Forall_app; split; [apply xkids_xtwf; exact Hx|exact HF]]).
    cbn [with_depth map tabs walk]. fold (nabs n). unfold expand_fwd. rewrite nchildren_nabs, stack_push. reflexivity.
Qed.
Theorem gen_filter_eq : forall fuel t pr pred ans, (forall l, pr l = pred (tabs l)) -> xtwf t ->
  ires_abs (g_filter fuel (Some t) pr ans) =
  Some (walk (fun l => if pred l then Deliver else Skip) expand_fwd fuel [(tabs t, 0%nat)] ans 0 []).
Proof.
  intros fuel t pr pred ans Hpr Hx. unfold g_filter. cbv zeta. cbn [ref_pointer ref_is_nil app].
  exact (gen_filter_loop_eq fuel pr pred [t] ans 0%nat [] Hpr (Forall_cons _ Hx (Forall_nil _))).
Qed.
Theorem gen_filter_nil : forall fuel pr ans, g_filter fuel None pr ans = IDone ByReturn 0 [].
Proof. reflexivity. Qed.
