(* C13 — key arguments are neither written to nor retained.  Facts about Model/Mem.v. *)
(* String first: List (re-exported by Base.Bytes) must win for `length`, `concat`, ... *)
From Coq Require Import Strings.String.
From GoArt Require Import Base.Bytes Model.Mem.
From GoArt Require Gen.SrcFacts.   (* not imported: it opens string_scope *)
Open Scope N_scope.

Ltac splits := repeat match goal with |- _ /\ _ => split end.

(* ------------------------------------------------------------------ lists *)
Lemma set_nth_length : forall A (l : list A) i x, length (set_nth l i x) = length l.
Proof. induction l as [|y t IH]; intros [|i] x; cbn; auto. Qed.

Lemma nth_error_set_nth_eq : forall A (l : list A) i x, (i < length l)%nat ->
  nth_error (set_nth l i x) i = Some x.
Proof.
  induction l as [|y t IH]; intros [|i] x Hi; cbn in *; try lia; auto.
  apply IH. lia.
Qed.

Lemma nth_error_set_nth_neq : forall A (l : list A) i j x, i <> j ->
  nth_error (set_nth l i x) j = nth_error l j.
Proof.
  induction l as [|y t IH]; intros [|i] [|j] x Hij; cbn; auto; try congruence.
Qed.

Lemma skipn_set_nth : forall (a : list N) o n b,
  skipn o (set_nth a (o + n) b) = set_nth (skipn o a) n b.
Proof.
  intros a o; revert a. induction o as [|o IH]; intros a n b; cbn; auto.
  destruct a as [|y t]; cbn; auto.
Qed.

Lemma firstn_set_nth_snoc : forall (l : list N) n b, (n < length l)%nat ->
  firstn (S n) (set_nth l n b) = firstn n l ++ [b].
Proof.
  induction l as [|y t IH]; intros [|n] b Hn; cbn in *; try lia; auto.
  f_equal. apply IH. lia.
Qed.

Lemma window_length : forall a o n, (o + n <= length a)%nat -> length (window a o n) = n.
Proof. intros a o n H. unfold window. rewrite firstn_length, skipn_length. lia. Qed.

Lemma window_set_nth_snoc : forall a o n b, (o + n < length a)%nat ->
  window (set_nth a (o + n) b) o (S n) = window a o n ++ [b].
Proof.
  intros a o n b H. unfold window. rewrite skipn_set_nth.
  apply firstn_set_nth_snoc. rewrite skipn_length. lia.
Qed.

Lemma window_0_app : forall (l r : list N), window (l ++ r) 0 (length l) = l.
Proof.
  intros l r. unfold window. cbn [skipn]. rewrite firstn_app, Nat.sub_diag, firstn_all. cbn.
  apply app_nil_r.
Qed.

Lemma window_0_app' : forall (l r : list N) n, length l = n -> window (l ++ r) 0 n = l.
Proof. intros l r n <-. apply window_0_app. Qed.

Lemma skipn_add : forall (a : list N) o lo, skipn (o + lo) a = skipn lo (skipn o a).
Proof.
  intros a o; revert a. induction o as [|o IH]; intros a lo; cbn; auto.
  destruct a as [|y t]; auto. destruct lo; reflexivity.
Qed.

Lemma window_shift : forall a o n lo, (lo <= n)%nat ->
  window a (o + lo) (n - lo) = skipn lo (window a o n).
Proof.
  intros a o n lo H. unfold window.
  rewrite skipn_add, skipn_firstn_comm. reflexivity.
Qed.

(* ------------------------------------------------------------------ slices *)
Lemma slice_okb_spec : forall h s, slice_okb h s = true <-> slice_ok h s.
Proof.
  intros h s. unfold slice_okb, slice_ok. rewrite andb_true_iff, Nat.leb_le.
  destruct (nth_error h (arr s)); [rewrite Nat.leb_le | rewrite andb_true_iff, !Nat.eqb_eq]; tauto.
Qed.

Lemma read_length : forall h s, slice_ok h s -> length (read h s) = len s.
Proof.
  intros h s [Hle Hok]. unfold read. destruct (nth_error h (arr s)) as [a|].
  - apply window_length. lia.
  - cbn. lia.
Qed.

Lemma read_slice3 : forall h s, read h (slice3 s) = read h s.
Proof. reflexivity. Qed.

Lemma slice3_ok : forall h s, slice_ok h s -> slice_ok h (slice3 s).
Proof.
  intros h s [Hle Hok]. unfold slice_ok, slice3; cbn. split; auto.
  destruct (nth_error h (arr s)); lia.
Qed.

(* read depends only on the one array the slice points into *)
Lemma read_ext : forall h h' s, nth_error h' (arr s) = nth_error h (arr s) -> read h' s = read h s.
Proof. intros h h' s E. unfold read. rewrite E. reflexivity. Qed.

Lemma read_cap_ext : forall h h' s, nth_error h' (arr s) = nth_error h (arr s) ->
  read_cap h' s = read_cap h s.
Proof. intros h h' s E. unfold read_cap. rewrite E. reflexivity. Qed.

Lemma slice_ok_ext : forall h h' s, nth_error h' (arr s) = nth_error h (arr s) ->
  slice_ok h s -> slice_ok h' s.
Proof. intros h h' s E. unfold slice_ok. rewrite E. auto. Qed.

Lemma read_overwrite_other : forall h id bytes s, id <> arr s ->
  read (overwrite h id bytes) s = read h s.
Proof. intros. apply read_ext. unfold overwrite. apply nth_error_set_nth_neq; auto. Qed.

Lemma old_unchanged_refl : forall h, old_arrays_unchanged h h.
Proof. intros h id _. reflexivity. Qed.

Lemma old_unchanged_length : forall h h', old_arrays_unchanged h h' -> (length h <= length h')%nat.
Proof.
  intros h h' H. destruct (Nat.le_gt_cases (length h) (length h')) as [|Hlt]; auto.
  exfalso. assert (Hid : (length h' < length h)%nat) by lia.
  specialize (H _ Hid).
  assert (E1 : nth_error h' (length h') = None) by (apply nth_error_None; lia).
  rewrite E1 in H. symmetry in H. apply nth_error_None in H. lia.
Qed.

Lemma old_unchanged_trans : forall h1 h2 h3,
  old_arrays_unchanged h1 h2 -> old_arrays_unchanged h2 h3 -> old_arrays_unchanged h1 h3.
Proof.
  intros h1 h2 h3 H12 H23 id Hid. pose proof (old_unchanged_length _ _ H12).
  rewrite H23 by lia. auto.
Qed.

Lemma old_unchanged_app : forall h l, old_arrays_unchanged h (h ++ l).
Proof. intros h l id Hid. apply nth_error_app1; auto. Qed.

Lemma nth_error_firstn_lt : forall A (l : list A) n i, (i < n)%nat ->
  nth_error (firstn n l) i = nth_error l i.
Proof.
  induction l as [|y t IH]; intros [|n] [|i] H; cbn; auto; try lia.
  apply IH. lia.
Qed.

(* the executable form: the old heap is a prefix of the new one *)
Lemma old_unchanged_firstn : forall h h', old_arrays_unchanged h h' <-> firstn (length h) h' = h.
Proof.
  intros h h'; split.
  - revert h'. induction h as [|a h IH]; intros h' H; cbn; auto.
    destruct h' as [|a' h'].
    + specialize (H 0%nat ltac:(cbn; lia)). discriminate.
    + pose proof (H 0%nat ltac:(cbn; lia)) as H0. cbn in H0. inversion H0; subst. f_equal.
      apply IH. intros id Hid. apply (H (S id)). cbn; lia.
  - intros E id Hid. transitivity (nth_error (firstn (length h) h') id); [|rewrite E; reflexivity].
    symmetry. apply nth_error_firstn_lt. auto.
Qed.

(* ------------------------------------------------------------------ append, clone *)
(* a full slice (len = cap): append allocates, nothing that existed is written *)
Lemma append1_full : forall g h s b, slice_ok h s -> len s = cap s ->
  exists h' s', append1 g h s b = (h', s') /\
    old_arrays_unchanged h h' /\ arr s' = length h /\ length h' = S (length h) /\
    slice_ok h' s' /\ read h' s' = read h s ++ [b].
Proof.
  intros g h s b Hok Hfull. unfold append1.
  replace (len s <? cap s)%nat with false by (symmetry; apply Nat.ltb_ge; lia).
  eexists _, _; split; [reflexivity|]. cbn [arr off len cap].
  pose proof (read_length _ _ Hok) as Hlen.
  repeat split.
  - apply old_unchanged_app.
  - rewrite app_length. cbn. lia.
  - cbn. lia.
  - unfold slice_ok; cbn [arr off len cap]. rewrite nth_error_app2, Nat.sub_diag by lia. cbn.
    rewrite app_length; cbn. rewrite repeat_length. lia.
  - unfold read at 1; cbn [arr off len cap]. rewrite nth_error_app2, Nat.sub_diag by lia. cbn [nth_error].
    replace (read h s ++ b :: repeat 0 (g (S (len s)))) with ((read h s ++ [b]) ++ repeat 0 (g (S (len s))))
      by (rewrite <- app_assoc; reflexivity).
    apply window_0_app'. rewrite app_length; cbn; lia.
Qed.

(* the general case: the only old array that can change is the one the slice points into *)
Lemma append1_spec : forall g h s b, slice_ok h s ->
  exists h' s', append1 g h s b = (h', s') /\
    slice_ok h' s' /\ read h' s' = read h s ++ [b] /\
    old_arrays_unchanged_except (arr s) h h' /\ (length h <= length h')%nat /\
    (arr s' < length h')%nat /\
    off s' = (if (len s <? cap s)%nat then off s else 0%nat) /\
    (if (len s <? cap s)%nat then arr s' = arr s /\ (arr s < length h)%nat
     else arr s' = length h /\ old_arrays_unchanged h h').
Proof.
  intros g h s b Hok. destruct (Nat.ltb_spec (len s) (cap s)) as [Hlt|Hge].
  - unfold append1. replace (len s <? cap s)%nat with true by (symmetry; apply Nat.ltb_lt; lia).
    destruct Hok as [Hle Hok]. unfold read.
    destruct (nth_error h (arr s)) as [a|] eqn:Ea; [|lia].
    assert (Harr : (arr s < length h)%nat) by (apply nth_error_Some; congruence).
    eexists _, _; split; [reflexivity|]. cbn [arr off len cap].
    splits.
    + unfold slice_ok; cbn [arr off len cap]. split; [lia|].
      rewrite nth_error_set_nth_eq by auto. rewrite set_nth_length. auto.
    + cbn [arr off len cap]. rewrite nth_error_set_nth_eq by auto.
      apply window_set_nth_snoc. lia.
    + intros id Hid Hne. apply nth_error_set_nth_neq. auto.
    + rewrite set_nth_length. lia.
    + rewrite set_nth_length. lia.
    + reflexivity.
    + reflexivity.
    + auto.
  - destruct (append1_full g h s b Hok ltac:(destruct Hok; lia)) as (h' & s' & E & Hun & Ha & Hl & Hok' & Hr).
    exists h', s'. splits; auto.
    + intros id Hid _. auto.
    + lia.
    + lia.
    + revert E. unfold append1.
      replace (len s <? cap s)%nat with false by (symmetry; apply Nat.ltb_ge; lia).
      intros E; inversion E; reflexivity.
Qed.

Lemma append_many_spec : forall g bs h s, slice_ok h s ->
  exists h' s', append_many g h s bs = (h', s') /\
    slice_ok h' s' /\ read h' s' = read h s ++ bs /\
    old_arrays_unchanged_except (arr s) h h' /\ (length h <= length h')%nat /\
    (arr s' = arr s /\ off s' = off s \/ (length h <= arr s')%nat /\ off s' = 0%nat) /\
    ((arr s < length h)%nat -> (arr s' < length h')%nat).
Proof.
  intros g bs. induction bs as [|b bs IH]; intros h s Hok; cbn [append_many].
  - exists h, s. splits; auto.
    + rewrite app_nil_r; auto.
    + intros id _ _; reflexivity.
  - destruct (append1_spec g h s b Hok) as (h1 & s1 & E1 & Hok1 & Hr1 & Hex1 & Hl1 & Hlt1 & Hoff1 & Hc1).
    rewrite E1. destruct (IH h1 s1 Hok1) as (h' & s' & E & Hok' & Hr & Hex & Hl & Hc & Hlt).
    exists h', s'. split; auto. split; auto. split.
    { rewrite Hr, Hr1, <- app_assoc. reflexivity. }
    split.
    { intros id Hid Hne. rewrite Hex; [apply Hex1; auto | lia |].
      destruct (len s <? cap s)%nat; [destruct Hc1 as [-> _]; auto | destruct Hc1 as [-> _]; lia]. }
    split; [lia|].
    split; [|intros _; auto].
    destruct (len s <? cap s)%nat.
    + destruct Hc1 as [Ea _]. rewrite Ea, Hoff1 in Hc. destruct Hc as [Hc|Hc]; [left|right]; auto.
      destruct Hc; split; auto; lia.
    + destruct Hc1 as [Ea _]. right. destruct Hc as [[Hc Ho]|[Hc Ho]]; split; lia.
Qed.

Lemma clone_spec : forall g h s, slice_ok h s ->
  forall h' c, clone g h s = (h', c) ->
    old_arrays_unchanged h h' /\ arr c = length h /\ length h' = S (length h) /\
    slice_ok h' c /\ read h' c = read h s.
Proof.
  intros g h s Hok h' c E. unfold clone in E. inversion E; subst; clear E. cbn [arr off len cap].
  pose proof (read_length _ _ Hok) as Hlen.
  repeat split.
  - apply old_unchanged_app.
  - rewrite app_length; cbn; lia.
  - cbn; lia.
  - cbn [arr off len cap]. rewrite nth_error_app2, Nat.sub_diag by lia. cbn.
    rewrite app_length, repeat_length. lia.
  - unfold read at 1; cbn [arr off len cap]. rewrite nth_error_app2, Nat.sub_diag by lia. cbn [nth_error].
    apply window_0_app'. auto.
Qed.

Lemma slice_ok_mono : forall h h' s, old_arrays_unchanged h h' -> slice_ok h s -> slice_ok h' s.
Proof.
  intros h h' s Hun [Hle Hok]. split; auto.
  destruct (nth_error h (arr s)) as [a|] eqn:Ea.
  - rewrite Hun, Ea; auto. apply nth_error_Some. congruence.
  - destruct (nth_error h' (arr s)); lia.
Qed.

Lemma read_mono : forall h h' s, old_arrays_unchanged h h' -> slice_ok h s -> read h' s = read h s.
Proof.
  intros h h' s Hun [Hle Hok]. unfold read.
  destruct (nth_error h (arr s)) as [a|] eqn:Ea.
  - rewrite Hun, Ea; auto. apply nth_error_Some. congruence.
  - replace (len s) with 0%nat by lia. destruct (nth_error h' (arr s)); reflexivity.
Qed.

Lemma read_cap_mono : forall h h' s, old_arrays_unchanged h h' -> slice_ok h s ->
  read_cap h' s = read_cap h s.
Proof.
  intros h h' s Hun [Hle Hok]. unfold read_cap.
  destruct (nth_error h (arr s)) as [a|] eqn:Ea.
  - rewrite Hun, Ea; auto. apply nth_error_Some. congruence.
  - replace (cap s) with 0%nat by lia. destruct (nth_error h' (arr s)); reflexivity.
Qed.

(* ================================================================== the regenerated table *)
(* every append site that builds a terminated key in the byte-string tree clips the capacity
   first.  A statement about the REGENERATED table: an edit of trees.go (or of the template it is
   generated from) that drops the clip changes the shape to "ident" and this no longer proves. *)
Theorem key_append_sites_clip :
  forallb (fun e => let '(file, fn, shape, txt) := e in
                    negb (is_key_site fn txt) || String.eqb shape "slice3")
          SrcFacts.append_sites = true.
Proof. vm_compute. reflexivity. Qed.

(* ... and the filter is not empty: each of the five key-building statements is in the table *)
Theorem key_append_sites_present :
  forallb (fun mv => let '(m, v) := mv in
             existsb (fun e => let '(file, fn, shape, txt) := e in
                        is_key_site fn txt && contains m fn && contains v txt)
                     SrcFacts.append_sites)
          [(".Insert", "keyS"); (".Search", "keyS"); (".Delete", "keyS");
           (".Range", "startKey"); (".Range", "endKey")]%string = true.
Proof. vm_compute. reflexivity. Qed.

(* ================================================================== the clipped append *)
(* with the clip: no byte of any array that existed before the call changes, whatever the
   capacity, offset and contents of the argument; the key lives in an array allocated by the call *)
Theorem build_key_slice3_no_write : forall g h arg, slice_ok h arg ->
  exists h' k, build_key g "slice3" h arg = Some (h', k) /\
    old_arrays_unchanged h h' /\                   (* all old arrays intact, whole capacity *)
    (length h <= arr k < length h')%nat /\         (* the key lives in a newly allocated array *)
    slice_ok h' k /\
    read h' k = read h arg ++ [0] /\
    read h' arg = read h arg /\ read_cap h' arg = read_cap h arg.
Proof.
  intros g h arg Hok.
  destruct (append1_full g h (slice3 arg) 0 (slice3_ok _ _ Hok) eq_refl)
    as (h' & k & E & Hun & Ha & Hl & Hok' & Hr).
  exists h', k. change (build_key g "slice3" h arg) with (Some (append1 g h (slice3 arg) 0)).
  rewrite E. splits; auto; try lia.
  - apply read_mono; auto.
  - apply read_cap_mono; auto.
Qed.

(* the same for the other shapes that do not append to the caller's slice *)
Theorem build_key_fresh_no_write : forall g shape h arg, slice_ok h arg ->
  shape = "fresh"%string \/ shape = "call"%string ->
  exists h' k, build_key g shape h arg = Some (h', k) /\
    old_arrays_unchanged h h' /\ (length h <= arr k < length h')%nat /\
    slice_ok h' k /\ read h' k = read h arg ++ [0].
Proof.
  intros g shape h arg Hok Hs.
  destruct (clone g h arg) as [h1 c] eqn:Ec.
  destruct (clone_spec g h arg Hok h1 c Ec) as (Hun1 & Hac & Hl1 & Hokc & Hrc).
  destruct (append1_spec g h1 c 0 Hokc) as (h' & k & E & Hok' & Hr & Hex & Hl & Hlt & _ & Hc).
  exists h', k. split.
  { destruct Hs as [-> | ->]; unfold build_key; cbn [String.eqb Ascii.eqb Bool.eqb orb];
      rewrite Ec, E; reflexivity. }
  splits.
  - intros id Hid. rewrite Hex by lia. apply Hun1; auto.
  - destruct (len c <? cap c)%nat; destruct Hc as [Hc _]; lia.
  - auto.
  - auto.
  - rewrite Hr, Hrc. reflexivity.
Qed.

(* consequently later scribbling over any array that existed before the call (in particular the
   caller's key buffer) cannot change the stored key *)
Theorem leaf_owns_key : forall g h arg h' k id bytes, slice_ok h arg ->
  build_key g "slice3" h arg = Some (h', k) -> (id < length h)%nat ->
  read (overwrite h' id bytes) k = read h' k.
Proof.
  intros g h arg h' k id bytes Hok E Hid.
  destruct (build_key_slice3_no_write g h arg Hok) as (h2 & k2 & E2 & _ & Ha & _).
  rewrite E in E2. inversion E2; subst. apply read_overwrite_other. lia.
Qed.

(* the statement of the table and the semantics put together: at every key-building site of the
   byte-string tree, as the source stands, the call writes to no pre-existing array and the key it
   builds is in an array of its own *)
Theorem key_sites_no_write : forall file fn shape txt,
  In (file, fn, shape, txt) SrcFacts.append_sites -> is_key_site fn txt = true ->
  forall g h arg, slice_ok h arg ->
  exists h' k, build_key g shape h arg = Some (h', k) /\
    old_arrays_unchanged h h' /\ (length h <= arr k < length h')%nat /\
    read h' k = read h arg ++ [0] /\ read_cap h' arg = read_cap h arg /\
    forall id bytes, (id < length h)%nat -> read (overwrite h' id bytes) k = read h' k.
Proof.
  intros file fn shape txt Hin Hkey g h arg Hok.
  pose proof key_append_sites_clip as Hall. rewrite forallb_forall in Hall.
  specialize (Hall _ Hin). cbn beta iota in Hall. rewrite Hkey in Hall. cbn [negb orb] in Hall.
  apply String.eqb_eq in Hall. subst shape.
  destruct (build_key_slice3_no_write g h arg Hok) as (h' & k & E & Hun & Ha & Hok' & Hr & _ & Hrc).
  exists h', k. splits; auto; try lia.
  intros id bytes Hid. apply read_overwrite_other. lia.
Qed.

(* ================================================================== without the clip *)
(* NOT vacuous: without the clip a caller array changes.  buf = "helloWORLD", arg = buf[:5]:
   the append turns the caller's buffer into "hello\x00ORLD", and the key aliases that buffer *)
Example unclipped_append_writes_caller : forall g, exists h arg, slice_ok h arg /\
  exists h' k, build_key g "ident" h arg = Some (h', k) /\
    nth_error h' (arr arg) <> nth_error h (arr arg) /\ arr k = arr arg.
Proof.
  intros g. exists [[104; 101; 108; 108; 111; 87; 79; 82; 76; 68]], (mkSlice 0 0 5 10).
  split; [apply slice_okb_spec; reflexivity|].
  eexists _, _. split; [vm_compute; reflexivity|]. split; [|reflexivity].
  cbn. intros E. discriminate E.
Qed.

(* ... and so does a leaf built on it: the caller reuses its buffer and the stored key changes *)
Example unclipped_leaf_follows_caller : forall g, exists h arg, slice_ok h arg /\
  exists h' k bytes, build_key g "ident" h arg = Some (h', k) /\
    read (overwrite h' (arr arg) bytes) k <> read h' k.
Proof.
  intros g. exists [[104; 101; 108; 108; 111; 87; 79; 82; 76; 68]], (mkSlice 0 0 5 10).
  split; [apply slice_okb_spec; reflexivity|].
  eexists _, _, [106; 101; 108; 108; 121; 33; 33; 33; 33; 33].
  split; [vm_compute; reflexivity|].
  vm_compute. intros E. discriminate E.
Qed.

(* in general: whenever the argument has spare capacity the unclipped append stores the terminator
   in the caller's array, and changes it unless that byte already was 0 *)
Theorem unclipped_append_writes_spare : forall g shape h arg a,
  shape = "ident"%string \/ shape = "slice"%string ->
  slice_ok h arg -> (len arg < cap arg)%nat -> nth_error h (arr arg) = Some a ->
  exists h' k, build_key g shape h arg = Some (h', k) /\
    nth_error h' (arr arg) = Some (set_nth a (off arg + len arg) 0) /\
    arr k = arr arg /\
    (nth_error a (off arg + len arg) <> Some 0 -> nth_error h' (arr arg) <> nth_error h (arr arg)).
Proof.
  intros g shape h arg a Hs [Hle Hok] Hlt Ea. rewrite Ea in Hok.
  assert (Harr : (arr arg < length h)%nat) by (apply nth_error_Some; congruence).
  eexists _, _. split.
  { destruct Hs as [-> | ->]; unfold build_key; cbn [String.eqb Ascii.eqb Bool.eqb orb];
      unfold append1; rewrite Ea;
      replace (len arg <? cap arg)%nat with true by (symmetry; apply Nat.ltb_lt; lia);
      reflexivity. }
  cbn [arr]. rewrite nth_error_set_nth_eq by auto. splits; auto.
  intros Hne E. rewrite Ea in E. inversion E as [E']. apply Hne.
  rewrite <- E' at 1. apply nth_error_set_nth_eq. lia.
Qed.

(* ================================================================== the tree's leaves, call after call *)
(* invariant: every leaf key is a well-formed slice of an array allocated inside a library call *)
Definition m_inv (st : mstate) : Prop :=
  (forall l, In l (mleaves st) -> slice_ok (mheap st) l /\ In (arr l) (mowned st)) /\
  (forall id, In id (mowned st) -> (id < length (mheap st))%nat).

Definition call_args (c : call) : list slice :=
  match c with
  | CInsert k | CSearch k | CDelete k => [k]
  | CRange a b => [a; b]
  end.

(* what the call does to the set of stored keys, given the bytes of its arguments AT CALL TIME *)
Definition spec_call (h : heap) (c : call) (ks : list (list N)) : list (list N) :=
  match c with
  | CInsert k => ins_key (read h k ++ [0]) ks
  | CDelete k => del_key (read h k ++ [0]) ks
  | CSearch _ | CRange _ _ => ks
  end.

Lemma existsb_map : forall A B (f : B -> bool) (g : A -> B) l,
  existsb f (map g l) = existsb (fun x => f (g x)) l.
Proof. induction l as [|x l IH]; cbn; auto. rewrite IH; reflexivity. Qed.

Lemma filter_map : forall A B (f : B -> bool) (g : A -> B) l,
  filter f (map g l) = map g (filter (fun x => f (g x)) l).
Proof.
  induction l as [|x l IH]; cbn; auto. destruct (f (g x)); cbn; rewrite IH; reflexivity.
Qed.

Lemma In_new_ids : forall h h' id, In id (new_ids h h') <-> (length h <= id < length h')%nat.
Proof. intros h h' id. unfold new_ids. rewrite in_seq. lia. Qed.

Lemma m_inv_grow : forall st h' ls,
  m_inv st -> old_arrays_unchanged (mheap st) h' ->
  (forall l, In l ls -> In l (mleaves st) \/ slice_ok h' l /\ (length (mheap st) <= arr l < length h')%nat) ->
  m_inv (mkM h' ls (mowned st ++ new_ids (mheap st) h')).
Proof.
  intros st h' ls [Hl Ho] Hun Hls. pose proof (old_unchanged_length _ _ Hun) as Hlen.
  split; cbn [mheap mleaves mowned].
  - intros l Hin. destruct (Hls l Hin) as [Hold | [Hok Ha]].
    + destruct (Hl l Hold) as [Hok Hown]. split.
      * apply slice_ok_mono with (mheap st); auto.
      * apply in_or_app; auto.
    + split; auto. apply in_or_app; right. apply In_new_ids. auto.
  - intros id Hin. apply in_app_or in Hin. destruct Hin as [Hin|Hin].
    + apply Ho in Hin. lia.
    + apply In_new_ids in Hin. lia.
Qed.

Lemma contents_grow : forall st h', m_inv st -> old_arrays_unchanged (mheap st) h' ->
  map (read h') (mleaves st) = contents st.
Proof.
  intros st h' [Hl _] Hun. unfold contents. apply map_ext_in. intros l Hin.
  apply read_mono; auto. apply Hl; auto.
Qed.

(* one API call of the byte-string tree, with the clip:
   - it succeeds in the model, whatever the arguments alias (even the tree's own arrays);
   - EVERY array that existed before the call is unchanged (the caller's key bytes and the spare
     capacity behind them in particular);
   - the stored keys afterwards are the pure function of the stored keys before and of the bytes
     of the arguments at call time; the invariant is kept. *)
Theorem m_call_slice3 : forall g st c, m_inv st ->
  (forall a, In a (call_args c) -> slice_ok (mheap st) a) ->
  exists st', m_call g "slice3" st c = Some st' /\
    old_arrays_unchanged (mheap st) (mheap st') /\
    (forall a, In a (call_args c) ->
       read (mheap st') a = read (mheap st) a /\ read_cap (mheap st') a = read_cap (mheap st) a) /\
    m_inv st' /\
    contents st' = spec_call (mheap st) c (contents st).
Proof.
  intros g st c Hinv Hargs.
  assert (Hsame : forall h', old_arrays_unchanged (mheap st) h' -> forall a, In a (call_args c) ->
            read h' a = read (mheap st) a /\ read_cap h' a = read_cap (mheap st) a).
  { intros h' Hun a Ha. split; [apply read_mono | apply read_cap_mono]; auto. }
  destruct c as [k|k|k|a b]; cbn [m_call call_args spec_call] in *.
  - (* Insert *)
    destruct (build_key_slice3_no_write g (mheap st) k (Hargs k (or_introl eq_refl)))
      as (h' & key & E & Hun & Ha & Hok & Hr & _).
    rewrite E. eexists; split; [reflexivity|]. cbn [mheap].
    split; auto. split; auto.
    pose proof (contents_grow st h' Hinv Hun) as Hc.
    unfold has_key. rewrite <- (existsb_map _ _ (fun x => beq x (read h' key)) (read h')).
    rewrite Hc, Hr. unfold ins_key.
    destruct (existsb (fun x => beq x (read (mheap st) k ++ [0])) (contents st)).
    + split; [apply m_inv_grow; auto | exact Hc].
    + split.
      * apply m_inv_grow; auto. intros l [<-|Hin]; auto.
      * unfold contents; cbn [mheap mleaves map]. rewrite Hr, Hc. reflexivity.
  - (* Search *)
    destruct (build_key_slice3_no_write g (mheap st) k (Hargs k (or_introl eq_refl)))
      as (h' & key & E & Hun & Ha & Hok & Hr & _).
    rewrite E. eexists; split; [reflexivity|]. cbn [mheap]. split; auto. split; auto.
    split; [apply m_inv_grow; auto | exact (contents_grow st _ Hinv Hun)].
  - (* Delete *)
    destruct (build_key_slice3_no_write g (mheap st) k (Hargs k (or_introl eq_refl)))
      as (h' & key & E & Hun & Ha & Hok & Hr & _).
    rewrite E. eexists; split; [reflexivity|]. cbn [mheap]. split; auto. split; auto.
    split.
    + apply m_inv_grow; auto. intros l Hin. apply filter_In in Hin. tauto.
    + unfold del_key.
      rewrite <- (contents_grow st h' Hinv Hun), filter_map, <- Hr. reflexivity.
  - (* Range *)
    destruct (build_key_slice3_no_write g (mheap st) a (Hargs a (or_introl eq_refl)))
      as (h1 & k1 & E1 & Hun1 & _).
    assert (Hb : slice_ok h1 b).
    { apply slice_ok_mono with (mheap st); auto. apply Hargs. right; left; reflexivity. }
    destruct (build_key_slice3_no_write g h1 b Hb) as (h2 & k2 & E2 & Hun2 & _).
    rewrite E1, E2. eexists; split; [reflexivity|]. cbn [mheap].
    assert (Hun : old_arrays_unchanged (mheap st) h2) by (eapply old_unchanged_trans; eauto).
    split; auto. split; auto.
    split; [apply m_inv_grow; auto | exact (contents_grow st _ Hinv Hun)].
Qed.

(* between calls the caller may write anything into any array the library did not allocate, and
   allocate: the tree's keys do not move *)
Theorem m_write_contents : forall st id bytes, m_inv st -> ~ In id (mowned st) ->
  contents (m_write st id bytes) = contents st /\ m_inv (m_write st id bytes).
Proof.
  intros st id bytes [Hl Ho] Hid.
  assert (Hne : forall l, In l (mleaves st) -> id <> arr l).
  { intros l Hin ->. apply Hid. apply Hl; auto. }
  split.
  - unfold contents, m_write; cbn [mheap mleaves]. apply map_ext_in. intros l Hin.
    apply read_overwrite_other; auto.
  - split; cbn [m_write mheap mleaves mowned].
    + intros l Hin. split; [|apply Hl; auto].
      apply slice_ok_ext with (mheap st); [|apply Hl; auto].
      unfold overwrite. apply nth_error_set_nth_neq; auto.
    + intros id' Hin. unfold overwrite. rewrite set_nth_length. auto.
Qed.

Theorem m_alloc_contents : forall st bytes, m_inv st ->
  contents (m_alloc st bytes) = contents st /\ m_inv (m_alloc st bytes).
Proof.
  intros st bytes Hinv. pose proof (old_unchanged_app (mheap st) [bytes]) as Hun. split.
  - exact (contents_grow st _ Hinv Hun).
  - destruct Hinv as [Hl Ho]. split; cbn [m_alloc mheap mleaves mowned].
    + intros l Hin. split; [|apply Hl; auto]. apply slice_ok_mono with (mheap st); auto. apply Hl; auto.
    + intros id Hin. rewrite app_length. apply Ho in Hin. lia.
Qed.

(* any interleaving of API calls (with the clip) and of caller writes/allocations *)
Inductive reach (g : nat -> nat) : mstate -> list (list N) -> Prop :=
| R_init : forall h, reach g (mkM h [] []) []
| R_call : forall st ks c st', reach g st ks ->
    (forall a, In a (call_args c) -> slice_ok (mheap st) a) ->
    m_call g "slice3" st c = Some st' -> reach g st' (spec_call (mheap st) c ks)
| R_write : forall st ks id bytes, reach g st ks -> ~ In id (mowned st) ->
    reach g (m_write st id bytes) ks
| R_alloc : forall st ks bytes, reach g st ks -> reach g (m_alloc st bytes) ks.

(* the keys the leaves hold are exactly the pure history: byte values read at call time, never
   affected by what the caller did to its buffers afterwards *)
Theorem reach_contents : forall g st ks, reach g st ks -> contents st = ks /\ m_inv st.
Proof.
  intros g st ks H. induction H as [h | st ks c st' _ [IHc IHi] Hargs E | st ks id bytes _ [IHc IHi] Hid
                                    | st ks bytes _ [IHc IHi]].
  - split; [reflexivity|]. split; cbn; intros ? [].
  - destruct (m_call_slice3 g st c IHi Hargs) as (st2 & E2 & _ & _ & Hinv & Hc).
    rewrite E in E2; inversion E2; subst st2. rewrite Hc, IHc. auto.
  - destruct (m_write_contents st id bytes IHi Hid) as [Hc Hinv]. rewrite Hc. auto.
  - destruct (m_alloc_contents st bytes IHi) as [Hc Hinv]. rewrite Hc. auto.
Qed.

(* without the clip the same model loses the property (closed run): Insert(buf[:5]) on
   buf = "helloWORLD", then the caller reuses buf for "jelly": the leaf now holds "jelly\x00" *)
Example unclipped_tree_follows_caller : forall g, exists st st',
  m_call g "ident" (mkM [[104; 101; 108; 108; 111; 87; 79; 82; 76; 68]] [] []) (CInsert (mkSlice 0 0 5 10))
    = Some st /\
  contents st = [[104; 101; 108; 108; 111; 0]] /\
  ~ In 0%nat (mowned st) /\
  st' = m_write st 0 [106; 101; 108; 108; 121; 0; 79; 82; 76; 68] /\
  contents st' = [[106; 101; 108; 108; 121; 0]].
Proof.
  intros g. eexists _, _. split; [vm_compute; reflexivity|]. split; [reflexivity|].
  split; [intros []|]. split; reflexivity.
Qed.

(* ================================================================== the collation path *)
Lemma reset_ok : forall h s, slice_ok h s -> slice_ok h (reset s).
Proof. intros h s [Hle Hok]. split; cbn [reset arr off len cap]; auto. lia. Qed.

Lemma read_reset : forall h s, read h (reset s) = [].
Proof. intros h s. unfold read, reset; cbn [arr off len]. destruct (nth_error h (arr s)); reflexivity. Qed.

Lemma reslice_0_len : forall s, reslice s 0 (len s) = mkSlice (arr s) (off s) (len s) (cap s).
Proof. intros s. unfold reslice. rewrite Nat.add_0_r, !Nat.sub_0_r. reflexivity. Qed.

(* CollationOrderKey.Transform: the only pre-existing array that can change is the collator's own
   buffer; both results live in arrays allocated by the call, distinct from the (possibly
   reallocated) buffer; keyS holds the bytes of the key, colKey its sort key *)
Theorem coll_transform_spec : forall g f h buf k,
  slice_ok h buf -> (arr buf < length h)%nat -> slice_ok h k ->
  exists h' buf' keyS colKey, coll_transform g f h buf k = (h', buf', keyS, colKey) /\
    old_arrays_unchanged_except (arr buf) h h' /\
    (length h <= arr keyS < length h')%nat /\ (length h <= arr colKey < length h')%nat /\
    arr keyS <> arr colKey /\ arr keyS <> arr buf' /\ arr colKey <> arr buf' /\
    slice_ok h' buf' /\ (arr buf' < length h')%nat /\ slice_ok h' keyS /\ slice_ok h' colKey /\
    read h' keyS = read h k /\ read h' colKey = f (read h k).
Proof.
  intros g f h buf k Hbuf Hbarr Hk. unfold coll_transform, coll_key.
  destruct (clone g h k) as [h1 keyS] eqn:E1.
  destruct (clone_spec g h k Hk h1 keyS E1) as (Hun1 & Ha1 & Hl1 & Hok1 & Hr1).
  assert (Hb1 : slice_ok h1 (reset buf)) by (apply reset_ok, slice_ok_mono with h; auto).
  destruct (append_many_spec g (f (read h1 keyS)) h1 (reset buf) Hb1)
    as (h2 & buf1 & E2 & Hok2 & Hr2 & Hex2 & Hl2 & Hc2 & Hlt2).
  cbn [reset arr off len cap] in *. rewrite E2.
  rewrite read_reset in Hr2. cbn [app] in Hr2. rewrite reslice_0_len.
  set (ck := mkSlice (arr buf1) (off buf1) (len buf1) (cap buf1)) in *.
  assert (Eck : ck = buf1) by (destruct buf1; reflexivity).
  destruct (clone g h2 ck) as [h3 colKey] eqn:E3.
  rewrite Eck in E3.
  destruct (clone_spec g h2 buf1 Hok2 h3 colKey E3) as (Hun3 & Ha3 & Hl3 & Hok3 & Hr3).
  specialize (Hlt2 ltac:(lia)).
  assert (Hks : nth_error h3 (arr keyS) = nth_error h1 (arr keyS)).
  { rewrite Hun3 by lia. apply Hex2; lia. }
  exists h3, buf1, keyS, colKey. split; [reflexivity|]. splits; try lia.
  - intros id Hid Hne. rewrite Hun3 by lia. rewrite Hex2 by (auto; lia). apply Hun1; auto.
  - apply slice_ok_mono with h2; auto.
  - apply slice_ok_ext with h1; auto.
  - auto.
  - rewrite (read_ext _ _ _ Hks). auto.
  - rewrite Hr3, Hr2, Hr1. reflexivity.
Qed.

(* the leaf owns keyS and colKey: nothing the caller does to ITS arrays, and nothing the collator
   later does to its buffer, can change them *)
Theorem coll_leaf_owns_keys : forall g f h buf k h' buf' keyS colKey id bytes,
  slice_ok h buf -> (arr buf < length h)%nat -> slice_ok h k ->
  coll_transform g f h buf k = (h', buf', keyS, colKey) ->
  (id < length h)%nat \/ id = arr buf' ->
  read (overwrite h' id bytes) keyS = read h' keyS /\
  read (overwrite h' id bytes) colKey = read h' colKey.
Proof.
  intros g f h buf k h' buf' keyS colKey id bytes Hbuf Hbarr Hk E Hid.
  destruct (coll_transform_spec g f h buf k Hbuf Hbarr Hk)
    as (h2 & b2 & k2 & c2 & E2 & _ & Hak & Hac & _ & Hkb & Hcb & _).
  rewrite E in E2. inversion E2; subst.
  split; apply read_overwrite_other; destruct Hid; lia || congruence.
Qed.

(* Transform resets and reuses its buffer on every call; because the leaf holds clones, a later
   Transform (any later key k2, aliasing anything) leaves the keys of an earlier leaf intact *)
Theorem coll_second_transform_preserves_leaf : forall g f h buf k1 h1 buf1 keyS1 colKey1 k2,
  slice_ok h buf -> (arr buf < length h)%nat -> slice_ok h k1 ->
  coll_transform g f h buf k1 = (h1, buf1, keyS1, colKey1) -> slice_ok h1 k2 ->
  exists h2 buf2 keyS2 colKey2, coll_transform g f h1 buf1 k2 = (h2, buf2, keyS2, colKey2) /\
    read h2 keyS1 = read h k1 /\ read h2 colKey1 = f (read h k1) /\
    read h2 keyS2 = read h1 k2 /\ read h2 colKey2 = f (read h1 k2) /\
    old_arrays_unchanged_except (arr buf1) h1 h2.
Proof.
  intros g f h buf k1 h1 buf1 keyS1 colKey1 k2 Hbuf Hbarr Hk1 E1 Hk2.
  destruct (coll_transform_spec g f h buf k1 Hbuf Hbarr Hk1)
    as (h1' & b1' & ks' & ck' & E1' & _ & Hak & Hac & _ & Hkb & Hcb & Hokb & Hltb & _ & _ & Hrk & Hrc).
  rewrite E1 in E1'. inversion E1'; subst h1' b1' ks' ck'. clear E1'.
  destruct (coll_transform_spec g f h1 buf1 k2 Hokb Hltb Hk2)
    as (h2 & buf2 & keyS2 & colKey2 & E2 & Hex & _ & _ & _ & _ & _ & _ & _ & _ & _ & Hrk2 & Hrc2).
  exists h2, buf2, keyS2, colKey2. splits; auto.
  - rewrite <- Hrk. apply read_ext. apply Hex; lia || auto.
  - rewrite <- Hrc. apply read_ext. apply Hex; lia || auto.
Qed.

(* NOT vacuous: without bytes.Clone the leaf's colKey is a slice of the collator's buffer, and
   the next Transform overwrites it (closed run; f = identity, buffer of 8 bytes, keys "ab", "cd") *)
Example coll_noclone_leaf_clobbered :
  let g := fun _ : nat => 0%nat in
  let f := fun x : list N => x in
  let h := [[0; 0; 0; 0; 0; 0; 0; 0]; [97; 98]; [99; 100]] in
  let buf := mkSlice 0 0 0 8 in
  let '(h1, buf1, _, colKey1) := coll_transform_noclone g f h buf (mkSlice 1 0 2 2) in
  let '(h2, _, _, _) := coll_transform_noclone g f h1 buf1 (mkSlice 2 0 2 2) in
  read h1 colKey1 = [97; 98] /\ read h2 colKey1 = [99; 100].
Proof. vm_compute. split; reflexivity. Qed.

(* the same run with the clone, for contrast *)
Example coll_clone_leaf_kept :
  let g := fun _ : nat => 0%nat in
  let f := fun x : list N => x in
  let h := [[0; 0; 0; 0; 0; 0; 0; 0]; [97; 98]; [99; 100]] in
  let buf := mkSlice 0 0 0 8 in
  let '(h1, buf1, _, colKey1) := coll_transform g f h buf (mkSlice 1 0 2 2) in
  let '(h2, _, _, _) := coll_transform g f h1 buf1 (mkSlice 2 0 2 2) in
  read h1 colKey1 = [97; 98] /\ read h2 colKey1 = [97; 98].
Proof. vm_compute. split; reflexivity. Qed.

(* ================================================================== the collation codec's results *)
(* A collation tree keeps BOTH results of CollationOrderKey.Transform in the leaf (original bytes, sort key).  On the
   REGENERATED table: both returned expressions are copies — slices that share no memory with the caller's key or with
   the collator's scratch buffer.  An edit of keys.go that hands over the argument itself, or the buffer's slice (for
   every key, for []byte keys only, for long sort keys only, ...), changes a classification to "other" and this no
   longer proves. *)
Theorem collation_transform_copies :
  map snd SrcFacts.collation_transform_results = ["copy"; "copy"]%string.
Proof. vm_compute. reflexivity. Qed.
