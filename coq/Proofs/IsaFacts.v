(* C10, instruction level: the regenerated node16 routines (Gen/AsmAmd64.v,
   Gen/AsmArm64.v) run under the semantics of Model/Isa.v return what the model
   routines of Model/Node16.v return (which Proofs/Node4Facts.v shows equal to the
   scalar scan of the first len lanes, whatever the remaining lanes hold).

   amd64: for ALL sixteen key bytes, ALL probe bytes, ALL fill counts and ALL
   initial contents of every register, flag and the result slot.
   Route: symbolic execution (cbv with a whitelist) of the straight-line block
   before the conditional jump on sixteen symbolic lanes, then list/bit lemmas. *)
From GoArt Require Import Base.Bytes Model.Node4 Model.Node16 Model.Isa.
From GoArt Require Import Proofs.WordFacts Proofs.Node4Facts.
From GoArt Require Gen.AsmAmd64 Gen.AsmArm64.
From Coq Require Import ZifyN ZifyNat ZifyBool.
Ltac Zify.zify_post_hook ::= Z.div_mod_to_equations.
Open Scope N_scope.

(* ------------------------------------------------------------------ *)
(* partial registers *)
(* ------------------------------------------------------------------ *)
Lemma low8_setlow8 : forall o v, low8 (setlow8 o v) = low8 v.
Proof. intros. unfold low8, setlow8. lia. Qed.

Lemma low8_low8 : forall v, low8 (low8 v) = low8 v.
Proof. intros. unfold low8. lia. Qed.

Lemma low8_small : forall v, v < 256 -> low8 v = v.
Proof. intros. unfold low8. lia. Qed.

Lemma byte_at_0 : forall x, byte_at x 0 = low8 x.
Proof. intros. unfold byte_at, low8. rewrite N.mul_0_r, N.shiftr_0_r. reflexivity. Qed.

Lemma low16_setlow16 : forall o v, low16 (setlow16 o v) = low16 v.
Proof. intros. unfold low16, setlow16. lia. Qed.

Lemma low16_small : forall v, v < 65536 -> low16 v = v.
Proof. intros. unfold low16. lia. Qed.

Lemma low16_shl16 : forall x c, low16 (shl16 x c) = shl16 x c.
Proof. intros. unfold low16, shl16. lia. Qed.

Lemma low16_sub16 : forall x y, low16 (sub16 x y) = sub16 x y.
Proof. intros. unfold low16, sub16. lia. Qed.

Lemma setlow16_small : forall o v, o < 65536 -> v < 65536 -> setlow16 o v = v.
Proof. intros. unfold setlow16. lia. Qed.

Lemma shuf_lane_zero : forall d l j, shuf_lane (d :: l) (N.lxor j j) = d.
Proof. intros. rewrite N.lxor_nilpotent. reflexivity. Qed.

(* ------------------------------------------------------------------ *)
(* bits of 16-bit values *)
(* ------------------------------------------------------------------ *)
Lemma bits_lt_pow2 : forall x k, (forall n, k <= n -> N.testbit x n = false) -> x < 2 ^ k.
Proof.
  intros x k H. destruct (N.eq_dec x 0) as [-> | Hx].
  - apply N.neq_0_lt_0. apply N.pow_nonzero. lia.
  - apply N.log2_lt_pow2; [lia|].
    destruct (N.lt_ge_cases (N.log2 x) k) as [Hlt | Hge]; [exact Hlt|].
    specialize (H _ Hge). rewrite N.bit_log2 in H by exact Hx. discriminate.
Qed.

Lemma testbit_high : forall x k n, x < 2 ^ k -> k <= n -> N.testbit x n = false.
Proof.
  intros x k n Hx Hn. destruct (N.eq_dec x 0) as [-> | Hx0]; [apply N.bits_0|].
  apply N.bits_above_log2. apply N.log2_lt_pow2 in Hx; lia.
Qed.

Lemma bitfield_lt : forall f l, bitfield f l 0 < 2 ^ N.of_nat (length l).
Proof.
  intros f l. apply bits_lt_pow2. intros n Hn. rewrite bitfield_testbit.
  replace (n <? 0 + N.of_nat (length l)) with false by lia.
  rewrite andb_false_r. reflexivity.
Qed.

Lemma bitfield_ext : forall f g l i, (forall k, In k l -> f k = g k) -> bitfield f l i = bitfield g l i.
Proof.
  intros f g l. induction l as [|k l IH]; intros i H; cbn [bitfield]; [reflexivity|].
  rewrite (H k) by (left; reflexivity). rewrite IH; [reflexivity|].
  intros k' Hk'. apply H. right. exact Hk'.
Qed.

Lemma bitfield_map : forall f g l i, bitfield f (map g l) i = bitfield (fun k => f (g k)) l i.
Proof.
  intros f g l. induction l as [|k l IH]; intro i; cbn [bitfield map]; [reflexivity|].
  rewrite IH. reflexivity.
Qed.

Lemma land_low16_r : forall m x, m < 65536 -> N.land m (low16 x) = N.land m x.
Proof.
  intros m x Hm. unfold low16. change 65536 with (2 ^ 16). rewrite <- N.land_ones.
  rewrite N.land_assoc, (N.land_comm m x), <- N.land_assoc, N.land_ones.
  change (2 ^ 16) with 65536. rewrite N.mod_small by exact Hm. reflexivity.
Qed.

Lemma land_lt_l : forall a b k, a < 2 ^ k -> N.land a b < 2 ^ k.
Proof.
  intros a b k Ha. apply bits_lt_pow2. intros n Hn.
  rewrite N.land_spec, (testbit_high a k n Ha Hn). reflexivity.
Qed.

Lemma tz_lt16 : forall a, a < 65536 -> a <> 0 -> tz a < 16.
Proof.
  intros a Ha Hn. destruct (tz_spec a Hn) as [T _].
  destruct (N.lt_ge_cases (tz a) 16) as [Hlt | Hge]; [exact Hlt|].
  rewrite (testbit_high a 16 (tz a)) in T by (assumption || exact Ha). discriminate.
Qed.

Lemma u64_mod : forall x, u64 x = x mod W64.
Proof. intro x. unfold u64. change 0xFFFFFFFFFFFFFFFF with (N.ones 64). apply N.land_ones. Qed.

Lemma u64_small : forall x, x < W64 -> u64 x = x.
Proof. intros x H. rewrite u64_mod. apply N.mod_small. exact H. Qed.

Lemma signed64_small : forall t, t < 65536 -> signed64 t = Z.of_N t.
Proof.
  intros t Ht. unfold signed64. rewrite u64_small by (unfold W64; lia).
  replace (t <? 9223372036854775808) with true by lia. reflexivity.
Qed.

(* ------------------------------------------------------------------ *)
(* the lane compares under PMOVMSKB *)
(* ------------------------------------------------------------------ *)
Lemma cmpeq_top : forall k b, N.testbit (cmpeq_lane k b) 7 = (k =? b).
Proof. intros. unfold cmpeq_lane. destruct (k =? b); reflexivity. Qed.

(* PCMPGTB is a SIGNED compare; after both sides are xor-ed with 0x80 it is the unsigned one *)
Lemma cmpgt_bias_top : forall k b, k < 256 -> b < 256 ->
  N.testbit (cmpgt_lane (N.lxor k 128) (N.lxor b 128)) 7 = (b <? k).
Proof.
  intros k b Hk Hb. apply Bool.eqb_prop.
  apply (all2_spec (fun k b => Bool.eqb (N.testbit (cmpgt_lane (N.lxor k 128) (N.lxor b 128)) 7) (b <? k)));
    [vm_compute; reflexivity | exact Hk | exact Hb].
Qed.

Lemma cmphi_top : forall k b, N.testbit (cmphi_lane k b) 7 = (b <? k).
Proof. intros. unfold cmphi_lane. destruct (b <? k); reflexivity. Qed.

(* ------------------------------------------------------------------ *)
(* the 16-bit mask (1 << CL) - 1 as the hardware computes it: the count is taken
   modulo 32 and the result truncated to 16 bits *)
(* ------------------------------------------------------------------ *)
Definition mask16 (len : N) : N := sub16 (shl16 1 (N.land (low8 len) 31)) 1.

Lemma mask16_lanemask : forall len, len < 256 -> mask16 len = low16 (lanemask (len mod 32)).
Proof.
  intros len H. apply N.eqb_eq.
  apply (all1_spec (fun len => mask16 len =? low16 (lanemask (len mod 32)))); [vm_compute; reflexivity | exact H].
Qed.

Lemma land_mask16 : forall m len, m < 65536 -> len < 256 ->
  N.land m (mask16 len) = N.land m (lanemask (len mod 32)).
Proof. intros m len Hm Hl. rewrite mask16_lanemask by exact Hl. apply land_low16_r. exact Hm. Qed.

(* ================================================================== *)
(* amd64 *)
(* ================================================================== *)
Module Amd64Facts.
Import X86 GoArt.Gen.AsmAmd64.

Ltac destruct_state st :=
  destruct st as [rax rbx rcx rdx rsi rdi r8 r9 r10 r11 r12 r13 r14 r15 x0 x1 x2 x3 zf ak al ab mb mm rt er].

Ltac destruct16 l H :=
  do 16 (destruct l as [|? l]; [discriminate H|]); destruct l; [clear H|discriminate H].

Ltac symexec :=
  cbv [exec pre fall taken amd64_searchNode16 amd64_insertPosNode16
       fold_left step mov64 load64 load8 get set getx setx upd16 fail
       set_rax set_rbx set_rcx set_rdx set_rsi set_rdi set_r8 set_r9 set_r10 set_r11 set_r12 set_r13 set_r14 set_r15
       set_x0 set_x1 set_x2 set_x3 set_zf set_ret set_err
       X86.rax X86.rbx X86.rcx X86.rdx X86.rsi X86.rdi X86.r8 X86.r9 X86.r10 X86.r11 X86.r12 X86.r13 X86.r14 X86.r15
       X86.x0 X86.x1 X86.x2 X86.x3 X86.zf X86.arg_keys X86.arg_len X86.arg_b X86.mem_base X86.mem X86.ret X86.err
       map map2 app bytes8 zeros8 orb negb].

Ltac regsimp :=
  repeat (rewrite ?shuf_lane_zero, ?byte_at_0, ?low8_setlow8, ?low8_low8, ?low16_setlow16,
            ?low16_shl16, ?low16_sub16, ?N.eqb_refl);
  change (of_imm 1) with 1; change (of_imm 0) with 0; change (of_imm 128) with 128;
  change (low16 1) with 1; change (low16 0) with 0; change (low8 128) with 128.

(* what the block before the jump leaves: R11 = movemask-of-compare AND mask, ZF = (R11 = 0), no error *)
Definition pre_ok (f : N -> bool) (s1 : state) (keys : list N) (len : N) : Prop :=
  let a := N.land (bitfield f keys 0) (lanemask (len mod 32)) in
  X86.r11 s1 = a /\ a < 65536 /\ X86.zf s1 = (a =? 0) /\ X86.err s1 = false.

Lemma pre_finish : forall (g : N -> N) (f : N -> bool) keys len msk,
  length keys = 16%nat -> len < 256 ->
  (forall k, In k keys -> N.testbit (g k) 7 = f k) ->
  msk = mask16 len ->
  let m := movemask (map g keys) in
  let a := N.land (bitfield f keys 0) (lanemask (len mod 32)) in
  setlow16 m (N.land (low16 m) msk) = a /\ a < 65536 /\
  (low16 (N.land (low16 m) msk) =? 0) = (a =? 0).
Proof.
  intros g f keys len msk Hk Hl Hg -> m a.
  assert (Em : m = bitfield f keys 0).
  { unfold m, movemask. rewrite bitfield_map. apply bitfield_ext. exact Hg. }
  assert (Hm : m < 65536).
  { rewrite Em. pose proof (bitfield_lt f keys) as B. rewrite Hk in B. exact B. }
  assert (Ha : a < 65536).
  { unfold a. rewrite <- Em. apply (land_lt_l m _ 16). exact Hm. }
  assert (Ea : N.land (low16 m) (mask16 len) = a).
  { rewrite (low16_small m Hm), land_mask16 by assumption. unfold a. rewrite Em. reflexivity. }
  rewrite Ea. rewrite (setlow16_small m a Hm Ha), (low16_small a Ha). auto.
Qed.

Lemma search_pre : forall st keys len b, length keys = 16%nat -> len < 256 -> b < 256 ->
  loaded st keys len b ->
  pre_ok (fun k => k =? b) (exec (pre amd64_searchNode16) st) keys len.
Proof.
  intros st keys len b Hk Hlen Hb HL. destruct_state st.
  unfold loaded in HL.
  cbn [X86.arg_keys X86.mem_base X86.mem X86.arg_len X86.arg_b X86.err X86.x0 X86.x1 X86.x2 X86.x3] in HL.
  destruct HL as (-> & -> & -> & -> & -> & H0 & H1 & H2 & H3).
  destruct keys as [|k0 [|k1 [|k2 [|k3 [|k4 [|k5 [|k6 [|k7 [|k8 [|k9 [|k10 [|k11 [|k12 [|k13 [|k14 [|k15 [|? ?]]]]]]]]]]]]]]]]];
    try discriminate Hk.
  destruct16 x2 H2.
  unfold pre_ok. symexec. regsimp.
  rewrite (low8_small b Hb).
  pose proof (pre_finish (fun k => cmpeq_lane k b) (fun k => k =? b)
                [k0; k1; k2; k3; k4; k5; k6; k7; k8; k9; k10; k11; k12; k13; k14; k15] len
                (mask16 len) Hk Hlen (fun k _ => cmpeq_top k b) eq_refl) as (E1 & E2 & E3).
  cbn [map] in E1, E3.
  split; [exact E1|]. split; [exact E2|]. split; [exact E3|reflexivity].
Qed.

Lemma insertpos_pre : forall st keys len b, length keys = 16%nat -> Forall (fun x => x < 256) keys ->
  len < 256 -> b < 256 -> loaded st keys len b ->
  pre_ok (fun k => b <? k) (exec (pre amd64_insertPosNode16) st) keys len.
Proof.
  intros st keys len b Hk Hbytes Hlen Hb HL. destruct_state st.
  unfold loaded in HL.
  cbn [X86.arg_keys X86.mem_base X86.mem X86.arg_len X86.arg_b X86.err X86.x0 X86.x1 X86.x2 X86.x3] in HL.
  destruct HL as (-> & -> & -> & -> & -> & H0 & H1 & H2 & H3).
  destruct keys as [|k0 [|k1 [|k2 [|k3 [|k4 [|k5 [|k6 [|k7 [|k8 [|k9 [|k10 [|k11 [|k12 [|k13 [|k14 [|k15 [|? ?]]]]]]]]]]]]]]]]];
    try discriminate Hk.
  destruct16 x2 H2.
  unfold pre_ok. symexec. regsimp.
  rewrite (low8_small b Hb).
  assert (Hg : forall k, In k [k0; k1; k2; k3; k4; k5; k6; k7; k8; k9; k10; k11; k12; k13; k14; k15] ->
                N.testbit (cmpgt_lane (N.lxor k 128) (N.lxor b 128)) 7 = (b <? k)).
  { intros k Hin. apply cmpgt_bias_top; [|exact Hb]. rewrite Forall_forall in Hbytes. apply Hbytes. exact Hin. }
  pose proof (pre_finish (fun k => cmpgt_lane (N.lxor k 128) (N.lxor b 128)) (fun k => b <? k)
                [k0; k1; k2; k3; k4; k5; k6; k7; k8; k9; k10; k11; k12; k13; k14; k15] len
                (mask16 len) Hk Hlen Hg eq_refl) as (E1 & E2 & E3).
  cbn [map] in E1, E3.
  split; [exact E1|]. split; [exact E2|]. split; [exact E3|reflexivity].
Qed.

(* the two blocks after the jump (the same in both routines): TZCNTW and store, or -1 and store *)
Lemma fall_result : forall p s, fall p = fall amd64_searchNode16 ->
  X86.err s = false -> X86.r11 s < 65536 -> X86.r11 s <> 0 ->
  result (exec (fall p) s) = Z.of_N (tz (X86.r11 s)).
Proof.
  intros p s -> He Hlt Hnz. destruct_state s. cbn [X86.err X86.r11] in He, Hlt, Hnz. subst er.
  unfold result. symexec.
  rewrite (low16_small r11 Hlt). unfold tzcnt16.
  replace (r11 =? 0) with false by lia.
  pose proof (tz_lt16 r11 Hlt Hnz) as Ht.
  rewrite (setlow16_small r11 (tz r11)) by lia.
  rewrite u64_small by (unfold W64; lia). apply signed64_small. lia.
Qed.

Lemma taken_result : forall p s, taken p = taken amd64_searchNode16 ->
  X86.err s = false -> result (exec (taken p) s) = (-1)%Z.
Proof.
  intros p s -> He. destruct_state s. cbn [X86.err] in He. subst er.
  unfold result. symexec. vm_compute. reflexivity.
Qed.

Lemma run_from_pre : forall p f st keys len,
  jcc p = CJEQ -> fall p = fall amd64_searchNode16 -> taken p = taken amd64_searchNode16 ->
  pre_ok f (exec (pre p) st) keys len ->
  result (run p st) =
    (let bf := N.land (bitfield f keys 0) (lanemask (len mod 32)) in
     if bf =? 0 then (-1)%Z else Z.of_N (tz bf)).
Proof.
  intros p f st keys len Hj Hf Ht (E1 & E2 & E3 & E4). unfold run. rewrite Hj.
  cbv zeta. set (s1 := exec (pre p) st) in *. rewrite E3.
  destruct (N.land (bitfield f keys 0) (lanemask (len mod 32)) =? 0) eqn:E.
  - apply taken_result; assumption.
  - rewrite <- E1. apply fall_result; try assumption; rewrite E1; [exact E2 | lia].
Qed.

(* ---- the theorems: every fill count the uint8 argument can carry. The hardware
   takes the shift count modulo 32, so above 31 the routine answers for len mod 32
   (never reached: the Go code passes childrenLen <= 16). ---- *)
Theorem amd64_search16_any_len : forall st keys len b, length keys = 16%nat -> b < 256 -> len < 256 ->
  loaded st keys len b ->
  result (run amd64_searchNode16 st) = searchNode16 keys (len mod 32) b.
Proof.
  intros st keys len b Hk Hb Hl HL.
  rewrite (run_from_pre amd64_searchNode16 (fun k => k =? b) st keys len eq_refl eq_refl eq_refl
             (search_pre st keys len b Hk Hl Hb HL)).
  unfold searchNode16. rewrite firstn_all2 by lia. reflexivity.
Qed.

Theorem amd64_insertpos16_any_len : forall st keys len b, length keys = 16%nat ->
  Forall (fun x => x < 256) keys -> b < 256 -> len < 256 -> loaded st keys len b ->
  result (run amd64_insertPosNode16 st) = insertPosNode16 keys (len mod 32) b.
Proof.
  intros st keys len b Hk Hbytes Hb Hl HL.
  rewrite (run_from_pre amd64_insertPosNode16 (fun k => b <? k) st keys len eq_refl eq_refl eq_refl
             (insertpos_pre st keys len b Hk Hbytes Hl Hb HL)).
  unfold insertPosNode16. rewrite firstn_all2 by lia. reflexivity.
Qed.

End Amd64Facts.
Import Amd64Facts.

Theorem amd64_search16_correct : forall st keys len b, length keys = 16%nat ->
  Forall (fun x => x < 256) keys -> b < 256 -> len <= 16 -> X86.loaded st keys len b ->
  X86.result (X86.run Gen.AsmAmd64.amd64_searchNode16 st) = searchNode16 keys len b.
Proof.
  intros st keys len b Hk _ Hb Hl HL.
  rewrite (amd64_search16_any_len st keys len b Hk Hb) by (assumption || lia).
  rewrite N.mod_small by lia. reflexivity.
Qed.

Theorem amd64_insertpos16_correct : forall st keys len b, length keys = 16%nat ->
  Forall (fun x => x < 256) keys -> b < 256 -> len <= 16 -> X86.loaded st keys len b ->
  X86.result (X86.run Gen.AsmAmd64.amd64_insertPosNode16 st) = insertPosNode16 keys len b.
Proof.
  intros st keys len b Hk Hbytes Hb Hl HL.
  rewrite (amd64_insertpos16_any_len st keys len b Hk Hbytes Hb) by (assumption || lia).
  rewrite N.mod_small by lia. reflexivity.
Qed.

(* with the scalar scan of Proofs/Node4Facts.v: first occupied lane equal to / above b, stale tail irrelevant *)
Corollary amd64_search16_scan : forall st keys len b, length keys = 16%nat ->
  Forall (fun x => x < 256) keys -> b < 256 -> len <= 16 -> X86.loaded st keys len b ->
  X86.result (X86.run Gen.AsmAmd64.amd64_searchNode16 st) =
  find_first (fun x => x =? b) (firstn (N.to_nat len) keys) 0.
Proof.
  intros st keys len b Hk Hbytes Hb Hl HL.
  rewrite (amd64_search16_correct st keys len b) by assumption. apply searchNode16_spec; assumption.
Qed.

Corollary amd64_insertpos16_scan : forall st keys len b, length keys = 16%nat ->
  Forall (fun x => x < 256) keys -> b < 256 -> len <= 16 -> X86.loaded st keys len b ->
  X86.result (X86.run Gen.AsmAmd64.amd64_insertPosNode16 st) =
  find_first (fun x => b <? x) (firstn (N.to_nat len) keys) 0.
Proof.
  intros st keys len b Hk Hbytes Hb Hl HL.
  rewrite (amd64_insertpos16_correct st keys len b) by assumption. apply insertPosNode16_spec; assumption.
Qed.

(* ================================================================== *)
(* arm64 (cannot be executed in this sandbox).  The routines never read
   childrenLen: what holds is equality with the model on ALL sixteen lanes; the
   statement with the fill count is refuted below (known finding D11). *)
(* ================================================================== *)
Module Arm64Facts.
Import Arm GoArt.Gen.AsmArm64.

Ltac destruct_state st :=
  destruct st as [r0 r1 r2 r3 r4 r5 r6 r7 v0 v1 v2 v3 ak al ab mb mm rt er].

Ltac symexec :=
  cbv [exec pre fall taken arm64_searchNode16 arm64_insertPosNode16
       fold_left step get set getv setv fail
       set_r0 set_r1 set_r2 set_r3 set_r4 set_r5 set_r6 set_r7 set_v0 set_v1 set_v2 set_v3 set_ret set_err
       Arm.r0 Arm.r1 Arm.r2 Arm.r3 Arm.r4 Arm.r5 Arm.r6 Arm.r7 Arm.v0 Arm.v1 Arm.v2 Arm.v3
       Arm.arg_keys Arm.arg_len Arm.arg_b Arm.mem_base Arm.mem Arm.ret Arm.err
       orb negb andb Z.leb Z.ltb Z.compare Pos.compare Pos.compare_cont Z.to_N].

(* everything after the lane compare, as a function of the compared lanes *)
Definition narrowed (v : list N) : N := le_word (firstn 8 (shrn8 4 v ++ zeros8)).
Definition tail_result (v : list N) : Z :=
  let w := narrowed v in
  if u64 w =? 0 then (-1)%Z
  else signed64 (u64 (asr64 (clz64 (rbit64 (N.land (u64 w) (of_imm 0x8888888888888888)))) 2)).

Lemma low8_sext8 : forall b, b < 256 -> low8 (sext8 b) = b.
Proof.
  intros b H. apply N.eqb_eq.
  apply (all1_spec (fun b => low8 (sext8 b) =? b)); [vm_compute; reflexivity | exact H].
Qed.

Lemma map2_repeat : forall f l c n, length l = n -> map2 f l (repeat c n) = map (fun k => f k c) l.
Proof.
  intros f l c. induction l as [|k l IH]; intros n H; subst n; cbn [length repeat map2 map]; [reflexivity|].
  rewrite IH by reflexivity. reflexivity.
Qed.

Lemma map2_repeat_l : forall f l c n, length l = n -> map2 f (repeat c n) l = map (fun k => f c k) l.
Proof.
  intros f l c. induction l as [|k l IH]; intros n H; subst n; cbn [length repeat map2 map]; [reflexivity|].
  rewrite IH by reflexivity. reflexivity.
Qed.

Definition pre_ok (g : N -> N) (s1 : state) (keys : list N) : Prop :=
  Arm.r2 s1 = narrowed (map g keys) /\ Arm.err s1 = false.

Lemma search_pre : forall st keys len b, length keys = 16%nat -> b < 256 -> loaded st keys len b ->
  pre_ok (fun k => cmpeq_lane b k) (exec (pre arm64_searchNode16) st) keys.
Proof.
  intros st keys len b Hk Hb HL. destruct_state st. unfold loaded in HL.
  cbn [Arm.arg_keys Arm.mem_base Arm.mem Arm.arg_len Arm.arg_b Arm.err] in HL.
  destruct HL as (-> & -> & -> & -> & ->).
  unfold pre_ok. symexec.
  rewrite N.eqb_refl, (low8_sext8 b Hb), (map2_repeat_l cmpeq_lane keys b 16 Hk).
  split; reflexivity.
Qed.

Lemma insertpos_pre : forall st keys len b, length keys = 16%nat -> b < 256 -> loaded st keys len b ->
  pre_ok (fun k => cmphi_lane k b) (exec (pre arm64_insertPosNode16) st) keys.
Proof.
  intros st keys len b Hk Hb HL. destruct_state st. unfold loaded in HL.
  cbn [Arm.arg_keys Arm.mem_base Arm.mem Arm.arg_len Arm.arg_b Arm.err] in HL.
  destruct HL as (-> & -> & -> & -> & ->).
  unfold pre_ok. symexec.
  rewrite N.eqb_refl, (low8_sext8 b Hb), (map2_repeat cmphi_lane keys b 16 Hk).
  split; reflexivity.
Qed.

Lemma fall_result : forall p s, fall p = fall arm64_searchNode16 ->
  Arm.err s = false -> result (exec (fall p) s) = (-1)%Z.
Proof.
  intros p s -> He. destruct_state s. cbn [Arm.err] in He. subst er.
  unfold result. symexec. vm_compute. reflexivity.
Qed.

Lemma taken_result : forall p s, taken p = taken arm64_searchNode16 -> Arm.err s = false ->
  result (exec (taken p) s) =
  signed64 (u64 (asr64 (clz64 (rbit64 (N.land (u64 (Arm.r2 s)) (of_imm 0x8888888888888888)))) 2)).
Proof.
  intros p s -> He. destruct_state s. cbn [Arm.err Arm.r2] in *. subst er.
  unfold result. symexec. reflexivity.
Qed.

Lemma run_from_pre : forall p g st keys,
  jcc p = CCBNZ R2 -> fall p = fall arm64_searchNode16 -> taken p = taken arm64_searchNode16 ->
  pre_ok g (exec (pre p) st) keys ->
  result (run p st) = tail_result (map g keys).
Proof.
  intros p g st keys Hj Hf Ht (E1 & E2). unfold run. rewrite Hj. cbv zeta.
  set (s1 := exec (pre p) st) in *. unfold tail_result. cbv zeta.
  change (get R2 s1) with (Arm.r2 s1). rewrite E1.
  destruct (u64 (narrowed (map g keys)) =? 0).
  - apply fall_result; assumption.
  - rewrite (taken_result p s1 Ht E2), E1. reflexivity.
Qed.

(* ---- the tail on sixteen lanes that are each 0x00 or 0xFF: 65,536 cases ---- *)
Fixpoint all_vecs (n : nat) : list (list N) :=
  match n with
  | O => [[]]
  | S n' => flat_map (fun t => [0 :: t; 255 :: t]) (all_vecs n')
  end.

Lemma in_all_vecs : forall v, Forall (fun x => x = 0 \/ x = 255) v -> In v (all_vecs (length v)).
Proof.
  induction v as [|x v IH]; intro H; cbn [length all_vecs]; [left; reflexivity|].
  inversion H as [|? ? Hx Hv]; subst. apply in_flat_map. exists v. split; [apply IH; exact Hv|].
  destruct Hx as [-> | ->]; [left | right; left]; reflexivity.
Qed.

Definition tail_check (v : list N) : bool :=
  Z.eqb (tail_result v) (let bf := movemask v in if bf =? 0 then (-1)%Z else Z.of_N (tz bf)).

Lemma tail_sweep : forallb tail_check (all_vecs 16) = true.
Proof. vm_compute. reflexivity. Qed.

Lemma tail_result_spec : forall v, length v = 16%nat -> Forall (fun x => x = 0 \/ x = 255) v ->
  tail_result v = (let bf := movemask v in if bf =? 0 then (-1)%Z else Z.of_N (tz bf)).
Proof.
  intros v Hl Hv. apply Z.eqb_eq. pose proof tail_sweep as S. rewrite forallb_forall in S.
  apply (S v). rewrite <- Hl. apply in_all_vecs. exact Hv.
Qed.

Lemma all_lanes : forall (g : N -> N) (f : N -> bool) keys,
  length keys = 16%nat ->
  (forall k, g k = 0 \/ g k = 255) -> (forall k, N.testbit (g k) 7 = f k) ->
  tail_result (map g keys) =
  (let bf := N.land (bitfield f (firstn 16 keys) 0) (lanemask 16) in
   if bf =? 0 then (-1)%Z else Z.of_N (tz bf)).
Proof.
  intros g f keys Hk Hg Hf.
  rewrite tail_result_spec; [| rewrite map_length; exact Hk | apply Forall_forall; intros x Hx;
    apply in_map_iff in Hx; destruct Hx as (k & <- & _); apply Hg].
  rewrite firstn_all2 by lia. unfold movemask. rewrite bitfield_map.
  rewrite (bitfield_ext _ f keys 0) by (intros k _; apply Hf).
  assert (Hb : bitfield f keys 0 < 65536).
  { pose proof (bitfield_lt f keys) as B. rewrite Hk in B. exact B. }
  replace (N.land (bitfield f keys 0) (lanemask 16)) with (bitfield f keys 0); [reflexivity|].
  change (lanemask 16) with (N.ones 16). rewrite N.land_ones. change (2 ^ 16) with 65536.
  rewrite N.mod_small by exact Hb. reflexivity.
Qed.

End Arm64Facts.
Import Arm64Facts.

Theorem arm64_search16_all_lanes : forall st keys len b, length keys = 16%nat ->
  Forall (fun x => x < 256) keys -> b < 256 -> Arm.loaded st keys len b ->
  Arm.result (Arm.run Gen.AsmArm64.arm64_searchNode16 st) = searchNode16 keys 16 b.
Proof.
  intros st keys len b Hk _ Hb HL.
  rewrite (Arm64Facts.run_from_pre Gen.AsmArm64.arm64_searchNode16 (fun k => cmpeq_lane b k) st keys eq_refl eq_refl eq_refl
             (Arm64Facts.search_pre st keys len b Hk Hb HL)).
  unfold searchNode16. apply (all_lanes (fun k => cmpeq_lane b k) (fun k => k =? b) keys Hk).
  - intro k. unfold cmpeq_lane. destruct (b =? k); auto.
  - intro k. rewrite cmpeq_top. apply N.eqb_sym.
Qed.

Theorem arm64_insertpos16_all_lanes : forall st keys len b, length keys = 16%nat ->
  Forall (fun x => x < 256) keys -> b < 256 -> Arm.loaded st keys len b ->
  Arm.result (Arm.run Gen.AsmArm64.arm64_insertPosNode16 st) = insertPosNode16 keys 16 b.
Proof.
  intros st keys len b Hk _ Hb HL.
  rewrite (Arm64Facts.run_from_pre Gen.AsmArm64.arm64_insertPosNode16 (fun k => cmphi_lane k b) st keys eq_refl eq_refl eq_refl
             (Arm64Facts.insertpos_pre st keys len b Hk Hb HL)).
  unfold insertPosNode16. apply (all_lanes (fun k => cmphi_lane k b) (fun k => b <? k) keys Hk).
  - intro k. unfold cmphi_lane. destruct (b <? k); auto.
  - intro k. apply cmphi_top.
Qed.

Theorem arm64_search16_ignores_len_refuted : exists st keys len b,
  length keys = 16%nat /\ Forall (fun x => x < 256) keys /\ b < 256 /\ len <= 16 /\ Arm.loaded st keys len b /\
  Arm.result (Arm.run Gen.AsmArm64.arm64_searchNode16 st) <> searchNode16 keys len b.
Proof.
  (* sixteen children 0..15, the largest removed (fill count 15, lane 15 still holds 15), probe 15:
     the routine answers 15, the portable code and the amd64 routine answer -1 *)
  exists (Arm.init [0;1;2;3;4;5;6;7;8;9;10;11;12;13;14;15] 15 15), [0;1;2;3;4;5;6;7;8;9;10;11;12;13;14;15], 15, 15.
  split; [reflexivity|]. split; [repeat constructor|]. split; [reflexivity|]. split; [discriminate|].
  split; [unfold Arm.loaded; cbn; repeat split|]. vm_compute. discriminate.
Qed.

Theorem arm64_insertpos16_ignores_len_refuted : exists st keys len b,
  length keys = 16%nat /\ Forall (fun x => x < 256) keys /\ b < 256 /\ len <= 16 /\ Arm.loaded st keys len b /\
  Arm.result (Arm.run Gen.AsmArm64.arm64_insertPosNode16 st) <> insertPosNode16 keys len b.
Proof.
  (* fifteen children 0..14 and a stale 200 in lane 15, insert position of 100: the routine answers 15
     (inside the node: the new child would be placed before a child that does not exist), the portable code -1 *)
  exists (Arm.init [0;1;2;3;4;5;6;7;8;9;10;11;12;13;14;200] 15 100), [0;1;2;3;4;5;6;7;8;9;10;11;12;13;14;200], 15, 100.
  split; [reflexivity|]. split; [repeat constructor|]. split; [reflexivity|]. split; [discriminate|].
  split; [unfold Arm.loaded; cbn; repeat split|]. vm_compute. discriminate.
Qed.

(* ================================================================== *)
(* Sanity: the amd64 semantics against the REAL routines. Each row is
   (insertPos?, sixteen key bytes, childrenLen, b, value returned by the assembled routine);
   the last column was produced by the verif-tagged harness (commands N16S / N16I) on this
   machine: stale bytes above the fill count, bytes >= 0x80, fill counts 0 and 16, and fill
   counts above 16 (17, 31, 32, 33, 48, 255: the 5-bit shift-count mask of SALW is visible). *)
(* ================================================================== *)
Definition amd64_ground_truth : list (bool * list N * N * N * Z) := [
  (false, [0x00; 0x01; 0x02; 0x03; 0x04; 0x05; 0x06; 0x07; 0x08; 0x09; 0x0a; 0x0b; 0x0c; 0x0d; 0x0e; 0x0f], 0x10, 0x07, (7)%Z);
  (false, [0x00; 0x01; 0x02; 0x03; 0x04; 0x05; 0x06; 0x07; 0x08; 0x09; 0x0a; 0x0b; 0x0c; 0x0d; 0x0e; 0x0f], 0x05, 0x07, (-1)%Z);
  (false, [0x00; 0x01; 0x02; 0x03; 0x04; 0x05; 0x06; 0x07; 0x08; 0x09; 0x0a; 0x0b; 0x0c; 0x0d; 0x0e; 0x0f], 0x00, 0x00, (-1)%Z);
  (false, [0x10; 0x20; 0x7f; 0x80; 0x81; 0xfe; 0xff; 0x00; 0x00; 0x00; 0x00; 0x00; 0x00; 0x00; 0x00; 0x00], 0x06, 0xff, (-1)%Z);
  (false, [0x10; 0x20; 0x7f; 0x80; 0x81; 0xfe; 0xff; 0x00; 0x00; 0x00; 0x00; 0x00; 0x00; 0x00; 0x00; 0x00], 0x07, 0xff, (6)%Z);
  (false, [0x10; 0x20; 0x7f; 0x80; 0x81; 0xfe; 0xff; 0x80; 0x80; 0x80; 0x80; 0x80; 0x80; 0x80; 0x80; 0x80], 0x07, 0x80, (3)%Z);
  (false, [0x10; 0x20; 0x7f; 0x80; 0x81; 0xfe; 0xff; 0x80; 0x80; 0x80; 0x80; 0x80; 0x80; 0x80; 0x80; 0x80], 0x03, 0x80, (-1)%Z);
  (false, [0xff; 0xff; 0xff; 0xff; 0xff; 0xff; 0xff; 0xff; 0xff; 0xff; 0xff; 0xff; 0xff; 0xff; 0xff; 0xff], 0x10, 0xff, (0)%Z);
  (false, [0xff; 0xff; 0xff; 0xff; 0xff; 0xff; 0xff; 0xff; 0xff; 0xff; 0xff; 0xff; 0xff; 0xff; 0xff; 0xff], 0x00, 0xff, (-1)%Z);
  (false, [0x00; 0x01; 0x02; 0x03; 0x04; 0x05; 0x06; 0x07; 0x08; 0x09; 0x0a; 0x0b; 0x0c; 0x0d; 0x0e; 0x0f], 0x10, 0x0f, (15)%Z);
  (false, [0x00; 0x01; 0x02; 0x03; 0x04; 0x05; 0x06; 0x07; 0x08; 0x09; 0x0a; 0x0b; 0x0c; 0x0d; 0x0e; 0x0f], 0x0f, 0x0f, (-1)%Z);
  (true, [0x00; 0x01; 0x02; 0x03; 0x04; 0x05; 0x06; 0x07; 0x08; 0x09; 0x0a; 0x0b; 0x0c; 0x0d; 0x0e; 0x0f], 0x10, 0x07, (8)%Z);
  (true, [0x00; 0x01; 0x02; 0x03; 0x04; 0x05; 0x06; 0x07; 0x08; 0x09; 0x0a; 0x0b; 0x0c; 0x0d; 0x0e; 0x0f], 0x05, 0x07, (-1)%Z);
  (true, [0x10; 0x20; 0x7f; 0x80; 0x81; 0xfe; 0xff; 0x00; 0x00; 0x00; 0x00; 0x00; 0x00; 0x00; 0x00; 0x00], 0x07, 0x7f, (3)%Z);
  (true, [0x10; 0x20; 0x7f; 0x80; 0x81; 0xfe; 0xff; 0x00; 0x00; 0x00; 0x00; 0x00; 0x00; 0x00; 0x00; 0x00], 0x07, 0x80, (4)%Z);
  (true, [0x10; 0x20; 0x7f; 0x80; 0x81; 0xfe; 0xff; 0x00; 0x00; 0x00; 0x00; 0x00; 0x00; 0x00; 0x00; 0x00], 0x07, 0xfe, (6)%Z);
  (true, [0x10; 0x20; 0x7f; 0x80; 0x81; 0xfe; 0xff; 0x00; 0x00; 0x00; 0x00; 0x00; 0x00; 0x00; 0x00; 0x00], 0x07, 0xff, (-1)%Z);
  (true, [0x10; 0x20; 0x7f; 0x80; 0x81; 0xfe; 0xff; 0xff; 0xff; 0xff; 0xff; 0xff; 0xff; 0xff; 0xff; 0xff], 0x06, 0xfe, (-1)%Z);
  (true, [0x10; 0x20; 0x7f; 0x80; 0x81; 0xfe; 0xff; 0x00; 0x00; 0x00; 0x00; 0x00; 0x00; 0x00; 0x00; 0x00], 0x00, 0x00, (-1)%Z);
  (true, [0x10; 0x20; 0x7f; 0x80; 0x81; 0xfe; 0xff; 0x00; 0x00; 0x00; 0x00; 0x00; 0x00; 0x00; 0x00; 0x00], 0x10, 0x00, (0)%Z);
  (true, [0x00; 0x00; 0x00; 0x00; 0x00; 0x00; 0x00; 0x00; 0x00; 0x00; 0x00; 0x00; 0x00; 0x00; 0x00; 0x80], 0x10, 0x7f, (15)%Z);
  (true, [0x00; 0x00; 0x00; 0x00; 0x00; 0x00; 0x00; 0x00; 0x00; 0x00; 0x00; 0x00; 0x00; 0x00; 0x00; 0x80], 0x0f, 0x7f, (-1)%Z);
  (false, [0x00; 0x01; 0x02; 0x03; 0x04; 0x05; 0x06; 0x07; 0x08; 0x09; 0x0a; 0x0b; 0x0c; 0x0d; 0x0e; 0x0f], 0x11, 0x0f, (15)%Z);
  (false, [0x00; 0x01; 0x02; 0x03; 0x04; 0x05; 0x06; 0x07; 0x08; 0x09; 0x0a; 0x0b; 0x0c; 0x0d; 0x0e; 0x0f], 0x1f, 0x0f, (15)%Z);
  (false, [0x00; 0x01; 0x02; 0x03; 0x04; 0x05; 0x06; 0x07; 0x08; 0x09; 0x0a; 0x0b; 0x0c; 0x0d; 0x0e; 0x0f], 0x20, 0x0f, (-1)%Z);
  (false, [0x00; 0x01; 0x02; 0x03; 0x04; 0x05; 0x06; 0x07; 0x08; 0x09; 0x0a; 0x0b; 0x0c; 0x0d; 0x0e; 0x0f], 0x21, 0x00, (0)%Z);
  (true, [0x00; 0x01; 0x02; 0x03; 0x04; 0x05; 0x06; 0x07; 0x08; 0x09; 0x0a; 0x0b; 0x0c; 0x0d; 0x0e; 0x0f], 0x20, 0x00, (-1)%Z);
  (true, [0x00; 0x01; 0x02; 0x03; 0x04; 0x05; 0x06; 0x07; 0x08; 0x09; 0x0a; 0x0b; 0x0c; 0x0d; 0x0e; 0x0f], 0x30, 0x00, (1)%Z);
  (true, [0x00; 0x01; 0x02; 0x03; 0x04; 0x05; 0x06; 0x07; 0x08; 0x09; 0x0a; 0x0b; 0x0c; 0x0d; 0x0e; 0x0f], 0xff, 0x00, (1)%Z) ].

(* two initial states: all registers zero, and junk everywhere (upper bits of the byte-loaded
   registers, X registers, ZF, old result slot) *)
Definition junk_init (keys : list N) (len b : N) : X86.state :=
  let j := 0xDEADBEEFCAFEF00D in let x := repeat 0xAB 16 in
  X86.mkState j j j j j j j j j j j j j j x x x x true 0x7fff1000 len b 0x7fff1000 keys 0x5555555555555555 false.

Definition ground_truth_row (init : list N -> N -> N -> X86.state) (r : bool * list N * N * N * Z) : bool :=
  let '(ins, keys, len, b, want) := r in
  Z.eqb (X86.result (X86.run (if ins then Gen.AsmAmd64.amd64_insertPosNode16 else Gen.AsmAmd64.amd64_searchNode16)
                             (init keys len b))) want.

Example amd64_matches_hardware_zero_init : forallb (ground_truth_row X86.init) amd64_ground_truth = true.
Proof. vm_compute. reflexivity. Qed.

Example amd64_matches_hardware_junk_init : forallb (ground_truth_row junk_init) amd64_ground_truth = true.
Proof. vm_compute. reflexivity. Qed.

(* above 31 the hardware and the portable code part ways (never reached by the library: childrenLen <= 16):
   childrenLen = 32 gives the empty mask on amd64 (count 32 mod 32 = 0), all sixteen lanes in Go's int arithmetic *)
Example amd64_len32_differs :
  X86.result (X86.run Gen.AsmAmd64.amd64_searchNode16 (X86.init [0;1;2;3;4;5;6;7;8;9;10;11;12;13;14;15] 32 15)) = (-1)%Z /\
  searchNode16 [0;1;2;3;4;5;6;7;8;9;10;11;12;13;14;15] 32 15 = 15%Z.
Proof. split; vm_compute; reflexivity. Qed.

(* arm64 on concrete inputs (no hardware here: these only pin the model down) *)
Example arm64_examples :
  Arm.result (Arm.run Gen.AsmArm64.arm64_searchNode16 (Arm.init [0;1;2;3;4;5;6;7;8;9;10;11;12;13;14;15] 16 7)) = 7%Z /\
  Arm.result (Arm.run Gen.AsmArm64.arm64_searchNode16 (Arm.init [0;1;2;3;4;5;6;7;8;9;10;11;12;13;14;15] 16 77)) = (-1)%Z /\
  Arm.result (Arm.run Gen.AsmArm64.arm64_searchNode16 (Arm.init [16;32;127;128;129;254;255;0;0;0;0;0;0;0;0;0] 7 255)) = 6%Z /\
  Arm.result (Arm.run Gen.AsmArm64.arm64_insertPosNode16 (Arm.init [16;32;127;128;129;254;255;0;0;0;0;0;0;0;0;0] 7 128)) = 4%Z /\
  Arm.result (Arm.run Gen.AsmArm64.arm64_insertPosNode16 (Arm.init [16;32;127;128;129;254;255;0;0;0;0;0;0;0;0;0] 7 255)) = (-1)%Z.
Proof. repeat split; vm_compute; reflexivity. Qed.

Print Assumptions amd64_search16_correct.
Print Assumptions amd64_insertpos16_correct.
Print Assumptions arm64_search16_all_lanes.
Print Assumptions arm64_insertpos16_all_lanes.
Print Assumptions arm64_search16_ignores_len_refuted.
