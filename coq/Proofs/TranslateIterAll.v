(* Proofs/TranslateIterFacts.v, part 2 of 7: all *)
From GoArt Require Import Base.Bytes Model.Node4 Model.Node16 Model.Node Model.Tree Model.Iter Model.Api
  Spec.NodeSpec Spec.TreeSpec Spec.IterSpec Proofs.BytesFacts Proofs.Node4Facts Proofs.NodeFacts Proofs.TreeBasics Proofs.NodeAux48
  Proofs.NodeAuxAssoc Proofs.NodeAuxArr Proofs.InsertFacts Proofs.IterFacts Spec.Ideal Proofs.PropFacts Proofs.TranslateFacts.
From GoArt Require Import Model.Pool Proofs.PoolFacts Model.PoolTree Proofs.PoolTreeFacts.
From GoArt Require Import Model.GoArith Model.GoTree Gen.Node4Gen Gen.Node16Gen Gen.TreeGen Proofs.TranslateTreeFacts Gen.IterGen.
From GoArt Require Import Proofs.TranslateIterBase.
From Coq Require Import ZifyN ZifyNat ZifyBool.
Ltac Zify.zify_post_hook ::= Z.div_mod_to_equations.
Open Scope N_scope.

(* ================= 4. all ================= *)
Lemma all_down4 : forall k n q, (k <= length (xch n))%nat ->
  g_all_loop2 k n q (Z.of_nat k - 1) = LDone (q ++ rev (map idref (firstn k (xch n))), (-1)%Z).
Proof. apply down_arr. intros [|fuel] n q i; reflexivity. Qed.
Lemma all_down16 : forall k n q, (k <= length (xch n))%nat ->
  g_all_loop3 k n q (Z.of_nat k - 1) = LDone (q ++ rev (map idref (firstn k (xch n))), (-1)%Z).
Proof. apply down_arr. intros [|fuel] n q i; reflexivity. Qed.
Lemma all_down48 : forall k n q, (k <= length (xbytes n))%nat -> cells48_ok n 0 k ->
  g_all_loop4 k n q (Z.of_nat k - 1) = LDone (q ++ rev (map idref (map Some (kids48 (xch n) (firstn k (xbytes n))))), (-1)%Z).
Proof. apply down_48. intros [|fuel] n q i; reflexivity. Qed.
Lemma all_down256 : forall k n q, (k <= length (xch n))%nat ->
  g_all_loop5 k n q (Z.of_nat k - 1) = LDone (q ++ rev (map idref (map Some (somes (firstn k (xch n))))), (-1)%Z).
Proof. apply down_256. intros [|fuel] n q i; reflexivity. Qed.

Lemma all_inner : forall fuel ans n q i acc, xwf n ->
  g_all_loop1 (S fuel) ans (q ++ [Some (XInner n)]) i acc = g_all_loop1 fuel ans (q ++ rev (map Some (xkids n))) i acc.
Proof.
  intros fuel ans n q i acc Hx. cbn [g_all_loop1]. rewrite len_nonzero, idx_refs_last, slice_to_last.
  fwd_inner Hx all_down4 all_down16 all_down48 all_down256; rewrite map_idref; reflexivity.
Qed.

(* all(): for every budget and every stack of well-formed raw trees the main loop is the model's walk *)
Theorem gen_all_loop_eq : forall fuel xs ans i acc, Forall xtwf xs ->
  ires_abs (g_all_loop1 fuel ans (map Some (rev xs)) i acc) =
  Some (walk (fun _ => Deliver) expand_fwd fuel (with_depth 0 (map tabs xs)) ans i (map tabs acc)).
Proof.
  induction fuel as [|fuel IH]; intros xs ans i acc HF; [reflexivity|].
  destruct xs as [|x xs]; [reflexivity|].
  apply Forall_cons_iff in HF. destruct HF as [Hx HF]. rewrite q_pop.
  destruct x as [gk tk v|n].
  - cbn [g_all_loop1]. rewrite len_nonzero, idx_refs_last, slice_to_last.
    cbn [ref_tag gkind_eqb ref_pointer cast_leaf]. cbv zeta. cbn [with_depth map tabs walk].
    destruct (ans i); cbn [negb]; [|reflexivity].
    exact (IH xs ans (S i) (XLeaf gk tk v :: acc) HF).
  - destruct (xtwf_inv _ Hx) as [Hxw _]. rewrite (all_inner fuel ans n _ i acc Hxw), q_push_fwd.
    rewrite IH by (apply Forall_app; split; [apply xkids_xtwf; exact Hx|exact HF]).
    cbn [with_depth map tabs walk]. fold (nabs n). unfold expand_fwd. rewrite nchildren_nabs, stack_push. reflexivity.
Qed.

Theorem gen_all_eq : forall fuel t ans, xtwf t ->
  ires_abs (g_all fuel (Some t) ans) = Some (walk (fun _ => Deliver) expand_fwd fuel [(tabs t, 0%nat)] ans 0 []).
Proof.
  intros fuel t ans Hx. unfold g_all. cbv zeta. cbn [ref_pointer ref_is_nil app].
  exact (gen_all_loop_eq fuel [t] ans 0%nat [] (Forall_cons _ Hx (Forall_nil _))).
Qed.
(* a nil root: the closure returns at once, yield is not called *)
Theorem gen_all_nil : forall fuel ans, g_all fuel None ans = IDone ByReturn 0 [].
Proof. reflexivity. Qed.
