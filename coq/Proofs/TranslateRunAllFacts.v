(* gen_alpha_run_refines (Proofs/TranslateRunFacts.v) extended.
   A. g_alpha_run_all: EVERY operation of the public interface of the byte-string tree.  The three updates are the
      steps of g_alpha_step (regenerated Insert / Delete over the heap, regenerated Search); the nine queries are
      the REGENERATED thin methods of Gen/ApiGen.v (g_alpha_Minimum .. g_alpha_Prefix) applied to the tree the heap
      holds (GoHeap.h_reify) and to t.size, with the budgets Proofs/TranslateApiFacts.v proves sufficient (computed
      from that tree: its height, its size; they are NOT trusted: a budget too small is the visible outcome OFuel,
      which the theorem excludes), read with kres_out / gopt_out / gint_out of TranslateApiFacts.v.
      gen_alpha_run_refines_all: on every history_ok history over the twelve operations the outputs are those of
      Model/Api.run, hence of the reference map. *)
From GoArt Require Import Base.Bytes Model.Node4 Model.Node16 Model.Node Model.Tree Model.Iter Model.Api
  Spec.NodeSpec Spec.TreeSpec Spec.Ideal Proofs.BytesFacts Proofs.NodeFacts Proofs.TreeBasics Proofs.InsertFacts
  Proofs.ApiFacts Proofs.PropFacts
  Model.Pool Proofs.PoolFacts Model.PoolTree Proofs.PoolTreeFacts Model.GoNode Model.GoTree Model.GoHeap
  Gen.NodeGen Gen.TreeGen Proofs.TranslateNodeFacts Proofs.TranslateTreeFacts Gen.MutGen Proofs.TranslateMutFacts
  Gen.IterGen Gen.ApiGen Proofs.TranslateApiFacts Proofs.TranslateRunFacts
  Model.Keys Proofs.KeysFacts Gen.KeysGen Proofs.TranslateKeysFacts.
From Coq Require Import ZifyN ZifyNat ZifyBool.
Ltac Zify.zify_post_hook ::= Z.div_mod_to_equations.
Open Scope N_scope.

(* ================= A. all twelve operations of the byte-string tree ================= *)
(* the state of the tree as the thin methods see it: the tree the heap holds, and t.size *)
Definition g_xstate (g : gstate) : xstate := mkXstate (h_reify (g_heap g) (g_root g)) (g_size g).
(* the budgets of the scans, from the tree itself (Model/Api.v takes the same) *)
Definition bud_walk (g : gstate) : nat := match h_reify (g_heap g) (g_root g) with Some t => walk_fuel (tabs t) | None => O end.
Definition bud_height (g : gstate) : nat := match h_reify (g_heap g) (g_root g) with Some t => theight (tabs t) | None => O end.
(* Transform of the byte-string codec as the thin methods use it (the terminator is appended by the methods) *)
Definition alpha_tr : list N -> list N * list N := fun l => (l, l).

Definition g_alpha_step_all (g : gstate) (o : op) (os : list choice) : gstate * out :=
  let root := h_reify (g_heap g) (g_root g) in
  match o with
  | Insert _ _ | Search _ | Delete _ => g_alpha_step g o os
  | Minimum => (g, gopt_out AB (g_alpha_Minimum alpha_tr alpha_rs (bud_height g) root))
  | Maximum => (g, gopt_out AB (g_alpha_Maximum alpha_tr alpha_rs (bud_height g) root))
  | Size => (g, gint_out (g_alpha_Size alpha_tr alpha_rs (g_size g)))
  | All stop => (g, kres_out AB (g_alpha_All alpha_tr alpha_rs (bud_walk g) root (stop_ans stop)))
  | Backward stop => (g, kres_out AB (g_alpha_Backward alpha_tr alpha_rs (bud_walk g) root (stop_ans stop)))
  | TopK n stop => (g, kres_out AB (g_alpha_TopK alpha_tr alpha_rs (bud_walk g) (bud_walk g) root n (stop_ans stop)))
  | BottomK n stop => (g, kres_out AB (g_alpha_BottomK alpha_tr alpha_rs (bud_walk g) (bud_walk g) root n (stop_ans stop)))
  | Range (AB a) (AB b) stop =>
      (g, kres_out AB (g_alpha_Range alpha_tr alpha_rs (bud_height g) (bud_walk g) root a b (stop_ans stop)))
  | Prefix (AB p) stop =>
      (g, kres_out AB (g_alpha_Prefix alpha_tr alpha_rs (bud_walk g) (bud_walk g) (bud_height g + length p + 3) root p (stop_ans stop)))
  | _ => (g, ONone)
  end.
Fixpoint g_alpha_run_all (evs : list (op * list choice)) (g : gstate) : list out :=
  match evs with
  | [] => []
  | (o, os) :: evs' => let r := g_alpha_step_all g o os in snd r :: g_alpha_run_all evs' (fst r)
  end.
(* the calls a Go program can make on a tree of byte strings: keys are byte strings, k is a Go uint, the argument
   of Prefix is a byte string (bytes) *)
Definition alpha_op_all (o : op) : Prop :=
  match o with
  | Insert (AB _) _ | Search (AB _) | Delete (AB _) => True
  | Minimum | Maximum | Size | All _ | Backward _ => True
  | TopK n _ | BottomK n _ => n < 2 ^ 64
  | Range (AB _) (AB _) _ => True
  | Prefix (AB p) _ => isbytes p = true
  | _ => False
  end.

(* what the thin methods need of the state, from the invariant of the run *)
Lemma reified_state : forall P g s cs, (forall p, In p P -> fst p <> []) -> run_inv P g s cs ->
  sinv (g_xstate g) /\ sabs (g_xstate g) = s /\ root_wf s /\ keys_ok nonempty_key (g_xstate g).
Proof.
  intros P g s cs HPne (st & pm & F & Es & Hrep & HP & Hs & (Hr & Hbd) & Hw & Hzp & Ep & Esz).
  destruct g as [h r sz p]. unfold g_xstate, sinv, keys_ok, root_wf. cbn [g_heap g_root g_size g_pool xroot] in *.
  destruct r as [a|]; destruct (xroot st) as [t|] eqn:Er; cbn [repr_root] in Hr; try contradiction.
  - destruct Hr as (at_ & <- & <- & Hst & Hsep & HF). cbn [h_reify].
    assert (Hh : (theight (tabs (strip at_)) <= next h)%nat).
    { apply (height_bound h at_ (next h) Hst Hsep). intros x Hx. eapply live_lt; eauto. }
    pose proof (reify_tabs _ _ _ Hst Hh) as Et. pose proof (reify_xtwf _ _ _ Hst Hh) as Hx.
    assert (Esabs : sabs (mkXstate (Some (reify (next h) h (aref at_))) sz) = s).
    { rewrite <- Es. unfold sabs. cbn [xroot xsize]. rewrite Er, Et, Esz. reflexivity. }
    destruct Hrep as [Hrep Hsz]. rewrite <- Es, sabs_root, Er in Hrep. destruct Hrep as [Hwf Hl].
    split; [exact Hx|]. split; [exact Esabs|]. split; [rewrite <- Es, sabs_root, Er; exact Hwf|].
    rewrite Et. apply Forall_forall. intros l Hin. rewrite Hl in Hin.
    pose proof (proj1 (Forall_forall _ _) HP l Hin) as Hp. cbv beta in Hp. apply (HPne _ Hp).
  - cbn [h_reify]. split; [exact I|]. split; [|split; [|exact I]].
    + rewrite <- Es. unfold sabs. cbn [xroot xsize]. rewrite Er, Esz. reflexivity.
    + rewrite <- Es, sabs_root, Er. exact I.
Qed.

Section RunAll.
Variable P : list kpair.
Hypothesis Hok : Ideal.ins_ok P = true.
Hypothesis HT : forall p, In p P -> exists a, p = transform KAlpha a.
Hypothesis HPs : forall p, In p P -> N.of_nat (length (snd p)) < M32.
Hypothesis HPne : forall p, In p P -> fst p <> [].

Lemma g_alpha_step_all_refines : forall g s cs o os,
  run_inv P g s cs -> alpha_op_all o ->
  Forall (fun a => In (transform KAlpha a) P) (ins_keys o) ->
  forallb (probe_ok P) (map (transform KAlpha) (probe_keys KAlpha o)) = true ->
  snd (g_alpha_step_all g o os) = snd (Api.step KAlpha s o) /\
  run_inv P (fst (g_alpha_step_all g o os)) (fst (Api.step KAlpha s o)) (fst (ideal_step KAlpha cs o)).
Proof.
  intros g s cs o os Hinv Hao Hins Hprobe.
  destruct (reified_state P g s cs HPne Hinv) as (Hs & Es & Hw & Hk).
  assert (Hbw : forall t, xroot (g_xstate g) = Some t -> bud_walk g = walk_fuel (tabs t))
    by (intros t Ht; unfold bud_walk; unfold g_xstate in Ht; cbn [xroot] in Ht; rewrite Ht; reflexivity).
  assert (Hbh : forall t, xroot (g_xstate g) = Some t -> bud_height g = theight (tabs t))
    by (intros t Ht; unfold bud_height; unfold g_xstate in Ht; cbn [xroot] in Ht; rewrite Ht; reflexivity).
  destruct o as [a v|a|a| | | |stop|stop|m stop|m stop|a b stop|a stop]; cbn [g_alpha_step_all].
  1-3: destruct a as [l| | | | |]; try contradiction; apply (g_alpha_step_refines P Hok HT HPs); try assumption; exact I.
  all: cbv zeta; cbn [fst snd Api.step ideal_step]; change (h_reify (g_heap g) (g_root g)) with (xroot (g_xstate g)).
  - split; [|exact Hinv]. rewrite (gen_alpha_minimum_eq alpha_tr (g_xstate g) _ Hs ltac:(rewrite Es; exact Hw) Hk Hbh), Es. reflexivity.
  - split; [|exact Hinv]. rewrite (gen_alpha_maximum_eq alpha_tr (g_xstate g) _ Hs ltac:(rewrite Es; exact Hw) Hk Hbh), Es. reflexivity.
  - split; [|exact Hinv]. change (g_size g) with (xsize (g_xstate g)). rewrite gen_alpha_size_eq, Es. reflexivity.
  - split; [|exact Hinv]. rewrite (gen_alpha_all_eq alpha_tr (g_xstate g) _ _ Hs Hk Hbw), Es. reflexivity.
  - split; [|exact Hinv]. rewrite (gen_alpha_backward_eq alpha_tr (g_xstate g) _ _ Hs Hk Hbw), Es. reflexivity.
  - split; [|exact Hinv]. rewrite (gen_alpha_topk_eq alpha_tr (g_xstate g) _ _ m _ Hs Hk Hao Hbw), Es. reflexivity.
  - split; [|exact Hinv]. rewrite (gen_alpha_bottomk_eq alpha_tr (g_xstate g) _ _ m _ Hs Hk Hao Hbw), Es. reflexivity.
  - destruct a as [a| | | | |]; try contradiction. destruct b as [b| | | | |]; try contradiction.
    cbn [fst snd]. split; [|exact Hinv].
    rewrite (gen_alpha_range_eq alpha_tr (g_xstate g) a b _ _ _ Hs ltac:(rewrite Es; exact Hw) Hk), Es; [reflexivity|].
    intros t Ht. split; [apply Hbh; exact Ht|apply Hbw; exact Ht].
  - destruct a as [p| | | | |]; try contradiction. cbn [fst snd]. split; [|exact Hinv].
    rewrite (gen_alpha_prefix_eq alpha_tr (g_xstate g) p _ _ _ _ Hs ltac:(rewrite Es; exact Hw) Hk Hao), Es; [reflexivity|].
    intros t Ht. rewrite (Hbw t Ht), (Hbh t Ht). unfold walk_fuel. repeat split; lia.
Qed.

Lemma g_alpha_run_all_gen : forall evs g s cs,
  run_inv P g s cs -> Forall alpha_op_all (map fst evs) ->
  Forall (fun a => In (transform KAlpha a) P) (flat_map ins_keys (map fst evs)) ->
  forallb (probe_ok P) (map (transform KAlpha) (flat_map (probe_keys KAlpha) (map fst evs))) = true ->
  g_alpha_run_all evs g = snd (Api.run KAlpha s (map fst evs)).
Proof.
  induction evs as [|[o os] evs IH]; intros g s cs Hinv Hao Hins Hprobe; [reflexivity|].
  cbn [map fst flat_map] in Hao, Hins, Hprobe. inversion Hao as [|x xs Ha1 Ha2]; subst x xs.
  apply Forall_app in Hins. destruct Hins as [Hi1 Hi2].
  rewrite map_app, forallb_app in Hprobe. apply andb_true_iff in Hprobe. destruct Hprobe as [Hp1 Hp2].
  destruct (g_alpha_step_all_refines g s cs o os Hinv Ha1 Hi1 Hp1) as (E1 & Hinv').
  cbn [g_alpha_run_all map fst]. rewrite api_run_cons. cbn [snd]. rewrite E1. f_equal.
  apply (IH _ _ _ Hinv' Ha2 Hi2 Hp2).
Qed.
End RunAll.

Theorem gen_alpha_run_refines_all : forall evs,
  Forall alpha_op_all (map fst evs) -> history_ok KAlpha (map fst evs) = true -> short_keys KAlpha (map fst evs) ->
  g_alpha_run_all evs g_init = snd (Api.run KAlpha Api.init (map fst evs)) /\
  g_alpha_run_all evs g_init = snd (ideal_run KAlpha [] (map fst evs)).
Proof.
  intros evs Hao Hh Hshort.
  cut (g_alpha_run_all evs g_init = snd (Api.run KAlpha Api.init (map fst evs))).
  { intros E. split; [exact E|]. rewrite E. apply (run_refines KAlpha _ Hh). }
  set (ops := map fst evs) in *. unfold history_ok in Hh.
  apply andb_true_iff in Hh. destruct Hh as [Hh Hop]. apply andb_true_iff in Hh. destruct Hh as [Hok Hpr].
  assert (Hins : forall p, In p (ins_pairs KAlpha ops) -> exists a v, In (Insert a v) ops /\ p = transform KAlpha a).
  { intros p Hp. unfold ins_pairs in Hp. apply in_map_iff in Hp. destruct Hp as (a & <- & Hin).
    apply in_flat_map in Hin. destruct Hin as (o & Ho & Hao'). destruct o; cbn [ins_keys] in Hao'; try contradiction.
    destruct Hao' as [->|[]]. eauto. }
  apply (g_alpha_run_all_gen (ins_pairs KAlpha ops) Hok) with (cs := []).
  - intros p Hp. destruct (Hins p Hp) as (a & v & _ & ->). eauto.
  - intros p Hp. destruct (Hins p Hp) as (a & v & Ho & ->). apply (Hshort a v Ho).
  - intros p Hp. destruct (Hins p Hp) as (a & v & Ho & ->).
    pose proof (proj1 (Forall_forall _ _) Hao _ Ho) as Ha. destruct a; try contradiction. cbn [transform fst].
    destruct l; discriminate.
  - exists xinit, [], (fun _ => False). cbn [g_init g_heap g_root g_size g_pool xinit xroot xsize].
    split; [reflexivity|]. split; [unfold rep, Api.init; cbn [root size length]; auto|]. split; [constructor|].
    split; [exact I|]. split; [split; [intros x Hx; exact Hx|intros x []]|]. split; [intros x _; reflexivity|].
    split; [constructor|]. split; reflexivity.
  - exact Hao.
  - apply Forall_forall. intros a Ha. unfold ins_pairs. apply in_map. exact Ha.
  - exact Hpr.
Qed.

(* all twelve operations on one history, by computation and by the theorem *)
Definition ex_run_all : list (op * list choice) :=
  [(Insert (AB [104; 105]) 1%Z, []); (Insert (AB [104; 111]) 2%Z, [Reuse 0]); (Insert (AB [104; 105; 115]) 3%Z, []);
   (Insert (AB [122]) 4%Z, []); (Size, []); (Minimum, []); (Maximum, []); (Search (AB [104; 111]), []);
   (All None, []); (Backward (Some 1%nat), []); (TopK 2 None, []); (BottomK 3 None, []);
   (Range (AB [104; 105]) (AB [104; 112]) None, []); (Range (AB [122]) (AB []) None, []);
   (Prefix (AB [104; 105]) None, []); (Prefix (AB []) (Some 2%nat), []);
   (Delete (AB [104; 105]), []); (All None, []); (Delete (AB [104; 105]), []); (Size, [])].
Example ex_run_all_computes :
  g_alpha_run_all ex_run_all g_init =
    [OUnit; OUnit; OUnit; OUnit; OSize 4; OKV (AB [104; 105]) 1; OKV (AB [122]) 4; OFound 2;
     OSeq [(AB [104; 105], 1%Z); (AB [104; 105; 115], 3%Z); (AB [104; 111], 2%Z); (AB [122], 4%Z)] 4;
     OSeq [(AB [122], 4%Z); (AB [104; 111], 2%Z)] 2;
     OSeq [(AB [122], 4%Z); (AB [104; 111], 2%Z)] 2;
     OSeq [(AB [104; 105], 1%Z); (AB [104; 105; 115], 3%Z); (AB [104; 111], 2%Z)] 3;
     OSeq [(AB [104; 105], 1%Z); (AB [104; 105; 115], 3%Z); (AB [104; 111], 2%Z)] 3;
     OSeq [(AB [122], 4%Z)] 1;
     OSeq [(AB [104; 105], 1%Z); (AB [104; 105; 115], 3%Z)] 2;
     OSeq [(AB [104; 105], 1%Z); (AB [104; 105; 115], 3%Z); (AB [104; 111], 2%Z)] 3;
     OBool true; OSeq [(AB [104; 105; 115], 3%Z); (AB [104; 111], 2%Z); (AB [122], 4%Z)] 3; OBool false; OSize 3] /\
  g_alpha_run_all ex_run_all g_init = snd (Api.run KAlpha Api.init (map fst ex_run_all)).
Proof. vm_compute. split; reflexivity. Qed.
Example ex_run_all_hyps : Forall alpha_op_all (map fst ex_run_all) /\ history_ok KAlpha (map fst ex_run_all) = true /\
  short_keys KAlpha (map fst ex_run_all).
Proof.
  split; [repeat constructor|]. split; [vm_compute; reflexivity|].
  intros a v Hin. cbn [map fst ex_run_all In] in Hin.
  repeat (destruct Hin as [E|Hin]; [try discriminate E; injection E as <- _; vm_compute; reflexivity|]). destruct Hin.
Qed.
Example ex_run_all_by_theorem : g_alpha_run_all ex_run_all g_init = snd (ideal_run KAlpha [] (map fst ex_run_all)).
Proof. destruct ex_run_all_hyps as (H1 & H2 & H3). exact (proj2 (gen_alpha_run_refines_all ex_run_all H1 H2 H3)). Qed.

(* ================= G. the three updates, for any tree kind ================= *)
(* The step lemma of TranslateRunFacts.v once more, with the regenerated methods of the kind as parameters and
   their per-call simulation theorems (Proofs/TranslateMutFacts.v, TranslateTreeFacts.v) as hypotheses. *)
Definition sres_out (r : gres sres) : out :=
  match r with
  | GRet (SFound v) => OFound v
  | GRet SAbsent => OAbsent
  | GRet SFuel => OFuel
  | GPanic => OPanic
  | GFuel => OFuel
  end.
Definition ins_call : Type := nat -> heap -> href -> Z -> akey -> Z -> list choice -> hpool -> mres unit.
Definition del_call : Type := nat -> heap -> href -> Z -> akey -> list choice -> hpool -> mres bool.
Definition search_call : Type := nat -> gref -> akey -> gres sres.

Definition ins_sim_spec (k : Api.kind) (typed : akey -> Prop) (c : ins_call) : Prop :=
  forall a, typed a -> forall h root ot F size val os pm,
  repr_root h root ot F -> hwf h -> zero_pool pm -> isbytes (snd (transform k a)) = true ->
  N.of_nat (length (fst (transform k a))) < M32 -> N.of_nat (length (snd (transform k a))) < M32 ->
  match ot with Some t => WF 0 (tabs t) /\ xfit32 t | None => True end ->
  let m := xdo_insert (mkXstate ot size) (fst (transform k a)) (snd (transform k a)) val os pm in
  match c (key_fuel (snd (transform k a))) h root size a val os (map_pool pm) with
  | MDone h' root' size' os' p' _ =>
      snd (fst m) = OUnit /\ size' = xsize (fst (fst m)) /\ p' = map_pool (snd m) /\ zero_pool (snd m) /\ hwf h' /\
      exists F', repr_root h' root' (xroot (fst (fst m))) F'
  | MPanic => snd (fst m) = OPanic
  | MFuel => snd (fst m) = OFuel
  end.
Definition del_sim_spec (k : Api.kind) (typed : akey -> Prop) (c : del_call) : Prop :=
  forall a, typed a -> forall h root ot F size os pm,
  repr_root h root ot F -> hwf h -> zero_pool pm -> isbytes (snd (transform k a)) = true ->
  match ot with Some t => xfit t | None => True end ->
  let m := xdo_delete (mkXstate ot size) (fst (transform k a)) (snd (transform k a)) os pm in
  match c (key_fuel (snd (transform k a))) h root size a os (map_pool pm) with
  | MDone h' root' size' os' p' ret =>
      snd (fst m) = OBool ret /\ size' = xsize (fst (fst m)) /\ p' = map_pool (snd m) /\ zero_pool (snd m) /\ hwf h' /\
      exists F', repr_root h' root' (xroot (fst (fst m))) F'
  | MPanic => False
  | MFuel => snd (fst m) = OFuel
  end.
Definition search_spec (k : Api.kind) (typed : akey -> Prop) (c : search_call) : Prop :=
  forall a, typed a -> forall fuel,
  (forall t, xtwf t -> isbytes (snd (transform k a)) = true ->
     c fuel (Some t) a = gres_of_sres (search fuel (tabs t) (fst (transform k a)) (snd (transform k a)) 0)) /\
  c fuel None a = GRet SAbsent.

Section GenRun.
Variable k : Api.kind.
Variable typed : akey -> Prop.
Variable c_ins : ins_call.
Variable c_del : del_call.
Variable c_search : search_call.
Hypothesis H_ins : ins_sim_spec k typed c_ins.
Hypothesis H_del : del_sim_spec k typed c_del.
Hypothesis H_search : search_spec k typed c_search.

Definition gen_step (g : gstate) (o : op) (os : list choice) : gstate * out :=
  match o with
  | Insert a v =>
    match c_ins (key_fuel (snd (transform k a))) (g_heap g) (g_root g) (g_size g) a v os (g_pool g) with
    | MDone h r s _ p _ => (mkG h r s p, OUnit)
    | MPanic => (g, OPanic)
    | MFuel => (g, OFuel)
    end
  | Delete a =>
    match c_del (key_fuel (snd (transform k a))) (g_heap g) (g_root g) (g_size g) a os (g_pool g) with
    | MDone h r s _ p b => (mkG h r s p, OBool b)
    | MPanic => (g, OPanic)
    | MFuel => (g, OFuel)
    end
  | Search a => (g, sres_out (c_search (key_fuel (snd (transform k a))) (h_reify (g_heap g) (g_root g)) a))
  | _ => (g, ONone)
  end.
Definition isd_op (o : op) : Prop :=
  match o with Insert a _ | Search a | Delete a => typed a | _ => False end.

Variable P : list kpair.
Hypothesis Hok : Ideal.ins_ok P = true.
Hypothesis HT : forall p, In p P -> exists a, p = transform k a.
Hypothesis HPs : forall p, In p P -> N.of_nat (length (fst p)) < M32 /\ N.of_nat (length (snd p)) < M32.

Lemma gen_search_reified : forall h r ot F fuel a, typed a -> repr_root h r ot F -> hwf h ->
  isbytes (snd (transform k a)) = true ->
  c_search fuel (h_reify h r) a =
  match ot with
  | Some t => gres_of_sres (search fuel (tabs t) (fst (transform k a)) (snd (transform k a)) 0)
  | None => GRet SAbsent
  end.
Proof.
  intros h r ot F fuel a Ha (Hr & Hbd) Hw Hb. destruct (H_search a Ha fuel) as (S1 & S2).
  destruct r as [x|]; destruct ot as [t|]; cbn [repr_root] in Hr; try contradiction.
  - destruct Hr as (at_ & <- & <- & Hst & Hsep & HF). cbn [h_reify].
    assert (Hh : (theight (tabs (strip at_)) <= next h)%nat).
    { apply (height_bound h at_ (next h) Hst Hsep). intros y Hy. eapply live_lt; eauto. }
    rewrite (S1 _ (reify_xtwf _ _ _ Hst Hh) Hb), (reify_tabs _ _ _ Hst Hh). reflexivity.
  - cbn [h_reify]. exact S2.
Qed.

Lemma gen_step_refines : forall g s cs o os,
  run_inv P g s cs -> isd_op o ->
  Forall (fun a => In (transform k a) P) (ins_keys o) ->
  forallb (probe_ok P) (map (transform k) (probe_keys k o)) = true ->
  snd (gen_step g o os) = snd (Api.step k s o) /\
  run_inv P (fst (gen_step g o os)) (fst (Api.step k s o)) (fst (ideal_step k cs o)).
Proof.
  intros g s cs o os (st & pm & F & Es & Hrep & HP & Hs & Hr & Hw & Hzp & Ep & Esz) Hao Hins Hprobe.
  pose proof (run_inv_facts P s cs st (fun p Hp => proj2 (HPs p Hp)) Es Hrep HP Hs) as Hfacts.
  assert (Hop : Ideal.op_ok k o = true) by (destruct o; try contradiction; destruct k; reflexivity).
  pose proof (step_refines_proj k P Hok HT s cs o Hrep HP Hins Hprobe Hop) as (R1 & R2 & R3).
  destruct g as [h r sz p]. cbn [g_heap g_root g_size g_pool] in *. subst p sz.
  destruct o as [a v|a|a| | | |stop|stop|m stop|m stop|a b stop|a stop]; try contradiction; cbn [isd_op] in Hao.
  - (* Insert *)
    cbn [ins_keys] in Hins. inversion Hins as [|y ys Hin _]; subst y ys.
    destruct (HPs _ Hin) as (Hlg & Hlt).
    assert (Hb : isbytes (snd (transform k a)) = true).
    { apply (ins_isbytes P (fst (transform k a))); [exact Hok|]. rewrite <- surjective_pairing. exact Hin. }
    assert (Hupd : upd_ok k (sabs st) (Insert a v)).
    { cbn [upd_ok]. split; [exact Hb|]. unfold root_wf. rewrite sabs_root. destruct (xroot st); [apply Hfacts|exact I]. }
    destruct (xstep_sim k st (Insert a v) os pm Hzp Hs Hupd) as (X1 & X2 & X3 & X4).
    cbn [xstep] in X1, X2, X3, X4. rewrite Es in X1, X2.
    assert (Hinv : match xroot st with Some t => WF 0 (tabs t) /\ xfit32 t | None => True end)
      by (destruct (xroot st); [split; apply Hfacts|exact I]).
    pose proof (H_ins a Hao h r (xroot st) F (xsize st) v os pm Hr Hw Hzp Hb Hlg Hlt Hinv) as G.
    cbv zeta in G. replace (mkXstate (xroot st) (xsize st)) with st in G by (destruct st; reflexivity).
    assert (R1' : snd (Api.step k s (Insert a v)) = OUnit).
    { rewrite R1. cbn [ideal_step]. destruct (transform k a); reflexivity. }
    cbn [gen_step g_heap g_root g_size g_pool].
    destruct (c_ins (key_fuel (snd (transform k a))) h r (xsize st) a v os (map_pool pm)) as [h' r' sz' os' p' u| |]; cbn [fst snd].
    + destruct G as (G1 & G2 & G3 & G4 & G5 & F' & G6). split; [rewrite <- X2; symmetry; exact G1|].
      exists (fst (fst (xdo_insert st (fst (transform k a)) (snd (transform k a)) v os pm))),
             (snd (xdo_insert st (fst (transform k a)) (snd (transform k a)) v os pm)), F'.
      cbn [g_heap g_root g_size g_pool].
      split; [exact X1|]. split; [exact R2|]. split; [exact R3|]. split; [exact X4|]. split; [exact G6|]. split; [exact G5|].
      split; [exact G4|]. split; [exact G3|exact G2].
    + rewrite X2, R1' in G. discriminate G.
    + rewrite X2, R1' in G. discriminate G.
  - (* Search *)
    cbn [probe_keys map forallb] in Hprobe. apply andb_true_iff in Hprobe. destruct Hprobe as [Hpr _].
    assert (Hb : isbytes (snd (transform k a)) = true).
    { rewrite (surjective_pairing (transform k a)) in Hpr. destruct (probe_cons _ _ _ _ Hpr HP) as [Hb _]. exact Hb. }
    cbn [gen_step g_heap g_root g_size g_pool fst snd].
    split.
    + rewrite (gen_search_reified h r (xroot st) F _ a Hao Hr Hw Hb). cbn [Api.step].
      rewrite (surjective_pairing (transform k a)). cbn [snd fst].
      unfold do_search. rewrite <- Es, sabs_root. destruct (xroot st) as [t|]; [|reflexivity].
      destruct (search _ (tabs t) _ _ 0); reflexivity.
    + assert (E1 : fst (Api.step k s (Search a)) = s) by (cbn [Api.step]; destruct (transform k a); reflexivity).
      assert (E2 : fst (ideal_step k cs (Search a)) = cs) by (cbn [ideal_step]; destruct (transform k a); reflexivity).
      rewrite E1, E2. exists st, pm, F. cbn [g_heap g_root g_size g_pool].
      split; [exact Es|]. split; [exact Hrep|]. split; [exact HP|]. split; [exact Hs|]. split; [exact Hr|]. split; [exact Hw|].
      split; [exact Hzp|]. split; reflexivity.
  - (* Delete *)
    cbn [probe_keys map forallb] in Hprobe. apply andb_true_iff in Hprobe. destruct Hprobe as [Hpr _].
    assert (Hb : isbytes (snd (transform k a)) = true).
    { rewrite (surjective_pairing (transform k a)) in Hpr. destruct (probe_cons _ _ _ _ Hpr HP) as [Hb _]. exact Hb. }
    assert (Hupd : upd_ok k (sabs st) (Delete a)) by exact Hb.
    destruct (xstep_sim k st (Delete a) os pm Hzp Hs Hupd) as (X1 & X2 & X3 & X4).
    cbn [xstep] in X1, X2, X3, X4. rewrite Es in X1, X2.
    assert (Hfit : match xroot st with Some t => xfit t | None => True end)
      by (destruct (xroot st); [apply Hfacts|exact I]).
    pose proof (H_del a Hao h r (xroot st) F (xsize st) os pm Hr Hw Hzp Hb Hfit) as G.
    cbv zeta in G. replace (mkXstate (xroot st) (xsize st)) with st in G by (destruct st; reflexivity).
    assert (R1' : exists b, snd (Api.step k s (Delete a)) = OBool b).
    { rewrite R1. cbn [ideal_step]. destruct (transform k a); eexists; reflexivity. }
    cbn [gen_step g_heap g_root g_size g_pool].
    destruct (c_del (key_fuel (snd (transform k a))) h r (xsize st) a os (map_pool pm)) as [h' r' sz' os' p' b| |]; cbn [fst snd].
    + destruct G as (G1 & G2 & G3 & G4 & G5 & F' & G6). split; [rewrite <- X2; symmetry; exact G1|].
      exists (fst (fst (xdo_delete st (fst (transform k a)) (snd (transform k a)) os pm))),
             (snd (xdo_delete st (fst (transform k a)) (snd (transform k a)) os pm)), F'.
      cbn [g_heap g_root g_size g_pool].
      split; [exact X1|]. split; [exact R2|]. split; [exact R3|]. split; [exact X4|]. split; [exact G6|]. split; [exact G5|].
      split; [exact G4|]. split; [exact G3|exact G2].
    + contradiction.
    + destruct R1' as (b & R1'). rewrite X2, R1' in G. discriminate G.
Qed.
End GenRun.

(* ---- from a step to a run, for any kind ---- *)
Fixpoint g_run_of (step : gstate -> op -> list choice -> gstate * out) (evs : list (op * list choice)) (g : gstate) : list out :=
  match evs with
  | [] => []
  | (o, os) :: evs' => let r := step g o os in snd r :: g_run_of step evs' (fst r)
  end.
(* both key forms of every inserted key are shorter than 2^32 bytes *)
Definition short_keys2 (k : Api.kind) (ops : list op) : Prop :=
  forall a v, In (Insert a v) ops ->
    N.of_nat (length (fst (transform k a))) < M32 /\ N.of_nat (length (snd (transform k a))) < M32.

Section RunOf.
Variable k : Api.kind.
Variable step : gstate -> op -> list choice -> gstate * out.
Variable typed_op : op -> Prop.
Variable om : out -> out.                      (* how the Go result reads the model's output (collation: the original string only) *)
Variable PP : list kpair -> Prop.              (* what the typing of the operations says about the inserted pairs *)
Hypothesis step_ok : forall P, Ideal.ins_ok P = true -> (forall p, In p P -> exists a, p = transform k a) ->
  (forall p, In p P -> N.of_nat (length (fst p)) < M32 /\ N.of_nat (length (snd p)) < M32) -> PP P ->
  forall g s cs o os, run_inv P g s cs -> typed_op o ->
  Forall (fun a => In (transform k a) P) (ins_keys o) ->
  forallb (probe_ok P) (map (transform k) (probe_keys k o)) = true -> Ideal.op_ok k o = true ->
  snd (step g o os) = om (snd (Api.step k s o)) /\
  run_inv P (fst (step g o os)) (fst (Api.step k s o)) (fst (ideal_step k cs o)).
Hypothesis PP_ok : forall ops, Forall typed_op ops -> PP (ins_pairs k ops).

Theorem run_of_refines : forall evs,
  Forall typed_op (map fst evs) -> history_ok k (map fst evs) = true -> short_keys2 k (map fst evs) ->
  g_run_of step evs g_init = map om (snd (Api.run k Api.init (map fst evs))).
Proof.
  intros evs Hao Hh Hshort. pose proof (PP_ok _ Hao) as HPP. revert Hao Hh Hshort HPP.
  set (ops0 := map fst evs). intros Hao Hh Hshort HPP. unfold history_ok in Hh.
  apply andb_true_iff in Hh. destruct Hh as [Hh Hop]. apply andb_true_iff in Hh. destruct Hh as [Hok Hpr].
  set (P := ins_pairs k ops0) in *.
  assert (HT : forall p, In p P -> exists a, p = transform k a).
  { intros p Hp. unfold P, ins_pairs in Hp. apply in_map_iff in Hp. destruct Hp as (a & E & _). exists a. auto. }
  assert (HPs : forall p, In p P -> N.of_nat (length (fst p)) < M32 /\ N.of_nat (length (snd p)) < M32).
  { intros p Hp. unfold P, ins_pairs in Hp. apply in_map_iff in Hp. destruct Hp as (a & <- & Hin).
    apply in_flat_map in Hin. destruct Hin as (o & Ho & Hao'). destruct o; cbn [ins_keys] in Hao'; try contradiction.
    destruct Hao' as [->|[]]. apply (Hshort a v Ho). }
  assert (Hins0 : Forall (fun a => In (transform k a) P) (flat_map ins_keys ops0)).
  { apply Forall_forall. intros a Ha. unfold P, ins_pairs. apply in_map. exact Ha. }
  assert (Hinv0 : run_inv P g_init Api.init []).
  { exists xinit, [], (fun _ => False). cbn [g_init g_heap g_root g_size g_pool xinit xroot xsize].
    split; [reflexivity|]. split; [unfold rep, Api.init; cbn [root size length]; auto|]. split; [constructor|].
    split; [exact I|]. split; [split; [intros x Hx; exact Hx|intros x []]|]. split; [intros x _; reflexivity|].
    split; [constructor|]. split; reflexivity. }
  clearbody P. subst ops0. clear Hshort. unfold probe_pairs in Hpr. revert Hao Hins0 Hpr Hop Hinv0. generalize g_init Api.init (@nil lrec).
  induction evs as [|[o os] evs IH]; intros g s cs Hao Hins Hprobe Hop Hinv; [reflexivity|].
  cbn [map fst flat_map] in Hao, Hins, Hprobe. cbn [map fst forallb] in Hop. inversion Hao as [|x xs Ha1 Ha2]; subst x xs.
  apply Forall_app in Hins. destruct Hins as [Hi1 Hi2].
  rewrite map_app, forallb_app in Hprobe. apply andb_true_iff in Hprobe. destruct Hprobe as [Hp1 Hp2].
  apply andb_true_iff in Hop. destruct Hop as [Ho1 Ho2].
  destruct (step_ok P Hok HT HPs HPP g s cs o os Hinv Ha1 Hi1 Hp1 Ho1) as (E1 & Hinv').
  cbn [g_run_of map fst]. rewrite api_run_cons. cbn [snd map]. rewrite E1. f_equal.
  eapply IH; eassumption.
Qed.
End RunOf.

(* the outputs of the three updates carry no key: every reading of keys leaves them as they are *)
Lemma isd_out_keymap : forall f k s o, match o with Insert _ _ | Search _ | Delete _ => True | _ => False end ->
  out_keymap f (snd (Api.step k s o)) = snd (Api.step k s o).
Proof.
  intros f k s o Ho. destruct o as [a v|a|a| | | | | | | | |]; try contradiction; cbn [Api.step];
    destruct (transform k a) as [gk tk]; cbn [snd].
  - unfold do_insert. destruct (root s); [|reflexivity]. destruct (insert _ _ _ _ _ _); reflexivity.
  - unfold do_search. destruct (root s); [|reflexivity]. destruct (search _ _ _ _ _); reflexivity.
  - unfold do_delete. destruct (root s) as [[lgk ltk lv|n]|]; try reflexivity.
    + destruct (beq lgk gk); reflexivity.
    + destruct (delete_in _ _ _ _ _); reflexivity.
Qed.

(* the state the thin methods read, without any condition on the keys *)
Lemma reified_state_any : forall P g s cs, run_inv P g s cs ->
  sinv (g_xstate g) /\ sabs (g_xstate g) = s /\ root_wf s /\
  (forall t, xroot (g_xstate g) = Some t -> leaves (tabs t) = cs).
Proof.
  intros P g s cs (st & pm & F & Es & Hrep & HP & Hs & (Hr & Hbd) & Hw & Hzp & Ep & Esz).
  destruct g as [h r sz p]. unfold g_xstate, sinv, root_wf. cbn [g_heap g_root g_size g_pool xroot] in *.
  destruct r as [a|]; destruct (xroot st) as [t|] eqn:Er; cbn [repr_root] in Hr; try contradiction.
  - destruct Hr as (at_ & <- & <- & Hst & Hsep & HF). cbn [h_reify].
    assert (Hh : (theight (tabs (strip at_)) <= next h)%nat).
    { apply (height_bound h at_ (next h) Hst Hsep). intros x Hx. eapply live_lt; eauto. }
    pose proof (reify_tabs _ _ _ Hst Hh) as Et. pose proof (reify_xtwf _ _ _ Hst Hh) as Hx.
    destruct Hrep as [Hrep Hsz]. rewrite <- Es, sabs_root, Er in Hrep. destruct Hrep as [Hwf Hl].
    split; [exact Hx|]. split; [rewrite <- Es; unfold sabs; cbn [xroot xsize]; rewrite Er, Et, Esz; reflexivity|].
    split; [rewrite <- Es, sabs_root, Er; exact Hwf|]. intros t Ht. injection Ht as <-. rewrite Et. exact Hl.
  - cbn [h_reify]. split; [exact I|]. split; [|split; [|intros t Ht; discriminate Ht]].
    + rewrite <- Es. unfold sabs. cbn [xroot xsize]. rewrite Er, Esz. reflexivity.
    + rewrite <- Es, sabs_root, Er. exact I.
Qed.

(* ================= B. the collation tree, the collator a function col ================= *)
Section Collation.
Variable col : list N -> list N.
Definition col_key (a : akey) : Prop := exists o, a = AC o (col o).
Definition col_ins : ins_call := fun f h r s a v os p =>
  match a with AC o _ => g_collation_insert f h r s o (col o) v os p | _ => MPanic end.
Definition col_del : del_call := fun f h r s a os p =>
  match a with AC o _ => g_collation_delete f h r s o (col o) os p | _ => MPanic end.
Definition col_search : search_call := fun f root a =>
  match a with AC o _ => g_collation_search f root o (col o) | _ => GPanic end.
Definition col_rs : list N -> list N := fun b => b.

Definition g_collation_step (g : gstate) (o : op) (os : list choice) : gstate * out :=
  let root := h_reify (g_heap g) (g_root g) in
  match o with
  | Insert _ _ | Search _ | Delete _ => gen_step KCollation col_ins col_del col_search g o os
  | Minimum => (g, gopt_out AB (g_collation_Minimum (col_tr col) col_rs (bud_height g) root))
  | Maximum => (g, gopt_out AB (g_collation_Maximum (col_tr col) col_rs (bud_height g) root))
  | Size => (g, gint_out (g_collation_Size (col_tr col) col_rs (g_size g)))
  | All stop => (g, kres_out AB (g_collation_All (col_tr col) col_rs (bud_walk g) root (stop_ans stop)))
  | Backward stop => (g, kres_out AB (g_collation_Backward (col_tr col) col_rs (bud_walk g) root (stop_ans stop)))
  | TopK n stop => (g, kres_out AB (g_collation_TopK (col_tr col) col_rs (bud_walk g) (bud_walk g) root n (stop_ans stop)))
  | BottomK n stop => (g, kres_out AB (g_collation_BottomK (col_tr col) col_rs (bud_walk g) (bud_walk g) root n (stop_ans stop)))
  | Range (AC a _) (AC b _) stop =>
      (g, kres_out AB (g_collation_Range (col_tr col) col_rs (bud_height g) (bud_walk g) root a b (stop_ans stop)))
  | Prefix (AC p _) stop =>
      (g, kres_out AB (g_collation_Prefix (col_tr col) col_rs (bud_walk g) (bud_walk g) root p (stop_ans stop)))
  | _ => (g, ONone)
  end.
Definition g_collation_run := g_run_of g_collation_step.
(* the calls a Go program can make: the model's key AC o c carries the sort key the collator computes, c = col o *)
Definition col_op (o : op) : Prop :=
  match o with
  | Insert a _ | Search a | Delete a => col_key a
  | Minimum | Maximum | Size | All _ | Backward _ => True
  | TopK n _ | BottomK n _ => n < 2 ^ 64
  | Range a b _ => col_key a /\ col_key b
  | Prefix p _ => col_key p
  end.

Lemma col_ins_spec : ins_sim_spec KCollation col_key col_ins.
Proof.
  intros a (o & ->) h root ot F size val os pm Hr Hw Hzp Hb Hlg Hlt Hinv. cbn [transform fst snd col_ins] in *.
  pose proof (gen_collation_insert_sim h root ot F size o (col o) val os pm Hr Hw Hzp Hb Hlg Hlt Hinv) as G. cbv zeta in G |- *.
  destruct (g_collation_insert _ _ _ _ _ _ _ _ _); try exact G.
  destruct G as (G1 & G2 & G3 & G4 & G5 & F' & G6 & _). eauto 10.
Qed.
Lemma col_del_spec : del_sim_spec KCollation col_key col_del.
Proof.
  intros a (o & ->) h root ot F size os pm Hr Hw Hzp Hb Hfit. cbn [transform fst snd col_del] in *.
  pose proof (gen_collation_delete_sim h root ot F size o (col o) os pm Hr Hzp Hb Hfit) as G. cbv zeta in G |- *.
  pose proof (delete_top_hwf _ _ _ (collation_delete_loop_sim o (col o)) (collation_delete_leaf o (col o))
                h root ot F size os pm Hr Hw Hzp Hb Hfit) as GW.
  change (delete_top (fun fuel => g_collation_delete_loop1 fuel o (col o)) (key_fuel (col o)) h root size os (map_pool pm))
    with (g_collation_delete (key_fuel (col o)) h root size o (col o) os (map_pool pm)) in GW.
  destruct (g_collation_delete _ _ _ _ _ _ _ _); try exact G.
  destruct G as (G1 & G2 & G3 & G4 & G5 & F' & G6 & _). eauto 10.
Qed.
Lemma col_search_spec : search_spec KCollation col_key col_search.
Proof.
  intros a (o & ->) fuel. cbn [transform fst snd col_search]. split.
  - intros t Hx Hb. apply gen_collation_search_model; assumption.
  - unfold g_collation_search. rewrite collation_loop_nil. reflexivity.
Qed.

Lemma g_collation_step_refines : forall P, Ideal.ins_ok P = true -> (forall p, In p P -> exists a, p = transform KCollation a) ->
  (forall p, In p P -> N.of_nat (length (fst p)) < M32 /\ N.of_nat (length (snd p)) < M32) -> True ->
  forall g s cs o os, run_inv P g s cs -> col_op o ->
  Forall (fun a => In (transform KCollation a) P) (ins_keys o) ->
  forallb (probe_ok P) (map (transform KCollation) (probe_keys KCollation o)) = true -> Ideal.op_ok KCollation o = true ->
  snd (g_collation_step g o os) = out_keymap forget_col (snd (Api.step KCollation s o)) /\
  run_inv P (fst (g_collation_step g o os)) (fst (Api.step KCollation s o)) (fst (ideal_step KCollation cs o)).
Proof.
  intros P Hok HT HPs _ g s cs o os Hinv Hao Hins Hprobe Hop.
  destruct (reified_state_any P g s cs Hinv) as (Hs & Es & Hw & _).
  assert (Hbw : forall t, xroot (g_xstate g) = Some t -> bud_walk g = walk_fuel (tabs t))
    by (intros t Ht; unfold bud_walk; unfold g_xstate in Ht; cbn [xroot] in Ht; rewrite Ht; reflexivity).
  assert (Hbh : forall t, xroot (g_xstate g) = Some t -> bud_height g = theight (tabs t))
    by (intros t Ht; unfold bud_height; unfold g_xstate in Ht; cbn [xroot] in Ht; rewrite Ht; reflexivity).
  destruct o as [a v|a|a| | | |stop|stop|m stop|m stop|a b stop|a stop]; cbn [g_collation_step].
  1-3: rewrite isd_out_keymap by exact I;
       apply (gen_step_refines KCollation col_key col_ins col_del col_search col_ins_spec col_del_spec col_search_spec P Hok HT HPs);
       assumption.
  all: cbv zeta; cbn [fst snd Api.step ideal_step]; change (h_reify (g_heap g) (g_root g)) with (xroot (g_xstate g)).
  - split; [|exact Hinv]. rewrite (gen_collation_minimum_eq (col_tr col) col_rs (g_xstate g) _ Hs ltac:(rewrite Es; exact Hw) Hbh), Es. reflexivity.
  - split; [|exact Hinv]. rewrite (gen_collation_maximum_eq (col_tr col) col_rs (g_xstate g) _ Hs ltac:(rewrite Es; exact Hw) Hbh), Es. reflexivity.
  - split; [|exact Hinv]. change (g_size g) with (xsize (g_xstate g)). rewrite gen_collation_size_eq, Es. reflexivity.
  - split; [|exact Hinv]. rewrite (gen_collation_all_eq (col_tr col) col_rs (g_xstate g) _ _ Hs Hbw), Es. reflexivity.
  - split; [|exact Hinv]. rewrite (gen_collation_backward_eq (col_tr col) col_rs (g_xstate g) _ _ Hs Hbw), Es. reflexivity.
  - split; [|exact Hinv]. rewrite (gen_collation_topk_eq (col_tr col) col_rs (g_xstate g) _ _ m _ Hs Hao Hbw), Es. reflexivity.
  - split; [|exact Hinv]. rewrite (gen_collation_bottomk_eq (col_tr col) col_rs (g_xstate g) _ _ m _ Hs Hao Hbw), Es. reflexivity.
  - discriminate Hop.   (* Range: collation histories with Range are not history_ok (Spec/Ideal.op_ok) *)
  - destruct Hao as (p & ->). cbn [fst snd]. split; [|exact Hinv].
    rewrite (gen_collation_prefix_eq col col_rs (g_xstate g) p _ _ _ Hs), Es; [reflexivity|].
    intros t Ht. split; apply Hbw; exact Ht.
Qed.

Theorem gen_collation_run_refines : forall evs,
  Forall col_op (map fst evs) -> history_ok KCollation (map fst evs) = true -> short_keys2 KCollation (map fst evs) ->
  g_collation_run evs g_init = map (out_keymap forget_col) (snd (Api.run KCollation Api.init (map fst evs))) /\
  g_collation_run evs g_init = map (out_keymap forget_col) (snd (ideal_run KCollation [] (map fst evs))).
Proof.
  intros evs Hao Hh Hshort.
  cut (g_collation_run evs g_init = map (out_keymap forget_col) (snd (Api.run KCollation Api.init (map fst evs)))).
  { intros E. split; [exact E|]. rewrite E. rewrite (proj1 (run_refines KCollation _ Hh)). reflexivity. }
  apply (run_of_refines KCollation g_collation_step col_op (out_keymap forget_col) (fun _ => True) g_collation_step_refines);
    try assumption. intros; exact I.
Qed.
End Collation.

(* ================= C. the numeric trees, the REGENERATED codec in the loop ================= *)
(* One section for the three numeric instances.  tr / rs are what the Go tree calls as t.bck.Transform / Restore:
   here the regenerated codec of Gen/KeysGen.v (wrapped: the key type is Model/Api.akey), NOT the model's
   encoders; the thin methods are the regenerated ones of Gen/ApiGen.v over that codec. *)
Section NumLoop.
Variable k : Api.kind.
Hypothesis Hk : is_num k = true.
Variable tr : akey -> list N * list N.
Variable rs : list N -> akey.
Variable typed : akey -> Prop.           (* the Go values of the key type *)
Variable keyok : list N -> Prop.         (* what the codec produces: byte strings of the width of the type *)
Hypothesis Htr : forall a, typed a -> tr a = transform k a.
Hypothesis Hrs : forall b, keyok b -> rs b = mrs k b.
Hypothesis Hkey : forall a, typed a -> keyok (fst (transform k a)).
(* the regenerated tree methods *)
Variable t_ins : nat -> heap -> href -> Z -> list N -> Z -> list choice -> hpool -> mres unit.
Variable t_del : nat -> heap -> href -> Z -> list N -> list choice -> hpool -> mres bool.
Variable t_search : nat -> gref -> list N -> gres sres.
Variable skey : list N -> list N.
Definition num_ins : ins_call := fun f h r s a v os p => t_ins f h r s (snd (tr a)) v os p.
Definition num_del : del_call := fun f h r s a os p => t_del f h r s (snd (tr a)) os p.
Definition num_search : search_call := fun f root a => t_search f root (skey (snd (tr a))).
Hypothesis H_ins : ins_sim_spec k typed num_ins.
Hypothesis H_del : del_sim_spec k typed num_del.
Hypothesis search_eq : forall fuel t keyS, xtwf t -> isbytes keyS = true ->
  t_search fuel (Some t) keyS = gres_of_sres (xsearch fuel t keyS keyS 0).
Hypothesis search_nil : forall fuel keyS, t_search fuel None keyS = GRet SAbsent.
Hypothesis key_eq : forall x, skey x = x.
(* the regenerated thin methods, as the template text over restoreKey *)
Let R : gref -> gres (akey * Z) := ref_restoreKey rs.
Variable mMin mMax : nat -> gref -> gres (option (akey * Z)).
Variable mSize : Z -> gres Z.
Variable mAll mBack : nat -> gref -> (nat -> bool) -> kres akey.
Variable mTopK mBottomK : nat -> nat -> gref -> N -> (nat -> bool) -> kres akey.
Variable mRange : nat -> nat -> gref -> akey -> akey -> (nat -> bool) -> kres akey.
Variable mPrefix : akey -> (nat -> bool) -> kres akey.
Hypothesis min_text : mMin = ref_extreme R g_minimum.
Hypothesis max_text : mMax = ref_extreme R g_maximum.
Hypothesis size_text : forall z, mSize z = GRet z.
Hypothesis all_text : forall fa root ans, mAll fa root ans = seq_kv R (g_all fa root ans).
Hypothesis back_text : forall fb root ans, mBack fb root ans = seq_kv R (g_backward fb root ans).
Hypothesis topk_text : forall fa fb root n ans, mTopK fa fb root n ans = seq_kv R (g_topK (g_all fa root) (g_backward fb root) n ans).
Hypothesis bottomk_text : forall fa fb root n ans, mBottomK fa fb root n ans = seq_kv R (g_bottomK (g_all fa root) (g_backward fb root) n ans).
Hypothesis range_text : mRange = ref_range_num t_search skey R tr.
Hypothesis prefix_text : forall p ans, mPrefix p ans = KPanic.

Definition key_p : lrec -> Prop := fun l => keyok (lgk l).
Lemma num_restore_ok : restore_ok idk idk k R key_p.
Proof.
  intros gk tk v Hp. exists (rs gk, v). split; [reflexivity|]. cbn [fst snd]. split; [|reflexivity].
  unfold idk. rewrite (Hrs gk Hp). apply mrs_restore. destruct k; try discriminate; reflexivity.
Qed.

Definition g_num_step (g : gstate) (o : op) (os : list choice) : gstate * out :=
  let root := h_reify (g_heap g) (g_root g) in
  match o with
  | Insert _ _ | Search _ | Delete _ => gen_step k num_ins num_del num_search g o os
  | Minimum => (g, gopt_out idk (mMin (bud_height g) root))
  | Maximum => (g, gopt_out idk (mMax (bud_height g) root))
  | Size => (g, gint_out (mSize (g_size g)))
  | All stop => (g, kres_out idk (mAll (bud_walk g) root (stop_ans stop)))
  | Backward stop => (g, kres_out idk (mBack (bud_walk g) root (stop_ans stop)))
  | TopK n stop => (g, kres_out idk (mTopK (bud_walk g) (bud_walk g) root n (stop_ans stop)))
  | BottomK n stop => (g, kres_out idk (mBottomK (bud_walk g) (bud_walk g) root n (stop_ans stop)))
  | Range a b stop => (g, kres_out idk (mRange (key_fuel (snd (tr a))) (bud_walk g) root a b (stop_ans stop)))
  | Prefix p stop => (g, kres_out idk (mPrefix p (stop_ans stop)))
  end.
Definition num_op (o : op) : Prop :=
  match o with
  | Insert a _ | Search a | Delete a => typed a
  | Minimum | Maximum | Size | All _ | Backward _ | Prefix _ _ => True
  | TopK n _ | BottomK n _ => n < 2 ^ 64
  | Range a b _ => typed a /\ typed b
  end.
Definition num_pairs (P : list kpair) : Prop := forall p, In p P -> exists a, typed a /\ p = transform k a.

Lemma num_search_spec : search_spec k typed num_search.
Proof.
  intros a Ha fuel. unfold num_search. rewrite key_eq, (Htr a Ha).
  assert (Esame : fst (transform k a) = snd (transform k a)) by (apply (mtr_same k a); destruct k; try discriminate; reflexivity).
  split; [|apply search_nil]. intros t Hx Hb. rewrite (search_eq _ t _ Hx Hb), (xsearch_sim _ t _ _ _ Hx), Esame. reflexivity.
Qed.

Lemma g_num_step_refines : forall P, Ideal.ins_ok P = true -> (forall p, In p P -> exists a, p = transform k a) ->
  (forall p, In p P -> N.of_nat (length (fst p)) < M32 /\ N.of_nat (length (snd p)) < M32) -> num_pairs P ->
  forall g s cs o os, run_inv P g s cs -> num_op o ->
  Forall (fun a => In (transform k a) P) (ins_keys o) ->
  forallb (probe_ok P) (map (transform k) (probe_keys k o)) = true -> Ideal.op_ok k o = true ->
  snd (g_num_step g o os) = snd (Api.step k s o) /\
  run_inv P (fst (g_num_step g o os)) (fst (Api.step k s o)) (fst (ideal_step k cs o)).
Proof.
  intros P Hok HT HPs HPP g s cs o os Hinv Hao Hins Hprobe Hop.
  destruct (reified_state_any P g s cs Hinv) as (Hs & Es & Hw & Hl).
  assert (Hkk : keys_ok key_p (g_xstate g)).
  { unfold keys_ok. destruct (xroot (g_xstate g)) as [t|] eqn:Et; [|exact I]. apply Forall_forall. intros l Hin.
    rewrite (Hl t eq_refl) in Hin. destruct Hinv as (_ & _ & _ & _ & _ & HinP & _).
    pose proof (proj1 (Forall_forall _ _) HinP l Hin) as Hp. cbv beta in Hp. destruct (HPP _ Hp) as (a & Ha & E).
    unfold key_p. replace (lgk l) with (fst (transform k a)) by (rewrite <- E; reflexivity). apply Hkey. exact Ha. }
  assert (Hbw : forall t, xroot (g_xstate g) = Some t -> bud_walk g = walk_fuel (tabs t))
    by (intros t Ht; unfold bud_walk; unfold g_xstate in Ht; cbn [xroot] in Ht; rewrite Ht; reflexivity).
  assert (Hbh : forall t, xroot (g_xstate g) = Some t -> bud_height g = theight (tabs t))
    by (intros t Ht; unfold bud_height; unfold g_xstate in Ht; cbn [xroot] in Ht; rewrite Ht; reflexivity).
  pose proof num_restore_ok as HR.
  destruct o as [a v|a|a| | | |stop|stop|m stop|m stop|a b stop|a stop]; cbn [g_num_step].
  1-3: apply (gen_step_refines k typed num_ins num_del num_search H_ins H_del num_search_spec P Hok HT HPs); assumption.
  all: cbv zeta; cbn [fst snd Api.step ideal_step]; change (h_reify (g_heap g) (g_root g)) with (xroot (g_xstate g)).
  - split; [|exact Hinv]. rewrite min_text, (minimum_out idk idk k R key_p HR (g_xstate g) _ Hs ltac:(rewrite Es; exact Hw) Hkk Hbh), out_keymap_id, Es. reflexivity.
  - split; [|exact Hinv]. rewrite max_text, (maximum_out idk idk k R key_p HR (g_xstate g) _ Hs ltac:(rewrite Es; exact Hw) Hkk Hbh), out_keymap_id, Es. reflexivity.
  - split; [|exact Hinv]. rewrite size_text. cbn [gint_out]. rewrite <- Es. reflexivity.
  - split; [|exact Hinv]. rewrite all_text, (all_out idk idk k R key_p HR (g_xstate g) _ _ Hs Hkk Hbw), out_keymap_id, Es. reflexivity.
  - split; [|exact Hinv]. rewrite back_text, (backward_out idk idk k R key_p HR (g_xstate g) _ _ Hs Hkk Hbw), out_keymap_id, Es. reflexivity.
  - split; [|exact Hinv]. rewrite topk_text, (topk_out idk idk k R key_p HR (g_xstate g) _ _ m _ Hs Hkk Hao Hbw), out_keymap_id, Es. reflexivity.
  - split; [|exact Hinv]. rewrite bottomk_text, (bottomk_out idk idk k R key_p HR (g_xstate g) _ _ m _ Hs Hkk Hao Hbw), out_keymap_id, Es. reflexivity.
  - (* Range: the template branch of the numeric trees (as TranslateApiFacts.range_num_out, over this codec) *)
    destruct Hao as (Ha & Hb0). split; [|exact Hinv]. cbn [fst snd].
    assert (Hba : isbytes (snd (transform k a)) = true).
    { destruct k; try discriminate; cbn [probe_keys map forallb] in Hprobe; apply andb_true_iff in Hprobe; destruct Hprobe as [Hpr _];
        rewrite (surjective_pairing (transform _ a)) in Hpr; destruct Hinv as (_ & _ & _ & _ & _ & HinP & _);
        destruct (probe_cons _ _ _ _ Hpr HinP) as [Hb1 _]; exact Hb1. }
    rewrite range_text, (do_range_num k _ a b _ Hk). unfold ref_range_num. cbv zeta. rewrite (Htr a Ha), (Htr b Hb0).
    assert (Esame : fst (transform k a) = snd (transform k a)) by (apply (mtr_same k a); destruct k; try discriminate; reflexivity).
    unfold bytes_compare. destruct (lex_cmp (fst (transform k a)) (fst (transform k b))) eqn:Ec.
    + change (0 =? 0)%Z with true. cbv iota. rewrite key_eq. unfold do_search. rewrite <- Es, sabs_root. unfold sinv in Hs.
      destruct (xroot (g_xstate g)) as [t|].
      * rewrite (search_eq _ t _ Hs Hba), (xsearch_sim _ t _ _ _ Hs), Esame.
        destruct (search (key_fuel (snd (transform k a))) (tabs t) (snd (transform k a)) (snd (transform k a)) 0) as [v| |];
          cbn [gres_of_sres negb]; [destruct (stop_ans stop 0%nat)| |]; reflexivity.
      * rewrite search_nil. reflexivity.
    + change (-1 =? 0)%Z with false. change (0 <? -1)%Z with false. cbv iota.
      rewrite (range_out idk idk k R key_p HR (g_xstate g) _ _ _ _ _ _ Hs Hkk Hbw), out_keymap_id, Es. reflexivity.
    + change (1 =? 0)%Z with false. change (0 <? 1)%Z with true. cbv iota.
      rewrite (range_out idk idk k R key_p HR (g_xstate g) _ _ _ _ _ _ Hs Hkk Hbw), out_keymap_id, Es. reflexivity.
  - split; [|exact Hinv]. rewrite prefix_text. cbn [fst snd kres_out]. destruct k; try discriminate; reflexivity.
Qed.

Theorem num_run_refines : forall evs,
  Forall num_op (map fst evs) -> history_ok k (map fst evs) = true -> short_keys2 k (map fst evs) ->
  g_run_of g_num_step evs g_init = snd (Api.run k Api.init (map fst evs)) /\
  g_run_of g_num_step evs g_init = snd (ideal_run k [] (map fst evs)).
Proof.
  intros evs Hao Hh Hshort.
  cut (g_run_of g_num_step evs g_init = snd (Api.run k Api.init (map fst evs))).
  { intros E. split; [exact E|]. rewrite E. apply (run_refines k _ Hh). }
  rewrite <- (map_id (snd (Api.run k Api.init (map fst evs)))).
  apply (run_of_refines k g_num_step num_op (fun x => x) num_pairs g_num_step_refines); try assumption.
  intros ops Hops p Hp. unfold ins_pairs in Hp. apply in_map_iff in Hp. destruct Hp as (a & <- & Hin).
  apply in_flat_map in Hin. destruct Hin as (o & Ho & Hao'). destruct o; cbn [ins_keys] in Hao'; try contradiction.
  destruct Hao' as [->|[]]. exists a. split; [|reflexivity]. exact (proj1 (Forall_forall _ _) Hops _ Ho).
Qed.
End NumLoop.

Definition key8 (b : list N) : Prop := length b = 8%nat /\ isbytes b = true.

(* ---- unsignedSortedTree: uint64 keys through the regenerated codec ---- *)
Definition unsigned64_tr : akey -> list N * list N :=
  fun a => match a with AU x => (g_unsigned_transform_uint64 x, g_unsigned_transform_uint64 x) | _ => ([], []) end.
Definition unsigned64_rs : list N -> akey := fun b => AU (g_unsigned_restore_uint64 b).
Definition unsigned64_key (a : akey) : Prop := exists x, a = AU x /\ x < 2 ^ 64.
Definition g_unsigned64_step : gstate -> op -> list choice -> gstate * out :=
  g_num_step (KUnsigned 8) unsigned64_tr g_unsigned_insert g_unsigned_delete g_unsigned_search g_unsigned_search_key
    (g_unsigned_Minimum akey unsigned64_tr unsigned64_rs) (g_unsigned_Maximum akey unsigned64_tr unsigned64_rs) (g_unsigned_Size akey unsigned64_tr unsigned64_rs)
    (g_unsigned_All akey unsigned64_tr unsigned64_rs) (g_unsigned_Backward akey unsigned64_tr unsigned64_rs)
    (g_unsigned_TopK akey unsigned64_tr unsigned64_rs) (g_unsigned_BottomK akey unsigned64_tr unsigned64_rs)
    (g_unsigned_Range akey unsigned64_tr unsigned64_rs) (g_unsigned_Prefix akey unsigned64_tr unsigned64_rs).
Definition g_unsigned64_run := g_run_of g_unsigned64_step.
Definition unsigned64_op : op -> Prop := num_op unsigned64_key.

Lemma unsigned64_tr_eq : forall a, unsigned64_key a -> unsigned64_tr a = transform (KUnsigned 8) a.
Proof. intros a (x & -> & Hx). cbn [unsigned64_tr transform]. rewrite gen_unsigned_transform_uint64_eq by exact Hx. reflexivity. Qed.
Lemma unsigned64_ins_spec : ins_sim_spec (KUnsigned 8) unsigned64_key (num_ins unsigned64_tr g_unsigned_insert).
Proof.
  intros a Ha h root ot F size val os pm Hr Hw Hzp Hb Hlg Hlt Hinv. unfold num_ins. rewrite (unsigned64_tr_eq a Ha).
  destruct Ha as (x & -> & Hx). cbn [transform fst snd] in *.
  pose proof (gen_unsigned_insert_sim h root ot F size _ val os pm Hr Hw Hzp Hb Hlg Hlt Hinv) as G. cbv zeta in G |- *.
  destruct (g_unsigned_insert _ _ _ _ _ _ _ _); try exact G.
  destruct G as (G1 & G2 & G3 & G4 & G5 & F' & G6 & _). eauto 10.
Qed.
Lemma unsigned64_del_spec : del_sim_spec (KUnsigned 8) unsigned64_key (num_del unsigned64_tr g_unsigned_delete).
Proof.
  intros a Ha h root ot F size os pm Hr Hw Hzp Hb Hfit. unfold num_del. rewrite (unsigned64_tr_eq a Ha).
  destruct Ha as (x & -> & Hx). cbn [transform fst snd] in *. set (ks := enc_u 8 x) in *.
  pose proof (gen_unsigned_delete_sim h root ot F size ks os pm Hr Hzp Hb Hfit) as G. cbv zeta in G |- *.
  pose proof (delete_top_hwf _ _ _ (unsigned_delete_loop_sim ks) (unsigned_delete_leaf ks) h root ot F size os pm Hr Hw Hzp Hb Hfit) as GW.
  change (delete_top (fun fuel => g_unsigned_delete_loop1 fuel ks) (key_fuel ks) h root size os (map_pool pm))
    with (g_unsigned_delete (key_fuel ks) h root size ks os (map_pool pm)) in GW.
  destruct (g_unsigned_delete _ _ _ _ _ _ _); try exact G.
  destruct G as (G1 & G2 & G3 & G4 & G5 & F' & G6 & _). eauto 10.
Qed.
Theorem gen_unsigned64_run_refines : forall evs,
  Forall unsigned64_op (map fst evs) -> history_ok (KUnsigned 8) (map fst evs) = true -> short_keys2 (KUnsigned 8) (map fst evs) ->
  g_unsigned64_run evs g_init = snd (Api.run (KUnsigned 8) Api.init (map fst evs)) /\
  g_unsigned64_run evs g_init = snd (ideal_run (KUnsigned 8) [] (map fst evs)).
Proof.
  apply (num_run_refines (KUnsigned 8) eq_refl unsigned64_tr unsigned64_rs unsigned64_key key8 unsigned64_tr_eq).
  - intros b (Hl & Hb). unfold unsigned64_rs, mrs. cbn [restore leaf_gk]. rewrite gen_unsigned_restore_uint64_eq by assumption. reflexivity.
  - intros a (x & -> & Hx). cbn [transform fst]. split; [apply be_bytes_length|apply be_bytes_isbytes].
  - exact unsigned64_ins_spec.
  - exact unsigned64_del_spec.
  - exact gen_unsigned_search_eq.
  - exact search_nil_unsigned.
  - reflexivity.
  - rewrite unsigned_minimum_text, gen_unsigned_restoreKey_eq. reflexivity.
  - rewrite unsigned_maximum_text, gen_unsigned_restoreKey_eq. reflexivity.
  - reflexivity.
  - intros. unfold g_unsigned_All. rewrite gen_unsigned_restoreKey_eq. reflexivity.
  - intros. unfold g_unsigned_Backward. rewrite gen_unsigned_restoreKey_eq. reflexivity.
  - intros. unfold g_unsigned_TopK. rewrite gen_unsigned_restoreKey_eq. reflexivity.
  - intros. unfold g_unsigned_BottomK. rewrite gen_unsigned_restoreKey_eq. reflexivity.
  - rewrite unsigned_range_text, gen_unsigned_restoreKey_eq. reflexivity.
  - reflexivity.
Qed.

(* ---- signedSortedTree: int64 keys through the regenerated codec ---- *)
Definition signed64_tr : akey -> list N * list N :=
  fun a => match a with AS x => (g_signed_transform_int64 x, g_signed_transform_int64 x) | _ => ([], []) end.
Definition signed64_rs : list N -> akey := fun b => AS (g_signed_restore_int64 b).
Definition signed64_key (a : akey) : Prop := exists x, a = AS x /\ (- 2 ^ 63 <= x < 2 ^ 63)%Z.
Definition g_signed64_step : gstate -> op -> list choice -> gstate * out :=
  g_num_step (KSigned 8) signed64_tr g_signed_insert g_signed_delete g_signed_search g_signed_search_key
    (g_signed_Minimum akey signed64_tr signed64_rs) (g_signed_Maximum akey signed64_tr signed64_rs) (g_signed_Size akey signed64_tr signed64_rs)
    (g_signed_All akey signed64_tr signed64_rs) (g_signed_Backward akey signed64_tr signed64_rs)
    (g_signed_TopK akey signed64_tr signed64_rs) (g_signed_BottomK akey signed64_tr signed64_rs)
    (g_signed_Range akey signed64_tr signed64_rs) (g_signed_Prefix akey signed64_tr signed64_rs).
Definition g_signed64_run := g_run_of g_signed64_step.
Definition signed64_op : op -> Prop := num_op signed64_key.

Lemma signed64_tr_eq : forall a, signed64_key a -> signed64_tr a = transform (KSigned 8) a.
Proof. intros a (x & -> & Hx). cbn [signed64_tr transform]. rewrite gen_signed_transform_int64_eq by exact Hx. reflexivity. Qed.
Lemma signed64_ins_spec : ins_sim_spec (KSigned 8) signed64_key (num_ins signed64_tr g_signed_insert).
Proof.
  intros a Ha h root ot F size val os pm Hr Hw Hzp Hb Hlg Hlt Hinv. unfold num_ins. rewrite (signed64_tr_eq a Ha).
  destruct Ha as (x & -> & Hx). cbn [transform fst snd] in *.
  pose proof (gen_signed_insert_sim h root ot F size _ val os pm Hr Hw Hzp Hb Hlg Hlt Hinv) as G. cbv zeta in G |- *.
  destruct (g_signed_insert _ _ _ _ _ _ _ _); try exact G.
  destruct G as (G1 & G2 & G3 & G4 & G5 & F' & G6 & _). eauto 10.
Qed.
Lemma signed64_del_spec : del_sim_spec (KSigned 8) signed64_key (num_del signed64_tr g_signed_delete).
Proof.
  intros a Ha h root ot F size os pm Hr Hw Hzp Hb Hfit. unfold num_del. rewrite (signed64_tr_eq a Ha).
  destruct Ha as (x & -> & Hx). cbn [transform fst snd] in *. set (ks := enc_s 8 x) in *.
  pose proof (gen_signed_delete_sim h root ot F size ks os pm Hr Hzp Hb Hfit) as G. cbv zeta in G |- *.
  pose proof (delete_top_hwf _ _ _ (signed_delete_loop_sim ks) (signed_delete_leaf ks) h root ot F size os pm Hr Hw Hzp Hb Hfit) as GW.
  change (delete_top (fun fuel => g_signed_delete_loop1 fuel ks) (key_fuel ks) h root size os (map_pool pm))
    with (g_signed_delete (key_fuel ks) h root size ks os (map_pool pm)) in GW.
  destruct (g_signed_delete _ _ _ _ _ _ _); try exact G.
  destruct G as (G1 & G2 & G3 & G4 & G5 & F' & G6 & _). eauto 10.
Qed.
Theorem gen_signed64_run_refines : forall evs,
  Forall signed64_op (map fst evs) -> history_ok (KSigned 8) (map fst evs) = true -> short_keys2 (KSigned 8) (map fst evs) ->
  g_signed64_run evs g_init = snd (Api.run (KSigned 8) Api.init (map fst evs)) /\
  g_signed64_run evs g_init = snd (ideal_run (KSigned 8) [] (map fst evs)).
Proof.
  apply (num_run_refines (KSigned 8) eq_refl signed64_tr signed64_rs signed64_key key8 signed64_tr_eq).
  - intros b (Hl & Hb). unfold signed64_rs, mrs. cbn [restore leaf_gk]. rewrite gen_signed_restore_int64_eq by assumption. reflexivity.
  - intros a (x & -> & Hx). cbn [transform fst]. split; [apply be_bytes_length|apply be_bytes_isbytes].
  - exact signed64_ins_spec.
  - exact signed64_del_spec.
  - exact gen_signed_search_eq.
  - exact search_nil_signed.
  - reflexivity.
  - rewrite signed_minimum_text, gen_signed_restoreKey_eq. reflexivity.
  - rewrite signed_maximum_text, gen_signed_restoreKey_eq. reflexivity.
  - reflexivity.
  - intros. unfold g_signed_All. rewrite gen_signed_restoreKey_eq. reflexivity.
  - intros. unfold g_signed_Backward. rewrite gen_signed_restoreKey_eq. reflexivity.
  - intros. unfold g_signed_TopK. rewrite gen_signed_restoreKey_eq. reflexivity.
  - intros. unfold g_signed_BottomK. rewrite gen_signed_restoreKey_eq. reflexivity.
  - rewrite signed_range_text, gen_signed_restoreKey_eq. reflexivity.
  - reflexivity.
Qed.

(* ---- floatSortedTree: float64 (bit pattern) keys through the regenerated codec ---- *)
Definition float64_tr : akey -> list N * list N :=
  fun a => match a with AF x => (g_float_transform_float64 x, g_float_transform_float64 x) | _ => ([], []) end.
Definition float64_rs : list N -> akey := fun b => AF (g_float_restore_float64 b).
Definition float64_key (a : akey) : Prop := exists x, a = AF x /\ x < 2 ^ 64.
Definition g_float64_step : gstate -> op -> list choice -> gstate * out :=
  g_num_step (KFloat 8) float64_tr g_float_insert g_float_delete g_float_search g_float_search_key
    (g_float_Minimum akey float64_tr float64_rs) (g_float_Maximum akey float64_tr float64_rs) (g_float_Size akey float64_tr float64_rs)
    (g_float_All akey float64_tr float64_rs) (g_float_Backward akey float64_tr float64_rs)
    (g_float_TopK akey float64_tr float64_rs) (g_float_BottomK akey float64_tr float64_rs)
    (g_float_Range akey float64_tr float64_rs) (g_float_Prefix akey float64_tr float64_rs).
Definition g_float64_run := g_run_of g_float64_step.
Definition float64_op : op -> Prop := num_op float64_key.

Lemma float64_tr_eq : forall a, float64_key a -> float64_tr a = transform (KFloat 8) a.
Proof. intros a (x & -> & Hx). cbn [float64_tr transform]. rewrite gen_float_transform_float64_eq by exact Hx. reflexivity. Qed.
Lemma float64_ins_spec : ins_sim_spec (KFloat 8) float64_key (num_ins float64_tr g_float_insert).
Proof.
  intros a Ha h root ot F size val os pm Hr Hw Hzp Hb Hlg Hlt Hinv. unfold num_ins. rewrite (float64_tr_eq a Ha).
  destruct Ha as (x & -> & Hx). cbn [transform fst snd] in *.
  pose proof (gen_float_insert_sim h root ot F size _ val os pm Hr Hw Hzp Hb Hlg Hlt Hinv) as G. cbv zeta in G |- *.
  destruct (g_float_insert _ _ _ _ _ _ _ _); try exact G.
  destruct G as (G1 & G2 & G3 & G4 & G5 & F' & G6 & _). eauto 10.
Qed.
Lemma float64_del_spec : del_sim_spec (KFloat 8) float64_key (num_del float64_tr g_float_delete).
Proof.
  intros a Ha h root ot F size os pm Hr Hw Hzp Hb Hfit. unfold num_del. rewrite (float64_tr_eq a Ha).
  destruct Ha as (x & -> & Hx). cbn [transform fst snd] in *. set (ks := enc_f 8 x) in *.
  pose proof (gen_float_delete_sim h root ot F size ks os pm Hr Hzp Hb Hfit) as G. cbv zeta in G |- *.
  pose proof (delete_top_hwf _ _ _ (float_delete_loop_sim ks) (float_delete_leaf ks) h root ot F size os pm Hr Hw Hzp Hb Hfit) as GW.
  change (delete_top (fun fuel => g_float_delete_loop1 fuel ks) (key_fuel ks) h root size os (map_pool pm))
    with (g_float_delete (key_fuel ks) h root size ks os (map_pool pm)) in GW.
  destruct (g_float_delete _ _ _ _ _ _ _); try exact G.
  destruct G as (G1 & G2 & G3 & G4 & G5 & F' & G6 & _). eauto 10.
Qed.
Theorem gen_float64_run_refines : forall evs,
  Forall float64_op (map fst evs) -> history_ok (KFloat 8) (map fst evs) = true -> short_keys2 (KFloat 8) (map fst evs) ->
  g_float64_run evs g_init = snd (Api.run (KFloat 8) Api.init (map fst evs)) /\
  g_float64_run evs g_init = snd (ideal_run (KFloat 8) [] (map fst evs)).
Proof.
  apply (num_run_refines (KFloat 8) eq_refl float64_tr float64_rs float64_key key8 float64_tr_eq).
  - intros b (Hl & Hb). unfold float64_rs, mrs. cbn [restore leaf_gk]. rewrite gen_float_restore_float64_eq by assumption. reflexivity.
  - intros a (x & -> & Hx). cbn [transform fst]. split; [apply be_bytes_length|apply be_bytes_isbytes].
  - exact float64_ins_spec.
  - exact float64_del_spec.
  - exact gen_float_search_eq.
  - exact search_nil_float.
  - reflexivity.
  - rewrite float_minimum_text, gen_float_restoreKey_eq. reflexivity.
  - rewrite float_maximum_text, gen_float_restoreKey_eq. reflexivity.
  - reflexivity.
  - intros. unfold g_float_All. rewrite gen_float_restoreKey_eq. reflexivity.
  - intros. unfold g_float_Backward. rewrite gen_float_restoreKey_eq. reflexivity.
  - intros. unfold g_float_TopK. rewrite gen_float_restoreKey_eq. reflexivity.
  - intros. unfold g_float_BottomK. rewrite gen_float_restoreKey_eq. reflexivity.
  - rewrite float_range_text, gen_float_restoreKey_eq. reflexivity.
  - reflexivity.
Qed.

(* ================= D. the compound tree over a codec (KCompound schema, or KCodec enc dec: any user codec) ================= *)
(* the codec is the model's transform / restore of the kind: for KCodec enc dec these ARE the caller's functions *)
Section Compound.
Variable k : Api.kind.
Hypothesis Hk : is_cmp k = true.
Let Hpk : plain_kind k = true. Proof. destruct k; try discriminate; reflexivity. Qed.
Definition cmp_ins : ins_call := fun f h r s a v os p => g_compound_insert f h r s (snd (mtr k a)) v os p.
Definition cmp_del : del_call := fun f h r s a os p => g_compound_delete f h r s (snd (mtr k a)) os p.
Definition cmp_search : search_call := fun f root a => g_compound_search f root (g_compound_search_key (snd (mtr k a))).
Definition any_akey (a : akey) : Prop := True.

Definition g_compound_step (g : gstate) (o : op) (os : list choice) : gstate * out :=
  let root := h_reify (g_heap g) (g_root g) in
  match o with
  | Insert _ _ | Search _ | Delete _ => gen_step k cmp_ins cmp_del cmp_search g o os
  | Minimum => (g, gopt_out idk (g_compound_Minimum akey (mtr k) (mrs k) (bud_height g) root))
  | Maximum => (g, gopt_out idk (g_compound_Maximum akey (mtr k) (mrs k) (bud_height g) root))
  | Size => (g, gint_out (g_compound_Size akey (mtr k) (mrs k) (g_size g)))
  | All stop => (g, kres_out idk (g_compound_All akey (mtr k) (mrs k) (bud_walk g) root (stop_ans stop)))
  | Backward stop => (g, kres_out idk (g_compound_Backward akey (mtr k) (mrs k) (bud_walk g) root (stop_ans stop)))
  | TopK n stop => (g, kres_out idk (g_compound_TopK akey (mtr k) (mrs k) (bud_walk g) (bud_walk g) root n (stop_ans stop)))
  | BottomK n stop => (g, kres_out idk (g_compound_BottomK akey (mtr k) (mrs k) (bud_walk g) (bud_walk g) root n (stop_ans stop)))
  | Range a b stop => (g, kres_out idk (g_compound_Range akey (mtr k) (mrs k) (bud_height g) (bud_walk g) root a b (stop_ans stop)))
  | Prefix p stop => (g, kres_out idk (g_compound_Prefix akey (mtr k) (mrs k) p (stop_ans stop)))
  end.
Definition g_compound_run := g_run_of g_compound_step.
Definition cmp_op (o : op) : Prop := match o with TopK n _ | BottomK n _ => n < 2 ^ 64 | _ => True end.

Lemma cmp_ins_spec : ins_sim_spec k any_akey cmp_ins.
Proof.
  intros a _ h root ot F size val os pm Hr Hw Hzp Hb Hlg Hlt Hinv. unfold cmp_ins, mtr.
  pose proof (mtr_same k a Hpk) as E. unfold mtr in E. rewrite E in *.
  pose proof (gen_compound_insert_sim h root ot F size _ val os pm Hr Hw Hzp Hb Hlt Hlt Hinv) as G. cbv zeta in G |- *.
  destruct (g_compound_insert _ _ _ _ _ _ _ _); try exact G.
  destruct G as (G1 & G2 & G3 & G4 & G5 & F' & G6 & _). eauto 10.
Qed.
Lemma cmp_del_spec : del_sim_spec k any_akey cmp_del.
Proof.
  intros a _ h root ot F size os pm Hr Hw Hzp Hb Hfit. unfold cmp_del, mtr.
  pose proof (mtr_same k a Hpk) as E. unfold mtr in E. rewrite E in *. set (ks := snd (transform k a)) in *.
  pose proof (gen_compound_delete_sim h root ot F size ks os pm Hr Hzp Hb Hfit) as G. cbv zeta in G |- *.
  pose proof (delete_top_hwf _ _ _ (compound_delete_loop_sim ks) (compound_delete_leaf ks) h root ot F size os pm Hr Hw Hzp Hb Hfit) as GW.
  change (delete_top (fun fuel => g_compound_delete_loop1 fuel ks) (key_fuel ks) h root size os (map_pool pm))
    with (g_compound_delete (key_fuel ks) h root size ks os (map_pool pm)) in GW.
  destruct (g_compound_delete _ _ _ _ _ _ _); try exact G.
  destruct G as (G1 & G2 & G3 & G4 & G5 & F' & G6 & _). eauto 10.
Qed.
Lemma cmp_search_spec : search_spec k any_akey cmp_search.
Proof.
  intros a _ fuel. unfold cmp_search, mtr. pose proof (mtr_same k a Hpk) as E. unfold mtr in E. rewrite E.
  change (g_compound_search_key (snd (transform k a))) with (snd (transform k a)). split.
  - intros t Hx Hb. rewrite (gen_compound_search_eq _ t _ Hx Hb), (xsearch_sim _ t _ _ _ Hx). reflexivity.
  - unfold g_compound_search. rewrite compound_loop_nil. reflexivity.
Qed.

Lemma g_compound_step_refines : forall P, Ideal.ins_ok P = true -> (forall p, In p P -> exists a, p = transform k a) ->
  (forall p, In p P -> N.of_nat (length (fst p)) < M32 /\ N.of_nat (length (snd p)) < M32) -> True ->
  forall g s cs o os, run_inv P g s cs -> cmp_op o ->
  Forall (fun a => In (transform k a) P) (ins_keys o) ->
  forallb (probe_ok P) (map (transform k) (probe_keys k o)) = true -> Ideal.op_ok k o = true ->
  snd (g_compound_step g o os) = snd (Api.step k s o) /\
  run_inv P (fst (g_compound_step g o os)) (fst (Api.step k s o)) (fst (ideal_step k cs o)).
Proof.
  intros P Hok HT HPs _ g s cs o os Hinv Hao Hins Hprobe Hop.
  destruct (reified_state_any P g s cs Hinv) as (Hs & Es & Hw & _).
  assert (Hbw : forall t, xroot (g_xstate g) = Some t -> bud_walk g = walk_fuel (tabs t))
    by (intros t Ht; unfold bud_walk; unfold g_xstate in Ht; cbn [xroot] in Ht; rewrite Ht; reflexivity).
  assert (Hbh : forall t, xroot (g_xstate g) = Some t -> bud_height g = theight (tabs t))
    by (intros t Ht; unfold bud_height; unfold g_xstate in Ht; cbn [xroot] in Ht; rewrite Ht; reflexivity).
  destruct o as [a v|a|a| | | |stop|stop|m stop|m stop|a b stop|a stop]; cbn [g_compound_step].
  1-3: apply (gen_step_refines k any_akey cmp_ins cmp_del cmp_search cmp_ins_spec cmp_del_spec cmp_search_spec P Hok HT HPs);
       try assumption; exact I.
  all: cbv zeta; cbn [fst snd Api.step ideal_step]; change (h_reify (g_heap g) (g_root g)) with (xroot (g_xstate g)).
  - split; [|exact Hinv]. rewrite (gen_compound_minimum_eq k (g_xstate g) _ Hk Hs ltac:(rewrite Es; exact Hw) Hbh), Es. reflexivity.
  - split; [|exact Hinv]. rewrite (gen_compound_maximum_eq k (g_xstate g) _ Hk Hs ltac:(rewrite Es; exact Hw) Hbh), Es. reflexivity.
  - split; [|exact Hinv]. change (g_size g) with (xsize (g_xstate g)). rewrite (gen_compound_size_eq k), Es. reflexivity.
  - split; [|exact Hinv]. rewrite (gen_compound_all_eq k (g_xstate g) _ _ Hk Hs Hbw), Es. reflexivity.
  - split; [|exact Hinv]. rewrite (gen_compound_backward_eq k (g_xstate g) _ _ Hk Hs Hbw), Es. reflexivity.
  - split; [|exact Hinv]. rewrite (gen_compound_topk_eq k (g_xstate g) _ _ m _ Hk Hs Hao Hbw), Es. reflexivity.
  - split; [|exact Hinv]. rewrite (gen_compound_bottomk_eq k (g_xstate g) _ _ m _ Hk Hs Hao Hbw), Es. reflexivity.
  - split; [|exact Hinv]. cbn [fst snd].
    rewrite (gen_compound_range_eq k (g_xstate g) a b _ _ _ Hk Hs ltac:(rewrite Es; exact Hw)), Es; [reflexivity|].
    intros t Ht. split; [apply Hbh; exact Ht|apply Hbw; exact Ht].
  - split; [|exact Hinv]. cbn [fst snd]. rewrite (gen_compound_prefix_eq k akey (mtr k) (mrs k) idk s a a _ Hk). reflexivity.
Qed.

Theorem gen_compound_run_refines : forall evs,
  Forall cmp_op (map fst evs) -> history_ok k (map fst evs) = true -> short_keys2 k (map fst evs) ->
  g_compound_run evs g_init = snd (Api.run k Api.init (map fst evs)) /\
  g_compound_run evs g_init = snd (ideal_run k [] (map fst evs)).
Proof.
  intros evs Hao Hh Hshort.
  cut (g_compound_run evs g_init = snd (Api.run k Api.init (map fst evs))).
  { intros E. split; [exact E|]. rewrite E. apply (run_refines k _ Hh). }
  rewrite <- (map_id (snd (Api.run k Api.init (map fst evs)))).
  apply (run_of_refines k g_compound_step cmp_op (fun x => x) (fun _ => True) g_compound_step_refines); try assumption.
  intros; exact I.
Qed.
End Compound.

(* ================= examples: the runs compute, the hypotheses hold ================= *)
(* B: a toy collator (reverse order of the bytes' values, terminated): functional, injective, prefix-free *)
Definition ex_col (o : list N) : list N := map (fun b => 255 - b) o ++ [0].
Definition ck (o : list N) : akey := AC o (ex_col o).
Definition ex_col_run : list (op * list choice) :=
  [(Insert (ck [1; 2]) 1%Z, []); (Insert (ck [1; 3]) 2%Z, []); (Insert (ck [2]) 3%Z, [Reuse 0]); (Search (ck [1; 3]), []);
   (Minimum, []); (All None, []); (Prefix (ck [1]) None, []); (TopK 1 None, []); (Size, []);
   (Delete (ck [1; 2]), []); (Backward None, []); (Delete (ck [9]), [])].
Example ex_col_run_computes :
  g_collation_run ex_col ex_col_run g_init =
    [OUnit; OUnit; OUnit; OFound 2; OKV (AB [2]) 3;
     OSeq [(AB [2], 3%Z); (AB [1; 3], 2%Z); (AB [1; 2], 1%Z)] 3; OSeq [(AB [1; 3], 2%Z); (AB [1; 2], 1%Z)] 2;
     OSeq [(AB [1; 2], 1%Z)] 1; OSize 3; OBool true; OSeq [(AB [1; 3], 2%Z); (AB [2], 3%Z)] 2; OBool false].
Proof. vm_compute. reflexivity. Qed.
Example ex_col_run_by_theorem :
  g_collation_run ex_col ex_col_run g_init =
  map (out_keymap forget_col) (snd (ideal_run KCollation [] (map fst ex_col_run))).
Proof.
  apply (gen_collation_run_refines ex_col ex_col_run).
  - repeat constructor; try (eexists; reflexivity).
  - vm_compute. reflexivity.
  - intros a v Hin. cbn [map fst ex_col_run In] in Hin.
    repeat (destruct Hin as [E|Hin]; [try discriminate E; injection E as <- _; vm_compute; split; reflexivity|]). destruct Hin.
Qed.

(* C: uint64 keys, the regenerated codec in the loop *)
Definition ex_u64_run : list (op * list choice) :=
  [(Insert (AU 300) 1%Z, []); (Insert (AU 5) 2%Z, []); (Insert (AU 18446744073709551615) 3%Z, [Reuse 0]);
   (Search (AU 5), []); (Minimum, []); (Maximum, []); (All None, []); (Range (AU 4) (AU 400) None, []);
   (Range (AU 300) (AU 300) None, []); (BottomK 2 None, []); (Delete (AU 5), []); (Size, []); (Prefix (AU 1) None, [])].
Example ex_u64_run_computes :
  g_unsigned64_run ex_u64_run g_init =
    [OUnit; OUnit; OUnit; OFound 2; OKV (AU 5) 2; OKV (AU 18446744073709551615) 3;
     OSeq [(AU 5, 2%Z); (AU 300, 1%Z); (AU 18446744073709551615, 3%Z)] 3; OSeq [(AU 5, 2%Z); (AU 300, 1%Z)] 2;
     OSeq [(AU 300, 1%Z)] 1; OSeq [(AU 5, 2%Z); (AU 300, 1%Z)] 2; OBool true; OSize 2; OPanic].
Proof. vm_compute. reflexivity. Qed.
Example ex_u64_run_by_theorem :
  g_unsigned64_run ex_u64_run g_init = snd (ideal_run (KUnsigned 8) [] (map fst ex_u64_run)).
Proof.
  apply (gen_unsigned64_run_refines ex_u64_run).
  - repeat constructor; try (eexists; split; [reflexivity|vm_compute; reflexivity]).
  - vm_compute. reflexivity.
  - intros a v Hin. cbn [map fst ex_u64_run In] in Hin.
    repeat (destruct Hin as [E|Hin]; [try discriminate E; injection E as <- _; vm_compute; split; reflexivity|]). destruct Hin.
Qed.

(* D: a user codec (terminated strings: enc appends 255, dec drops it) *)
Definition ex_kc : Api.kind := KCodec (fun u => u ++ [255]) (fun b => removelast b).
Definition ex_cmp_run : list (op * list choice) :=
  [(Insert (AB [7; 7]) 1%Z, []); (Insert (AB [7; 8]) 2%Z, []); (Insert (AB [9]) 3%Z, []); (Search (AB [7; 8]), []);
   (Range (AB [7; 8]) (AB []) None, []); (Maximum, []); (Delete (AB [7; 7]), []); (All None, []); (Size, [])].
Example ex_cmp_run_computes :
  g_compound_run ex_kc ex_cmp_run g_init =
    [OUnit; OUnit; OUnit; OFound 2; OSeq [(AB [7; 8], 2%Z); (AB [9], 3%Z)] 2; OKV (AB [9]) 3; OBool true;
     OSeq [(AB [7; 8], 2%Z); (AB [9], 3%Z)] 2; OSize 2].
Proof. vm_compute. reflexivity. Qed.
Example ex_cmp_run_by_theorem :
  g_compound_run ex_kc ex_cmp_run g_init = snd (ideal_run ex_kc [] (map fst ex_cmp_run)).
Proof.
  apply (gen_compound_run_refines ex_kc eq_refl ex_cmp_run).
  - repeat constructor.
  - vm_compute. reflexivity.
  - intros a v Hin. cbn [map fst ex_cmp_run In] in Hin.
    repeat (destruct Hin as [E|Hin]; [try discriminate E; injection E as <- _; vm_compute; split; reflexivity|]). destruct Hin.
Qed.
