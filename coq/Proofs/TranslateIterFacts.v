(* The REGENERATED traversals (Gen/IterGen.v, written by go/cmd/srcfacts/translate_iter.go from the ASTs of
   /repo's tree.go and node.go on every run) ARE the hand-written stack machine of Model/Iter.v:

     g_findChild             = Model.PoolTree.xfind                                (xwf n, b a byte)
     g_lowestCommonParent    = Model.Iter.lcparent on tabs                         (xtwf t, WF, theight < fuel)
     g_all, g_backward,
     g_filter, g_rangeScan   = Model.Iter.walk with its four instantiations        (xtwf t; EVERY fuel)
     g_topK, g_bottomK       = Model.Iter.run_bounded                              (k < 2^64, a well-behaved inner iterator)

   A translated closure returns ires (Model/GoTree.v): IDone how calls acc | IPanic | IFuel.  ires_abs reads it as
   the wres of Model/Iter.v: delivered = map tabs (rev acc), calls, and the status ByReturn -> WStopped,
   ByBreak -> WBroke, ByEnd -> WDone, ByFuel -> WFuel; IPanic and IFuel have no reading, so every theorem says in
   particular that on its domain the Go code does not panic and no inner loop needs more than the budget the
   translator gave it.  The Go stack q has its top LAST; the model's stack has it first: q = rev stack. *)
From GoArt Require Import Base.Bytes Model.Node4 Model.Node16 Model.Node Model.Tree Model.Iter Model.Api
  Spec.NodeSpec Spec.TreeSpec Spec.IterSpec Proofs.BytesFacts Proofs.Node4Facts Proofs.NodeFacts Proofs.TreeBasics Proofs.NodeAux48
  Proofs.NodeAuxAssoc Proofs.NodeAuxArr Proofs.InsertFacts Proofs.IterFacts Spec.Ideal Proofs.PropFacts Proofs.TranslateFacts.
From GoArt Require Import Model.Pool Proofs.PoolFacts Model.PoolTree Proofs.PoolTreeFacts.
From GoArt Require Import Model.GoArith Model.GoTree Gen.Node4Gen Gen.Node16Gen Gen.TreeGen Proofs.TranslateTreeFacts Gen.IterGen.
From GoArt Require Export Proofs.TranslateIterBase Proofs.TranslateIterAll Proofs.TranslateIterFilter Proofs.TranslateIterBackward Proofs.TranslateIterRange Proofs.TranslateIterBounded.
From Coq Require Import ZifyN ZifyNat ZifyBool.
Ltac Zify.zify_post_hook ::= Z.div_mod_to_equations.
Open Scope N_scope.

(* ================= 9. the hypotheses are satisfiable; the translations run ================= *)
(* xtwf t (and WF 0 (tabs t) for lowestCommonParent) hold after every admissible history: TranslateTreeFacts.hyps_reachable.
   ex_tree: a node48 root with 17 children, one of them an inner node4. *)
Definition ex_stop3 (i : nat) : bool := (i <? 2)%nat.
Example ex_iter_runs :
  (exists acc, g_all 100 (Some ex_tree) (fun _ => true) = IDone ByEnd 19 acc /\
     map xleaf_v (rev acc) = [1; 2; 3; 4; 5; 100; 101; 6; 7; 8; 9; 10; 11; 12; 13; 14; 15; 16; 17]%Z) /\
  (exists acc, g_backward 100 (Some ex_tree) ex_stop3 = IDone ByReturn 3 acc /\ map xleaf_v (rev acc) = [17; 16; 15]%Z) /\
  (exists acc, g_filter 100 (Some ex_tree) (fun l => (xleaf_v l <? 3)%Z) (fun _ => true) = IDone ByEnd 2 acc /\
     map xleaf_v (rev acc) = [1; 2]%Z) /\
  (exists acc, g_rangeScan 100 (Some ex_tree) [5; 7; 2; 0] [8; 0] [5; 7; 2; 0] [8; 0] (fun _ => true) = IDone ByBreak 4 acc /\
     map xleaf_v (rev acc) = [101; 6; 7; 8]%Z) /\
  g_all 3 (Some ex_tree) (fun _ => true) = IDone ByFuel 2 [XLeaf [2; 0] [2; 0] 2; XLeaf [1; 0] [1; 0] 1] /\
  (exists r, g_lowestCommonParent 10 (Some ex_tree) [5; 7] = GRet (Some (XInner r)) /\ xlen (xh r) = 2) /\
  (exists acc, g_topK (g_all 100 (Some ex_tree)) (g_backward 100 (Some ex_tree)) 5 ex_stop3 = IDone ByBreak 3 acc /\
     map xleaf_v (rev acc) = [17; 16; 15]%Z) /\
  (exists acc, g_topK (g_all 100 (Some ex_tree)) (g_backward 100 (Some ex_tree)) 2 (fun _ => true) = IDone ByReturn 2 acc /\
     map xleaf_v (rev acc) = [17; 16]%Z) /\
  (exists acc, g_bottomK (g_all 100 (Some ex_tree)) (g_backward 100 (Some ex_tree)) 2 (fun _ => true) = IDone ByReturn 2 acc /\
     map xleaf_v (rev acc) = [1; 2]%Z).
Proof. vm_compute. repeat split; eexists; split; reflexivity. Qed.

Print Assumptions gen_rangeScan_eq.
Print Assumptions gen_lowestCommonParent_eq.
Print Assumptions gen_topK_tree.
