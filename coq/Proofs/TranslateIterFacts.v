(* The REGENERATED traversals (Gen/IterGen.v, written by go/cmd/srcfacts/translate_iter.go from the ASTs of
   /repo's tree.go and node.go on every run) ARE the hand-written stack machine of Model/Iter.v:

     g_findChild             = Model.PoolTree.xfind                                (xwf n, b a byte)
     g_lowestCommonParent    = Model.Iter.lcparent on tabs                         (xtwf t, WF, theight < fuel)
     g_all, g_backward,
     g_filter, g_rangeScan   = Model.Iter.walk with its four instantiations        (xtwf t; EVERY fuel)
     g_topK, g_bottomK       = Model.Iter.run_bounded                              (k < 2^64, a well-behaved inner iterator)

   A translated closure returns ires (Model/GoTree.v): IDone how calls acc | IPanic | IFuel.  ires_abs reads it as
   the wres of Model/Iter.v: delivered = map tabs (rev acc), calls, and the status ByReturn -> WStopped,
   ByBreak -> WBroke, ByEnd -> WDone, ByFuel -> WFuel; IPanic and IFuel have no reading, so every theorem says in
   particular that on its domain the Go code does not panic and no inner loop needs more than the budget the
   translator gave it.  The Go stack q has its top LAST; the model's stack has it first: q = rev stack. *)
From GoArt Require Import Base.Bytes Model.Node4 Model.Node16 Model.Node Model.Tree Model.Iter Model.Api
  Spec.NodeSpec Spec.TreeSpec Spec.IterSpec Proofs.BytesFacts Proofs.Node4Facts Proofs.NodeFacts Proofs.TreeBasics Proofs.NodeAux48
  Proofs.NodeAuxAssoc Proofs.NodeAuxArr Proofs.InsertFacts Proofs.IterFacts Spec.Ideal Proofs.PropFacts Proofs.TranslateFacts.
From GoArt Require Import Model.Pool Proofs.PoolFacts Model.PoolTree Proofs.PoolTreeFacts.
From GoArt Require Import Model.GoArith Model.GoTree Gen.Node4Gen Gen.Node16Gen Gen.TreeGen Proofs.TranslateTreeFacts Gen.IterGen.
From Coq Require Import ZifyN ZifyNat ZifyBool.
Ltac Zify.zify_post_hook ::= Z.div_mod_to_equations.
Open Scope N_scope.

(* ================= 0. slices, the reading of a result ================= *)
Definition status_of (h : iend) : wstatus :=
  match h with ByReturn => WStopped | ByBreak => WBroke | ByEnd => WDone | ByFuel => WFuel end.
Definition ires_abs (r : ires) : option wres :=
  match r with
  | IDone how c acc => Some (mkWres (rev (map tabs acc)) c (status_of how))
  | IPanic | IFuel => None
  end.

Lemma idx_last : forall {A} (q : list A) x, nth_error (q ++ [x]) (length q) = Some x.
Proof. intros A q x. rewrite nth_error_app2 by lia. rewrite Nat.sub_diag. reflexivity. Qed.
Lemma len_snoc_pred : forall {A} (q : list A) x, (Z.of_nat (length (q ++ [x])) - 1)%Z = Z.of_nat (length q).
Proof. intros A q x. rewrite app_length. cbn [length]. lia. Qed.
Lemma idx_refs_last : forall (q : list gref) x, idx_refs (q ++ [x]) (Z.of_nat (length (q ++ [x])) - 1) = Some x.
Proof. intros q x. rewrite len_snoc_pred, idx_refs_nat. apply idx_last. Qed.
Lemma idx_entries_nat : forall (l : list (gref * Z)) i, idx_entries l (Z.of_nat i) = nth_error l i.
Proof.
  intros l i. unfold idx_entries. destruct (Z.ltb_spec (Z.of_nat i) 0); [lia|]. rewrite Nat2Z.id. reflexivity.
Qed.
Lemma idx_entries_last : forall (q : list (gref * Z)) x, idx_entries (q ++ [x]) (Z.of_nat (length (q ++ [x])) - 1) = Some x.
Proof. intros q x. rewrite len_snoc_pred, idx_entries_nat. apply idx_last. Qed.
Lemma slice_to_nat : forall {A} (s : list A) k, (k <= length s)%nat -> slice_to s (Z.of_nat k) = Some (firstn k s).
Proof.
  intros A s k H. unfold slice_to.
  destruct (Z.ltb_spec (Z.of_nat k) 0); [lia|]. destruct (Z.ltb_spec (Z.of_nat (length s)) (Z.of_nat k)); [lia|].
  cbn [orb]. rewrite Nat2Z.id. reflexivity.
Qed.
Lemma slice_to_last : forall {A} (q : list A) x, slice_to (q ++ [x]) (Z.of_nat (length (q ++ [x])) - 1) = Some q.
Proof.
  intros A q x. rewrite len_snoc_pred, slice_to_nat by (rewrite app_length; lia).
  rewrite firstn_app, Nat.sub_diag, firstn_all. cbn [firstn]. rewrite app_nil_r. reflexivity.
Qed.
Lemma slice_from_to_nat : forall {A} (s : list A) lo n, (lo + n <= length s)%nat ->
  slice_from_to s (Z.of_nat lo) (Z.of_nat lo + Z.of_nat n) = Some (firstn n (skipn lo s)).
Proof.
  intros A s lo n H. unfold slice_from_to.
  destruct (Z.ltb_spec (Z.of_nat lo) 0); [lia|].
  destruct (Z.ltb_spec (Z.of_nat lo + Z.of_nat n) (Z.of_nat lo)); [lia|].
  destruct (Z.ltb_spec (Z.of_nat (length s)) (Z.of_nat lo + Z.of_nat n)); [lia|]. cbn [orb].
  replace (Z.to_nat (Z.of_nat lo + Z.of_nat n - Z.of_nat lo)) with n by lia. rewrite Nat2Z.id. reflexivity.
Qed.
Lemma len_nonzero : forall {A} (q : list A) x, negb (Z.of_nat (length (q ++ [x])) =? 0)%Z = true.
Proof. intros A q x. rewrite app_length. cbn [length]. destruct (Z.eqb_spec (Z.of_nat (length q + 1)) 0); [lia|reflexivity]. Qed.
Lemma firstn_succ_nth : forall {A} (l : list A) k x, nth_error l k = Some x -> firstn (S k) l = firstn k l ++ [x].
Proof.
  intros A. induction l as [|y l IH]; intros [|k] x H; cbn [nth_error] in H; try discriminate.
  - injection H as ->. reflexivity.
  - cbn [firstn app]. f_equal. apply IH. exact H.
Qed.

(* ================= 1. findChild ================= *)
(* a cell the invariant calls occupied holds a non-nil reference *)
Lemma slot_occ_some : forall (ch : list (option xtree)) m i, forallb isome (firstn m ch) = true ->
  length (somes (firstn m ch)) = m -> (i < m)%nat -> exists c, slot ch i = Some c.
Proof.
  intros ch m i Ho Hl Hi. rewrite (slot_occ ch m i Ho Hi).
  apply nth_error_lt_some. lia.
Qed.
Lemma xwf48_cell : forall {C} h idx (ch : list (option C)), xwf (X48 h idx ch) ->
  forall b, (b < 256)%nat -> nth b idx 0 = 0 \/
    (1 <= nth b idx 0 <= 48 /\ exists c, nth_error ch (N.to_nat (nth b idx 0 - 1)) = Some (Some c)).
Proof.
  intros C h idx ch (_ & _ & Hn) b Hb. cbn [xabs] in Hn. destruct Hn as (_ & _ & _ & Hinv & _).
  specialize (Hinv b Hb). cbv zeta in Hinv. destruct Hinv as [Hz|(H1 & H2 & H3)]; [left; exact Hz|right]. split; [lia|exact H3].
Qed.

Theorem gen_findChild_eq : forall n b, xwf n -> b < 256 ->
  g_findChild (Some (XInner n)) b = GRet (option_map Some (xfind n b)).
Proof.
  intros n b Hx Hb. destruct n as [h keys ch|h keys ch|h idx ch|h ch];
    cbn [g_findChild ref_tag ref_pointer cast_node4 cast_node16 cast_node48 cast_node256 xword xbytes xch xh].
  - assert (Hk : keys < M32) by (destruct Hx as (_ & _ & Hn); cbn [xabs] in Hn; destruct Hn as (_ & Hk' & _); exact Hk').
    rewrite (gen_searchNode4_eq keys b Hk Hb). pose proof (searchNode4_ge keys b) as Hge.
    destruct (xwf4_inv _ _ _ Hx) as (Hc4 & Ho & Hm4 & Hl). cbn [xfind].
    destruct (negb (searchNode4 keys b =? -1)%Z && (searchNode4 keys b <? Z.of_N (xlen h))%Z) eqn:Ec; [|reflexivity].
    apply andb_prop in Ec. destruct Ec as [Ec1 Ec2]. apply negb_true_iff, Z.eqb_neq in Ec1. apply Z.ltb_lt in Ec2.
    rewrite idx_refs_slot by lia.
    destruct (slot_occ_some ch _ (Z.to_nat (searchNode4 keys b)) Ho Hl ltac:(lia)) as [c Ec]. rewrite Ec. reflexivity.
  - destruct (xwf16_keys _ _ _ Hx) as (Hk16 & HF16 & Hl16). destruct (xwf16_inv _ _ _ Hx) as (_ & Hc16 & Ho & Hm16 & Hl).
    rewrite (gen_searchNode16_eq keys (xlen h) b Hk16 HF16 Hb Hl16). cbn [xfind].
    destruct (search16_cases keys (xlen h) b Hk16 Hl16) as [E|(k & E & Hlt)]; rewrite E.
    + reflexivity.
    + destruct (Z.eqb_spec (Z.of_nat k) (-1)); [lia|]. cbn [negb]. rewrite idx_refs_slot by lia.
      destruct (slot_occ_some ch _ (Z.to_nat (Z.of_nat k)) Ho Hl ltac:(lia)) as [c Ec]. rewrite Ec. reflexivity.
  - destruct (xwf48_inv _ _ _ Hx) as (Hli & Hlc & _). rewrite idx_bytes_N by lia. cbn [xfind].
    destruct (xwf48_cell _ _ _ Hx (N.to_nat b) ltac:(lia)) as [Hz|(Hr & c & Hc)].
    + rewrite Hz. reflexivity.
    + destruct (N.eqb_spec (nth (N.to_nat b) idx 0) 0); [lia|]. cbn [negb].
      rewrite subw8_pred by lia. rewrite idx_refs_slot by lia.
      replace (Z.to_nat (Z.of_N (nth (N.to_nat b) idx 0 - 1))) with (N.to_nat (nth (N.to_nat b) idx 0 - 1)) by lia.
      unfold slot. rewrite Hc. reflexivity.
  - pose proof (xwf256_inv _ _ Hx) as Hlc. rewrite !idx_refs_slot by lia.
    replace (Z.to_nat (Z.of_N b)) with (N.to_nat b) by lia. cbn [xfind].
    destruct (slot ch (N.to_nat b)) as [c|]; reflexivity.
Qed.

(* ================= 2. lowestCommonParent ================= *)
Definition ikind (n : xnode xtree) : gkind :=
  match n with X4 _ _ _ => Kind4 | X16 _ _ _ => Kind16 | X48 _ _ _ => Kind48 | X256 _ _ => Kind256 end.
Lemma ref_tag_inner : forall n, ref_tag (Some (XInner n)) = Some (ikind n).
Proof. intros [h k c|h k c|h k c|h c]; reflexivity. Qed.
Lemma ikind_not_leaf : forall n, gkind_eqb (ikind n) KindLeaf = false.
Proof. intros [h k c|h k c|h k c|h c]; reflexivity. Qed.
Lemma theight_child : forall (n : rnode tree) b c, In (b, c) (nenum n) -> (theight c < theight (Inner n))%nat.
Proof. intros n b c H. apply (in_nenum_height n b c H). Qed.

Theorem gen_lowestCommonParent_loop_eq : forall fuel t p d dd, xtwf t -> WF dd (tabs t) -> isbytes p = true ->
  (theight (tabs t) < fuel)%nat ->
  exists r dep, g_lowestCommonParent_loop1 fuel p (Some t) (Z.of_nat d) = LDone (Some r, dep) /\
    lcparent fuel (tabs t) p d = Some (tabs r).
Proof.
  induction fuel as [|fuel IH]; intros t p d dd Hxt Hwf Hp Hh; [lia|].
  destruct t as [gk tk v|n].
  { exists (XLeaf gk tk v), (Z.of_nat d). split; reflexivity. }
  destruct (xtwf_inv _ Hxt) as [Hx Hch]. rewrite tabs_inner in *.
  cbn [g_lowestCommonParent_loop1 ref_is_nil ref_pointer negb ref_node lcparent].
  rewrite ref_tag_inner, ikind_not_leaf. cbn [negb].
  cbv zeta. rewrite nhdr_nabs. cbn [xabs_hdr prefixLen].
  (* the continuation after the compressed-path test, at depth d1 *)
  assert (Hk : forall d1,
    exists r dep,
      (if (Z.of_nat (length p) <=? Z.of_nat d1)%Z then LDone (Some (XInner n), Z.of_nat d1)
       else match idx_bytes p (Z.of_nat d1) with
            | None => LPanic
            | Some v_2 =>
              match g_findChild (Some (XInner n)) v_2 with
              | GRet r_2 =>
                if ptr_is_nil r_2 then LDone (Some (XInner n), Z.of_nat d1)
                else match r_2 with
                     | None => LPanic
                     | Some v_3 => g_lowestCommonParent_loop1 fuel p v_3 (Z.of_nat d1 + 1)
                     end
              | GPanic => LPanic
              | GFuel => LFuel
              end
            end) = LDone (Some r, dep) /\
      match nth_error p d1 with
      | None => Some (Inner (nabs n))
      | Some b => match nfind (nabs n) b with None => Some (Inner (nabs n)) | Some c => lcparent fuel c p (S d1) end
      end = Some (tabs r)).
  { intros d1. destruct (nth_error p d1) as [b|] eqn:Eb.
    - assert (Hd1 : (d1 < length p)%nat) by (apply nth_error_Some; rewrite Eb; discriminate).
      replace (Z.of_nat (length p) <=? Z.of_nat d1)%Z with false by (symmetry; apply Z.leb_gt; lia).
      rewrite idx_bytes_nat, Eb. pose proof (nth_byte _ _ _ Hp Eb) as Hb.
      rewrite (gen_findChild_eq n b Hx Hb), (nfind_nabs n b Hx).
      destruct (xfind n b) as [c|] eqn:Ef; cbn [option_map omap ptr_is_nil].
      + destruct (xfind_child n b c Hx Ef) as [b' Hin].
        destruct (WF_child _ _ _ _ Hwf (in_nenum_nabs _ _ _ Hin)) as [Hc _].
        pose proof (theight_child _ _ _ (in_nenum_nabs _ _ _ Hin)) as Hhc.
        replace (Z.of_nat d1 + 1)%Z with (Z.of_nat (S d1)) by lia.
        apply (IH c p (S d1) _ (Hch b' c Hin) Hc Hp). lia.
      + exists (XInner n), (Z.of_nat d1). split; [reflexivity|]. rewrite tabs_inner. reflexivity.
    - apply nth_error_None in Eb.
      replace (Z.of_nat (length p) <=? Z.of_nat d1)%Z with true by (symmetry; apply Z.leb_le; lia).
      exists (XInner n), (Z.of_nat d1). split; [reflexivity|]. rewrite tabs_inner. reflexivity. }
  destruct (Nat.eqb_spec (xplen (xh n)) 0) as [Ep|Ep].
  - replace (hdr_prefixLen (xh n) =? 0) with true by (symmetry; apply N.eqb_eq; unfold hdr_prefixLen; lia).
    cbn [negb andb]. rewrite Ep, Nat.add_0_r. apply Hk.
  - replace (hdr_prefixLen (xh n) =? 0) with false by (symmetry; apply N.eqb_neq; unfold hdr_prefixLen; lia).
    cbn [negb andb].
    rewrite (gen_prefixMismatch_eq fuel n p d dd Hxt Hwf ltac:(lia)).
    replace (Z.of_nat (prefixMismatch (nabs n) p d) <? Z.of_N (hdr_prefixLen (xh n)))%Z
      with (prefixMismatch (nabs n) p d <? xplen (xh n))%nat
      by (unfold hdr_prefixLen; destruct (Nat.ltb_spec (prefixMismatch (nabs n) p d) (xplen (xh n)));
          destruct (Z.ltb_spec (Z.of_nat (prefixMismatch (nabs n) p d)) (Z.of_N (N.of_nat (xplen (xh n))))); try reflexivity; lia).
    destruct (prefixMismatch (nabs n) p d <? xplen (xh n))%nat.
    + exists (XInner n), (Z.of_nat d). split; [reflexivity|]. rewrite tabs_inner. reflexivity.
    + replace (Z.of_nat d + Z.of_N (hdr_prefixLen (xh n)))%Z with (Z.of_nat (d + xplen (xh n))) by (unfold hdr_prefixLen; lia).
      apply Hk.
Qed.

(* lowestCommonParent(root, prefix) on a non-nil root: the node the model's descent stops at; no panic, and the
   budget is enough as soon as it exceeds the height (minimum() inside prefixMismatch is given the same budget) *)
Theorem gen_lowestCommonParent_eq : forall fuel t p dd, xtwf t -> WF dd (tabs t) -> isbytes p = true ->
  (theight (tabs t) < fuel)%nat ->
  exists r, g_lowestCommonParent fuel (Some t) p = GRet (Some r) /\ lcparent fuel (tabs t) p 0 = Some (tabs r).
Proof.
  intros fuel t p dd Hxt Hwf Hp Hh.
  destruct (gen_lowestCommonParent_loop_eq fuel t p 0 dd Hxt Hwf Hp Hh) as (r & dep & Hl & Hm).
  exists r. split; [|exact Hm]. unfold g_lowestCommonParent. cbv zeta. cbn [Z.of_nat] in Hl. rewrite Hl. reflexivity.
Qed.
(* a nil root is returned as it is *)
Theorem gen_lowestCommonParent_nil : forall fuel p, g_lowestCommonParent fuel None p = GRet None.
Proof. intros [|fuel] p; reflexivity. Qed.

(* ================= 3. the children of a raw node, as the counting loops push them ================= *)
Definition xkids (n : xnode xtree) : list xtree := map snd (nenum (xabs n)).
Lemma nchildren_nabs : forall n, nchildren (nabs n) = map tabs (xkids n).
Proof. intros n. unfold nchildren, xkids. rewrite nenum_nabs, !map_map. reflexivity. Qed.
Lemma xkids_xtwf : forall n, xtwf (XInner n) -> Forall xtwf (xkids n).
Proof.
  intros n H. destruct (xtwf_inv _ H) as [_ Hch]. apply Forall_forall. intros c Hin.
  unfold xkids in Hin. apply in_map_iff in Hin. destruct Hin as ([b c'] & <- & Hin). exact (Hch b c' Hin).
Qed.

Definition cell48 (ch : list (option xtree)) (i : N) : list xtree :=
  if i =? 0 then [] else match nth_error ch (N.to_nat (i - 1)) with Some (Some c) => [c] | _ => [] end.
Definition kids48 (ch : list (option xtree)) (l : list N) : list xtree := flat_map (cell48 ch) l.
Lemma enum_idx_kids : forall idx ch b, map snd (enum_idx idx ch b) = kids48 ch idx.
Proof.
  induction idx as [|i idx IH]; intros ch b; [reflexivity|].
  cbn [enum_idx kids48 flat_map]. rewrite map_app, IH. unfold kids48. f_equal.
  unfold cell48. destruct (i =? 0); [reflexivity|]. destruct (nth_error ch (N.to_nat (i - 1))) as [[c|]|]; reflexivity.
Qed.
Lemma enum_slots_kids : forall (ch : list (option xtree)) b, map snd (enum_slots ch b) = somes ch.
Proof.
  induction ch as [|[c|] ch IH]; intros b; cbn [enum_slots somes map app]; [reflexivity|f_equal; apply IH|apply IH].
Qed.
Lemma snd_combine : forall {A B} (ks : list A) (cs : list B), (length cs <= length ks)%nat -> map snd (combine ks cs) = cs.
Proof.
  intros A B. induction ks as [|k ks IH]; intros [|c cs] H; cbn [length] in H; cbn [combine map]; try reflexivity; [lia|].
  f_equal. apply IH. lia.
Qed.
Lemma xkids4 : forall h keys ch, xwf (X4 h keys ch) ->
  firstn (N.to_nat (xlen h)) ch = map Some (xkids (X4 h keys ch)).
Proof.
  intros h keys ch Hx. destruct (xwf4_inv _ _ _ Hx) as (Hc & Ho & Hm & Hl).
  unfold xkids. cbn [xabs nenum]. rewrite snd_combine by (rewrite firstn_length, lanes_length; lia).
  apply occ_map. exact Ho.
Qed.
Lemma xkids16 : forall h keys ch, xwf (X16 h keys ch) ->
  firstn (N.to_nat (xlen h)) ch = map Some (xkids (X16 h keys ch)).
Proof.
  intros h keys ch Hx. destruct (xwf16_inv _ _ _ Hx) as (Hk & Hc & Ho & Hm & Hl).
  unfold xkids. cbn [xabs nenum]. rewrite snd_combine by (rewrite firstn_length; lia).
  apply occ_map. exact Ho.
Qed.
Lemma xkids48 : forall h idx ch, xkids (X48 h idx ch) = kids48 ch idx.
Proof. intros. unfold xkids. cbn [xabs nenum]. apply enum_idx_kids. Qed.
Lemma xkids256 : forall h ch, xkids (X256 h ch) = somes ch.
Proof. intros. unfold xkids. cbn [xabs nenum]. apply enum_slots_kids. Qed.
Lemma kids48_app : forall ch l1 l2, kids48 ch (l1 ++ l2) = kids48 ch l1 ++ kids48 ch l2.
Proof. intros. unfold kids48. apply flat_map_app. Qed.

(* ---- the counting loops, each proved once for any Fixpoint with the same unfolding equation:
   E the type of a stack entry, mk what is pushed for the reference read ---- *)
Section DownArr.   (* for i := int(n.childrenLen) - 1; i >= 0; i-- { q = append(q, mk n.children[i]) } *)
Context {E : Type} (mk : gref -> E) (L : nat -> xnode xtree -> list E -> Z -> lres ires (list E * Z)).
Hypothesis L_eq : forall fuel n q i, L fuel n q i =
  if (0 <=? i)%Z then
    match fuel with
    | O => LFuel
    | S fuel => match idx_refs (xch n) i with None => LPanic | Some v => L fuel n (q ++ [mk v]) (i - 1)%Z end
    end
  else LDone (q, i).
Lemma down_arr : forall k n q, (k <= length (xch n))%nat ->
  L k n q (Z.of_nat k - 1) = LDone (q ++ rev (map mk (firstn k (xch n))), (-1)%Z).
Proof.
  induction k as [|k IH]; intros n q Hk.
  - rewrite L_eq. cbn [Z.of_nat Z.sub Z.add Z.opp Z.leb Z.compare firstn map rev]. rewrite app_nil_r. reflexivity.
  - rewrite L_eq. replace (0 <=? Z.of_nat (S k) - 1)%Z with true by lia.
    replace (Z.of_nat (S k) - 1)%Z with (Z.of_nat k) by lia. rewrite idx_refs_nat.
    destruct (nth_error_lt_some (xch n) k ltac:(lia)) as [x Ex]. unfold gref in *. rewrite Ex.
    rewrite IH by lia. rewrite (firstn_succ_nth _ _ _ Ex), map_app, rev_app_distr. cbn [map rev app].
    rewrite <- app_assoc. reflexivity.
Qed.
End DownArr.

Definition cells48_ok (n : xnode xtree) (lo hi : nat) : Prop :=
  forall t, (lo <= t < hi)%nat -> nth t (xbytes n) 0 = 0 \/
    (1 <= nth t (xbytes n) 0 <= 48 /\ exists c, nth_error (xch n) (N.to_nat (nth t (xbytes n) 0 - 1)) = Some (Some c)).

Lemma cell48_read : forall n t, cells48_ok n t (S t) -> (t < length (xbytes n))%nat ->
  exists x, nth_error (xbytes n) t = Some x /\
    ((x = 0 /\ cell48 (xch n) x = []) \/
     (x <> 0 /\ exists c, idx_refs (xch n) (Z.of_N (subw 8 x 1)) = Some (Some c) /\ cell48 (xch n) x = [c])).
Proof.
  intros n t Hok Hl. exists (nth t (xbytes n) 0). split; [apply nth_error_nth'; exact Hl|].
  destruct (Hok t ltac:(lia)) as [Hz|(Hr & c & Hc)].
  - left. rewrite Hz. split; reflexivity.
  - right. split; [lia|]. exists c. unfold cell48. destruct (N.eqb_spec (nth t (xbytes n) 0) 0); [lia|]. rewrite Hc.
    split; [|reflexivity]. rewrite subw8_pred by lia.
    replace (Z.of_N (nth t (xbytes n) 0 - 1)) with (Z.of_nat (N.to_nat (nth t (xbytes n) 0 - 1))) by lia.
    rewrite idx_refs_nat. exact Hc.
Qed.

Section Down48.   (* for i := 255; i >= 0; i-- { idx := n48.keys[i]; if idx == 0 { continue }; q = append(q, mk n48.children[idx-1]) } *)
Context {E : Type} (mk : gref -> E) (L : nat -> xnode xtree -> list E -> Z -> lres ires (list E * Z)).
Hypothesis L_eq : forall fuel n q i, L fuel n q i =
  if (0 <=? i)%Z then
    match fuel with
    | O => LFuel
    | S fuel =>
      match idx_bytes (xbytes n) i with None => LPanic | Some x =>
        if x =? 0 then L fuel n q (i - 1)%Z
        else match idx_refs (xch n) (Z.of_N (subw 8 x 1)) with None => LPanic | Some v => L fuel n (q ++ [mk v]) (i - 1)%Z end
      end
    end
  else LDone (q, i).
Lemma down_48 : forall k n q, (k <= length (xbytes n))%nat -> cells48_ok n 0 k ->
  L k n q (Z.of_nat k - 1) = LDone (q ++ rev (map mk (map Some (kids48 (xch n) (firstn k (xbytes n))))), (-1)%Z).
Proof.
  induction k as [|k IH]; intros n q Hk Hok.
  - rewrite L_eq. cbn [Z.of_nat Z.sub Z.add Z.opp Z.leb Z.compare firstn kids48 flat_map map rev]. rewrite app_nil_r. reflexivity.
  - rewrite L_eq. replace (0 <=? Z.of_nat (S k) - 1)%Z with true by lia.
    replace (Z.of_nat (S k) - 1)%Z with (Z.of_nat k) by lia. rewrite idx_bytes_nat.
    destruct (cell48_read n k) as (x & Ex & Hx); [intros t Ht; apply Hok; lia|lia|]. rewrite Ex.
    rewrite (firstn_succ_nth _ _ _ Ex), kids48_app. cbn [kids48 flat_map]. rewrite app_nil_r.
    assert (Hok' : cells48_ok n 0 k) by (intros t Ht; apply Hok; lia).
    destruct Hx as [[-> Hc]|(Hne & c & Hr & Hc)]; rewrite Hc.
    + rewrite N.eqb_refl, IH by (assumption || lia). rewrite app_nil_r. reflexivity.
    + destruct (N.eqb_spec x 0); [contradiction|]. unfold gref in *. rewrite Hr, IH by (assumption || lia).
      rewrite !map_app, rev_app_distr. cbn [map rev app]. rewrite <- app_assoc. reflexivity.
Qed.
End Down48.

Lemma somes_app1 : forall (l : list (option xtree)) x, somes (l ++ [x]) = somes l ++ match x with Some c => [c] | None => [] end.
Proof. intros l x. rewrite somes_app. destruct x; reflexivity. Qed.

Section Down256.  (* for i := 255; i >= 0; i-- { if n256.children[i].pointer == nil { continue }; q = append(q, mk n256.children[i]) } *)
Context {E : Type} (mk : gref -> E) (L : nat -> xnode xtree -> list E -> Z -> lres ires (list E * Z)).
Hypothesis L_eq : forall fuel n q i, L fuel n q i =
  if (0 <=? i)%Z then
    match fuel with
    | O => LFuel
    | S fuel =>
      match idx_refs (xch n) i with None => LPanic | Some v =>
        if ref_is_nil (ref_pointer v) then L fuel n q (i - 1)%Z
        else match idx_refs (xch n) i with None => LPanic | Some v' => L fuel n (q ++ [mk v']) (i - 1)%Z end
      end
    end
  else LDone (q, i).
Lemma down_256 : forall k n q, (k <= length (xch n))%nat ->
  L k n q (Z.of_nat k - 1) = LDone (q ++ rev (map mk (map Some (somes (firstn k (xch n))))), (-1)%Z).
Proof.
  induction k as [|k IH]; intros n q Hk.
  - rewrite L_eq. cbn [Z.of_nat Z.sub Z.add Z.opp Z.leb Z.compare firstn somes map rev]. rewrite app_nil_r. reflexivity.
  - rewrite L_eq. replace (0 <=? Z.of_nat (S k) - 1)%Z with true by lia.
    replace (Z.of_nat (S k) - 1)%Z with (Z.of_nat k) by lia. rewrite idx_refs_nat.
    destruct (nth_error_lt_some (xch n) k ltac:(lia)) as [x Ex]. unfold gref in *. rewrite Ex.
    rewrite (firstn_succ_nth _ _ _ Ex), somes_app1.
    destruct x as [c|]; cbn [ref_pointer ref_is_nil].
    + rewrite IH by lia. rewrite !map_app, rev_app_distr. cbn [map rev app]. rewrite <- app_assoc. reflexivity.
    + rewrite IH by lia. rewrite app_nil_r. reflexivity.
Qed.
End Down256.

Section UpArr.    (* for i := uint8(0); i < n.childrenLen; i++ { q = append(q, mk n.children[i]) } *)
Context {E : Type} (mk : gref -> E) (L : nat -> xnode xtree -> list E -> N -> lres ires (list E * N)).
Hypothesis L_eq : forall fuel n q i, L fuel n q i =
  if i <? xlen (xh n) then
    match fuel with
    | O => LFuel
    | S fuel => match idx_refs (xch n) (Z.of_N i) with None => LPanic | Some v => L fuel n (q ++ [mk v]) (addw 8 i 1) end
    end
  else LDone (q, i).
Lemma up_arr : forall m j n q, (j + m = N.to_nat (xlen (xh n)))%nat -> xlen (xh n) < 256 ->
  (N.to_nat (xlen (xh n)) <= length (xch n))%nat ->
  L m n q (N.of_nat j) = LDone (q ++ map mk (firstn m (skipn j (xch n))), xlen (xh n)).
Proof.
  induction m as [|m IH]; intros j n q Hj Hlt Hl.
  - rewrite L_eq. replace (N.of_nat j <? xlen (xh n)) with false by (symmetry; apply N.ltb_ge; lia).
    cbn [firstn map]. rewrite app_nil_r. f_equal. f_equal. lia.
  - rewrite L_eq. replace (N.of_nat j <? xlen (xh n)) with true by (symmetry; apply N.ltb_lt; lia).
    replace (Z.of_N (N.of_nat j)) with (Z.of_nat j) by lia. rewrite idx_refs_nat.
    destruct (nth_error_lt_some (xch n) j ltac:(lia)) as [x Ex]. unfold gref in *. rewrite Ex.
    replace (addw 8 (N.of_nat j) 1) with (N.of_nat (S j))
      by (unfold addw; change (2 ^ 8) with 256; rewrite N.mod_small by lia; lia).
    rewrite IH by lia. rewrite (skipn_cons_nth _ _ _ Ex). cbn [firstn map]. rewrite <- app_assoc. reflexivity.
Qed.
End UpArr.

Section Up48.     (* for i := 0; i < 256; i++ { idx := n48.keys[i]; if idx == 0 { continue }; q = append(q, mk n48.children[idx-1]) } *)
Context {E : Type} (mk : gref -> E) (L : nat -> xnode xtree -> list E -> Z -> lres ires (list E * Z)).
Hypothesis L_eq : forall fuel n q i, L fuel n q i =
  if (i <? 256)%Z then
    match fuel with
    | O => LFuel
    | S fuel =>
      match idx_bytes (xbytes n) i with None => LPanic | Some x =>
        if x =? 0 then L fuel n q (i + 1)%Z
        else match idx_refs (xch n) (Z.of_N (subw 8 x 1)) with None => LPanic | Some v => L fuel n (q ++ [mk v]) (i + 1)%Z end
      end
    end
  else LDone (q, i).
Lemma up_48 : forall m j n q, (j + m = 256)%nat -> length (xbytes n) = 256%nat -> cells48_ok n j 256 ->
  L m n q (Z.of_nat j) = LDone (q ++ map mk (map Some (kids48 (xch n) (firstn m (skipn j (xbytes n))))), 256%Z).
Proof.
  induction m as [|m IH]; intros j n q Hj Hl Hok.
  - rewrite L_eq. replace (Z.of_nat j <? 256)%Z with false by (symmetry; apply Z.ltb_ge; lia).
    cbn [firstn kids48 flat_map map]. rewrite app_nil_r. f_equal. f_equal. lia.
  - rewrite L_eq. replace (Z.of_nat j <? 256)%Z with true by (symmetry; apply Z.ltb_lt; lia).
    rewrite idx_bytes_nat.
    destruct (cell48_read n j) as (x & Ex & Hx); [intros t Ht; apply Hok; lia|lia|]. rewrite Ex.
    rewrite (skipn_cons_nth _ _ _ Ex). cbn [firstn kids48 flat_map]. fold (kids48 (xch n) (firstn m (skipn (S j) (xbytes n)))).
    replace (Z.of_nat j + 1)%Z with (Z.of_nat (S j)) by lia.
    assert (Hok' : cells48_ok n (S j) 256) by (intros t Ht; apply Hok; lia).
    destruct Hx as [[-> Hc]|(Hne & c & Hr & Hc)]; rewrite Hc.
    + rewrite N.eqb_refl, IH by (assumption || lia). reflexivity.
    + destruct (N.eqb_spec x 0); [contradiction|]. unfold gref in *. rewrite Hr, IH by (assumption || lia).
      cbn [app map]. rewrite <- app_assoc. reflexivity.
Qed.
End Up48.

Section Up256.    (* for i := 0; i < 256; i++ { if n256.children[i].pointer == nil { continue }; q = append(q, mk n256.children[i]) } *)
Context {E : Type} (mk : gref -> E) (L : nat -> xnode xtree -> list E -> Z -> lres ires (list E * Z)).
Hypothesis L_eq : forall fuel n q i, L fuel n q i =
  if (i <? 256)%Z then
    match fuel with
    | O => LFuel
    | S fuel =>
      match idx_refs (xch n) i with None => LPanic | Some v =>
        if ref_is_nil (ref_pointer v) then L fuel n q (i + 1)%Z
        else match idx_refs (xch n) i with None => LPanic | Some v' => L fuel n (q ++ [mk v']) (i + 1)%Z end
      end
    end
  else LDone (q, i).
Lemma up_256 : forall m j n q, (j + m = 256)%nat -> length (xch n) = 256%nat ->
  L m n q (Z.of_nat j) = LDone (q ++ map mk (map Some (somes (firstn m (skipn j (xch n))))), 256%Z).
Proof.
  induction m as [|m IH]; intros j n q Hj Hl.
  - rewrite L_eq. replace (Z.of_nat j <? 256)%Z with false by (symmetry; apply Z.ltb_ge; lia).
    cbn [firstn somes map]. rewrite app_nil_r. f_equal. f_equal. lia.
  - rewrite L_eq. replace (Z.of_nat j <? 256)%Z with true by (symmetry; apply Z.ltb_lt; lia).
    rewrite idx_refs_nat.
    destruct (nth_error_lt_some (xch n) j ltac:(lia)) as [x Ex]. unfold gref in *. rewrite Ex.
    rewrite (skipn_cons_nth _ _ _ Ex). cbn [firstn].
    replace (Z.of_nat j + 1)%Z with (Z.of_nat (S j)) by lia.
    destruct x as [c|]; cbn [ref_pointer ref_is_nil somes].
    + rewrite IH by lia. cbn [map]. rewrite <- app_assoc. reflexivity.
    + rewrite IH by lia. reflexivity.
Qed.
End Up256.

(* ================= 4. all ================= *)
Definition idref (v : gref) : gref := v.
Lemma map_idref : forall l, map idref l = l.
Proof. induction l as [|x l IH]; cbn [map]; [reflexivity|rewrite IH; reflexivity]. Qed.

Lemma all_down4 : forall k n q, (k <= length (xch n))%nat ->
  g_all_loop2 k n q (Z.of_nat k - 1) = LDone (q ++ rev (map idref (firstn k (xch n))), (-1)%Z).
Proof. apply down_arr. intros [|fuel] n q i; reflexivity. Qed.
Lemma all_down16 : forall k n q, (k <= length (xch n))%nat ->
  g_all_loop3 k n q (Z.of_nat k - 1) = LDone (q ++ rev (map idref (firstn k (xch n))), (-1)%Z).
Proof. apply down_arr. intros [|fuel] n q i; reflexivity. Qed.
Lemma all_down48 : forall k n q, (k <= length (xbytes n))%nat -> cells48_ok n 0 k ->
  g_all_loop4 k n q (Z.of_nat k - 1) = LDone (q ++ rev (map idref (map Some (kids48 (xch n) (firstn k (xbytes n))))), (-1)%Z).
Proof. apply down_48. intros [|fuel] n q i; reflexivity. Qed.
Lemma all_down256 : forall k n q, (k <= length (xch n))%nat ->
  g_all_loop5 k n q (Z.of_nat k - 1) = LDone (q ++ rev (map idref (map Some (somes (firstn k (xch n))))), (-1)%Z).
Proof. apply down_256. intros [|fuel] n q i; reflexivity. Qed.

(* one iteration of a main loop at an inner node, children pushed last to first: the four cases of switch n.tag *)
Ltac fwd_inner Hx d4 d16 d48 d256 :=
  match goal with |- context [XInner ?n] =>
    let h := fresh "h" in let keys := fresh "keys" in let ch := fresh "ch" in let idx := fresh "idx" in
    destruct n as [h keys ch|h keys ch|h idx ch|h ch];
    cbn [ref_tag gkind_eqb ref_pointer cast_node4 cast_node16 cast_node48 cast_node256 xh]; cbv zeta;
    [ let Hc := fresh "Hc" in let Hm := fresh "Hm" in
      destruct (xwf4_inv _ _ _ Hx) as (Hc & _ & Hm & _);
      replace (Z.of_N (xlen h) - 1)%Z with (Z.of_nat (N.to_nat (xlen h)) - 1)%Z by lia;
      replace (Z.to_nat (Z.of_nat (N.to_nat (xlen h)) - 1 - 0 + 1)) with (N.to_nat (xlen h)) by lia;
      rewrite d4 by (cbn [xch]; lia); cbn [xch]; rewrite (xkids4 _ _ _ Hx)
    | let Hc := fresh "Hc" in let Hm := fresh "Hm" in
      destruct (xwf16_inv _ _ _ Hx) as (_ & Hc & _ & Hm & _);
      replace (Z.of_N (xlen h) - 1)%Z with (Z.of_nat (N.to_nat (xlen h)) - 1)%Z by lia;
      replace (Z.to_nat (Z.of_nat (N.to_nat (xlen h)) - 1 - 0 + 1)) with (N.to_nat (xlen h)) by lia;
      rewrite d16 by (cbn [xch]; lia); cbn [xch]; rewrite (xkids16 _ _ _ Hx)
    | let Hli := fresh "Hli" in
      destruct (xwf48_inv _ _ _ Hx) as (Hli & _ & _);
      change (Z.to_nat (255 - 0 + 1)) with 256%nat; change 255%Z with (Z.of_nat 256 - 1)%Z;
      rewrite d48 by (cbn [xbytes]; first [lia | (intros t Ht; apply (xwf48_cell _ _ _ Hx); lia)]);
      cbn [xbytes xch]; rewrite firstn_all2 by lia; rewrite <- xkids48 with (h := h)
    | let Hlc := fresh "Hlc" in
      pose proof (xwf256_inv _ _ Hx) as Hlc;
      change (Z.to_nat (255 - 0 + 1)) with 256%nat; change 255%Z with (Z.of_nat 256 - 1)%Z;
      rewrite d256 by (cbn [xch]; lia);
      cbn [xch]; rewrite firstn_all2 by lia; rewrite <- xkids256 with (h := h) ]
  end.

Lemma all_inner : forall fuel ans n q i acc, xwf n ->
  g_all_loop1 (S fuel) ans (q ++ [Some (XInner n)]) i acc = g_all_loop1 fuel ans (q ++ rev (map Some (xkids n))) i acc.
Proof.
  intros fuel ans n q i acc Hx. cbn [g_all_loop1]. rewrite len_nonzero, idx_refs_last, slice_to_last.
  fwd_inner Hx all_down4 all_down16 all_down48 all_down256; rewrite map_idref; reflexivity.
Qed.

Lemma stack_push : forall d cs xs, with_depth d (map tabs (cs ++ xs)) = with_depth d (map tabs cs) ++ with_depth d (map tabs xs).
Proof. intros. unfold with_depth. rewrite !map_app. reflexivity. Qed.
Lemma q_push_fwd : forall cs xs, map Some (rev xs) ++ rev (map Some cs) = map (@Some xtree) (rev (cs ++ xs)).
Proof. intros. rewrite rev_app_distr, map_app, <- map_rev. reflexivity. Qed.
Lemma q_pop : forall (x : xtree) xs, map Some (rev (x :: xs)) = map Some (rev xs) ++ [Some x].
Proof. intros. cbn [rev]. rewrite map_app. reflexivity. Qed.

(* all(): for every budget and every stack of well-formed raw trees the main loop is the model's walk *)
Theorem gen_all_loop_eq : forall fuel xs ans i acc, Forall xtwf xs ->
  ires_abs (g_all_loop1 fuel ans (map Some (rev xs)) i acc) =
  Some (walk (fun _ => Deliver) expand_fwd fuel (with_depth 0 (map tabs xs)) ans i (map tabs acc)).
Proof.
  induction fuel as [|fuel IH]; intros xs ans i acc HF; [reflexivity|].
  destruct xs as [|x xs]; [reflexivity|].
  apply Forall_cons_iff in HF. destruct HF as [Hx HF]. rewrite q_pop.
  destruct x as [gk tk v|n].
  - cbn [g_all_loop1]. rewrite len_nonzero, idx_refs_last, slice_to_last.
    cbn [ref_tag gkind_eqb ref_pointer cast_leaf]. cbv zeta. cbn [with_depth map tabs walk].
    destruct (ans i); cbn [negb]; [|reflexivity].
    exact (IH xs ans (S i) (XLeaf gk tk v :: acc) HF).
  - destruct (xtwf_inv _ Hx) as [Hxw _]. rewrite (all_inner fuel ans n _ i acc Hxw), q_push_fwd.
    rewrite IH by (apply Forall_app; split; [apply xkids_xtwf; exact Hx|exact HF]).
    cbn [with_depth map tabs walk]. fold (nabs n). unfold expand_fwd. rewrite nchildren_nabs, stack_push. reflexivity.
Qed.

Theorem gen_all_eq : forall fuel t ans, xtwf t ->
  ires_abs (g_all fuel (Some t) ans) = Some (walk (fun _ => Deliver) expand_fwd fuel [(tabs t, 0%nat)] ans 0 []).
Proof.
  intros fuel t ans Hx. unfold g_all. cbv zeta. cbn [ref_pointer ref_is_nil app].
  exact (gen_all_loop_eq fuel [t] ans 0%nat [] (Forall_cons _ Hx (Forall_nil _))).
Qed.
(* a nil root: the closure returns at once, yield is not called *)
Theorem gen_all_nil : forall fuel ans, g_all fuel None ans = IDone ByReturn 0 [].
Proof. reflexivity. Qed.

(* ================= 5. filter ================= *)
Lemma filter_down4 : forall k n q, (k <= length (xch n))%nat ->
  g_filter_loop2 k n q (Z.of_nat k - 1) = LDone (q ++ rev (map idref (firstn k (xch n))), (-1)%Z).
Proof. apply down_arr. intros [|fuel] n q i; reflexivity. Qed.
Lemma filter_down16 : forall k n q, (k <= length (xch n))%nat ->
  g_filter_loop3 k n q (Z.of_nat k - 1) = LDone (q ++ rev (map idref (firstn k (xch n))), (-1)%Z).
Proof. apply down_arr. intros [|fuel] n q i; reflexivity. Qed.
Lemma filter_down48 : forall k n q, (k <= length (xbytes n))%nat -> cells48_ok n 0 k ->
  g_filter_loop4 k n q (Z.of_nat k - 1) = LDone (q ++ rev (map idref (map Some (kids48 (xch n) (firstn k (xbytes n))))), (-1)%Z).
Proof. apply down_48. intros [|fuel] n q i; reflexivity. Qed.
Lemma filter_down256 : forall k n q, (k <= length (xch n))%nat ->
  g_filter_loop5 k n q (Z.of_nat k - 1) = LDone (q ++ rev (map idref (map Some (somes (firstn k (xch n))))), (-1)%Z).
Proof. apply down_256. intros [|fuel] n q i; reflexivity. Qed.

Lemma filter_inner : forall fuel pr ans n q i acc, xwf n ->
  g_filter_loop1 (S fuel) pr ans (q ++ [Some (XInner n)]) i acc = g_filter_loop1 fuel pr ans (q ++ rev (map Some (xkids n))) i acc.
Proof.
  intros fuel pr ans n q i acc Hx. cbn [g_filter_loop1]. rewrite len_nonzero, idx_refs_last, slice_to_last.
  fwd_inner Hx filter_down4 filter_down16 filter_down48 filter_down256; rewrite map_idref; reflexivity.
Qed.

(* filter(): predicate is an arbitrary function of the leaf; pr is its reading on raw leaves *)
Theorem gen_filter_loop_eq : forall fuel pr pred xs ans i acc, (forall l, pr l = pred (tabs l)) -> Forall xtwf xs ->
  ires_abs (g_filter_loop1 fuel pr ans (map Some (rev xs)) i acc) =
  Some (walk (fun l => if pred l then Deliver else Skip) expand_fwd fuel (with_depth 0 (map tabs xs)) ans i (map tabs acc)).
Proof.
  induction fuel as [|fuel IH]; intros pr pred xs ans i acc Hpr HF; [reflexivity|].
  destruct xs as [|x xs]; [reflexivity|].
  apply Forall_cons_iff in HF. destruct HF as [Hx HF]. rewrite q_pop.
  destruct x as [gk tk v|n].
  - cbn [g_filter_loop1]. rewrite len_nonzero, idx_refs_last, slice_to_last.
    cbn [ref_tag gkind_eqb ref_pointer cast_leaf]. cbv zeta. cbn [with_depth map tabs walk].
    rewrite (Hpr (XLeaf gk tk v)). cbn [tabs]. destruct (pred (Leaf gk tk v)).
    + destruct (ans i); cbn [negb]; [|reflexivity].
      exact (IH pr pred xs ans (S i) (XLeaf gk tk v :: acc) Hpr HF).
    + exact (IH pr pred xs ans i acc Hpr HF).
  - destruct (xtwf_inv _ Hx) as [Hxw _]. rewrite (filter_inner fuel pr ans n _ i acc Hxw), q_push_fwd.
    rewrite (IH pr pred) by (first [exact Hpr | apply Forall_app; split; [apply xkids_xtwf; exact Hx|exact HF]]).
    cbn [with_depth map tabs walk]. fold (nabs n). unfold expand_fwd. rewrite nchildren_nabs, stack_push. reflexivity.
Qed.
Theorem gen_filter_eq : forall fuel t pr pred ans, (forall l, pr l = pred (tabs l)) -> xtwf t ->
  ires_abs (g_filter fuel (Some t) pr ans) =
  Some (walk (fun l => if pred l then Deliver else Skip) expand_fwd fuel [(tabs t, 0%nat)] ans 0 []).
Proof.
  intros fuel t pr pred ans Hpr Hx. unfold g_filter. cbv zeta. cbn [ref_pointer ref_is_nil app].
  exact (gen_filter_loop_eq fuel pr pred [t] ans 0%nat [] Hpr (Forall_cons _ Hx (Forall_nil _))).
Qed.
Theorem gen_filter_nil : forall fuel pr ans, g_filter fuel None pr ans = IDone ByReturn 0 [].
Proof. reflexivity. Qed.

(* ================= 6. backward ================= *)
Lemma backward_up4 : forall m j n q, (j + m = N.to_nat (xlen (xh n)))%nat -> xlen (xh n) < 256 ->
  (N.to_nat (xlen (xh n)) <= length (xch n))%nat ->
  g_backward_loop2 m n q (N.of_nat j) = LDone (q ++ map idref (firstn m (skipn j (xch n))), xlen (xh n)).
Proof. apply up_arr. intros [|fuel] n q i; reflexivity. Qed.
Lemma backward_up16 : forall m j n q, (j + m = N.to_nat (xlen (xh n)))%nat -> xlen (xh n) < 256 ->
  (N.to_nat (xlen (xh n)) <= length (xch n))%nat ->
  g_backward_loop3 m n q (N.of_nat j) = LDone (q ++ map idref (firstn m (skipn j (xch n))), xlen (xh n)).
Proof. apply up_arr. intros [|fuel] n q i; reflexivity. Qed.
Lemma backward_up48 : forall m j n q, (j + m = 256)%nat -> length (xbytes n) = 256%nat -> cells48_ok n j 256 ->
  g_backward_loop4 m n q (Z.of_nat j) = LDone (q ++ map idref (map Some (kids48 (xch n) (firstn m (skipn j (xbytes n))))), 256%Z).
Proof. apply up_48. intros [|fuel] n q i; reflexivity. Qed.
Lemma backward_up256 : forall m j n q, (j + m = 256)%nat -> length (xch n) = 256%nat ->
  g_backward_loop5 m n q (Z.of_nat j) = LDone (q ++ map idref (map Some (somes (firstn m (skipn j (xch n))))), 256%Z).
Proof. apply up_256. intros [|fuel] n q i; reflexivity. Qed.

Lemma backward_inner : forall fuel ans n q i acc, xwf n ->
  g_backward_loop1 (S fuel) ans (q ++ [Some (XInner n)]) i acc = g_backward_loop1 fuel ans (q ++ map Some (xkids n)) i acc.
Proof.
  intros fuel ans n q i acc Hx. cbn [g_backward_loop1]. rewrite len_nonzero, idx_refs_last, slice_to_last.
  destruct n as [h keys ch|h keys ch|h idx ch|h ch];
    cbn [ref_tag gkind_eqb ref_pointer cast_node4 cast_node16 cast_node48 cast_node256 xh]; cbv zeta.
  - destruct (xwf4_inv _ _ _ Hx) as (Hc & _ & Hm & _).
    replace (N.to_nat (xlen h - 0)) with (N.to_nat (xlen h)) by lia.
    pose proof (backward_up4 (N.to_nat (xlen h)) 0 (X4 h keys ch) q) as E. cbn [N.of_nat xh xch skipn] in E.
    rewrite E by lia. rewrite map_idref, (xkids4 _ _ _ Hx). reflexivity.
  - destruct (xwf16_inv _ _ _ Hx) as (_ & Hc & _ & Hm & _).
    replace (N.to_nat (xlen h - 0)) with (N.to_nat (xlen h)) by lia.
    pose proof (backward_up16 (N.to_nat (xlen h)) 0 (X16 h keys ch) q) as E. cbn [N.of_nat xh xch skipn] in E.
    rewrite E by lia. rewrite map_idref, (xkids16 _ _ _ Hx). reflexivity.
  - destruct (xwf48_inv _ _ _ Hx) as (Hli & _ & _). change (Z.to_nat (256 - 0)) with 256%nat.
    pose proof (backward_up48 256 0 (X48 h idx ch) q) as E. cbn [Z.of_nat xbytes xch skipn] in E.
    rewrite E by (first [lia | (intros t Ht; apply (xwf48_cell _ _ _ Hx); lia)]).
    rewrite map_idref, firstn_all2 by lia. rewrite <- xkids48 with (h := h). reflexivity.
  - pose proof (xwf256_inv _ _ Hx) as Hlc. change (Z.to_nat (256 - 0)) with 256%nat.
    pose proof (backward_up256 256 0 (X256 h ch) q) as E. cbn [Z.of_nat xch skipn] in E.
    rewrite E by lia. rewrite map_idref, firstn_all2 by lia. rewrite <- xkids256 with (h := h). reflexivity.
Qed.

Lemma q_push_bwd : forall cs xs, map Some (rev xs) ++ map Some cs = map (@Some xtree) (rev (rev cs ++ xs)).
Proof. intros. rewrite rev_app_distr, rev_involutive, map_app. reflexivity. Qed.

Theorem gen_backward_loop_eq : forall fuel xs ans i acc, Forall xtwf xs ->
  ires_abs (g_backward_loop1 fuel ans (map Some (rev xs)) i acc) =
  Some (walk (fun _ => Deliver) expand_bwd fuel (with_depth 0 (map tabs xs)) ans i (map tabs acc)).
Proof.
  induction fuel as [|fuel IH]; intros xs ans i acc HF; [reflexivity|].
  destruct xs as [|x xs]; [reflexivity|].
  apply Forall_cons_iff in HF. destruct HF as [Hx HF]. rewrite q_pop.
  destruct x as [gk tk v|n].
  - cbn [g_backward_loop1]. rewrite len_nonzero, idx_refs_last, slice_to_last.
    cbn [ref_tag gkind_eqb ref_pointer cast_leaf]. cbv zeta. cbn [with_depth map tabs walk].
    destruct (ans i); cbn [negb]; [|reflexivity].
    exact (IH xs ans (S i) (XLeaf gk tk v :: acc) HF).
  - destruct (xtwf_inv _ Hx) as [Hxw _]. rewrite (backward_inner fuel ans n _ i acc Hxw), q_push_bwd.
    rewrite IH by (apply Forall_app; split; [apply Forall_rev, xkids_xtwf; exact Hx|exact HF]).
    cbn [with_depth map tabs walk]. fold (nabs n). unfold expand_bwd. rewrite nchildren_nabs, stack_push, map_rev. reflexivity.
Qed.
Theorem gen_backward_eq : forall fuel t ans, xtwf t ->
  ires_abs (g_backward fuel (Some t) ans) = Some (walk (fun _ => Deliver) expand_bwd fuel [(tabs t, 0%nat)] ans 0 []).
Proof.
  intros fuel t ans Hx. unfold g_backward. cbv zeta. cbn [ref_pointer ref_is_nil app].
  exact (gen_backward_loop_eq fuel [t] ans 0%nat [] (Forall_cons _ Hx (Forall_nil _))).
Qed.
Theorem gen_backward_nil : forall fuel ans, g_backward fuel None ans = IDone ByReturn 0 [].
Proof. reflexivity. Qed.

(* ================= 7. rangeScan ================= *)
Definition mkent (cd : Z) (v : gref) : gref * Z := (v, cd).
Lemma range_down4 : forall cd k n q, (k <= length (xch n))%nat ->
  g_rangeScan_loop2 k cd n q (Z.of_nat k - 1) = LDone (q ++ rev (map (mkent cd) (firstn k (xch n))), (-1)%Z).
Proof. intros cd. apply (down_arr (mkent cd) (fun fuel => g_rangeScan_loop2 fuel cd)). intros [|fuel] n q i; reflexivity. Qed.
Lemma range_down16 : forall cd k n q, (k <= length (xch n))%nat ->
  g_rangeScan_loop3 k cd n q (Z.of_nat k - 1) = LDone (q ++ rev (map (mkent cd) (firstn k (xch n))), (-1)%Z).
Proof. intros cd. apply (down_arr (mkent cd) (fun fuel => g_rangeScan_loop3 fuel cd)). intros [|fuel] n q i; reflexivity. Qed.
Lemma range_down48 : forall cd k n q, (k <= length (xbytes n))%nat -> cells48_ok n 0 k ->
  g_rangeScan_loop4 k cd n q (Z.of_nat k - 1) = LDone (q ++ rev (map (mkent cd) (map Some (kids48 (xch n) (firstn k (xbytes n))))), (-1)%Z).
Proof. intros cd. apply (down_48 (mkent cd) (fun fuel => g_rangeScan_loop4 fuel cd)). intros [|fuel] n q i; reflexivity. Qed.
Lemma range_down256 : forall cd k n q, (k <= length (xch n))%nat ->
  g_rangeScan_loop5 k cd n q (Z.of_nat k - 1) = LDone (q ++ rev (map (mkent cd) (map Some (somes (firstn k (xch n))))), (-1)%Z).
Proof. intros cd. apply (down_256 (mkent cd) (fun fuel => g_rangeScan_loop5 fuel cd)). intros [|fuel] n q i; reflexivity. Qed.

(* the pruning test of one iteration, as the model states it *)
Definition pruned (search : list N) (h : xhdr) (d : nat) : bool :=
  if (0 <? xplen h)%nat && (d <? length search)%nat then
    (lcpn (Nat.min (pl_cap (xabs_hdr h)) (Nat.min (length search - d) maxPrefixLen)) (xprefix h) (skipn d search) =? 0)%nat
  else false.
Lemma expand_range_nabs : forall search n d,
  expand_range search (nabs n) d =
  if pruned search (xh n) d then None else Some (with_depth (d + xplen (xh n) + 1) (map tabs (xkids n))).
Proof.
  intros search n d. unfold expand_range, pruned. rewrite nhdr_nabs, nchildren_nabs. cbn [xabs_hdr prefixLen prefix]. reflexivity.
Qed.
Lemma lcpn_firstn : forall m a c p s, (m <= a)%nat -> (m <= c)%nat -> lcpn m (firstn a p) (firstn c s) = lcpn m p s.
Proof.
  induction m as [|m IH]; intros a c p s Ha Hc; [destruct p, s, a, c; reflexivity|].
  destruct a as [|a]; [lia|]. destruct c as [|c]; [lia|].
  destruct p as [|x p]; destruct s as [|y s]; cbn [firstn lcpn]; try reflexivity.
  destruct (x =? y); [|reflexivity]. rewrite IH by lia. reflexivity.
Qed.

(* the compressed-path test as the Go code computes it: both slices in range, longestCommonPrefix on them *)
Lemma prune_test : forall search h d, length (xprefix h) = maxPrefixLen ->
  (0 <? xplen h)%nat && (d <? length search)%nat = true ->
  exists nodeKey sl,
    slice_to (xprefix h) (Z.of_N (N.min g_maxPrefixLen (hdr_prefixLen h))) = Some nodeKey /\
    slice_from_to search (Z.of_nat d) (Z.of_nat d + Z.min (Z.of_nat (length search) - Z.of_nat d) (Z.of_N g_maxPrefixLen)) = Some sl /\
    exists r, g_longestCommonPrefix nodeKey sl 0 = GRet r /\ (r =? 0)%Z = pruned search h d.
Proof.
  intros search h d Hpl Hc. unfold pruned. rewrite Hc. apply andb_prop in Hc. destruct Hc as [H1 H2].
  apply Nat.ltb_lt in H1. apply Nat.ltb_lt in H2.
  set (a := Nat.min maxPrefixLen (xplen h)). set (c := Nat.min (length search - d) maxPrefixLen).
  exists (firstn a (xprefix h)), (firstn c (skipn d search)).
  split. { replace (Z.of_N (N.min g_maxPrefixLen (hdr_prefixLen h))) with (Z.of_nat a) by (unfold hdr_prefixLen; rewrite g_maxPrefixLen_val; lia).
           apply slice_to_nat. lia. }
  split. { replace (Z.min (Z.of_nat (length search) - Z.of_nat d) (Z.of_N g_maxPrefixLen)) with (Z.of_nat c) by (rewrite g_maxPrefixLen_val; lia).
           apply slice_from_to_nat. lia. }
  exists (Z.of_nat (longestCommonPrefix (firstn a (xprefix h)) (firstn c (skipn d search)) 0)).
  split; [exact (gen_longestCommonPrefix_eq _ _ 0%nat)|].
  unfold longestCommonPrefix. cbn [skipn]. rewrite Nat.sub_0_r, !firstn_length, skipn_length.
  replace (Nat.min (Nat.min a (length (xprefix h))) (Nat.min c (length search - d))) with (Nat.min a c) by lia.
  rewrite lcpn_firstn by lia. unfold pl_cap. cbn [xabs_hdr prefixLen]. fold a.
  match goal with |- (Z.of_nat ?x =? 0)%Z = (?y =? 0)%nat => change y with x; destruct (Nat.eqb_spec x 0); destruct (Z.eqb_spec (Z.of_nat x) 0); try reflexivity; lia end.
Qed.

Ltac range_finish Hpl :=
  rewrite map_map; unfold mkent;
  match goal with |- context [hdr_prefixLen ?h] =>
    match goal with |- context [(Z.of_nat ?d + Z.of_N (hdr_prefixLen h) + 1)%Z] =>
      match goal with |- context [Z.of_nat (length ?search)] =>
        replace (Z.of_nat d + Z.of_N (hdr_prefixLen h) + 1)%Z with (Z.of_nat (d + xplen h + 1)) by (unfold hdr_prefixLen; lia);
        replace ((0 <? hdr_prefixLen h) && (Z.of_nat d <? Z.of_nat (length search))%Z)
          with ((0 <? xplen h)%nat && (d <? length search)%nat)
          by (unfold hdr_prefixLen; destruct (Nat.ltb_spec 0 (xplen h)); destruct (N.ltb_spec 0 (N.of_nat (xplen h)));
              destruct (Nat.ltb_spec d (length search)); destruct (Z.ltb_spec (Z.of_nat d) (Z.of_nat (length search)));
              try reflexivity; lia);
        let Ec := fresh "Ec" in
        destruct ((0 <? xplen h)%nat && (d <? length search)%nat) eqn:Ec;
        [ let nk := fresh "nk" in let sl := fresh "sl" in let r := fresh "r" in
          let E1 := fresh "E1" in let E2 := fresh "E2" in let E3 := fresh "E3" in let E4 := fresh "E4" in
          destruct (prune_test search h d Hpl Ec) as (nk & sl & E1 & E2 & r & E3 & E4);
          rewrite E1, E2, E3, E4; destruct (pruned search h d); reflexivity
        | unfold pruned; rewrite Ec; reflexivity ]
      end end end.

Lemma range_inner : forall fuel gs ge search ans n d q i acc, xwf n ->
  g_rangeScan_loop1 (S fuel) gs ge search ans (q ++ [(Some (XInner n), Z.of_nat d)]) i acc =
  g_rangeScan_loop1 fuel gs ge search ans
    (if pruned search (xh n) d then q
     else q ++ rev (map (fun c => (Some c, Z.of_nat (d + xplen (xh n) + 1))) (xkids n))) i acc.
Proof.
  intros fuel gs ge search ans n d q i acc Hx. pose proof (xwf_prefix_len n Hx) as Hpl.
  cbn [g_rangeScan_loop1]. rewrite len_nonzero, !idx_entries_last, slice_to_last. cbn [fst snd ref_node].
  fwd_inner Hx range_down4 range_down16 range_down48 range_down256; cbn [xh] in Hpl; range_finish Hpl.
Qed.

Definition ent (e : xtree * nat) : option xtree * Z := (Some (fst e), Z.of_nat (snd e)).
Definition ment (e : xtree * nat) : tree * nat := (tabs (fst e), snd e).

Lemma cmp_lt : forall a b, (bytes_compare a b <? 0)%Z = match lex_cmp a b with Lt => true | _ => false end.
Proof. intros a b. unfold bytes_compare. destruct (lex_cmp a b); reflexivity. Qed.
Lemma cmp_gt : forall a b, (0 <? bytes_compare a b)%Z = match lex_cmp a b with Gt => true | _ => false end.
Proof. intros a b. unfold bytes_compare. destruct (lex_cmp a b); reflexivity. Qed.

(* rangeScan(): stack entries carry their depth; gs ge = start end (compared with getKey()), search = the common
   prefix of the two transformed bounds *)
Theorem gen_rangeScan_loop_eq : forall fuel gs ge search xs ans i acc, Forall (fun e => xtwf (fst e)) xs ->
  ires_abs (g_rangeScan_loop1 fuel gs ge search ans (map ent (rev xs)) i acc) =
  Some (walk (range_leaf_act gs ge) (expand_range search) fuel (map ment xs) ans i (map tabs acc)).
Proof.
  induction fuel as [|fuel IH]; intros gs ge search xs ans i acc HF; [reflexivity|].
  destruct xs as [|[x d] xs]; [reflexivity|].
  apply Forall_cons_iff in HF. destruct HF as [Hx HF]. cbn [fst] in Hx.
  cbn [rev]. rewrite map_app. cbn [map]. unfold ent at 2. cbn [fst snd].
  destruct x as [gk tk v|n].
  - cbn [g_rangeScan_loop1]. rewrite len_nonzero, !idx_entries_last, slice_to_last. cbn [fst snd].
    cbn [ref_tag gkind_eqb ref_pointer cast_leaf xleaf_gk]. cbv zeta. rewrite cmp_lt, cmp_gt.
    cbn [map ment fst snd tabs walk]. unfold range_leaf_act. cbn [leaf_gk].
    destruct (lex_cmp gk gs); [| exact (IH gs ge search xs ans i acc HF) |];
      (destruct (lex_cmp gk ge); [| |reflexivity]);
      (destruct (ans i); cbn [negb]; [exact (IH gs ge search xs ans (S i) (XLeaf gk tk v :: acc) HF)|reflexivity]).
  - destruct (xtwf_inv _ Hx) as [Hxw _]. rewrite (range_inner fuel gs ge search ans n d _ i acc Hxw).
    cbn [map ment fst snd tabs walk]. fold (nabs n). rewrite expand_range_nabs.
    destruct (pruned search (xh n) d).
    + exact (IH gs ge search xs ans i acc HF).
    + set (cd := (d + xplen (xh n) + 1)%nat).
      assert (Eq : map ent (rev xs) ++ rev (map (fun c => (Some c, Z.of_nat cd)) (xkids n)) =
                   map ent (rev (map (fun c => (c, cd)) (xkids n) ++ xs)))
        by (rewrite rev_app_distr, map_app, <- !map_rev, !map_map; reflexivity).
      rewrite Eq, IH.
      * rewrite map_app. unfold with_depth. rewrite !map_map. reflexivity.
      * apply Forall_app. split; [|exact HF]. apply Forall_map. cbn [fst]. apply xkids_xtwf. exact Hx.
Qed.

Theorem gen_rangeScan_eq : forall fuel t gs ge ts te ans, xtwf t ->
  ires_abs (g_rangeScan fuel (Some t) gs ge ts te ans) =
  Some (walk (range_leaf_act gs ge) (expand_range (range_search ts te)) fuel [(tabs t, 0%nat)] ans 0 []).
Proof.
  intros fuel t gs ge ts te ans Hx. unfold g_rangeScan. change 0%Z with (Z.of_nat 0).
  rewrite gen_longestCommonPrefix_eq. cbv zeta. cbn [ref_pointer ref_is_nil app].
  assert (Hle : (longestCommonPrefix ts te 0 <= length ts)%nat).
  { unfold longestCommonPrefix. pose proof (lcpn_le (Nat.min (length ts) (length te) - 0) (skipn 0 ts) (skipn 0 te)). lia. }
  pose proof (gen_rangeScan_loop_eq fuel gs ge (range_search ts te) [(t, 0%nat)] ans 0%nat [] (Forall_cons (t, 0%nat) (Hx : xtwf (fst (t, 0%nat))) (Forall_nil _))) as E.
  cbn [rev map app] in E. unfold ent, ment in E. cbn [fst snd Z.of_nat] in *. unfold range_search in *.
  destruct (Z.eqb_spec (Z.of_nat (longestCommonPrefix ts te 0)) 0) as [E0|E0]; cbn [negb].
  - replace (longestCommonPrefix ts te 0) with 0%nat in * by lia. exact E.
  - rewrite slice_to_nat by exact Hle. exact E.
Qed.
Theorem gen_rangeScan_nil : forall fuel gs ge ts te ans, g_rangeScan fuel None gs ge ts te ans = IDone ByReturn 0 [].
Proof.
  intros fuel gs ge ts te ans. unfold g_rangeScan. change 0%Z with (Z.of_nat 0). rewrite gen_longestCommonPrefix_eq. cbv zeta.
  cbn [ref_pointer ref_is_nil].
  assert (Hle : (longestCommonPrefix ts te 0 <= length ts)%nat).
  { unfold longestCommonPrefix. pose proof (lcpn_le (Nat.min (length ts) (length te) - 0) (skipn 0 ts) (skipn 0 te)). lia. }
  destruct (negb (Z.of_nat (longestCommonPrefix ts te 0) =? Z.of_nat 0)%Z); [rewrite slice_to_nat by exact Hle|]; reflexivity.
Qed.

(* ================= 8. topK / bottomK ================= *)
(* the loop body as Model/Iter.v describes it:  if remaining == 0 {return}; if !yield(key, val) {break}; remaining-- *)
Definition bounded_step (ans : nat -> bool) (remaining : N) (y : nat) : bstep N :=
  if remaining =? 0 then BReturn remaining y
  else if ans y then BNext (remaining - 1) (S y) else BBreak remaining (S y).

Lemma subw64_pred : forall r, r <> 0 -> r < 2 ^ 64 -> subw 64 r 1 = r - 1.
Proof.
  intros r H0 H. unfold subw. replace (r + 2 ^ 64 - 1) with (r - 1 + 1 * 2 ^ 64) by lia.
  rewrite N.mod_add by lia. apply N.mod_small. lia.
Qed.
Theorem gen_topK_body_eq : forall ans r y, r < 2 ^ 64 -> g_topK_body ans r y = bounded_step ans r y.
Proof.
  intros ans r y Hr. unfold g_topK_body, bounded_step. cbv zeta.
  destruct (N.eqb_spec r 0) as [E|E]; [reflexivity|]. destruct (ans y); cbn [negb]; [|reflexivity].
  rewrite subw64_pred by assumption. reflexivity.
Qed.
Theorem gen_bottomK_body_eq : forall ans r y, r < 2 ^ 64 -> g_bottomK_body ans r y = bounded_step ans r y.
Proof.
  intros ans r y Hr. unfold g_bottomK_body, bounded_step. cbv zeta.
  destruct (N.eqb_spec r 0) as [E|E]; [reflexivity|]. destruct (ans y); cbn [negb]; [|reflexivity].
  rewrite subw64_pred by assumption. reflexivity.
Qed.

(* what run_bounded assumes of the iterator it wraps (Model/Iter.v states it for the scans of this file, which
   have these properties: walk_seq_ok below) *)
Record seq_ok (f : (nat -> bool) -> wres) : Prop := mkSeqOk {
  (* only the answers up to the first false matter *)
  so_ext : forall a b, (forall i, (forall j, (j < i)%nat -> a j = true) -> a i = b i) -> f a = f b;
  (* every call delivers one element *)
  so_len : forall a, length (delivered (f a)) = calls (f a);
  (* no call after an answer false *)
  so_true : forall a j, (S j < calls (f a))%nat -> a j = true;
  (* stopped = the last answer was false *)
  so_stop : forall a, status (f a) = WStopped <-> exists j, calls (f a) = S j /\ a j = false }.

Section WalkSeq.
Variable leaf_act : tree -> lact.
Variable expand : rnode tree -> nat -> option (list (tree * nat)).
Let W := walk leaf_act expand.

Lemma walk_ext : forall fuel stk a b i acc,
  (forall i', (i <= i')%nat -> (forall j, (i <= j < i')%nat -> a j = true) -> a i' = b i') ->
  W fuel stk a i acc = W fuel stk b i acc.
Proof.
  unfold W. induction fuel as [|fuel IH]; intros stk a b i acc H; [reflexivity|].
  destruct stk as [|[t d] st]; [reflexivity|]. cbn [walk].
  destruct t as [gk tk v|n].
  - destruct (leaf_act (Leaf gk tk v)); [|apply IH; exact H|reflexivity].
    rewrite <- (H i (Nat.le_refl i)) by (intros j Hj; lia).
    destruct (a i) eqn:Ea; [|reflexivity]. apply IH. intros i' Hi' Hj. apply H; [lia|].
    intros j Hjj. destruct (Nat.eq_dec j i) as [->|Hne]; [exact Ea|apply Hj; lia].
  - destruct (expand n d); apply IH; exact H.
Qed.
Lemma walk_len : forall fuel stk a i acc,
  (length (delivered (W fuel stk a i acc)) + i = calls (W fuel stk a i acc) + length acc)%nat /\
  (i <= calls (W fuel stk a i acc))%nat.
Proof.
  unfold W. induction fuel as [|fuel IH]; intros stk a i acc; [cbn [walk delivered calls]; rewrite rev_length; lia|].
  destruct stk as [|[t d] st]; [cbn [walk delivered calls]; rewrite rev_length; lia|]. cbn [walk].
  destruct t as [gk tk v|n].
  - destruct (leaf_act (Leaf gk tk v)); [|apply IH|cbn [delivered calls]; rewrite rev_length; lia].
    destruct (a i).
    + specialize (IH st a (S i) (Leaf gk tk v :: acc)). cbn [length] in IH. lia.
    + cbn [delivered calls]. rewrite rev_length. cbn [length]. lia.
  - destruct (expand n d); apply IH.
Qed.
Lemma walk_true : forall fuel stk a i acc j, (i <= j)%nat -> (S j < calls (W fuel stk a i acc))%nat -> a j = true.
Proof.
  unfold W. induction fuel as [|fuel IH]; intros stk a i acc j Hij Hc; [cbn [walk calls] in Hc; lia|].
  destruct stk as [|[t d] st]; [cbn [walk calls] in Hc; lia|]. cbn [walk] in Hc.
  destruct t as [gk tk v|n].
  - destruct (leaf_act (Leaf gk tk v)); [|exact (IH _ _ _ _ _ Hij Hc)|cbn [calls] in Hc; lia].
    destruct (a i) eqn:Ea; [|cbn [calls] in Hc; lia].
    destruct (Nat.eq_dec j i) as [->|Hne]; [exact Ea|]. apply (IH st a (S i) (Leaf gk tk v :: acc) j); [lia|exact Hc].
  - destruct (expand n d); exact (IH _ _ _ _ _ Hij Hc).
Qed.
Lemma walk_stop : forall fuel stk a i acc,
  status (W fuel stk a i acc) = WStopped <-> exists j, (i <= j)%nat /\ calls (W fuel stk a i acc) = S j /\ a j = false.
Proof.
  unfold W. induction fuel as [|fuel IH]; intros stk a i acc.
  { cbn [walk status calls]. split; [discriminate|]. intros (j & H1 & H2 & _). lia. }
  destruct stk as [|[t d] st].
  { cbn [walk status calls]. split; [discriminate|]. intros (j & H1 & H2 & _). lia. }
  cbn [walk]. destruct t as [gk tk v|n].
  - destruct (leaf_act (Leaf gk tk v)); [|apply IH|].
    + destruct (a i) eqn:Ea.
      * rewrite IH. split; intros (j & H1 & H2 & H3); exists j; (split; [|split; assumption]); [lia|].
        destruct (Nat.eq_dec j i) as [->|Hne]; [congruence|lia].
      * cbn [status calls]. split; [intros _; exists i; repeat split; [lia|exact Ea]|reflexivity].
    + cbn [status calls]. split; [discriminate|]. intros (j & H1 & H2 & _). lia.
  - destruct (expand n d); apply IH.
Qed.

Theorem walk_seq_ok : forall fuel stk, seq_ok (fun a => W fuel stk a 0%nat []).
Proof.
  intros fuel stk. constructor.
  - intros a b H. apply walk_ext. intros i' _ Hj. apply H. intros j Hjj. apply Hj. lia.
  - intros a. pose proof (walk_len fuel stk a 0%nat []) as [H _]. cbn [length] in H. lia.
  - intros a j Hc. exact (walk_true fuel stk a 0%nat [] j (Nat.le_0_l j) Hc).
  - intros a. rewrite walk_stop. split; intros (j & H); exists j; [tauto|]. split; [lia|exact H].
Qed.
End WalkSeq.

(* how the wrapper closure ended, against the status run_bounded reports (the status of the wrapped scan):
   return at remaining == 0 and break after a refused element both show up as "stopped" *)
Definition bounded_status (how : iend) (st : wstatus) : Prop :=
  match how with
  | ByReturn | ByBreak => st = WStopped
  | ByEnd => st = WDone \/ st = WBroke
  | ByFuel => st = WFuel
  end.

Section Bounded.
Variable k : N.
Variable ans : nat -> bool.
Variable step : N -> nat -> bstep N.
Hypothesis Hstep : forall r y, r <= k -> step r y = bounded_step ans r y.
Let cm : nat -> bool := fun i => (N.of_nat i <? k) && ans i.

Lemma pre_state : forall i, (forall j, (j < i)%nat -> cm j = true) ->
  range_pre step k 0%nat i = Some (k - N.of_nat i, i).
Proof.
  induction i as [|i IH]; intros H; [cbn [range_pre]; f_equal; f_equal; lia|].
  cbn [range_pre]. rewrite IH by (intros j Hj; apply H; lia).
  rewrite Hstep by lia. unfold bounded_step.
  pose proof (H i ltac:(lia)) as Hi. unfold cm in Hi. apply andb_prop in Hi. destruct Hi as [H1 H2]. apply N.ltb_lt in H1.
  destruct (N.eqb_spec (k - N.of_nat i) 0); [lia|]. rewrite H2. f_equal. f_equal. lia.
Qed.
Lemma consumer_agrees : forall i, (forall j, (j < i)%nat -> cm j = true) -> cm i = range_ans step k 0%nat i.
Proof.
  intros i H. unfold range_ans. rewrite (pre_state i H), Hstep by lia. unfold bounded_step, cm.
  assert (Hi : N.of_nat i <= k).
  { destruct i as [|i]; [lia|]. pose proof (H i ltac:(lia)) as Hi. unfold cm in Hi. apply andb_prop in Hi.
    destruct Hi as [H1 _]. apply N.ltb_lt in H1. lia. }
  destruct (N.eqb_spec (k - N.of_nat i) 0) as [E|E].
  - replace (N.of_nat i <? k) with false by (symmetry; apply N.ltb_ge; lia). reflexivity.
  - replace (N.of_nat i <? k) with true by (symmetry; apply N.ltb_lt; lia). cbn [andb]. destruct (ans i); reflexivity.
Qed.

Lemma fold_bounded : forall els y out how,
  N.of_nat y <= k ->
  (forall j, (y <= j)%nat -> (S j < y + length els)%nat -> cm j = true) ->
  exists how',
    range_fold step how (k - N.of_nat y) y out els =
      IDone how' (y + (if (N.of_nat (length els) <=? k - N.of_nat y)%N then length els else N.to_nat (k - N.of_nat y)%N))%nat
            (rev (takeN (k - N.of_nat y) els) ++ out) /\
    match how' with
    | ByReturn | ByBreak => exists j, (y + length els = S j)%nat /\ cm j = false
    | ByEnd => how <> ByFuel /\ (forall j, (y + length els = S j)%nat -> (y <= j)%nat -> cm j = true)
    | ByFuel => how = ByFuel /\ (forall j, (y + length els = S j)%nat -> (y <= j)%nat -> cm j = true)
    end.
Proof.
  induction els as [|x els IH]; intros y out how Hy HP.
  - cbn [range_fold length takeN rev app]. replace (N.of_nat 0 <=? k - N.of_nat y) with true by (symmetry; apply N.leb_le; lia).
    rewrite Nat.add_0_r. destruct how; eexists; (split; [reflexivity|]); cbn beta iota;
      (split; [congruence|intros j Hj Hyj; lia]).
  - cbn [range_fold]. rewrite Hstep by lia. unfold bounded_step. cbn [length] in *.
    destruct (N.eqb_spec (k - N.of_nat y) 0) as [E|E].
    + (* remaining == 0: return *)
      assert (Hl : els = []).
      { destruct els as [|x' els]; [reflexivity|]. cbn [length] in HP. pose proof (HP y ltac:(lia) ltac:(lia)) as Hc.
        unfold cm in Hc. apply andb_prop in Hc. destruct Hc as [H1 _]. apply N.ltb_lt in H1. lia. }
      subst els. cbn [length]. rewrite Nat.eqb_refl.
      exists ByReturn. split.
      * rewrite E. cbn [takeN]. replace (N.of_nat 1 <=? 0) with false by reflexivity.
        rewrite N.eqb_refl. cbn [rev app N.to_nat]. rewrite Nat.add_0_r. reflexivity.
      * exists y. split; [lia|]. unfold cm. replace (N.of_nat y <? k) with false by (symmetry; apply N.ltb_ge; lia). reflexivity.
    + destruct (ans y) eqn:Ea.
      * (* forwarded, accepted *)
        replace (S y =? y)%nat with false by (symmetry; apply Nat.eqb_neq; lia).
        replace (k - N.of_nat y - 1) with (k - N.of_nat (S y)) by lia.
        destruct (IH (S y) (x :: out) how ltac:(lia)) as (how' & Hr & Hh).
        { intros j Hj1 Hj2. apply HP; lia. }
        exists how'. split.
        -- rewrite Hr. cbn [takeN]. destruct (N.eqb_spec (k - N.of_nat y) 0); [contradiction|].
           replace (k - N.of_nat y - 1) with (k - N.of_nat (S y)) by lia. cbn [rev]. rewrite <- app_assoc. cbn [app].
           f_equal.
           destruct (N.leb_spec (N.of_nat (length els)) (k - N.of_nat (S y)));
             destruct (N.leb_spec (N.of_nat (S (length els))) (k - N.of_nat y)); lia.
        -- assert (Hcy : cm y = true) by (unfold cm; rewrite Ea; replace (N.of_nat y <? k) with true by (symmetry; apply N.ltb_lt; lia); reflexivity).
           destruct how'.
           ++ destruct Hh as (j & Hj & Hc). exists j. split; [lia|exact Hc].
           ++ destruct Hh as (j & Hj & Hc). exists j. split; [lia|exact Hc].
           ++ destruct Hh as [Hn Hall]. split; [exact Hn|]. intros j Hj Hyj.
              destruct (Nat.eq_dec j y) as [->|Hne]; [exact Hcy|]. apply Hall; lia.
           ++ destruct Hh as [Hn Hall]. split; [exact Hn|]. intros j Hj Hyj.
              destruct (Nat.eq_dec j y) as [->|Hne]; [exact Hcy|]. apply Hall; lia.
      * (* forwarded, refused: break *)
        assert (Hl : els = []).
        { destruct els as [|x' els]; [reflexivity|]. cbn [length] in HP. pose proof (HP y ltac:(lia) ltac:(lia)) as Hc.
          unfold cm in Hc. rewrite Ea, andb_false_r in Hc. discriminate. }
        subst els. cbn [length].
        replace (S y =? y)%nat with false by (symmetry; apply Nat.eqb_neq; lia).
        exists ByBreak. split.
        -- cbn [takeN]. destruct (N.eqb_spec (k - N.of_nat y) 0); [contradiction|]. cbn [rev app].
           replace (N.of_nat 1 <=? k - N.of_nat y) with true by (symmetry; apply N.leb_le; lia). f_equal. lia.
        -- exists y. split; [lia|]. unfold cm. rewrite Ea. apply andb_false_r.
Qed.

(* the wrapper closure around a well-behaved iterator: what the outer consumer sees is what run_bounded says *)
Theorem bounded_eq : forall (seq : (nat -> bool) -> ires) (seq' : (nat -> bool) -> wres),
  seq_ok seq' -> (forall a, ires_abs (seq a) = Some (seq' a)) ->
  exists how c acc, range_over step seq k 0%nat [] = IDone how c acc /\
    rev (map tabs acc) = takeN k (delivered (seq' cm)) /\
    c = (if N.of_nat (calls (seq' cm)) <=? k then calls (seq' cm) else N.to_nat k) /\
    bounded_status how (status (seq' cm)).
Proof.
  intros seq seq' Hok Habs. unfold range_over.
  pose proof (Habs (range_ans step k 0%nat)) as Ha.
  rewrite <- (so_ext _ Hok cm (range_ans step k 0%nat) consumer_agrees) in Ha.
  set (r := seq' cm) in *.
  destruct (seq (range_ans step k 0%nat)) as [how n acc| |]; cbn [ires_abs] in Ha; try discriminate.
  injection Ha as Ha. pose proof (so_len _ Hok cm) as Hlen. pose proof (so_true _ Hok cm) as Htrue.
  pose proof (so_stop _ Hok cm) as Hstop. fold r in Hlen, Htrue, Hstop.
  rewrite <- Ha in Hlen, Htrue, Hstop |- *. cbn [delivered calls status] in *.
  assert (Hn : length (rev acc) = n) by (rewrite rev_length in *; rewrite map_length in Hlen; exact Hlen).
  destruct (fold_bounded (rev acc) 0%nat [] how ltac:(lia)) as (how' & Hr & Hh).
  { intros j _ Hj. apply Htrue. lia. }
  cbn [N.of_nat] in Hr. rewrite N.sub_0_r in Hr. rewrite Hr, Hn. cbn [Nat.add].
  exists how'. eexists. eexists. split; [reflexivity|]. split; [|split; [reflexivity|]].
  - rewrite app_nil_r, map_rev, rev_involutive, <- takeN_map, map_rev. reflexivity.
  - rewrite Hn in Hh. cbn [Nat.add] in Hh. unfold bounded_status.
    destruct how'.
    + apply Hstop. destruct Hh as (j & Hj & Hc). exists j. split; assumption.
    + apply Hstop. destruct Hh as (j & Hj & Hc). exists j. split; assumption.
    + destruct Hh as [Hnf Hall].
      assert (Hns : status_of how <> WStopped).
      { intros Hs. apply Hstop in Hs. destruct Hs as (j & Hj & Hc). rewrite (Hall j Hj ltac:(lia)) in Hc. discriminate. }
      destruct how; cbn [status_of] in *; try congruence; [right|left]; reflexivity.
    + destruct Hh as [-> _]. reflexivity.
Qed.
End Bounded.

(* the wrapper closure: what the outer consumer is called with, how often, and how the closure ends, against
   run_bounded; k is a Go uint *)
Theorem gen_topK_eq : forall (all bwd : (nat -> bool) -> ires) (bwd' : (nat -> bool) -> wres) k ans,
  0 < k -> k < 2 ^ 64 -> seq_ok bwd' -> (forall a, ires_abs (bwd a) = Some (bwd' a)) ->
  exists how c acc, g_topK all bwd k ans = IDone how c acc /\
    rev (map tabs acc) = delivered (run_bounded bwd' k ans) /\ c = calls (run_bounded bwd' k ans) /\
    bounded_status how (status (run_bounded bwd' k ans)).
Proof.
  intros all bwd bwd' k ans H0 Hk Hok Habs. unfold g_topK, run_bounded. cbv zeta.
  destruct (N.eqb_spec k 0) as [E|_]; [lia|]. cbn [delivered calls status].
  apply (bounded_eq k ans (g_topK_body ans)); [|exact Hok|exact Habs].
  intros r y Hr. apply gen_topK_body_eq. lia.
Qed.
Theorem gen_bottomK_eq : forall (all bwd : (nat -> bool) -> ires) (all' : (nat -> bool) -> wres) k ans,
  0 < k -> k < 2 ^ 64 -> seq_ok all' -> (forall a, ires_abs (all a) = Some (all' a)) ->
  exists how c acc, g_bottomK all bwd k ans = IDone how c acc /\
    rev (map tabs acc) = delivered (run_bounded all' k ans) /\ c = calls (run_bounded all' k ans) /\
    bounded_status how (status (run_bounded all' k ans)).
Proof.
  intros all bwd all' k ans H0 Hk Hok Habs. unfold g_bottomK, run_bounded. cbv zeta.
  destruct (N.eqb_spec k 0) as [E|_]; [lia|]. cbn [delivered calls status].
  apply (bounded_eq k ans (g_bottomK_body ans)); [|exact Hok|exact Habs].
  intros r y Hr. apply gen_bottomK_body_eq. lia.
Qed.
(* k == 0: the closure returns before it touches the tree (the model reports WDone here) *)
Theorem gen_topK_zero : forall all bwd bwd' ans,
  g_topK all bwd 0 ans = IDone ByReturn 0 [] /\ run_bounded bwd' 0 ans = mkWres [] 0 WDone.
Proof. intros. split; reflexivity. Qed.
Theorem gen_bottomK_zero : forall all bwd all' ans,
  g_bottomK all bwd 0 ans = IDone ByReturn 0 [] /\ run_bounded all' 0 ans = mkWres [] 0 WDone.
Proof. intros. split; reflexivity. Qed.

(* on a tree: TopK(k) of the API is topK over Backward(), BottomK(k) is bottomK over All(); the wrapped scans are the
   regenerated ones, with the budget Model/Iter.v gives them *)
Corollary gen_topK_tree : forall all t k ans, 0 < k -> k < 2 ^ 64 -> xtwf t ->
  exists how c acc, g_topK all (g_backward (walk_fuel (tabs t)) (Some t)) k ans = IDone how c acc /\
    rev (map tabs acc) = delivered (run_bounded (run_backward (Some (tabs t))) k ans) /\
    c = calls (run_bounded (run_backward (Some (tabs t))) k ans) /\
    bounded_status how (status (run_bounded (run_backward (Some (tabs t))) k ans)).
Proof.
  intros all t k ans H0 Hk Hx. apply gen_topK_eq; try assumption.
  - apply walk_seq_ok.
  - intros a. apply gen_backward_eq. exact Hx.
Qed.
Corollary gen_bottomK_tree : forall bwd t k ans, 0 < k -> k < 2 ^ 64 -> xtwf t ->
  exists how c acc, g_bottomK (g_all (walk_fuel (tabs t)) (Some t)) bwd k ans = IDone how c acc /\
    rev (map tabs acc) = delivered (run_bounded (run_all (Some (tabs t))) k ans) /\
    c = calls (run_bounded (run_all (Some (tabs t))) k ans) /\
    bounded_status how (status (run_bounded (run_all (Some (tabs t))) k ans)).
Proof.
  intros bwd t k ans H0 Hk Hx. apply gen_bottomK_eq; try assumption.
  - apply walk_seq_ok.
  - intros a. apply gen_all_eq. exact Hx.
Qed.

(* ================= 9. the hypotheses are satisfiable; the translations run ================= *)
(* xtwf t (and WF 0 (tabs t) for lowestCommonParent) hold after every admissible history: TranslateTreeFacts.hyps_reachable.
   ex_tree: a node48 root with 17 children, one of them an inner node4. *)
Definition ex_stop3 (i : nat) : bool := (i <? 2)%nat.
Example ex_iter_runs :
  (exists acc, g_all 100 (Some ex_tree) (fun _ => true) = IDone ByEnd 19 acc /\
     map xleaf_v (rev acc) = [1; 2; 3; 4; 5; 100; 101; 6; 7; 8; 9; 10; 11; 12; 13; 14; 15; 16; 17]%Z) /\
  (exists acc, g_backward 100 (Some ex_tree) ex_stop3 = IDone ByReturn 3 acc /\ map xleaf_v (rev acc) = [17; 16; 15]%Z) /\
  (exists acc, g_filter 100 (Some ex_tree) (fun l => (xleaf_v l <? 3)%Z) (fun _ => true) = IDone ByEnd 2 acc /\
     map xleaf_v (rev acc) = [1; 2]%Z) /\
  (exists acc, g_rangeScan 100 (Some ex_tree) [5; 7; 2; 0] [8; 0] [5; 7; 2; 0] [8; 0] (fun _ => true) = IDone ByBreak 4 acc /\
     map xleaf_v (rev acc) = [101; 6; 7; 8]%Z) /\
  g_all 3 (Some ex_tree) (fun _ => true) = IDone ByFuel 2 [XLeaf [2; 0] [2; 0] 2; XLeaf [1; 0] [1; 0] 1] /\
  (exists r, g_lowestCommonParent 10 (Some ex_tree) [5; 7] = GRet (Some (XInner r)) /\ xlen (xh r) = 2) /\
  (exists acc, g_topK (g_all 100 (Some ex_tree)) (g_backward 100 (Some ex_tree)) 5 ex_stop3 = IDone ByBreak 3 acc /\
     map xleaf_v (rev acc) = [17; 16; 15]%Z) /\
  (exists acc, g_topK (g_all 100 (Some ex_tree)) (g_backward 100 (Some ex_tree)) 2 (fun _ => true) = IDone ByReturn 2 acc /\
     map xleaf_v (rev acc) = [17; 16]%Z) /\
  (exists acc, g_bottomK (g_all 100 (Some ex_tree)) (g_backward 100 (Some ex_tree)) 2 (fun _ => true) = IDone ByReturn 2 acc /\
     map xleaf_v (rev acc) = [1; 2]%Z).
Proof. vm_compute. repeat split; eexists; split; reflexivity. Qed.

Print Assumptions gen_rangeScan_eq.
Print Assumptions gen_lowestCommonParent_eq.
Print Assumptions gen_topK_tree.
