(* The iteration layer (I) for the unpruned scans: the explicit-stack machine
   `walk` instantiated as all / backward / filter delivers exactly the in-order
   (resp. reversed, filtered) content to any consumer, calls it exactly as often
   as the list protocol `consume` says, and never runs out of fuel; the bounded
   wrappers topK / bottomK cut any such scan at k; minimum / maximum are the
   first / last leaf of the content. *)
From GoArt Require Import Base.Bytes Model.Node4 Model.Node16 Model.Node Model.Tree Model.Iter
  Spec.NodeSpec Spec.TreeSpec Spec.IterSpec Proofs.BytesFacts Proofs.NodeAuxList Proofs.NodeAux48
  Proofs.NodeFacts Proofs.TreeBasics.
From Coq Require Import ZifyN ZifyNat ZifyBool.
Ltac Zify.zify_post_hook ::= Z.div_mod_to_equations.
Open Scope N_scope.

(* ---- small list facts ---- *)
Lemma list_sum_cons : forall x l, list_sum (x :: l) = (x + list_sum l)%nat.
Proof. reflexivity. Qed.

Lemma list_sum_rev : forall l, list_sum (rev l) = list_sum l.
Proof.
  induction l as [|x l IH]; [reflexivity|]. cbn [rev]. rewrite list_sum_app, IH, !list_sum_cons.
  cbn [list_sum fold_right]. lia.
Qed.

Lemma flat_map_rev : forall {A B} (f : A -> list B) l,
  rev (flat_map f l) = flat_map (fun x => rev (f x)) (rev l).
Proof.
  intros A B f l. induction l as [|x l IH]; [reflexivity|].
  cbn [flat_map rev]. rewrite rev_app_distr, IH, flat_map_app. cbn [flat_map]. rewrite app_nil_r. reflexivity.
Qed.

Lemma filter_true : forall {A} (l : list A), filter (fun _ => true) l = l.
Proof. intros A l. induction l as [|x l IH]; [reflexivity|]. cbn [filter]. rewrite IH. reflexivity. Qed.

Lemma hd_error_app_ne : forall {A} (l1 l2 : list A), l1 <> [] -> hd_error (l1 ++ l2) = hd_error l1.
Proof. intros A [|x l1] l2 H; [congruence|reflexivity]. Qed.

(* ---- the children of a well-formed node are smaller than the node ---- *)
Definition osize (o : option tree) : nat := match o with Some c => tsize c | None => 0%nat end.

Lemma sum_snd_combine : forall (ks : list N) (ch : list tree),
  (list_sum (map tsize (map snd (combine ks ch))) <= list_sum (map tsize ch))%nat.
Proof.
  induction ks as [|k ks IH]; intros ch; cbn [combine map]; [cbn [list_sum fold_right]; lia|].
  destruct ch as [|c ch]; cbn [map snd]; [cbn [list_sum fold_right]; lia|].
  rewrite !list_sum_cons. specialize (IH ch). lia.
Qed.

Lemma sum_enum_slots : forall (slots : list (option tree)) k,
  list_sum (map tsize (map snd (enum_slots slots k))) = list_sum (map osize slots).
Proof.
  induction slots as [|s slots IH]; intros k; cbn [enum_slots]; [reflexivity|].
  rewrite !map_app, list_sum_app, IH. cbn [map]. rewrite list_sum_cons.
  destruct s as [c|]; cbn [map snd osize list_sum fold_right]; lia.
Qed.

Fixpoint idx_inj (idx : list N) : Prop :=
  match idx with
  | [] => True
  | i :: r => (i = 0 \/ ~ In i r) /\ idx_inj r
  end.

Lemma idx_inj_of_nth : forall idx : list N,
  (forall x1 x2, (x1 < length idx)%nat -> (x2 < length idx)%nat ->
     nth x1 idx 0 <> 0 -> nth x1 idx 0 = nth x2 idx 0 -> x1 = x2) -> idx_inj idx.
Proof.
  induction idx as [|i idx IH]; intros H; cbn [idx_inj]; [exact I|]. split.
  - destruct (N.eq_dec i 0) as [Hz|Hn]; [left; exact Hz|right]. intros Hin.
    destruct (In_nth _ _ 0 Hin) as (x & Hx & Hnx).
    assert (E : (0 = S x)%nat).
    { apply H; cbn [length nth]; try lia; congruence. }
    lia.
  - apply IH. intros x1 x2 H1 H2 H3 H4.
    assert (E : (S x1 = S x2)%nat).
    { apply H; cbn [length nth]; try lia; assumption. }
    lia.
Qed.

Lemma enum_idx_set_other : forall (idx : list N) (slots : list (option tree)) p v k,
  (forall j, In j idx -> j = 0 \/ N.to_nat (j - 1) <> p) ->
  enum_idx idx (set_at p v slots) k = enum_idx idx slots k.
Proof.
  induction idx as [|i idx IH]; intros slots p v k H; cbn [enum_idx]; [reflexivity|].
  rewrite IH by (intros j Hj; apply H; right; exact Hj).
  f_equal. destruct (i =? 0) eqn:E; [reflexivity|].
  destruct (H i (or_introl eq_refl)) as [H0|H0]; [lia|].
  rewrite nth_error_set_at_ne by lia. reflexivity.
Qed.

Lemma sum_set_none : forall (slots : list (option tree)) p c, nth_error slots p = Some (Some c) ->
  (list_sum (map osize (set_at p None slots)) + tsize c = list_sum (map osize slots))%nat.
Proof.
  induction slots as [|s slots IH]; intros [|p] c H; cbn [nth_error] in H; try discriminate.
  - inversion H; subst. cbn [set_at map]. rewrite !list_sum_cons. cbn [osize]. lia.
  - cbn [set_at map]. rewrite !list_sum_cons. specialize (IH p c H). lia.
Qed.

Lemma sum_enum_idx : forall (idx : list N) (slots : list (option tree)) k, idx_inj idx ->
  (list_sum (map tsize (map snd (enum_idx idx slots k))) <= list_sum (map osize slots))%nat.
Proof.
  induction idx as [|i idx IH]; intros slots k Hinj; cbn [enum_idx]; [cbn [map list_sum fold_right]; lia|].
  destruct Hinj as [Hi Hinj]. rewrite !map_app, list_sum_app.
  destruct (i =? 0) eqn:E; [cbn [map list_sum fold_right plus]; apply IH; exact Hinj|].
  destruct (nth_error slots (N.to_nat (i - 1))) as [[c|]|] eqn:En;
    try (cbn [map list_sum fold_right plus]; apply IH; exact Hinj).
  rewrite <- (enum_idx_set_other idx slots (N.to_nat (i - 1)) None).
  2:{ intros j Hj. destruct (N.eq_dec j 0) as [Hz|Hn]; [left; exact Hz|right]. intros Heq.
      assert (j = i) by lia. subst j. destruct Hi as [Hi|Hi]; [lia|contradiction]. }
  pose proof (IH (set_at (N.to_nat (i - 1)) None slots) (k + 1) Hinj) as H1.
  pose proof (sum_set_none _ _ _ En) as H2.
  cbn [map snd]. rewrite list_sum_cons. cbn [list_sum fold_right]. lia.
Qed.

Lemma size_children : forall n : rnode tree, nwf n ->
  (list_sum (map tsize (nchildren n)) < tsize (Inner n))%nat.
Proof.
  intros [h len keys ch|h len keys ch|h len idx slots|h len slots] Hwf; unfold nchildren; cbn [nenum tsize].
  - pose proof (sum_snd_combine (firstn (N.to_nat len) (lanes keys)) ch). lia.
  - pose proof (sum_snd_combine (firstn (N.to_nat len) keys) ch). lia.
  - destruct Hwf as (_ & Hl & _ & _ & Hinj & _).
    assert (Hi : idx_inj idx).
    { apply idx_inj_of_nth. intros x1 x2 H1 H2 H3 H4. apply Hinj; try lia; assumption. }
    pose proof (sum_enum_idx idx slots 0 Hi) as H. unfold osize in H. lia.
  - rewrite sum_enum_slots. unfold osize. lia.
Qed.

(* ---- the walk against the list protocol ---- *)
Definition res_of (acc : list tree) (r : list lrec * nat * bool) : wres :=
  mkWres (rev acc ++ map to_leaf (fst (fst r))) (snd (fst r)) (if snd r then WStopped else WDone).

Definition stack_size (stk : list (tree * nat)) : nat := list_sum (map (fun e => tsize (fst e)) stk).

Lemma stack_size_app : forall s1 s2, stack_size (s1 ++ s2) = (stack_size s1 + stack_size s2)%nat.
Proof. intros. unfold stack_size. rewrite map_app, list_sum_app. reflexivity. Qed.

Lemma stack_size_depth : forall d cs, stack_size (with_depth d cs) = list_sum (map tsize cs).
Proof. intros. unfold stack_size, with_depth. rewrite map_map. reflexivity. Qed.

Section WalkGen.
Variable pred : tree -> bool.
Variable expand : rnode tree -> nat -> option (list (tree * nat)).
Variable lvs : tree -> list lrec.
Hypothesis lvs_leaf : forall gk tk v, lvs (Leaf gk tk v) = [(gk, tk, v)].
Hypothesis exp_ok : forall d n dd, WF d (Inner n) -> exists cs,
  expand n dd = Some (with_depth 0 cs) /\ (forall c, In c cs -> exists d', WF d' c) /\
  (list_sum (map tsize cs) < tsize (Inner n))%nat /\ lvs (Inner n) = flat_map lvs cs.

Definition stack_lv (stk : list (tree * nat)) : list lrec := flat_map (fun e => lvs (fst e)) stk.
Definition pf (l : lrec) : bool := pred (to_leaf l).

Lemma walk_gen : forall fuel stk ans i acc,
  Forall (fun e => exists d, WF d (fst e)) stk -> (stack_size stk < fuel)%nat ->
  walk (fun l => if pred l then Deliver else Skip) expand fuel stk ans i acc =
  res_of acc (consume ans i (filter pf (stack_lv stk))).
Proof.
  induction fuel as [|f IH]; intros stk ans i acc HF Hsz; [lia|].
  destruct stk as [|[t d] st].
  - cbn [walk stack_lv flat_map filter consume]. unfold res_of. cbn [fst snd map]. rewrite app_nil_r. reflexivity.
  - apply Forall_cons_iff in HF. destruct HF as [[d0 Hwf] HF]. cbn [fst] in Hwf.
    unfold stack_size in Hsz. cbn [map fst] in Hsz. rewrite list_sum_cons in Hsz. fold (stack_size st) in Hsz.
    destruct t as [gk tk v|n].
    + cbn [tsize] in Hsz. cbn [walk]. unfold stack_lv. cbn [flat_map fst]. fold (stack_lv st).
      rewrite lvs_leaf. cbn [app filter]. unfold pf at 1. unfold to_leaf, lgk, ltk, lv. cbn [fst snd].
      destruct (pred (Leaf gk tk v)) eqn:Ep.
      * cbn [consume]. destruct (ans i) eqn:Ea.
        -- rewrite IH by (assumption || lia).
           destruct (consume ans (S i) (filter pf (stack_lv st))) as [[dd c] s].
           unfold res_of. cbn [fst snd map rev]. rewrite <- app_assoc. reflexivity.
        -- unfold res_of. cbn [fst snd map rev]. reflexivity.
      * apply IH; [assumption|lia].
    + cbn [walk]. destruct (exp_ok d0 n d Hwf) as (cs & He & Hcs & Hlt & Hlv). rewrite He.
      rewrite IH.
      * f_equal. f_equal. f_equal. unfold stack_lv. cbn [flat_map fst]. rewrite flat_map_app. f_equal.
        rewrite Hlv. unfold with_depth. rewrite flat_map_map. reflexivity.
      * apply Forall_app. split; [|exact HF]. apply Forall_forall. intros [c dc] Hc.
        unfold with_depth in Hc. apply in_map_iff in Hc. destruct Hc as (c' & E & Hc'). inversion E; subst.
        cbn [fst]. apply Hcs. exact Hc'.
      * rewrite stack_size_app, stack_size_depth. lia.
Qed.
End WalkGen.

Lemma walk_is_res_of : forall r ans ls, r = res_of [] (consume ans 0 ls) -> walk_is r ans ls.
Proof.
  intros r ans ls E. subst r. unfold walk_is, res_of. cbn [delivered calls status rev app].
  split; [reflexivity|]. split; [reflexivity|]. destruct (snd (consume ans 0 ls)); discriminate.
Qed.

Lemma exp_fwd_ok : forall d n dd, WF d (Inner n) -> exists cs,
  expand_fwd n dd = Some (with_depth 0 cs) /\ (forall c, In c cs -> exists d', WF d' c) /\
  (list_sum (map tsize cs) < tsize (Inner n))%nat /\ leaves (Inner n) = flat_map leaves cs.
Proof.
  intros d n dd H. exists (nchildren n). split; [reflexivity|]. split; [|split].
  - intros c Hc. apply in_nchildren in Hc. destruct Hc as [b Hc].
    destruct (WF_child _ _ _ _ H Hc) as [Hw _]. eexists. exact Hw.
  - apply size_children. apply WF_inner_inv in H. tauto.
  - rewrite leaves_inner. unfold nchildren. rewrite flat_map_map. reflexivity.
Qed.

Definition rleaves (t : tree) : list lrec := rev (leaves t).

Lemma exp_bwd_ok : forall d n dd, WF d (Inner n) -> exists cs,
  expand_bwd n dd = Some (with_depth 0 cs) /\ (forall c, In c cs -> exists d', WF d' c) /\
  (list_sum (map tsize cs) < tsize (Inner n))%nat /\ rleaves (Inner n) = flat_map rleaves cs.
Proof.
  intros d n dd H.
  exists (rev (nchildren n)). split; [reflexivity|]. split; [|split].
  - intros c Hin. apply in_rev in Hin. apply in_nchildren in Hin. destruct Hin as [b Hin].
    destruct (WF_child _ _ _ _ H Hin) as [Hw _]. eexists. exact Hw.
  - rewrite map_rev, list_sum_rev. apply size_children. apply WF_inner_inv in H. tauto.
  - unfold rleaves at 1. rewrite leaves_inner. unfold nchildren. rewrite flat_map_rev.
    rewrite <- map_rev, flat_map_map. reflexivity.
Qed.

Theorem run_filter_spec : forall d t pred ans, WF d t ->
  walk_is (run_filter (Some t) pred ans) ans (filter (fun l => pred (to_leaf l)) (leaves t)).
Proof.
  intros d t pred ans H. apply walk_is_res_of. unfold run_filter, walk_fuel.
  rewrite (walk_gen pred expand_fwd leaves leaves_leaf exp_fwd_ok).
  - unfold stack_lv. cbn [flat_map fst]. rewrite app_nil_r. reflexivity.
  - constructor; [|constructor]. exists d. exact H.
  - unfold stack_size. cbn [map fst list_sum fold_right]. lia.
Qed.

Theorem run_all_spec : forall d t ans, WF d t -> walk_is (run_all (Some t) ans) ans (leaves t).
Proof.
  intros d t ans H. apply walk_is_res_of. unfold run_all, walk_fuel.
  change (fun _ : tree => Deliver) with (fun l : tree => if (fun _ : tree => true) l then Deliver else Skip).
  rewrite (walk_gen (fun _ => true) expand_fwd leaves leaves_leaf exp_fwd_ok).
  - unfold stack_lv, pf. cbn [flat_map fst]. rewrite app_nil_r, filter_true. reflexivity.
  - constructor; [|constructor]. exists d. exact H.
  - unfold stack_size. cbn [map fst list_sum fold_right]. lia.
Qed.

Theorem run_backward_spec : forall d t ans, WF d t ->
  walk_is (run_backward (Some t) ans) ans (rev (leaves t)).
Proof.
  intros d t ans H. apply walk_is_res_of. unfold run_backward, walk_fuel.
  change (fun _ : tree => Deliver) with (fun l : tree => if (fun _ : tree => true) l then Deliver else Skip).
  rewrite (walk_gen (fun _ => true) expand_bwd rleaves (fun gk tk v => eq_refl) exp_bwd_ok).
  - unfold stack_lv, pf. cbn [flat_map fst]. rewrite app_nil_r, filter_true. reflexivity.
  - constructor; [|constructor]. exists d. exact H.
  - unfold stack_size. cbn [map fst list_sum fold_right]. lia.
Qed.

(* ---- the bounded wrappers ---- *)
Lemma takeN_map : forall {A B} (f : A -> B) k l, takeN k (map f l) = map f (takeN k l).
Proof.
  intros A B f k l. revert k. induction l as [|x l IH]; intros k; cbn [map takeN]; [reflexivity|].
  destruct (k =? 0); [reflexivity|]. cbn [map]. rewrite IH. reflexivity.
Qed.

Lemma bounded_gen : forall {A} (ans : nat -> bool) (k : N) (ls : list A) i k',
  k = N.of_nat i + k' ->
  takeN k' (fst (fst (consume (fun j => (N.of_nat j <? k) && ans j) i ls))) =
    fst (fst (consume ans i (takeN k' ls))) /\
  (let c := snd (fst (consume (fun j => (N.of_nat j <? k) && ans j) i ls)) in
   if N.of_nat c <=? k then c else N.to_nat k) = snd (fst (consume ans i (takeN k' ls))).
Proof.
  intros A ans k ls. induction ls as [|x l IH]; intros i k' Hk; cbv zeta.
  - cbn [consume takeN fst snd]. split; [reflexivity|].
    destruct (N.of_nat i <=? k) eqn:E; [reflexivity|lia].
  - cbn [takeN]. destruct (k' =? 0) eqn:Ek.
    + cbn [consume]. assert (Ef : (N.of_nat i <? k) = false) by lia. rewrite Ef. cbn [andb fst snd takeN].
      rewrite Ek. split; [reflexivity|].
      destruct (N.of_nat (S i) <=? k) eqn:E; lia.
    + cbn [consume]. assert (Et : (N.of_nat i <? k) = true) by lia. rewrite Et. cbn [andb].
      destruct (ans i) eqn:Ea.
      * destruct (IH (S i) (k' - 1)) as [H1 H2]; [lia|]. cbv zeta in H2.
        destruct (consume (fun j => (N.of_nat j <? k) && ans j) (S i) l) as [[d1 c1] s1].
        destruct (consume ans (S i) (takeN (k' - 1) l)) as [[d2 c2] s2].
        cbn [fst snd] in *. cbn [takeN]. rewrite Ek. split; [f_equal; exact H1|exact H2].
      * cbn [fst snd takeN]. rewrite Ek. split; [destruct (k' - 1 =? 0); reflexivity|].
        destruct (N.of_nat (S i) <=? k) eqn:E; lia.
Qed.

Theorem run_bounded_spec : forall inner k ans ls,
  (forall a, walk_is (inner a) a ls) -> walk_is (run_bounded inner k ans) ans (takeN k ls).
Proof.
  intros inner k ans ls H. unfold run_bounded. destruct (k =? 0) eqn:Ek.
  - assert (E : takeN k ls = []) by (destruct ls; cbn [takeN]; [|rewrite Ek]; reflexivity).
    rewrite E. unfold walk_is. cbn [consume delivered calls status fst snd map].
    split; [reflexivity|]. split; [reflexivity|discriminate].
  - cbv zeta. destruct (H (fun i => (N.of_nat i <? k) && ans i)) as (Hd & Hc & Hs).
    destruct (bounded_gen ans k ls 0%nat k) as [H1 H2]; [lia|]. cbv zeta in H2.
    unfold walk_is. cbn [delivered calls status]. split; [|split].
    + rewrite Hd, takeN_map, H1. reflexivity.
    + rewrite Hc. exact H2.
    + exact Hs.
Qed.

(* ---- minimum / maximum ---- *)
Lemma minleaf_spec : forall f d t, (theight t <= f)%nat -> WF d t ->
  minleaf f t = option_map to_leaf (hd_error (leaves t)).
Proof.
  induction f as [|f IH]; intros d t Hf H.
  - pose proof (theight_pos t). lia.
  - destruct t as [gk tk v|n]; [reflexivity|].
    cbn [minleaf]. pose proof (WF_inner_inv _ _ H) as (Hwf & H2 & _ & _).
    rewrite (nfirst_spec n Hwf).
    destruct (nenum n) as [|[b c] rest] eqn:E; [cbn [length] in H2; lia|].
    assert (Hin : In (b, c) (nenum n)) by (rewrite E; left; reflexivity).
    destruct (WF_child _ _ _ _ H Hin) as [Hc _].
    pose proof (in_nenum_height _ _ _ Hin) as Hh.
    cbn [map snd hd_error]. rewrite (IH _ c) by (lia || exact Hc).
    rewrite leaves_inner, E. cbn [flat_map snd].
    rewrite hd_error_app_ne by (eapply WF_nonempty; exact Hc). reflexivity.
Qed.

Lemma maxleaf_spec : forall f d t, (theight t <= f)%nat -> WF d t ->
  maxleaf f t = option_map to_leaf (hd_error (rev (leaves t))).
Proof.
  induction f as [|f IH]; intros d t Hf H.
  - pose proof (theight_pos t). lia.
  - destruct t as [gk tk v|n]; [reflexivity|].
    cbn [maxleaf]. pose proof (WF_inner_inv _ _ H) as (Hwf & H2 & _ & _).
    rewrite (nlast_spec n Hwf). rewrite <- map_rev.
    destruct (rev (nenum n)) as [|[b c] rest] eqn:E.
    { apply (f_equal (@length _)) in E. rewrite rev_length in E. cbn [length] in E. lia. }
    assert (E' : nenum n = rev rest ++ [(b, c)]).
    { rewrite <- (rev_involutive (nenum n)), E. reflexivity. }
    assert (Hin : In (b, c) (nenum n)) by (rewrite E'; apply in_or_app; right; left; reflexivity).
    destruct (WF_child _ _ _ _ H Hin) as [Hc _].
    pose proof (in_nenum_height _ _ _ Hin) as Hh.
    cbn [map snd hd_error]. rewrite (IH _ c) by (lia || exact Hc).
    rewrite leaves_inner, E', flat_map_app. cbn [flat_map snd]. rewrite app_nil_r, rev_app_distr.
    rewrite hd_error_app_ne; [reflexivity|].
    intros Hr. apply (f_equal (@rev _)) in Hr. rewrite rev_involutive in Hr. cbn [rev] in Hr.
    revert Hr. eapply WF_nonempty. exact Hc.
Qed.

Theorem minimum_spec : forall d t, WF d t -> minimum t = option_map to_leaf (hd_error (leaves t)).
Proof. intros d t H. unfold minimum. apply (minleaf_spec _ d); [lia|exact H]. Qed.

Theorem maximum_spec : forall d t, WF d t -> maximum t = option_map to_leaf (hd_error (rev (leaves t))).
Proof. intros d t H. unfold maximum. apply (maxleaf_spec _ d); [lia|exact H]. Qed.
