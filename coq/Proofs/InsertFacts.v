(* The insertion theorem of the tree layer: under WF, shares, compat, pfree and
   enough fuel, insert returns a well-formed tree whose content is the upsert of
   the old content, and reports "added" exactly when the key was absent.  The
   IPanic, IFuel and "key exhausted" branches are unreachable. *)
From GoArt Require Import Base.Bytes Model.Node4 Model.Node16 Model.Node Model.Tree
  Spec.NodeSpec Spec.TreeSpec Proofs.BytesFacts Proofs.NodeFacts Proofs.TreeBasics.
From Coq Require Import ZifyN ZifyNat ZifyBool.
Ltac Zify.zify_post_hook ::= Z.div_mod_to_equations.
Open Scope N_scope.
Local Opaque maxPrefixLen.

(* ---- list idioms ---- *)
Lemma nth_error_skipn_add : forall {A} (l : list A) d i, nth_error (skipn d l) i = nth_error l (d + i).
Proof.
  intros A l. induction l as [|x l IH]; intros d i.
  - rewrite skipn_nil. destruct i, d; reflexivity.
  - destruct d as [|d]; [reflexivity|]. cbn [skipn Nat.add nth_error]. apply IH.
Qed.

Lemma firstn_add_split : forall {A} (l : list A) a b,
  firstn (a + b) l = firstn a l ++ firstn b (skipn a l).
Proof.
  intros A l. induction l as [|x l IH]; intros a b.
  - rewrite skipn_nil, !firstn_nil. reflexivity.
  - destruct a as [|a]; [reflexivity|]. cbn [Nat.add firstn skipn app]. f_equal. apply IH.
Qed.

Lemma firstn_add_eq : forall {A} (l1 l2 : list A) a b,
  firstn a l1 = firstn a l2 -> firstn b (skipn a l1) = firstn b (skipn a l2) ->
  firstn (a + b) l1 = firstn (a + b) l2.
Proof. intros A l1 l2 a b H1 H2. rewrite !firstn_add_split, H1, H2. reflexivity. Qed.

Lemma firstn_le_eq : forall {A} (l1 l2 : list A) a b, (a <= b)%nat ->
  firstn b l1 = firstn b l2 -> firstn a l1 = firstn a l2.
Proof.
  intros A l1 l2 a b Hab H.
  rewrite <- (Nat.min_l a b Hab), <- !firstn_firstn, H. reflexivity.
Qed.

Lemma firstn_skipn_of_add : forall {A} (l1 l2 : list A) a b,
  firstn (a + b) l1 = firstn (a + b) l2 -> firstn b (skipn a l1) = firstn b (skipn a l2).
Proof.
  intros A l1 l2 a b H. rewrite !firstn_skipn_comm, H. reflexivity.
Qed.

Lemma firstn_S_snoc : forall {A} (l : list A) n b, nth_error l n = Some b ->
  firstn (S n) l = firstn n l ++ [b].
Proof.
  intros A l. induction l as [|x l IH]; intros n b H.
  - destruct n; discriminate.
  - destruct n as [|n]; cbn [nth_error] in H.
    + inversion H; subst. reflexivity.
    + cbn [firstn app]. f_equal. apply IH. exact H.
Qed.

Lemma nth_error_firstn_lt : forall {A} (l : list A) n i, (i < n)%nat ->
  nth_error (firstn n l) i = nth_error l i.
Proof.
  intros A l. induction l as [|x l IH]; intros n i Hi.
  - rewrite firstn_nil. reflexivity.
  - destruct n as [|n]; [lia|]. destruct i as [|i]; [reflexivity|].
    cbn [firstn nth_error]. apply IH. lia.
Qed.

Lemma firstn_eq_nth_error : forall {A} (l1 l2 : list A) n i, (i < n)%nat ->
  firstn n l1 = firstn n l2 -> nth_error l1 i = nth_error l2 i.
Proof.
  intros A l1 l2 n i Hi H.
  rewrite <- (nth_error_firstn_lt l1 n i Hi), <- (nth_error_firstn_lt l2 n i Hi), H. reflexivity.
Qed.

(* ---- lcpn ---- *)
Lemma lcpn_le : forall n a b, (lcpn n a b <= n)%nat.
Proof.
  induction n as [|n IH]; intros a b; [destruct a, b; cbn [lcpn]; lia|].
  destruct a as [|x a]; [cbn [lcpn]; lia|]. destruct b as [|y b]; [cbn [lcpn]; lia|].
  cbn [lcpn]. destruct (x =? y); [specialize (IH a b); lia|lia].
Qed.

Lemma lcpn_firstn : forall n a b, firstn (lcpn n a b) a = firstn (lcpn n a b) b.
Proof.
  induction n as [|n IH]; intros a b; [destruct a, b; reflexivity|].
  destruct a as [|x a]; [reflexivity|]. destruct b as [|y b]; [reflexivity|].
  cbn [lcpn]. destruct (N.eqb_spec x y) as [->|Hne]; [|reflexivity].
  cbn [firstn]. f_equal. apply IH.
Qed.

Lemma lcpn_stop : forall n a b, (lcpn n a b < n)%nat -> (n <= length a)%nat -> (n <= length b)%nat ->
  exists x y, nth_error a (lcpn n a b) = Some x /\ nth_error b (lcpn n a b) = Some y /\ x <> y.
Proof.
  induction n as [|n IH]; intros a b Hlt Ha Hb; [lia|].
  destruct a as [|x a]; [cbn [length] in Ha; lia|]. destruct b as [|y b]; [cbn [length] in Hb; lia|].
  cbn [lcpn] in *. destruct (N.eqb_spec x y) as [->|Hne].
  - cbn [nth_error]. apply IH; cbn [length] in *; lia.
  - exists x, y. split; [reflexivity|]. split; [reflexivity|exact Hne].
Qed.

(* ---- copy_into ---- *)
Lemma copy_into_length : forall dst src, length (copy_into dst src) = length dst.
Proof.
  intros dst src. unfold copy_into. rewrite app_length, firstn_length, skipn_length. lia.
Qed.

Lemma copy_into_firstn : forall dst src m, (m <= length dst)%nat -> (m <= length src)%nat ->
  firstn m (copy_into dst src) = firstn m src.
Proof.
  intros dst src m H1 H2. unfold copy_into.
  rewrite firstn_app, firstn_firstn, firstn_length.
  replace (m - Nat.min (Nat.min (length dst) (length src)) (length src))%nat with 0%nat by lia.
  rewrite firstn_O, app_nil_r. f_equal. lia.
Qed.

(* ---- the minimum leaf is a leaf of the tree ---- *)
Lemma minleaf_in : forall f d t, (theight t <= f)%nat -> WF d t ->
  exists l, minleaf f t = Some (to_leaf l) /\ In l (leaves t).
Proof.
  induction f as [|f IH]; intros d t Hf H.
  - pose proof (theight_pos t). lia.
  - destruct t as [gk tk v|n]; cbn [minleaf].
    + exists (gk, tk, v). split; [reflexivity|]. rewrite leaves_leaf. left. reflexivity.
    + pose proof (WF_inner_inv _ _ H) as (Hn & H2 & _ & _).
      rewrite (nfirst_spec n Hn).
      destruct (nenum n) as [|[b c] rest] eqn:E; [cbn [length] in H2; lia|].
      cbn [map snd hd_error].
      assert (Hin : In (b, c) (nenum n)) by (rewrite E; left; reflexivity).
      destruct (WF_child _ _ _ _ H Hin) as [Hc _].
      pose proof (in_nenum_height _ _ _ Hin) as Hh.
      destruct (IH _ c ltac:(lia) Hc) as (l & Hl & Hil).
      exists l. split; [exact Hl|]. apply in_leaves_inner. exists b, c. split; assumption.
Qed.

Lemma minimum_in : forall d t, WF d t ->
  exists l, minimum t = Some (to_leaf l) /\ In l (leaves t).
Proof. intros d t H. unfold minimum. apply (minleaf_in _ d); [lia|exact H]. Qed.

(* ---- association lists: where the new / replaced entry sits ---- *)
Section AssocSplit.
Context {C : Type}.

Lemma ins_sorted_split : forall b (c : C) (l : list (N * C)),
  StronglySorted N.lt (map fst l) -> assoc b l = None ->
  exists l1 l2, l = l1 ++ l2 /\ ins_sorted b c l = l1 ++ (b, c) :: l2 /\
    (forall k x, In (k, x) l1 -> k < b) /\ (forall k x, In (k, x) l2 -> b < k).
Proof.
  intros b c l. induction l as [|[k x] l IH]; intros HS Ha.
  - exists [], []. split; [reflexivity|]. split; [reflexivity|]. split; intros k x [].
  - cbn [assoc] in Ha. destruct (N.eqb_spec k b) as [E|Hne]; [discriminate|].
    cbn [map fst] in HS. apply StronglySorted_inv in HS. destruct HS as [HS Hk].
    cbn [ins_sorted]. destruct (N.ltb_spec b k) as [Hlt|Hge].
    + exists [], ((k, x) :: l). split; [reflexivity|]. split; [reflexivity|].
      split; [intros k' x' []|]. intros k' x' [E|Hin].
      * inversion E; subst. exact Hlt.
      * rewrite Forall_forall in Hk. apply (in_map fst) in Hin. cbn [fst] in Hin.
        specialize (Hk _ Hin). lia.
    + destruct (IH HS Ha) as (l1 & l2 & E1 & E2 & H1 & H2).
      exists ((k, x) :: l1), l2. split; [cbn [app]; rewrite E1; reflexivity|].
      split; [cbn [app]; rewrite E2; reflexivity|]. split; [|exact H2].
      intros k' x' [E|Hin]; [inversion E; subst; lia|apply (H1 k' x' Hin)].
Qed.

Lemma in_split_sorted : forall b (c : C) (l : list (N * C)),
  StronglySorted N.lt (map fst l) -> In (b, c) l ->
  exists l1 l2, l = l1 ++ (b, c) :: l2 /\
    (forall k x, In (k, x) l1 -> k < b) /\ (forall k x, In (k, x) l2 -> b < k).
Proof.
  intros b c l HS Hin. apply in_split in Hin. destruct Hin as (l1 & l2 & E). subst l.
  exists l1, l2. split; [reflexivity|].
  rewrite map_app in HS. cbn [map fst] in HS. apply ssorted_app_inv in HS.
  destruct HS as (_ & HS2 & H12). apply StronglySorted_inv in HS2. destruct HS2 as [_ Hb].
  split.
  - intros k x Hin. apply (H12 k b); [apply (in_map fst) in Hin; exact Hin|left; reflexivity].
  - intros k x Hin. rewrite Forall_forall in Hb. apply Hb. apply (in_map fst) in Hin. exact Hin.
Qed.

Lemma repl_key_split : forall b (c c0 : C) (l1 l2 : list (N * C)),
  (forall k x, In (k, x) l1 -> k <> b) ->
  repl_key b c (l1 ++ (b, c0) :: l2) = l1 ++ (b, c) :: l2.
Proof.
  intros b c c0 l1 l2. induction l1 as [|[k x] l1 IH]; intros H.
  - cbn [app repl_key]. rewrite N.eqb_refl. reflexivity.
  - cbn [app repl_key]. destruct (N.eqb_spec k b) as [E|Hne].
    + exfalso. apply (H k x); [left; reflexivity|exact E].
    + f_equal. apply IH. intros k' x' Hin. apply (H k' x'). right. exact Hin.
Qed.
End AssocSplit.

Lemma kid_leaves_split : forall l1 (x : N * tree) l2,
  kid_leaves (l1 ++ x :: l2) = kid_leaves l1 ++ leaves (snd x) ++ kid_leaves l2.
Proof. intros l1 x l2. unfold kid_leaves. rewrite flat_map_app. reflexivity. Qed.

Lemma kid_leaves_app : forall l1 l2 : list (N * tree), kid_leaves (l1 ++ l2) = kid_leaves l1 ++ kid_leaves l2.
Proof. intros l1 l2. unfold kid_leaves. apply flat_map_app. Qed.

Lemma in_kid_leaves : forall kids l, In l (kid_leaves kids) <->
  exists b c, In (b, c) kids /\ In l (leaves c).
Proof.
  intros kids l. unfold kid_leaves. rewrite in_flat_map. split.
  - intros ([b c] & H1 & H2). exists b, c. split; assumption.
  - intros (b & c & H1 & H2). exists (b, c). split; assumption.
Qed.

Lemma leaves_kid : forall n, leaves (Inner n) = kid_leaves (nenum n).
Proof. intros n. apply leaves_inner. Qed.

(* ---- the ideal map over blocks ---- *)
Lemma mem_gk_app : forall gk a b, mem_gk gk (a ++ b) = mem_gk gk a || mem_gk gk b.
Proof. intros gk a b. unfold mem_gk. apply existsb_app. Qed.

Lemma mem_gk_false : forall gk cs, (forall l, In l cs -> lgk l <> gk) -> mem_gk gk cs = false.
Proof.
  intros gk cs H. unfold mem_gk. destruct (existsb _ cs) eqn:E; [|reflexivity].
  apply existsb_exists in E. destruct E as (l & Hl & E). apply beq_eq in E.
  exfalso. apply (H l Hl E).
Qed.

Lemma mem_gk_true : forall gk cs l, In l cs -> lgk l = gk -> mem_gk gk cs = true.
Proof.
  intros gk cs l Hl E. unfold mem_gk. apply existsb_exists. exists l. split; [exact Hl|].
  apply beq_eq. exact E.
Qed.

Lemma set_v_app : forall gk v a b, set_v gk v (a ++ b) = set_v gk v a ++ set_v gk v b.
Proof. intros gk v a b. unfold set_v. apply map_app. Qed.

Lemma set_v_id : forall gk v cs, (forall l, In l cs -> lgk l <> gk) -> set_v gk v cs = cs.
Proof.
  intros gk v cs. induction cs as [|y cs IH]; intros H; [reflexivity|].
  unfold set_v in *. cbn [map]. rewrite IH by (intros l Hl; apply H; right; exact Hl).
  destruct (beq (lgk y) gk) eqn:E; [|reflexivity].
  apply beq_eq in E. exfalso. apply (H y); [left; reflexivity|exact E].
Qed.

Lemma ins_tk_app : forall x A B C,
  (forall l, In l A -> lex_lt (ltk l) (ltk x)) ->
  (forall l, In l C -> lex_lt (ltk x) (ltk l)) ->
  ins_tk x (A ++ B ++ C) = A ++ ins_tk x B ++ C.
Proof.
  intros x A B C HA HC. induction A as [|y A IH].
  - cbn [app]. clear HA. induction B as [|y B IHB].
    + cbn [app ins_tk]. destruct C as [|z C]; [reflexivity|].
      cbn [ins_tk]. assert (E : lex_ltb (ltk x) (ltk z) = true).
      { apply lex_ltb_spec. apply HC. left. reflexivity. }
      rewrite E. reflexivity.
    + cbn [app ins_tk]. destruct (lex_ltb (ltk x) (ltk y)); [reflexivity|].
      cbn [app]. f_equal. exact IHB.
  - cbn [app ins_tk]. assert (E : lex_ltb (ltk x) (ltk y) = false).
    { destruct (lex_ltb (ltk x) (ltk y)) eqn:E; [|reflexivity]. apply lex_ltb_spec in E.
      exfalso. apply (lex_lt_asym _ _ E). apply HA. left. reflexivity. }
    rewrite E. f_equal. apply IH. intros l Hl. apply HA. right. exact Hl.
Qed.

Lemma upsert_mid : forall gk tk v A B C,
  (forall l, In l A -> lgk l <> gk /\ lex_lt (ltk l) tk) ->
  (forall l, In l C -> lgk l <> gk /\ lex_lt tk (ltk l)) ->
  mem_gk gk (A ++ B ++ C) = mem_gk gk B /\
  upsert gk tk v (A ++ B ++ C) = A ++ upsert gk tk v B ++ C.
Proof.
  intros gk tk v A B C HA HC.
  assert (EA : mem_gk gk A = false) by (apply mem_gk_false; intros l Hl; apply HA; exact Hl).
  assert (EC : mem_gk gk C = false) by (apply mem_gk_false; intros l Hl; apply HC; exact Hl).
  assert (EM : mem_gk gk (A ++ B ++ C) = mem_gk gk B).
  { rewrite !mem_gk_app, EA, EC, orb_false_r. reflexivity. }
  split; [exact EM|]. unfold upsert. rewrite EM. destruct (mem_gk gk B).
  - rewrite !set_v_app.
    rewrite (set_v_id gk v A) by (intros l Hl; apply HA; exact Hl).
    rewrite (set_v_id gk v C) by (intros l Hl; apply HC; exact Hl). reflexivity.
  - apply ins_tk_app; intros l Hl; cbn [ltk fst snd]; [apply HA|apply HC]; exact Hl.
Qed.

Lemma in_upsert_tk : forall gk tk v cs l, In l (upsert gk tk v cs) ->
  ltk l = tk \/ exists l0, In l0 cs /\ ltk l0 = ltk l.
Proof.
  intros gk tk v cs l. unfold upsert. destruct (mem_gk gk cs).
  - unfold set_v. intros H. apply in_map_iff in H. destruct H as (l0 & E & H0).
    right. exists l0. split; [exact H0|]. destruct (beq (lgk l0) gk); subst l; reflexivity.
  - induction cs as [|y cs IH]; cbn [ins_tk].
    + intros [<-|[]]. left. reflexivity.
    + destruct (lex_ltb _ _).
      * intros [<-|H]; [left; reflexivity|]. right. exists l. split; [exact H|reflexivity].
      * intros [<-|H]; [right; exists y; split; [left; reflexivity|reflexivity]|].
        destruct (IH H) as [E|(l0 & H0 & E)]; [left; exact E|].
        right. exists l0. split; [right; exact H0|exact E].
Qed.

(* ---- building well-formed inner nodes ---- *)
Lemma WF_intro : forall d n p q,
  nwf n -> prefixLen (nhdr n) = p -> (2 <= length (nenum n))%nat -> length q = (d + p)%nat ->
  firstn (Nat.min p maxPrefixLen) (prefix (nhdr n)) = firstn (Nat.min p maxPrefixLen) (skipn d q) ->
  (forall b c, In (b, c) (nenum n) -> WF (d + p + 1) c /\
     forall l, In l (leaves c) -> firstn (d + p) (ltk l) = q /\ nth_error (ltk l) (d + p) = Some b) ->
  WF d (Inner n).
Proof.
  intros d n p q Hn Hp H2 Hq Hi Hc. subst p. apply WF_inner; [exact Hn|exact H2| |].
  - exists q. split; [exact Hq|]. split; [|exact Hi].
    apply Forall_forall. intros l Hl. apply in_leaves_inner in Hl. destruct Hl as (b & c & Hin & Hl).
    apply (proj2 (Hc b c Hin) l Hl).
  - apply Forall_forall. intros [b c] Hin. cbn [fst snd]. destruct (Hc b c Hin) as [Hw Hl].
    split; [exact Hw|]. apply Forall_forall. intros l Hl'. apply (Hl l Hl').
Qed.

(* the shared path of a well-formed node, read off any key that follows it *)
Lemma WF_path_tk : forall d n tk,
  WF d (Inner n) ->
  (forall l, In l (leaves (Inner n)) ->
     firstn (d + prefixLen (nhdr n)) (ltk l) = firstn (d + prefixLen (nhdr n)) tk) ->
  firstn (Nat.min (prefixLen (nhdr n)) maxPrefixLen) (prefix (nhdr n)) =
  firstn (Nat.min (prefixLen (nhdr n)) maxPrefixLen) (skipn d (firstn (d + prefixLen (nhdr n)) tk)).
Proof.
  intros d n tk H Hall. destruct (WF_path _ _ H) as (q & Hq & Hq' & Hi).
  pose proof (WF_nonempty _ _ H) as Hne.
  destruct (leaves (Inner n)) as [|l0 rest] eqn:E; [congruence|].
  assert (Hl0 : In l0 (leaves (Inner n))) by (rewrite E; left; reflexivity).
  rewrite <- E in *. rewrite <- (Hall l0 Hl0), (Hq' l0 Hl0). exact Hi.
Qed.

Lemma rebuild : forall d n n' b c' l1 l2 tk,
  WF d (Inner n) -> nwf n' -> nhdr n' = nhdr n -> nenum n' = l1 ++ (b, c') :: l2 ->
  (forall k x, In (k, x) l1 -> k < b /\ In (k, x) (nenum n)) ->
  (forall k x, In (k, x) l2 -> b < k /\ In (k, x) (nenum n)) ->
  (1 <= length l1 + length l2)%nat ->
  (forall l, In l (leaves (Inner n)) ->
     firstn (d + prefixLen (nhdr n)) (ltk l) = firstn (d + prefixLen (nhdr n)) tk) ->
  nth_error tk (d + prefixLen (nhdr n)) = Some b ->
  WF (d + prefixLen (nhdr n) + 1) c' ->
  (forall l, In l (leaves c') ->
     firstn (d + prefixLen (nhdr n)) (ltk l) = firstn (d + prefixLen (nhdr n)) tk /\
     nth_error (ltk l) (d + prefixLen (nhdr n)) = Some b) ->
  WF d (Inner n') /\ leaves (Inner n') = kid_leaves l1 ++ leaves c' ++ kid_leaves l2 /\
  (forall l, In l (kid_leaves l1) -> lex_lt (ltk l) tk) /\
  (forall l, In l (kid_leaves l2) -> lex_lt tk (ltk l)).
Proof.
  intros d n n' b c' l1 l2 tk H Hn' Hh En' H1 H2 Hlen Hall Htk Hc' Hlc'.
  set (dp := (d + prefixLen (nhdr n))%nat) in *.
  assert (Hold : forall k x l, In (k, x) (nenum n) -> In l (leaves x) ->
            firstn dp (ltk l) = firstn dp tk /\ nth_error (ltk l) dp = Some k).
  { intros k x l Hin Hl. split.
    - apply Hall. apply in_leaves_inner. exists k, x. split; assumption.
    - apply (WF_leaf_long d n k x l H Hin Hl). }
  split; [|split; [|split]].
  - apply (WF_intro d n' (prefixLen (nhdr n)) (firstn dp tk)).
    + exact Hn'.
    + rewrite Hh. reflexivity.
    + rewrite En', app_length. cbn [length]. lia.
    + rewrite firstn_length. assert (dp < length tk)%nat by (apply nth_error_Some; congruence). lia.
    + rewrite Hh. apply WF_path_tk; assumption.
    + intros k x Hin. rewrite En' in Hin. apply in_app_or in Hin. destruct Hin as [Hin|[E|Hin]].
      * destruct (H1 k x Hin) as [_ Hin']. split; [apply (WF_child d n k x H Hin')|].
        intros l Hl. apply (Hold k x l Hin' Hl).
      * inversion E; subst k x. split; [exact Hc'|exact Hlc'].
      * destruct (H2 k x Hin) as [_ Hin']. split; [apply (WF_child d n k x H Hin')|].
        intros l Hl. apply (Hold k x l Hin' Hl).
  - rewrite leaves_kid, En'. apply kid_leaves_split.
  - intros l Hl. apply in_kid_leaves in Hl. destruct Hl as (k & x & Hin & Hl).
    destruct (H1 k x Hin) as [Hlt Hin']. destruct (Hold k x l Hin' Hl) as [Hf Hk].
    apply (lex_lt_at _ _ dp k b Hf Hk Htk Hlt).
  - intros l Hl. apply in_kid_leaves in Hl. destruct Hl as (k & x & Hin & Hl).
    destruct (H2 k x Hin) as [Hlt Hin']. destruct (Hold k x l Hin' Hl) as [Hf Hk].
    apply (lex_lt_at _ _ dp b k (eq_sym Hf) Htk Hk Hlt).
Qed.

Lemma firstn_min_skipn_firstn : forall (l : list N) d p m, (m <= p)%nat ->
  firstn m (skipn d (firstn (d + p) l)) = firstn m (skipn d l).
Proof.
  intros l d p m Hm. rewrite <- firstn_skipn_comm, firstn_firstn. f_equal. lia.
Qed.

(* the same node under a shortened compressed path, hanging further down *)
Lemma rehdr : forall d n d' h' lk,
  WF d (Inner n) -> length (prefix h') = maxPrefixLen ->
  (d' + prefixLen h' = d + prefixLen (nhdr n))%nat ->
  (forall l, In l (leaves (Inner n)) ->
     firstn (d + prefixLen (nhdr n)) (ltk l) = firstn (d + prefixLen (nhdr n)) lk) ->
  (d + prefixLen (nhdr n) <= length lk)%nat ->
  firstn (Nat.min (prefixLen h') maxPrefixLen) (prefix h') =
  firstn (Nat.min (prefixLen h') maxPrefixLen) (skipn d' lk) ->
  WF d' (Inner (nset_hdr n h')) /\ leaves (Inner (nset_hdr n h')) = leaves (Inner n).
Proof.
  intros d n d' h' lk H Hp Hd Hall Hlen Hi.
  pose proof (WF_inner_inv _ _ H) as (Hn & H2 & _ & _).
  destruct (nset_hdr_spec n h' Hn Hp) as (Hn' & En' & Hh').
  split; [|rewrite !leaves_kid, En'; reflexivity].
  apply (WF_intro d' _ (prefixLen h') (firstn (d' + prefixLen h') lk)).
  - exact Hn'.
  - rewrite Hh'. reflexivity.
  - rewrite En'. exact H2.
  - rewrite firstn_length. lia.
  - rewrite Hh'. rewrite firstn_min_skipn_firstn by lia. exact Hi.
  - intros b c Hin. rewrite En' in Hin. rewrite Hd.
    split; [apply (WF_child d n b c H Hin)|]. intros l Hl. split.
    + apply Hall. apply in_leaves_inner. exists b, c. split; assumption.
    + apply (WF_leaf_long d n b c l H Hin Hl).
Qed.

(* a fresh node4 over an existing subtree and a new leaf *)
Lemma mk2 : forall d p pfx c b1 b2 gk tk v,
  length pfx = maxPrefixLen ->
  WF (d + p + 1) c ->
  (forall l, In l (leaves c) ->
     firstn (d + p) (ltk l) = firstn (d + p) tk /\ nth_error (ltk l) (d + p) = Some b1) ->
  nth_error tk (d + p) = Some b2 -> b1 <> b2 -> b1 < 256 -> isbytes tk = true ->
  firstn (Nat.min p maxPrefixLen) pfx = firstn (Nat.min p maxPrefixLen) (skipn d tk) ->
  WF d (Inner (nadd (nadd (new4 (mkHdr p pfx)) b1 c) b2 (Leaf gk tk v))) /\
  leaves (Inner (nadd (nadd (new4 (mkHdr p pfx)) b1 c) b2 (Leaf gk tk v))) = ins_tk (gk, tk, v) (leaves c).
Proof.
  intros d p pfx c b1 b2 gk tk v Hp Hc Hlc Htk Hne Hb1 Hbytes Hi.
  assert (Hb2 : b2 < 256).
  { apply (proj1 (isbytes_forall tk) Hbytes). eapply nth_error_In. exact Htk. }
  unfold new4.
  destruct (empty4_spec (C := tree) (mkHdr p pfx) Hp) as (Hn0 & En0 & Hh0).
  set (n0 := empty4 (mkHdr p pfx)) in *.
  destruct (nadd_spec n0 b1 c Hn0 Hb1) as (Hn1 & En1 & Hh1); [rewrite En0; reflexivity|].
  rewrite En0 in En1. cbn [ins_sorted] in En1.
  set (n1 := nadd n0 b1 c) in *.
  destruct (nadd_spec n1 b2 (Leaf gk tk v) Hn1 Hb2) as (Hn2 & En2 & Hh2).
  { rewrite En1. cbn [assoc]. destruct (N.eqb_spec b1 b2); [contradiction|reflexivity]. }
  rewrite En1 in En2. cbn [ins_sorted] in En2.
  set (n2 := nadd n1 b2 (Leaf gk tk v)) in *.
  assert (Hh : nhdr n2 = mkHdr p pfx) by (rewrite Hh2, Hh1; exact Hh0).
  assert (Hnew : forall l, In l (leaves (Leaf gk tk v)) ->
            firstn (d + p) (ltk l) = firstn (d + p) tk /\ nth_error (ltk l) (d + p) = Some b2).
  { intros l Hl. rewrite leaves_leaf in Hl. destruct Hl as [<-|[]]. cbn [ltk fst snd]. split; [reflexivity|exact Htk]. }
  assert (Hlen : (d + p < length tk)%nat) by (apply nth_error_Some; congruence).
  split.
  - apply (WF_intro d n2 p (firstn (d + p) tk)).
    + exact Hn2.
    + rewrite Hh. reflexivity.
    + rewrite En2. destruct (b2 <? b1); cbn [length]; lia.
    + rewrite firstn_length. lia.
    + rewrite Hh. cbn [prefix]. rewrite firstn_min_skipn_firstn by lia. exact Hi.
    + intros b x Hin. rewrite En2 in Hin.
      assert (Hcases : (b, x) = (b1, c) \/ (b, x) = (b2, Leaf gk tk v)).
      { destruct (b2 <? b1); cbn [In] in Hin; intuition auto. }
      destruct Hcases as [E|E]; inversion E; subst b x.
      * split; [exact Hc|exact Hlc].
      * split; [constructor; exact Hbytes|exact Hnew].
  - rewrite leaves_kid, En2. destruct (N.ltb_spec b2 b1) as [Hlt|Hge].
    + unfold kid_leaves. cbn [flat_map snd]. rewrite leaves_leaf, app_nil_r. cbn [app].
      symmetry. apply (ins_tk_app (gk, tk, v) [] [] (leaves c)); [intros l []|].
      intros l Hl. cbn [ltk fst snd]. destruct (Hlc l Hl) as [Hf Hk].
      apply (lex_lt_at _ _ (d + p) b2 b1 (eq_sym Hf) Htk Hk Hlt).
    + unfold kid_leaves. cbn [flat_map snd]. rewrite leaves_leaf, app_nil_r.
      symmetry. pose proof (ins_tk_app (gk, tk, v) (leaves c) [] []) as E.
      cbn [app ins_tk] in E. rewrite app_nil_r in E. apply E; [|intros l []].
      intros l Hl. cbn [ltk fst snd]. destruct (Hlc l Hl) as [Hf Hk].
      apply (lex_lt_at _ _ (d + p) b1 b2 Hf Hk Htk). lia.
Qed.

(* ---- prefixMismatch finds the first position where the key leaves the path ---- *)
Lemma pm_spec : forall n tk d lm,
  minimum (Inner n) = Some (to_leaf lm) ->
  length (prefix (nhdr n)) = maxPrefixLen ->
  firstn (Nat.min (prefixLen (nhdr n)) maxPrefixLen) (prefix (nhdr n)) =
  firstn (Nat.min (prefixLen (nhdr n)) maxPrefixLen) (skipn d (ltk lm)) ->
  (d + prefixLen (nhdr n) < length (ltk lm))%nat ->
  firstn d (ltk lm) = firstn d tk -> (d <= length tk)%nat ->
  firstn (d + prefixMismatch n tk d) tk = firstn (d + prefixMismatch n tk d) (ltk lm) /\
  ((prefixMismatch n tk d < prefixLen (nhdr n))%nat ->
   (length tk <= d + prefixMismatch n tk d)%nat \/
   exists x y, nth_error (ltk lm) (d + prefixMismatch n tk d) = Some x /\
               nth_error tk (d + prefixMismatch n tk d) = Some y /\ x <> y).
Proof.
  intros n tk d lm Hmin Hpl Hi Hlong Hsh Hd.
  unfold prefixMismatch. rewrite Hmin. unfold pl_cap.
  set (p := prefixLen (nhdr n)) in *. set (pfx := prefix (nhdr n)) in *.
  replace (leaf_tk (to_leaf lm)) with (ltk lm) by reflexivity.
  set (lk := ltk lm) in *.
  set (maxCmp := Nat.min (Nat.min maxPrefixLen p) (length tk - d)).
  set (idx := lcpn maxCmp pfx (skipn d tk)).
  pose proof (lcpn_le maxCmp pfx (skipn d tk)) as Hidx. fold idx in Hidx.
  pose proof (lcpn_firstn maxCmp pfx (skipn d tk)) as Hfi. fold idx in Hfi.
  assert (Hfi' : firstn idx (skipn d tk) = firstn idx (skipn d lk)).
  { rewrite <- Hfi. apply (firstn_le_eq _ _ idx (Nat.min p maxPrefixLen)); [lia|exact Hi]. }
  assert (Hagree : firstn (d + idx) tk = firstn (d + idx) lk).
  { apply firstn_add_eq; [symmetry; exact Hsh|exact Hfi']. }
  destruct (Nat.ltb_spec idx maxCmp) as [Hlt|Hge].
  - split; [exact Hagree|]. intros _. right.
    destruct (lcpn_stop maxCmp pfx (skipn d tk) Hlt) as (x & y & Hx & Hy & Hxy).
    { lia. } { rewrite skipn_length. lia. }
    fold idx in Hx, Hy. exists x, y. split; [|split; [|exact Hxy]].
    + rewrite <- Hx, <- nth_error_skipn_add. symmetry.
      apply (firstn_eq_nth_error _ _ (Nat.min p maxPrefixLen)); [lia|exact Hi].
    + rewrite <- Hy. symmetry. apply nth_error_skipn_add.
  - assert (Eidx : idx = maxCmp) by lia.
    destruct (Nat.ltb_spec maxPrefixLen p) as [Hbig|Hsmall].
    + set (m2 := (Nat.min (length lk) (length tk) - d - idx)%nat).
      set (j := lcpn m2 (skipn (d + idx) lk) (skipn (d + idx) tk)).
      pose proof (lcpn_le m2 (skipn (d + idx) lk) (skipn (d + idx) tk)) as Hj. fold j in Hj.
      pose proof (lcpn_firstn m2 (skipn (d + idx) lk) (skipn (d + idx) tk)) as Hfj. fold j in Hfj.
      rewrite Nat.add_assoc. split.
      * apply firstn_add_eq; [exact Hagree|symmetry; exact Hfj].
      * intros HP. destruct (Nat.ltb_spec j m2) as [Hjlt|Hjge].
        -- right. destruct (lcpn_stop m2 (skipn (d + idx) lk) (skipn (d + idx) tk) Hjlt) as (x & y & Hx & Hy & Hxy).
           { rewrite skipn_length. lia. } { rewrite skipn_length. lia. }
           fold j in Hx, Hy. rewrite nth_error_skipn_add in Hx, Hy.
           exists x, y. split; [exact Hx|]. split; [exact Hy|exact Hxy].
        -- left. lia.
    + split; [exact Hagree|]. intros HP. left. lia.
Qed.

(* ---- the statement, as a predicate on the fuel ---- *)
Definition insert_ok (fuel : nat) : Prop := forall t gk tk v d,
  WF d t -> isbytes tk = true ->
  shares d tk (leaves t) ->
  compat gk tk (leaves t) -> pfree tk (leaves t) ->
  (d <= length tk)%nat -> (length tk + 2 <= fuel + d)%nat ->
  exists t', insert fuel t gk tk v d = IDone t' (negb (mem_gk gk (leaves t))) /\
             WF d t' /\ leaves t' = upsert gk tk v (leaves t).

Lemma compat_sub : forall gk tk cs cs', (forall l, In l cs' -> In l cs) -> compat gk tk cs -> compat gk tk cs'.
Proof. intros gk tk cs cs' Hs H l Hl. apply H. apply Hs. exact Hl. Qed.
Lemma pfree_sub : forall tk cs cs', (forall l, In l cs' -> In l cs) -> pfree tk cs -> pfree tk cs'.
Proof. intros tk cs cs' Hs H l Hl. apply H. apply Hs. exact Hl. Qed.

(* the key follows the whole compressed path: descend or add a leaf *)
Lemma descend_ok : forall f n gk tk v d,
  insert_ok f -> WF d (Inner n) -> isbytes tk = true ->
  compat gk tk (leaves (Inner n)) -> pfree tk (leaves (Inner n)) ->
  (forall l, In l (leaves (Inner n)) ->
     firstn (d + prefixLen (nhdr n)) (ltk l) = firstn (d + prefixLen (nhdr n)) tk) ->
  (length tk + 2 <= S f + d)%nat ->
  exists t',
    match nth_error tk (d + prefixLen (nhdr n)) with
    | None => IDone (Inner n) false
    | Some b =>
      match nfind n b with
      | Some c =>
        match insert f c gk tk v (S (d + prefixLen (nhdr n))) with
        | IDone c' added => IDone (Inner (nreplace n b c')) added
        | r => r
        end
      | None => IDone (Inner (nadd n b (Leaf gk tk v))) true
      end
    end = IDone t' (negb (mem_gk gk (leaves (Inner n)))) /\
    WF d t' /\ leaves t' = upsert gk tk v (leaves (Inner n)).
Proof.
  intros f n gk tk v d IH H Hb Hco Hpf Hall Hfuel.
  pose proof (WF_inner_inv _ _ H) as (Hn & H2 & _ & _).
  pose proof (nenum_sorted n Hn) as Hks. destruct Hks as [Hss Hk256].
  set (dp := (d + prefixLen (nhdr n))%nat) in *.
  destruct (nth_error tk dp) as [b|] eqn:Htk.
  2:{ exfalso. apply nth_error_None in Htk.
      pose proof (WF_nonempty _ _ H) as Hne.
      destruct (leaves (Inner n)) as [|l0 rest] eqn:E; [congruence|].
      assert (Hl0 : In l0 (leaves (Inner n))) by (rewrite E; left; reflexivity).
      rewrite <- E in *. clear E.
      pose proof (Hall l0 Hl0) as Hf. rewrite (firstn_all2 tk Htk) in Hf.
      apply in_leaves_inner in Hl0. destruct Hl0 as (b0 & c0 & Hin0 & Hl0').
      destruct (WF_leaf_long d n b0 c0 l0 H Hin0 Hl0') as [_ Hlong]. fold dp in Hlong.
      assert (Hl0 : In l0 (leaves (Inner n))) by (apply in_leaves_inner; exists b0, c0; split; assumption).
      assert (Hneq : ltk l0 <> tk) by (intros E; rewrite E in Hlong; lia).
      destruct (Hpf l0 Hl0 Hneq) as [Hp1 _]. apply Hp1. rewrite <- Hf. apply firstn_is_prefix. }
  assert (Hb256 : b < 256).
  { apply (proj1 (isbytes_forall tk) Hb). eapply nth_error_In. exact Htk. }
  assert (Hlen : (dp < length tk)%nat) by (apply nth_error_Some; congruence).
  rewrite (nfind_spec n b Hn Hb256).
  assert (Hgk : forall l, In l (leaves (Inner n)) -> ltk l <> tk -> lgk l <> gk).
  { intros l Hl Hne E. apply Hne. apply (Hco l Hl). exact E. }
  destruct (assoc b (nenum n)) as [c|] eqn:Ea.
  - assert (Hin : In (b, c) (nenum n)) by (apply assoc_in; exact Ea).
    destruct (in_split_sorted b c (nenum n) Hss Hin) as (l1 & l2 & En & Hl1 & Hl2).
    destruct (WF_child d n b c H Hin) as [Hc HFc]. fold dp in Hc, HFc.
    rewrite Forall_forall in HFc.
    assert (Hsub : forall l, In l (leaves c) -> In l (leaves (Inner n))).
    { intros l Hl. apply in_leaves_inner. exists b, c. split; assumption. }
    replace (S dp) with (dp + 1)%nat by lia.
    destruct (IH c gk tk v (dp + 1)%nat Hc Hb) as (c' & Eins & Hc' & Elc').
    { apply Forall_forall. intros l Hl. rewrite Nat.add_1_r.
      rewrite (firstn_S_snoc _ _ _ (HFc l Hl)), (firstn_S_snoc _ _ _ Htk), (Hall l (Hsub l Hl)). reflexivity. }
    { apply (compat_sub _ _ _ _ Hsub Hco). }
    { apply (pfree_sub _ _ _ Hsub Hpf). }
    { lia. } { lia. }
    rewrite Eins.
    destruct (nreplace_spec n b c' Hn Hb256) as (Hn' & En' & Hh' & _); [congruence|].
    rewrite En in En'. rewrite repl_key_split in En'.
    2:{ intros k x Hk. specialize (Hl1 k x Hk). lia. }
    destruct (rebuild d n (nreplace n b c') b c' l1 l2 tk H Hn' Hh' En') as (Hw & El & HA & HC).
    { intros k x Hk. split; [apply (Hl1 k x Hk)|]. rewrite En. apply in_or_app. left. exact Hk. }
    { intros k x Hk. split; [apply (Hl2 k x Hk)|]. rewrite En. apply in_or_app. right. right. exact Hk. }
    { rewrite En, app_length in H2. cbn [length] in H2. lia. }
    { exact Hall. } { exact Htk. } { exact Hc'. }
    { intros l Hl. rewrite Elc' in Hl. apply in_upsert_tk in Hl. destruct Hl as [E|(l0 & Hl0 & E)].
      - rewrite E. split; [reflexivity|exact Htk].
      - rewrite <- E. split; [apply Hall, Hsub, Hl0|apply HFc, Hl0]. }
    assert (Eold : leaves (Inner n) = kid_leaves l1 ++ leaves c ++ kid_leaves l2).
    { rewrite leaves_kid, En. apply kid_leaves_split. }
    assert (HinA : forall l, In l (kid_leaves l1) -> In l (leaves (Inner n))).
    { intros l Hl. rewrite Eold. apply in_or_app. left. exact Hl. }
    assert (HinC : forall l, In l (kid_leaves l2) -> In l (leaves (Inner n))).
    { intros l Hl. rewrite Eold. apply in_or_app. right. apply in_or_app. right. exact Hl. }
    destruct (upsert_mid gk tk v (kid_leaves l1) (leaves c) (kid_leaves l2)) as [Em Eu].
    { intros l Hl. specialize (HA l Hl). split; [|exact HA]. apply (Hgk l (HinA l Hl)).
      intros E. rewrite E in HA. apply (lex_lt_irrefl _ HA). }
    { intros l Hl. specialize (HC l Hl). split; [|exact HC]. apply (Hgk l (HinC l Hl)).
      intros E. rewrite E in HC. apply (lex_lt_irrefl _ HC). }
    exists (Inner (nreplace n b c')). rewrite Eold, Em, Eu, El, Elc'.
    split; [reflexivity|]. split; [exact Hw|reflexivity].
  - destruct (ins_sorted_split b (Leaf gk tk v) (nenum n) Hss Ea) as (l1 & l2 & En & Eins & Hl1 & Hl2).
    destruct (nadd_spec n b (Leaf gk tk v) Hn Hb256 Ea) as (Hn' & En' & Hh').
    rewrite Eins in En'.
    destruct (rebuild d n (nadd n b (Leaf gk tk v)) b (Leaf gk tk v) l1 l2 tk H Hn' Hh' En') as (Hw & El & HA & HC).
    { intros k x Hk. split; [apply (Hl1 k x Hk)|]. rewrite En. apply in_or_app. left. exact Hk. }
    { intros k x Hk. split; [apply (Hl2 k x Hk)|]. rewrite En. apply in_or_app. right. exact Hk. }
    { rewrite En, app_length in H2. lia. }
    { exact Hall. } { exact Htk. } { constructor. exact Hb. }
    { intros l Hl. rewrite leaves_leaf in Hl. destruct Hl as [<-|[]]. cbn [ltk fst snd].
      split; [reflexivity|exact Htk]. }
    assert (Eold : leaves (Inner n) = kid_leaves l1 ++ [] ++ kid_leaves l2).
    { rewrite leaves_kid, En. apply kid_leaves_app. }
    assert (HinA : forall l, In l (kid_leaves l1) -> In l (leaves (Inner n))).
    { intros l Hl. rewrite Eold. apply in_or_app. left. exact Hl. }
    assert (HinC : forall l, In l (kid_leaves l2) -> In l (leaves (Inner n))).
    { intros l Hl. rewrite Eold. apply in_or_app. right. exact Hl. }
    destruct (upsert_mid gk tk v (kid_leaves l1) [] (kid_leaves l2)) as [Em Eu].
    { intros l Hl. specialize (HA l Hl). split; [|exact HA]. apply (Hgk l (HinA l Hl)).
      intros E. rewrite E in HA. apply (lex_lt_irrefl _ HA). }
    { intros l Hl. specialize (HC l Hl). split; [|exact HC]. apply (Hgk l (HinC l Hl)).
      intros E. rewrite E in HC. apply (lex_lt_irrefl _ HC). }
    exists (Inner (nadd n b (Leaf gk tk v))). rewrite Eold, Em, Eu, El, leaves_leaf.
    split; [reflexivity|]. split; [exact Hw|reflexivity].
Qed.

Lemma skipn_skipn_add : forall {A} (l : list A) a b, skipn a (skipn b l) = skipn (b + a) l.
Proof.
  intros A l a b. revert l. induction b as [|b IH]; intros l; [reflexivity|].
  destruct l as [|x l]; [rewrite !skipn_nil; reflexivity|]. cbn [skipn Nat.add]. apply IH.
Qed.

(* what the minimum leaf (any leaf) tells about the compressed path *)
Lemma leaf_path_facts : forall d n lm, WF d (Inner n) -> In lm (leaves (Inner n)) ->
  (d + prefixLen (nhdr n) < length (ltk lm))%nat /\
  (forall l, In l (leaves (Inner n)) ->
     firstn (d + prefixLen (nhdr n)) (ltk l) = firstn (d + prefixLen (nhdr n)) (ltk lm)) /\
  firstn (Nat.min (prefixLen (nhdr n)) maxPrefixLen) (prefix (nhdr n)) =
  firstn (Nat.min (prefixLen (nhdr n)) maxPrefixLen) (skipn d (ltk lm)).
Proof.
  intros d n lm H Hlm. destruct (WF_path _ _ H) as (q & Hq & Hall & Hi).
  split; [|split].
  - apply in_leaves_inner in Hlm. destruct Hlm as (b & c & Hin & Hl).
    apply (WF_leaf_long d n b c lm H Hin Hl).
  - intros l Hl. rewrite (Hall l Hl), (Hall lm Hlm). reflexivity.
  - rewrite Hi, <- (Hall lm Hlm). apply firstn_min_skipn_firstn. lia.
Qed.

(* the key leaves the compressed path at position P: split the path *)
Lemma split_ok : forall n gk tk v d lm P x y,
  WF d (Inner n) -> isbytes tk = true -> compat gk tk (leaves (Inner n)) ->
  minimum (Inner n) = Some (to_leaf lm) -> In lm (leaves (Inner n)) ->
  (P < prefixLen (nhdr n))%nat ->
  firstn (d + P) tk = firstn (d + P) (ltk lm) ->
  nth_error (ltk lm) (d + P) = Some x -> nth_error tk (d + P) = Some y -> x <> y ->
  exists t',
    (let h := nhdr n in
     let nn := new4 (mkHdr P (prefix h)) in
     let r :=
       if (prefixLen h <=? maxPrefixLen)%nat then
         match nth_error (prefix h) P with
         | None => None
         | Some b =>
           let lo := S P in
           Some (nadd nn b (Inner (nset_hdr n (mkHdr (prefixLen h - lo)
                                               (copy_into (prefix h) (skipn lo (prefix h)))))))
         end
       else
         let leafKey := match minimum (Inner n) with Some l => leaf_tk l | None => [] end in
         match nth_error leafKey (d + P) with
         | None => None
         | Some b =>
           let lo := (d + P + 1)%nat in
           Some (nadd nn b (Inner (nset_hdr n (mkHdr (prefixLen h - (P + 1))
                                               (copy_into (prefix h) (skipn lo leafKey))))))
         end in
     match r with
     | None => IPanic
     | Some nn =>
       match nth_error tk (d + P) with
       | None => IDone (Inner nn) false
       | Some b => IDone (Inner (nadd nn b (Leaf gk tk v))) true
       end
     end) = IDone t' (negb (mem_gk gk (leaves (Inner n)))) /\
    WF d t' /\ leaves t' = upsert gk tk v (leaves (Inner n)).
Proof.
  intros n gk tk v d lm P x y H Hb Hco Hmin Hlm HP Hagree Hx Hy Hxy.
  pose proof (WF_inner_inv _ _ H) as (Hn & _ & _ & _).
  pose proof (proj1 Hn) as Hpl.
  destruct (leaf_path_facts d n lm H Hlm) as (Hlong & Hall & Hi).
  set (p := prefixLen (nhdr n)) in *. set (pfx := prefix (nhdr n)) in *. set (lk := ltk lm) in *.
  cbv zeta. fold p pfx.
  assert (Hr : exists h',
    (if (p <=? maxPrefixLen)%nat then
       match nth_error pfx P with
       | None => None
       | Some b => Some (nadd (new4 (mkHdr P pfx)) b (Inner (nset_hdr n (mkHdr (p - S P)
                                               (copy_into pfx (skipn (S P) pfx))))))
       end
     else
       match nth_error (match minimum (Inner n) with Some l => leaf_tk l | None => [] end) (d + P) with
       | None => None
       | Some b => Some (nadd (new4 (mkHdr P pfx)) b (Inner (nset_hdr n (mkHdr (p - (P + 1))
                 (copy_into pfx (skipn (d + P + 1) (match minimum (Inner n) with Some l => leaf_tk l | None => [] end)))))))
       end) = Some (nadd (new4 (mkHdr P pfx)) x (Inner (nset_hdr n h'))) /\
    length (prefix h') = maxPrefixLen /\ (d + P + 1 + prefixLen h' = d + p)%nat /\
    firstn (Nat.min (prefixLen h') maxPrefixLen) (prefix h') =
    firstn (Nat.min (prefixLen h') maxPrefixLen) (skipn (d + P + 1) lk)).
  { destruct (Nat.leb_spec p maxPrefixLen) as [Hsmall|Hbig].
    - exists (mkHdr (p - S P) (copy_into pfx (skipn (S P) pfx))).
      rewrite Nat.min_l in Hi by exact Hsmall.
      assert (E : nth_error pfx P = Some x).
      { rewrite <- Hx, <- nth_error_skipn_add. apply (firstn_eq_nth_error _ _ p); [exact HP|exact Hi]. }
      rewrite E. cbn [prefix prefixLen]. split; [reflexivity|].
      split; [rewrite copy_into_length; exact Hpl|]. split; [lia|].
      rewrite Nat.min_l by lia.
      rewrite copy_into_firstn; [|lia|rewrite skipn_length; lia].
      replace (skipn (d + P + 1) lk) with (skipn (S P) (skipn d lk))
        by (rewrite skipn_skipn_add; f_equal; lia).
      rewrite (firstn_skipn_comm (p - S P) (S P) pfx), (firstn_skipn_comm (p - S P) (S P) (skipn d lk)).
      replace (S P + (p - S P))%nat with p by lia.
      rewrite Hi. reflexivity.
    - exists (mkHdr (p - (P + 1)) (copy_into pfx (skipn (d + P + 1) lk))).
      rewrite Hmin. replace (leaf_tk (to_leaf lm)) with lk by reflexivity.
      rewrite Hx. cbn [prefix prefixLen]. split; [reflexivity|].
      split; [rewrite copy_into_length; exact Hpl|]. split; [lia|].
      apply copy_into_firstn; [lia|rewrite skipn_length; lia]. }
  destruct Hr as (h' & Er & Hpl' & Hd' & Hi').
  rewrite Er, Hy.
  destruct (rehdr d n (d + P + 1)%nat h' lk H Hpl' Hd' Hall) as [Hwc Elc]; [lia|exact Hi'|].
  assert (Hx256 : x < 256).
  { pose proof (WF_isbytes _ _ H) as HF. rewrite Forall_forall in HF.
    apply (proj1 (isbytes_forall lk) (HF lm Hlm)). eapply nth_error_In. exact Hx. }
  assert (Hleaf : forall l, In l (leaves (Inner n)) ->
            firstn (d + P) (ltk l) = firstn (d + P) tk /\ nth_error (ltk l) (d + P) = Some x).
  { intros l Hl. pose proof (Hall l Hl) as Hf. split.
    - rewrite Hagree. apply (firstn_le_eq _ _ (d + P)%nat (d + p)%nat); [lia|exact Hf].
    - rewrite <- Hx. apply (firstn_eq_nth_error _ _ (d + p)%nat); [lia|exact Hf]. }
  destruct (mk2 d P pfx (Inner (nset_hdr n h')) x y gk tk v Hpl Hwc) as [Hw El].
  { intros l Hl. rewrite Elc in Hl. apply (Hleaf l Hl). }
  { exact Hy. } { exact Hxy. } { exact Hx256. } { exact Hb. }
  { assert (E1 : firstn (Nat.min P maxPrefixLen) pfx = firstn (Nat.min P maxPrefixLen) (skipn d lk)).
    { apply (firstn_le_eq _ _ _ (Nat.min p maxPrefixLen)); [lia|exact Hi]. }
    rewrite E1. symmetry. apply (firstn_le_eq _ _ _ P); [lia|].
    apply firstn_skipn_of_add. exact Hagree. }
  assert (Em : mem_gk gk (leaves (Inner n)) = false).
  { apply mem_gk_false. intros l Hl E. apply (Hco l Hl) in E.
    destruct (Hleaf l Hl) as [_ Hk]. rewrite E in Hk. congruence. }
  eexists. split; [rewrite Em; reflexivity|]. split; [exact Hw|].
  rewrite El, Elc. unfold upsert. rewrite Em. reflexivity.
Qed.

(* ---- the leaf case: overwrite or split the leaf ---- *)
Lemma leaf_ok : forall f lgk0 ltk0 lv0 gk tk v d,
  WF d (Leaf lgk0 ltk0 lv0) -> isbytes tk = true ->
  shares d tk (leaves (Leaf lgk0 ltk0 lv0)) ->
  compat gk tk (leaves (Leaf lgk0 ltk0 lv0)) -> pfree tk (leaves (Leaf lgk0 ltk0 lv0)) ->
  (d <= length tk)%nat ->
  exists t', insert (S f) (Leaf lgk0 ltk0 lv0) gk tk v d =
               IDone t' (negb (mem_gk gk (leaves (Leaf lgk0 ltk0 lv0)))) /\
             WF d t' /\ leaves t' = upsert gk tk v (leaves (Leaf lgk0 ltk0 lv0)).
Proof.
  intros f lgk0 ltk0 lv0 gk tk v d H Hb Hsh Hco Hpf Hd.
  rewrite leaves_leaf in *.
  assert (Hb0 : isbytes ltk0 = true) by (inversion H; assumption).
  assert (Hmem : mem_gk gk [(lgk0, ltk0, lv0)] = beq lgk0 gk).
  { unfold mem_gk. cbn [existsb lgk fst]. apply orb_false_r. }
  cbn [insert]. rewrite (beq_sym gk lgk0). unfold upsert. rewrite Hmem.
  destruct (beq lgk0 gk) eqn:E.
  - exists (Leaf lgk0 ltk0 v). split; [reflexivity|]. split; [constructor; exact Hb0|].
    rewrite leaves_leaf. unfold set_v. cbn [map lgk ltk fst snd]. rewrite E. reflexivity.
  - apply beq_neq in E.
    assert (Hin : In (lgk0, ltk0, lv0) [(lgk0, ltk0, lv0)]) by (left; reflexivity).
    assert (Hne : ltk0 <> tk).
    { intros E'. apply E. apply (Hco _ Hin). exact E'. }
    destruct (Hpf _ Hin Hne) as [Hp1 Hp2]. cbn [ltk fst snd] in Hp1, Hp2.
    pose proof (Forall_inv Hsh) as Hs. cbn [ltk fst snd] in Hs.
    unfold longestCommonPrefix.
    set (m := (Nat.min (length ltk0) (length tk) - d)%nat).
    set (lp := lcpn m (skipn d ltk0) (skipn d tk)).
    pose proof (lcpn_le m (skipn d ltk0) (skipn d tk)) as Hle. fold lp in Hle.
    pose proof (lcpn_firstn m (skipn d ltk0) (skipn d tk)) as Hf. fold lp in Hf.
    assert (Hagree : firstn (d + lp) ltk0 = firstn (d + lp) tk) by (apply firstn_add_eq; assumption).
    assert (Hlt : (lp < m)%nat).
    { destruct (Nat.ltb_spec lp m) as [Hlt|Hge]; [exact Hlt|]. exfalso.
      destruct (Nat.le_ge_cases (length ltk0) (length tk)) as [Hc|Hc].
      - apply Hp2. rewrite (firstn_all2 ltk0) in Hagree by lia. rewrite Hagree. apply firstn_is_prefix.
      - apply Hp1. rewrite (firstn_all2 tk) in Hagree by lia. rewrite <- Hagree. apply firstn_is_prefix. }
    destruct (lcpn_stop m (skipn d ltk0) (skipn d tk) Hlt) as (x & y & Hx & Hy & Hxy).
    { rewrite skipn_length. lia. } { rewrite skipn_length. lia. }
    fold lp in Hx, Hy. rewrite nth_error_skipn_add in Hx, Hy. rewrite Hx, Hy.
    assert (Hx256 : x < 256).
    { apply (proj1 (isbytes_forall ltk0) Hb0). eapply nth_error_In. exact Hx. }
    destruct (mk2 d lp (copy_into (prefix hdr0) (skipn d tk)) (Leaf lgk0 ltk0 lv0) x y gk tk v) as [Hw El].
    { rewrite copy_into_length. unfold hdr0. cbn [prefix]. apply repeat_length. }
    { constructor. exact Hb0. }
    { intros l Hl. rewrite leaves_leaf in Hl. destruct Hl as [<-|[]]. cbn [ltk fst snd].
      split; [exact Hagree|exact Hx]. }
    { exact Hy. } { exact Hxy. } { exact Hx256. } { exact Hb. }
    { apply copy_into_firstn.
      - unfold hdr0. cbn [prefix]. rewrite repeat_length. lia.
      - rewrite skipn_length. lia. }
    eexists. split; [reflexivity|]. split; [exact Hw|]. rewrite El, leaves_leaf. reflexivity.
Qed.

Theorem insert_gen : forall fuel t gk tk v d,
  WF d t -> isbytes tk = true ->
  shares d tk (leaves t) ->
  compat gk tk (leaves t) -> pfree tk (leaves t) ->
  (d <= length tk)%nat -> (length tk + 2 <= fuel + d)%nat ->
  exists t', insert fuel t gk tk v d = IDone t' (negb (mem_gk gk (leaves t))) /\
             WF d t' /\ leaves t' = upsert gk tk v (leaves t).
Proof.
  induction fuel as [|f IH]; intros t gk tk v d H Hb Hsh Hco Hpf Hd Hfuel; [lia|].
  destruct t as [lgk0 ltk0 lv0|n]; [apply leaf_ok; assumption|].
  destruct (minimum_in _ _ H) as (lm & Hmin & Hlm).
  pose proof (WF_inner_inv _ _ H) as (Hn & _ & _ & _).
  pose proof (proj1 Hn) as Hpl.
  destruct (leaf_path_facts d n lm H Hlm) as (Hlong & Hall & Hi).
  assert (Hshm : firstn d (ltk lm) = firstn d tk).
  { unfold shares in Hsh. rewrite Forall_forall in Hsh. apply Hsh. exact Hlm. }
  destruct (pm_spec n tk d lm Hmin Hpl Hi Hlong Hshm Hd) as [HPa HPb].
  cbn [insert].
  set (p := prefixLen (nhdr n)) in *.
  assert (Hdesc : firstn (d + p) tk = firstn (d + p) (ltk lm) ->
    exists t',
      match nth_error tk (d + p) with
      | None => IDone (Inner n) false
      | Some b =>
        match nfind n b with
        | Some c =>
          match insert f c gk tk v (S (d + p)) with
          | IDone c' added => IDone (Inner (nreplace n b c')) added
          | r => r
          end
        | None => IDone (Inner (nadd n b (Leaf gk tk v))) true
        end
      end = IDone t' (negb (mem_gk gk (leaves (Inner n)))) /\
      WF d t' /\ leaves t' = upsert gk tk v (leaves (Inner n))).
  { intros Hfull. apply (descend_ok f n gk tk v d IH H Hb Hco Hpf); [|exact Hfuel].
    intros l Hl. fold p. rewrite Hfull. apply Hall. exact Hl. }
  destruct (Nat.eqb_spec p 0) as [Ep|Ep].
  - cbn [negb andb]. apply Hdesc. rewrite Ep, Nat.add_0_r. symmetry. exact Hshm.
  - cbn [negb andb]. destruct (Nat.ltb_spec (prefixMismatch n tk d) p) as [Hlt|Hge].
    + destruct (HPb Hlt) as [Hshort|(x & y & Hx & Hy & Hxy)].
      * exfalso. rewrite (firstn_all2 tk) in HPa by exact Hshort.
        assert (Hneq : ltk lm <> tk) by (intros E; rewrite E in Hlong; lia).
        destruct (Hpf lm Hlm Hneq) as [Hp1 _]. apply Hp1. rewrite HPa. apply firstn_is_prefix.
      * apply (split_ok n gk tk v d lm (prefixMismatch n tk d) x y); assumption.
    + apply Hdesc. apply (firstn_le_eq _ _ (d + p)%nat (d + prefixMismatch n tk d)%nat); [lia|exact HPa].
Qed.

Corollary insert_spec : forall t gk tk v,
  WF 0 t -> isbytes tk = true -> compat gk tk (leaves t) -> pfree tk (leaves t) ->
  exists t', insert (S (S (length tk))) t gk tk v 0 = IDone t' (negb (mem_gk gk (leaves t))) /\
             WF 0 t' /\ leaves t' = upsert gk tk v (leaves t).
Proof.
  intros t gk tk v H Hb Hco Hpf. apply insert_gen; try assumption; try lia.
  unfold shares. apply Forall_forall. intros l _. reflexivity.
Qed.
