(* Proofs/TranslateApiFacts.v, part 4 of 5: All, Backward, TopK, BottomK, Minimum, Maximum, Size of the six trees *)
From GoArt Require Import Base.Bytes Model.Node4 Model.Node16 Model.Node Model.Tree Model.Iter Model.Api
  Spec.NodeSpec Spec.TreeSpec Spec.IterSpec Proofs.BytesFacts Proofs.Node4Facts Proofs.NodeFacts Proofs.TreeBasics Proofs.NodeAux48
  Proofs.NodeAuxAssoc Proofs.NodeAuxArr Proofs.InsertFacts Proofs.IterFacts Spec.Ideal Proofs.PropFacts Proofs.TranslateFacts.
From GoArt Require Import Proofs.RangeFacts Proofs.ApiFacts Model.Pool Proofs.PoolFacts Model.PoolTree Proofs.PoolTreeFacts.
From GoArt Require Import Model.GoArith Model.GoTree Gen.Node4Gen Gen.Node16Gen Gen.TreeGen Proofs.TranslateTreeFacts
  Gen.IterGen Proofs.TranslateIterFacts Gen.ApiGen.
From GoArt Require Import Proofs.TranslateApiBase.
From Coq Require Import ZifyN ZifyNat ZifyBool.
Ltac Zify.zify_post_hook ::= Z.div_mod_to_equations.
Open Scope N_scope.

(* ================= 7. All, Backward, TopK, BottomK, Minimum, Maximum, Size: the six instances ================= *)
Definition gint_out (r : gres Z) : out := match r with GRet z => OSize z | GPanic => OPanic | GFuel => OFuel end.

Section PlainWrap.   (* unsigned, signed, float, compound: restoreKey is the template text without AddNullByte *)
Variable k : Api.kind.
Hypothesis Hk : plain_kind k = true.
Let R := ref_restoreKey (mrs k).
Let HR : restore_ok idk idk k R any_key := ref_restoreKey_ok k Hk.

Lemma plain_all : forall st fa ans, sinv st -> (forall t, xroot st = Some t -> fa = walk_fuel (tabs t)) ->
  kres_out idk (seq_kv R (g_all fa (xroot st) ans)) = seq_out k (run_all (root (sabs st)) ans).
Proof. intros st fa ans Hs Hf. rewrite (all_out idk idk k R any_key HR st fa ans Hs (keys_ok_any st) Hf). apply out_keymap_id. Qed.
Lemma plain_backward : forall st fb ans, sinv st -> (forall t, xroot st = Some t -> fb = walk_fuel (tabs t)) ->
  kres_out idk (seq_kv R (g_backward fb (xroot st) ans)) = seq_out k (run_backward (root (sabs st)) ans).
Proof. intros st fb ans Hs Hf. rewrite (backward_out idk idk k R any_key HR st fb ans Hs (keys_ok_any st) Hf). apply out_keymap_id. Qed.
Lemma plain_topk : forall st fa fb n ans, sinv st -> n < 2 ^ 64 -> (forall t, xroot st = Some t -> fb = walk_fuel (tabs t)) ->
  kres_out idk (seq_kv R (g_topK (g_all fa (xroot st)) (g_backward fb (xroot st)) n ans)) =
  seq_out k (run_bounded (run_backward (root (sabs st))) n ans).
Proof. intros st fa fb n ans Hs Hn Hf. rewrite (topk_out idk idk k R any_key HR st fa fb n ans Hs (keys_ok_any st) Hn Hf). apply out_keymap_id. Qed.
Lemma plain_bottomk : forall st fa fb n ans, sinv st -> n < 2 ^ 64 -> (forall t, xroot st = Some t -> fa = walk_fuel (tabs t)) ->
  kres_out idk (seq_kv R (g_bottomK (g_all fa (xroot st)) (g_backward fb (xroot st)) n ans)) =
  seq_out k (run_bounded (run_all (root (sabs st))) n ans).
Proof. intros st fa fb n ans Hs Hn Hf. rewrite (bottomk_out idk idk k R any_key HR st fa fb n ans Hs (keys_ok_any st) Hn Hf). apply out_keymap_id. Qed.
Lemma plain_minimum : forall st fm, sinv st -> root_wf (sabs st) -> (forall t, xroot st = Some t -> fm = theight (tabs t)) ->
  gopt_out idk (ref_extreme R g_minimum fm (xroot st)) = snd (step k (sabs st) Minimum).
Proof. intros st fm Hs Hw Hf. rewrite (minimum_out idk idk k R any_key HR st fm Hs Hw (keys_ok_any st) Hf). apply out_keymap_id. Qed.
Lemma plain_maximum : forall st fm, sinv st -> root_wf (sabs st) -> (forall t, xroot st = Some t -> fm = theight (tabs t)) ->
  gopt_out idk (ref_extreme R g_maximum fm (xroot st)) = snd (step k (sabs st) Maximum).
Proof. intros st fm Hs Hw Hf. rewrite (maximum_out idk idk k R any_key HR st fm Hs Hw (keys_ok_any st) Hf). apply out_keymap_id. Qed.
End PlainWrap.

(* ---- unsignedSortedTree ---- *)
Theorem gen_unsigned_all_eq : forall w st fa ans, sinv st -> (forall t, xroot st = Some t -> fa = walk_fuel (tabs t)) ->
  kres_out idk (g_unsigned_All akey (mtr (KUnsigned w)) (mrs (KUnsigned w)) fa (xroot st) ans) = seq_out (KUnsigned w) (run_all (root (sabs st)) ans).
Proof. intros w st fa ans Hs Hf. unfold g_unsigned_All. rewrite gen_unsigned_restoreKey_eq. apply (plain_all (KUnsigned w) eq_refl); assumption. Qed.
Theorem gen_unsigned_backward_eq : forall w st fb ans, sinv st -> (forall t, xroot st = Some t -> fb = walk_fuel (tabs t)) ->
  kres_out idk (g_unsigned_Backward akey (mtr (KUnsigned w)) (mrs (KUnsigned w)) fb (xroot st) ans) = seq_out (KUnsigned w) (run_backward (root (sabs st)) ans).
Proof. intros w st fb ans Hs Hf. unfold g_unsigned_Backward. rewrite gen_unsigned_restoreKey_eq. apply (plain_backward (KUnsigned w) eq_refl); assumption. Qed.
Theorem gen_unsigned_topk_eq : forall w st fa fb n ans, sinv st -> n < 2 ^ 64 -> (forall t, xroot st = Some t -> fb = walk_fuel (tabs t)) ->
  kres_out idk (g_unsigned_TopK akey (mtr (KUnsigned w)) (mrs (KUnsigned w)) fa fb (xroot st) n ans) = seq_out (KUnsigned w) (run_bounded (run_backward (root (sabs st))) n ans).
Proof. intros w st fa fb n ans Hs Hn Hf. unfold g_unsigned_TopK. rewrite gen_unsigned_restoreKey_eq. apply (plain_topk (KUnsigned w) eq_refl); assumption. Qed.
Theorem gen_unsigned_bottomk_eq : forall w st fa fb n ans, sinv st -> n < 2 ^ 64 -> (forall t, xroot st = Some t -> fa = walk_fuel (tabs t)) ->
  kres_out idk (g_unsigned_BottomK akey (mtr (KUnsigned w)) (mrs (KUnsigned w)) fa fb (xroot st) n ans) = seq_out (KUnsigned w) (run_bounded (run_all (root (sabs st))) n ans).
Proof. intros w st fa fb n ans Hs Hn Hf. unfold g_unsigned_BottomK. rewrite gen_unsigned_restoreKey_eq. apply (plain_bottomk (KUnsigned w) eq_refl); assumption. Qed.
Lemma unsigned_minimum_text : forall K tr rs, g_unsigned_Minimum K tr rs = ref_extreme (g_unsigned_restoreKey K tr rs) g_minimum.
Proof. reflexivity. Qed.
Lemma unsigned_maximum_text : forall K tr rs, g_unsigned_Maximum K tr rs = ref_extreme (g_unsigned_restoreKey K tr rs) g_maximum.
Proof. reflexivity. Qed.
Theorem gen_unsigned_minimum_eq : forall w st fm, sinv st -> root_wf (sabs st) -> (forall t, xroot st = Some t -> fm = theight (tabs t)) ->
  gopt_out idk (g_unsigned_Minimum akey (mtr (KUnsigned w)) (mrs (KUnsigned w)) fm (xroot st)) = snd (step (KUnsigned w) (sabs st) Minimum).
Proof. intros w st fm Hs Hw Hf. rewrite unsigned_minimum_text, gen_unsigned_restoreKey_eq. apply (plain_minimum (KUnsigned w) eq_refl); assumption. Qed.
Theorem gen_unsigned_maximum_eq : forall w st fm, sinv st -> root_wf (sabs st) -> (forall t, xroot st = Some t -> fm = theight (tabs t)) ->
  gopt_out idk (g_unsigned_Maximum akey (mtr (KUnsigned w)) (mrs (KUnsigned w)) fm (xroot st)) = snd (step (KUnsigned w) (sabs st) Maximum).
Proof. intros w st fm Hs Hw Hf. rewrite unsigned_maximum_text, gen_unsigned_restoreKey_eq. apply (plain_maximum (KUnsigned w) eq_refl); assumption. Qed.
Theorem gen_unsigned_size_eq : forall w K (tr : K -> list N * list N) rs st, gint_out (g_unsigned_Size K tr rs (xsize st)) = snd (step (KUnsigned w) (sabs st) Size).
Proof. reflexivity. Qed.

(* ---- signedSortedTree ---- *)
Theorem gen_signed_all_eq : forall w st fa ans, sinv st -> (forall t, xroot st = Some t -> fa = walk_fuel (tabs t)) ->
  kres_out idk (g_signed_All akey (mtr (KSigned w)) (mrs (KSigned w)) fa (xroot st) ans) = seq_out (KSigned w) (run_all (root (sabs st)) ans).
Proof. intros w st fa ans Hs Hf. unfold g_signed_All. rewrite gen_signed_restoreKey_eq. apply (plain_all (KSigned w) eq_refl); assumption. Qed.
Theorem gen_signed_backward_eq : forall w st fb ans, sinv st -> (forall t, xroot st = Some t -> fb = walk_fuel (tabs t)) ->
  kres_out idk (g_signed_Backward akey (mtr (KSigned w)) (mrs (KSigned w)) fb (xroot st) ans) = seq_out (KSigned w) (run_backward (root (sabs st)) ans).
Proof. intros w st fb ans Hs Hf. unfold g_signed_Backward. rewrite gen_signed_restoreKey_eq. apply (plain_backward (KSigned w) eq_refl); assumption. Qed.
Theorem gen_signed_topk_eq : forall w st fa fb n ans, sinv st -> n < 2 ^ 64 -> (forall t, xroot st = Some t -> fb = walk_fuel (tabs t)) ->
  kres_out idk (g_signed_TopK akey (mtr (KSigned w)) (mrs (KSigned w)) fa fb (xroot st) n ans) = seq_out (KSigned w) (run_bounded (run_backward (root (sabs st))) n ans).
Proof. intros w st fa fb n ans Hs Hn Hf. unfold g_signed_TopK. rewrite gen_signed_restoreKey_eq. apply (plain_topk (KSigned w) eq_refl); assumption. Qed.
Theorem gen_signed_bottomk_eq : forall w st fa fb n ans, sinv st -> n < 2 ^ 64 -> (forall t, xroot st = Some t -> fa = walk_fuel (tabs t)) ->
  kres_out idk (g_signed_BottomK akey (mtr (KSigned w)) (mrs (KSigned w)) fa fb (xroot st) n ans) = seq_out (KSigned w) (run_bounded (run_all (root (sabs st))) n ans).
Proof. intros w st fa fb n ans Hs Hn Hf. unfold g_signed_BottomK. rewrite gen_signed_restoreKey_eq. apply (plain_bottomk (KSigned w) eq_refl); assumption. Qed.
Lemma signed_minimum_text : forall K tr rs, g_signed_Minimum K tr rs = ref_extreme (g_signed_restoreKey K tr rs) g_minimum.
Proof. reflexivity. Qed.
Lemma signed_maximum_text : forall K tr rs, g_signed_Maximum K tr rs = ref_extreme (g_signed_restoreKey K tr rs) g_maximum.
Proof. reflexivity. Qed.
Theorem gen_signed_minimum_eq : forall w st fm, sinv st -> root_wf (sabs st) -> (forall t, xroot st = Some t -> fm = theight (tabs t)) ->
  gopt_out idk (g_signed_Minimum akey (mtr (KSigned w)) (mrs (KSigned w)) fm (xroot st)) = snd (step (KSigned w) (sabs st) Minimum).
Proof. intros w st fm Hs Hw Hf. rewrite signed_minimum_text, gen_signed_restoreKey_eq. apply (plain_minimum (KSigned w) eq_refl); assumption. Qed.
Theorem gen_signed_maximum_eq : forall w st fm, sinv st -> root_wf (sabs st) -> (forall t, xroot st = Some t -> fm = theight (tabs t)) ->
  gopt_out idk (g_signed_Maximum akey (mtr (KSigned w)) (mrs (KSigned w)) fm (xroot st)) = snd (step (KSigned w) (sabs st) Maximum).
Proof. intros w st fm Hs Hw Hf. rewrite signed_maximum_text, gen_signed_restoreKey_eq. apply (plain_maximum (KSigned w) eq_refl); assumption. Qed.
Theorem gen_signed_size_eq : forall w K (tr : K -> list N * list N) rs st, gint_out (g_signed_Size K tr rs (xsize st)) = snd (step (KSigned w) (sabs st) Size).
Proof. reflexivity. Qed.

(* ---- floatSortedTree ---- *)
Theorem gen_float_all_eq : forall w st fa ans, sinv st -> (forall t, xroot st = Some t -> fa = walk_fuel (tabs t)) ->
  kres_out idk (g_float_All akey (mtr (KFloat w)) (mrs (KFloat w)) fa (xroot st) ans) = seq_out (KFloat w) (run_all (root (sabs st)) ans).
Proof. intros w st fa ans Hs Hf. unfold g_float_All. rewrite gen_float_restoreKey_eq. apply (plain_all (KFloat w) eq_refl); assumption. Qed.
Theorem gen_float_backward_eq : forall w st fb ans, sinv st -> (forall t, xroot st = Some t -> fb = walk_fuel (tabs t)) ->
  kres_out idk (g_float_Backward akey (mtr (KFloat w)) (mrs (KFloat w)) fb (xroot st) ans) = seq_out (KFloat w) (run_backward (root (sabs st)) ans).
Proof. intros w st fb ans Hs Hf. unfold g_float_Backward. rewrite gen_float_restoreKey_eq. apply (plain_backward (KFloat w) eq_refl); assumption. Qed.
Theorem gen_float_topk_eq : forall w st fa fb n ans, sinv st -> n < 2 ^ 64 -> (forall t, xroot st = Some t -> fb = walk_fuel (tabs t)) ->
  kres_out idk (g_float_TopK akey (mtr (KFloat w)) (mrs (KFloat w)) fa fb (xroot st) n ans) = seq_out (KFloat w) (run_bounded (run_backward (root (sabs st))) n ans).
Proof. intros w st fa fb n ans Hs Hn Hf. unfold g_float_TopK. rewrite gen_float_restoreKey_eq. apply (plain_topk (KFloat w) eq_refl); assumption. Qed.
Theorem gen_float_bottomk_eq : forall w st fa fb n ans, sinv st -> n < 2 ^ 64 -> (forall t, xroot st = Some t -> fa = walk_fuel (tabs t)) ->
  kres_out idk (g_float_BottomK akey (mtr (KFloat w)) (mrs (KFloat w)) fa fb (xroot st) n ans) = seq_out (KFloat w) (run_bounded (run_all (root (sabs st))) n ans).
Proof. intros w st fa fb n ans Hs Hn Hf. unfold g_float_BottomK. rewrite gen_float_restoreKey_eq. apply (plain_bottomk (KFloat w) eq_refl); assumption. Qed.
Lemma float_minimum_text : forall K tr rs, g_float_Minimum K tr rs = ref_extreme (g_float_restoreKey K tr rs) g_minimum.
Proof. reflexivity. Qed.
Lemma float_maximum_text : forall K tr rs, g_float_Maximum K tr rs = ref_extreme (g_float_restoreKey K tr rs) g_maximum.
Proof. reflexivity. Qed.
Theorem gen_float_minimum_eq : forall w st fm, sinv st -> root_wf (sabs st) -> (forall t, xroot st = Some t -> fm = theight (tabs t)) ->
  gopt_out idk (g_float_Minimum akey (mtr (KFloat w)) (mrs (KFloat w)) fm (xroot st)) = snd (step (KFloat w) (sabs st) Minimum).
Proof. intros w st fm Hs Hw Hf. rewrite float_minimum_text, gen_float_restoreKey_eq. apply (plain_minimum (KFloat w) eq_refl); assumption. Qed.
Theorem gen_float_maximum_eq : forall w st fm, sinv st -> root_wf (sabs st) -> (forall t, xroot st = Some t -> fm = theight (tabs t)) ->
  gopt_out idk (g_float_Maximum akey (mtr (KFloat w)) (mrs (KFloat w)) fm (xroot st)) = snd (step (KFloat w) (sabs st) Maximum).
Proof. intros w st fm Hs Hw Hf. rewrite float_maximum_text, gen_float_restoreKey_eq. apply (plain_maximum (KFloat w) eq_refl); assumption. Qed.
Theorem gen_float_size_eq : forall w K (tr : K -> list N * list N) rs st, gint_out (g_float_Size K tr rs (xsize st)) = snd (step (KFloat w) (sabs st) Size).
Proof. reflexivity. Qed.

(* ---- compoundSortedTree ---- *)
Theorem gen_compound_all_eq : forall k st fa ans, is_cmp k = true -> sinv st -> (forall t, xroot st = Some t -> fa = walk_fuel (tabs t)) ->
  kres_out idk (g_compound_All akey (mtr k) (mrs k) fa (xroot st) ans) = seq_out k (run_all (root (sabs st)) ans).
Proof. intros k st fa ans Hc Hs Hf. assert (Hpk : plain_kind k = true) by (destruct k; try discriminate; reflexivity). unfold g_compound_All. rewrite gen_compound_restoreKey_eq. apply (plain_all k Hpk); assumption. Qed.
Theorem gen_compound_backward_eq : forall k st fb ans, is_cmp k = true -> sinv st -> (forall t, xroot st = Some t -> fb = walk_fuel (tabs t)) ->
  kres_out idk (g_compound_Backward akey (mtr k) (mrs k) fb (xroot st) ans) = seq_out k (run_backward (root (sabs st)) ans).
Proof. intros k st fb ans Hc Hs Hf. assert (Hpk : plain_kind k = true) by (destruct k; try discriminate; reflexivity). unfold g_compound_Backward. rewrite gen_compound_restoreKey_eq. apply (plain_backward k Hpk); assumption. Qed.
Theorem gen_compound_topk_eq : forall k st fa fb n ans, is_cmp k = true -> sinv st -> n < 2 ^ 64 -> (forall t, xroot st = Some t -> fb = walk_fuel (tabs t)) ->
  kres_out idk (g_compound_TopK akey (mtr k) (mrs k) fa fb (xroot st) n ans) = seq_out k (run_bounded (run_backward (root (sabs st))) n ans).
Proof. intros k st fa fb n ans Hc Hs Hn Hf. assert (Hpk : plain_kind k = true) by (destruct k; try discriminate; reflexivity). unfold g_compound_TopK. rewrite gen_compound_restoreKey_eq. apply (plain_topk k Hpk); assumption. Qed.
Theorem gen_compound_bottomk_eq : forall k st fa fb n ans, is_cmp k = true -> sinv st -> n < 2 ^ 64 -> (forall t, xroot st = Some t -> fa = walk_fuel (tabs t)) ->
  kres_out idk (g_compound_BottomK akey (mtr k) (mrs k) fa fb (xroot st) n ans) = seq_out k (run_bounded (run_all (root (sabs st))) n ans).
Proof. intros k st fa fb n ans Hc Hs Hn Hf. assert (Hpk : plain_kind k = true) by (destruct k; try discriminate; reflexivity). unfold g_compound_BottomK. rewrite gen_compound_restoreKey_eq. apply (plain_bottomk k Hpk); assumption. Qed.
Lemma compound_minimum_text : forall K tr rs, g_compound_Minimum K tr rs = ref_extreme (g_compound_restoreKey K tr rs) g_minimum.
Proof. reflexivity. Qed.
Lemma compound_maximum_text : forall K tr rs, g_compound_Maximum K tr rs = ref_extreme (g_compound_restoreKey K tr rs) g_maximum.
Proof. reflexivity. Qed.
Theorem gen_compound_minimum_eq : forall k st fm, is_cmp k = true -> sinv st -> root_wf (sabs st) -> (forall t, xroot st = Some t -> fm = theight (tabs t)) ->
  gopt_out idk (g_compound_Minimum akey (mtr k) (mrs k) fm (xroot st)) = snd (step k (sabs st) Minimum).
Proof. intros k st fm Hc Hs Hw Hf. assert (Hpk : plain_kind k = true) by (destruct k; try discriminate; reflexivity). rewrite compound_minimum_text, gen_compound_restoreKey_eq. apply (plain_minimum k Hpk); assumption. Qed.
Theorem gen_compound_maximum_eq : forall k st fm, is_cmp k = true -> sinv st -> root_wf (sabs st) -> (forall t, xroot st = Some t -> fm = theight (tabs t)) ->
  gopt_out idk (g_compound_Maximum akey (mtr k) (mrs k) fm (xroot st)) = snd (step k (sabs st) Maximum).
Proof. intros k st fm Hc Hs Hw Hf. assert (Hpk : plain_kind k = true) by (destruct k; try discriminate; reflexivity). rewrite compound_maximum_text, gen_compound_restoreKey_eq. apply (plain_maximum k Hpk); assumption. Qed.
Theorem gen_compound_size_eq : forall k K (tr : K -> list N * list N) rs st, gint_out (g_compound_Size K tr rs (xsize st)) = snd (step k (sabs st) Size).
Proof. reflexivity. Qed.

(* ---- alphaSortedTree ---- *)
Theorem gen_alpha_all_eq : forall tr st fa ans, sinv st -> keys_ok nonempty_key st -> (forall t, xroot st = Some t -> fa = walk_fuel (tabs t)) ->
  kres_out AB (g_alpha_All tr alpha_rs fa (xroot st) ans) = seq_out KAlpha (run_all (root (sabs st)) ans).
Proof. intros tr st fa ans Hs Hk Hf. unfold g_alpha_All. rewrite (all_out AB idk KAlpha _ nonempty_key (alpha_restoreKey_ok tr) st fa ans Hs Hk Hf). apply out_keymap_id. Qed.
Theorem gen_alpha_backward_eq : forall tr st fb ans, sinv st -> keys_ok nonempty_key st -> (forall t, xroot st = Some t -> fb = walk_fuel (tabs t)) ->
  kres_out AB (g_alpha_Backward tr alpha_rs fb (xroot st) ans) = seq_out KAlpha (run_backward (root (sabs st)) ans).
Proof. intros tr st fb ans Hs Hk Hf. unfold g_alpha_Backward. rewrite (backward_out AB idk KAlpha _ nonempty_key (alpha_restoreKey_ok tr) st fb ans Hs Hk Hf). apply out_keymap_id. Qed.
Theorem gen_alpha_topk_eq : forall tr st fa fb n ans, sinv st -> keys_ok nonempty_key st -> n < 2 ^ 64 -> (forall t, xroot st = Some t -> fb = walk_fuel (tabs t)) ->
  kres_out AB (g_alpha_TopK tr alpha_rs fa fb (xroot st) n ans) = seq_out KAlpha (run_bounded (run_backward (root (sabs st))) n ans).
Proof. intros tr st fa fb n ans Hs Hk Hn Hf. unfold g_alpha_TopK. rewrite (topk_out AB idk KAlpha _ nonempty_key (alpha_restoreKey_ok tr) st fa fb n ans Hs Hk Hn Hf). apply out_keymap_id. Qed.
Theorem gen_alpha_bottomk_eq : forall tr st fa fb n ans, sinv st -> keys_ok nonempty_key st -> n < 2 ^ 64 -> (forall t, xroot st = Some t -> fa = walk_fuel (tabs t)) ->
  kres_out AB (g_alpha_BottomK tr alpha_rs fa fb (xroot st) n ans) = seq_out KAlpha (run_bounded (run_all (root (sabs st))) n ans).
Proof. intros tr st fa fb n ans Hs Hk Hn Hf. unfold g_alpha_BottomK. rewrite (bottomk_out AB idk KAlpha _ nonempty_key (alpha_restoreKey_ok tr) st fa fb n ans Hs Hk Hn Hf). apply out_keymap_id. Qed.
Lemma alpha_minimum_text : forall tr rs, g_alpha_Minimum tr rs = ref_extreme (g_alpha_restoreKey tr rs) g_minimum.
Proof. reflexivity. Qed.
Lemma alpha_maximum_text : forall tr rs, g_alpha_Maximum tr rs = ref_extreme (g_alpha_restoreKey tr rs) g_maximum.
Proof. reflexivity. Qed.
Theorem gen_alpha_minimum_eq : forall tr st fm, sinv st -> root_wf (sabs st) -> keys_ok nonempty_key st -> (forall t, xroot st = Some t -> fm = theight (tabs t)) ->
  gopt_out AB (g_alpha_Minimum tr alpha_rs fm (xroot st)) = snd (step KAlpha (sabs st) Minimum).
Proof. intros tr st fm Hs Hw Hk Hf. rewrite alpha_minimum_text. rewrite (minimum_out AB idk KAlpha _ nonempty_key (alpha_restoreKey_ok tr) st fm Hs Hw Hk Hf). apply out_keymap_id. Qed.
Theorem gen_alpha_maximum_eq : forall tr st fm, sinv st -> root_wf (sabs st) -> keys_ok nonempty_key st -> (forall t, xroot st = Some t -> fm = theight (tabs t)) ->
  gopt_out AB (g_alpha_Maximum tr alpha_rs fm (xroot st)) = snd (step KAlpha (sabs st) Maximum).
Proof. intros tr st fm Hs Hw Hk Hf. rewrite alpha_maximum_text. rewrite (maximum_out AB idk KAlpha _ nonempty_key (alpha_restoreKey_ok tr) st fm Hs Hw Hk Hf). apply out_keymap_id. Qed.
Theorem gen_alpha_size_eq : forall tr rs st, gint_out (g_alpha_Size tr rs (xsize st)) = snd (step KAlpha (sabs st) Size).
Proof. reflexivity. Qed.

(* ---- collationSortedTree ---- *)
Theorem gen_collation_all_eq : forall tr rs st fa ans, sinv st -> (forall t, xroot st = Some t -> fa = walk_fuel (tabs t)) ->
  kres_out AB (g_collation_All tr rs fa (xroot st) ans) = out_keymap forget_col (seq_out KCollation (run_all (root (sabs st)) ans)).
Proof. intros tr rs st fa ans Hs Hf. unfold g_collation_All. apply (all_out AB forget_col KCollation _ any_key (collation_restoreKey_ok tr rs) st fa ans Hs (keys_ok_any st) Hf). Qed.
Theorem gen_collation_backward_eq : forall tr rs st fb ans, sinv st -> (forall t, xroot st = Some t -> fb = walk_fuel (tabs t)) ->
  kres_out AB (g_collation_Backward tr rs fb (xroot st) ans) = out_keymap forget_col (seq_out KCollation (run_backward (root (sabs st)) ans)).
Proof. intros tr rs st fb ans Hs Hf. unfold g_collation_Backward. apply (backward_out AB forget_col KCollation _ any_key (collation_restoreKey_ok tr rs) st fb ans Hs (keys_ok_any st) Hf). Qed.
Theorem gen_collation_topk_eq : forall tr rs st fa fb n ans, sinv st -> n < 2 ^ 64 -> (forall t, xroot st = Some t -> fb = walk_fuel (tabs t)) ->
  kres_out AB (g_collation_TopK tr rs fa fb (xroot st) n ans) = out_keymap forget_col (seq_out KCollation (run_bounded (run_backward (root (sabs st))) n ans)).
Proof. intros tr rs st fa fb n ans Hs Hn Hf. unfold g_collation_TopK. apply (topk_out AB forget_col KCollation _ any_key (collation_restoreKey_ok tr rs) st fa fb n ans Hs (keys_ok_any st) Hn Hf). Qed.
Theorem gen_collation_bottomk_eq : forall tr rs st fa fb n ans, sinv st -> n < 2 ^ 64 -> (forall t, xroot st = Some t -> fa = walk_fuel (tabs t)) ->
  kres_out AB (g_collation_BottomK tr rs fa fb (xroot st) n ans) = out_keymap forget_col (seq_out KCollation (run_bounded (run_all (root (sabs st))) n ans)).
Proof. intros tr rs st fa fb n ans Hs Hn Hf. unfold g_collation_BottomK. apply (bottomk_out AB forget_col KCollation _ any_key (collation_restoreKey_ok tr rs) st fa fb n ans Hs (keys_ok_any st) Hn Hf). Qed.
Lemma collation_minimum_text : forall tr rs, g_collation_Minimum tr rs = ref_extreme (g_collation_restoreKey tr rs) g_minimum.
Proof. reflexivity. Qed.
Lemma collation_maximum_text : forall tr rs, g_collation_Maximum tr rs = ref_extreme (g_collation_restoreKey tr rs) g_maximum.
Proof. reflexivity. Qed.
Theorem gen_collation_minimum_eq : forall tr rs st fm, sinv st -> root_wf (sabs st) -> (forall t, xroot st = Some t -> fm = theight (tabs t)) ->
  gopt_out AB (g_collation_Minimum tr rs fm (xroot st)) = out_keymap forget_col (snd (step KCollation (sabs st) Minimum)).
Proof. intros tr rs st fm Hs Hw Hf. rewrite collation_minimum_text. apply (minimum_out AB forget_col KCollation _ any_key (collation_restoreKey_ok tr rs) st fm Hs Hw (keys_ok_any st) Hf). Qed.
Theorem gen_collation_maximum_eq : forall tr rs st fm, sinv st -> root_wf (sabs st) -> (forall t, xroot st = Some t -> fm = theight (tabs t)) ->
  gopt_out AB (g_collation_Maximum tr rs fm (xroot st)) = out_keymap forget_col (snd (step KCollation (sabs st) Maximum)).
Proof. intros tr rs st fm Hs Hw Hf. rewrite collation_maximum_text. apply (maximum_out AB forget_col KCollation _ any_key (collation_restoreKey_ok tr rs) st fm Hs Hw (keys_ok_any st) Hf). Qed.
Theorem gen_collation_size_eq : forall tr rs st, gint_out (g_collation_Size tr rs (xsize st)) = snd (step KCollation (sabs st) Size).
Proof. reflexivity. Qed.
