(* Search at the tree layer: whatever the descent finds is a stored leaf with the
   probed getKey form, a stored leaf is found by descending along its own
   transformed key, the descent never runs out of fuel (for any probe, byte
   string or not), and with a probe whose two key forms are consistent with the
   content Search reads the ideal map.  Self-contained over TreeBasics: the two
   small facts shared with the delete / range developments (the inline check
   passes for a stored key, find only returns registered children) are proved
   here again so that this file depends on the node layer only. *)
From GoArt Require Import Base.Bytes Model.Node4 Model.Node16 Model.Node Model.Tree
  Spec.NodeSpec Spec.TreeSpec Proofs.BytesFacts Proofs.Node4Facts Proofs.NodeFacts Proofs.TreeBasics.
From Coq Require Import ZifyN ZifyNat ZifyBool.
Ltac Zify.zify_post_hook ::= Z.div_mod_to_equations.
Open Scope N_scope.
Local Opaque maxNode4 maxNode16 maxNode48 shrink16 shrink48 shrink256 maxPrefixLen.

(* ================================================================== *)
(* list algebra                                                        *)
(* ================================================================== *)
Lemma sf_firstn_skipn_shift : forall {A} (l : list A) d m,
  firstn m (skipn d l) = skipn d (firstn (d + m) l).
Proof.
  intros A l. induction l as [|y l IH]; intros d m.
  - rewrite !firstn_nil, !skipn_nil, firstn_nil. reflexivity.
  - destruct d as [|d]; [reflexivity|]. cbn [skipn Nat.add firstn]. apply IH.
Qed.

(* the bounded common-prefix count is the bound when the bounded parts agree *)
Lemma sf_lcpn_full : forall m a b, firstn m a = firstn m b ->
  (m <= length a)%nat -> (m <= length b)%nat -> lcpn m a b = m.
Proof.
  induction m as [|m IH]; intros a b H La Lb; [reflexivity|].
  destruct a as [|x a]; [cbn [length] in La; lia|].
  destruct b as [|y b]; [cbn [length] in Lb; lia|].
  cbn [firstn] in H. inversion H; subst. cbn [lcpn]. rewrite N.eqb_refl. f_equal.
  cbn [length] in La, Lb. apply IH; [assumption|lia|lia].
Qed.

Lemma sf_in_combine_nth : forall {A B} (ks : list A) (ch : list B) i c,
  nth_error ch i = Some c -> (length ch <= length ks)%nat -> exists k, In (k, c) (combine ks ch).
Proof.
  intros A B ks. induction ks as [|a ks IH]; intros ch i c H L.
  - destruct ch; [destruct i; discriminate|cbn [length] in L; lia].
  - destruct ch as [|c0 ch]; [destruct i; discriminate|]. destruct i as [|i]; cbn [nth_error] in H.
    + inversion H; subst. exists a. left. reflexivity.
    + cbn [length] in L. destruct (IH ch i c H) as [k Hk]; [lia|]. exists k. right. exact Hk.
Qed.

(* ================================================================== *)
(* find returns a registered child, whatever the probed value          *)
(* ================================================================== *)
Lemma sf_nfind_child : forall (n : rnode tree) b c, nwf n -> nfind n b = Some c ->
  exists b', In (b', c) (nenum n).
Proof.
  pose proof (@params_hold) as P; unfold params_ok in P.
  destruct P as (Pm4 & Pm16 & Pm48 & Ps16lo & Ps16m4 & Ps16s48 & Ps48m16 & Pm4m16 & Pm16m48 &
                 Ps48s256 & Ps256m48 & Ps256 & Ppl).
  intros n b c Hwf H. destruct (b <? 256) eqn:Eb.
  - rewrite nfind_spec in H by (assumption || lia). exists b. apply assoc_in. exact H.
  - destruct n as [h len keys ch|h len keys ch|h len idx slots|h len slots]; cbn [nfind] in H.
    + destruct Hwf as (_ & Hk & Hl & Hm & _).
      destruct (_ && _); [|discriminate]. cbn [nenum]. eapply sf_in_combine_nth; [exact H|].
      rewrite firstn_length, lanes_length. lia.
    + destruct Hwf as (_ & Hk & _ & Hl & _ & Hm & _).
      destruct (_ =? -1)%Z; [discriminate|]. cbn [nenum]. eapply sf_in_combine_nth; [exact H|].
      rewrite firstn_length. lia.
    + destruct Hwf as (_ & Hi & _). rewrite nth_overflow in H by lia.
      rewrite N.eqb_refl in H. discriminate.
    + destruct Hwf as (_ & Hs & _).
      assert (E : nth_error slots (N.to_nat b) = None) by (apply nth_error_None; lia).
      rewrite E in H. discriminate.
Qed.

(* for a byte, find returns exactly the child registered under it *)
Lemma sf_nfind_in : forall (n : rnode tree) b c, nwf n -> b < 256 -> In (b, c) (nenum n) ->
  nfind n b = Some c.
Proof.
  intros n b c Hwf Hb Hin. rewrite nfind_spec by assumption.
  apply in_assoc; [apply nenum_sorted; exact Hwf|exact Hin].
Qed.

(* ================================================================== *)
(* the descent follows a stored key                                    *)
(* ================================================================== *)
Lemma sf_descend : forall d n l, WF d (Inner n) -> In l (leaves (Inner n)) ->
  checkPrefix (nhdr n) (ltk l) d = pl_cap (nhdr n) /\
  exists b c, nth_error (ltk l) (d + prefixLen (nhdr n)) = Some b /\ In (b, c) (nenum n) /\
              In l (leaves c).
Proof.
  intros d n l HWF Hl.
  destruct (WF_path _ _ HWF) as (q & Hq & Hall & Hinl).
  pose proof (WF_inner_inv _ _ HWF) as (Hnwf & _ & _ & _).
  pose proof (Hall l Hl) as Hql.
  apply in_leaves_inner in Hl. destruct Hl as (b & c & Hin & Hlc).
  destruct (WF_leaf_long _ _ _ _ _ HWF Hin Hlc) as [Hb Hlong].
  split; [|exists b, c; repeat split; assumption].
  set (p := prefixLen (nhdr n)) in *. set (tk := ltk l) in *.
  unfold checkPrefix, pl_cap. fold p.
  replace (Nat.min (Nat.min maxPrefixLen p) (length tk - d)) with (Nat.min p maxPrefixLen) by lia.
  rewrite (Nat.min_comm maxPrefixLen p).
  destruct Hnwf as [HP _].
  apply sf_lcpn_full; [|lia|rewrite skipn_length; lia].
  rewrite Hinl. subst q. rewrite <- sf_firstn_skipn_shift, firstn_firstn. f_equal. lia.
Qed.

(* one step of Search at an inner node *)
Lemma search_inner : forall f n gk tk d,
  search (S f) (Inner n) gk tk d =
  if negb (prefixLen (nhdr n) =? 0)%nat && negb (checkPrefix (nhdr n) tk d =? pl_cap (nhdr n))%nat
  then SAbsent
  else match nth_error tk (d + prefixLen (nhdr n)) with
       | None => SAbsent
       | Some b => match nfind n b with
                   | None => SAbsent
                   | Some c => search f c gk tk (S (d + prefixLen (nhdr n)))
                   end
       end.
Proof. reflexivity. Qed.

Lemma search_leaf : forall f gk0 tk0 v gk tk d,
  search (S f) (Leaf gk0 tk0 v) gk tk d = if beq gk0 gk then SFound v else SAbsent.
Proof. reflexivity. Qed.

(* ================================================================== *)
(* soundness                                                           *)
(* ================================================================== *)
Theorem search_sound : forall fuel t gk tk d v, WF d t -> isbytes tk = true ->
  search fuel t gk tk d = SFound v -> exists l, In l (leaves t) /\ lgk l = gk /\ lv l = v.
Proof.
  induction fuel as [|f IH]; intros t gk tk d v HWF Htk H; [discriminate|].
  destruct t as [gk0 tk0 v0|n].
  - rewrite search_leaf in H. destruct (beq gk0 gk) eqn:E; [|discriminate].
    inversion H; subst v0. apply beq_eq in E. subst gk0.
    exists (gk, tk0, v). rewrite leaves_leaf. split; [left; reflexivity|]. split; reflexivity.
  - rewrite search_inner in H.
    destruct (negb (prefixLen (nhdr n) =? 0)%nat &&
              negb (checkPrefix (nhdr n) tk d =? pl_cap (nhdr n))%nat); [discriminate|].
    destruct (nth_error tk (d + prefixLen (nhdr n))) as [b|] eqn:Eb; [|discriminate].
    destruct (nfind n b) as [c|] eqn:Ef; [|discriminate].
    pose proof (WF_inner_inv _ _ HWF) as (Hnwf & _ & _ & _).
    destruct (sf_nfind_child n b c Hnwf Ef) as [b' Hin].
    destruct (WF_child _ _ _ _ HWF Hin) as [Hc _].
    replace (S (d + prefixLen (nhdr n))) with (d + prefixLen (nhdr n) + 1)%nat in H by lia.
    destruct (IH c gk tk _ v Hc Htk H) as (l & Hl & Hg & Hv).
    exists l. split; [|split; assumption].
    apply in_leaves_inner. exists b', c. split; assumption.
Qed.

(* ================================================================== *)
(* completeness                                                        *)
(* ================================================================== *)
Theorem search_complete : forall fuel t gk tk d l, WF d t -> isbytes tk = true ->
  In l (leaves t) -> ltk l = tk -> lgk l = gk ->
  (d <= length tk)%nat -> (length tk + 2 <= fuel + d)%nat ->
  search fuel t gk tk d = SFound (lv l).
Proof.
  induction fuel as [|f IH]; intros t gk tk d l HWF Htk Hl Et Eg Hd Hfuel; [lia|].
  destruct t as [gk0 tk0 v0|n].
  - rewrite leaves_leaf in Hl. destruct Hl as [<-|[]].
    rewrite search_leaf. cbn [lgk fst] in Eg. subst gk0. rewrite beq_refl. reflexivity.
  - destruct (sf_descend _ _ _ HWF Hl) as (Hcp & b & c & Hb & Hin & Hlc).
    pose proof (WF_inner_inv _ _ HWF) as (Hnwf & _ & _ & _).
    rewrite Et in Hcp, Hb.
    rewrite search_inner, Hcp, Nat.eqb_refl. cbn [negb]. rewrite andb_false_r, Hb.
    assert (Hb256 : b < 256).
    { apply (proj1 (isbytes_forall tk) Htk). eapply nth_error_In. exact Hb. }
    rewrite (sf_nfind_in n b c Hnwf Hb256 Hin).
    destruct (WF_child _ _ _ _ HWF Hin) as [Hc _].
    assert (Hlen : (d + prefixLen (nhdr n) < length tk)%nat) by (apply nth_error_Some; congruence).
    replace (S (d + prefixLen (nhdr n))) with (d + prefixLen (nhdr n) + 1)%nat by lia.
    apply IH; try assumption; lia.
Qed.

(* ================================================================== *)
(* never out of fuel                                                   *)
(* ================================================================== *)
Theorem search_nofuel : forall fuel t gk tk d, WF d t ->
  (d <= length tk)%nat -> (length tk + 2 <= fuel + d)%nat -> search fuel t gk tk d <> SFuel.
Proof.
  induction fuel as [|f IH]; intros t gk tk d HWF Hd Hfuel; [lia|].
  destruct t as [gk0 tk0 v0|n].
  - rewrite search_leaf. destruct (beq gk0 gk); discriminate.
  - rewrite search_inner.
    destruct (negb (prefixLen (nhdr n) =? 0)%nat &&
              negb (checkPrefix (nhdr n) tk d =? pl_cap (nhdr n))%nat); [discriminate|].
    destruct (nth_error tk (d + prefixLen (nhdr n))) as [b|] eqn:Eb; [|discriminate].
    destruct (nfind n b) as [c|] eqn:Ef; [|discriminate].
    pose proof (WF_inner_inv _ _ HWF) as (Hnwf & _ & _ & _).
    destruct (sf_nfind_child n b c Hnwf Ef) as [b' Hin].
    destruct (WF_child _ _ _ _ HWF Hin) as [Hc _].
    assert (Hlen : (d + prefixLen (nhdr n) < length tk)%nat) by (apply nth_error_Some; congruence).
    replace (S (d + prefixLen (nhdr n))) with (d + prefixLen (nhdr n) + 1)%nat by lia.
    apply IH; [exact Hc|lia|lia].
Qed.

(* ================================================================== *)
(* the map reading                                                     *)
(* ================================================================== *)
Theorem search_spec : forall t gk tk, WF 0 t -> isbytes tk = true ->
  (forall l, In l (leaves t) -> lgk l = gk -> ltk l = tk) ->
  search (S (S (length tk))) t gk tk 0 =
  match find_gk gk (leaves t) with Some l => SFound (lv l) | None => SAbsent end.
Proof.
  intros t gk tk HWF Htk Hcons. unfold find_gk.
  destruct (find (fun l => beq (lgk l) gk) (leaves t)) as [l|] eqn:E.
  - apply find_some in E. destruct E as [Hl Hg]. apply beq_eq in Hg.
    apply search_complete; try assumption; [apply Hcons; assumption|lia|lia].
  - destruct (search (S (S (length tk))) t gk tk 0) as [v| |] eqn:Es.
    + exfalso. destruct (search_sound _ _ _ _ _ _ HWF Htk Es) as (l & Hl & Hg & _).
      pose proof (find_none _ _ E l Hl) as Hn. cbn beta in Hn.
      rewrite Hg, beq_refl in Hn. discriminate.
    + reflexivity.
    + exfalso. revert Es. apply search_nofuel; [exact HWF|lia|lia].
Qed.
