(* Proofs/TranslateApiFacts.v, part 1 of 5: the reading of a result, what a walk delivers, seq_kv, the codecs and restoreKey, the wrappers around one scan, the scans behind Range and Prefix (shared by the parts Range / Prefix / Wrap; split so that an edit of ONE group of methods breaks the obligations of the properties about that group only) *)
From GoArt Require Import Base.Bytes Model.Node4 Model.Node16 Model.Node Model.Tree Model.Iter Model.Api
  Spec.NodeSpec Spec.TreeSpec Spec.IterSpec Proofs.BytesFacts Proofs.Node4Facts Proofs.NodeFacts Proofs.TreeBasics Proofs.NodeAux48
  Proofs.NodeAuxAssoc Proofs.NodeAuxArr Proofs.InsertFacts Proofs.IterFacts Spec.Ideal Proofs.PropFacts Proofs.TranslateFacts.
From GoArt Require Import Proofs.RangeFacts Proofs.ApiFacts Model.Pool Proofs.PoolFacts Model.PoolTree Proofs.PoolTreeFacts.
From GoArt Require Import Model.GoArith Model.GoTree Gen.Node4Gen Gen.Node16Gen Gen.TreeGen Proofs.TranslateTreeFacts
  Gen.IterGen Proofs.TranslateIterFacts Gen.ApiGen.
From Coq Require Import ZifyN ZifyNat ZifyBool.
Ltac Zify.zify_post_hook ::= Z.div_mod_to_equations.
Open Scope N_scope.


(* ================= 0. the reading of a result ================= *)
Definition kres_out {K} (inj : K -> akey) (r : kres K) : out :=
  match r with
  | KDone ByFuel _ _ => OFuel
  | KDone _ c l => OSeq (map (fun kv => (inj (fst kv), snd kv)) (rev l)) c
  | KPanic => OPanic
  | KFuel => OFuel
  end.
Definition gopt_out {K} (inj : K -> akey) (r : gres (option (K * Z))) : out :=
  match r with
  | GRet (Some kv) => OKV (inj (fst kv)) (snd kv)
  | GRet None => ONone
  | GPanic => OPanic
  | GFuel => OFuel
  end.
(* the Go side of the collation tree returns the ORIGINAL string only; the model's key AC o c also carries the
   sort key the collator computed.  out_keymap f forgets it on the model's side. *)
Definition out_keymap (f : akey -> akey) (o : out) : out :=
  match o with
  | OKV k v => OKV (f k) v
  | OSeq l c => OSeq (map (fun kv => (f (fst kv), snd kv)) l) c
  | x => x
  end.
Lemma out_keymap_id : forall o, out_keymap (fun a => a) o = o.
Proof.
  intros [| | | | | | |l c| |]; try reflexivity. cbn [out_keymap]. f_equal.
  induction l as [|[a v] l IH]; [reflexivity|]. cbn [map fst snd]. rewrite IH. reflexivity.
Qed.

(* ================= 1. what a walk delivers ================= *)
(* the leaves delivered are leaves of the trees on the stack *)
Definition leaf_in (P : lrec -> Prop) (l : tree) : Prop :=
  match l with Leaf gk tk v => P (gk, tk, v) | Inner _ => False end.

Section Delivered.
Variable leaf_act : tree -> lact.
Variable expand : rnode tree -> nat -> option (list (tree * nat)).
Variable P : lrec -> Prop.
Hypothesis expand_children : forall n d es, expand n d = Some es -> forall e, In e es -> In (fst e) (nchildren n).

Lemma walk_delivered : forall fuel stk ans i acc,
  Forall (fun e => Forall P (leaves (fst e))) stk -> Forall (leaf_in P) acc ->
  Forall (leaf_in P) (delivered (walk leaf_act expand fuel stk ans i acc)).
Proof.
  induction fuel as [|f IH]; intros stk ans i acc Hs Ha.
  - cbn [walk delivered]. apply Forall_rev. exact Ha.
  - destruct stk as [|[t d] st]; cbn [walk].
    + cbn [delivered]. apply Forall_rev. exact Ha.
    + apply Forall_cons_iff in Hs. destruct Hs as [Ht Hs]. cbn [fst] in Ht.
      destruct t as [gk tk v|n].
      * assert (Hl : leaf_in P (Leaf gk tk v)).
        { rewrite leaves_leaf in Ht. apply Forall_cons_iff in Ht. exact (proj1 Ht). }
        destruct (leaf_act (Leaf gk tk v)).
        -- destruct (ans i).
           ++ apply IH; [exact Hs|constructor; assumption].
           ++ cbn [delivered]. apply Forall_rev. constructor; assumption.
        -- apply IH; assumption.
        -- cbn [delivered]. apply Forall_rev. exact Ha.
      * destruct (expand n d) as [es|] eqn:Ee.
        -- apply IH; [|exact Ha]. apply Forall_app. split; [|exact Hs].
           apply Forall_forall. intros e He. pose proof (expand_children n d es Ee e He) as Hc.
           apply in_nchildren in Hc. destruct Hc as [b Hc].
           rewrite Forall_forall in Ht |- *. intros l Hl. apply Ht. apply in_leaves_inner. exists b, (fst e). split; assumption.
        -- apply IH; assumption.
Qed.
End Delivered.

Lemma in_with_depth : forall d cs e, In e (with_depth d cs) -> In (fst e) cs.
Proof. intros d cs e H. unfold with_depth in H. apply in_map_iff in H. destruct H as (c & <- & Hc). exact Hc. Qed.
Lemma expand_fwd_children : forall n d es, expand_fwd n d = Some es -> forall e, In e es -> In (fst e) (nchildren n).
Proof. intros n d es H e He. unfold expand_fwd in H. injection H as <-. eapply in_with_depth. exact He. Qed.
Lemma expand_bwd_children : forall n d es, expand_bwd n d = Some es -> forall e, In e es -> In (fst e) (nchildren n).
Proof. intros n d es H e He. unfold expand_bwd in H. injection H as <-. apply in_with_depth in He. apply in_rev. exact He. Qed.
Lemma expand_range_children : forall s n d es, expand_range s n d = Some es -> forall e, In e es -> In (fst e) (nchildren n).
Proof.
  intros s n d es H e He. unfold expand_range in H. cbv zeta in H.
  destruct (if _ : bool then _ else false); [discriminate|]. injection H as <-. eapply in_with_depth. exact He.
Qed.

Lemma Forall_takeN : forall {A} (Q : A -> Prop) k l, Forall Q l -> Forall Q (takeN k l).
Proof.
  intros A Q k l. revert k. induction l as [|x l IH]; intros k H; cbn [takeN]; [constructor|].
  apply Forall_cons_iff in H. destruct H as [Hx Hl]. destruct (k =? 0); [constructor|]. constructor; [exact Hx|apply IH; exact Hl].
Qed.

(* ================= 2. seq_kv: the leaves a scan passes on, restored ================= *)
(* R is the regenerated restoreKey; on the leaves the model's scan w delivers it returns what the model's
   restore_kv returns (read through inj on the Go side and g on the model's side) *)
Lemma seq_kv_out : forall {K} (inj : K -> akey) (g : akey -> akey) (k : Api.kind) (R : gref -> gres (K * Z))
    (P : lrec -> Prop) r w,
  ires_abs r = Some w -> Forall (leaf_in P) (delivered w) ->
  (forall gk tk v, P (gk, tk, v) -> exists kv, R (Some (XLeaf gk tk v)) = GRet kv /\
     inj (fst kv) = g (restore k (Leaf gk tk v)) /\ snd kv = v) ->
  kres_out inj (seq_kv R r) = out_keymap g (seq_out k w).
Proof.
  intros K inj g k R P r w Hr Hd HR. destruct r as [how c acc| |]; cbn [ires_abs] in Hr; try discriminate.
  injection Hr as <-. cbn [delivered] in Hd. unfold seq_out. cbn [status delivered calls seq_kv].
  assert (Hl : exists l, restore_list R acc = Some l /\
            map (fun kv => (inj (fst kv), snd kv)) l = map (fun kv => (g (fst kv), snd kv)) (map (restore_kv k) (map tabs acc))).
  { apply Forall_rev in Hd. rewrite rev_involutive in Hd. clear how c.
    induction acc as [|x acc IH]; [exists []; split; reflexivity|].
    cbn [map] in Hd. apply Forall_cons_iff in Hd. destruct Hd as [Hx Hd]. destruct (IH Hd) as (l & El & Em).
    destruct (tabs x) as [gk tk v|n] eqn:Ex; [|contradiction Hx]. cbn [leaf_in] in Hx.
    apply tabs_leaf_inv in Ex. subst x. destruct (HR gk tk v Hx) as (kv & Ek & Ei & Ev).
    exists (kv :: l). split.
    - cbn [restore_list]. rewrite Ek, El. reflexivity.
    - cbn [map tabs]. rewrite Em. unfold restore_kv at 1. cbn [fst snd leaf_v]. rewrite Ei, Ev. reflexivity. }
  destruct Hl as (l & El & Em). rewrite El. cbn [kres_out].
  destruct how; cbn [status_of out_keymap]; try reflexivity; rewrite !map_rev, Em; reflexivity.
Qed.

(* the bounded wrappers: what TranslateIterFacts.gen_topK_eq / gen_bottomK_eq state about the closure is what
   seq_out reads *)
Lemma bounded_out : forall {K} (inj : K -> akey) (g : akey -> akey) (k : Api.kind) (R : gref -> gres (K * Z))
    (P : lrec -> Prop) (r : ires) (w : wres),
  (exists how c acc, r = IDone how c acc /\ rev (map tabs acc) = delivered w /\ c = calls w /\ bounded_status how (status w)) ->
  Forall (leaf_in P) (delivered w) ->
  (forall gk tk v, P (gk, tk, v) -> exists kv, R (Some (XLeaf gk tk v)) = GRet kv /\
     inj (fst kv) = g (restore k (Leaf gk tk v)) /\ snd kv = v) ->
  kres_out inj (seq_kv R r) = out_keymap g (seq_out k w).
Proof.
  intros K inj g k R P r w (how & c & acc & -> & Hd & Hc & Hs) HF HR.
  rewrite (seq_kv_out inj g k R P (IDone how c acc) (mkWres (rev (map tabs acc)) c (status_of how))); [|reflexivity| |exact HR].
  - unfold seq_out. cbn [status delivered calls]. rewrite Hd, Hc. f_equal.
    destruct how; cbn [status_of bounded_status] in *; try (rewrite Hs; reflexivity).
    destruct Hs as [Hs|Hs]; rewrite Hs; reflexivity.
  - cbn [delivered]. rewrite Hd. exact HF.
Qed.

(* ================= 3. the codecs; restoreKey ================= *)
(* The codec fields are not translated: tr / rs are parameters.  They are instantiated with the model's view of
   each codec:
     numeric and compound trees   K := akey, tr := Api.transform k, rs b := Api.restore k (a leaf with getKey b)
     alpha                        K = list N; the Go codec AlphabeticalOrderKey is the identity on bytes (rs b := b; tr is
                                  never called by these methods); the terminator the model's transform adds and
                                  its restore drops is added and dropped by the TREE (regenerated: ++ [0], slice_to)
     collation                    K = list N; tr o := (o, col o) for the collator col; rs is never called *)
Definition mtr (k : Api.kind) : akey -> list N * list N := transform k.
Definition mrs (k : Api.kind) : list N -> akey := fun b => restore k (Leaf b b 0%Z).
Definition alpha_rs : list N -> list N := fun b => b.
Definition col_tr (col : list N -> list N) : list N -> list N * list N := fun o => (o, col o).
Definition forget_col (a : akey) : akey := AB (akey_bytes a).

Definition plain_kind (k : Api.kind) : bool := match k with KAlpha | KCollation => false | _ => true end.
Lemma mrs_restore : forall k gk tk v, plain_kind k = true -> mrs k gk = restore k (Leaf gk tk v).
Proof. intros [|w|w|w| |s|enc dec] gk tk v H; try discriminate; reflexivity. Qed.
Lemma mtr_same : forall k a, plain_kind k = true -> fst (mtr k a) = snd (mtr k a).
Proof. intros k a H. apply transform_same. intros ->. discriminate. Qed.

(* what the regenerated restoreKey R returns on the leaves satisfying P, against Api.restore *)
Definition restore_ok {K} (inj : K -> akey) (g : akey -> akey) (k : Api.kind) (R : gref -> gres (K * Z)) (P : lrec -> Prop) : Prop :=
  forall gk tk v, P (gk, tk, v) -> exists kv, R (Some (XLeaf gk tk v)) = GRet kv /\
    inj (fst kv) = g (restore k (Leaf gk tk v)) /\ snd kv = v.
Definition any_key : lrec -> Prop := fun _ => True.
Definition nonempty_key : lrec -> Prop := fun l => lgk l <> [].
Definition idk : akey -> akey := fun a => a.

(* the template text of restoreKey without AddNullByte *)
Definition ref_restoreKey {K} (rs : list N -> K) (ptr : gref) : gres (K * Z) :=
  match cast_leaf ptr with None => GPanic | Some l => GRet (rs (xleaf_gk l), xleaf_v l) end.
Lemma ref_restoreKey_ok : forall k, plain_kind k = true -> restore_ok idk idk k (ref_restoreKey (mrs k)) any_key.
Proof.
  intros k Hk gk tk v _. eexists. split; [reflexivity|]. cbn [fst snd]. split; [|reflexivity].
  unfold idk. apply mrs_restore. exact Hk.
Qed.

Theorem gen_unsigned_restoreKey_eq : forall K tr rs, g_unsigned_restoreKey K tr rs = ref_restoreKey rs.
Proof. reflexivity. Qed.
Theorem gen_signed_restoreKey_eq : forall K tr rs, g_signed_restoreKey K tr rs = ref_restoreKey rs.
Proof. reflexivity. Qed.
Theorem gen_float_restoreKey_eq : forall K tr rs, g_float_restoreKey K tr rs = ref_restoreKey rs.
Proof. reflexivity. Qed.
Theorem gen_compound_restoreKey_eq : forall K tr rs, g_compound_restoreKey K tr rs = ref_restoreKey rs.
Proof. reflexivity. Qed.

(* alpha: keyS[:len(keyS)-1] panics on an empty key (Api.restore uses removelast, which is total): the equality
   holds for the non-empty keys, i.e. for everything an alpha tree stores (alpha_keys_reachable below) *)
Lemma slice_to_removelast : forall (l : list N), l <> [] ->
  slice_to l (Z.of_nat (length l) - 1) = Some (removelast l).
Proof.
  intros l Hl. destruct l as [|x l]; [congruence|]. rewrite removelast_firstn_len.
  replace (Z.of_nat (length (x :: l)) - 1)%Z with (Z.of_nat (Init.Nat.pred (length (x :: l)))) by (cbn [length]; lia).
  apply slice_to_nat. cbn [length]. lia.
Qed.
Theorem gen_alpha_restoreKey_eq : forall tr rs gk tk v, gk <> [] ->
  g_alpha_restoreKey tr rs (Some (XLeaf gk tk v)) = GRet (rs (removelast gk), v).
Proof.
  intros tr rs gk tk v H. unfold g_alpha_restoreKey. cbn [cast_leaf xleaf_gk xleaf_v]. cbv zeta.
  rewrite (slice_to_removelast gk H). reflexivity.
Qed.
Theorem gen_alpha_restoreKey_empty : forall tr rs tk v, g_alpha_restoreKey tr rs (Some (XLeaf [] tk v)) = GPanic.
Proof. reflexivity. Qed.
Lemma alpha_restoreKey_ok : forall tr, restore_ok AB idk KAlpha (g_alpha_restoreKey tr alpha_rs) nonempty_key.
Proof.
  intros tr gk tk v H. unfold nonempty_key, lgk in H. cbn [fst] in H. eexists. split; [apply gen_alpha_restoreKey_eq; exact H|].
  split; reflexivity.
Qed.
Theorem gen_collation_restoreKey_eq : forall tr rs gk tk v,
  g_collation_restoreKey tr rs (Some (XLeaf gk tk v)) = GRet (gk, v).
Proof. reflexivity. Qed.
Lemma collation_restoreKey_ok : forall tr rs, restore_ok AB forget_col KCollation (g_collation_restoreKey tr rs) any_key.
Proof. intros tr rs gk tk v _. eexists. split; [reflexivity|]. split; reflexivity. Qed.
(* on nil, and on a pointer to an inner node, every restoreKey panics (a nil dereference / a stuck conversion) *)
Theorem gen_restoreKey_nil : forall K (tr : K -> list N * list N) rs tr' rs',
  g_unsigned_restoreKey K tr rs None = GPanic /\ g_alpha_restoreKey tr' rs' None = GPanic /\
  g_collation_restoreKey tr' rs' None = GPanic.
Proof. intros. repeat split. Qed.

(* ================= 4. the wrappers around one scan: All, Backward, TopK, BottomK, Minimum, Maximum, Size ================= *)
Definition keys_ok (P : lrec -> Prop) (st : xstate) : Prop :=
  match xroot st with Some t => Forall P (leaves (tabs t)) | None => True end.
Lemma keys_ok_any : forall st, keys_ok any_key st.
Proof. intros st. unfold keys_ok. destruct (xroot st); [|exact I]. apply Forall_forall. intros; exact I. Qed.

Section Wrappers.
Context {K : Type} (inj : K -> akey) (g : akey -> akey) (k : Api.kind) (R : gref -> gres (K * Z)) (P : lrec -> Prop).
Hypothesis HR : restore_ok inj g k R P.

Lemma stack1 : forall t, Forall P (leaves (tabs t)) -> Forall (fun e : tree * nat => Forall P (leaves (fst e))) [(tabs t, 0%nat)].
Proof. intros t H. constructor; [exact H|constructor]. Qed.

Lemma all_out : forall st fa ans, sinv st -> keys_ok P st -> (forall t, xroot st = Some t -> fa = walk_fuel (tabs t)) ->
  kres_out inj (seq_kv R (g_all fa (xroot st) ans)) = out_keymap g (seq_out k (run_all (root (sabs st)) ans)).
Proof.
  intros st fa ans Hs Hk Hf. unfold sinv, keys_ok in *. rewrite sabs_root. destruct (xroot st) as [t|]; [|reflexivity].
  rewrite (Hf t eq_refl). apply (seq_kv_out inj g k R P); [apply gen_all_eq; exact Hs| |exact HR].
  apply walk_delivered; [exact expand_fwd_children|apply stack1; exact Hk|constructor].
Qed.
Lemma backward_out : forall st fb ans, sinv st -> keys_ok P st -> (forall t, xroot st = Some t -> fb = walk_fuel (tabs t)) ->
  kres_out inj (seq_kv R (g_backward fb (xroot st) ans)) = out_keymap g (seq_out k (run_backward (root (sabs st)) ans)).
Proof.
  intros st fb ans Hs Hk Hf. unfold sinv, keys_ok in *. rewrite sabs_root. destruct (xroot st) as [t|]; [|reflexivity].
  rewrite (Hf t eq_refl). apply (seq_kv_out inj g k R P); [apply gen_backward_eq; exact Hs| |exact HR].
  apply walk_delivered; [exact expand_bwd_children|apply stack1; exact Hk|constructor].
Qed.

(* TopK(n) = topK over the tree's own Backward(); n is a Go uint *)
Lemma topk_out : forall st fa fb n ans, sinv st -> keys_ok P st -> n < 2 ^ 64 ->
  (forall t, xroot st = Some t -> fb = walk_fuel (tabs t)) ->
  kres_out inj (seq_kv R (g_topK (g_all fa (xroot st)) (g_backward fb (xroot st)) n ans)) =
  out_keymap g (seq_out k (run_bounded (run_backward (root (sabs st))) n ans)).
Proof.
  intros st fa fb n ans Hs Hk Hn Hf. unfold sinv, keys_ok in *. rewrite sabs_root.
  destruct (N.eqb_spec n 0) as [->|Hn0].
  { destruct (xroot st); reflexivity. }
  destruct (xroot st) as [t|].
  - rewrite (Hf t eq_refl). apply (bounded_out inj g k R P); [apply gen_topK_tree; [lia|exact Hn|exact Hs]| |exact HR].
    unfold run_bounded. destruct (n =? 0); [constructor|]. cbn [delivered]. apply Forall_takeN.
    apply walk_delivered; [exact expand_bwd_children|apply stack1; exact Hk|constructor].
  - unfold g_topK, run_bounded, run_backward. cbv zeta. destruct (N.eqb_spec n 0) as [E|_]; [contradiction|].
    cbv [range_over g_backward ref_is_nil ref_pointer]. cbn [rev range_fold delivered calls status takeN seq_kv restore_list kres_out map seq_out out_keymap N.of_nat].
    destruct (N.leb_spec 0 n); [reflexivity|lia].
Qed.
Lemma bottomk_out : forall st fa fb n ans, sinv st -> keys_ok P st -> n < 2 ^ 64 ->
  (forall t, xroot st = Some t -> fa = walk_fuel (tabs t)) ->
  kres_out inj (seq_kv R (g_bottomK (g_all fa (xroot st)) (g_backward fb (xroot st)) n ans)) =
  out_keymap g (seq_out k (run_bounded (run_all (root (sabs st))) n ans)).
Proof.
  intros st fa fb n ans Hs Hk Hn Hf. unfold sinv, keys_ok in *. rewrite sabs_root.
  destruct (N.eqb_spec n 0) as [->|Hn0].
  { destruct (xroot st); reflexivity. }
  destruct (xroot st) as [t|].
  - rewrite (Hf t eq_refl). apply (bounded_out inj g k R P); [apply gen_bottomK_tree; [lia|exact Hn|exact Hs]| |exact HR].
    unfold run_bounded. destruct (n =? 0); [constructor|]. cbn [delivered]. apply Forall_takeN.
    apply walk_delivered; [exact expand_fwd_children|apply stack1; exact Hk|constructor].
  - unfold g_bottomK, run_bounded, run_all. cbv zeta. destruct (N.eqb_spec n 0) as [E|_]; [contradiction|].
    cbv [range_over g_all ref_is_nil ref_pointer]. cbn [rev range_fold delivered calls status takeN seq_kv restore_list kres_out map seq_out out_keymap N.of_nat].
    destruct (N.leb_spec 0 n); [reflexivity|lia].
Qed.

(* the template text of Minimum / Maximum over the regenerated minimum / maximum *)
Definition ref_extreme (ext : nat -> gref -> gres gref) (fm : nat) (root : gref) : gres (option (K * Z)) :=
  match ext fm root with
  | GRet l =>
    if negb (ref_is_nil l) then
      match R l with
      | GRet r => GRet (Some (fst r, snd r))
      | GPanic => GPanic
      | GFuel => GFuel
      end
    else GRet None
  | GPanic => GPanic
  | GFuel => GFuel
  end.

Lemma extreme_leaf : forall t (ext : nat -> gref -> gres gref) (lf : nat -> tree -> option tree) (pick : list lrec -> option lrec) fm,
  (gres_map (option_map tabs) (ext fm (Some t)) = match lf fm (tabs t) with Some l => GRet (Some l) | None => GFuel end) ->
  lf fm (tabs t) = option_map to_leaf (pick (leaves (tabs t))) ->
  (forall l, pick (leaves (tabs t)) = Some l -> In l (leaves (tabs t))) -> pick (leaves (tabs t)) <> None ->
  Forall P (leaves (tabs t)) ->
  gopt_out inj (ref_extreme ext fm (Some t)) =
  out_keymap g (match lf fm (tabs t) with Some l => OKV (restore k l) (leaf_v l) | None => ONone end).
Proof.
  intros t ext lf pick fm He Hl Hin Hne HP. unfold ref_extreme. rewrite Hl in *.
  destruct (pick (leaves (tabs t))) as [lr|] eqn:Ep; [|congruence]. cbn [option_map] in *.
  destruct (ext fm (Some t)) as [[m|]| |]; cbn [gres_map option_map] in He; try discriminate.
  injection He as Em. unfold to_leaf in Em. apply tabs_leaf_inv in Em. subst m. cbn [ref_is_nil negb].
  rewrite Forall_forall in HP. pose proof (HP lr (Hin lr eq_refl)) as Hp. destruct lr as [[gk tk] v]. cbn [lgk ltk lv fst snd].
  destruct (HR gk tk v Hp) as (kv & Ek & Ei & Ev). rewrite Ek. cbn [gopt_out fst snd out_keymap leaf_v].
  unfold to_leaf. cbn [lgk ltk lv fst snd leaf_v]. rewrite Ei, Ev. reflexivity.
Qed.

Lemma hd_error_in : forall {A} (l : list A) x, hd_error l = Some x -> In x l.
Proof. intros A [|y l] x H; [discriminate|]. injection H as ->. left. reflexivity. Qed.

Lemma minimum_out : forall st fm, sinv st -> root_wf (sabs st) -> keys_ok P st ->
  (forall t, xroot st = Some t -> fm = theight (tabs t)) ->
  gopt_out inj (ref_extreme g_minimum fm (xroot st)) = out_keymap g (snd (step k (sabs st) Minimum)).
Proof.
  intros st fm Hs Hw Hk Hf. unfold sinv, root_wf, keys_ok in *. cbn [step snd]. unfold opt_min. rewrite sabs_root in *.
  destruct (xroot st) as [t|].
  - rewrite (Hf t eq_refl). unfold minimum.
    apply (extreme_leaf t g_minimum minleaf (@hd_error lrec)).
    + apply (gen_minimum_eq _ t 0%nat Hs Hw).
    + apply (minleaf_spec _ 0%nat); [lia|exact Hw].
    + intros l. apply hd_error_in.
    + pose proof (WF_nonempty _ _ Hw) as Hne. destruct (leaves (tabs t)); [congruence|discriminate].
    + exact Hk.
  - unfold ref_extreme. destruct fm; reflexivity.
Qed.
Lemma maximum_out : forall st fm, sinv st -> root_wf (sabs st) -> keys_ok P st ->
  (forall t, xroot st = Some t -> fm = theight (tabs t)) ->
  gopt_out inj (ref_extreme g_maximum fm (xroot st)) = out_keymap g (snd (step k (sabs st) Maximum)).
Proof.
  intros st fm Hs Hw Hk Hf. unfold sinv, root_wf, keys_ok in *. cbn [step snd]. unfold opt_max. rewrite sabs_root in *.
  destruct (xroot st) as [t|].
  - rewrite (Hf t eq_refl). unfold maximum.
    apply (extreme_leaf t g_maximum maxleaf (fun l => hd_error (rev l))).
    + apply (gen_maximum_eq _ t 0%nat Hs Hw).
    + apply (maxleaf_spec _ 0%nat); [lia|exact Hw].
    + intros l H. apply in_rev. apply hd_error_in. exact H.
    + pose proof (WF_nonempty _ _ Hw) as Hne. destruct (rev (leaves (tabs t))) eqn:E; [|discriminate].
      apply (f_equal (@rev _)) in E. rewrite rev_involutive in E. cbn [rev] in E. congruence.
    + exact Hk.
  - unfold ref_extreme. destruct fm; reflexivity.
Qed.
End Wrappers.

(* ================= 5. the scans behind Range and Prefix ================= *)
Section Scans.
Context {K : Type} (inj : K -> akey) (g : akey -> akey) (k : Api.kind) (R : gref -> gres (K * Z)) (P : lrec -> Prop).
Hypothesis HR : restore_ok inj g k R P.

Lemma range_out : forall st fr gs ge ts te ans, sinv st -> keys_ok P st ->
  (forall t, xroot st = Some t -> fr = walk_fuel (tabs t)) ->
  kres_out inj (seq_kv R (g_rangeScan fr (xroot st) gs ge ts te ans)) =
  out_keymap g (seq_out k (run_range (root (sabs st)) gs ge ts te ans)).
Proof.
  intros st fr gs ge ts te ans Hs Hk Hf. unfold sinv, keys_ok in *. rewrite sabs_root. destruct (xroot st) as [t|].
  - rewrite (Hf t eq_refl). apply (seq_kv_out inj g k R P); [apply gen_rangeScan_eq; exact Hs| |exact HR].
    apply walk_delivered; [apply expand_range_children|apply (stack1 P); exact Hk|constructor].
  - rewrite gen_rangeScan_nil. reflexivity.
Qed.
Lemma filter_out : forall t ff pr pred ans, xtwf t -> Forall P (leaves (tabs t)) -> (forall l, pr l = pred (tabs l)) ->
  kres_out inj (seq_kv R (g_filter ff (Some t) pr ans)) =
  out_keymap g (seq_out k (walk (fun l => if pred l then Deliver else Skip) expand_fwd ff [(tabs t, 0%nat)] ans 0 [])).
Proof.
  intros t ff pr pred ans Hx Hk Hp. apply (seq_kv_out inj g k R P); [apply gen_filter_eq; assumption| |exact HR].
  apply walk_delivered; [exact expand_fwd_children|apply (stack1 P); exact Hk|constructor].
Qed.
End Scans.

Lemma len0 : forall n, (Z.of_nat n =? 0)%Z = (n =? 0)%nat.
Proof. intros n. destruct (Z.eqb_spec (Z.of_nat n) 0); destruct (Nat.eqb_spec n 0); try reflexivity; lia. Qed.

(* maximum(t.root) on a non-empty well-formed tree: the leaf the model's maximum finds, one of its leaves *)
Lemma max_leaf : forall t, xtwf t -> WF 0 (tabs t) ->
  exists gk tk v, g_maximum (theight (tabs t)) (Some t) = GRet (Some (XLeaf gk tk v)) /\
    maximum (tabs t) = Some (Leaf gk tk v) /\ In (gk, tk, v) (leaves (tabs t)).
Proof.
  intros t Hx Hw. pose proof (gen_maximum_eq (theight (tabs t)) t 0%nat Hx Hw) as He.
  pose proof (maxleaf_spec _ 0%nat (tabs t) (le_n _) Hw) as Em0. unfold maximum. rewrite Em0 in He.
  pose proof (WF_nonempty _ _ Hw) as Hne.
  destruct (rev (leaves (tabs t))) as [|[[gk tk] v] rest] eqn:E.
  { apply (f_equal (@rev _)) in E. rewrite rev_involutive in E. cbn [rev] in E. congruence. }
  cbn [hd_error option_map] in *. exists gk, tk, v.
  destruct (g_maximum (theight (tabs t)) (Some t)) as [[m|]| |]; cbn [gres_map option_map] in He; try discriminate.
  injection He as Em. unfold to_leaf in Em. cbn [lgk ltk lv fst snd] in Em. apply tabs_leaf_inv in Em. subst m.
  split; [reflexivity|]. split; [exact Em0|]. apply in_rev.
  assert (Hin : In (gk, tk, v) (rev (leaves (tabs t)))) by (rewrite E; left; reflexivity). exact Hin.
Qed.

Definition is_cmp (k : Api.kind) : bool := match k with KCompound _ | KCodec _ _ => true | _ => false end.
