(* Helper lemmas for Proofs/NodeFacts.v, part 4: the node4 and node16 layouts
   (find, add without growth, growth 4 -> 16, delete, shrink 16 -> 4, replace,
   first / last, fan-out). *)
From GoArt Require Import Base.Bytes Model.Node4 Model.Node16 Model.Node Spec.NodeSpec
  Proofs.Node4Facts Proofs.NodeAuxAssoc Proofs.NodeAuxList Proofs.NodeAuxArr.
From Coq Require Import ZifyN ZifyNat ZifyBool.
Ltac Zify.zify_post_hook ::= Z.div_mod_to_equations.
Open Scope N_scope.

Local Opaque maxNode4 maxNode16 maxNode48 shrink16 shrink48 shrink256 maxPrefixLen.

Lemma set_at_ins : forall {A} k (l : list A) m x y, (k <= length l)%nat ->
  set_at k y (firstn m (firstn k l ++ x :: skipn k l)) = firstn m (firstn k l ++ y :: skipn k l).
Proof.
  intros A. induction k; intros l m x y H.
  - cbn [firstn skipn app]. destruct m; reflexivity.
  - destruct l as [|z l]; cbn [length] in H; [lia|].
    cbn [firstn skipn app]. destruct m; [reflexivity|]. cbn [firstn set_at]. f_equal.
    apply IHk. lia.
Qed.

Lemma firstn_nth4 : forall (l : list N) m, (4 <= length l)%nat -> (m <= 4)%nat ->
  firstn m [nth 0 l 0; nth 1 l 0; nth 2 l 0; nth 3 l 0] = firstn m l.
Proof.
  intros l m Hl Hm. do 4 (destruct l as [|? l]; [cbn [length] in Hl; lia|]).
  cbn [nth]. do 4 (destruct m as [|m]; [reflexivity|]; cbn [firstn]; f_equal).
  destruct m; [reflexivity|lia].
Qed.

Section N416.
Context {C : Type}.
Implicit Types (b : N) (c : C) (ch : list C) (h : hdr).

(* ---- node4 ---- *)
Lemma n4_find : forall h len keys ch b, nwf (N4 h len keys ch) -> b < 256 ->
  nfind (N4 h len keys ch) b = assoc b (nenum (N4 h len keys ch)).
Proof.
  intros h len keys ch b (Hp & Hk & Hl & Hm & Hs & s & Hu) Hb. params.
  cbn [nfind nenum]. rewrite searchNode4_spec by assumption.
  subst len. rewrite nat_N_Z, Nat2N.id.
  apply arr_find_all. rewrite lanes_length. lia.
Qed.

Lemma n4_add_nogrow : forall h len keys ch b c, nwf (N4 h len keys ch) -> b < 256 ->
  assoc b (nenum (N4 h len keys ch)) = None -> len < maxNode4 ->
  nwf (add4 h len keys ch b c) /\
  nenum (add4 h len keys ch b c) = ins_sorted b c (nenum (N4 h len keys ch)) /\
  nhdr (add4 h len keys ch b c) = h.
Proof.
  intros h len keys ch b c (Hp & Hk & Hl & Hm & Hs & s & Hu) Hb Ha Hlt. params.
  cbn [nenum] in *. cbn [nhdr] in Hp. unfold add4.
  destruct (len <? maxNode4) eqn:E; [|lia]. clear E.
  subst len. rewrite Nat2N.id in *.
  set (L := lanes keys) in *.
  assert (HLL : length L = 4%nat) by reflexivity.
  assert (Hn : (length ch < 4)%nat) by lia.
  assert (Hu' : forall i, (length ch <= i < length L)%nat -> nth i L 0 = s).
  { intros i Hi. unfold L. rewrite lane_nth by lia. apply Hu. lia. }
  destruct (ins_pos_ge_all L ch b s ltac:(lia) Ha Hu') as (k & Hpos & Hlo & Hhi).
  rewrite insertPosNode4_spec by assumption. fold L.
  set (ks := firstn (length ch) L) in *.
  assert (HK : length ks = length ch) by (unfold ks; rewrite firstn_length; lia).
  assert (Hkn : (k <= length ch)%nat) by (destruct Hpos as [[_ ->]|(_ & H1 & _)]; lia).
  assert (Hlo' : forall j, (j < k)%nat -> nth j ks 0 < b).
  { intros j Hj. unfold ks. rewrite nth_firstn_lt by lia. apply Hlo. exact Hj. }
  assert (Hhi' : (k < length ks)%nat -> b < nth k ks 0).
  { intros Hj. unfold ks. rewrite nth_firstn_lt by lia. apply Hhi. lia. }
  destruct (arr_add_core ks _ ch k b c HK Hs Ha ltac:(lia) Hlo' Hhi' eq_refl) as (Een & HS' & HL1 & HL2).
  rewrite <- Een.
  destruct Hpos as [[E ->]|(E & Hk1 & Hk2)]; rewrite E.
  - (* no lane >= b: append *)
    rewrite Z.eqb_refl.
    destruct (setAtPos_spec keys (length ch) b Hk Hb Hn) as [Hk' HL']. fold L in HL'.
    rewrite <- insert_at_end.
    apply (n4_intro h _ _ _ _ s); try assumption.
    + rewrite HL2. unfold u8. lia.
    + unfold u8. lia.
    + rewrite HL2, HL'. apply arr_set_prefix. lia.
    + intros i Hi. rewrite HL2 in Hi. rewrite HL'. rewrite nth_set_at_ne by lia. apply Hu'. lia.
  - (* insert at lane k *)
    destruct (Z.of_nat k =? -1)%Z eqn:E1; [lia|]. clear E1.
    replace (Z.to_N (Z.of_nat k)) with (N.of_nat k) by lia. rewrite Nat2Z.id.
    destruct (shiftLeftClear_spec keys k Hk Hk2) as [Hk1' HL1']. fold L in HL1'.
    destruct (setAtPos_spec _ k b Hk1' Hb Hk2) as [Hk' HL'].
    rewrite HL1' in HL'. rewrite set_at_ins in HL' by lia.
    apply (n4_intro h _ _ _ _ s); try assumption.
    + rewrite HL2. unfold u8. lia.
    + unfold u8. lia.
    + rewrite HL2, HL'. change 4%nat with (length L). apply arr_ins_prefix; lia.
    + intros i Hi. rewrite HL2 in Hi. rewrite HL'. rewrite nth_firstn_lt by lia.
      rewrite nth_ins_hi by lia. apply Hu'. lia.
Qed.

Lemma n4_del : forall h len keys ch b, nwf (N4 h len keys ch) -> b < 256 ->
  assoc b (nenum (N4 h len keys ch)) <> None ->
  nwf (ndel (N4 h len keys ch) b) /\
  nenum (ndel (N4 h len keys ch) b) = rem_key b (nenum (N4 h len keys ch)) /\
  nhdr (ndel (N4 h len keys ch) b) = h.
Proof.
  intros h len keys ch b (Hp & Hk & Hl & Hm & Hs & s & Hu) Hb Ha. params.
  cbn [nenum] in *. cbn [nhdr] in Hp. cbn [ndel].
  subst len. rewrite Nat2N.id in *.
  set (L := lanes keys) in *.
  assert (HLL : length L = 4%nat) by reflexivity.
  assert (Hn : (length ch <= 4)%nat) by lia.
  assert (Hu' : forall i, (length ch <= i < length L)%nat -> nth i L 0 = s).
  { intros i Hi. unfold L. rewrite lane_nth by lia. apply Hu. lia. }
  destruct (arr_present_all L ch b ltac:(lia) Ha) as (k & E & Hkn & Hkb & Hlt).
  rewrite searchNode4_spec by assumption. fold L. rewrite E.
  destruct (Z.of_nat k =? -1)%Z eqn:E1; [lia|]. clear E1.
  replace (Z.to_N (Z.of_nat k + 1)) with (N.of_nat (S k)) by lia. rewrite Nat2Z.id.
  destruct (shiftRightClear_spec keys k Hk ltac:(lia)) as [Hk' HL']. fold L in HL'.
  set (ks := firstn (length ch) L) in *.
  assert (HK : length ks = length ch) by (unfold ks; rewrite firstn_length; lia).
  destruct (arr_del_core ks ch k b HK Hs ltac:(lia)) as (Een & HS' & HL1 & HL2).
  { unfold ks. rewrite nth_firstn_lt by lia. exact Hkb. }
  { intros j Hj. unfold ks. rewrite nth_firstn_lt by lia. apply Hlt. exact Hj. }
  rewrite <- Een.
  apply (n4_intro h _ _ _ _ (nth 3 L 0)); try assumption.
  - unfold u8. lia.
  - unfold u8. lia.
  - rewrite HL'. replace (length (remove_at k ch)) with (length ch - 1)%nat by lia.
    apply arr_del_prefix; lia.
  - intros i Hi. rewrite HL'.
    destruct (Nat.eq_dec i 3) as [-> |Hne].
    + change 3%nat with (length L - 1)%nat. apply nth_shift_left_onto_last. lia.
    + rewrite nth_shift_left_onto_hi by lia. rewrite (Hu' (S i)) by lia. rewrite (Hu' 3%nat) by lia.
      reflexivity.
Qed.

Lemma n4_replace : forall h len keys ch b c, nwf (N4 h len keys ch) -> b < 256 ->
  assoc b (nenum (N4 h len keys ch)) <> None ->
  nwf (nreplace (N4 h len keys ch) b c) /\
  nenum (nreplace (N4 h len keys ch) b c) = repl_key b c (nenum (N4 h len keys ch)) /\
  nhdr (nreplace (N4 h len keys ch) b c) = h /\
  nlen (nreplace (N4 h len keys ch) b c) = len /\ nkind (nreplace (N4 h len keys ch) b c) = 4.
Proof.
  intros h len keys ch b c (Hp & Hk & Hl & Hm & Hs & s & Hu) Hb Ha. params.
  cbn [nenum] in *. cbn [nhdr] in Hp. cbn [nreplace].
  subst len. rewrite Nat2N.id in *.
  set (L := lanes keys) in *.
  assert (HLL : length L = 4%nat) by reflexivity.
  destruct (arr_present_all L ch b ltac:(lia) Ha) as (k & E & Hkn & Hkb & Hlt).
  rewrite searchNode4_spec by assumption. fold L. rewrite E.
  destruct (Z.of_nat k =? -1)%Z eqn:E1; [lia|]. clear E1.
  destruct (Z.of_nat k <? Z.of_N (N.of_nat (length ch)))%Z eqn:E2; [|lia]. clear E2.
  cbn [negb andb]. rewrite Nat2Z.id.
  set (ks := firstn (length ch) L) in *.
  assert (HK : length ks = length ch) by (unfold ks; rewrite firstn_length; lia).
  rewrite (comb_repl k ks ch b c HK ltac:(lia)).
  2:{ unfold ks. rewrite nth_firstn_lt by lia. exact Hkb. }
  2:{ intros j Hj. unfold ks. rewrite nth_firstn_lt by lia. apply Hlt. exact Hj. }
  cbn [nlen nkind nhdr nenum]. rewrite Nat2N.id. fold L. fold ks.
  repeat split; try assumption; try reflexivity.
  - rewrite length_set_at. reflexivity.
  - rewrite length_set_at. exact Hs.
  - exists s. intros i Hi. rewrite length_set_at in Hi. apply Hu. exact Hi.
Qed.

Lemma n4_first_last : forall h len keys ch, nwf (N4 h len keys ch) ->
  nfirst (N4 h len keys ch) = hd_error (map snd (nenum (N4 h len keys ch))) /\
  nlast (N4 h len keys ch) = hd_error (rev (map snd (nenum (N4 h len keys ch)))) /\
  len = u8 (N.of_nat (length (nenum (N4 h len keys ch)))) /\
  N.of_nat (length (nenum (N4 h len keys ch))) <= 4.
Proof.
  intros h len keys ch (Hp & Hk & Hl & Hm & Hs & s & Hu). params.
  cbn [nenum nfirst nlast]. subst len. rewrite Nat2N.id.
  assert (HK : length (firstn (length ch) (lanes keys)) = length ch)
    by (rewrite firstn_length, lanes_length; lia).
  rewrite comb_first, comb_last by exact HK. rewrite combine_length, HK.
  split; [reflexivity|]. split; [|unfold u8; lia].
  destruct ch as [|c0 ch0]; [destruct (N.to_nat _); reflexivity|].
  f_equal. cbn [length] in *. unfold u8. lia.
Qed.

Lemma n4_first_aux : forall h len keys ch b c rest, nwf (N4 h len keys ch) ->
  nenum (N4 h len keys ch) = (b, c) :: rest ->
  getAtPos keys 0 = b /\ nth_error ch 0 = Some c /\ (rest = [] <-> len = 1).
Proof.
  intros h len keys ch b c rest (Hp & Hk & Hl & Hm & Hs & s & Hu) He.
  cbn [nenum] in He. subst len. rewrite Nat2N.id in He.
  destruct ch as [|c0 ch]; [discriminate He|].
  unfold lanes in He. cbn [length firstn combine] in He. injection He as <- <- <-.
  split; [apply (getAtPos_spec keys 0 Hk); lia|]. split; [reflexivity|].
  destruct ch as [|c1 ch]; cbn [length firstn combine].
  - split; reflexivity.
  - split; [discriminate|]. cbn [length]. lia.
Qed.

(* ---- node16 ---- *)
Lemma n16_find : forall h len keys ch b, nwf (N16 h len keys ch) -> b < 256 ->
  nfind (N16 h len keys ch) b = assoc b (nenum (N16 h len keys ch)).
Proof.
  intros h len keys ch b (Hp & Hk & HF & Hl & Hlo & Hm & Hs) Hb. params.
  cbn [nfind nenum]. rewrite searchNode16_spec by (try assumption; lia).
  apply comb_find. subst len. rewrite Nat2N.id, firstn_length. lia.
Qed.

Lemma add16_core : forall h len keys ch b c,
  length (prefix h) = maxPrefixLen -> length keys = 16%nat -> Forall (fun x => x < 256) keys ->
  len = N.of_nat (length ch) -> shrink16 <= len -> len < maxNode16 ->
  StronglySorted N.lt (firstn (length ch) keys) -> b < 256 ->
  assoc b (combine (firstn (length ch) keys) ch) = None ->
  nwf (add16 h len keys ch b c) /\
  nenum (add16 h len keys ch b c) = ins_sorted b c (combine (firstn (length ch) keys) ch) /\
  nhdr (add16 h len keys ch b c) = h.
Proof.
  intros h len keys ch b c Hp Hk HF Hl Hlo Hlt Hs Hb Ha. params.
  unfold add16. destruct (len <? maxNode16) eqn:E; [|lia]. clear E.
  rewrite insertPosNode16_spec by (try assumption; lia).
  subst len. rewrite Nat2N.id.
  set (ks := firstn (length ch) keys) in *.
  assert (HK : length ks = length ch) by (unfold ks; rewrite firstn_length; lia).
  destruct (ins_pos_gt ks ch b HK Ha) as (k & Hpos & Hlo' & Hhi').
  assert (Hkn : (k <= length ch)%nat) by (destruct Hpos as [[_ ->]|(_ & H1)]; lia).
  destruct (arr_add_core ks _ ch k b c HK Hs Ha ltac:(lia) Hlo' Hhi' eq_refl) as (Een & HS' & HL1 & HL2).
  rewrite <- Een.
  destruct Hpos as [[E ->]|(E & Hk1)]; rewrite E.
  - rewrite Z.eqb_refl. rewrite HK in *. rewrite <- insert_at_end.
    apply n16_intro; try assumption.
    + rewrite length_set_at. exact Hk.
    + apply Forall_forall. intros y Hy. apply in_set_at in Hy. destruct Hy as [-> |Hy]; [exact Hb|].
      rewrite Forall_forall in HF. apply HF. exact Hy.
    + rewrite HL2. unfold u8. lia.
    + unfold u8. lia.
    + unfold u8. lia.
    + rewrite HL2. apply arr_set_prefix. lia.
  - destruct (Z.of_nat k =? -1)%Z eqn:E1; [lia|]. clear E1. rewrite Nat2Z.id.
    rewrite shift_right_set by lia.
    apply n16_intro; try assumption.
    + rewrite firstn_length, app_length, firstn_length. cbn [length]. rewrite skipn_length. lia.
    + apply Forall_firstn. apply Forall_app. split; [apply Forall_firstn; exact HF|].
      constructor; [exact Hb|]. apply Forall_forall. intros y Hy. apply in_skipn in Hy.
      rewrite Forall_forall in HF. apply HF. exact Hy.
    + rewrite HL2. unfold u8. lia.
    + unfold u8. lia.
    + unfold u8. lia.
    + rewrite HL2. apply arr_ins_prefix; lia.
Qed.

Lemma n16_add_nogrow : forall h len keys ch b c, nwf (N16 h len keys ch) -> b < 256 ->
  assoc b (nenum (N16 h len keys ch)) = None -> len < maxNode16 ->
  nwf (add16 h len keys ch b c) /\
  nenum (add16 h len keys ch b c) = ins_sorted b c (nenum (N16 h len keys ch)) /\
  nhdr (add16 h len keys ch b c) = h.
Proof.
  intros h len keys ch b c (Hp & Hk & HF & Hl & Hlo & Hm & Hs) Hb Ha Hlt.
  cbn [nenum] in *. cbn [nhdr] in Hp. rewrite Hl, Nat2N.id in *.
  rewrite <- Hl. apply add16_core; try assumption; lia.
Qed.

Lemma n4_add_grow : forall h len keys ch b c, nwf (N4 h len keys ch) -> b < 256 ->
  assoc b (nenum (N4 h len keys ch)) = None -> ~ len < maxNode4 ->
  nwf (add4 h len keys ch b c) /\
  nenum (add4 h len keys ch b c) = ins_sorted b c (nenum (N4 h len keys ch)) /\
  nhdr (add4 h len keys ch b c) = h.
Proof.
  intros h len keys ch b c (Hp & Hk & Hl & Hm & Hs & s & Hu) Hb Ha Hlt. params.
  cbn [nenum] in *. cbn [nhdr] in Hp. unfold add4.
  destruct (len <? maxNode4) eqn:E; [lia|]. clear E.
  rewrite deconstruct_spec by exact Hk.
  rewrite Hl, Nat2N.id in *.
  assert (EF : firstn (length ch) (lanes keys ++ repeat 0 12) = firstn (length ch) (lanes keys)).
  { rewrite firstn_app, lanes_length. replace (length ch - 4)%nat with 0%nat by lia.
    cbn [firstn]. apply app_nil_r. }
  rewrite <- EF in *. rewrite <- Hl.
  apply add16_core; try assumption; try lia.
  - rewrite app_length, lanes_length, repeat_length. reflexivity.
  - apply Forall_app. split.
    + apply Forall_forall. apply lanes_bytes.
    + apply Forall_forall. intros y Hy. apply repeat_spec in Hy. lia.
Qed.

Lemma n16_del : forall h len keys ch b, nwf (N16 h len keys ch) -> b < 256 ->
  assoc b (nenum (N16 h len keys ch)) <> None ->
  nwf (ndel (N16 h len keys ch) b) /\
  nenum (ndel (N16 h len keys ch) b) = rem_key b (nenum (N16 h len keys ch)) /\
  nhdr (ndel (N16 h len keys ch) b) = h.
Proof.
  intros h len keys ch b (Hp & Hk & HF & Hl & Hlo & Hm & Hs) Hb Ha. params.
  cbn [nenum] in *. cbn [nhdr] in Hp. cbn [ndel].
  rewrite searchNode16_spec by (try assumption; lia).
  rewrite Hl, Nat2N.id in *.
  set (ks := firstn (length ch) keys) in *.
  assert (HK : length ks = length ch) by (unfold ks; rewrite firstn_length; lia).
  destruct (comb_present ks ch b HK Ha) as (k & E & Hkn & Hkb & Hltk).
  rewrite E, Nat2Z.id.
  destruct (arr_del_core ks ch k b HK Hs Hkn Hkb Hltk) as (Een & HS' & HL1 & HL2).
  rewrite <- Een.
  assert (Hk' : length (shift_left_onto k keys) = 16%nat) by (rewrite length_shift_left_onto; lia).
  assert (HF' : Forall (fun x => x < 256) (shift_left_onto k keys)).
  { apply Forall_forall. intros y Hy. apply in_shift_left_onto in Hy.
    rewrite Forall_forall in HF. apply HF. exact Hy. }
  assert (EP : firstn (length (remove_at k ch)) (shift_left_onto k keys) = remove_at k ks).
  { replace (length (remove_at k ch)) with (length ch - 1)%nat by lia. apply arr_del_prefix; lia. }
  destruct (u8 (N.of_nat (length ch) + 255) =? shrink16) eqn:Esh.
  - (* shrink 16 -> 4 *)
    set (keys' := shift_left_onto k keys) in *.
    destruct (construct_spec (nth 0 keys' 0) (nth 1 keys' 0) (nth 2 keys' 0) (nth 3 keys' 0))
      as [Hc HLc]; try (apply Forall_nth_lt; exact HF').
    apply (n4_intro h _ _ _ _ (nth 3 keys' 0)); try assumption.
    + unfold u8. lia.
    + unfold u8 in *. lia.
    + rewrite HLc. rewrite firstn_nth4; [exact EP|lia|unfold u8 in Esh; lia].
    + intros i Hi. rewrite HLc. assert (i = 3%nat) by (unfold u8 in Esh; lia). subst i. reflexivity.
  - apply n16_intro; try assumption.
    + unfold u8. lia.
    + unfold u8 in *. lia.
    + unfold u8. lia.
Qed.

Lemma n16_replace : forall h len keys ch b c, nwf (N16 h len keys ch) -> b < 256 ->
  assoc b (nenum (N16 h len keys ch)) <> None ->
  nwf (nreplace (N16 h len keys ch) b c) /\
  nenum (nreplace (N16 h len keys ch) b c) = repl_key b c (nenum (N16 h len keys ch)) /\
  nhdr (nreplace (N16 h len keys ch) b c) = h /\
  nlen (nreplace (N16 h len keys ch) b c) = len /\ nkind (nreplace (N16 h len keys ch) b c) = 16.
Proof.
  intros h len keys ch b c (Hp & Hk & HF & Hl & Hlo & Hm & Hs) Hb Ha. params.
  cbn [nenum] in *. cbn [nhdr] in Hp. cbn [nreplace].
  rewrite searchNode16_spec by (try assumption; lia).
  rewrite Hl, Nat2N.id in *.
  set (ks := firstn (length ch) keys) in *.
  assert (HK : length ks = length ch) by (unfold ks; rewrite firstn_length; lia).
  destruct (comb_present ks ch b HK Ha) as (k & E & Hkn & Hkb & Hltk).
  rewrite E. destruct (Z.of_nat k =? -1)%Z eqn:E1; [lia|]. clear E1. rewrite Nat2Z.id.
  rewrite (comb_repl k ks ch b c HK Hkn Hkb Hltk).
  cbn [nlen nkind nhdr nenum]. rewrite Nat2N.id. fold ks.
  repeat split; try assumption; try reflexivity.
  - rewrite length_set_at. reflexivity.
  - rewrite length_set_at. exact Hs.
Qed.

Lemma n16_first_last : forall h len keys ch, nwf (N16 h len keys ch) ->
  nfirst (N16 h len keys ch) = hd_error (map snd (nenum (N16 h len keys ch))) /\
  nlast (N16 h len keys ch) = hd_error (rev (map snd (nenum (N16 h len keys ch)))) /\
  len = u8 (N.of_nat (length (nenum (N16 h len keys ch)))) /\
  N.of_nat (length (nenum (N16 h len keys ch))) <= 16 /\
  (2 <= length (nenum (N16 h len keys ch)))%nat.
Proof.
  intros h len keys ch (Hp & Hk & HF & Hl & Hlo & Hm & Hs). params.
  cbn [nenum nfirst nlast]. subst len. rewrite Nat2N.id.
  assert (HK : length (firstn (length ch) keys) = length ch)
    by (rewrite firstn_length; lia).
  rewrite comb_first, comb_last by exact HK. rewrite combine_length, HK.
  split; [reflexivity|]. split; [|unfold u8; lia].
  f_equal. unfold u8. lia.
Qed.

End N416.
