(* C10: a raw node driven by ANY legal sequence of child additions and removals,
   starting from the empty node4 the pool hands out, is a correct ordered
   byte -> child table: through every grow (4 -> 16 -> 48 -> 256) and every shrink
   (256 -> 48 -> 16 -> 4) it stays well formed, enumerates exactly the reference
   sorted association list, answers every probe like the reference, and keeps its
   header.  The per-operation facts are nadd_spec / ndel_spec of Proofs/NodeFacts.v;
   this file is the induction over the operation sequence, a closed example that
   crosses every size class in both directions, and (second part) the restatement
   of the "SWAR / bitfield routine = plain scalar scan, whatever the unoccupied
   lanes hold" facts of Proofs/Node4Facts.v. *)
From GoArt Require Import Base.Bytes Model.Node4 Model.Node16 Model.Node
  Spec.NodeSpec Proofs.Node4Facts Proofs.NodeFacts.
From Coq Require Import ZifyN ZifyNat ZifyBool.
Ltac Zify.zify_post_hook ::= Z.div_mod_to_equations.
Open Scope N_scope.

Inductive nop (C : Type) := NAdd (b : N) (c : C) | NDel (b : N).
Arguments NAdd {C} b c.
Arguments NDel {C} b.

Section Seq.
Context {C : Type}.
Implicit Types (n : rnode C) (b : N) (c : C) (l : list (N * C)).

(* the reference table: an association list sorted by byte *)
Definition tab_step (l : list (N * C)) (o : nop C) : list (N * C) :=
  match o with NAdd b c => ins_sorted b c l | NDel b => rem_key b l end.
(* an operation is legal: bytes < 256, adds of absent bytes, removes of present ones *)
Definition nop_ok (l : list (N * C)) (o : nop C) : Prop :=
  match o with NAdd b _ => b < 256 /\ assoc b l = None | NDel b => b < 256 /\ assoc b l <> None end.
Fixpoint ops_ok (l : list (N * C)) (ops : list (nop C)) : Prop :=
  match ops with [] => True | o :: ops' => nop_ok l o /\ ops_ok (tab_step l o) ops' end.
Definition node_step (n : rnode C) (o : nop C) : rnode C :=
  match o with NAdd b c => nadd n b c | NDel b => ndel n b end.

(* one legal step carries the invariant *)
Lemma node_step_spec : forall n o, nwf n -> nop_ok (nenum n) o ->
  nwf (node_step n o) /\ nenum (node_step n o) = tab_step (nenum n) o /\
  nhdr (node_step n o) = nhdr n.
Proof.
  intros n [b c|b] Hwf [Hb Ha]; cbn [node_step tab_step].
  - apply nadd_spec; assumption.
  - apply ndel_spec; assumption.
Qed.

(* any legal sequence, from any well-formed node *)
Lemma node_steps_spec : forall (ops : list (nop C)) n, nwf n -> ops_ok (nenum n) ops ->
  nwf (fold_left node_step ops n) /\
  nenum (fold_left node_step ops n) = fold_left tab_step ops (nenum n) /\
  nhdr (fold_left node_step ops n) = nhdr n.
Proof.
  induction ops as [|o ops IH]; intros n Hwf Hok.
  - cbn [fold_left]. split; [exact Hwf|split; reflexivity].
  - cbn [ops_ok] in Hok. destruct Hok as [Ho Hok].
    destruct (node_step_spec n o Hwf Ho) as (Hwf' & He' & Hh').
    cbn [fold_left]. rewrite <- He' in Hok.
    destruct (IH (node_step n o) Hwf' Hok) as (Hw & He & Hh).
    split; [exact Hw|]. split.
    + rewrite He, He'. reflexivity.
    + rewrite Hh. exact Hh'.
Qed.

(* main theorem: from an empty node4 (as the pool hands it out), through every grow and shrink *)
Theorem node_table : forall h (ops : list (nop C)), length (prefix h) = maxPrefixLen -> ops_ok [] ops ->
  let n := fold_left node_step ops (empty4 h) in
  let tab := fold_left tab_step ops [] in
  nwf n /\ nenum n = tab /\ nhdr n = h /\
  (forall b, b < 256 -> nfind n b = assoc b tab) /\
  StronglySorted N.lt (map fst (nenum n)).
Proof.
  intros h ops Hp Hok. cbv zeta.
  destruct (empty4_spec (C:=C) h Hp) as (Hwf0 & He0 & Hh0).
  rewrite <- He0 in Hok.
  destruct (node_steps_spec ops (empty4 h) Hwf0 Hok) as (Hw & He & Hh).
  rewrite He0 in He. rewrite Hh0 in Hh.
  split; [exact Hw|]. split; [exact He|]. split; [exact Hh|]. split.
  - intros b Hb. rewrite <- He. apply nfind_spec; assumption.
  - apply (nenum_sorted _ Hw).
Qed.

(* the 256 probe bytes, in order *)
Definition all_bytes : list N := map N.of_nat (seq 0 256).

Lemma all_bytes_lt : forall b, In b all_bytes -> b < 256.
Proof.
  intros b Hb. unfold all_bytes in Hb. apply in_map_iff in Hb.
  destruct Hb as (i & <- & Hi). apply in_seq in Hi. lia.
Qed.

Lemma all_bytes_complete : forall b, b < 256 -> In b all_bytes.
Proof.
  intros b Hb. unfold all_bytes. apply in_map_iff. exists (N.to_nat b).
  split; [apply N2Nat.id|]. apply in_seq. lia.
Qed.

(* probing all 256 bytes after any legal sequence returns exactly the reference column *)
Corollary node_table_probe_all : forall h (ops : list (nop C)),
  length (prefix h) = maxPrefixLen -> ops_ok [] ops ->
  map (nfind (fold_left node_step ops (empty4 h))) all_bytes =
  map (fun b => assoc b (fold_left tab_step ops [])) all_bytes.
Proof.
  intros h ops Hp Hok.
  destruct (node_table h ops Hp Hok) as (_ & _ & _ & Hf & _).
  apply map_ext_in. intros b Hb. apply Hf. apply all_bytes_lt. exact Hb.
Qed.

(* ... hence the bytes that answer are exactly the keys of the reference, and the
   number of answering bytes is the number of children *)
Corollary node_table_hits : forall h (ops : list (nop C)) b,
  length (prefix h) = maxPrefixLen -> ops_ok [] ops -> b < 256 ->
  (nfind (fold_left node_step ops (empty4 h)) b <> None <->
   In b (map fst (fold_left tab_step ops []))).
Proof.
  intros h ops b Hp Hok Hb.
  destruct (node_table h ops Hp Hok) as (Hw & He & _ & Hf & _).
  cbv zeta in *. rewrite (Hf b Hb).
  pose proof (nenum_sorted _ Hw) as Hks. rewrite He in Hks.
  split.
  - intros Hn. destruct (assoc b (fold_left tab_step ops [])) as [c|] eqn:E; [|congruence].
    apply assoc_in in E. apply in_map_iff. exists (b, c). split; [reflexivity|exact E].
  - intros Hin. apply in_map_iff in Hin. destruct Hin as ([k c] & Hk & Hin).
    cbn [fst] in Hk. subst k. rewrite (in_assoc b c _ Hks Hin). discriminate.
Qed.

End Seq.

(* ---- a closed run through every size class, up and down ---- *)
Section Example.

(* 49 children under the bytes 0, 5, 10, ..., 240 (child i under byte 5*i) ... *)
Definition ex_adds : list (nop nat) := map (fun i => NAdd (N.of_nat (5 * i)) i) (seq 0 49).
(* ... then all of them removed again except children 7 (byte 35) and 30 (byte 150) *)
Definition ex_dels : list (nop nat) :=
  map (fun i => NDel (N.of_nat (5 * i))) (seq 0 7 ++ seq 8 22 ++ seq 31 18).
Definition ex_ops : list (nop nat) := ex_adds ++ ex_dels.
Definition ex_node : rnode nat := fold_left node_step ex_ops (empty4 hdr0).

(* the size class and the recorded fan-out after each of the 96 operations *)
Fixpoint trace {A B} (f : A -> B -> A) (l : list B) (a : A) : list A :=
  match l with [] => [] | x :: l' => f a x :: trace f l' (f a x) end.

Example ex_kinds :
  map (fun n => nkind n) (trace node_step ex_ops (empty4 hdr0)) =
  (* growing: 4 children in a node4, 12 more in a node16, 32 more in a node48, the 49th in a node256 *)
  repeat 4 4 ++ repeat 16 12 ++ repeat 48 32 ++ repeat 256 1 ++
  (* shrinking: 256 -> 48 at 37 children, 48 -> 16 at 12, 16 -> 4 at 3 *)
  repeat 256 11 ++ repeat 48 25 ++ repeat 16 9 ++ repeat 4 2.
Proof. vm_compute. reflexivity. Qed.

Example ex_lens :
  map (fun n => nlen n) (trace node_step ex_ops (empty4 hdr0)) =
  map N.of_nat (seq 1 49 ++ rev (seq 2 47)).
Proof. vm_compute. reflexivity. Qed.

(* the run is legal *)
Example ex_ops_ok : ops_ok [] ex_ops.
Proof. vm_compute. repeat split; discriminate. Qed.

(* what is left is a node4 with the two survivors in byte order *)
Example ex_final : nkind ex_node = 4 /\ nlen ex_node = 2 /\ nenum ex_node = [(35, 7%nat); (150, 30%nat)].
Proof. vm_compute. repeat split; reflexivity. Qed.

(* probes: the two present bytes, their neighbours, bytes that were present at some
   point (0, 5, 240) and bytes that never were (36, 255) *)
Example ex_probe :
  map (nfind ex_node) [0; 5; 34; 35; 36; 149; 150; 151; 240; 255] =
  [None; None; None; Some 7%nat; None; None; Some 30%nat; None; None; None].
Proof. vm_compute. reflexivity. Qed.

(* probing at the top of the run (49 children, node256) *)
Example ex_probe_top :
  map (nfind (fold_left node_step ex_adds (empty4 hdr0))) [0; 1; 5; 120; 121; 240; 241; 255] =
  [Some 0%nat; None; Some 1%nat; Some 24%nat; None; Some 48%nat; None; None].
Proof. vm_compute. reflexivity. Qed.

(* all 256 probes of the final node against the reference table *)
Example ex_probe_all :
  map (nfind ex_node) all_bytes =
  map (fun b => assoc b [(35, 7%nat); (150, 30%nat)]) all_bytes.
Proof. vm_compute. reflexivity. Qed.

End Example.

(* ---- second part: the word-level routines give the same answers as a plain scalar
   scan whatever is left in unoccupied slots (restated from Proofs/Node4Facts.v) ---- *)
Theorem swar_search4_scan : forall keys b, keys < M32 -> b < 256 ->
  searchNode4 keys b = find_first (fun x => x =? b) (lanes keys) 0.
Proof. exact searchNode4_spec. Qed.

(* NB: first lane >= b, not > b *)
Theorem swar_insertpos4_scan : forall keys b, keys < M32 -> b < 256 ->
  insertPosNode4 keys b = find_first (fun x => b <=? x) (lanes keys) 0.
Proof. exact insertPosNode4_spec. Qed.

Theorem vec_search16_scan : forall keys len b, length keys = 16%nat -> len <= 16 ->
  searchNode16 keys len b = find_first (fun x => x =? b) (firstn (N.to_nat len) keys) 0.
Proof. exact searchNode16_spec. Qed.

Theorem vec_insertpos16_scan : forall keys len b, length keys = 16%nat -> len <= 16 ->
  insertPosNode16 keys len b = find_first (fun x => b <? x) (firstn (N.to_nat len) keys) 0.
Proof. exact insertPosNode16_spec. Qed.
