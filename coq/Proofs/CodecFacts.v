(* C09 for an ARBITRARY user codec.  A compound tree instantiated with a user
   BinaryComparableKey (Transform / Restore) is the kind  KCodec enc dec  of
   Model/Api.v: the caller's key is an opaque byte string  AB u,  Transform is
   enc,  Restore is  dec.  Spec/Semantics.v gives no meaning to this kind; the
   contract of the codec comes as the hypotheses of the section below:
     - encodings are byte strings,
     - enc is injective,
     - no encoding is a proper prefix of another one,
     - the byte order of the encodings is the user's order  ult,
     - dec undoes enc.
   Under the contract every history over valid keys satisfies the history
   predicate of theorem (A) (codec_history_ok); hence the tree refines the
   reference map and is an exact map (codec_map), and its content is sorted in
   the user's order with the keys decoded back through the codec (codec_order).

   The Range / extremes / iteration / Size statements of C02, C03, C05, C06
   (Proofs/PropFacts.v: all_backward, range_reference, extremes, none_iff_empty,
   bounded, size_is_cardinality, ...) are generic in the kind and only need
   history_ok,  so they apply to  KCodec enc dec  through  codec_history_ok;
   Range is the compound branch of do_range / ideal_range (encoded bounds
   compared bytewise, open end on an empty encoded end bound, swap), Prefix
   panics (no HasPrefix), exactly as for schema-described compound trees.

   Remark: enc_inj is implied by either enc_pfree (a string is a prefix of
   itself) or dec_enc; it is kept because it is part of the stated contract. *)
From GoArt Require Import Base.Bytes Model.Keys Model.Node Model.Tree Model.Iter Model.Api
  Spec.NodeSpec Spec.TreeSpec Spec.IterSpec Spec.Ideal Spec.Semantics
  Proofs.BytesFacts Proofs.ApiFacts Proofs.KeySemantics Proofs.IdealFacts Proofs.PropFacts.
From Coq Require Import ZifyN ZifyNat ZifyBool Sorted.
Ltac Zify.zify_post_hook ::= Z.div_mod_to_equations.
Open Scope N_scope.

Section Codec.
Variables (enc dec : list N -> list N) (valid : list N -> Prop) (ult : list N -> list N -> Prop).
Hypothesis enc_bytes  : forall u, valid u -> isbytes (enc u) = true.
Hypothesis enc_inj    : forall u v, valid u -> valid v -> enc u = enc v -> u = v.
Hypothesis enc_pfree  : forall u v, valid u -> valid v -> is_prefix (enc u) (enc v) -> u = v.
Hypothesis enc_order  : forall u v, valid u -> valid v -> (lex_lt (enc u) (enc v) <-> ult u v).
Hypothesis dec_enc    : forall u, valid u -> dec (enc u) = u.

Local Notation k := (KCodec enc dec).

Lemma codec_transform : forall u, transform k (AB u) = (enc u, enc u).
Proof. reflexivity. Qed.

Lemma codec_key_of : forall l, key_of k l = AB (dec (lgk l)).
Proof. reflexivity. Qed.

(* every history over valid keys satisfies the predicate of theorem (A) *)
Theorem codec_history_ok : forall ops,
  (forall a, In a (flat_map ins_keys ops) -> exists u, a = AB u /\ valid u) ->
  (forall a, In a (flat_map (probe_keys k) ops) -> exists u, a = AB u /\ valid u) ->
  history_ok k ops = true.
Proof using enc_bytes enc_inj enc_pfree enc_order dec_enc.
  intros ops HI HP. unfold history_ok.
  apply andb_true_iff. split; [apply andb_true_iff; split|].
  - (* inserted keys *)
    unfold ins_ok, ins_pairs. apply forallb_forall. intros p Hp.
    apply in_map_iff in Hp. destruct Hp as (a & <- & Ia).
    destruct (HI a Ia) as (u & -> & Vu). rewrite codec_transform. cbn [fst snd].
    apply andb_true_iff. split; [apply enc_bytes; exact Vu|].
    apply forallb_forall. intros q Hq.
    apply in_map_iff in Hq. destruct Hq as (b & <- & Ib).
    destruct (HI b Ib) as (v & -> & Vv). rewrite codec_transform.
    apply andb_true_iff. split.
    + unfold pair_compat. cbn [fst snd]. apply eqb_reflx.
    + unfold pair_pfree. cbn [fst snd].
      destruct (has_prefix (enc v) (enc u)) eqn:E; [|reflexivity].
      apply has_prefix_spec in E. apply (enc_pfree u v Vu Vv) in E. subst v.
      cbn [negb orb]. apply beq_refl.
  - (* probes *)
    unfold probe_pairs. apply forallb_forall. intros p Hp.
    apply in_map_iff in Hp. destruct Hp as (a & <- & Ia).
    destruct (HP a Ia) as (u & -> & Vu). rewrite codec_transform.
    unfold probe_ok. cbn [fst snd]. apply andb_true_iff.
    split; [apply enc_bytes; exact Vu|].
    apply forallb_forall. intros q Hq.
    unfold ins_pairs in Hq. apply in_map_iff in Hq. destruct Hq as (b & <- & Ib).
    destruct (HI b Ib) as (v & -> & Vv). rewrite codec_transform. cbn [fst snd].
    destruct (beq (enc v) (enc u)); reflexivity.
  - (* operations: every operation is allowed on a compound tree *)
    apply forallb_forall. intros o _. destruct o; reflexivity.
Qed.

(* hence: exact map, refinement of the reference, sorted content, distinct keys *)
Theorem codec_map : forall ops,
  (forall a, In a (flat_map ins_keys ops) -> exists u, a = AB u /\ valid u) ->
  (forall a, In a (flat_map (probe_keys k) ops) -> exists u, a = AB u /\ valid u) ->
  outs k ops = snd (ideal_run k [] ops) /\ map_outputs_ok k [] ops (outs k ops) /\
  StronglySorted lex_lt (map ltk (cs_of k ops)) /\ NoDup (map lgk (cs_of k ops)).
Proof using enc_bytes enc_inj enc_pfree enc_order dec_enc.
  intros ops HI HP. pose proof (codec_history_ok ops HI HP) as H.
  split; [apply refines_reference; exact H|]. split; [apply exact_map; exact H|].
  destruct (content k ops H) as (A & B & _). split; assumption.
Qed.

(* the byte order of the stored encodings is the user's order *)
Lemma codec_sorted_transfer : forall cs us,
  Forall2 (fun l u => valid u /\ lgk l = enc u /\ ltk l = enc u /\ key_of k l = AB u) cs us ->
  StronglySorted lex_lt (map ltk cs) -> StronglySorted ult us.
Proof using enc_order.
  intros cs us HF. induction HF as [|l u cs us (Vu & _ & Et & _) HF IH]; intros HS.
  - constructor.
  - cbn [map] in HS. inversion HS as [|x xs HS' Hall]; subst x xs.
    constructor; [apply IH; exact HS'|].
    clear IH HS HS'. induction HF as [|l' u' cs us (Vu' & _ & Et' & _) HF IH]; [constructor|].
    cbn [map] in Hall. inversion Hall as [|x xs Hlt Hall']; subst x xs.
    constructor; [|apply IH; exact Hall'].
    apply (enc_order u u' Vu Vu'). rewrite <- Et, <- Et'. exact Hlt.
Qed.

(* the content, read through the codec: the user's keys, in the user's order *)
Theorem codec_order : forall ops,
  (forall a, In a (flat_map ins_keys ops) -> exists u, a = AB u /\ valid u) ->
  (forall a, In a (flat_map (probe_keys k) ops) -> exists u, a = AB u /\ valid u) ->
  exists us,
    Forall2 (fun l u => valid u /\ lgk l = enc u /\ ltk l = enc u /\ key_of k l = AB u)
            (cs_of k ops) us /\
    StronglySorted ult us.
Proof using enc_bytes enc_inj enc_pfree enc_order dec_enc.
  intros ops HI HP. pose proof (codec_history_ok ops HI HP) as H.
  destruct (Forall2_choice
    (fun l u => valid u /\ lgk l = enc u /\ ltk l = enc u /\ key_of k l = AB u)
    (cs_of k ops)) as [us HF].
  - intros l Hl. destruct (stored_from_history k ops l Hl) as (a & v & Ha & Et).
    destruct (HI a) as (u & -> & Vu).
    { apply in_flat_map. exists (Insert a v). split; [exact Ha|left; reflexivity]. }
    rewrite codec_transform in Et. injection Et as Eg Etk.
    exists u. split; [exact Vu|]. split; [exact Eg|]. split; [exact Etk|].
    rewrite codec_key_of, Eg, (dec_enc u Vu). reflexivity.
  - exists us. split; [exact HF|]. apply (codec_sorted_transfer (cs_of k ops) us HF).
    apply ideal_sorted. exact H.
Qed.
End Codec.

(* ================================================================== *)
(* the contract is satisfiable: a codec no field schema describes       *)
(* ================================================================== *)
(* length-prefixed byte strings: one length byte, then the bytes.  The byte
   order of the encodings is the shortlex order (shorter first, equal lengths
   bytewise), which is not the order of any schema of Model/Keys.v. *)
Definition lp_enc (u : list N) : list N := N.of_nat (length u) :: u.
Definition lp_dec (l : list N) : list N := tl l.
Definition lp_valid (u : list N) : Prop := isbytes u = true /\ (length u < 256)%nat.
Definition lp_lt (u v : list N) : Prop :=
  (length u < length v)%nat \/ (length u = length v /\ lex_lt u v).

Lemma lp_contract :
  (forall u, lp_valid u -> isbytes (lp_enc u) = true) /\
  (forall u v, lp_valid u -> lp_valid v -> lp_enc u = lp_enc v -> u = v) /\
  (forall u v, lp_valid u -> lp_valid v -> is_prefix (lp_enc u) (lp_enc v) -> u = v) /\
  (forall u v, lp_valid u -> lp_valid v -> (lex_lt (lp_enc u) (lp_enc v) <-> lp_lt u v)) /\
  (forall u, lp_valid u -> lp_dec (lp_enc u) = u).
Proof.
  unfold lp_enc, lp_dec, lp_valid, lp_lt.
  split; [|split; [|split; [|split]]].
  - intros u [Hb Hl]. rewrite isbytes_cons, Hb, andb_true_r. apply isbyte_spec. lia.
  - intros u v _ _ E. injection E as _ E. exact E.
  - intros u v _ _ H. apply is_prefix_cons in H. destruct H as [E H].
    apply is_prefix_length_eq; [exact H|lia].
  - intros u v _ _. rewrite lex_lt_cons. split.
    + intros [H|[E H]]; [left; lia|right; split; [lia|exact H]].
    + intros [H|[E H]]; [left; lia|right; split; [lia|exact H]].
  - intros u _. reflexivity.
Qed.

Theorem lp_codec_map : forall ops,
  (forall a, In a (flat_map ins_keys ops) -> exists u, a = AB u /\ lp_valid u) ->
  (forall a, In a (flat_map (probe_keys (KCodec lp_enc lp_dec)) ops) ->
     exists u, a = AB u /\ lp_valid u) ->
  history_ok (KCodec lp_enc lp_dec) ops = true /\
  outs (KCodec lp_enc lp_dec) ops = snd (ideal_run (KCodec lp_enc lp_dec) [] ops) /\
  map_outputs_ok (KCodec lp_enc lp_dec) [] ops (outs (KCodec lp_enc lp_dec) ops) /\
  exists us,
    Forall2 (fun l u => lp_valid u /\ lgk l = lp_enc u /\ ltk l = lp_enc u /\
                        key_of (KCodec lp_enc lp_dec) l = AB u)
            (cs_of (KCodec lp_enc lp_dec) ops) us /\
    StronglySorted lp_lt us.
Proof.
  intros ops HI HP. destruct lp_contract as (A & B & C & D & E).
  split; [exact (codec_history_ok lp_enc lp_dec lp_valid lp_lt A B C D E ops HI HP)|].
  destruct (codec_map lp_enc lp_dec lp_valid lp_lt A B C D E ops HI HP) as (M1 & M2 & _).
  split; [exact M1|]. split; [exact M2|].
  exact (codec_order lp_enc lp_dec lp_valid lp_lt A B C D E ops HI HP).
Qed.

(* a concrete run: three keys come back in shortlex order, decoded; Range with an
   open end and swapped bounds; Delete and Search *)
Definition lp_ops : list op :=
  [Insert (AB [5; 6]) 1; Insert (AB [7]) 2; Insert (AB []) 3; Insert (AB [2; 9]) 4;
   All None; Backward None; Minimum; Maximum; Size;
   Range (AB [7]) (AB [5; 6]) None; Range (AB [5; 6]) (AB [7]) None;
   Delete (AB [7]); Search (AB [7]); Search (AB [2; 9]); All None].

Example lp_run :
  history_ok (KCodec lp_enc lp_dec) lp_ops = true /\
  outs (KCodec lp_enc lp_dec) lp_ops =
  [OUnit; OUnit; OUnit; OUnit;
   OSeq [(AB [], 3%Z); (AB [7], 2%Z); (AB [2; 9], 4%Z); (AB [5; 6], 1%Z)] 4;
   OSeq [(AB [5; 6], 1%Z); (AB [2; 9], 4%Z); (AB [7], 2%Z); (AB [], 3%Z)] 4;
   OKV (AB []) 3%Z; OKV (AB [5; 6]) 1%Z; OSize 4%Z;
   OSeq [(AB [7], 2%Z); (AB [2; 9], 4%Z); (AB [5; 6], 1%Z)] 3;
   OSeq [(AB [7], 2%Z); (AB [2; 9], 4%Z); (AB [5; 6], 1%Z)] 3;
   OBool true; OAbsent; OFound 4%Z;
   OSeq [(AB [], 3%Z); (AB [2; 9], 4%Z); (AB [5; 6], 1%Z)] 3].
Proof. split; vm_compute; reflexivity. Qed.
