(* Helper material for Proofs/Node4Facts.v: words of four byte lanes, lane-wise
   meaning of the bit operations and of the 32-bit subtraction, exhaustive
   sweeps over bytes, trailing-zero count, bitfields. Standard library only. *)
From GoArt Require Import Base.Bytes Model.Node4 Model.Node16.
From Coq Require Import ZifyN ZifyNat ZifyBool.
Ltac Zify.zify_post_hook ::= Z.div_mod_to_equations.
Open Scope N_scope.

(* ------------------------------------------------------------------ *)
(* exhaustive sweeps over bytes                                         *)
(* ------------------------------------------------------------------ *)
Definition bytes256 : list N := map N.of_nat (seq 0 256).

Lemma in_bytes256 : forall a, a < 256 -> In a bytes256.
Proof.
  intros a H. unfold bytes256. apply in_map_iff. exists (N.to_nat a).
  split; [lia|]. apply in_seq. lia.
Qed.

Definition all1 (P : N -> bool) : bool := forallb P bytes256.
Definition all2 (P : N -> N -> bool) : bool :=
  forallb (fun a => forallb (P a) bytes256) bytes256.

Lemma all1_spec : forall P, all1 P = true -> forall a, a < 256 -> P a = true.
Proof.
  intros P H a Ha. unfold all1 in H. rewrite forallb_forall in H.
  apply H. apply in_bytes256. exact Ha.
Qed.

Lemma all2_spec : forall P, all2 P = true ->
  forall a b, a < 256 -> b < 256 -> P a b = true.
Proof.
  intros P H a b Ha Hb. unfold all2 in H. rewrite forallb_forall in H.
  specialize (H a (in_bytes256 a Ha)). rewrite forallb_forall in H.
  apply H. apply in_bytes256. exact Hb.
Qed.

(* sweep a byte and a bit *)
Definition all1b (P : N -> N -> bool) : bool := all1 (fun a => P a 0 && P a 1).
Lemma all1b_spec : forall P, all1b P = true ->
  forall a c, a < 256 -> c < 2 -> P a c = true.
Proof.
  intros P H a c Ha Hc. pose proof (all1_spec _ H a Ha) as H1.
  apply andb_true_iff in H1. destruct H1 as [H0 H1].
  assert (c = 0 \/ c = 1) as [-> | ->] by lia; assumption.
Qed.

Lemma lxor_byte : forall a b, a < 256 -> b < 256 -> N.lxor a b < 256.
Proof.
  intros a b Ha Hb. apply N.ltb_lt.
  apply (all2_spec (fun a b => N.lxor a b <? 256)); [vm_compute; reflexivity | |]; assumption.
Qed.

Lemma lor_byte : forall a b, a < 256 -> b < 256 -> N.lor a b < 256.
Proof.
  intros a b Ha Hb. apply N.ltb_lt.
  apply (all2_spec (fun a b => N.lor a b <? 256)); [vm_compute; reflexivity | |]; assumption.
Qed.

Lemma land_byte : forall a b, a < 256 -> b < 256 -> N.land a b < 256.
Proof.
  intros a b Ha Hb. apply N.ltb_lt.
  apply (all2_spec (fun a b => N.land a b <? 256)); [vm_compute; reflexivity | |]; assumption.
Qed.

Lemma lxor_255 : forall a, a < 256 -> N.lxor a 255 = 255 - a.
Proof.
  intros a Ha. apply N.eqb_eq.
  apply (all1_spec (fun a => N.lxor a 255 =? 255 - a)); [vm_compute; reflexivity | assumption].
Qed.

Lemma land_255 : forall a, a < 256 -> N.land a 255 = a.
Proof.
  intros a Ha. apply N.eqb_eq.
  apply (all1_spec (fun a => N.land a 255 =? a)); [vm_compute; reflexivity | assumption].
Qed.


(* ------------------------------------------------------------------ *)
(* bits of x + 256 * X                                                  *)
(* ------------------------------------------------------------------ *)
Lemma testbit_lane : forall x X n, x < 256 ->
  N.testbit (x + 256 * X) n = if n <? 8 then N.testbit x n else N.testbit X (n - 8).
Proof.
  intros x X n Hx. destruct (n <? 8) eqn:E.
  - apply N.ltb_lt in E.
    rewrite <- (N.mod_pow2_bits_low (x + 256 * X) 8 n) by exact E.
    change (2 ^ 8) with 256.
    replace ((x + 256 * X) mod 256) with x by lia. reflexivity.
  - apply N.ltb_ge in E.
    replace n with ((n - 8) + 8) at 1 by lia.
    rewrite <- N.div_pow2_bits. change (2 ^ 8) with 256.
    replace ((x + 256 * X) / 256) with X by lia. reflexivity.
Qed.

Lemma land_lane : forall a A b B, a < 256 -> b < 256 ->
  N.land (a + 256 * A) (b + 256 * B) = N.land a b + 256 * N.land A B.
Proof.
  intros a A b B Ha Hb. apply N.bits_inj. intro n.
  rewrite N.land_spec, !testbit_lane by auto using land_byte.
  destruct (n <? 8); rewrite N.land_spec; reflexivity.
Qed.

Lemma lor_lane : forall a A b B, a < 256 -> b < 256 ->
  N.lor (a + 256 * A) (b + 256 * B) = N.lor a b + 256 * N.lor A B.
Proof.
  intros a A b B Ha Hb. apply N.bits_inj. intro n.
  rewrite N.lor_spec, !testbit_lane by auto using lor_byte.
  destruct (n <? 8); rewrite N.lor_spec; reflexivity.
Qed.

Lemma lxor_lane : forall a A b B, a < 256 -> b < 256 ->
  N.lxor (a + 256 * A) (b + 256 * B) = N.lxor a b + 256 * N.lxor A B.
Proof.
  intros a A b B Ha Hb. apply N.bits_inj. intro n.
  rewrite N.lxor_spec, !testbit_lane by auto using lxor_byte.
  destruct (n <? 8); rewrite N.lxor_spec; reflexivity.
Qed.

(* ------------------------------------------------------------------ *)
(* words of four lanes                                                  *)
(* ------------------------------------------------------------------ *)
Definition pack (a b c d : N) : N := a + 256 * b + 65536 * c + 16777216 * d.

Lemma pack_nest : forall a b c d,
  pack a b c d = a + 256 * (b + 256 * (c + 256 * d)).
Proof. intros. unfold pack. lia. Qed.

Lemma pack_lt : forall a b c d, a < 256 -> b < 256 -> c < 256 -> d < 256 ->
  pack a b c d < M32.
Proof. intros. unfold pack, M32. lia. Qed.

Lemma unpack : forall keys, keys < M32 ->
  exists a b c d, a < 256 /\ b < 256 /\ c < 256 /\ d < 256 /\ keys = pack a b c d.
Proof.
  intros keys H. unfold M32 in H.
  exists (keys mod 256), (keys / 256 mod 256), (keys / 65536 mod 256), (keys / 16777216).
  unfold pack. lia.
Qed.

Lemma land_pack : forall a b c d a' b' c' d',
  a < 256 -> b < 256 -> c < 256 -> a' < 256 -> b' < 256 -> c' < 256 ->
  N.land (pack a b c d) (pack a' b' c' d') =
  pack (N.land a a') (N.land b b') (N.land c c') (N.land d d').
Proof.
  intros. rewrite !pack_nest. rewrite !land_lane by assumption. reflexivity.
Qed.

Lemma lor_pack : forall a b c d a' b' c' d',
  a < 256 -> b < 256 -> c < 256 -> a' < 256 -> b' < 256 -> c' < 256 ->
  N.lor (pack a b c d) (pack a' b' c' d') =
  pack (N.lor a a') (N.lor b b') (N.lor c c') (N.lor d d').
Proof.
  intros. rewrite !pack_nest. rewrite !lor_lane by assumption. reflexivity.
Qed.

Lemma lxor_pack : forall a b c d a' b' c' d',
  a < 256 -> b < 256 -> c < 256 -> a' < 256 -> b' < 256 -> c' < 256 ->
  N.lxor (pack a b c d) (pack a' b' c' d') =
  pack (N.lxor a a') (N.lxor b b') (N.lxor c c') (N.lxor d d').
Proof.
  intros. rewrite !pack_nest. rewrite !lxor_lane by assumption. reflexivity.
Qed.

Lemma lane_pack : forall a b c d, a < 256 -> b < 256 -> c < 256 -> d < 256 ->
  lane (pack a b c d) 0 = a /\ lane (pack a b c d) 1 = b /\
  lane (pack a b c d) 2 = c /\ lane (pack a b c d) 3 = d.
Proof.
  intros. unfold lane.
  change (256 ^ N.of_nat 0) with 1. change (256 ^ N.of_nat 1) with 256.
  change (256 ^ N.of_nat 2) with 65536. change (256 ^ N.of_nat 3) with 16777216.
  unfold pack. lia.
Qed.

Lemma lanes_pack : forall a b c d, a < 256 -> b < 256 -> c < 256 -> d < 256 ->
  lanes (pack a b c d) = [a; b; c; d].
Proof.
  intros a b c d Ha Hb Hc Hd. unfold lanes.
  destruct (lane_pack a b c d Ha Hb Hc Hd) as (-> & -> & -> & ->). reflexivity.
Qed.

(* ------------------------------------------------------------------ *)
(* 32-bit subtraction as a borrow chain over the lanes                  *)
(* ------------------------------------------------------------------ *)
Definition sub_lane (x s bin : N) : N := (x + 256 - s - bin) mod 256.
Definition sub_bor (x s bin : N) : N := if x <? s + bin then 1 else 0.

Lemma sub_bor_bit : forall x s bin, sub_bor x s bin < 2.
Proof. intros. unfold sub_bor. destruct (x <? s + bin); lia. Qed.

Lemma sub_lane_byte : forall x s bin, sub_lane x s bin < 256.
Proof. intros. unfold sub_lane. apply N.mod_lt. lia. Qed.

Lemma sub_lane_eq : forall x s bin, x < 256 -> s < 256 -> bin < 2 ->
  sub_lane x s bin + s + bin = x + 256 * sub_bor x s bin.
Proof.
  intros. unfold sub_lane, sub_bor. destruct (x <? s + bin) eqn:E; lia.
Qed.

Lemma sub32_pack : forall x0 x1 x2 x3 s0 s1 s2 s3,
  x0 < 256 -> x1 < 256 -> x2 < 256 -> x3 < 256 ->
  s0 < 256 -> s1 < 256 -> s2 < 256 -> s3 < 256 ->
  let b0 := sub_bor x0 s0 0 in
  let b1 := sub_bor x1 s1 b0 in
  let b2 := sub_bor x2 s2 b1 in
  sub32 (pack x0 x1 x2 x3) (pack s0 s1 s2 s3) =
  pack (sub_lane x0 s0 0) (sub_lane x1 s1 b0) (sub_lane x2 s2 b1) (sub_lane x3 s3 b2).
Proof.
  intros x0 x1 x2 x3 s0 s1 s2 s3 Hx0 Hx1 Hx2 Hx3 Hs0 Hs1 Hs2 Hs3 b0 b1 b2.
  assert (Hb0 : b0 < 2) by apply sub_bor_bit.
  assert (Hb1 : b1 < 2) by apply sub_bor_bit.
  assert (Hb2 : b2 < 2) by apply sub_bor_bit.
  pose (b3 := sub_bor x3 s3 b2).
  assert (Hb3 : b3 < 2) by apply sub_bor_bit.
  assert (E0 := sub_lane_eq x0 s0 0 Hx0 Hs0 ltac:(lia)). fold b0 in E0.
  assert (E1 := sub_lane_eq x1 s1 b0 Hx1 Hs1 Hb0). fold b1 in E1.
  assert (E2 := sub_lane_eq x2 s2 b1 Hx2 Hs2 Hb1). fold b2 in E2.
  assert (E3 := sub_lane_eq x3 s3 b2 Hx3 Hs3 Hb2). fold b3 in E3.
  assert (L0 := sub_lane_byte x0 s0 0). assert (L1 := sub_lane_byte x1 s1 b0).
  assert (L2 := sub_lane_byte x2 s2 b1). assert (L3 := sub_lane_byte x3 s3 b2).
  set (l0 := sub_lane x0 s0 0) in *. set (l1 := sub_lane x1 s1 b0) in *.
  set (l2 := sub_lane x2 s2 b1) in *. set (l3 := sub_lane x3 s3 b2) in *.
  clearbody l0 l1 l2 l3 b3 b2 b1 b0.
  unfold sub32. rewrite (N.mod_small (pack s0 s1 s2 s3) M32) by (apply pack_lt; assumption).
  symmetry. apply N.mod_unique with (q := 1 - b3).
  - apply pack_lt; assumption.
  - unfold pack, M32.
    assert (b3 = 0 \/ b3 = 1) as [-> | ->] by lia; lia.
Qed.

(* ------------------------------------------------------------------ *)
(* find_first                                                           *)
(* ------------------------------------------------------------------ *)
Lemma ff_range : forall f l i, (0 <= i)%Z ->
  find_first f l i = (-1)%Z \/ (i <= find_first f l i < i + Z.of_nat (length l))%Z.
Proof.
  intros f l. induction l as [|x l IH]; intros i Hi; simpl find_first.
  - left. reflexivity.
  - destruct (f x).
    + right. simpl length. lia.
    + destruct (IH (i + 1)%Z ltac:(lia)) as [H | H]; [left; exact H | right; simpl length; lia].
Qed.

Lemma ff_none : forall f l i, (0 <= i)%Z ->
  (find_first f l i = (-1)%Z <-> forall x, In x l -> f x = false).
Proof.
  intros f l. induction l as [|x l IH]; intros i Hi; simpl find_first.
  - split; [intros _ y [] | reflexivity].
  - destruct (f x) eqn:E.
    + split; [lia | intros H; specialize (H x (or_introl eq_refl)); congruence].
    + rewrite (IH (i + 1)%Z ltac:(lia)). split.
      * intros H y [<- | Hy]; auto.
      * intros H y Hy. apply H. right. exact Hy.
Qed.

Lemma ff_some : forall f l i k, (0 <= i)%Z -> find_first f l i = (i + Z.of_nat k)%Z ->
  (k < length l)%nat /\ f (nth k l 0) = true /\ forall j, (j < k)%nat -> f (nth j l 0) = false.
Proof.
  intros f l. induction l as [|x l IH]; intros i k Hi; simpl find_first.
  - lia.
  - destruct (f x) eqn:E.
    + intros H. assert (k = 0%nat) by lia. subst k. simpl. repeat split; [lia | exact E | lia].
    + intros H. destruct k as [|k].
      * destruct (ff_range f l (i + 1)%Z ltac:(lia)); lia.
      * destruct (IH (i + 1)%Z k ltac:(lia) ltac:(lia)) as (H1 & H2 & H3).
        simpl. repeat split; [lia | exact H2 |].
        intros [|j] Hj; [exact E | apply H3; lia].
Qed.

Lemma ff_intro_gen : forall f l k i, (k < length l)%nat -> f (nth k l 0) = true ->
  (forall j, (j < k)%nat -> f (nth j l 0) = false) -> find_first f l i = (i + Z.of_nat k)%Z.
Proof.
  intros f l. induction l as [|x l IH]; intros k i Hk Ht Hf; simpl in Hk; [lia|].
  simpl find_first. destruct k as [|k].
  - simpl in Ht. rewrite Ht. lia.
  - pose proof (Hf 0%nat ltac:(lia)) as H0. simpl in H0. rewrite H0. simpl in Ht.
    rewrite (IH k (i + 1)%Z); [lia | lia | exact Ht |].
    intros j Hj. apply (Hf (S j)). lia.
Qed.

Lemma ff_intro : forall f l k, (k < length l)%nat -> f (nth k l 0) = true ->
  (forall j, (j < k)%nat -> f (nth j l 0) = false) -> find_first f l 0 = Z.of_nat k.
Proof. intros. rewrite (ff_intro_gen f l k 0%Z) by assumption. lia. Qed.


(* ------------------------------------------------------------------ *)
(* not / shifts on packed words                                         *)
(* ------------------------------------------------------------------ *)
Ltac bytes :=
  repeat first [ assumption | apply land_byte | apply lor_byte | apply lxor_byte
               | apply sub_lane_byte | lia ].

Lemma not32_pack : forall a b c d, a < 256 -> b < 256 -> c < 256 -> d < 256 ->
  not32 (pack a b c d) = pack (255 - a) (255 - b) (255 - c) (255 - d).
Proof.
  intros. unfold not32, u32. rewrite N.mod_small by (apply pack_lt; assumption).
  change 0xFFFFFFFF with (pack 255 255 255 255).
  rewrite lxor_pack by bytes. rewrite !lxor_255 by assumption. reflexivity.
Qed.

Lemma shl32_pack_8 : forall a b c d, a < 256 -> b < 256 -> c < 256 -> d < 256 ->
  shl32 (pack a b c d) 8 = pack 0 a b c.
Proof.
  intros. unfold shl32. rewrite N.shiftl_mul_pow2. change (2 ^ 8) with 256.
  symmetry. apply N.mod_unique with (q := d); [apply pack_lt; bytes|].
  unfold pack, M32. lia.
Qed.

Lemma shr32_pack : forall a b c d, a < 256 -> b < 256 -> c < 256 -> d < 256 ->
  shr32 (pack a b c d) 0 = pack a b c d /\
  shr32 (pack a b c d) 8 = pack b c d 0 /\
  shr32 (pack a b c d) 16 = pack c d 0 0 /\
  shr32 (pack a b c d) 24 = pack d 0 0 0.
Proof.
  intros. unfold shr32, u32. rewrite N.mod_small by (apply pack_lt; assumption).
  rewrite !N.shiftr_div_pow2.
  change (2 ^ 0) with 1. change (2 ^ 8) with 256. change (2 ^ 16) with 65536.
  change (2 ^ 24) with 16777216. unfold pack. repeat split.
  - apply N.div_1_r.
  - symmetry. apply N.div_unique with (r := a); lia.
  - symmetry. apply N.div_unique with (r := a + 256 * b); lia.
  - symmetry. apply N.div_unique with (r := a + 256 * b + 65536 * c); lia.
Qed.

Lemma shr32_pack_8 : forall a b c d, a < 256 -> b < 256 -> c < 256 -> d < 256 ->
  shr32 (pack a b c d) 8 = pack b c d 0.
Proof. intros. apply shr32_pack; assumption. Qed.

Lemma shl32_byte : forall b, b < 256 ->
  shl32 b 0 = pack b 0 0 0 /\ shl32 b 8 = pack 0 b 0 0 /\
  shl32 b 16 = pack 0 0 b 0 /\ shl32 b 24 = pack 0 0 0 b.
Proof.
  intros. unfold shl32. rewrite !N.shiftl_mul_pow2.
  change (2 ^ 0) with 1. change (2 ^ 8) with 256. change (2 ^ 16) with 65536.
  change (2 ^ 24) with 16777216.
  repeat split; (rewrite N.mod_small; [unfold pack; lia | unfold M32; lia]).
Qed.

Lemma pack_mod256 : forall a b c d, a < 256 -> (pack a b c d) mod 256 = a.
Proof.
  intros. symmetry. apply N.mod_unique with (q := b + 256 * c + 65536 * d); [lia|].
  unfold pack. lia.
Qed.

(* rewrite a closed 32-bit word into its four lanes *)
Ltac close_word t :=
  let v := eval vm_compute in t in
  let a := eval vm_compute in (v mod 256) in
  let b := eval vm_compute in (v / 256 mod 256) in
  let c := eval vm_compute in (v / 65536 mod 256) in
  let d := eval vm_compute in (v / 16777216) in
  replace t with (pack a b c d) by (vm_compute; reflexivity).

Ltac close_shift i :=
  let v := eval vm_compute in (N.shiftl (N.of_nat i) 3) in
  change (N.shiftl (N.of_nat i) 3) with v.

Ltac simp_lanes :=
  rewrite ?N.land_0_r, ?N.lor_0_r, ?N.lor_0_l, ?N.land_0_l, ?land_255 by assumption.

Ltac finish_lanes :=
  simp_lanes; split; [apply pack_lt; bytes | rewrite lanes_pack by bytes; reflexivity].


(* ------------------------------------------------------------------ *)
(* insertPosNode4: per-lane unsigned comparison *)
(* ------------------------------------------------------------------ *)
Lemma sub32_pack' : forall x0 x1 x2 x3 s0 s1 s2 s3,
  x0 < 256 -> x1 < 256 -> x2 < 256 -> x3 < 256 ->
  s0 < 256 -> s1 < 256 -> s2 < 256 -> s3 < 256 ->
  sub32 (pack x0 x1 x2 x3) (pack s0 s1 s2 s3) =
  pack (sub_lane x0 s0 0)
       (sub_lane x1 s1 (sub_bor x0 s0 0))
       (sub_lane x2 s2 (sub_bor x1 s1 (sub_bor x0 s0 0)))
       (sub_lane x3 s3 (sub_bor x2 s2 (sub_bor x1 s1 (sub_bor x0 s0 0)))).
Proof. intros. apply sub32_pack; assumption. Qed.

Lemma mul32_ones : forall b, b < 256 -> mul32 ones01 b = pack b b b b.
Proof.
  intros. unfold mul32, ones01. rewrite N.mod_small; unfold pack, M32; lia.
Qed.

Ltac pack_ops :=
  repeat (rewrite ?lor_pack, ?land_pack, ?lxor_pack, ?sub32_pack', ?not32_pack by bytes).

(* ---- insertPosNode4 ---- *)
Definition ins_lane (k b : N) : N :=
  N.land (N.lxor (N.lor (sub_lane (N.lor k 128) (N.land b 127) 0) (N.lxor k b))
                 (N.lor k (255 - b))) 128.

Lemma ins_lane_spec : forall k b, k < 256 -> b < 256 ->
  ins_lane k b = if k <? b then 128 else 0.
Proof.
  intros k b Hk Hb. apply N.eqb_eq.
  apply (all2_spec (fun k b => ins_lane k b =? if k <? b then 128 else 0));
    [vm_compute; reflexivity | |]; assumption.
Qed.

Lemma ins_nobor : forall k b, k < 256 -> b < 256 ->
  sub_bor (N.lor k 128) (N.land b 127) 0 = 0.
Proof.
  intros k b Hk Hb. apply N.eqb_eq.
  apply (all2_spec (fun k b => sub_bor (N.lor k 128) (N.land b 127) 0 =? 0));
    [vm_compute; reflexivity | |]; assumption.
Qed.

(* ------------------------------------------------------------------ *)
(* searchNode4: has-zero-byte trick, lowest flag *)
(* ------------------------------------------------------------------ *)
(* ---- searchNode4 ---- *)
(* flag of one lane of (x - 0x01010101) & ^x & 0x80808080, x the xor word,
   bin the borrow coming from the lanes below *)
Definition srch_lane (x bin : N) : N :=
  N.land (N.land (sub_lane x 1 bin) (255 - x)) 128.

(* extraction of the lowest flag *)
Definition srch_tail (isMatch : N) : Z :=
  if isMatch =? 0 then (-1)%Z
  else (Z.of_N (shr32 (mul32 (N.land (sub32 isMatch 1) ones01) ones01) 24) - 1)%Z.

Lemma srch_lane_flag : forall x bin, x < 256 -> bin < 2 ->
  srch_lane x bin = 0 \/ srch_lane x bin = 128.
Proof.
  intros x bin Hx Hbin.
  assert (H : (srch_lane x bin =? 0) || (srch_lane x bin =? 128) = true).
  { apply (all1b_spec (fun x bin => (srch_lane x bin =? 0) || (srch_lane x bin =? 128)));
      [vm_compute; reflexivity | |]; assumption. }
  apply orb_true_iff in H. destruct H as [H | H]; apply N.eqb_eq in H; auto.
Qed.

(* without incoming borrow the flag is exact, and only a zero lane borrows *)
Lemma srch_lane_exact : forall x, x < 256 ->
  srch_lane x 0 = (if x =? 0 then 128 else 0) /\
  sub_bor x 1 0 = (if x =? 0 then 1 else 0).
Proof.
  intros x Hx.
  assert (H : (srch_lane x 0 =? if x =? 0 then 128 else 0) &&
              (sub_bor x 1 0 =? if x =? 0 then 1 else 0) = true).
  { apply (all1_spec (fun x => (srch_lane x 0 =? if x =? 0 then 128 else 0) &&
                               (sub_bor x 1 0 =? if x =? 0 then 1 else 0)));
      [vm_compute; reflexivity | assumption]. }
  apply andb_true_iff in H. destruct H as [H1 H2].
  apply N.eqb_eq in H1. apply N.eqb_eq in H2. auto.
Qed.

Lemma srch_chain : forall x0 x1 x2 x3, x0 < 256 -> x1 < 256 -> x2 < 256 -> x3 < 256 ->
  srch_tail (pack (srch_lane x0 0)
                  (srch_lane x1 (sub_bor x0 1 0))
                  (srch_lane x2 (sub_bor x1 1 (sub_bor x0 1 0)))
                  (srch_lane x3 (sub_bor x2 1 (sub_bor x1 1 (sub_bor x0 1 0))))) =
  find_first (fun x => x =? 0) [x0; x1; x2; x3] 0.
Proof.
  intros x0 x1 x2 x3 H0 H1 H2 H3. cbv [find_first].
  destruct (srch_lane_exact x0 H0) as [E F]. rewrite E, F. clear E F.
  destruct (x0 =? 0).
  { destruct (srch_lane_flag x1 1 H1 ltac:(lia)) as [-> | ->];
    destruct (srch_lane_flag x2 (sub_bor x1 1 1) H2 (sub_bor_bit _ _ _)) as [-> | ->];
    destruct (srch_lane_flag x3 (sub_bor x2 1 (sub_bor x1 1 1)) H3 (sub_bor_bit _ _ _)) as [-> | ->];
    vm_compute; reflexivity. }
  destruct (srch_lane_exact x1 H1) as [E F]. rewrite E, F. clear E F.
  destruct (x1 =? 0).
  { destruct (srch_lane_flag x2 1 H2 ltac:(lia)) as [-> | ->];
    destruct (srch_lane_flag x3 (sub_bor x2 1 1) H3 (sub_bor_bit _ _ _)) as [-> | ->];
    vm_compute; reflexivity. }
  destruct (srch_lane_exact x2 H2) as [E F]. rewrite E, F. clear E F.
  destruct (x2 =? 0).
  { destruct (srch_lane_flag x3 1 H3 ltac:(lia)) as [-> | ->];
    vm_compute; reflexivity. }
  destruct (srch_lane_exact x3 H3) as [E F]. rewrite E. clear E F.
  destruct (x3 =? 0); vm_compute; reflexivity.
Qed.

Lemma lxor_eqb0 : forall k b, (N.lxor k b =? 0) = (k =? b).
Proof.
  intros k b. destruct (k =? b) eqn:E.
  - apply N.eqb_eq in E. subst. apply N.eqb_eq. apply N.lxor_nilpotent.
  - apply N.eqb_neq in E. apply N.eqb_neq. intro H. apply E. apply N.lxor_eq. exact H.
Qed.

(* ------------------------------------------------------------------ *)
(* node16: trailing zeros, bitfield, and-mask *)
(* ------------------------------------------------------------------ *)
(* ---- trailing zeros ---- *)
Lemma tz_pos_spec : forall p,
  N.testbit (Npos p) (tz_pos p) = true /\
  forall j, j < tz_pos p -> N.testbit (Npos p) j = false.
Proof.
  induction p as [p IH | p IH |].
  - split; [reflexivity | cbn [tz_pos]; intros; lia].
  - destruct IH as [IH1 IH2]. cbn [tz_pos].
    change (N.pos p~0) with (2 * N.pos p). rewrite N.add_1_l. split.
    + rewrite N.testbit_even_succ by lia. exact IH1.
    + intros j Hj. destruct (N.eq_dec j 0) as [-> | Hn].
      * apply N.testbit_even_0.
      * replace j with (N.succ (N.pred j)) by lia.
        rewrite N.testbit_even_succ by lia. apply IH2. lia.
  - split; [reflexivity | cbn [tz_pos]; intros; lia].
Qed.

Lemma tz_spec : forall x, x <> 0 ->
  N.testbit x (tz x) = true /\ forall j, j < tz x -> N.testbit x j = false.
Proof. intros [|p] H; [congruence | apply tz_pos_spec]. Qed.

(* ---- bitfield ---- *)
Lemma bitfield_testbit : forall f l i n,
  N.testbit (bitfield f l i) n =
  (i <=? n) && (n <? i + N.of_nat (length l)) && f (nth (N.to_nat (n - i)) l 0).
Proof.
  intros f l. induction l as [|k l IH]; intros i n; cbn [bitfield length].
  - rewrite N.bits_0. destruct (i <=? n) eqn:E1; destruct (n <? i + N.of_nat 0) eqn:E2;
      try reflexivity; lia.
  - rewrite N.lor_spec, IH.
    assert (Hk : N.testbit (if f k then N.shiftl 1 i else 0) n = (i =? n) && f k).
    { destruct (f k); [rewrite N.shiftl_1_l, N.pow2_bits_eqb, andb_true_r; reflexivity
                      | rewrite N.bits_0, andb_false_r; reflexivity]. }
    rewrite Hk. clear Hk.
    destruct (N.lt_trichotomy n i) as [Hlt | [-> | Hgt]].
    + replace (i =? n) with false by lia. replace (i + 1 <=? n) with false by lia.
      replace (i <=? n) with false by lia. reflexivity.
    + rewrite N.eqb_refl. replace (i + 1 <=? i) with false by lia.
      replace (i <=? i) with true by lia.
      replace (i <? i + N.of_nat (S (length l))) with true by lia.
      rewrite N.sub_diag. cbn [N.to_nat nth andb orb]. rewrite orb_false_r. reflexivity.
    + replace (i =? n) with false by lia. replace (i + 1 <=? n) with true by lia.
      replace (i <=? n) with true by lia.
      replace (n <? i + 1 + N.of_nat (length l)) with (n <? i + N.of_nat (S (length l))) by lia.
      replace (N.to_nat (n - i)) with (S (N.to_nat (n - (i + 1)))) by lia.
      cbn [nth andb orb]. reflexivity.
Qed.

Lemma lanemask_testbit : forall len n, N.testbit (lanemask len) n = (n <? len).
Proof.
  intros len n. unfold lanemask. rewrite N.shiftl_1_l, N.sub_1_r, <- N.ones_equiv.
  destruct (n <? len) eqn:E.
  - apply N.ones_spec_low. lia.
  - apply N.ones_spec_high. lia.
Qed.

Lemma nth_firstn_lt : forall (l : list N) n k d, (k < n)%nat -> nth k (firstn n l) d = nth k l d.
Proof.
  induction l as [|x l IH]; intros n k d H.
  - rewrite firstn_nil. reflexivity.
  - destruct n as [|n]; [lia|]. destruct k as [|k]; [reflexivity|].
    cbn [firstn nth]. apply IH. lia.
Qed.

Lemma bitfield_scan : forall f keys len, N.of_nat (length keys) = 16 -> len <= 16 ->
  (let bf := N.land (bitfield f (firstn 16 keys) 0) (lanemask len) in
   if bf =? 0 then (-1)%Z else Z.of_N (tz bf)) =
  find_first f (firstn (N.to_nat len) keys) 0.
Proof.
  intros f keys len Hlen Hle. rewrite firstn_all2 by lia.
  set (bf := N.land (bitfield f keys 0) (lanemask len)). cbv zeta.
  assert (Hbit : forall n, N.testbit bf n = (n <? len) && f (nth (N.to_nat n) keys 0)).
  { intro n. unfold bf. rewrite N.land_spec, bitfield_testbit, lanemask_testbit, N.sub_0_r.
    destruct (n <? len) eqn:E; [|rewrite andb_false_r; reflexivity].
    replace (0 <=? n) with true by lia.
    replace (n <? 0 + N.of_nat (length keys)) with true by lia.
    cbn [andb]. rewrite andb_true_r. reflexivity. }
  assert (Hnth : forall k, (k < N.to_nat len)%nat ->
            nth k (firstn (N.to_nat len) keys) 0 = nth k keys 0).
  { intros k Hk. apply nth_firstn_lt. exact Hk. }
  assert (Hfl : length (firstn (N.to_nat len) keys) = N.to_nat len).
  { rewrite firstn_length. lia. }
  destruct (bf =? 0) eqn:E.
  - apply N.eqb_eq in E. symmetry. apply ff_none; [lia|].
    intros x Hx. apply (In_nth _ _ 0) in Hx. destruct Hx as (k & Hk & <-).
    rewrite Hfl in Hk. rewrite Hnth by exact Hk.
    specialize (Hbit (N.of_nat k)). rewrite E, N.bits_0 in Hbit.
    replace (N.of_nat k <? len) with true in Hbit by lia.
    rewrite Nat2N.id in Hbit. cbn [andb] in Hbit. congruence.
  - apply N.eqb_neq in E. destruct (tz_spec bf E) as [T1 T2].
    rewrite Hbit in T1. apply andb_true_iff in T1. destruct T1 as [T1 T1'].
    apply N.ltb_lt in T1.
    rewrite (ff_intro f _ (N.to_nat (tz bf))).
    + lia.
    + rewrite Hfl. lia.
    + rewrite Hnth by lia. exact T1'.
    + intros j Hj. rewrite Hnth by lia.
      specialize (T2 (N.of_nat j) ltac:(lia)). rewrite Hbit in T2.
      replace (N.of_nat j <? len) with true in T2 by lia.
      rewrite Nat2N.id in T2. exact T2.
Qed.
